(** C13 — spawn / pool / wait: a small-step interleaving model of
    /repo/src/run.rs [Uiua::spawn] (1411-1525), [wait] (1527-1595),
    [send]/[recv] (1596-1630) and of the [threadpool] crate's documented behaviour
    ([execute] enqueues a job, a free worker dequeues it and counts as active
    until the job ends; [active_count] = number of running jobs).
    Executable definitions only. *)
From Coq Require Import List NArith Bool Arith.
Import ListNotations.

(** * Programs *)
Inductive instr :=
| Push (v : N)
| Pop
| Dup
| Work (n : nat)                         (* n scheduling points without effect *)
| AddAll                                 (* stack := [sum of the stack] : stands for a pure F *)
| Fork (pool : bool) (k : nat) (body : list instr)   (* spawn F / pool F, F takes k arguments *)
| Wait (i : nat)                         (* wait on child id i (ids count from 1, run.rs:144,1508) *)
| WaitAll (done todo : list nat) (acc : list N)  (* wait on an array of ids: the loop at run.rs:1561;
                                            source programs have done = [] and acc = [] *)
| Send (i : nat)                         (* send the top value to peer i (0 = parent) *)
| Recv (i : nat).

Definition code := list instr.
Definition res := option (list N).       (* None: the thread ended with an error *)

Fixpoint sumN (s : list N) : N := match s with [] => 0%N | x :: r => (x + sumN r)%N end.

Fixpoint upd {A} (n : nat) (x : A) (l : list A) : list A :=
  match l, n with
  | [], _ => []
  | _ :: l', 0 => x :: l'
  | y :: l', S n' => y :: upd n' x l'
  end.

(** * Sequential meaning: spawn F / pool F runs F at once, wait returns its stack *)
Definition take_kid (i : nat) (kids : list (option res)) : option (list N * list (option res)) :=
  match i with
  | 0 => None
  | S j => match nth_error kids j with
           | Some (Some (Some r)) => Some (r, upd j None kids)
           | _ => None
           end
  end.

Fixpoint gather (todo : list nat) (acc : list N) (kids : list (option res)) : option (list N * list (option res)) :=
  match todo with
  | [] => Some (acc, kids)
  | i :: todo' => match take_kid i kids with
                  | Some (r, kids') => gather todo' (acc ++ r) kids'
                  | None => None
                  end
  end.

(** effect of one instruction on (stack, children); the body of a fork is evaluated at once *)
Fixpoint ev_i (ins : instr) (s : list N) (kids : list (option res)) {struct ins} : option (list N * list (option res)) :=
  match ins with
  | Push v => Some (v :: s, kids)
  | Pop => match s with [] => None | _ :: s' => Some (s', kids) end
  | Dup => match s with [] => None | v :: s' => Some (v :: v :: s', kids) end
  | Work _ => Some (s, kids)
  | AddAll => Some ([sumN s], kids)
  | Fork _ k b =>
    if length s <? k then None
    else Some (skipn k s,
               kids ++ [Some ((fix ev (c : code) (s : list N) (kids : list (option res)) {struct c} : res :=
                                 match c with
                                 | [] => Some s
                                 | i :: c' => match ev_i i s kids with
                                              | Some (s', kids') => ev c' s' kids'
                                              | None => None
                                              end
                                 end) b (firstn k s) [])])
  | Wait i => match take_kid i kids with
              | Some (r, kids') => Some (r ++ s, kids')
              | None => None
              end
  | WaitAll _ todo acc => match gather todo acc kids with
                          | Some (a, kids') => Some (a ++ s, kids')
                          | None => None
                          end
  | Send _ => None
  | Recv _ => None
  end.

Fixpoint seqev (c : code) (s : list N) (kids : list (option res)) {struct c} : res :=
  match c with
  | [] => Some s
  | i :: c' => match ev_i i s kids with
               | Some (s', kids') => seqev c' s' kids'
               | None => None
               end
  end.

(** * Syntactic classes *)
Fixpoint nopool_i (ins : instr) : bool :=
  match ins with Fork p _ b => negb p && forallb nopool_i b | _ => true end.
Definition nopool (c : code) : bool := forallb nopool_i c.

(** no [pool] is executed inside a pool task (or a thread descending from one) *)
Fixpoint flat_i (ins : instr) : bool :=
  match ins with
  | Fork true _ b => nopool b
  | Fork false _ b => forallb flat_i b
  | _ => true
  end.
Definition flat (c : code) : bool := forallb flat_i c.

(** side-effect free: no send / recv *)
Fixpoint pure_i (ins : instr) : bool :=
  match ins with Fork _ _ b => forallb pure_i b | Send _ => false | Recv _ => false | _ => true end.
Definition pure (c : code) : bool := forallb pure_i c.

(** source programs: array waits have not started *)
Fixpoint fresh_i (ins : instr) : bool :=
  match ins with
  | Fork _ _ b => forallb fresh_i b
  | WaitAll d _ a => match d, a with [], [] => true | _, _ => false end
  | _ => true
  end.
Definition fresh (c : code) : bool := forallb fresh_i c.

(** pool nesting depth: 0 = no pool, 1 = pool tasks that do not pool, ... *)
Fixpoint pdepth_i (ins : instr) : nat :=
  match ins with
  | Fork p _ b => (if p then 1 else 0) + list_max (map pdepth_i b)
  | _ => 0
  end.
Definition pdepth (c : code) : nat := list_max (map pdepth_i c).

(** * Threads, channels, the pool *)
Inductive status := Queued | Running | Done (r : res).

Record thread := mkT {
  t_code : code;
  t_stack : list N;                  (* head = top *)
  t_kids : list (nat * bool);        (* child id i -> (thread, already waited); run.rs:135 *)
  t_poolk : bool;                    (* runs as a job of the pool: counted in active_count *)
  t_inpool : bool;                   (* a pool task is among its ancestors-or-self:
                                        ThisThread::in_pool, run.rs:138, set at run.rs:1429 *)
  t_spec : res;                      (* ghost: sequential meaning of the body on its arguments *)
  t_st : status }.

(** unbounded FIFO channel with ghost logs of everything sent / received *)
Record chan := mkC { cq : list N; csent : list N; crcvd : list N }.
Definition ech := mkC [] [] [].
Definition ch_send (v : N) (c : chan) := mkC (cq c ++ [v]) (csent c ++ [v]) (crcvd c).
Definition ch_recv (c : chan) : option (N * chan) :=
  match cq c with [] => None | v :: q => Some (v, mkC q (csent c) (crcvd c ++ [v])) end.

Record state := mkS {
  thr : list thread;
  chs : list (chan * chan);          (* per thread: (to parent, from parent); run.rs:1422-1423 *)
  qu : list nat;                     (* jobs handed to ThreadPool::execute, not yet started *)
  act : nat;                         (* ThreadPool::active_count *)
  lck : option nat;                  (* holder of the Mutex around the pool; run.rs:1472 *)
  mx : nat;                          (* MAX_THREADS; run.rs:1467 *)
  rep : bool }.                      (* true: the code (since d34a231, run.rs:1427-1430: a pool called
                                        from inside a pool task gets its own thread);
                                        false: the admission rule before that fix (kept for the
                                        *_refuted_pre records) *)

Definition with_cs (th : thread) (c : code) (s : list N) :=
  mkT c s (t_kids th) (t_poolk th) (t_inpool th) (t_spec th) (t_st th).
Definition with_csk (th : thread) (c : code) (s : list N) (k : list (nat * bool)) :=
  mkT c s k (t_poolk th) (t_inpool th) (t_spec th) (t_st th).
Definition set_st (th : thread) (x : status) :=
  mkT (t_code th) (t_stack th) (t_kids th) (t_poolk th) (t_inpool th) (t_spec th) x.

Definition set_thr (st : state) (t : nat) (th : thread) :=
  mkS (upd t th (thr st)) (chs st) (qu st) (act st) (lck st) (mx st) (rep st).
Definition set_chs (st : state) (c : list (chan * chan)) :=
  mkS (thr st) c (qu st) (act st) (lck st) (mx st) (rep st).
Definition set_lck (st : state) (l : option nat) :=
  mkS (thr st) (chs st) (qu st) (act st) l (mx st) (rep st).

(** the thread ends (normally or with an error); a pool worker becomes free.
    No lock is needed for that: threadpool decrements an atomic (lib.rs:771). *)
Definition fin (st : state) (t : nat) (th : thread) (r : res) : state :=
  mkS (upd t (set_st th (Done r)) (thr st)) (chs st) (qu st)
      (if t_poolk th then pred (act st) else act st) (lck st) (mx st) (rep st).

Definition kid_of (th : thread) (i : nat) : option (nat * bool) :=
  match i with 0 => None | S j => nth_error (t_kids th) j end.

(** create the child: it takes the top k values (run.rs:1434-1436), the parent records it
    under the next id (run.rs:1508-1522) *)
Definition add_child (st : state) (t : nat) (th : thread) (c : code) (k : nat) (b : code)
           (poolk : bool) (x : status) (q : list nat) (l : option nat) : state :=
  let s := t_stack th in
  let n := length (thr st) in
  let child := mkT b (firstn k s) [] poolk (t_inpool th || poolk) (seqev b (firstn k s) []) x in
  mkS (upd t (with_csk th c (skipn k s) (t_kids th ++ [(n, false)])) (thr st) ++ [child])
      (chs st ++ [(ech, ech)]) q (act st) l (mx st) (rep st).

Definition step (st : state) (t : nat) : option state :=
  match nth_error (thr st) t with
  | None => None
  | Some th =>
    match t_st th with
    | Done _ => None
    | Queued =>
      (* a free worker takes the job at the head of the queue (threadpool lib.rs:745-767) *)
      match qu st with
      | h :: q' => if (h =? t) && (act st <? mx st)
                   then Some (mkS (upd t (set_st th Running) (thr st)) (chs st) q' (S (act st)) (lck st) (mx st) (rep st))
                   else None
      | [] => None
      end
    | Running =>
      match t_code th with
      | [] => Some (fin st t th (Some (t_stack th)))
      | ins :: c =>
        let s := t_stack th in
        match ins with
        | Push v => Some (set_thr st t (with_cs th c (v :: s)))
        | Pop => match s with [] => Some (fin st t th None) | _ :: s' => Some (set_thr st t (with_cs th c s')) end
        | Dup => match s with [] => Some (fin st t th None) | v :: s' => Some (set_thr st t (with_cs th c (v :: v :: s'))) end
        | Work 0 => Some (set_thr st t (with_cs th c s))
        | Work (S n) => Some (set_thr st t (with_cs th (Work n :: c) s))
        | AddAll => Some (set_thr st t (with_cs th c [sumN s]))
        | Fork p k b =>
          if length s <? k then Some (fin st t th None)          (* run.rs:1415 *)
          else if negb p || (rep st && t_inpool th) then
            (* spawn: a new OS thread starts at once (run.rs:1499-1508);
               run.rs:1430: `_pool && !in_pool` -- a pool called from inside a pool task does the same *)
            Some (add_child st t th c k b false Running (qu st) (lck st))
          else
            match lck st with
            | None => Some (set_lck st (Some t))                  (* run.rs:1472 *)
            | Some u =>
              if u =? t then
                (* run.rs:1477: while pool.active_count() >= MAX_THREADS { yield } -- with the lock held *)
                if act st <? mx st
                then Some (add_child st t th c k b true Queued (qu st ++ [length (thr st)]) None)
                else None
              else None                                           (* blocked on the mutex *)
            end
        | Wait i =>
          match kid_of th i with
          | Some (k, false) =>
            match nth_error (thr st) k with
            | Some kt => match t_st kt with
                         | Done (Some r) => Some (set_thr st t (with_csk th c (r ++ s) (upd (pred i) (k, true) (t_kids th))))
                         | Done None => Some (fin st t th None)   (* "A thread errored" *)
                         | _ => None                              (* blocked in recv() *)
                         end
            | None => None
            end
          | _ => Some (fin st t th None)                          (* "Invalid thread id" *)
          end
        | WaitAll d todo acc =>
          match todo with
          | [] => Some (set_thr st t (with_cs th c (acc ++ s)))
          | i :: todo' =>
            match kid_of th i with
            | Some (k, false) =>
              match nth_error (thr st) k with
              | Some kt => match t_st kt with
                           | Done (Some r) => Some (set_thr st t (with_csk th (WaitAll (d ++ [i]) todo' (acc ++ r) :: c) s
                                                                            (upd (pred i) (k, true) (t_kids th))))
                           | Done None => Some (fin st t th None)
                           | _ => None
                           end
              | None => None
              end
            | _ => Some (fin st t th None)
            end
          end
        | Send i =>
          match s with
          | [] => Some (fin st t th None)
          | v :: s' =>
            match i with
            | 0 => if t =? 0 then Some (fin st t th None)         (* "Thread has no parent" *)
                   else match nth_error (chs st) t with
                        | Some (up, dn) => Some (set_chs (set_thr st t (with_cs th c s')) (upd t (ch_send v up, dn) (chs st)))
                        | None => None
                        end
            | S _ => match kid_of th i with
                     | Some (k, false) =>
                       match nth_error (chs st) k with
                       | Some (up, dn) => Some (set_chs (set_thr st t (with_cs th c s')) (upd k (up, ch_send v dn) (chs st)))
                       | None => None
                       end
                     | _ => Some (fin st t th None)
                     end
            end
          end
        | Recv i =>
          match i with
          | 0 => if t =? 0 then Some (fin st t th None)
                 else match nth_error (chs st) t with
                      | Some (up, dn) => match ch_recv dn with
                                         | Some (v, dn') => Some (set_chs (set_thr st t (with_cs th c (v :: s))) (upd t (up, dn') (chs st)))
                                         | None => None             (* blocked *)
                                         end
                      | None => None
                      end
          | S _ => match kid_of th i with
                   | Some (k, false) =>
                     match nth_error (chs st) k, nth_error (thr st) k with
                     | Some (up, dn), Some kt =>
                       match ch_recv up with
                       | Some (v, up') => Some (set_chs (set_thr st t (with_cs th c (v :: s))) (upd k (up', dn) (chs st)))
                       | None => match t_st kt with
                                 | Done _ => Some (fin st t th None)  (* channel closed: run.rs:1616-1621 *)
                                 | _ => None
                                 end
                       end
                     | _, _ => None
                     end
                   | _ => Some (fin st t th None)
                   end
          end
        end
      end
    end
  end.

(** a schedule names the thread that moves next; naming a thread that cannot move is a no-op *)
Fixpoint run (sched : list nat) (st : state) : state :=
  match sched with
  | [] => st
  | t :: r => match step st t with Some st' => run r st' | None => run r st end
  end.

Definition init (m : nat) (rp : bool) (prog : code) : state :=
  mkS [mkT prog [] [] false false (seqev prog [] []) Running] [(ech, ech)] [] 0 None m rp.

Definition root_res (st : state) : option res :=
  match nth_error (thr st) 0 with
  | Some th => match t_st th with Done r => Some r | _ => None end
  | None => None
  end.
Definition final (st : state) : bool := match root_res st with Some _ => true | None => false end.

Definition enabledb (st : state) (t : nat) : bool := match step st t with Some _ => true | None => false end.
Definition tids (st : state) : list nat := List.seq 0 (length (thr st)).
Definition stuckb (st : state) : bool := forallb (fun t => negb (enabledb st t)) (tids st).
Definition deadb (st : state) : bool := negb (final st) && stuckb st.

(** * The value-level glue of [wait] (run.rs:1537-1605): the shape of the result
    The interleaving model above abstracts a thread's result to its data; this part adds the shape.
    [ish] is the shape of the id array, [rows] the results of the named threads in id-array order
    (C13_wait_order: that is the order in which wait collects them). *)
Definition sval := (list nat * list N)%type.              (* shape, data in row-major order *)
Inductive wres := WVal (v : sval) | WErr (code : N).      (* code 0: "A thread errored"; k: the child's own error k *)

Fixpoint list_eqb (a b : list nat) : bool :=
  match a, b with
  | [], [] => true
  | x :: a', y :: b' => (x =? y) && list_eqb a' b'
  | _, _ => false
  end.

(** the loop at run.rs:1571: results in order, the first error ends it with the child's error (`?`) *)
Fixpoint collect (rows : list wres) : list sval + N :=
  match rows with
  | [] => inl []
  | WErr c :: _ => inr c
  | WVal v :: r => match collect r with inl vs => inl (v :: vs) | inr c => inr c end
  end.

Definition glue_other : N := 999999.                      (* any other error (rows of different shapes, ...) *)

Definition wait_glue (ish : list nat) (rows : list wres) : wres :=
  match ish with
  | [] =>                                                 (* run.rs:1540 ids.shape.is_empty(): one thread, its value as it is *)
    match rows with
    | [WVal v] => WVal v
    | [WErr _] => WErr 0                                  (* run.rs:1551 map_err(|_| "A thread errored") *)
    | _ => WErr glue_other
    end
  | _ =>                                                  (* run.rs:1569-1603: one row per id, then shape := ids.shape ++ row shape *)
    match collect rows with
    | inr c => WErr c
    | inl [] => WVal (ish, [])
    | inl (v :: vs) =>
      if forallb (fun x => list_eqb (fst x) (fst v)) vs
      then WVal (ish ++ fst v, concat (map snd (v :: vs)))
      else WErr glue_other
    end
  end.

Definition wres_eqb (a b : wres) : bool :=
  match a, b with
  | WVal (s1, d1), WVal (s2, d2) => list_eqb s1 s2 && (length d1 =? length d2) && forallb (fun p => N.eqb (fst p) (snd p)) (combine d1 d2)
  | WErr c1, WErr c2 => N.eqb c1 c2
  | _, _ => false
  end.

(** * Verdicts for the tie: schedulers and a bounded exhaustive search *)
Definition enabled_list (st : state) : list nat := filter (enabledb st) (tids st).
Definition frees_worker (st : state) (t : nat) : bool :=
  match step st t with Some st' => act st' <? act st | None => false end.
Definition is_queued (st : state) (t : nat) : bool :=
  match nth_error (thr st) t with Some th => match t_st th with Queued => true | _ => false end | None => false end.

Definition pick_low (st : state) : option nat := hd_error (enabled_list st).
Definition pick_high (st : state) : option nat := hd_error (rev (enabled_list st)).
(** keep workers busy: a step that frees a worker comes last *)
Definition pick_busy (st : state) : option nat :=
  match filter (fun t => negb (frees_worker st t)) (enabled_list st) with
  | t :: _ => Some t
  | [] => pick_low st
  end.
(** start queued jobs first, then avoid freeing workers, highest thread first *)
Definition pick_start (st : state) : option nat :=
  match filter (is_queued st) (enabled_list st) with
  | t :: _ => Some t
  | [] => match rev (filter (fun t => negb (frees_worker st t)) (enabled_list st)) with
          | t :: _ => Some t
          | [] => pick_high st
          end
  end.

Fixpoint run_strat (fuel : nat) (pick : state -> option nat) (st : state) (trace : list nat) : state * list nat :=
  match fuel with
  | 0 => (st, rev trace)
  | S f => if final st then (st, rev trace)
           else match pick st with
                | None => (st, rev trace)
                | Some t => match step st t with
                            | Some st' => run_strat f pick st' (t :: trace)
                            | None => (st, rev trace)
                            end
                end
  end.

(** a step that leaves the pool (queue, active count, lock) alone commutes with every other step *)
Definition same_lock (a b : option nat) : bool :=
  match a, b with None, None => true | Some x, Some y => x =? y | _, _ => false end.
Definition is_local (st : state) (t : nat) : bool :=
  match step st t with
  | Some st' => (act st' =? act st) && (length (qu st') =? length (qu st)) && same_lock (lck st') (lck st)
  | None => false
  end.

Record dres := mkD { d_budget : N; d_dead : option (list nat); d_fin : bool; d_cut : bool }.

(** depth-first search of the schedules; threads whose next step is local are run eagerly
    (no branching), every pool-related choice is branched on *)
Fixpoint dfs (fuel : nat) (st : state) (path : list nat) (a : dres) : dres :=
  if (d_budget a =? 0)%N then mkD 0 (d_dead a) (d_fin a) true
  else if (match d_dead a with Some _ => d_fin a | None => false end) then a
  else
    let a := mkD (N.pred (d_budget a)) (d_dead a) (d_fin a) (d_cut a) in
    if final st then mkD (d_budget a) (d_dead a) true (d_cut a)
    else match fuel with
         | 0 => mkD (d_budget a) (d_dead a) (d_fin a) true
         | S f =>
           let en := enabled_list st in
           match en with
           | [] => mkD (d_budget a) (match d_dead a with Some p => Some p | None => Some (rev path) end) (d_fin a) (d_cut a)
           | _ =>
             let cands := match find (is_local st) en with Some t => [t] | None => en end in
             fold_left (fun a t => match step st t with Some st' => dfs f st' (t :: path) a | None => a end) cands a
           end
         end.

(** every schedule from st ends stuck and not final, within n steps (full branching) *)
Fixpoint all_stuck (n : nat) (st : state) : bool :=
  negb (final st) &&
  match n with
  | 0 => false
  | S m => forallb (fun t => match step st t with Some st' => all_stuck m st' | None => true end) (tids st)
  end.

Definition b2n (b : bool) : N := if b then 1%N else 0%N.
Definition strat_dead (fuel : nat) (pick : state -> option nat) (st : state) : bool :=
  deadb (fst (run_strat fuel pick st [])).
Definition strat_val (fuel : nat) (pick : state -> option nat) (st : state) : N :=
  match root_res (fst (run_strat fuel pick st [])) with
  | Some (Some [v]) => (v + 2)%N
  | Some _ => 1%N
  | None => 0%N
  end.

(** what the check asks about one tree and one pool size:
    [flat; pool depth; sequential value+2 (1 = other result, 0 = error);
     deadlock found by a scheduler; value+2 under the lowest-first scheduler (0 = not final);
     search complete; search found a deadlock; search found a final state] *)
Definition verdict (m : nat) (rp : bool) (budget : N) (prog : code) : list N :=
  let st := init m rp prog in
  let fuel := 4000 in
  let d := if (budget =? 0)%N then mkD 0 None false true else dfs fuel st [] (mkD budget None false false) in
  [ b2n (flat prog); N.of_nat (pdepth prog);
    match seqev prog [] [] with Some [v] => (v + 2)%N | Some _ => 1%N | None => 0%N end;
    b2n (strat_dead fuel pick_low st || strat_dead fuel pick_busy st || strat_dead fuel pick_start st || strat_dead fuel pick_high st);
    strat_val fuel pick_low st;
    b2n (negb (d_cut d)); b2n (match d_dead d with Some _ => true | None => false end); b2n (d_fin d) ].
