(** Executable form of the tree invariant assumed by the frame theorem (evaluated on real
    compiler output by the V tie). *)
From Coq Require Import List ZArith NArith Bool Lia.
From UV Require Import Model.Node Model.Sig.
Import ListNotations.

Definition sig_fitsb (inf st : sig) : bool :=
  (sa inf <=? sa st) && Nat.eqb (so st) (so inf + (sa st - sa inf)) &&
  Nat.eqb (sua st) (sua inf) && Nat.eqb (suo st) (suo inf).
Definition stored_okb (sg : sig) (f : node) : bool :=
  match vnode 0 f (vs0, vs0) with Some e0 => sig_fitsb (env_sig e0) sg | None => false end.

Definition stored_exactb (sg : sig) (f : node) : bool :=
  match vnode 0 f (vs0, vs0) with Some e0 => sig_eqb (env_sig e0) sg | None => false end.

Definition unprovedb (mk : modk) : bool := false.
(** modifiers whose operands must leave the under stack alone: the checker looks only at the
    stack part of their stored signatures, or they run the operand repeatedly *)
Definition ignores_underb (mk : modk) : bool :=
  match mk with
  | MWith | MOff | MAbove | MBelow | MFork | MBracket | MTry | MDipN _
  | MReduce | MScan | MFold | MRows | MEach | MInventory | MTable | MTuples | MGroup | MPartition
  | MSpawn | MPool | MRepeat | MRepeatWithInverse | MStencil | MReduceContent | MReduceDepth _
  | MHandleSig | MDo | MUndoRows | MUndoInventory => true
  | _ => false end.
(** modifiers checked in context whose run-time form uses the stored signature: it must be the inferred one *)
Definition needs_exactb (mk : modk) : bool :=
  match mk with MBy | MRows | MEach | MInventory | MRepeat | MRepeatWithInverse | MUndoRows | MUndoInventory => true | _ => false end.

Section Ok.
  Variable asm : list node.
  Fixpoint tree_okb (n : node) : bool :=
    match n with
    | Run ns => forallb tree_okb ns
    | Mod mk args =>
        negb (unprovedb mk) &&
        (negb (ignores_underb mk) || forallb (fun a : sig * node => Nat.eqb (sua (fst a)) 0 && Nat.eqb (suo (fst a)) 0) args) &&
        (negb (needs_exactb mk) || forallb (fun a : sig * node => stored_exactb (fst a) (snd a)) args) &&
        forallb (fun a : sig * node => tree_okb (snd a) && stored_okb (fst a) (snd a)) args
    | Call f sg => match nth_error asm f with Some body => stored_okb sg body | None => true end
    | Arr _ inner _ => tree_okb inner
    | NoInline inner => tree_okb inner
    | TrackCaller _ inner => tree_okb inner
    | CustomInv cs has sg nm =>
        tree_okb nm && stored_okb sg nm &&
        (negb has || match cs with Some c => sig_eqb c sg | None => false end)
    | Switch brs sg _ =>
        Nat.eqb (sua sg) 0 && Nat.eqb (suo sg) 0 &&
        forallb (fun a : sig * node =>
          tree_okb (snd a) && stored_okb (fst a) (snd a) &&
          Nat.eqb (sua (fst a)) 0 && Nat.eqb (suo (fst a)) 0 &&
          (so (fst a) <=? so sg) && (sa (fst a) + (so sg - so (fst a)) <=? sa sg)) brs
    | _ => true end.
End Ok.
Definition asm_okb (asm : list node) : bool := forallb (tree_okb asm) asm.

(** classification used by the tie: 0 = inside the theorem's premises, otherwise why not:
    1 = an unproved modifier/switch occurs, 2 = a stored signature does not fit the inferred one,
    3 = the checker model does not cover some operand *)
Fixpoint has_unproved (n : node) : bool :=
  match n with
  | Run ns => existsb has_unproved ns
  | Mod mk args => unprovedb mk || existsb (fun a : sig * node => has_unproved (snd a)) args
  | Arr _ i _ | NoInline i | TrackCaller _ i | CustomInv _ _ _ i => has_unproved i
  | Switch brs _ _ => existsb (fun a : sig * node => has_unproved (snd a)) brs
  | _ => false end.
Fixpoint has_uncovered (n : node) : bool :=
  match n with
  | Run ns => existsb has_uncovered ns
  | Mod mk args => existsb (fun a : sig * node =>
        has_uncovered (snd a) || match vnode 0 (snd a) (vs0, vs0) with None => true | _ => false end) args
  | Arr _ i _ | NoInline i | TrackCaller _ i | CustomInv _ _ _ i => has_uncovered i
  | _ => false end.
(** does the interpreter model (Exec.v) run every construct of the tree?  (otherwise it answers Unk
    and the frame theorem holds only vacuously for runs that reach that construct) *)
Definition mod_modelled (mk : modk) (nargs : nat) : bool :=
  match mk, nargs with
  | (MDip | MGap | MOn | MBy | MWith | MOff | MAbove | MBelow | MBoth | MCase | MDipN _
     | MReduce | MScan | MFold | MRows | MEach | MInventory | MTable | MTuples | MGroup | MPartition
     | MSpawn | MPool | MRepeat | MStencil | MReduceContent | MReduceDepth _
     | MHandleSig | MOnSub _ | MBothImpl 0 _ | MUnBothImpl 0 _ | MUndoRows | MUndoInventory), 1 => true
  | (MFork | MBracket | MFill | MTry | MRepeatWithInverse | MDo), 2 => true
  | MTry, S (S (S _)) => true      (* any number of handlers *)
  | _, _ => false end.
Fixpoint exec_modelled (n : node) : bool :=
  match n with
  | Push _ | Prim _ _ _ | Call _ _ | CallGlobal _ _ | BindGlobal | Unpack _ _ | PushUnder _ | CopyToUnder _ | PopUnder _
  | Label | RemoveLabel | Format _ | SetOutputComment => true
  | Run ns => forallb exec_modelled ns
  | Mod mk args => mod_modelled mk (length args) && forallb (fun a : sig * node => exec_modelled (snd a)) args
  | Arr _ i _ | NoInline i | TrackCaller _ i => exec_modelled i
  | CustomInv _ has _ i => negb has || exec_modelled i
  | Switch brs _ _ => forallb (fun a : sig * node => exec_modelled (snd a)) brs
  | PrimIndet _ | CallMacro _ _ | MatchFormat _ | Dynamic _ => false
  end.
(** 0 = inside the premises and fully run by the model; 4 = inside the premises but some construct
    is outside the interpreter model (iterating modifiers, loops, globals...) *)
Definition tree_class (asm : list node) (n : node) : N :=
  if tree_okb asm n && negb (exec_modelled n && forallb exec_modelled asm) then 4%N else
  if tree_okb asm n then 0%N
  else if has_unproved n then 1%N
  else if has_uncovered n then 3%N else 2%N.
