(** C19 model: source positions produced by the lexer and merged by the parser.
    Transcribed from /repo/parser/src/lex.rs:
      Loc                133-138   (field order line, col, byte_pos, char_pos: the derived Ord)
      Lexer::new         909-941   (grapheme segmentation + the space / double-quote / at-sign prefix split:
                                    the model takes the resulting segment list as its input)
      update_loc         950-963   (saturating u16 line/col, saturating u32 positions)
      next_char_if       964-971   (the only caller of update_loc)
      make_span          992-1004  (three assert!s)
      end_span/end       1006-1015
      run                1016-1517 (the tokeniser; abstracted to actions, see below)
      CodeSpan::merge_with/end_to/just_start/just_end   428-439, 485-513
    Executable definitions only; proofs are in Proofs/Lex.v.

    Which lexer code produces spans, and how (all through [make_span]):
      * [self.end(tok, start)]  -> token span (start, self.loc); [start] is a copy of
        [self.loc] taken earlier (loop head l.1020, [self.loc] itself for the zero-width
        tokens of l.1077/1083/1088-1092, l.1186, l.1349/1373 for multi-line strings).
      * [self.end_span(start).sp(err)] -> error span (start, self.loc)
        (l.1041, 1055, 1322, 1327, 1398, 1506, 1884).
      * split identifiers l.1433-1472: [make_span(start, end)] where [end] is computed
        ARITHMETICALLY from the fragment's char count and byte length (not by update_loc).
    [self.loc] changes only by [update_loc] on the segment at index [loc.char_pos]
    (next_char_if) or by assignment of an earlier copy of itself ("rewind":
    l.985, 1064, 1231, 1243, 1307, 1383, 1388, 1550, 1577, 1598, 1779). *)
From Coq Require Import List NArith Bool Lia.
Import ListNotations.
Open Scope N_scope.

(** * Input: the lexer's segments *)
Inductive cclass := CNl | CCr | CWs | COther.   (* '\n', '\r', other whitespace, anything else *)
Definition chr := (N * cclass)%type.             (* (len_utf8, class) *)
Definition segment := list chr.
Definition input := list segment.

Definition chr_len (c : chr) : N := fst c.
Definition seg_len (s : segment) : N := fold_right (fun c n => chr_len c + n) 0 s.
Definition bytes_of (i : input) : N := fold_right (fun s n => seg_len s + n) 0 i.

Record Loc := mkLoc { line : N; col : N; byte_pos : N; char_pos : N }.
Definition loc0 : Loc := mkLoc 1 1 0 0.          (* lex.rs:931-936 *)

Definition U16MAX : N := 65535.
Definition U32MAX : N := 4294967295.
Definition sat16 (a b : N) : N := N.min (a + b) U16MAX.     (* u16::saturating_add *)
Definition sat32 (a b : N) : N := N.min (a + b) U32MAX.     (* u32::saturating_add *)
Definition wrap16 (a : N) : N := a mod 65536.                 (* `as u16`, wrapping + *)
Definition wrap32 (a : N) : N := a mod 4294967296.

(** lex.rs:951-960, one char *)
Definition upd_char (l : Loc) (c : chr) : Loc :=
  match snd c with
  | CNl => mkLoc (sat16 (line l) 1) 1 (byte_pos l) (char_pos l)
  | CCr => l
  | _ => mkLoc (line l) (sat16 (col l) 1) (byte_pos l) (char_pos l)
  end.

(** lex.rs:950-963, one segment ([c.len() as u32]) *)
Definition update_loc (l : Loc) (s : segment) : Loc :=
  let l' := fold_left upd_char s l in
  mkLoc (line l') (col l') (sat32 (byte_pos l) (wrap32 (seg_len s))) (sat32 (char_pos l) 1).

(** the Loc after consuming the first k segments from the start *)
Definition loc_at (i : input) (k : nat) : Loc := fold_left update_loc (firstn k i) loc0.

(** * Functional specification: what a byte offset's Loc SHOULD be *)
Definition is_nl (c : chr) : bool := match snd c with CNl => true | _ => false end.
Definition is_cr (c : chr) : bool := match snd c with CCr => true | _ => false end.
Fixpoint take_while {A} (f : A -> bool) (l : list A) : list A :=
  match l with [] => [] | x :: r => if f x then x :: take_while f r else [] end.
Definition nlen {A} (l : list A) : N := N.of_nat (length l).

(** the characters after the last line break *)
Definition lrev {A} (l : list A) : list A := rev_append l [].   (* = rev l, in linear time *)
Definition last_line (cs : list chr) : list chr := lrev (take_while (fun c => negb (is_nl c)) (lrev cs)).
(** line = 1 + number of line breaks before; col = 1 + number of characters as the lexer
    counts them (every char except '\r') since the last line break *)
Definition line_of (cs : list chr) : N := 1 + nlen (filter is_nl cs).
Definition col_of (cs : list chr) : N := 1 + nlen (filter (fun c => negb (is_cr c)) (last_line cs)).

Definition chars_before (i : input) (k : nat) : list chr := concat (firstn k i).
Definition spec_loc (i : input) (k : nat) : Loc :=
  mkLoc (line_of (chars_before i k)) (col_of (chars_before i k)) (bytes_of (firstn k i)) (nlen (firstn k i)).

(** number of whole segments that make up exactly the first b bytes *)
Fixpoint find_prefix (i : input) (b : N) (k : nat) : option nat :=
  if b =? 0 then Some k else
  match i with
  | [] => None
  | s :: r => if seg_len s <=? b then find_prefix r (b - seg_len s) (S k) else None
  end.
Definition loc_of_prefix (i : input) (b : N) : option Loc :=
  match find_prefix i b 0 with Some k => Some (spec_loc i k) | None => None end.

Definition loc_eqb (a b : Loc) : bool :=
  (line a =? line b) && (col a =? col b) && (byte_pos a =? byte_pos b) && (char_pos a =? char_pos b).

(** the u16 fields saturate *)
Definition sat_loc (l : Loc) : Loc := mkLoc (N.min (line l) U16MAX) (N.min (col l) U16MAX) (byte_pos l) (char_pos l).

(** * The size guard of `lex` (lex.rs:50-88, after e843625 and d674421)
    [input.split_inclusive('\n')]: pieces ending in '\n' plus a final unterminated non-empty piece;
    of each piece the '\n' and then one '\r' are stripped (also of the final piece); the input is
    rejected when some piece index i has i + 1 >= 65535 (FileTooLong) or some stripped piece has
    chars().count() >= 65535 (LineTooLong).  [cur] is the current piece, reversed. *)
Definition strip_cr (cur : list chr) : list chr :=
  match cur with c :: r => if is_cr c then r else cur | [] => [] end.
Fixpoint guard_lines (cs : list chr) (cur : list chr) : list (list chr) :=
  match cs with
  | [] => match cur with [] => [] | _ => [lrev (strip_cr cur)] end
  | c :: r => if is_nl c then lrev (strip_cr cur) :: guard_lines r [] else guard_lines r (c :: cur)
  end.
Definition GUARD_MAX : N := 65534.
Definition guard_ok (cs : list chr) : bool :=
  let ls := guard_lines cs [] in
  (nlen ls <=? GUARD_MAX) && forallb (fun l => nlen l <=? GUARD_MAX) ls.
Definition accepted (i : input) : bool := guard_ok (concat i).

(** * The span of the guard's error (FileTooLong / LineTooLong)
    [pre] = the segments of the text before the offending line (the code re-segments
    [input[..byte_pos]], lex.rs:68-75), [first] = the first segment of the offending line after
    stripping its terminator ([] when the line is empty).
    Current code (d674421, lex.rs:66-82): computed by formulas, not by update_loc. *)
Definition nonl_noncr (s : segment) : N := nlen (filter (fun c => negb (is_cr c)) s).
Definition guard_err_span (pre : input) (first : segment) : Loc * Loc :=
  let st := mkLoc (wrap16 (nlen (filter is_nl (concat pre)) + 1)) 1 (wrap32 (bytes_of pre)) (wrap32 (nlen pre)) in
  (st, mkLoc (line st) (wrap16 (1 + wrap16 (nonl_noncr first))) (wrap32 (byte_pos st + wrap32 (seg_len first)))
             (wrap32 (char_pos st + match first with [] => 0 | _ => 1 end))).
(** Before d674421 (lex.rs:53-83 at e843625): line = the 0-based index [i as u16]; char_pos and
    byte_pos counted only the characters of the previous lines WITHOUT their terminators
    ('\n' and a '\r' before it); the end = one char further (col 2, char_pos + 1). *)
Fixpoint strip_terms (cs : list chr) : list chr :=
  match cs with
  | [] => []
  | c :: r => if is_nl c then strip_terms r
              else if is_cr c then match r with d :: _ => if is_nl d then strip_terms r else c :: strip_terms r | [] => c :: strip_terms r end
              else c :: strip_terms r
  end.
Definition guard_err_span_pre (pre : input) (first : segment) : Loc * Loc :=
  let cs := strip_terms (concat pre) in
  let st := mkLoc (wrap16 (nlen (filter is_nl (concat pre)))) 1 (wrap32 (seg_len cs)) (wrap32 (nlen cs)) in
  (st, mkLoc (line st) 2 (wrap32 (byte_pos st + match first with c :: _ => chr_len c | [] => 0 end)) (wrap32 (char_pos st + 1))).

(** * The tokeniser as a sequence of actions *)
Definition span := (Loc * Loc)%type.

(** lex.rs:992-1004: the three assert!s *)
Definition make_span_ok (s e : Loc) : bool :=
  (char_pos s <=? char_pos e) && (byte_pos s <=? byte_pos e) && ((col s <=? col e) || (line s <? line e)).

Inductive action :=
| AConsume                      (* next_char_if succeeded (or did nothing at the end of input) *)
| ARewind (i : nat)             (* self.loc = an earlier value of self.loc (i-th newest) *)
| AEmit (i : nat)               (* self.end(tok, start), start = an earlier value of self.loc *)
| AErr (i : nat)                (* self.errors.push(self.end_span(start).sp(..)) *)
| ASplit (i : nat) (frags : list (N * N)) (total : N * N) (rest : bool).
      (* THE OLD CODE ONLY (before d7485e2; kept as the `_pre` arithmetic), lex.rs:1433-1477 at 54c7366: start = i-th newest loc, frags = (chars, bytes) of every fragment
         but the last, total = (chars, bytes) of `lowercase`, rest = `!rest.is_empty()` *)

Record lexer := mkLexer {
  cur : Loc;                    (* self.loc *)
  hist : list Loc;              (* every value self.loc has had, newest first *)
  toks : list span;             (* self.tokens, newest first *)
  errs : list span;             (* spans of self.errors, newest first *)
  asserts : bool;               (* no assert! of make_span has failed *)
  floor : Loc;                  (* ghost: end of the last token *)
  disc : bool                   (* ghost: the index discipline (see [step]) has been respected *)
}.

Definition lexer0 : lexer := mkLexer loc0 [loc0] [] [] true loc0 true.

(** lex.rs:1437-1453: end of a non-last fragment / of the last fragment *)
Definition frag_end (s : Loc) (f : N * N) : Loc :=
  mkLoc (line s) (wrap16 (col s + wrap16 (fst f))) (wrap32 (byte_pos s + wrap32 (snd f))) (wrap32 (char_pos s + wrap32 (fst f))).

Fixpoint split_spans (s : Loc) (frags : list (N * N)) (last_end : Loc) : list span * Loc :=
  match frags with
  | [] => ([(s, last_end)], last_end)
  | f :: r => let e := frag_end s f in
              let (sp, fin) := split_spans e r last_end in ((s, e) :: sp, fin)
  end.

Definition spans_ok (l : list span) : bool := forallb (fun se => make_span_ok (fst se) (snd se)) l.

(** one control step.  The ghost field [disc] records the only facts about the control flow
    that the theorems use: a token never starts before the end of the previous token nor
    after the current position, and the lexer never rewinds to before the end of the last
    token — all stated on [char_pos] (the segment index) alone. *)
Definition step (inp : input) (st : lexer) (a : action) : lexer :=
  match a with
  | AConsume =>
      match nth_error inp (N.to_nat (char_pos (cur st))) with
      | Some seg => let l := update_loc (cur st) seg in
                    mkLexer l (l :: hist st) (toks st) (errs st) (asserts st) (floor st) (disc st)
      | None => st
      end
  | ARewind i =>
      match nth_error (hist st) i with
      | Some l => mkLexer l (hist st) (toks st) (errs st) (asserts st) (floor st)
                          (disc st && (char_pos (floor st) <=? char_pos l))
      | None => st
      end
  | AEmit i =>
      match nth_error (hist st) i with
      | Some s => mkLexer (cur st) (hist st) ((s, cur st) :: toks st) (errs st)
                          (asserts st && make_span_ok s (cur st)) (cur st)
                          (disc st && (char_pos (floor st) <=? char_pos s) && (char_pos s <=? char_pos (cur st)))
      | None => st
      end
  | AErr i =>
      match nth_error (hist st) i with
      | Some s => mkLexer (cur st) (hist st) (toks st) ((s, cur st) :: errs st)
                          (asserts st && make_span_ok s (cur st)) (floor st)
                          (disc st && (char_pos s <=? char_pos (cur st)))
      | None => st
      end
  | ASplit i frags total rest =>
      match nth_error (hist st) i with
      | Some s =>
          let last_end := frag_end s total in
          let (sp, fin) := split_spans s frags last_end in
          let sp' := if rest then sp ++ [(fin, cur st)] else sp in
          mkLexer (cur st) (hist st) (rev sp' ++ toks st) (errs st)
                  (asserts st && spans_ok sp') (cur st)
                  (disc st && (char_pos (floor st) <=? char_pos s) && (char_pos s <=? char_pos (cur st)))
      | None => st
      end
  end.

Definition run (inp : input) (acts : list action) : lexer := fold_left (step inp) acts lexer0.

Definition is_split (a : action) : bool := match a with ASplit _ _ _ _ => true | _ => false end.
(** action sequences of the CURRENT code: the arithmetic [ASplit] no longer exists *)
Definition split_free (acts : list action) : bool := forallb (fun a => negb (is_split a)) acts.

(** The split-identifier path of the current code (lex.rs:1437-1505 after d7485e2).
    The lexer walks again over the identifier's segments ([self.loc = first_end], [next_char]
    until [end], [self.loc = end]: ARewind, AConsume.., ARewind) and records every Loc on the way
    in [bounds] (plus [start] and [first_end]); the end of every split token is LOOKED UP in
    [bounds] (the split is abandoned when a fragment does not end on a bound or the ends are not
    ordered).  So every token is a pair of earlier values of [self.loc]: the path is a sequence
    of primitive actions.  [i] = index of [start], [ends] = indices of the token ends,
    [c] = index of the current position [end] (it is in [hist]), [rest] = `!rest.is_empty()`.
    Indices stay valid because ARewind/AEmit do not change [hist]. *)
Fixpoint split_emits (prev : nat) (ends : list nat) : list action * nat :=
  match ends with
  | [] => ([], prev)
  | j :: r => let (a, last) := split_emits j r in (ARewind j :: AEmit prev :: a, last)
  end.
Definition split_actions (i : nat) (ends : list nat) (c : nat) (rest : bool) : list action :=
  let (a, last) := split_emits i ends in
  a ++ ARewind c :: (if rest then [AEmit last] else []).

(** * Span merging (parse.rs uses these on token spans) *)
(** derived Ord for Loc: lexicographic in declaration order line, col, byte_pos, char_pos *)
Definition loc_cmp (a b : Loc) : comparison :=
  match line a ?= line b with Eq =>
    match col a ?= col b with Eq =>
      match byte_pos a ?= byte_pos b with Eq => char_pos a ?= char_pos b | c => c end
    | c => c end
  | c => c end.
Definition loc_min (a b : Loc) : Loc := match loc_cmp a b with Gt => b | _ => a end.   (* Ord::min *)
Definition loc_max (a b : Loc) : Loc := match loc_cmp a b with Gt => a | _ => b end.   (* Ord::max *)
Definition merge (a b : span) : span := (loc_min (fst a) (fst b), loc_max (snd a) (snd b)).   (* lex.rs:428-431 *)
Definition end_to (a b : span) : span := (snd a, fst b).                                       (* lex.rs:433-439 *)
(** lex.rs:485-498: [first_len] = len_utf8 of the first char of the span's text (0 if empty) *)
Definition just_start (a : span) (first_len : N) : span :=
  (fst a, mkLoc (line (fst a)) (wrap16 (col (fst a) + 1)) (wrap32 (byte_pos (fst a) + first_len)) (wrap32 (char_pos (fst a) + 1))).
(** lex.rs:500-513: saturating_sub *)
Definition just_end (a : span) (last_len : N) : span :=
  (mkLoc (line (snd a)) (col (snd a) - 1) (byte_pos (snd a) - last_len) (char_pos (snd a) - 1), snd a).

(** * The formatter's end_loc (src/format.rs:1760-1800): position of the end of the OUTPUT text
    written so far, used for the second half of every glyph-map entry.  Its convention differs
    from the lexer's: line is 0-based (number of '\n'), col = number of chars after the last
    '\n' (0-based, CR counts), char_pos = number of chars (not grapheme segments).
    [fixed = false] is the code before 54c7366 (`count as u16`: truncation);
    [fixed = true] the current code (`u16::try_from(col).unwrap_or(u16::MAX)`: saturation).
    line is a u16 incremented per '\n' (wrapping in release builds), char_pos a u32. *)
Definition out_true_col (cs : list chr) : N := nlen (last_line cs).
Definition end_loc (fixed : bool) (cs : list chr) : Loc :=
  mkLoc (wrap16 (nlen (filter is_nl cs)))
        (if fixed then N.min (out_true_col cs) U16MAX else wrap16 (out_true_col cs))
        (wrap32 (fold_right (fun c n => chr_len c + n) 0 cs))
        (wrap32 (nlen cs)).

(** The formatter's running end location (src/format.rs `struct Output`, since 6889e96): instead
    of rescanning the output ([end_loc] above, kept as the specification) the formatter updates
    line / col / char_pos on every pushed and popped character (Output::advance, Output::pop)
    and reads them in Output::end_loc with the same clamp of the column.
    The text is kept REVERSED in the model (newest character first).  line is a u16 with
    wrapping_add/wrapping_sub, col a usize, char_pos a u32 (plain +/-; modelled unbounded and
    truncated when read).  Output::remove_spaces (spaces removed inside the last line) is not
    modelled. *)
Record output := mkOut { o_rev : list chr; o_line : N; o_col : N; o_chars : N }.
Definition out0 : output := mkOut [] 0 0 0.
Inductive oop := OPush (c : chr) | OPop.
Definition ostep (o : output) (a : oop) : output :=
  match a with
  | OPush c => mkOut (c :: o_rev o) (if is_nl c then wrap16 (o_line o + 1) else o_line o)
                     (if is_nl c then 0 else o_col o + 1) (o_chars o + 1)
  | OPop => match o_rev o with
            | [] => o
            | c :: r => mkOut r (if is_nl c then wrap16 (o_line o + 65535) else o_line o)
                              (if is_nl c then out_true_col (lrev r) else o_col o - 1) (o_chars o - 1)
            end
  end.
Definition out_text (o : output) : list chr := lrev (o_rev o).
Definition out_end_loc (o : output) : Loc :=
  mkLoc (o_line o) (N.min (o_col o) U16MAX) (wrap32 (fold_right (fun c n => chr_len c + n) 0 (out_text o))) (wrap32 (o_chars o)).

(** Formatter::push: start = end location of the output before the fragment, end = end location
    of the output after it (read from the running location since 6889e96; it equals end_loc of
    the text: Proofs/Lex.v running_end_loc).  On an exported final output text [out] and a glyph-map
    entry (s, e): both positions are the end_loc of the output prefix of their byte length. *)
Fixpoint take_bytes (cs : list chr) (b : N) : option (list chr) :=
  if b =? 0 then Some [] else
  match cs with
  | [] => None
  | c :: r => if chr_len c <=? b then
                match take_bytes r (b - chr_len c) with Some p => Some (c :: p) | None => None end
              else None
  end.
Definition out_loc_ok (out : list chr) (l : Loc) : bool :=
  match take_bytes out (byte_pos l) with Some p => loc_eqb l (end_loc true p) | None => false end.
Definition push_ok (out : list chr) (se : Loc * Loc) : bool :=
  out_loc_ok out (fst se) && out_loc_ok out (snd se) && (byte_pos (fst se) <=? byte_pos (snd se)).

(** * What the tie evaluates on exported cases *)
Definition mk_loc4 (b c l co : N) : Loc := mkLoc l co b c.
(** every reported Loc is the one its byte offset should have *)
Definition loc_ok (i : input) (l : Loc) : bool :=
  match loc_of_prefix i (byte_pos l) with Some l' => loc_eqb l l' | None => false end.
Definition span_ok (i : input) (s : span) : bool :=
  loc_ok i (fst s) && loc_ok i (snd s) && (byte_pos (fst s) <=? byte_pos (snd s)) && (char_pos (fst s) <=? char_pos (snd s)).

Definition seg_ws (s : segment) : bool := forallb (fun c => match snd c with COther => false | _ => true end) s.
(** tokens (in source order): ordered, non-overlapping; every segment outside all tokens is
    whitespace or inside a lexing-error span *)
Fixpoint ordered (lo : N) (ts : list span) : bool :=
  match ts with
  | [] => true
  | (s, e) :: r => (lo <=? byte_pos s) && (byte_pos s <=? byte_pos e) && ordered (byte_pos e) r
  end.
Definition covered (ts : list span) (b : N) (len : N) : bool :=
  existsb (fun se => (byte_pos (fst se) <=? b) && (b + len <=? byte_pos (snd se))) ts.
Fixpoint coverage (i : input) (b : N) (ts es : list span) : bool :=
  match i with
  | [] => true
  | s :: r => (seg_ws s || covered ts b (seg_len s) || covered es b (seg_len s)) && coverage r (b + seg_len s) ts es
  end.

(** The parser's span tree.  The span of a strand / modified word is built by merging the spans
    of its parts (parse.rs:1127-1131 items[0].merge(items.last()), 1198-1202 mod_span.merge(last
    operand)); [merge_all] merges all parts, [stree]/[tspan] lift it to nested words.
    The tie recomputes [merge_all] on the exported parts of every strand and modified word and
    compares with the reported span, and checks that a node contains its children. *)
Definition merge_all (s : span) (l : list span) : span := fold_left merge l s.
Inductive stree := SLeaf (s : span) | SNode (first : stree) (rest : list stree).
Fixpoint tspan (t : stree) : span :=
  match t with SLeaf s => s | SNode f r => merge_all (tspan f) (map tspan r) end.
Fixpoint leaves (t : stree) : list span :=
  match t with SLeaf s => [s] | SNode f r => leaves f ++ flat_map leaves r end.
Definition span_eqb (a b : span) : bool := loc_eqb (fst a) (fst b) && loc_eqb (snd a) (snd b).
Definition span_contains (p c : span) : bool :=
  (byte_pos (fst p) <=? byte_pos (fst c)) && (byte_pos (snd c) <=? byte_pos (snd p)) &&
  (char_pos (fst p) <=? char_pos (fst c)) && (char_pos (snd c) <=? char_pos (snd p)).
Definition merge_case_ok (m : span * list span) : bool :=
  match snd m with [] => true | c :: r => span_eqb (fst m) (merge_all c r) end.
Definition contain_case_ok (m : span * list span) : bool := forallb (span_contains (fst m)) (snd m).

Record tcase := TC { tc_in : input; tc_toks : list span; tc_errs : list span; tc_others : list span;
                     tc_out : list chr; tc_gout : list span;
                     tc_merges : list (span * list span); tc_contains : list (span * list span) }.
Definition tcase_ok (c : tcase) : bool :=
  forallb (span_ok (tc_in c)) (tc_toks c) && forallb (span_ok (tc_in c)) (tc_errs c) &&
  forallb (span_ok (tc_in c)) (tc_others c) &&
  ordered 0 (tc_toks c) && coverage (tc_in c) 0 (tc_toks c) (tc_errs c) &&
  forallb (push_ok (tc_out c)) (tc_gout c) &&
  forallb merge_case_ok (tc_merges c) && forallb contain_case_ok (tc_contains c).

Fixpoint failing_from {A} (f : A -> bool) (n : N) (l : list A) : list N :=
  match l with [] => [] | x :: r => if f x then failing_from f (n + 1) r else n :: failing_from f (n + 1) r end.
