(** The loop of algorithm::try_ as it was at the pinned commit, BEFORE fix 5e30998: the error value
    given to a handler that then fails was popped from the TOP of the stack, and only when the NEXT
    handler has fewer outputs than the try.  Kept as a record of the repaired defect (Props/C11.v
    refutes the frame law for it); nothing else uses it. *)
From Coq Require Import List ZArith NArith Bool.
From UV Require Import Model.Node Model.Sig Model.Exec.
Import ListNotations.

Fixpoint try_loop_pre (ex : node -> rt -> res) (ts : sig) (any : bool)
    (sf : sig) (f : node) (hs : list (sig * node)) (te : bool) (s : rt) {struct hs} : res :=
  let targs := sa ts in
  match hs with
  | [] =>
      let n2 := Z.to_nat (Z.max 0 ((Z.of_nat (so sf) - Z.of_nat (sa sf)) - (Z.of_nat (so ts) - Z.of_nat (sa ts)))) in
      if negb (Nat.eqb n2 0) && negb (need targs s) then Err false s else
      ex f (set_stk s (remove_n n2 targs (stk s)))
  | (sh, hnd) :: hs' =>
      let nb := Nat.min targs (sa sf) in
      if negb (need nb s) then Err false s else
      let backup := firstn nb (stk s) in
      match clean_of ex sf f s with
      | Ok s2 =>
          let n1 := Z.to_nat (Z.max 0 ((Z.of_nat (so sf) - Z.of_nat (sa sf)) - (Z.of_nat (so ts) - Z.of_nat (sa ts)))) in
          let dep := (targs + so sf) - sa sf in
          if negb (Nat.eqb n1 0) && negb (need dep s2) then Err false s2 else
          Ok (set_stk s2 (remove_n n1 dep (stk s2)))
      | Err c s2 =>
          (* if takes_error && handler_sig.outputs() < try_sig.outputs() { env.pop("error")?; } *)
          let stale := te && (so sh <? so ts) in
          if stale && negb (need 1 s2) then Err false s2 else
          let s2 := if stale then set_stk s2 (skipn 1 (stk s2)) else s2 in
          let takes := any && Nat.eqb (sa sh + (so ts - so sh)) (targs + 1) in
          if c then
            let n1 := targs - sa sf in
            if negb (Nat.eqb n1 0) && negb (need n1 s2) then Err false s2 else
            Err false (set_stk s2 (remove_n n1 n1 (stk s2)))
          else
          let dep := targs - sa sf in
          if takes && negb (need dep s2) then Err false s2 else
          let st1 := if takes then insert_at dep errval (stk s2) else stk s2 in
          try_loop_pre ex ts any sh hnd hs' takes (set_stk s2 (backup ++ st1))
      | r => r end
  end.

(** a try of three functions on integers: F fails; the first handler is given the error value
    (it has fewer outputs than the try) and fails too; the last handler (flip) has as many outputs
    as the try *)
Definition fail_then (rest : list node) : node := Run (Push (SInt 0) :: Push (SOpq 9) :: Prim 12 2 0 :: rest).
Definition try3_f : sig * node := (Sig 2 2 0 0, fail_then [Prim 3 2 2]).
Definition try3_h1 : sig * node := (Sig 3 1 0 0, fail_then [Prim 5 2 1; Prim 5 2 1]).
Definition try3_h2 : sig * node := (Sig 2 2 0 0, Prim 3 2 2).
Definition try3_sig : sig * bool := try_sig [fst try3_f; fst try3_h1; fst try3_h2].
Definition try3_start : rt := RT [SInt 1; SInt 2; SInt 3; SInt 4] [] [] [] 0.
Definition stack_of (r : res) : option (list sval) := match r with Ok s => Some (stk s) | _ => None end.
