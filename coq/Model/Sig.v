(** The signature checker of src/check.rs (VirtualEnv): two counters per stack. *)
From Coq Require Import List ZArith NArith Bool Lia.
From UV Require Import Model.Node.
Import ListNotations.

(** check.rs `Stack { height : i32, min_height : usize }` *)
Record vs := VS { h : Z; m : nat }.
Definition vpop (k : nat) (v : vs) : vs :=
  let h' := (h v - Z.of_nat k)%Z in VS h' (Nat.max (m v) (Z.to_nat (Z.max 0 (- h')))).
Definition vpush (k : nat) (v : vs) : vs := VS (h v + Z.of_nat k)%Z (m v).
Definition vao (a o : nat) (v : vs) : vs := vpush o (vpop a v).
Definition vs0 : vs := VS 0 0.
(** Stack::sig *)
Definition vs_args (v : vs) : nat := m v.
Definition vs_outs (v : vs) : nat := Z.to_nat (Z.max 0 (h v + Z.of_nat (m v))).

Definition venv := (vs * vs)%type.     (* stack, under *)
Definition handle_ao (a o : nat) (e : venv) : venv := (vao a o (fst e), snd e).
Definition handle_sig (s : sig) (e : venv) : venv :=
  (vao (sa s) (so s) (fst e), vao (sua s) (suo s) (snd e)).
Definition epop (k : nat) (e : venv) : venv := (vpop k (fst e), snd e).
Definition epush (k : nat) (e : venv) : venv := (vpush k (fst e), snd e).
Definition env_sig (e : venv) : sig :=
  Sig (vs_args (fst e)) (vs_outs (fst e)) (vs_args (snd e)) (vs_outs (snd e)).

Definition max_list (l : list nat) : nat := fold_right Nat.max 0 l.
Definition sum_list (l : list nat) : nat := fold_right Nat.add 0 l.

(** algorithm/mod.rs try_sig *)
Definition try_sig (ops : list sig) : sig * bool :=
  let max_outputs := max_list (map so ops) in
  let idx := combine (seq 0 (length ops)) ops in
  let max_args0 := max_list (map (fun p => sa (snd p) - (if Nat.eqb (fst p) 0 then 0 else 1)) idx) in
  let any_takes_error :=
    existsb (fun f => max_args0 <? sa f + (max_outputs - so f)) (tl ops) in
  let max_args := max_list (map (fun p => (sa (snd p) + (max_outputs - so (snd p)))
                                           - (if Nat.eqb (fst p) 0 then 0 else 1)) idx) in
  (sig2 max_args max_outputs, any_takes_error).

Definition MAX_NODE_DEPTH : nat := 50.

Definition opt_bind {A B} (o : option A) (f : A -> option B) : option B :=
  match o with Some x => f x | None => None end.

Section Checker.
  (** [vnode d n e]: check.rs VirtualEnv::node at nesting depth d *)
  Fixpoint vnode (d : nat) (n : node) (e : venv) {struct n} : option venv :=
    if MAX_NODE_DEPTH <? d then None else
    let sub := vnode (S d) in
    match n with
    | Push _ => Some (epush 1 e)
    | Prim _ a o => Some (handle_ao a o e)
    | PrimIndet _ => None
    | Run ns =>
        (fix go (l : list node) (e : venv) {struct l} : option venv :=
           match l with [] => Some e | x :: t => opt_bind (vnode (S d) x e) (go t) end) ns e
    | Arr len inner _ => opt_bind (sub inner e) (fun e => Some (epush 1 (epop len e)))
    | Label | RemoveLabel => Some (handle_ao 1 1 e)
    | Call _ s | CallGlobal _ s | CallMacro _ s | Dynamic s => Some (handle_sig s e)
    | BindGlobal => Some (handle_ao 1 0 e)
    | CustomInv s _ _ _ => match s with Some s => Some (handle_sig s e) | None => None end
    | Switch _ s uc =>
        let e := handle_sig s (epop 1 e) in
        Some (if uc then (fst e, vpush 1 (snd e)) else e)
    | Format parts => Some (handle_ao (parts - 1) 1 e)
    | MatchFormat parts => Some (handle_ao 1 (parts - 1) e)
    | Unpack count _ => Some (handle_ao 1 count e)
    | SetOutputComment => Some e
    | PushUnder k => Some (vpop k (fst e), vpush k (snd e))
    | CopyToUnder k => Some (vpush k (vpop k (fst e)), vpush k (snd e))
    | PopUnder k => Some (vpush k (fst e), vpop k (snd e))
    | NoInline inner => sub inner e
    | TrackCaller _ inner => sub inner e
    | Mod mk args =>
        let sigs := map fst args in
        let one (k : sig -> node -> option venv) : option venv :=
          match args with [(s, f)] => k s f | _ => None end in
        let repeat_ (s : sig) (f : node) (e : venv) : option venv :=
          opt_bind (sub f e) (fun e => Some (if sa s <? so s then epop (sa s) e else e)) in
        let fill_ : option venv :=
          match args with
          | [(fs, fl); (_, f)] =>
              opt_bind (if (0 <? so fs) || ((0 <? sa fs) && negb (Nat.eqb (so fs) 0)) then sub fl e else Some e)
                (fun e => sub f (handle_ao (so fs) 0 e))
          | _ => None end in
        match mk with
        | MReduce | MScan => one (fun s _ => Some (handle_ao (Nat.max (sa s - so s) 1) (so s) e))
        | MEach | MRows | MInventory | MEachSub | MFixMatchRanks => one (fun _ f => sub f e)
        | MTable | MTuples | MHandleSig | MCase | MContent | MMemo | MComptime =>
            one (fun s _ => Some (handle_sig s e))
        | MStencil => one (fun s _ => Some (handle_ao 1 (so s) (if sa s <=? 1 then epop 1 e else e)))
        | MGroup | MPartition => one (fun s _ => Some (handle_ao (Nat.max (sa s) 1 + 1) (so s) e))
        | MSpawn | MPool => one (fun s _ => Some (handle_ao (sa s) 1 e))
        | MRepeat => one (fun s f => repeat_ s f (epop 1 e))
        | MRepeatWithInverse =>
            match args with
            | [(s, f); (si, _)] =>
                if sig_eqb (sig_inverse s) si then repeat_ s f (epop 1 e) else None
            | _ => None end
        | MRepeatCountConv => one (fun s f => opt_bind (repeat_ s f e) (fun e => Some (epush 1 e)))
        | MDo =>
            match sigs with
            | [body; cond] =>
                let copy_count := sa cond - (so cond - 1) in
                let cond_sub := sig2 (sa cond) ((so cond + copy_count) - 1) in
                let comp := sig_compose body cond_sub in
                let e := handle_ao (sa comp) (so comp + (so cond_sub - sa cond)) e in
                Some (if sa comp <? so comp then epop (sa comp) e else e)
            | _ => None end
        | MUn => one (fun s _ => Some (handle_sig (sig_inverse s) e))
        | MAnti => one (fun s _ => Some (handle_sig (match sig_anti s with Some x => x | None => s end) e))
        | MFold =>
            one (fun s _ =>
              if Nat.eqb (sa s) 0 && Nat.eqb (so s) 0 then Some e
              else if Nat.eqb (sa s) 0 then Some (handle_ao 0 (so s) e)
              else if sa s <=? so s then Some (handle_ao (sa s) (so s + 1 - sa s) e)
              else Some (handle_sig s e))
        | MTry | MPattern => Some (handle_sig (fst (try_sig sigs)) e)
        | MFill | MUnFill | MSidedFill => fill_
        | MDump => one (fun _ _ => Some e)
        | MFork => Some (handle_ao (max_list (map sa sigs)) (sum_list (map so sigs)) e)
        | MBracket | MUnBracket => Some (handle_ao (sum_list (map sa sigs)) (sum_list (map so sigs)) e)
        | MBoth =>
            one (fun s f => opt_bind (sub f (epop (sa s) e)) (fun e => sub f (epush (sa s) e)))
        | MDip => one (fun _ f => opt_bind (sub f (epop 1 e)) (fun e => Some (epush 1 e)))
        | MGap => one (fun _ f => sub f (epop 1 e))
        | MReach => one (fun _ f => sub f (epush 1 (epop 1 (epop 1 e))))
        | MOn => one (fun _ f => opt_bind (sub f (epush 1 (epop 1 e))) (fun e => Some (epush 1 e)))
        | MBy => one (fun _ f => opt_bind (sub f e) (fun e => Some (epush 1 e)))
        | MAbove | MBelow => one (fun s _ => Some (handle_ao (sa s) (sa s + so s) e))
        | MWith | MOff => one (fun s _ => Some (handle_ao (sa s) (so s + 1) e))
        | MOnSub k | MBySub k | MWithSub k | MOffSub k =>
            one (fun s f => let a := Nat.max (sa s) k in
                            opt_bind (sub f (handle_ao a a e)) (fun e => Some (handle_ao 0 k e)))
        | MDipN k => one (fun s _ => Some (handle_sig (Sig (sa s + k) (so s + k) (sua s) (suo s)) e))
        | MReduceContent | MReduceDepth _ => one (fun s _ => Some (handle_ao (sa s - so s) (so s) e))
        | MUndoRows | MUndoInventory => one (fun _ f => sub f (epop 1 e))
        | MUnScan => Some (handle_ao 1 1 e)
        | MBothImpl reused k | MUnBothImpl reused k =>
            one (fun s _ => Some (handle_sig (Sig ((sa s - reused) * k + reused) (k * so s) (k * sua s) (k * suo s)) e))
        | MOther _ fixed => match fixed with Some s => Some (handle_sig s e) | None => None end
        end
    end.
End Checker.

(** nodes_all_sigs: check a node from an empty environment *)
Definition node_sig (n : node) : option sig := option_map env_sig (vnode 0 n (vs0, vs0)).
(** Node::sig() is applied to node.as_slice(): a Run's children are checked at depth 0 *)
Definition root_sig (n : node) : option sig :=
  match n with
  | Run ns => option_map env_sig
      ((fix go (l : list node) (e : venv) {struct l} : option venv :=
          match l with [] => Some e | x :: t => opt_bind (vnode 0 x e) (go t) end) ns (vs0, vs0))
  | _ => node_sig n end.

(** Tie helpers (V): compare with what the real checker returned for an exported node *)
Definition osig_eqb (a b : option sig) : bool :=
  match a, b with Some x, Some y => sig_eqb x y | None, None => true | _, _ => false end.
Record scase := SC { sc_node : node; sc_rust : option sig; sc_stored : option sig; sc_opaque : bool }.
(** 0 = agrees, 1 = disagrees, 2 = not covered by the model (an unmodelled modifier was consulted) *)
Definition scase_code (c : scase) : N :=
  let ms := root_sig (sc_node c) in
  if osig_eqb ms (sc_rust c) then 0%N
  else match ms with None => if sc_opaque c then 2%N else 1%N | Some _ => 1%N end.
Fixpoint codes_from (i : N) (l : list scase) : list (N * N) :=
  match l with [] => [] | c :: t =>
    let k := scase_code c in
    if N.eqb k 0 then codes_from (i + 1)%N t else (i, k) :: codes_from (i + 1)%N t end.
