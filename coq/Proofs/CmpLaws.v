(** Generic algebra of three-valued comparisons: pointwise total-preorder laws and their
    closure under lexicographic products and lists.  Used by C15 (and C16's key equality). *)
From Coq Require Import List ZArith NArith Bool Lia PeanoNat.
From UV Require Import Model.Order.
Import ListNotations.

Section Laws.
  Context {A : Type}.
  Variable c : A -> A -> comparison.
  (** the total-preorder laws of [c] at a point [a] (first argument) *)
  Record Laws (a : A) : Prop := {
    L0 : c a a = Eq;
    L1 : forall b, c b a = CompOpp (c a b);
    L2 : forall b d, c a b = Eq -> c a d = c b d;
    L3 : forall b d, c b d = Eq -> c a b = c a d;
    L4 : forall b d, c a b = Lt -> c b d = Lt -> c a d = Lt;
    L5 : forall b d, c a b = Gt -> c b d = Gt -> c a d = Gt }.
End Laws.
Arguments L0 {A c a} _.
Arguments L1 {A c a} _ b.
Arguments L2 {A c a} _ b d _.
Arguments L3 {A c a} _ b d _.
Arguments L4 {A c a} _ b d _ _.
Arguments L5 {A c a} _ b d _ _.

Lemma cmp_then_eq c k : cmp_then c k = Eq <-> c = Eq /\ k = Eq.
Proof. destruct c; simpl; intuition congruence. Qed.
Lemma cmp_then_opp c k : CompOpp (cmp_then c k) = cmp_then (CompOpp c) (CompOpp k).
Proof. destruct c; reflexivity. Qed.
Lemma cmp_then_assoc a b c : cmp_then (cmp_then a b) c = cmp_then a (cmp_then b c).
Proof. destruct a; reflexivity. Qed.

(** lexicographic comparison of two projections *)
Section Then.
  Context {P A B : Type} (f : P -> A) (g : P -> B).
  Variable c1 : A -> A -> comparison.
  Variable c2 : B -> B -> comparison.
  Definition lex2 (p q : P) := cmp_then (c1 (f p) (f q)) (c2 (g p) (g q)).
  Lemma Laws_lex2 p : Laws c1 (f p) -> Laws c2 (g p) -> Laws lex2 p.
  Proof.
    intros H1 H2. unfold lex2. constructor.
    - rewrite (L0 H1), (L0 H2); reflexivity.
    - intro b. rewrite (L1 H1 _), (L1 H2 _). symmetry; apply cmp_then_opp.
    - intros b d E. apply cmp_then_eq in E as [E1 E2].
      rewrite (L2 H1 _ (f d) E1), (L2 H2 _ (g d) E2). reflexivity.
    - intros b d E. apply cmp_then_eq in E as [E1 E2].
      rewrite (L3 H1 _ _ E1), (L3 H2 _ _ E2). reflexivity.
    - intros b d E1 E2.
      destruct (c1 (f p) (f b)) eqn:X1; simpl in E1; try discriminate.
      + rewrite (L2 H1 _ (f d) X1).
        destruct (c1 (f b) (f d)) eqn:X2; simpl in E2; try discriminate; simpl; auto.
        apply (L4 H2 _ _ E1 E2).
      + destruct (c1 (f b) (f d)) eqn:X2; simpl in E2; try discriminate.
        * rewrite <- (L3 H1 _ _ X2), X1. reflexivity.
        * rewrite (L4 H1 _ _ X1 X2). reflexivity.
    - intros b d E1 E2.
      destruct (c1 (f p) (f b)) eqn:X1; simpl in E1; try discriminate.
      + rewrite (L2 H1 _ (f d) X1).
        destruct (c1 (f b) (f d)) eqn:X2; simpl in E2; try discriminate; simpl; auto.
        apply (L5 H2 _ _ E1 E2).
      + destruct (c1 (f b) (f d)) eqn:X2; simpl in E2; try discriminate.
        * rewrite <- (L3 H1 _ _ X2), X1. reflexivity.
        * rewrite (L5 H1 _ _ X1 X2). reflexivity.
  Qed.
End Then.

(** full lexicographic comparison of lists: a strict prefix is smaller *)
Fixpoint lexl {A} (c : A -> A -> comparison) (a b : list A) : comparison :=
  match a, b with
  | [], [] => Eq | [], _ => Lt | _, [] => Gt
  | x :: a', y :: b' => cmp_then (c x y) (lexl c a' b') end.

Lemma zip_len_lexl {A} (c : A -> A -> comparison) a b :
  cmp_then (zip_cmp c a b) (Nat.compare (length a) (length b)) = lexl c a b.
Proof.
  revert b; induction a as [|x a IH]; intros [|y b]; simpl; auto.
  rewrite cmp_then_assoc, IH. reflexivity.
Qed.

Lemma Laws_lexl {A} (c : A -> A -> comparison) l : Forall (Laws c) l -> Laws (lexl c) l.
Proof.
  induction 1 as [|x l Hx Hl IH].
  - constructor; simpl; auto.
    + intros [|y b]; reflexivity.
    + intros [|y b] d E; simpl in E; try discriminate. reflexivity.
    + intros [|y b] [|z d] E; simpl in *; try discriminate; auto.
    + intros [|y b] [|z d] E1 E2; simpl in *; try discriminate; auto.
    + intros [|y b] d E1; simpl in *; discriminate.
  - constructor.
    + simpl. rewrite (L0 Hx), (L0 IH). reflexivity.
    + intros [|y b]; simpl; auto.
      rewrite (L1 Hx _), (L1 IH _). symmetry; apply cmp_then_opp.
    + intros [|y b] d E; simpl in E; try discriminate.
      apply cmp_then_eq in E as [E1 E2]. destruct d as [|z d]; simpl; auto.
      rewrite (L2 Hx _ z E1), (L2 IH _ d E2). reflexivity.
    + intros [|y b] [|z d] E; simpl in E; try discriminate; auto.
      apply cmp_then_eq in E as [E1 E2]. simpl.
      rewrite (L3 Hx _ _ E1), (L3 IH _ _ E2). reflexivity.
    + intros [|y b] [|z d] E1 E2; simpl in *; try discriminate.
      change (lex2 (@fst A (list A)) (@snd A (list A)) c (lexl c) (x, l) (z, d) = Lt).
      eapply (L4 (Laws_lex2 fst snd c (lexl c) (x, l) Hx IH) (y, b)); assumption.
    + intros [|y b] [|z d] E1 E2; simpl in *; try discriminate; auto.
      change (lex2 (@fst A (list A)) (@snd A (list A)) c (lexl c) (x, l) (z, d) = Gt).
      eapply (L5 (Laws_lex2 fst snd c (lexl c) (x, l) Hx IH) (y, b)); assumption.
Qed.

(** base orders *)
Lemma Laws_nat n : Laws Nat.compare n.
Proof.
  constructor; intros.
  - apply Nat.compare_refl.
  - apply Nat.compare_antisym.
  - apply Nat.compare_eq in H; subst; reflexivity.
  - apply Nat.compare_eq in H; subst; reflexivity.
  - apply Nat.compare_lt_iff in H, H0. apply Nat.compare_lt_iff. lia.
  - apply Nat.compare_gt_iff in H, H0. apply Nat.compare_gt_iff. lia.
Qed.
Lemma Laws_N n : Laws N.compare n.
Proof.
  constructor; intros.
  - apply N.compare_refl.
  - apply N.compare_antisym.
  - apply N.compare_eq in H; subst; reflexivity.
  - apply N.compare_eq in H; subst; reflexivity.
  - exact (N.lt_trans _ _ _ H H0).
  - apply N.compare_gt_iff in H, H0. apply N.compare_gt_iff. lia.
Qed.
Lemma Laws_Z n : Laws Z.compare n.
Proof.
  constructor; intros.
  - apply Z.compare_refl.
  - apply Z.compare_antisym.
  - apply Z.compare_eq in H; subst; reflexivity.
  - apply Z.compare_eq in H; subst; reflexivity.
  - exact (Z.lt_trans _ _ _ H H0).
  - apply Z.compare_gt_iff in H, H0. apply Z.compare_gt_iff. lia.
Qed.
Lemma Laws_bool b : Laws bool_cmp b.
Proof.
  constructor.
  - destruct b; reflexivity.
  - intros [|]; destruct b; reflexivity.
  - intros [|] [|]; destruct b; simpl; congruence.
  - intros [|] [|]; destruct b; simpl; congruence.
  - intros [|] [|]; destruct b; simpl; congruence.
  - intros [|] [|]; destruct b; simpl; congruence.
Qed.

Lemma lex_cmp_lexl a b : lex_cmp a b = lexl Nat.compare a b.
Proof. revert b; induction a; intros [|]; simpl; auto. rewrite IHa; reflexivity. Qed.

(** contravariant transport *)
Lemma Laws_contra {A B} (f : A -> B) (c : B -> B -> comparison) a :
  Laws c (f a) -> Laws (fun x y => c (f x) (f y)) a.
Proof.
  intros H; constructor; intros.
  - apply (L0 H). - apply (L1 H _). - apply (L2 H); auto. - apply (L3 H); auto.
  - eapply (L4 H); eauto. - eapply (L5 H); eauto.
Qed.

Lemma Laws_ext {A} (c c' : A -> A -> comparison) a :
  (forall x y, c x y = c' x y) -> Laws c a -> Laws c' a.
Proof.
  intros E H; constructor; intros; rewrite <- ?E in *.
  - apply (L0 H). - apply (L1 H _). - apply (L2 H); auto. - apply (L3 H); auto.
  - eapply (L4 H); eauto. - eapply (L5 H); eauto.
Qed.
