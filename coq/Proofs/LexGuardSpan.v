(** C19 proofs, continued: the span of the size guard's error (lex.rs:66-82). *)
From Coq Require Import List NArith Bool Lia PeanoNat.
From UV Require Import Model.Lex Proofs.Lex.
Import ListNotations.
Open Scope N_scope.

(** * The span of the guard's error *)
Lemma firstn_app_len {A} (a b : list A) : firstn (length a) (a ++ b) = a.
Proof. rewrite <- (Nat.add_0_r (length a)), firstn_app_2. cbn. apply app_nil_r. Qed.
Lemma firstn_app_len1 {A} (a : list A) x b : firstn (length a + 1) (a ++ x :: b) = a ++ [x].
Proof. rewrite firstn_app_2. reflexivity. Qed.

Lemma wrap16_small x : x <= U16MAX -> wrap16 x = x.
Proof. intros. unfold wrap16, U16MAX in *. apply N.mod_small. lia. Qed.
Lemma wrap32_small x : x <= U32MAX -> wrap32 x = x.
Proof. intros. unfold wrap32, U32MAX in *. apply N.mod_small. lia. Qed.

Lemma nonl_noncr_nil : nonl_noncr [] = 0. Proof. reflexivity. Qed.
Lemma seg_len_nil : seg_len [] = 0. Proof. reflexivity. Qed.
Ltac empty_case Bpre Npre :=
  cbv iota; rewrite nonl_noncr_nil, seg_len_nil;
  change (wrap16 0) with 0; change (wrap32 0) with 0; rewrite !N.add_0_r;
  change (wrap16 1) with 1; rewrite (wrap32_small _ Bpre), (wrap32_small _ Npre); reflexivity.

(** current code (d674421): the error span starts at the specified Loc of the offending line's
    start and ends one segment further (or is empty on an empty line) *)
Theorem guard_err_span_valid pre first tail :
  fits32 (pre ++ tail) -> last_line (concat pre) = [] ->
  (first = [] \/ exists r, tail = first :: r) -> filter is_nl first = [] ->
  line_of (concat pre) <= U16MAX -> 1 + nonl_noncr first <= U16MAX ->
  guard_err_span pre first =
    (spec_loc (pre ++ tail) (length pre),
     spec_loc (pre ++ tail) (length pre + match first with [] => 0 | _ => 1 end)).
Proof.
  intros [Hb Hn] Hll Hf Hnl Hline Hcol.
  assert (Bpre : bytes_of pre <= U32MAX) by (rewrite bytes_of_app in Hb; lia).
  assert (Npre : nlen pre <= U32MAX) by (rewrite nlen_app in Hn; lia).
  assert (S0 : spec_loc (pre ++ tail) (length pre) = mkLoc (line_of (concat pre)) 1 (bytes_of pre) (nlen pre)).
  { unfold spec_loc, chars_before. rewrite firstn_app_len. unfold col_of. rewrite Hll. reflexivity. }
  unfold guard_err_span. cbn zeta. cbn [line col byte_pos char_pos].
  assert (L : wrap16 (nlen (filter is_nl (concat pre)) + 1) = line_of (concat pre)).
  { unfold line_of in *. rewrite wrap16_small by lia. lia. }
  rewrite L, (wrap32_small _ Bpre), (wrap32_small _ Npre).
  destruct Hf as [-> | (r & ->)].
  - rewrite Nat.add_0_r, S0. empty_case Bpre Npre.
  - rewrite S0. destruct first as [|c0 f0] eqn:Ef.
    + rewrite Nat.add_0_r, S0. empty_case Bpre Npre.
    + rewrite <- Ef in *. f_equal. unfold spec_loc, chars_before. rewrite firstn_app_len1.
      rewrite concat_app. cbn [concat]. rewrite app_nil_r, line_of_app, Hnl. unfold col_of.
      rewrite (last_line_app_nonl _ _ Hnl), Hll. cbn [app].
      rewrite bytes_of_app, nlen_app. cbn [bytes_of fold_right]. unfold nlen at 3. cbn [length].
      rewrite bytes_of_app in Hb. rewrite bytes_of_cons in Hb. rewrite nlen_app in Hn. unfold nlen in Hn at 2. cbn [length] in Hn.
      unfold nonl_noncr in *.
      assert (W1 : wrap16 (nlen (filter (fun c => negb (is_cr c)) first)) = nlen (filter (fun c => negb (is_cr c)) first)) by (apply wrap16_small; lia).
      rewrite W1, (wrap16_small _ Hcol).
      rewrite (wrap32_small (seg_len first)) by lia. rewrite wrap32_small by lia.
      rewrite (wrap32_small (nlen pre + 1)) by lia.
      subst first. f_equal; try lia. cbn [nlen length filter]. unfold nlen. cbn [length]. lia.
Qed.

(** before d674421: already for "a", line break, "x.." the error span started at
    (byte 1, char 1, 1:1) instead of (byte 2, char 2, 2:1) *)
Theorem guard_err_span_refuted_pre :
  exists pre first tail, tail = first :: [] /\ last_line (concat pre) = [] /\
    fst (guard_err_span_pre pre first) <> spec_loc (pre ++ tail) (length pre) /\
    fst (guard_err_span pre first) = spec_loc (pre ++ tail) (length pre).
Proof.
  exists [seg_a; seg_nl], seg_a, [seg_a]. repeat split; vm_compute; try reflexivity. discriminate.
Qed.
