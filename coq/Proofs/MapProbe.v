(** C16 — what the probe loops of MapKeys (get, remove_impl, insert_impl with its
    tombstone look-ahead) compute, for an arbitrary hash function. *)
From Coq Require Import List Arith NArith ZArith Lia Bool.
From UV Require Import Model.Map Proofs.MapBase.
Import ListNotations.

Section MapProbe.
Variable key : Type.
Variable keq : key -> key -> bool.
Variable nanlike : key -> bool.
Variable hash : key -> N.

Notation mkk := (mk key).
Notation capm := (cap key).
Notation hs := (hstart key hash).

Definition cellat (m : mkk) (p : nat) : cell key := nth p (cells m) Empty.
Definition matches (k : key) (c : cell key) : bool := cell_is_key key keq c k.

(** the common skeleton of get and remove (current code, [fixed = true]): the position of
    the matching cell *)
Fixpoint find_loop (fuel : nat) (m : mkk) (k : key) (start i : nat) : option nat :=
  match fuel with
  | 0 => None
  | S fuel =>
    let next := let i' := S i mod capm m in
                if i' =? start then None else find_loop fuel m k start i' in
    match nth i (cells m) Empty with
    | Empty => None
    | Tomb => next
    | Key k' => if keq k k' then Some i else next
    end
  end.

Lemma get_loop_find : forall fuel m k s i,
  get_loop key keq nanlike true fuel m k s i = option_map (fun p => nth p (idx m) 0) (find_loop fuel m k s i).
Proof.
  induction fuel; intros; simpl; auto.
  destruct (nth i (cells m) Empty); auto.
  - destruct (_ =? s); auto.
  - destruct (keq k k0); auto. destruct (_ =? s); auto.
Qed.

Lemma rem_loop_find : forall fuel m k s i,
  rem_loop key keq nanlike true fuel m k s i =
  match find_loop fuel m k s i with
  | Some p => (MK (set_nth p Tomb (cells m)) (set_nth p 0 (idx m)) (len m - 1), Some (nth p (idx m) 0))
  | None => (m, None)
  end.
Proof.
  induction fuel; intros; simpl; auto.
  destruct (nth i (cells m) Empty); auto.
  - destruct (_ =? s); auto.
  - destruct (keq k k0); auto. destruct (_ =? s); auto.
Qed.

Lemma find_loop_sound : forall fuel m k s i p,
  find_loop fuel m k s i = Some p -> matches k (cellat m p) = true.
Proof.
  induction fuel; intros m k s i p H; simpl in H; try discriminate.
  destruct (nth i (cells m) Empty) eqn:E; try discriminate.
  - destruct (_ =? s); try discriminate. eapply IHfuel; eauto.
  - destruct (keq k k0) eqn:Ek.
    + inversion H; subst. unfold matches, cellat. rewrite E. simpl. exact Ek.
    + destruct (_ =? s); try discriminate. eapply IHfuel; eauto.
Qed.

(** when the search gives up, every cell probed up to an empty cell (or all of them) fails to match *)
Lemma find_loop_none : forall fuel m k s d,
  let c := capm m in
  s < c -> d < c -> d + fuel = c ->
  find_loop fuel m k s (off c s d) = None ->
  exists t, d <= t /\ t <= c /\
    (forall e, d <= e -> e < t -> matches k (cellat m (off c s e)) = false) /\
    (t < c -> cellat m (off c s t) = Empty).
Proof.
  induction fuel; intros m k s d c Hs Hd Hf H.
  - lia.
  - simpl in H. fold c in H.
    assert (Hstep : S (off c s d) mod c = off c s (S d)) by (apply off_step; lia).
    assert (Hback : (off c s (S d) =? s) = (S d =? c)) by (apply off_back; lia).
    assert (Hrec : matches k (cellat m (off c s d)) = false ->
       (if S (off c s d) mod c =? s then None else find_loop fuel m k s (S (off c s d) mod c)) = None ->
       exists t, d <= t /\ t <= c /\
         (forall e, d <= e -> e < t -> matches k (cellat m (off c s e)) = false) /\
         (t < c -> cellat m (off c s t) = Empty)).
    { intros E' H'. rewrite Hstep, Hback in H'. destruct (Nat.eqb_spec (S d) c) as [Hc|Hc].
      - exists c. repeat split; try lia. intros e He1 He2. assert (e = d) by lia. subst e. exact E'.
      - destruct (IHfuel m k s (S d)) as [t [Ht1 [Ht2 [Ht3 Ht4]]]]; try lia; auto.
        exists t. repeat split; try lia; auto.
        intros e He1 He2. destruct (Nat.eq_dec e d) as [->|]; [exact E'|]. apply Ht3; lia. }
    destruct (nth (off c s d) (cells m) Empty) eqn:Ec.
    + exists d. repeat split; try lia. intros _. exact Ec.
    + apply Hrec; auto. unfold matches, cellat. rewrite Ec. reflexivity.
    + destruct (keq k k0) eqn:Ek; try discriminate.
      apply Hrec; auto. unfold matches, cellat. rewrite Ec. simpl. exact Ek.
Qed.

(** the tombstone look-ahead of insert_impl, started [j] steps after the tombstone at [orig] *)
Lemma tomb_probe_spec : forall fuel m k orig j,
  let c := capm m in
  orig < c -> j < c -> j + fuel = c ->
  let r := tomb_probe key keq fuel m k orig (off c orig j) in
  (fst r = true -> matches k (cellat m (snd r)) = true) /\
  (fst r = false -> snd r = orig /\
     exists t, j < t /\ t <= c /\
       (forall e, j < e -> e < t -> matches k (cellat m (off c orig e)) = false) /\
       (t < c -> cellat m (off c orig t) = Empty)).
Proof.
  induction fuel; intros m k orig j c Ho Hj Hf.
  - lia.
  - simpl. fold c.
    assert (Hstep : S (off c orig j) mod c = off c orig (S j)) by (apply off_step; lia).
    assert (Hback : (off c orig (S j) =? orig) = (S j =? c)) by (apply off_back; lia).
    rewrite Hstep, Hback.
    destruct (Nat.eqb_spec (S j) c) as [Hc|Hc].
    + simpl. split; [discriminate|]. intros _. split; auto.
      exists c. repeat split; try lia.
    + destruct (nth (off c orig (S j)) (cells m) Empty) eqn:Ec.
      * simpl. split; [discriminate|]. intros _. split; auto.
        exists (S j). repeat split; try lia. intros _. exact Ec.
      * destruct (IHfuel m k orig (S j)) as [I1 I2]; try lia. fold c in I1, I2.
        split; [exact I1|]. intros Hr. destruct (I2 Hr) as [Hq [t [Ht1 [Ht2 [Ht3 Ht4]]]]].
        split; auto. exists t. repeat split; try lia; auto.
        intros e He1 He2. destruct (Nat.eq_dec e (S j)) as [->|].
        { unfold cellat. rewrite Ec. reflexivity. }
        apply Ht3; lia.
      * destruct (keq k k0) eqn:Ek.
        { simpl. split; [|discriminate]. intros _. unfold cellat. rewrite Ec. simpl. exact Ek. }
        destruct (IHfuel m k orig (S j)) as [I1 I2]; try lia. fold c in I1, I2.
        split; [exact I1|]. intros Hr. destruct (I2 Hr) as [Hq [t [Ht1 [Ht2 [Ht3 Ht4]]]]].
        split; auto. exists t. repeat split; try lia; auto.
        intros e He1 He2. destruct (Nat.eq_dec e (S j)) as [->|].
        { unfold cellat. rewrite Ec. simpl. exact Ek. }
        apply Ht3; lia.
Qed.

(** outcome of insert_impl started [d] probes after the hash position [s]: either the
    key is new and goes into a placeholder cell that is reached without crossing an
    empty cell, or it replaces the (matching) key of a cell *)
Definition put (m : mkk) (p : nat) (k : key) (index : nat) (fresh : bool) : mkk :=
  MK (set_nth p (Key k) (cells m)) (set_nth p index (idx m)) (if fresh then S (len m) else len m).

Definition ins_post (m : mkk) (k : key) (index s : nat) (res : option (mkk * option nat)) : Prop :=
  let c := capm m in
  match res with
  | Some (m', r) =>
    exists p, p < c /\
      ((r = None /\ m' = put m p k index true /\
        is_keyb (cellat m p) = false /\
        (forall q, matches k (cellat m q) = false) /\
        exists d0, d0 < c /\ p = off c s d0 /\ forall e, e < d0 -> cellat m (off c s e) <> Empty)
       \/
       (r = Some (nth p (idx m) 0) /\ m' = put m p k index false /\ matches k (cellat m p) = true))
  | None => forall e, e < c -> is_keyb (cellat m (off c s e)) = true
  end.

Lemma matches_nokey : forall k c, is_keyb c = false -> matches k c = false.
Proof. intros k [| |k'] H; simpl in *; auto; discriminate. Qed.

Lemma ins_loop_spec : forall fuel m k index s d,
  let c := capm m in
  s < c -> d < c -> d + fuel = c -> length (cells m) = c ->
  (* matching keys are reachable from s without crossing an empty cell *)
  (forall q, matches k (cellat m q) = true ->
     exists d', d' < c /\ q = off c s d' /\ forall e, e < d' -> cellat m (off c s e) <> Empty) ->
  (* the cells probed so far hold other keys *)
  (forall e, e < d -> is_keyb (cellat m (off c s e)) = true /\ matches k (cellat m (off c s e)) = false) ->
  ins_post m k index s (ins_loop key keq fuel m k index s (off c s d)).
Proof.
  induction fuel; intros m k index s d c Hs Hd Hf Hlen Hreach Hprev.
  - lia.
  - assert (Hstep : S (off c s d) mod c = off c s (S d)) by (apply off_step; lia).
    assert (Hback : (off c s (S d) =? s) = (S d =? c)) by (apply off_back; lia).
    assert (Hp : off c s d < c) by (apply off_lt; lia).
    assert (Hpath : forall e, e < d -> cellat m (off c s e) <> Empty).
    { intros e He Hx. destruct (Hprev e He) as [Hk _]. rewrite Hx in Hk. discriminate. }
    (* no key matches anywhere when the cell at offset d is a placeholder and it is either
       empty or nothing matches strictly after it up to an empty cell *)
    assert (Hnone : is_keyb (cellat m (off c s d)) = false ->
       (cellat m (off c s d) = Empty \/
        exists t, 0 < t /\ t <= c /\
           (forall e, 0 < e -> e < t -> matches k (cellat m (off c (off c s d) e)) = false) /\
           (t < c -> cellat m (off c (off c s d) t) = Empty)) ->
       forall q, matches k (cellat m q) = false).
    { intros Hph Hcase q.
      destruct (matches k (cellat m q)) eqn:Eq; auto. exfalso.
      destruct (Hreach q Eq) as [d' [Hd' [Hq Hpth]]]. subst q.
      destruct (Nat.lt_trichotomy d' d) as [Hlt|[->|Hgt]].
      - destruct (Hprev d' Hlt) as [_ Hm]. congruence.
      - rewrite (matches_nokey k _ Hph) in Eq. discriminate.
      - destruct Hcase as [He|[t [Ht0 [Ht1 [Ht2 Ht3]]]]].
        + apply (Hpth d Hgt He).
        + destruct (Nat.lt_ge_cases (d' - d) t) as [Hin|Hout].
          * specialize (Ht2 (d' - d) ltac:(lia) Hin). rewrite off_off in Ht2 by lia.
            replace (d + (d' - d)) with d' in Ht2 by lia. congruence.
          * assert (Htc : t < c) by lia. specialize (Ht3 Htc). rewrite off_off in Ht3 by lia.
            destruct (Nat.eq_dec (d + t) d') as [E|E].
            -- rewrite E in Ht3. rewrite Ht3 in Eq. simpl in Eq. discriminate.
            -- apply (Hpth (d + t)); [lia|exact Ht3]. }
    unfold ins_post. simpl ins_loop. fold c.
    destruct (nth (off c s d) (cells m) Empty) eqn:Ec.
    + (* empty cell: the key is new *)
      simpl. exists (off c s d). split; auto. left.
      assert (Hk : is_keyb (cellat m (off c s d)) = false) by (unfold cellat; rewrite Ec; reflexivity).
      split; [reflexivity|]. split; [reflexivity|]. split; [exact Hk|].
      split; [apply Hnone; auto|]. exists d. repeat split; auto.
    + (* tombstone: look ahead for the key *)
      assert (Hk : is_keyb (cellat m (off c s d)) = false) by (unfold cellat; rewrite Ec; reflexivity).
      destruct (tomb_probe_spec c m k (off c s d) 0) as [T1 T2]; try (fold c; lia).
      fold c in T1, T2. rewrite off_0 in T1, T2 by assumption.
      destruct (tomb_probe key keq c m k (off c s d) (off c s d)) as [present i2] eqn:Ep.
      simpl in T1, T2. destruct present.
      * specialize (T1 eq_refl). simpl. unfold matches, cellat in T1. rewrite T1.
        exists i2. split.
        { rewrite <- Hlen. apply nth_overflow_default with (d := Empty).
          intro Hx. rewrite Hx in T1. discriminate. }
        right. repeat split; auto.
      * destruct (T2 eq_refl) as [Hi2 Hex]. subst i2. simpl.
        exists (off c s d). split; auto. left.
        split; [reflexivity|]. split; [reflexivity|]. split; [exact Hk|].
        split; [apply Hnone; auto|]. exists d. repeat split; auto.
    + (* a key *)
      simpl. rewrite Ec. simpl. destruct (keq k k0) eqn:Ek.
      * exists (off c s d). split; auto. right. repeat split; auto.
        unfold matches, cellat. rewrite Ec. simpl. exact Ek.
      * rewrite Hstep, Hback.
        assert (Hprev' : forall e, e < S d ->
           is_keyb (cellat m (off c s e)) = true /\ matches k (cellat m (off c s e)) = false).
        { intros e He. destruct (Nat.eq_dec e d) as [->|]; [|apply Hprev; lia].
          unfold matches, cellat. rewrite Ec. simpl. auto. }
        destruct (Nat.eqb_spec (S d) c) as [Hc|Hc].
        -- intros e He. apply Hprev'. lia.
        -- apply (IHfuel m k index s (S d)); auto; try (fold c; lia).
Qed.

End MapProbe.
