(** C15 proofs: the value ordering is a total preorder whose "equal" is [value_eq]
    (on shape-well-formed values) and equal values feed the hasher identically. *)
From Coq Require Import List ZArith NArith Bool Lia PeanoNat.
From UV Require Import Base.Value Model.Order Proofs.CmpLaws.
Import ListNotations.

Notation vcmp := (value_cmp true).
Notation veq := (value_eq true).
Notation vhash := (value_hash true).

(** * Homogeneous sort keys *)
Inductive tree := L (z : Z) | T (l : list tree).

Section TreeInd.
  Variable P : tree -> Prop.
  Hypothesis HL : forall z, P (L z).
  Hypothesis HT : forall l, Forall P l -> P (T l).
  Fixpoint tree_ind' (t : tree) : P t :=
    match t with
    | L z => HL z
    | T l => HT l ((fix go (l : list tree) : Forall P l :=
        match l with [] => Forall_nil P | x :: r => Forall_cons x (tree_ind' x) (go r) end) l)
    end.
End TreeInd.

Fixpoint tcmp (a b : tree) {struct a} : comparison :=
  match a, b with
  | L x, L y => Z.compare x y
  | L _, T _ => Lt
  | T _, L _ => Gt
  | T la, T lb =>
      (fix go (l1 l2 : list tree) {struct l1} : comparison :=
         match l1, l2 with
         | [], [] => Eq | [], _ => Lt | _, [] => Gt
         | x :: r1, y :: r2 => cmp_then (tcmp x y) (go r1 r2) end) la lb
  end.

Lemma tcmp_T la lb : tcmp (T la) (T lb) = lexl tcmp la lb.
Proof. revert lb; induction la as [|x la IH]; intros [|y lb]; simpl; auto. f_equal. apply IH. Qed.

Lemma tcmp_TL l y : tcmp (T l) (L y) = Gt. Proof. reflexivity. Qed.
Lemma tcmp_LT l y : tcmp (L y) (T l) = Lt. Proof. reflexivity. Qed.
Lemma tcmp_LL x y : tcmp (L x) (L y) = Z.compare x y. Proof. reflexivity. Qed.
Ltac tnorm := rewrite ?tcmp_T, ?tcmp_TL, ?tcmp_LT, ?tcmp_LL in *.

Lemma Laws_tcmp t : Laws tcmp t.
Proof.
  induction t as [z|l IH] using tree_ind'.
  - pose proof (Laws_Z z) as HZ. constructor.
    + apply (L0 HZ).
    + intros [y|lb]; tnorm; auto. apply (L1 HZ).
    + intros [y|lb] [w|ld] E; tnorm; try discriminate; auto. apply (L2 HZ); auto.
    + intros [y|lb] [w|ld] E; tnorm; try discriminate; auto. apply (L3 HZ); auto.
    + intros [y|lb] [w|ld] E1 E2; tnorm; try discriminate; auto. eapply (L4 HZ); eauto.
    + intros [y|lb] [w|ld] E1 E2; tnorm; try discriminate; auto. eapply (L5 HZ); eauto.
  - pose proof (Laws_lexl tcmp l IH) as HL. constructor.
    + tnorm. apply (L0 HL).
    + intros [y|lb]; tnorm; auto. apply (L1 HL).
    + intros [y|lb] [w|ld] E; tnorm; try discriminate; auto. apply (L2 HL); auto.
    + intros [y|lb] [w|ld] E; tnorm; try discriminate; auto. apply (L3 HL); auto.
    + intros [y|lb] [w|ld] E1 E2; tnorm; try discriminate; auto. eapply (L4 HL); eauto.
    + intros [y|lb] [w|ld] E1 E2; tnorm; try discriminate; auto. eapply (L5 HL); eauto.
Qed.

(** * Keys of values *)
Definition kf (x : f64) : tree :=
  T [L (if f_is_nan x then 1 else 0)%Z; L (if f_is_nan x then 0%Z else f_key x)].
Definition kn (n : nat) : tree := L (Z.of_nat n).
Definition kN (n : N) : tree := L (Z.of_N n).
Definition kc (c : f64 * f64) : tree := T [kf (fst c); kf (snd c)].

Fixpoint key (v : value) : tree :=
  match v with
  | VNum s d => T [kn 0; kn (length s); T (map kf d); T (map kn s)]
  | VByte s d => T [kn 0; kn (length s); T (map (fun x => kf (f_of_byte x)) d); T (map kn s)]
  | VChar s d => T [kn 1; kn (length s); T (map kN d); T (map kn s)]
  | VCplx s d => T [kn 3; kn (length s); T (map kc d); T (map kn s)]
  | VBox s d => T [kn 2; kn (length s); T (map key d); T (map kn s)]
  end.

Lemma lexl_map {A B} (f : A -> B) (c : B -> B -> comparison) l1 l2 :
  lexl c (map f l1) (map f l2) = lexl (fun x y => c (f x) (f y)) l1 l2.
Proof. revert l2; induction l1; intros [|]; simpl; auto. rewrite IHl1; reflexivity. Qed.
Lemma lexl_map2 {A A' B} (f : A -> B) (g : A' -> B) (c : B -> B -> comparison)
      (c' : A -> A' -> comparison) l1 l2 :
  (forall x y, c (f x) (g y) = c' x y) ->
  lexl c (map f l1) (map g l2) =
  cmp_then (zip_cmp c' l1 l2) (Nat.compare (length l1) (length l2)).
Proof.
  intros E. revert l2; induction l1 as [|x l1 IH]; intros [|y l2]; simpl; auto.
  rewrite IH, E, cmp_then_assoc. reflexivity.
Qed.
Lemma lexl_map2_F {A B} (f g : A -> B) (c : B -> B -> comparison)
      (c' : A -> A -> comparison) l1 l2 :
  Forall (fun x => forall y, c' x y = c (f x) (g y)) l1 ->
  lexl c (map f l1) (map g l2) =
  cmp_then (zip_cmp c' l1 l2) (Nat.compare (length l1) (length l2)).
Proof.
  intros F. revert l2; induction F as [|x l1 Hx F IH]; intros [|y l2]; simpl; auto.
  rewrite IH, <- Hx, cmp_then_assoc. reflexivity.
Qed.

Lemma kn_cmp a b : tcmp (kn a) (kn b) = Nat.compare a b.
Proof. simpl. apply Nat2Z.inj_compare. Qed.
Lemma kN_cmp a b : tcmp (kN a) (kN b) = N.compare a b.
Proof. simpl. apply N2Z.inj_compare. Qed.
Lemma kf_cmp a b : tcmp (kf a) (kf b) = f_cmp a b.
Proof.
  unfold kf, f_cmp, f_pcmp. rewrite tcmp_T. simpl.
  destruct (f_is_nan a), (f_is_nan b); simpl; auto.
  destruct (f_key a ?= f_key b)%Z; reflexivity.
Qed.
Lemma kc_cmp a b : tcmp (kc a) (kc b) = c_cmp a b.
Proof.
  unfold kc, c_cmp. rewrite tcmp_T. cbn [lexl]. rewrite !kf_cmp.
  destruct (f_cmp (fst a) (fst b)); simpl; auto. destruct (f_cmp (snd a) (snd b)); reflexivity.
Qed.
Lemma shape_key_cmp sa sb : lexl tcmp (map kn sa) (map kn sb) = lex_cmp sa sb.
Proof.
  rewrite lex_cmp_lexl, lexl_map.
  revert sb; induction sa; intros [|]; simpl; auto.
  rewrite IHsa, <- Nat2Z.inj_compare. reflexivity.
Qed.

Lemma arr_key_cmp (ta tb : nat) sa sb (ka kb : list tree) la lb z :
  lexl tcmp ka kb = cmp_then z (Nat.compare la lb) ->
  tcmp (T [kn ta; kn (length sa); T ka; T (map kn sa)])
       (T [kn tb; kn (length sb); T kb; T (map kn sb)]) =
  cmp_then (Nat.compare ta tb) (arr_cmp sa sb la lb z).
Proof.
  intros E. rewrite tcmp_T. cbn [lexl]. rewrite !kn_cmp, !tcmp_T, E, shape_key_cmp.
  unfold arr_cmp. destruct (Nat.compare ta tb); simpl; auto.
  destruct (Nat.compare (length sa) (length sb)); simpl; auto.
  destruct z; simpl; auto. destruct (Nat.compare la lb); simpl; auto.
  destruct (lex_cmp sa sb); reflexivity.
Qed.

Lemma zc_zip (l1 l2 : list value) :
  (fix zc (l1 l2 : list value) {struct l1} : comparison :=
     match l1, l2 with
     | x :: l1', y :: l2' => cmp_then (vcmp x y) (zc l1' l2')
     | _, _ => Eq end) l1 l2 = zip_cmp vcmp l1 l2.
Proof. revert l2; induction l1; intros [|]; simpl; auto. rewrite IHl1; reflexivity. Qed.

Lemma zip_cmp_map {A A' B B'} (f : A -> B) (g : A' -> B') (c : B -> B' -> comparison) l1 l2 :
  zip_cmp c (map f l1) (map g l2) = zip_cmp (fun x y => c (f x) (g y)) l1 l2.
Proof. revert l2; induction l1; intros [|]; simpl; auto. rewrite IHl1; reflexivity. Qed.
Lemma zip_cmp_map_l {A B B'} (f : A -> B) (c : B -> B' -> comparison) l1 l2 :
  zip_cmp c (map f l1) l2 = zip_cmp (fun x y => c (f x) y) l1 l2.
Proof. revert l2; induction l1; intros [|]; simpl; auto. rewrite IHl1; reflexivity. Qed.
Lemma zip_cmp_map_r {A A' B'} (g : A' -> B') (c : A -> B' -> comparison) l1 l2 :
  zip_cmp c l1 (map g l2) = zip_cmp (fun x y => c x (g y)) l1 l2.
Proof. revert l2; induction l1; intros [|]; simpl; auto. rewrite IHl1; reflexivity. Qed.

(** the ordering of the model is the lexicographic ordering of keys *)
Theorem vcmp_key : forall a b, vcmp a b = tcmp (key a) (key b).
Proof.
  induction a as [sa da|sa da|sa da|sa da|sa da IH] using value_ind'; intros b;
    destruct b as [sb db|sb db|sb db|sb db|sb db]; cbn [key];
    try (symmetry; erewrite arr_key_cmp; [ | first
      [ apply lexl_map2; intros; apply kf_cmp
      | apply lexl_map2; intros; apply kN_cmp
      | apply lexl_map2; intros; apply kc_cmp
      | apply (lexl_map2 kf (fun x => kf (f_of_byte x)) tcmp (fun x y => f_cmp x (f_of_byte y))); intros; apply kf_cmp
      | apply (lexl_map2 (fun x => kf (f_of_byte x)) kf tcmp (fun x y => f_cmp (f_of_byte x) y)); intros; apply kf_cmp
      | apply (lexl_map2 (fun x => kf (f_of_byte x)) (fun x => kf (f_of_byte x)) tcmp (fun x y => f_cmp (f_of_byte x) (f_of_byte y))); intros; apply kf_cmp
      | apply (lexl_map2_F key key tcmp vcmp); exact IH
      | reflexivity ] ]);
    try reflexivity.
  all: cbn [value_cmp type_id num_data shape_of acmp Nat.compare cmp_then ccmp];
    rewrite ?map_length, ?zc_zip; try reflexivity.
  - rewrite zip_cmp_map_r; reflexivity.
  - rewrite zip_cmp_map_l; reflexivity.
  - rewrite zip_cmp_map; reflexivity.
Qed.

Theorem vcmp_laws a : Laws vcmp a.
Proof.
  apply (Laws_ext (fun x y => tcmp (key x) (key y))).
  - intros; symmetry; apply vcmp_key.
  - apply Laws_contra, Laws_tcmp.
Qed.

(** * The property's ordering laws *)
Definition vle (a b : value) : Prop := vcmp a b <> Gt.

Theorem cmp_refl a : vcmp a a = Eq.
Proof. apply (L0 (vcmp_laws a)). Qed.
Theorem cmp_antisym a b : vcmp b a = CompOpp (vcmp a b).
Proof. apply (L1 (vcmp_laws a)). Qed.
Theorem cmp_total a b : vle a b \/ vle b a.
Proof. unfold vle. rewrite (cmp_antisym a b). destruct (vcmp a b); simpl; intuition congruence. Qed.
Theorem cmp_trans a b d : vle a b -> vle b d -> vle a d.
Proof.
  unfold vle. intros H1 H2.
  destruct (vcmp a b) eqn:E1; try congruence; destruct (vcmp b d) eqn:E2; try congruence.
  - rewrite (L2 (vcmp_laws a) b d E1), E2. congruence.
  - rewrite (L2 (vcmp_laws a) b d E1), E2. congruence.
  - rewrite <- (L3 (vcmp_laws a) b d E2), E1. congruence.
  - rewrite (L4 (vcmp_laws a) b d E1 E2). congruence.
Qed.
Theorem cmp_lt_trans a b d : vcmp a b = Lt -> vcmp b d = Lt -> vcmp a d = Lt.
Proof. apply (L4 (vcmp_laws a)). Qed.
Theorem cmp_eq_compat_l a b d : vcmp a b = Eq -> vcmp a d = vcmp b d.
Proof. apply (L2 (vcmp_laws a)). Qed.
Theorem cmp_eq_compat_r a b d : vcmp b d = Eq -> vcmp a b = vcmp a d.
Proof. apply (L3 (vcmp_laws a)). Qed.

(** * Equality coincides with "compares Equal" on shape-well-formed values *)
Lemma lex_cmp_eq a b : lex_cmp a b = Eq <-> a = b.
Proof.
  revert b; induction a as [|x a IH]; intros [|y b]; simpl; split; try congruence.
  - intros E. apply cmp_then_eq in E as [E1 E2]. apply Nat.compare_eq in E1. apply IH in E2. congruence.
  - intros E; inversion E; subst. rewrite Nat.compare_refl. simpl. apply IH; reflexivity.
Qed.

Lemma arr_eq_iff sa sb la lb z :
  la = shape_prod sa -> lb = shape_prod sb ->
  (shape_eqb sa sb && is_eq z = true <-> arr_cmp sa sb la lb z = Eq).
Proof.
  intros Ha Hb. unfold shape_eqb, arr_cmp. split.
  - intros H. apply andb_prop in H as [H1 H2].
    destruct (lex_cmp sa sb) eqn:E; try discriminate. apply lex_cmp_eq in E. subst sb.
    destruct z; try discriminate. subst. rewrite !Nat.compare_refl. simpl.
    reflexivity.
  - intros H. apply cmp_then_eq in H as [_ H]. apply cmp_then_eq in H as [H1 H].
    apply cmp_then_eq in H as [_ H]. rewrite H1, H. reflexivity.
Qed.

Lemma wf_leaf_len v : wf_shape v = true ->
  match v with VBox _ _ => True | _ => data_len v = shape_prod (shape_of v) end.
Proof. destruct v; simpl; intros H; auto; apply Nat.eqb_eq in H; auto. Qed.

Theorem cmp_eq_iff a b : wf_shape a = true -> wf_shape b = true ->
  (veq a b = true <-> vcmp a b = Eq).
Proof.
  intros Wa Wb.
  destruct a as [sa da|sa da|sa da|sa da|sa da], b as [sb db|sb db|sb db|sb db|sb db];
    try (simpl; split; [discriminate | intros H; discriminate]);
    cbn [value_eq value_cmp type_id num_data shape_of acmp Nat.compare cmp_then ccmp];
    rewrite ?zc_zip;
    try (apply arr_eq_iff; rewrite ?map_length;
         first [ apply Nat.eqb_eq; exact Wa | apply Nat.eqb_eq; exact Wb ]).
  - simpl in Wa, Wb. apply andb_prop in Wa as [Wa _]. apply andb_prop in Wb as [Wb _].
    apply arr_eq_iff; apply Nat.eqb_eq; assumption.
Qed.

(** [value_eq] is an equivalence on shape-well-formed values *)
Theorem eq_refl_v a : wf_shape a = true -> veq a a = true.
Proof. intros W. apply cmp_eq_iff; auto. apply cmp_refl. Qed.
Theorem eq_sym_v a b : wf_shape a = true -> wf_shape b = true -> veq a b = true -> veq b a = true.
Proof.
  intros Wa Wb H. apply cmp_eq_iff; auto. apply cmp_eq_iff in H; auto.
  rewrite cmp_antisym, H. reflexivity.
Qed.
Theorem eq_trans_v a b d : wf_shape a = true -> wf_shape b = true -> wf_shape d = true ->
  veq a b = true -> veq b d = true -> veq a d = true.
Proof.
  intros Wa Wb Wd H1 H2. apply cmp_eq_iff in H1, H2; auto. apply cmp_eq_iff; auto.
  rewrite (cmp_eq_compat_l a b d H1). exact H2.
Qed.


(** * Equal values feed the hasher identically *)
Open Scope N_scope.
Ltac Zify.zify_post_hook ::= Z.div_mod_to_equations.

Lemma f_bits_split x : x < 18446744073709551616 ->
  x = f_mag x + (if f_neg x then 9223372036854775808 else 0).
Proof.
  intros H. unfold f_mag, f_neg. change F_ABS_MASK with (N.ones 63).
  rewrite N.land_ones, N.testbit_eqb.
  change (2 ^ 63) with 9223372036854775808.
  pose proof (N.div_mod' x 9223372036854775808) as D.
  assert (B : x / 9223372036854775808 < 2) by (apply N.div_lt_upper_bound; lia).
  destruct (x / 9223372036854775808) as [|[p|p|]] eqn:E; try lia; simpl; lia.
Qed.

Lemma f_mag_bound x : f_mag x < 9223372036854775808.
Proof.
  unfold f_mag. change F_ABS_MASK with (N.ones 63). rewrite N.land_ones.
  change (2 ^ 63) with 9223372036854775808. apply N.mod_lt. lia.
Qed.

Lemma f_norm_nonnan x : f_is_nan x = false -> f_hash_norm x = if x =? F_NEG_ZERO then 0 else x.
Proof.
  intros H. unfold f_hash_norm. rewrite H.
  destruct (N.eqb_spec x F_EMPTY_NAN) as [->|_]; [vm_compute in H; discriminate|].
  destruct (N.eqb_spec x F_TOMB_NAN) as [->|_]; [vm_compute in H; discriminate|].
  destruct (N.eqb_spec x F_WILD_NAN) as [->|_]; [vm_compute in H; discriminate|].
  reflexivity.
Qed.

Lemma f_cmp_eq_norm x y : f_plain x = true -> f_plain y = true ->
  f_cmp x y = Eq -> f_hash_norm x = f_hash_norm y.
Proof.
  unfold f_plain. intros Px Py. apply andb_prop in Px as [Sx Bx], Py as [Sy By].
  apply N.ltb_lt in Bx, By. apply negb_true_iff in Sx, Sy.
  unfold f_cmp, f_pcmp.
  destruct (f_is_nan x) eqn:Nx, (f_is_nan y) eqn:Ny; simpl; try discriminate.
  - intros _. unfold f_hash_norm. rewrite Sx, Sy, Nx, Ny. reflexivity.
  - intros E. apply Z.compare_eq in E.
    rewrite !f_norm_nonnan by assumption.
    pose proof (f_bits_split x Bx) as Hx. pose proof (f_bits_split y By) as Hy.
    pose proof (f_mag_bound x). pose proof (f_mag_bound y).
    unfold f_key in E. unfold F_NEG_ZERO.
    destruct (f_neg x), (f_neg y);
      destruct (N.eqb_spec x 9223372036854775808), (N.eqb_spec y 9223372036854775808); lia.
Qed.

Definition bytes256 : list N := map N.of_nat (seq 0 256).
Lemma in_bytes256 y : y < 256 -> In y bytes256.
Proof.
  intros H. unfold bytes256. apply in_map_iff. exists (N.to_nat y). split; [lia|].
  apply in_seq. lia.
Qed.
Lemma f_of_byte_props y : y < 256 ->
  f_plain (f_of_byte y) = true /\ f_hash_norm (f_of_byte y) = f_of_byte y.
Proof.
  intros H.
  assert (F : forallb (fun y => f_plain (f_of_byte y) && (f_hash_norm (f_of_byte y) =? f_of_byte y)) bytes256 = true)
    by (vm_compute; reflexivity).
  rewrite forallb_forall in F. specialize (F y (in_bytes256 y H)).
  apply andb_prop in F as [F1 F2]. apply N.eqb_eq in F2. auto.
Qed.

Lemma zip_eq_map {A B C} (c : A -> B -> comparison) (h : A -> C) (h' : B -> C) l1 l2 :
  length l1 = length l2 -> zip_cmp c l1 l2 = Eq ->
  (forall x y, In x l1 -> In y l2 -> c x y = Eq -> h x = h' y) ->
  map h l1 = map h' l2.
Proof.
  revert l2; induction l1 as [|x l1 IH]; intros [|y l2] HL HZ HF; simpl in *; try discriminate; auto.
  apply cmp_then_eq in HZ as [E1 E2]. f_equal.
  - apply HF; auto.
  - apply IH; auto.
Qed.
Lemma zip_eq_flat_map {A B C} (c : A -> B -> comparison) (h : A -> list C) (h' : B -> list C) l1 l2 :
  length l1 = length l2 -> zip_cmp c l1 l2 = Eq ->
  (forall x y, In x l1 -> In y l2 -> c x y = Eq -> h x = h' y) ->
  flat_map h l1 = flat_map h' l2.
Proof.
  revert l2; induction l1 as [|x l1 IH]; intros [|y l2] HL HZ HF; simpl in *; try discriminate; auto.
  apply cmp_then_eq in HZ as [E1 E2]. f_equal.
  - apply HF; auto.
  - apply IH; auto.
Qed.

Lemma arr_cmp_eq_inv sa sb la lb z : arr_cmp sa sb la lb z = Eq -> sa = sb /\ z = Eq /\ la = lb.
Proof.
  unfold arr_cmp. intros H. apply cmp_then_eq in H as [_ H]. apply cmp_then_eq in H as [H1 H].
  apply cmp_then_eq in H as [H2 H]. apply lex_cmp_eq in H. apply Nat.compare_eq in H2. auto.
Qed.

Lemma forallb_In {A} (p : A -> bool) l x : forallb p l = true -> In x l -> p x = true.
Proof. intros H. rewrite forallb_forall in H. auto. Qed.

Lemma hash_eq_cmp : forall a b, wf_shape a = true -> wf_shape b = true ->
  plain a = true -> plain b = true -> vcmp a b = Eq -> vhash a = vhash b.
Proof.
  induction a as [sa da|sa da|sa da|sa da|sa da IH] using value_ind'; intros b Wa Wb Pa Pb;
    destruct b as [sb db|sb db|sb db|sb db|sb db]; try (simpl; discriminate);
    cbn [value_cmp type_id num_data shape_of acmp Nat.compare cmp_then ccmp]; rewrite ?zc_zip;
    intros E; apply arr_cmp_eq_inv in E as (-> & Z & Len); rewrite ?map_length in Len;
    cbn [value_hash plain] in *.
  - (* Num, Num *) f_equal. f_equal.
    apply (zip_eq_map f_cmp); auto. intros x y Ix Iy Exy. f_equal.
    apply f_cmp_eq_norm; auto; [exact (forallb_In _ _ _ Pa Ix) | exact (forallb_In _ _ _ Pb Iy)].
  - (* Num, Byte *) f_equal. f_equal. rewrite zip_cmp_map_r in Z.
    apply (zip_eq_map (fun x y => f_cmp x (f_of_byte y))); auto. intros x y Ix Iy Exy. f_equal.
    assert (Hy : y < 256) by (apply N.ltb_lt; exact (forallb_In (fun x => x <? 256) _ _ Pb Iy)).
    destruct (f_of_byte_props y Hy) as [P1 P2]. rewrite <- P2.
    apply f_cmp_eq_norm; auto. exact (forallb_In _ _ _ Pa Ix).
  - (* Byte, Num *) f_equal. f_equal. rewrite zip_cmp_map_l in Z.
    apply (zip_eq_map (fun x y => f_cmp (f_of_byte x) y)); auto. intros x y Ix Iy Exy. f_equal.
    assert (Hx : x < 256) by (apply N.ltb_lt; exact (forallb_In (fun x => x <? 256) _ _ Pa Ix)).
    destruct (f_of_byte_props x Hx) as [P1 P2]. rewrite <- P2.
    apply f_cmp_eq_norm; auto. exact (forallb_In _ _ _ Pb Iy).
  - (* Byte, Byte *) f_equal. f_equal. rewrite zip_cmp_map in Z.
    apply (zip_eq_map (fun x y => f_cmp (f_of_byte x) (f_of_byte y))); auto.
    intros x y Ix Iy Exy. f_equal.
    assert (Hx : x < 256) by (apply N.ltb_lt; exact (forallb_In (fun x => x <? 256) _ _ Pa Ix)).
    assert (Hy : y < 256) by (apply N.ltb_lt; exact (forallb_In (fun x => x <? 256) _ _ Pb Iy)).
    destruct (f_of_byte_props x Hx) as [P1 P2]. destruct (f_of_byte_props y Hy) as [Q1 Q2].
    rewrite <- P2, <- Q2. apply f_cmp_eq_norm; auto.
  - (* Char *) f_equal. f_equal.
    apply (zip_eq_map N.compare); auto. intros x y _ _ Exy. apply N.compare_eq in Exy. congruence.
  - (* Cplx *) f_equal. f_equal.
    apply (zip_eq_flat_map c_cmp); auto. intros [xr xi] [yr yi] Ix Iy Exy.
    unfold c_cmp in Exy. apply cmp_then_eq in Exy as [E1 E2]. simpl in *.
    pose proof (forallb_In _ _ _ Pa Ix) as Px. pose proof (forallb_In _ _ _ Pb Iy) as Py.
    simpl in Px, Py. apply andb_prop in Px as [Px1 Px2], Py as [Py1 Py2].
    rewrite (f_cmp_eq_norm xr yr), (f_cmp_eq_norm xi yi); auto.
  - (* Box *) simpl in Wa, Wb. apply andb_prop in Wa as [La Wa], Wb as [Lb Wb].
    apply Nat.eqb_eq in La, Lb.
    assert (HF : flat_map vhash da = flat_map vhash db).
    { apply (zip_eq_flat_map vcmp); auto. intros x y Ix Iy Exy.
      rewrite Forall_forall in IH. apply IH; auto.
      - exact (forallb_In _ _ _ Wa Ix). - exact (forallb_In _ _ _ Wb Iy).
      - exact (forallb_In _ _ _ Pa Ix). - exact (forallb_In _ _ _ Pb Iy). }
    destruct sb as [|n sb].
    + simpl in La, Lb. destruct da as [|x [|? ?]]; try discriminate.
      destruct db as [|y [|? ?]]; try discriminate.
      simpl in HF. rewrite !app_nil_r in HF. congruence.
    + rewrite HF. destruct da, db; reflexivity.
Qed.

Theorem eq_hash a b : wf_shape a = true -> wf_shape b = true ->
  plain a = true -> plain b = true -> veq a b = true -> vhash a = vhash b.
Proof. intros Wa Wb Pa Pb E. apply hash_eq_cmp; auto. apply cmp_eq_iff; auto. Qed.
