(** C07 — the iterating modifiers at the level of the interpreter spine (Model/Exec.v iter_exec:
    rows, each, inventory, table, tuples, reduce, scan, fold, group, partition, repeat with the
    array side behind the oracle ids ITER_N / ITER_ARG / ITER_OUT).
    - the modifier depends on its operand only through what the operand DOES on the states it is
      run on: an operand hidden behind a wrapper, or surrounded by noise, that runs alike gives
      the same result (the metamorphic law of the search, proved of the model);
    - over an empty mapped axis (ITER_N = 0) the operand is never run;
    - on success the operand has run exactly ITER_N times and ITER_OUT receives exactly [so]
      results per run, in order. *)
From Coq Require Import List ZArith NArith Bool Lia PeanoNat.
From UV Require Import Model.Node Model.Sig Model.Exec.
Import ListNotations.

Lemma iter_loop_ext (body body' : rt -> res) argsof fa fo :
  (forall st, body st = body' st) ->
  forall k i cur acc, iter_loop body argsof fa fo k i cur acc = iter_loop body' argsof fa fo k i cur acc.
Proof.
  intros H. induction k; intros i cur acc; cbn [iter_loop]; auto.
  destruct (argsof i acc); auto. destruct (negb (length l =? fa)); auto.
  rewrite H. destruct (body' _); auto. destruct (negb (need fo s)); auto.
Qed.

Lemma iter_loop_count (body : rt -> res) argsof fa fo :
  forall k i cur acc s2, fst (iter_loop body argsof fa fo k i cur acc) = Ok s2 ->
  length (snd (iter_loop body argsof fa fo k i cur acc)) = length acc + k * fo.
Proof.
  induction k; intros i cur acc s2 H; cbn [iter_loop fst snd] in *; [lia|].
  destruct (argsof i acc); cbn [fst snd] in *; try discriminate.
  destruct (negb (length l =? fa)); cbn [fst snd] in *; try discriminate.
  destruct (body _) eqn:B; cbn [fst snd] in *; try discriminate.
  destruct (negb (need fo s)) eqn:Nd; cbn [fst snd] in *; try discriminate.
  rewrite (IHk _ _ _ s2 H). rewrite app_length, firstn_length.
  apply negb_false_iff in Nd. unfold need in Nd. apply Nat.leb_le in Nd. lia.
Qed.

Section Iter.
  Variable pknown : N -> list sval -> bool.
  Variable psem : N -> option (list sval) -> list sval -> option (list sval).
  Variable arrsem : bool -> list sval -> option sval.
  Variable unpacksem : nat -> bool -> sval -> option (list sval).
  Variable fmtsem : list sval -> sval.
  Variable asm : list node.
  Notation exec := (Exec.exec pknown psem arrsem unpacksem fmtsem asm).
  Notation iter_exec := (Exec.iter_exec pknown psem).

  Theorem iter_exec_ext body body' tag na no fa fo s :
    (forall st, body st = body' st) -> iter_exec body tag na no fa fo s = iter_exec body' tag na no fa fo s.
  Proof.
    intros H. unfold Exec.iter_exec. destruct (negb (need na s)); auto.
    destruct (negb (pknown ITER_N _)); auto. destruct (psem ITER_N _ _) as [[|[z|] [|]]|]; auto.
    rewrite (iter_loop_ext body body' _ fa fo H). reflexivity.
  Qed.

  Definition is_mapping (mk : modk) : bool :=
    match mk with MReduce | MScan | MFold | MRows | MEach | MInventory | MTable | MTuples | MGroup | MPartition => true | _ => false end.

  (** operands that run alike are interchangeable under every iterating modifier *)
  Theorem iter_operand_ext mk sg f f' fuel s : is_mapping mk = true ->
    (forall st, exec fuel f st = exec fuel f' st) ->
    exec (S fuel) (Mod mk [(sg, f)]) s = exec (S fuel) (Mod mk [(sg, f')]) s.
  Proof.
    intros Hm H. destruct mk; try discriminate; cbn [Exec.exec]; destruct (iter_ao _ sg) as [[na no]|]; auto; apply iter_exec_ext; auto.
  Qed.

  (** an empty mapped axis: the operand is never run; the outcome is ITER_OUT of the arguments alone *)
  Theorem iter_exec_zero body tag na no fa fo s :
    need na s = true ->
    let vals := firstn na (stk s) in
    let hdr := [SInt tag; SInt (Z.of_nat fa); SInt (Z.of_nat fo)] in
    pknown ITER_N (hdr ++ vals) = true ->
    psem ITER_N (fillctx s) (hdr ++ vals) = Some [SInt 0] ->
    iter_exec body tag na no fa fo s =
      match psem ITER_OUT (fillctx s) (hdr ++ SInt (Z.of_nat na) :: vals ++ []) with
      | Some outs => if Nat.eqb (length outs) no
                     then Ok (set_stk s (outs ++ skipn na (stk s))) else Unk
      | None => Err false (set_stk s (skipn na (stk s))) end.
  Proof.
    intros Hn vals hdr Hk H0. unfold Exec.iter_exec. rewrite Hn. cbn [negb].
    fold vals. fold hdr. rewrite Hk. cbn [negb]. rewrite H0. cbn [Z.to_nat iter_loop].
    destruct (psem ITER_OUT _ _) as [l|]; [destruct (length l =? no)|]; reflexivity.
  Qed.

  (** on success the operand ran ITER_N times and exactly so-many results per run were collected *)
  Theorem iter_exec_runs body tag na no fa fo s s' n :
    let vals := firstn na (stk s) in
    let hdr := [SInt tag; SInt (Z.of_nat fa); SInt (Z.of_nat fo)] in
    psem ITER_N (fillctx s) (hdr ++ vals) = Some [SInt n] ->
    iter_exec body tag na no fa fo s = Ok s' ->
    exists s2 acc outs,
      iter_loop body (fun i acc => psem ITER_ARG (fillctx s) (hdr ++ SInt i :: SInt (Z.of_nat na) :: vals ++ acc))
                fa fo (Z.to_nat n) 0%Z (set_stk s (skipn na (stk s))) [] = (Ok s2, acc) /\
      length acc = Z.to_nat n * fo /\
      psem ITER_OUT (fillctx s) (hdr ++ SInt (Z.of_nat na) :: vals ++ acc) = Some outs /\
      length outs = no /\ s' = set_stk s2 (outs ++ stk s2).
  Proof.
    intros vals hdr HN H. unfold Exec.iter_exec in H. destruct (negb (need na s)); [discriminate|].
    fold vals in H. fold hdr in H. destruct (negb (pknown ITER_N _)); [discriminate|]. rewrite HN in H.
    destruct (iter_loop _ _ fa fo (Z.to_nat n) 0%Z _ []) as [r acc] eqn:EL.
    destruct r as [s2| | |]; try discriminate.
    destruct (psem ITER_OUT _ _) as [outs|] eqn:EO; [|discriminate].
    destruct (length outs =? no) eqn:El; [|discriminate]. inversion H; subst.
    exists s2, acc, outs. repeat split; auto.
    - match type of EL with iter_loop _ ?ao _ _ _ _ _ _ = _ =>
        pose proof (iter_loop_count body ao fa fo (Z.to_nat n) 0%Z (set_stk s (skipn na (stk s))) [] s2) as C end.
      rewrite EL in C. cbn [fst snd length] in C. apply C; auto.
    - apply Nat.eqb_eq; auto.
  Qed.
End Iter.
