(** C02 / C11 proofs, part 3: the frame theorem.
    If the checker (src/check.rs) accepts a tree, then every run of the interpreter model on any
    stack touches only what the checker's counters say, on success AND at every failure point,
    and leaves the fill stack, the fill boundaries and the call depth as they were. *)
From Coq Require Import List ZArith NArith Bool Lia PeanoNat.
From UV Require Import Model.Node Model.Sig Model.Exec Proofs.SimBase Proofs.SigMono Proofs.SigShift Proofs.SigWf.
Import ListNotations.

Definition hid (s : rt) := (fills s, fbs s, depth s).
Definition fits (e : venv) (init uinit : list sval) : Prop :=
  m (fst e) <= length init /\ m (snd e) <= length uinit.
Definition sim2 (e : venv) (init uinit : list sval) (s : rt) : Prop :=
  sim (fst e) init (stk s) /\ sim (snd e) uinit (und s).
Definition simE2 (e : venv) (init uinit : list sval) (s : rt) : Prop :=
  simE (fst e) init (stk s) /\ simE (snd e) uinit (und s).
Definition post (e' : venv) (init uinit : list sval) (s : rt) (r : res) : Prop :=
  match r with
  | Ok s' => sim2 e' init uinit s' /\ hid s' = hid s
  | Err _ s' => simE2 e' init uinit s' /\ hid s' = hid s
  | OOF | Unk => True end.

(** a stored signature is the inferred one, possibly widened by k pass-through values *)
Definition sig_fits (inferred stored : sig) : Prop :=
  exists k, sa stored = sa inferred + k /\ so stored = so inferred + k /\
            sua stored = sua inferred /\ suo stored = suo inferred.
Definition stored_ok (sg : sig) (f : node) : Prop :=
  exists e0, vnode 0 f (vs0, vs0) = Some e0 /\ sig_fits (env_sig e0) sg.
Definition stored_exact (sg : sig) (f : node) : Prop :=
  exists e0, vnode 0 f (vs0, vs0) = Some e0 /\ env_sig e0 = sg.

Lemma fits_le e e' init uinit : le_env e e' -> fits e' init uinit -> fits e init uinit.
Proof. intros [] []; split; lia. Qed.

Lemma simE2_weaken e e' init uinit s : simE2 e init uinit s -> le_env e e' -> simE2 e' init uinit s.
Proof. intros [A B] [L1 L2]; split; eapply simE_weaken; eauto. Qed.
Lemma sim2_simE2 e init uinit s : sim2 e init uinit s -> simE2 e init uinit s.
Proof. intros [A B]; split; apply sim_simE; auto. Qed.

Lemma post_weaken e e' init uinit s r :
  post e init uinit s r -> (forall s', r = Ok s' -> False) -> le_env e e' -> post e' init uinit s r.
Proof.
  destruct r as [s'|c s'| |]; simpl; auto.
  - intros _ H _. exfalso; eapply H; eauto.
  - intros [A B] _ L. split; auto. eapply simE2_weaken; eauto.
Qed.

Section Sound.
  Variable pknown : N -> list sval -> bool.
  Variable psem : N -> option (list sval) -> list sval -> option (list sval).
  Variable arrsem : bool -> list sval -> option sval.
  Variable unpacksem : nat -> bool -> sval -> option (list sval).
  Variable fmtsem : list sval -> sval.
  Variable asm : list node.
  Notation exec := (Exec.exec pknown psem arrsem unpacksem fmtsem asm).

  (** modifiers that the interpreter model runs but whose case of the frame theorem is not proved yet *)
  Definition unproved (mk : modk) : bool := false.
  (** modifiers whose operands must leave the under stack alone: the checker only looks at the
      stack part of their stored signatures, or they run the operand repeatedly *)
  Definition ignores_under (mk : modk) : bool :=
    match mk with
    | MWith | MOff | MAbove | MBelow | MFork | MBracket | MTry | MDipN _
    | MReduce | MScan | MFold | MRows | MEach | MInventory | MTable | MTuples | MGroup | MPartition
    | MSpawn | MPool | MRepeat | MRepeatWithInverse | MStencil | MReduceContent | MReduceDepth _
    | MHandleSig | MDo | MUndoRows | MUndoInventory => true
    | _ => false end.
  (** modifiers checked in context whose run-time form uses the stored signature *)
  Definition needs_exact (mk : modk) : bool :=
    match mk with MBy | MRows | MEach | MInventory | MRepeat | MRepeatWithInverse | MUndoRows | MUndoInventory => true | _ => false end.
  Definition is_iter (mk : modk) : bool :=
    match mk with
    | MReduce | MScan | MFold | MRows | MEach | MInventory | MTable | MTuples | MGroup | MPartition
    | MSpawn | MPool | MRepeat | MStencil | MReduceContent | MReduceDepth _ | MHandleSig
    | MUndoRows | MUndoInventory => true
    | _ => false end.

  (** the tree invariant the compiler is expected to establish (validated on real compiler
      output by the V tie): every stored operand signature is the checker's *)
  Fixpoint tree_ok (n : node) : Prop :=
    match n with
    | Run ns => (fix go (l : list node) : Prop := match l with [] => True | x :: t => tree_ok x /\ go t end) ns
    | Mod mk args =>
        unproved mk = false /\
        (ignores_under mk = true -> Forall (fun a : sig * node => sua (fst a) = 0 /\ suo (fst a) = 0) args) /\
        (needs_exact mk = true -> Forall (fun a : sig * node => stored_exact (fst a) (snd a)) args) /\
        (fix go (l : list (sig * node)) : Prop :=
           match l with [] => True | a :: t => tree_ok (snd a) /\ stored_ok (fst a) (snd a) /\ go t end) args
    | Call f sg => match nth_error asm f with Some body => stored_ok sg body | None => True end
    | Arr _ inner _ => tree_ok inner
    | NoInline inner => tree_ok inner
    | TrackCaller _ inner => tree_ok inner
    | CustomInv cs has sg nm => tree_ok nm /\ stored_ok sg nm /\ (has = true -> cs = Some sg)
    | Switch brs sg _ =>
        (* scalar selectors; every branch fits the switch signature and none touches the under stack *)
        sua sg = 0 /\ suo sg = 0 /\
        (fix go (l : list (sig * node)) : Prop :=
           match l with [] => True | a :: t =>
             (tree_ok (snd a) /\ stored_ok (fst a) (snd a) /\ sua (fst a) = 0 /\ suo (fst a) = 0 /\
              so (fst a) <= so sg /\ sa (fst a) + (so sg - so (fst a)) <= sa sg) /\ go t end) brs
    | _ => True end.
  Definition asm_ok : Prop := Forall tree_ok asm.

  (** the statement proved by induction on fuel *)
  Definition P (fuel : nat) : Prop :=
    forall n d e e' init uinit s,
      tree_ok n -> vnode d n e = Some e' -> fits e' init uinit -> sim2 e init uinit s ->
      post e' init uinit s (exec fuel n s).

  (** the frame property of an operand with respect to its stored signature *)
  Definition framed_at (fuel : nat) (sg : sig) (f : node) : Prop :=
    forall s, sa sg <= length (stk s) -> sua sg <= length (und s) ->
    match exec fuel f s with
    | Ok s' => exists outs uouts,
        stk s' = outs ++ skipn (sa sg) (stk s) /\ length outs = so sg /\
        und s' = uouts ++ skipn (sua sg) (und s) /\ length uouts = suo sg /\ hid s' = hid s
    | Err _ s' => exists j uj,
        stk s' = j ++ skipn (sa sg) (stk s) /\ und s' = uj ++ skipn (sua sg) (und s) /\ hid s' = hid s
    | OOF | Unk => True end.

  Lemma sim_zero {A} (l : list A) : sim vs0 l l.
  Proof. exists []. split; auto. Qed.

  Lemma vs_sig_sim {A} (v : vs) (init stk : list A) :
    sim v init stk -> m v <= length init ->
    exists outs, stk = outs ++ skipn (vs_args v) init /\ length outs = vs_outs v.
  Proof.
    intros (cur & -> & Hl) Hm. exists cur. split; auto.
    unfold vs_outs. lia.
  Qed.

  Lemma framed_of_P fuel sg f :
    P fuel -> asm_ok -> tree_ok f -> stored_ok sg f -> framed_at fuel sg f.
  Proof.
    intros HP _ Ht (e0 & Hv & (k & Ha & Ho & Hua & Huo)) s Hs Hu.
    assert (F : fits e0 (stk s) (und s)).
    { unfold env_sig in *; simpl in *. unfold vs_args in *. split; lia. }
    specialize (HP f 0 (vs0, vs0) e0 (stk s) (und s) s Ht Hv F (conj (sim_zero _) (sim_zero _))).
    destruct (exec fuel f s) as [s'|c s'| |]; simpl in HP; auto.
    - destruct HP as [[S1 S2] Hh].
      destruct F as [F1 F2].
      destruct (vs_sig_sim _ _ _ S1 F1) as (outs & E1 & L1).
      destruct (vs_sig_sim _ _ _ S2 F2) as (uouts & E2 & L2).
      unfold env_sig in *; simpl in *.
      exists (outs ++ firstn k (skipn (vs_args (fst e0)) (stk s))), uouts.
      repeat split; auto.
      + rewrite E1, <- app_assoc. f_equal.
        rewrite <- (firstn_skipn k (skipn (vs_args (fst e0)) (stk s))) at 1. f_equal.
        rewrite skipn_skipn. f_equal. lia.
      + rewrite app_length, firstn_length, skipn_length. lia.
      + rewrite E2. f_equal. f_equal. lia.
      + lia.
    - destruct HP as [[(j & E1) (uj & E2)] Hh].
      unfold env_sig in *; simpl in *. unfold vs_args in *.
      exists (j ++ firstn k (skipn (m (fst e0)) (stk s))), uj. repeat split; auto.
      + rewrite E1, <- app_assoc. f_equal.
        rewrite <- (firstn_skipn k (skipn (m (fst e0)) (stk s))) at 1. f_equal.
        rewrite skipn_skipn. f_equal. lia.
      + rewrite E2. f_equal. f_equal. lia.
  Qed.

  (** ---- helper lemmas on [post] ---- *)
  Lemma post_ok e' init uinit s s' :
    sim2 e' init uinit s' -> hid s' = hid s -> post e' init uinit s (Ok s').
  Proof. intros; split; auto. Qed.
  Lemma post_err e' init uinit s c s' :
    simE2 e' init uinit s' -> hid s' = hid s -> post e' init uinit s (Err c s').
  Proof. intros; split; auto. Qed.

  Lemma hid_set_stk s l : hid (set_stk s l) = hid s. Proof. reflexivity. Qed.
  Lemma hid_set_und s l : hid (set_und s l) = hid s. Proof. reflexivity. Qed.
  Lemma hid_set_su s l u : hid (set_su s l u) = hid s. Proof. reflexivity. Qed.

  (** sequencing: [bind] *)
  Lemma post_bind e1 e' init uinit s r k :
    post e1 init uinit s r -> le_env e1 e' ->
    (forall s1, r = Ok s1 -> sim2 e1 init uinit s1 -> hid s1 = hid s -> post e' init uinit s (k s1)) ->
    post e' init uinit s (bind r k).
  Proof.
    intros Hp Hle Hk. destruct r as [s1|c s1| |]; simpl in *; auto.
    - destruct Hp as [S H1]. apply Hk; auto.
    - destruct Hp as [S H1]. split; auto. eapply simE2_weaken; eauto.
  Qed.

  Lemma post_hid_trans e' init uinit s s1 r :
    hid s1 = hid s -> post e' init uinit s1 r -> post e' init uinit s r.
  Proof. intros H. destruct r; simpl; auto; intros [A B]; split; auto; congruence. Qed.

  Lemma run_post fuel ns : P fuel ->
    forall d e e' init uinit s,
    (fix go (l : list node) : Prop := match l with [] => True | x :: t => tree_ok x /\ go t end) ns ->
    (fix go (l : list node) (e : venv) {struct l} : option venv :=
       match l with [] => Some e | x :: t => opt_bind (vnode d x e) (go t) end) ns e = Some e' ->
    fits e' init uinit -> sim2 e init uinit s ->
    post e' init uinit s (run_list (exec fuel) ns s).
  Proof.
    intros HP. induction ns as [|x t IH]; intros d e e' init uinit s Ht Hv F S.
    - inversion Hv; subst. apply post_ok; auto.
    - destruct Ht as [Hx Ht]. simpl in Hv.
      destruct (vnode d x e) as [e1|] eqn:E1; simpl in Hv; [|discriminate].
      assert (L1 : le_env e1 e').
      { clear - Hv. revert e1 Hv. induction t; intros e1 Hv; simpl in Hv.
        - inversion Hv; subst; apply le_env_refl.
        - destruct (vnode d a e1) eqn:E; simpl in Hv; [|discriminate].
          eapply le_env_trans; [eapply vnode_mono; eauto | eauto]. }
      unfold run_list. simpl.
      pose proof (HP x d e e1 init uinit s Hx E1 (fits_le _ _ _ _ L1 F) S) as Hp.
      destruct (exec fuel x s) as [s1|c s1| |] eqn:Ex; simpl.
      + destruct Hp as [S1 H1]. eapply post_hid_trans; [exact H1|].
        apply (IH d e1 e' init uinit s1 Ht Hv F S1).
      + assert (R : forall l, fold_left (fun r n => bind r (exec fuel n)) l (Err c s1) = Err c s1)
          by (induction l; simpl; auto).
        rewrite R. destruct Hp as [SE H1]. split; auto. eapply simE2_weaken; eauto.
      + assert (R : forall l, fold_left (fun r n => bind r (exec fuel n)) l OOF = OOF)
          by (induction l; simpl; auto).
        rewrite R. exact I.
      + assert (R : forall l, fold_left (fun r n => bind r (exec fuel n)) l Unk = Unk)
          by (induction l; simpl; auto).
        rewrite R. exact I.
  Qed.

  Lemma framed_post fuel sg f e init uinit s s0 :
    framed_at fuel sg f -> sim2 e init uinit s0 -> fits (handle_sig sg e) init uinit ->
    hid s0 = hid s -> post (handle_sig sg e) init uinit s (exec fuel f s0).
  Proof.
    intros Fr [S1 S2] [F1 F2] Hh. destruct e as [sk un]. cbn [handle_sig fst snd] in *.
    assert (A1 : sa sg <= length (stk s0)) by (eapply sim_enough; eauto).
    assert (A2 : sua sg <= length (und s0)) by (eapply sim_enough; eauto).
    specialize (Fr s0 A1 A2).
    destruct (exec fuel f s0) as [s'|c s'| |]; simpl; auto.
    - destruct Fr as (outs & uouts & E1 & L1 & E2 & L2 & H').
      split; [split|congruence]; cbn [fst snd].
      + eapply frame_sim; eauto.
      + eapply frame_sim; eauto.
    - destruct Fr as (j & uj & E1 & E2 & H').
      split; [split|congruence]; cbn [fst snd].
      + eapply frame_simE; eauto.
      + eapply frame_simE; eauto.
  Qed.

  Lemma handle_sig_noU sg sk un (uinit u : list sval) :
    sua sg = 0 -> suo sg = 0 -> sim un uinit u ->
    handle_sig sg (sk, un) = (vao (sa sg) (so sg) sk, un).
  Proof. intros A B S. unfold handle_sig. cbn [fst snd]. rewrite A, B, (vao00 _ _ _ S). reflexivity. Qed.

  Lemma sim2_deepen e e' init uinit s :
    sim2 e init uinit s -> h (fst e') = h (fst e) -> h (snd e') = h (snd e) -> le_env e e' ->
    fits e' init uinit -> sim2 e' init uinit s.
  Proof. intros [A B] H1 H2 [L1 L2] [F1 F2]. split; eapply sim_deepen; eauto. Qed.
  Lemma post_deepen e e' init uinit s r :
    post e init uinit s r -> h (fst e') = h (fst e) -> h (snd e') = h (snd e) -> le_env e e' ->
    fits e' init uinit -> post e' init uinit s r.
  Proof.
    destruct r as [s'|c s'| |]; simpl; auto; intros [A B] H1 H2 L F; split; auto.
    - eapply sim2_deepen; eauto.
    - eapply simE2_weaken; eauto.
  Qed.

  (** one operand run through its stored signature (stack part only) *)
  Lemma frame_step fuel sg f sk un init uinit s s0 :
    P fuel -> asm_ok -> tree_ok f -> stored_ok sg f -> sua sg = 0 -> suo sg = 0 ->
    sim sk init (stk s0) -> sim un uinit (und s0) -> hid s0 = hid s ->
    m (vao (sa sg) (so sg) sk) <= length init -> m un <= length uinit ->
    post (vao (sa sg) (so sg) sk, un) init uinit s (exec fuel f s0).
  Proof.
    intros HP HA Tf Of U1 U2 S1 S2 Hh F1 F2.
    rewrite <- (handle_sig_noU sg sk un _ _ U1 U2 S2).
    eapply framed_post; eauto.
    - eapply framed_of_P; eauto.
    - split; auto.
    - rewrite (handle_sig_noU sg sk un _ _ U1 U2 S2). split; auto.
  Qed.

  (** ---- iterating modifiers ---- *)
  Lemma simE_junk {A} v (init stk j : list A) : sim v init stk -> simE v init (j ++ stk).
  Proof. intros (cur & -> & _). exists (j ++ cur). rewrite app_assoc. reflexivity. Qed.

  Definition body_frames (body : rt -> res) (fa fo : nat) (B U : list sval) (H : list (list sval) * list nat * nat) : Prop :=
    forall s0 l, stk s0 = l ++ B -> length l = fa -> und s0 = U -> hid s0 = H ->
    match body s0 with
    | Ok s' => exists outs, stk s' = outs ++ B /\ length outs = fo /\ und s' = U /\ hid s' = H
    | Err _ s' => exists j uj, stk s' = j ++ B /\ und s' = uj ++ U /\ hid s' = H
    | OOF | Unk => True end.

  Lemma iter_loop_frame body argsof fa fo B U H :
    body_frames body fa fo B U H ->
    forall k i cur acc, stk cur = B -> und cur = U -> hid cur = H ->
    match fst (iter_loop body argsof fa fo k i cur acc) with
    | Ok s' => stk s' = B /\ und s' = U /\ hid s' = H
    | Err _ s' => exists j uj, stk s' = j ++ B /\ und s' = uj ++ U /\ hid s' = H
    | OOF | Unk => True end.
  Proof.
    intros Hb. induction k as [|k IHk]; intros i cur acc E1 E2 E3; cbn [iter_loop fst].
    - auto.
    - destruct (argsof i acc) as [l|]; cbn [fst].
      + destruct (Nat.eqb_spec (length l) fa) as [El|]; cbn [negb fst]; [|exact I].
        specialize (Hb (set_stk cur (l ++ stk cur)) l).
        cbn [set_stk stk und] in Hb. rewrite E1 in Hb. specialize (Hb eq_refl El E2 E3).
        rewrite E1.
        destruct (body (set_stk cur (l ++ B))) as [s2|c s2| |]; cbn [fst]; auto.
        destruct Hb as (outs & O1 & O2 & O3 & O4).
        unfold need. destruct (fo <=? length (stk s2)) eqn:En; cbn [negb fst].
        * apply IHk; cbn [set_stk stk und]; auto.
          rewrite O1, skipn_app, <- O2, skipn_all, Nat.sub_diag. reflexivity.
        * exists outs, []. auto.
      + exists [], []. auto.
  Qed.

  Lemma iter_exec_post body tag na no fa fo sk un init uinit s :
    body_frames body fa fo (skipn na (stk s)) (und s) (hid s) ->
    sim sk init (stk s) -> sim un uinit (und s) ->
    m (vao na no sk) <= length init -> m un <= length uinit ->
    post (vao na no sk, un) init uinit s (iter_exec pknown psem body tag na no fa fo s).
  Proof.
    intros Hb S1 S2 F1 F2. unfold iter_exec, need.
    destruct (na <=? length (stk s)) eqn:En; cbn [negb].
    2:{ apply post_err; auto. split; cbn [fst snd].
        - eapply simE_keep; eauto. vsimp. lia.
        - apply sim_simE; auto. }
    destruct (pknown ITER_N ([SInt tag; SInt (Z.of_nat fa); SInt (Z.of_nat fo)] ++ firstn na (stk s))); cbn [negb]; [|exact I].
    destruct (psem ITER_N (fillctx s) ([SInt tag; SInt (Z.of_nat fa); SInt (Z.of_nat fo)] ++ firstn na (stk s))) as [[|[n|] [|]]|]; try exact I.
    - set (lp := iter_loop body _ fa fo (Z.to_nat n) 0%Z (set_stk s (skipn na (stk s))) []).
      pose proof (iter_loop_frame body
        (fun i acc => psem ITER_ARG (fillctx s) ([SInt tag; SInt (Z.of_nat fa); SInt (Z.of_nat fo)] ++ SInt i :: SInt (Z.of_nat na) :: firstn na (stk s) ++ acc))
        fa fo _ _ _ Hb (Z.to_nat n) 0%Z (set_stk s (skipn na (stk s))) [] eq_refl eq_refl eq_refl) as Hl.
      fold lp in Hl. destruct lp as [r acc]. cbn [fst] in Hl.
      destruct r as [s2|c s2| |]; auto.
      + destruct Hl as (L1 & L2 & L3).
        destruct (psem ITER_OUT (fillctx s) _) as [outs|].
        * destruct (Nat.eqb_spec (length outs) no); [|exact I].
          apply post_ok; auto. split; cbn [fst snd set_stk stk und].
          -- rewrite L1. apply sim_ao; auto.
          -- rewrite L2. auto.
        * apply post_err; auto. split; cbn [fst snd].
          -- rewrite L1. apply simE_ao_pop; auto.
          -- rewrite L2. apply sim_simE; auto.
      + destruct Hl as (j & uj & L1 & L2 & L3).
        apply post_err; auto. split; cbn [fst snd].
        -- eapply frame_simE; eauto.
        -- rewrite L2. apply simE_junk; auto.
    - apply post_err; auto. split; cbn [fst snd set_stk stk und].
      + apply simE_ao_pop; auto.
      + apply sim_simE; auto.
  Qed.

  Lemma body_frames_of_framed fuel sg f (B U : list sval) H :
    framed_at fuel sg f -> sua sg = 0 -> suo sg = 0 ->
    body_frames (exec fuel f) (sa sg) (so sg) B U H.
  Proof.
    intros Fr U1 U2 s0 l E1 El E2 E3.
    specialize (Fr s0). rewrite E1, app_length, U1 in Fr. specialize (Fr ltac:(lia) ltac:(lia)).
    destruct (exec fuel f s0) as [s'|c s'| |]; auto.
    - destruct Fr as (outs & uouts & A1 & A2 & A3 & A4 & A5).
      exists outs. rewrite skipn_app, <- El, skipn_all, Nat.sub_diag in A1. simpl in A1.
      rewrite U2 in A4. destruct uouts; [|discriminate]. simpl in A3.
      repeat split; auto; congruence.
    - destruct Fr as (j & uj & A1 & A2 & A3).
      exists j, uj. rewrite skipn_app, <- El, skipn_all, Nat.sub_diag in A1. simpl in A1, A2.
      repeat split; auto; congruence.
  Qed.


  Lemma vao_vpop1 a o v : vao a o (vpop 1 v) = vao (1 + a) o v.
  Proof.
    Transparent vao vpop vpush. destruct v as [hv mv]. unfold vao, vpop, vpush; simpl. Opaque vao vpop vpush.
    f_equal; lia.
  Qed.
  Lemma vpop_vao_lt a o v : a < o -> vpop a (vao a o (vpop 1 v)) = vao (1 + a) (o - a) v.
  Proof.
    intros Hlt.
    Transparent vao vpop vpush. destruct v as [hv mv]. unfold vao, vpop, vpush; simpl. Opaque vao vpop vpush.
    f_equal; lia.
  Qed.

  Lemma body_frames_without_fill fuel sg f (B U : list sval) H :
    framed_at fuel sg f -> sua sg = 0 -> suo sg = 0 ->
    body_frames (without_fill_body (exec fuel f)) (sa sg) (so sg) B U H.
  Proof.
    intros Fr U1 U2 s0 l E1 El E2 E3. unfold without_fill_body.
    set (s1 := {| stk := stk s0; und := und s0; fills := fills s0; fbs := length (fills s0) :: fbs s0; depth := depth s0 |}).
    pose proof (body_frames_of_framed fuel sg f B U (hid s1) Fr U1 U2 s1 l E1 El E2 eq_refl) as Hb.
    destruct (exec fuel f s1) as [s'|c s'| |]; auto.
    - destruct Hb as (outs & A1 & A2 & A3 & A4). exists outs. cbn [stk und]. repeat split; auto.
      unfold hid in *. cbn [fills fbs depth s1] in *. inversion A4 as [[H1 H2 H3]]. rewrite H2, H3. cbn [tl]. rewrite H1. exact E3.
    - destruct Hb as (j & uj & A1 & A2 & A3). exists j, uj. cbn [stk und]. repeat split; auto.
      unfold hid in *. cbn [fills fbs depth s1] in *. inversion A3 as [[H1 H2 H3]]. rewrite H2, H3. cbn [tl]. rewrite H1. exact E3.
  Qed.

  (** every iterating modifier of the model, from the frame property of its operand *)
  Lemma iter_mod_post fuel : P fuel -> asm_ok ->
    forall mk sg f d e e' init uinit s, is_iter mk = true ->
    tree_ok (Mod mk [(sg, f)]) -> vnode d (Mod mk [(sg, f)]) e = Some e' ->
    fits e' init uinit -> sim2 e init uinit s ->
    post e' init uinit s (exec (S fuel) (Mod mk [(sg, f)]) s).
  Proof.
    intros HP HA mk sg f d [sk un] e' init uinit s Hi Ht Hv [F1 F2] [S1 S2].
    cbn [tree_ok fst snd] in Ht. destruct Ht as (_ & HnoU & Hex & Tf & Of & _).
    assert (Hig : ignores_under mk = true) by (destruct mk; try discriminate Hi; reflexivity).
    specialize (HnoU Hig). inversion HnoU as [|? ? [U1 U2] _]; subst; cbn [fst] in *.
    pose proof (framed_of_P _ _ _ HP HA Tf Of) as Fr.
    pose proof (body_frames_of_framed fuel sg f (skipn (sa sg) (stk s)) (und s) (hid s) Fr U1 U2) as Hb0.
    assert (Hctx : needs_exact mk = true -> vnode (S d) f (sk, un) = Some e' -> e' = (vao (sa sg) (so sg) sk, un)).
    { intros Hn Hs. specialize (Hex Hn). inversion Hex as [|? ? (e0 & V0 & Es) _]; subst; cbn [fst snd] in *.
      rewrite (vnode_ctx f (S d) (sk, un) e' e0) by
        (auto; split; cbn [fst snd]; eapply sim_nonneg; eauto).
      rewrite Es. eapply handle_sig_noU; eauto. }
    cbn [vnode] in Hv. destruct (MAX_NODE_DEPTH <? d); [discriminate|].
    destruct mk; try discriminate Hi; cbn [map fst snd opt_bind] in Hv; cbn [Exec.exec iter_ao mk_tag].
    - (* Repeat *)
      destruct (vnode (S d) f (epop 1 (sk, un))) as [e1|] eqn:E1; cbn [opt_bind] in Hv; [|discriminate].
      specialize (Hex eq_refl). inversion Hex as [|? ? (e0 & V0 & Es) _]; subst; cbn [fst snd] in *.
      assert (S1p : wfe (epop 1 (sk, un))).
      { split; cbn [epop fst snd]; [apply wfv_vpop|]; eapply sim_nonneg; eauto. }
      rewrite (vnode_ctx f (S d) (epop 1 (sk, un)) e1 e0 S1p E1 V0) in Hv.
      rewrite Es in Hv. unfold epop in Hv. cbn [fst snd] in Hv.
      rewrite (handle_sig_noU sg (vpop 1 sk) un _ _ U1 U2 S2) in Hv. cbn [fst snd] in Hv.
      destruct (sa sg <? so sg) eqn:Elt; inversion Hv; subst; clear Hv; cbn [fst snd] in *.
      + apply Nat.ltb_lt in Elt. rewrite vpop_vao_lt in * by auto.
        apply iter_exec_post; auto. eapply body_frames_without_fill; eauto.
      + rewrite vao_vpop1 in *.
        apply iter_exec_post; auto. eapply body_frames_without_fill; eauto.
    - (* Reduce *) inversion Hv; subst; clear Hv. cbn [handle_ao fst snd] in *.
      apply iter_exec_post; auto; try (eapply body_frames_of_framed; eauto).
    - (* Scan *) inversion Hv; subst; clear Hv. cbn [handle_ao fst snd] in *.
      apply iter_exec_post; auto; try (eapply body_frames_of_framed; eauto).
    - (* Fold *)
      destruct (Nat.eqb (sa sg) 0 && Nat.eqb (so sg) 0); [exact I|].
      destruct (Nat.eqb_spec (sa sg) 0) as [Ez|Enz].
      { inversion Hv; subst; clear Hv. cbn [handle_ao fst snd] in *.
        apply iter_exec_post; auto; try (eapply body_frames_of_framed; eauto). }
      destruct (sa sg <=? so sg); inversion Hv; subst; clear Hv.
      + cbn [handle_ao fst snd] in *. apply iter_exec_post; auto; try (eapply body_frames_of_framed; eauto).
      + rewrite (handle_sig_noU sg sk un _ _ U1 U2 S2) in *. cbn [fst snd] in *.
        apply iter_exec_post; auto; try (eapply body_frames_of_framed; eauto).
    - (* Rows *) rewrite (Hctx eq_refl Hv) in *. cbn [fst snd] in *.
      apply iter_exec_post; auto.
    - (* Each *) rewrite (Hctx eq_refl Hv) in *. cbn [fst snd] in *.
      apply iter_exec_post; auto.
    - (* Inventory *) rewrite (Hctx eq_refl Hv) in *. cbn [fst snd] in *.
      apply iter_exec_post; auto.
    - (* Table *) inversion Hv; subst; clear Hv.
      rewrite (handle_sig_noU sg sk un _ _ U1 U2 S2) in *. cbn [fst snd] in *.
      apply iter_exec_post; auto.
    - (* Tuples *) inversion Hv; subst; clear Hv.
      rewrite (handle_sig_noU sg sk un _ _ U1 U2 S2) in *. cbn [fst snd] in *.
      apply iter_exec_post; auto.
    - (* Stencil *) inversion Hv; subst; clear Hv.
      destruct (sa sg <=? 1); unfold handle_ao, epop in *; cbn [fst snd] in *; rewrite ?vao_vpop1 in *;
        apply iter_exec_post; auto; try (eapply body_frames_of_framed; eauto).
    - (* Group *) inversion Hv; subst; clear Hv. cbn [handle_ao fst snd] in *.
      apply iter_exec_post; auto; try (eapply body_frames_of_framed; eauto).
    - (* Partition *) inversion Hv; subst; clear Hv. cbn [handle_ao fst snd] in *.
      apply iter_exec_post; auto; try (eapply body_frames_of_framed; eauto).
    - (* Spawn *) inversion Hv; subst; clear Hv. cbn [handle_ao fst snd] in *.
      apply iter_exec_post; auto. intros ? ? ? ? ? ?. exact I.
    - (* Pool *) inversion Hv; subst; clear Hv. cbn [handle_ao fst snd] in *.
      apply iter_exec_post; auto. intros ? ? ? ? ? ?. exact I.
    - (* ReduceDepth *) inversion Hv; subst; clear Hv. cbn [handle_ao fst snd] in *.
      apply iter_exec_post; auto; try (eapply body_frames_of_framed; eauto).
    - (* ReduceContent *) inversion Hv; subst; clear Hv. cbn [handle_ao fst snd] in *.
      apply iter_exec_post; auto; try (eapply body_frames_of_framed; eauto).
    - (* UndoRows *)
      specialize (Hex eq_refl). inversion Hex as [|? ? (e0 & V0 & Es) _]; subst; cbn [fst snd] in *.
      assert (S1p : wfe (epop 1 (sk, un))).
      { split; cbn [epop fst snd]; [apply wfv_vpop|]; eapply sim_nonneg; eauto. }
      rewrite (vnode_ctx f (S d) (epop 1 (sk, un)) e' e0 S1p Hv V0) in *.
      rewrite Es in *. unfold epop in *. cbn [fst snd] in *.
      rewrite (handle_sig_noU sg (vpop 1 sk) un _ _ U1 U2 S2) in *. cbn [fst snd] in *.
      rewrite vao_vpop1 in *. apply iter_exec_post; auto; try (eapply body_frames_of_framed; eauto).
    - (* UndoInventory *)
      specialize (Hex eq_refl). inversion Hex as [|? ? (e0 & V0 & Es) _]; subst; cbn [fst snd] in *.
      assert (S1p : wfe (epop 1 (sk, un))).
      { split; cbn [epop fst snd]; [apply wfv_vpop|]; eapply sim_nonneg; eauto. }
      rewrite (vnode_ctx f (S d) (epop 1 (sk, un)) e' e0 S1p Hv V0) in *.
      rewrite Es in *. unfold epop in *. cbn [fst snd] in *.
      rewrite (handle_sig_noU sg (vpop 1 sk) un _ _ U1 U2 S2) in *. cbn [fst snd] in *.
      rewrite vao_vpop1 in *. apply iter_exec_post; auto; try (eapply body_frames_of_framed; eauto).
    - (* HandleSig: subscripted table, sided tuples, reduce-conjoin-inventory *)
      inversion Hv; subst; clear Hv.
      rewrite (handle_sig_noU sg sk un _ _ U1 U2 S2) in *. cbn [fst snd] in *.
      apply iter_exec_post; auto.
  Qed.

  Lemma iter_exec_nn_post body tag na no fa fo sk un init uinit s :
    body_frames body fa fo (skipn na (stk s)) (und s) (hid s) ->
    sim sk init (stk s) -> sim un uinit (und s) ->
    m (vao na no sk) <= length init -> m un <= length uinit ->
    post (vao na no sk, un) init uinit s (iter_exec_nn pknown psem body tag na no fa fo s).
  Proof.
    intros Hb S1 S2 F1 F2. unfold iter_exec_nn.
    pose proof (iter_exec_post body tag na no fa fo sk un init uinit s Hb S1 S2 F1 F2) as Hp.
    destruct (need na s); auto.
    destruct (psem ITER_N _ _) as [[|[n|] [|]]|]; auto.
    destruct (n <? 0)%Z; auto. exact I.
  Qed.

  (** repeat with an inverse operand (non-negative counts) *)
  Lemma repeat_inv_post fuel : P fuel -> asm_ok ->
    forall sg f si g d e e' init uinit s,
    tree_ok (Mod MRepeatWithInverse [(sg, f); (si, g)]) ->
    vnode d (Mod MRepeatWithInverse [(sg, f); (si, g)]) e = Some e' ->
    fits e' init uinit -> sim2 e init uinit s ->
    post e' init uinit s (exec (S fuel) (Mod MRepeatWithInverse [(sg, f); (si, g)]) s).
  Proof.
    intros HP HA sg f si g d [sk un] e' init uinit s Ht Hv [F1 F2] [S1 S2].
    cbn [tree_ok fst snd] in Ht. destruct Ht as (_ & HnoU & Hex & Tf & Of & _).
    specialize (HnoU eq_refl). inversion HnoU as [|? ? [U1 U2] _]; subst; cbn [fst] in *.
    specialize (Hex eq_refl). inversion Hex as [|? ? (e0 & V0 & Es) _]; subst; cbn [fst snd] in *.
    pose proof (framed_of_P _ _ _ HP HA Tf Of) as Fr.
    cbn [vnode] in Hv. destruct (MAX_NODE_DEPTH <? d); [discriminate|].
    cbn [Exec.exec iter_ao mk_tag].
    destruct (sig_eqb (sig_inverse sg) si); cbn [negb]; [|exact I].
    destruct (vnode (S d) f (epop 1 (sk, un))) as [e1|] eqn:E1; cbn [opt_bind] in Hv; [|discriminate].
    assert (S1p : wfe (epop 1 (sk, un))).
    { split; cbn [epop fst snd]; [apply wfv_vpop|]; eapply sim_nonneg; eauto. }
    rewrite (vnode_ctx f (S d) (epop 1 (sk, un)) e1 e0 S1p E1 V0) in Hv.
    rewrite Es in Hv. unfold epop in Hv. cbn [fst snd] in Hv.
    rewrite (handle_sig_noU sg (vpop 1 sk) un _ _ U1 U2 S2) in Hv. cbn [fst snd] in Hv.
    destruct (sa sg <? so sg) eqn:Elt; inversion Hv; subst; clear Hv; cbn [fst snd] in *.
    + apply Nat.ltb_lt in Elt. rewrite vpop_vao_lt in * by auto.
      apply iter_exec_nn_post; auto. eapply body_frames_without_fill; eauto.
    + rewrite vao_vpop1 in *.
      apply iter_exec_nn_post; auto. eapply body_frames_without_fill; eauto.
  Qed.

  (** ---- by ---- *)
  Lemma by_split (l : list sval) a x :
    nth_error l (Nat.max a 1 - 1) = Some x -> Nat.max a 1 <= length l ->
    skipn a (firstn (Nat.max a 1) l ++ x :: skipn (Nat.max a 1) l) = x :: skipn a l.
  Proof.
    destruct a as [|a]; intros Hn Hl.
    - cbn [Nat.max Nat.sub] in *. destruct l as [|y t]; [simpl in Hl; lia|].
      simpl in Hn. inversion Hn; subst. reflexivity.
    - replace (Nat.max (S a) 1) with (S a) in * by lia.
      rewrite skipn_app, firstn_length, Nat.min_l by lia.
      rewrite skipn_all2 by (rewrite firstn_length; lia).
      rewrite Nat.sub_diag. reflexivity.
  Qed.

  Lemma by_post fuel : P fuel -> asm_ok ->
    forall sg f d e e' init uinit s,
    tree_ok (Mod MBy [(sg, f)]) -> vnode d (Mod MBy [(sg, f)]) e = Some e' ->
    fits e' init uinit -> sim2 e init uinit s ->
    post e' init uinit s (exec (S fuel) (Mod MBy [(sg, f)]) s).
  Proof.
    intros HP HA sg f d [sk un] e' init uinit s Ht Hv [F1 F2] [S1 S2].
    cbn [tree_ok fst snd] in Ht. destruct Ht as (_ & _ & Hex & Tf & Of & _).
    specialize (Hex eq_refl). inversion Hex as [|? ? (e0 & V0 & Es) _]; subst; cbn [fst snd] in *.
    pose proof (framed_of_P _ _ _ HP HA Tf Of) as Fr.
    cbn [vnode] in Hv. destruct (MAX_NODE_DEPTH <? d); [discriminate|].
    cbn [map fst snd opt_bind] in Hv.
    destruct (vnode (S d) f (sk, un)) as [e1|] eqn:E1; cbn [opt_bind] in Hv; [|discriminate].
    inversion Hv; subst; clear Hv.
    rewrite (vnode_ctx f (S d) (sk, un) e1 e0) in * by
      (auto; split; cbn [fst snd]; eapply sim_nonneg; eauto).
    set (sg := env_sig e0) in *. clearbody sg. clear E1 V0.
    cbn [handle_sig epush fst snd] in *. rewrite vpush_vao in *.
    cbn [Exec.exec]. unfold need.
    assert (Eerr : post (vao (sa sg) (so sg + 1) sk, vao (sua sg) (suo sg) un) init uinit s (Err false s)).
    { apply post_err; auto. split; cbn [fst snd]; eapply simE_keep; eauto; vsimp; lia. }
    destruct (Nat.max (sa sg) 1 <=? length (stk s)) eqn:En; cbn [negb]; [|exact Eerr].
    apply Nat.leb_le in En.
    destruct (nth_error (stk s) (Nat.max (sa sg) 1 - 1)) as [x|] eqn:Ex; [|exact Eerr].
    set (s0 := set_stk s _).
    assert (A2 : sua sg <= length (und s)) by (eapply sim_enough; eauto; vsimp; vsimp; lia).
    specialize (Fr s0). cbn [s0 set_stk stk und] in Fr.
    rewrite (by_split _ _ _ Ex En) in Fr.
    assert (A1 : sa sg <= length (firstn (Nat.max (sa sg) 1) (stk s) ++ x :: skipn (Nat.max (sa sg) 1) (stk s))).
    { rewrite app_length, firstn_length. simpl. lia. }
    specialize (Fr A1 A2).
    destruct (exec fuel f s0) as [s'|c s'| |]; auto.
    - destruct Fr as (outs & uouts & B1 & B2 & B3 & B4 & B5).
      apply post_ok; auto. split; cbn [epush handle_sig fst snd]; rewrite ?vpush_vao.
      + eapply (frame_sim (sa sg) (so sg + 1) sk init (stk s) (stk s') (outs ++ [x])); eauto.
        * rewrite B1, <- app_assoc. reflexivity.
        * rewrite app_length. simpl. lia.
      + eapply frame_sim; eauto.
    - destruct Fr as (j & uj & B1 & B2 & B3).
      apply post_err; auto. split; cbn [epush handle_sig fst snd]; rewrite ?vpush_vao.
      + eapply (frame_simE (sa sg) (so sg + 1) sk init (stk s) (stk s') (j ++ [x])); eauto.
        rewrite B1, <- app_assoc. reflexivity.
      + eapply frame_simE; eauto.
  Qed.

  (** ---- switch (scalar selector) ---- *)
  Definition branch_ok (sg : sig) (a : sig * node) : Prop :=
    tree_ok (snd a) /\ stored_ok (fst a) (snd a) /\ sua (fst a) = 0 /\ suo (fst a) = 0 /\
    so (fst a) <= so sg /\ sa (fst a) + (so sg - so (fst a)) <= sa sg.
  Lemma switch_branch sg brs :
    (fix go (l : list (sig * node)) : Prop :=
       match l with [] => True | a :: t =>
         (tree_ok (snd a) /\ stored_ok (fst a) (snd a) /\ sua (fst a) = 0 /\ suo (fst a) = 0 /\
          so (fst a) <= so sg /\ sa (fst a) + (so sg - so (fst a)) <= sa sg) /\ go t end) brs ->
    forall z a, nth_error brs z = Some a -> branch_ok sg a.
  Proof.
    induction brs as [|b t IHb]; intros Hg z a Hn.
    - destruct z; discriminate.
    - destruct Hg as [Hb Ht]. destruct z as [|z]; simpl in Hn.
      + inversion Hn; subst. exact Hb.
      + eapply IHb; eauto.
  Qed.

  Lemma switch_rest (rest : list sval) asg afs osg ofs :
    asg <= length rest -> ofs <= osg -> afs + (osg - ofs) <= asg ->
    let len := length rest in
    let dstart := len - asg in
    let dend := Nat.min (Nat.max dstart ((dstart + asg + ofs) - (afs + osg))) (dstart + (asg - afs)) in
    (len <? dend) = false /\
    afs <= length (firstn (len - dend) rest ++ skipn (len - dstart) rest) /\
    exists mid, skipn afs (firstn (len - dend) rest ++ skipn (len - dstart) rest) = mid ++ skipn asg rest /\
                length mid = osg - ofs.
  Proof.
    intros H1 H2 H3 len dstart dend.
    assert (Ed : len - dend = afs + (osg - ofs)) by (unfold dend, dstart, len; lia).
    assert (Es : len - dstart = asg) by (unfold dstart, len; lia).
    split; [apply Nat.ltb_ge; unfold dend, dstart, len; lia|].
    rewrite Ed, Es. split.
    - rewrite app_length, firstn_length. lia.
    - exists (skipn afs (firstn (afs + (osg - ofs)) rest)). split.
      + rewrite skipn_app. rewrite firstn_length.
        replace (afs - Nat.min (afs + (osg - ofs)) (length rest)) with 0 by lia. reflexivity.
      + rewrite skipn_length, firstn_length. lia.
  Qed.

  Lemma switch_post fuel : P fuel -> asm_ok ->
    forall brs sg uc d e e' init uinit s,
    tree_ok (Switch brs sg uc) -> vnode d (Switch brs sg uc) e = Some e' ->
    fits e' init uinit -> sim2 e init uinit s ->
    post e' init uinit s (exec (S fuel) (Switch brs sg uc) s).
  Proof.
    intros HP HA brs sg uc d [sk un] e' init uinit s Ht Hv [F1 F2] [S1 S2].
    cbn [tree_ok] in Ht. destruct Ht as (U1 & U2 & Hbr).
    cbn [vnode] in Hv. destruct (MAX_NODE_DEPTH <? d); [discriminate|].
    unfold epop in Hv. cbn [fst snd] in Hv.
    rewrite (handle_sig_noU sg (vpop 1 sk) un _ _ U1 U2 S2) in Hv. cbn [fst snd] in Hv.
    rewrite vao_vpop1 in Hv.
    assert (Ee : fst e' = vao (1 + sa sg) (so sg) sk /\ snd e' = (if uc then vpush 1 un else un) /\ m (snd e') = m un).
    { destruct uc; inversion Hv; subst; cbn [fst snd]; repeat split; auto. }
    destruct Ee as (Ee1 & Ee2 & Ee3). clear Hv. rewrite Ee1 in F1. rewrite Ee3 in F2.
    assert (ErrS : forall x, simE (snd e') uinit (und x) -> True) by auto. clear ErrS.
    cbn [fst snd] in S1, S2.
    assert (SU : simE (snd e') uinit (und s)).
    { eapply simE_keep; [exact S2 | rewrite Ee3; lia]. }
    cbn [Exec.exec].
    destruct (stk s) as [|sel rest] eqn:Es.
    { apply post_err; auto. split; auto. rewrite Ee1, Es. eapply simE_keep; eauto. vsimp. lia. }
    assert (Hlen : 1 + sa sg <= length (sel :: rest)) by (eapply sim_enough; eauto; vsimp; vsimp; lia).
    assert (ErrR : post e' init uinit s (Err false (set_stk s rest))).
    { apply post_err; auto. split; cbn [set_stk stk und]; auto. rewrite Ee1.
      change rest with (skipn 1 (sel :: rest)). apply simE_skip; auto. lia. }
    destruct sel as [z|o]; [|exact I].
    destruct ((z <? 0)%Z || (Z.of_nat (length brs) <=? z)%Z); [exact ErrR|].
    destruct (nth_error brs (Z.to_nat z)) as [[fs f]|] eqn:En; [|exact I].
    destruct (switch_branch sg brs Hbr _ _ En) as (Tf & Of & V1 & V2 & B1 & B2). cbn [fst snd] in *.
    simpl in Hlen.
    destruct (switch_rest rest (sa sg) (sa fs) (so sg) (so fs) ltac:(lia) B1 B2) as (Hd & Hk & mid & Hm & Lm).
    cbv zeta in Hd, Hk, Hm. rewrite Hd.
    set (rest' := firstn _ rest ++ skipn _ rest) in *.
    pose proof (framed_of_P _ _ _ HP HA Tf Of (set_stk s rest')) as Fr.
    cbn [set_stk stk und] in Fr. rewrite V1 in Fr. specialize (Fr Hk ltac:(lia)).
    destruct (exec fuel f (set_stk s rest')) as [s2|c s2| |]; cbn [bind]; auto.
    - destruct Fr as (outs & uouts & A1 & A2 & A3 & A4 & A5).
      rewrite V2 in A4. destruct uouts; [|discriminate]. simpl in A3.
      rewrite Hm in A1.
      assert (Sk : sim (fst e') init (stk s2)).
      { rewrite Ee1. eapply (frame_sim (1 + sa sg) (so sg) sk init (SInt z :: rest) (stk s2) (outs ++ mid)); eauto.
        - rewrite A1, <- app_assoc. reflexivity.
        - rewrite app_length. lia. }
      apply post_ok.
      + split.
        * destruct uc; cbn [set_und stk und]; auto.
        * rewrite Ee2. destruct uc; cbn [set_und stk und]; rewrite A3.
          -- apply (sim_push [SInt z]); auto.
          -- auto.
      + destruct uc; cbn [hid set_und fills fbs depth]; exact A5.
    - destruct Fr as (j & uj & A1 & A2 & A3). rewrite Hm in A1. simpl in A2.
      apply post_err; auto. split.
      + rewrite Ee1. eapply (frame_simE (1 + sa sg) (so sg) sk init (SInt z :: rest) (stk s2) (j ++ mid)); eauto.
        rewrite A1, <- app_assoc. reflexivity.
      + rewrite A2. destruct SU as (q & Eq). exists (uj ++ q). rewrite Eq, app_assoc. reflexivity.
  Qed.


  (** ---- both / un-both with a numeric subscript, on with a subscript ---- *)
  Definition frames_all (body : rt -> res) (a o : nat) : Prop :=
    forall B U H, body_frames body a o B U H.

  Lemma both_loop_frame body a o : frames_all body a o ->
    forall k s, a * k <= length (stk s) ->
    match both_loop body a k s with
    | Ok s' => exists outs, stk s' = outs ++ skipn (a * k) (stk s) /\ length outs = o * k /\
                            und s' = und s /\ hid s' = hid s
    | Err _ s' => exists j uj, stk s' = j ++ skipn (a * k) (stk s) /\ und s' = uj ++ und s /\ hid s' = hid s
    | OOF | Unk => True end.
  Proof.
    intros Hb. induction k as [|k IHk]; intros s Hl.
    - cbn [both_loop]. exists []. rewrite Nat.mul_0_r. cbn [skipn app length]. repeat split; auto.
    - cbn [both_loop]. destruct k as [|k'].
      + (* one run *)
        rewrite Nat.mul_1_r in *.
        specialize (Hb (skipn a (stk s)) (und s) (hid s) s (firstn a (stk s))).
        rewrite firstn_skipn, firstn_length, Nat.min_l in Hb by lia.
        specialize (Hb eq_refl eq_refl eq_refl eq_refl).
        destruct (body s) as [s'|c s'| |]; [ | |exact I|exact I].
        * destruct Hb as (outs & E1 & E2 & E3 & E4). exists outs. rewrite Nat.mul_1_r. repeat split; auto.
        * destruct Hb as (j & uj & E1 & E2 & E3). exists j, uj. repeat split; auto.
      + set (k := S k') in *.
        assert (Hk : a * S k = a + a * k) by lia.
        unfold need. assert (En : (a <=? length (stk s)) = true) by (apply Nat.leb_le; lia).
        rewrite En. cbn [negb].
        specialize (IHk (set_stk s (skipn a (stk s)))). cbn [set_stk stk und] in IHk.
        rewrite skipn_length in IHk. specialize (IHk ltac:(lia)).
        rewrite skipn_skipn in IHk. replace (a * k + a) with (a * S k) in IHk by lia.
        destruct (both_loop body a k (set_stk s (skipn a (stk s)))) as [s2|c s2| |]; cbn [bind]; [ | |exact I|exact I].
        * destruct IHk as (outs & E1 & E2 & E3 & E4).
          pose proof (Hb (outs ++ skipn (a * S k) (stk s)) (und s) (hid s)
                         (set_stk s2 (firstn a (stk s) ++ stk s2)) (firstn a (stk s))) as Hb2.
          assert (X1 : stk (set_stk s2 (firstn a (stk s) ++ stk s2)) =
                       firstn a (stk s) ++ outs ++ skipn (a * S k) (stk s))
            by (cbn [set_stk stk]; rewrite E1; reflexivity).
          assert (X2 : length (firstn a (stk s)) = a) by (rewrite firstn_length; lia).
          specialize (Hb2 X1 X2 E3 E4). clear Hb. rename Hb2 into Hb.
          destruct (body (set_stk s2 (firstn a (stk s) ++ stk s2))) as [s3|c s3| |]; [ | |exact I|exact I].
          -- destruct Hb as (outs2 & G1 & G2 & G3 & G4). exists (outs2 ++ outs).
             rewrite G1, <- app_assoc, app_length. repeat split; auto. lia.
          -- destruct Hb as (j & uj & G1 & G2 & G3). exists (j ++ outs), uj.
             rewrite G1, <- app_assoc. repeat split; auto.
        * destruct IHk as (j & uj & E1 & E2 & E3). exists j, uj. repeat split; auto.
  Qed.

  Lemma unboth_loop_frame body a o : frames_all body a o ->
    forall k s, a * k <= length (stk s) ->
    match unboth_loop body o k s with
    | Ok s' => exists outs, stk s' = outs ++ skipn (a * k) (stk s) /\ length outs = o * k /\
                            und s' = und s /\ hid s' = hid s
    | Err _ s' => exists j uj, stk s' = j ++ skipn (a * k) (stk s) /\ und s' = uj ++ und s /\ hid s' = hid s
    | OOF | Unk => True end.
  Proof.
    intros Hb. induction k as [|k IHk]; intros s Hl.
    - cbn [unboth_loop]. exists []. rewrite Nat.mul_0_r. cbn [skipn app length]. repeat split; auto.
    - cbn [unboth_loop].
      assert (H1 : match body s with
                   | Ok s' => exists outs, stk s' = outs ++ skipn a (stk s) /\ length outs = o /\ und s' = und s /\ hid s' = hid s
                   | Err _ s' => exists j uj, stk s' = j ++ skipn a (stk s) /\ und s' = uj ++ und s /\ hid s' = hid s
                   | _ => True end).
      { specialize (Hb (skipn a (stk s)) (und s) (hid s) s (firstn a (stk s))).
        rewrite firstn_skipn, firstn_length, Nat.min_l in Hb by lia.
        exact (Hb eq_refl eq_refl eq_refl eq_refl). }
      destruct k as [|k'].
      + rewrite Nat.mul_1_r in *. destruct (body s) as [s'|c s'| |]; [ | |exact I|exact I].
        * destruct H1 as (outs & E1 & E2 & E3 & E4). exists outs. rewrite Nat.mul_1_r. repeat split; auto.
        * exact H1.
      + set (k := S k') in *.
        destruct (body s) as [s1|c s1| |]; cbn [bind]; [ | |exact I|exact I].
        * destruct H1 as (outs & E1 & E2 & E3 & E4).
          unfold need. assert (En : (o <=? length (stk s1)) = true).
          { apply Nat.leb_le. rewrite E1, app_length. lia. }
          rewrite En. cbn [negb].
          specialize (IHk (set_stk s1 (skipn o (stk s1)))). cbn [set_stk stk und] in IHk.
          assert (Esk : skipn o (stk s1) = skipn a (stk s)).
          { rewrite E1, skipn_app, <- E2, skipn_all, Nat.sub_diag. reflexivity. }
          assert (Efn : firstn o (stk s1) = outs).
          { rewrite E1, firstn_app, <- E2, firstn_all, Nat.sub_diag. cbn [firstn]. apply app_nil_r. }
          rewrite Esk, Efn in *. rewrite skipn_length in IHk. specialize (IHk ltac:(lia)).
          rewrite skipn_skipn in IHk. replace (a * k + a) with (a * S k) in IHk by lia.
          destruct (unboth_loop body o k (set_stk s1 (skipn a (stk s)))) as [s2|c s2| |]; cbn [bind]; [ | |exact I|exact I].
          -- destruct IHk as (outs2 & G1 & G2 & G3 & G4). exists (outs ++ outs2).
             cbn [set_stk stk und]. rewrite G1, <- app_assoc, app_length.
             split; [reflexivity|]. split; [lia|]. split; [exact (eq_trans G3 E3)|exact (eq_trans G4 E4)].
          -- destruct IHk as (j & uj & G1 & G2 & G3). exists j, uj.
             split; [exact G1|]. split; [rewrite G2; cbn [set_stk und]; rewrite E3; reflexivity|exact (eq_trans G3 E4)].
        * destruct H1 as (j & uj & E1 & E2 & E3).
          exists (j ++ firstn (a * k) (skipn a (stk s))), uj. repeat split; auto.
          rewrite E1, <- app_assoc. f_equal.
          rewrite <- (firstn_skipn (a * k) (skipn a (stk s))) at 1. f_equal.
          rewrite skipn_skipn. f_equal. lia.
  Qed.

  (** the same two loops at the level of the simulation, for operands WITH a context (under) effect:
      the context part of the checker state after k runs is k applications of the operand's under
      signature; check.rs claims the coarser (k*sua, k*suo), which has the same height and a minimum
      at least as deep ([iterv_le_claim]) *)
  Fixpoint iterv (k a o : nat) (v : vs) : vs :=
    match k with O => v | S k' => vao a o (iterv k' a o v) end.
  Lemma iterv_h k a o v : h (iterv k a o v) = (h v + Z.of_nat k * (Z.of_nat o - Z.of_nat a))%Z.
  Proof. induction k as [|k IH]; cbn [iterv]; [lia|]. rewrite vao_h, IH. lia. Qed.
  Lemma iterv_m_mono k a o v : m v <= m (iterv k a o v).
  Proof. induction k as [|k IH]; cbn [iterv]; [lia|]. rewrite vao_m. lia. Qed.
  Lemma iterv_m_step k a o v : m (iterv k a o v) <= m (iterv (S k) a o v).
  Proof. cbn [iterv]. rewrite vao_m. lia. Qed.
  Lemma iterv_le_claim k a o v : m (iterv k a o v) <= m (vao (k * a) (k * o) v).
  Proof.
    induction k as [|k IH]; cbn [iterv]; [rewrite vao_m; lia|].
    rewrite vao_m, iterv_h. rewrite vao_m in *.
    assert (E1 : (Z.of_nat (S k * a) = Z.of_nat a + Z.of_nat k * Z.of_nat a)%Z) by lia.
    assert (E2 : (Z.of_nat (k * a) = Z.of_nat k * Z.of_nat a)%Z) by lia.
    assert (P0 : (0 <= Z.of_nat k * Z.of_nat o)%Z) by lia.
    rewrite E1. rewrite E2 in IH.
    set (ka := (Z.of_nat k * Z.of_nat a)%Z) in *. set (ko := (Z.of_nat k * Z.of_nat o)%Z) in *.
    replace (Z.of_nat k * (Z.of_nat o - Z.of_nat a))%Z with (ko - ka)%Z by (unfold ko, ka; lia).
    lia.
  Qed.
  Lemma iterv_succ_r k a o v : iterv (S k) a o v = iterv k a o (vao a o v).
  Proof. induction k as [|k IH]; cbn [iterv] in *; [reflexivity|]. rewrite IH. reflexivity. Qed.

  Lemma both_loop_post_u fuel sg f init uinit s0 :
    framed_at fuel sg f ->
    forall k sk un s,
    sim sk init (stk s) -> sim un uinit (und s) -> hid s = hid s0 ->
    m (vao (sa sg * k) (so sg * k) sk) <= length init -> m (iterv k (sua sg) (suo sg) un) <= length uinit ->
    post (vao (sa sg * k) (so sg * k) sk, iterv k (sua sg) (suo sg) un) init uinit s0
         (both_loop (exec fuel f) (sa sg) k s).
  Proof.
    intros Fr. induction k as [|k IHk]; intros sk un s S1 S2 Hh F1 F2.
    - cbn [both_loop iterv]. rewrite !Nat.mul_0_r in *. apply post_ok; auto. split; cbn [fst snd]; auto.
      rewrite (vao00 _ _ _ S1). auto.
    - cbn [both_loop]. destruct k as [|k'].
      + cbn [iterv] in *. rewrite !Nat.mul_1_r in *.
        pose proof (framed_post fuel sg f (sk, un) init uinit s0 s Fr (conj S1 S2)) as Hp.
        cbn [handle_sig fst snd] in Hp. apply Hp; auto. split; auto.
      + set (k := S k') in *.
        assert (Ea : sa sg * S k = sa sg + sa sg * k) by lia.
        assert (Eo : so sg * S k = so sg + so sg * k) by lia.
        rewrite Ea, Eo in *. set (ak := sa sg * k) in *. set (ok := so sg * k) in *.
        assert (Hn : sa sg <= length (stk s)).
        { eapply (sim_enough (sa sg) sk); eauto. revert F1. vsimp. lia. }
        unfold need. assert (En : (sa sg <=? length (stk s)) = true) by (apply Nat.leb_le; auto).
        rewrite En. cbn [negb].
        assert (Sp : sim (vpop (sa sg) sk) init (skipn (sa sg) (stk s))).
        { apply sim_pop; auto. revert F1. vsimp. lia. }
        eapply (post_bind (vao ak ok (vpop (sa sg) sk), iterv k (sua sg) (suo sg) un)).
        * apply (IHk (vpop (sa sg) sk) un (set_stk s (skipn (sa sg) (stk s)))); auto.
          -- revert F1. vsimp. lia.
          -- pose proof (iterv_m_step k (sua sg) (suo sg) un). lia.
        * split; cbn [fst snd]; [revert F1; vsimp; lia | apply iterv_m_step].
        * intros s2 _ [A B] Hh2. cbn [fst snd] in A, B.
          assert (Sv : sim (vpush (sa sg) (vao ak ok (vpop (sa sg) sk))) init
                           (firstn (sa sg) (stk s) ++ stk s2)).
          { apply sim_push'; auto. rewrite firstn_length. lia. }
          pose proof (framed_post fuel sg f
                        (vpush (sa sg) (vao ak ok (vpop (sa sg) sk)), iterv k (sua sg) (suo sg) un)
                        init uinit s0 (set_stk s2 (firstn (sa sg) (stk s) ++ stk s2)) Fr) as Hp.
          cbn [handle_sig fst snd] in Hp.
          eapply post_deepen.
          -- apply Hp; [split; cbn [fst snd set_stk stk und]; auto | | exact Hh2].
             split; cbn [fst snd]; [cbn [handle_sig fst snd]; revert F1; vsimp; lia | exact F2].
          -- cbn [handle_sig fst snd]. vsimp. lia.
          -- reflexivity.
          -- split; cbn [handle_sig fst snd]; [revert F1; vsimp; lia | cbn [iterv]; lia].
          -- split; cbn [fst snd]; auto.
  Qed.

  Lemma unboth_loop_post_u fuel sg f init uinit s0 :
    framed_at fuel sg f ->
    forall k sk un s,
    sim sk init (stk s) -> sim un uinit (und s) -> hid s = hid s0 ->
    m (vao (sa sg * k) (so sg * k) sk) <= length init -> m (iterv k (sua sg) (suo sg) un) <= length uinit ->
    post (vao (sa sg * k) (so sg * k) sk, iterv k (sua sg) (suo sg) un) init uinit s0
         (unboth_loop (exec fuel f) (so sg) k s).
  Proof.
    intros Fr. induction k as [|k IHk]; intros sk un s S1 S2 Hh F1 F2.
    - cbn [unboth_loop iterv]. rewrite !Nat.mul_0_r in *. apply post_ok; auto. split; cbn [fst snd]; auto.
      rewrite (vao00 _ _ _ S1). auto.
    - cbn [unboth_loop]. destruct k as [|k'].
      + cbn [iterv] in *. rewrite !Nat.mul_1_r in *.
        pose proof (framed_post fuel sg f (sk, un) init uinit s0 s Fr (conj S1 S2)) as Hp.
        cbn [handle_sig fst snd] in Hp. apply Hp; auto. split; auto.
      + set (k := S k') in *.
        assert (Ea : sa sg * S k = sa sg + sa sg * k) by lia.
        assert (Eo : so sg * S k = so sg + so sg * k) by lia.
        rewrite Ea, Eo in *. rewrite iterv_succ_r in *. set (ak := sa sg * k) in *. set (ok := so sg * k) in *.
        pose proof (iterv_m_mono k (sua sg) (suo sg) (vao (sua sg) (suo sg) un)) as Hmm.
        eapply (post_bind (vao (sa sg) (so sg) sk, vao (sua sg) (suo sg) un)).
        * pose proof (framed_post fuel sg f (sk, un) init uinit s0 s Fr (conj S1 S2)) as Hp.
          cbn [handle_sig fst snd] in Hp. apply Hp; auto.
          split; cbn [handle_sig fst snd]; [revert F1; vsimp; lia | lia].
        * split; cbn [fst snd]; [revert F1; vsimp; lia | exact Hmm].
        * intros s1 _ [A B] Hh1. cbn [fst snd] in A, B.
          assert (Ho : so sg <= length (stk s1)).
          { eapply (sim_enough (so sg) (vao (sa sg) (so sg) sk)); eauto. revert F1. vsimp. lia. }
          unfold need. assert (En : (so sg <=? length (stk s1)) = true) by (apply Nat.leb_le; auto).
          rewrite En. cbn [negb].
          assert (Sp : sim (vpop (so sg) (vao (sa sg) (so sg) sk)) init (skipn (so sg) (stk s1))).
          { apply sim_pop; auto. revert F1. vsimp. lia. }
          eapply (post_bind (vao ak ok (vpop (so sg) (vao (sa sg) (so sg) sk)),
                             iterv k (sua sg) (suo sg) (vao (sua sg) (suo sg) un))).
          -- apply (IHk _ _ (set_stk s1 (skipn (so sg) (stk s1)))); auto.
             revert F1. vsimp. lia.
          -- split; cbn [fst snd]; [revert F1; vsimp; lia | lia].
          -- intros s2 _ [A2 B2] Hh2. cbn [fst snd] in A2, B2. apply post_ok; auto.
             split; cbn [fst snd set_stk stk und]; auto.
             eapply sim_deepen.
             ++ apply (sim_push' (so sg) (firstn (so sg) (stk s1))); [rewrite firstn_length; lia | exact A2].
             ++ vsimp. lia.
             ++ revert F1. vsimp. lia.
             ++ exact F1.
  Qed.

  Lemma bothk_post fuel : P fuel -> asm_ok ->
    forall (un_ : bool) r k sg f d e e' init uinit s,
    let mk := if un_ then MUnBothImpl r k else MBothImpl r k in
    tree_ok (Mod mk [(sg, f)]) -> vnode d (Mod mk [(sg, f)]) e = Some e' ->
    fits e' init uinit -> sim2 e init uinit s ->
    post e' init uinit s (exec (S fuel) (Mod mk [(sg, f)]) s).
  Proof.
    intros HP HA un_ r k sg f d [sk un] e' init uinit s mk Ht Hv [F1 F2] [S1 S2].
    cbn [fst snd] in S1, S2.
    assert (Ht' : tree_ok f /\ stored_ok sg f).
    { destruct un_; cbn [mk tree_ok fst snd] in Ht; destruct Ht as (_ & _ & _ & Tf & Of & _); auto. }
    destruct Ht' as (Tf & Of). clear Ht.
    pose proof (framed_of_P _ _ _ HP HA Tf Of) as Fr.
    assert (Ee : e' = (vao (sa sg * k) (so sg * k) sk, vao (k * sua sg) (k * suo sg) un) \/ r <> 0).
    { destruct (Nat.eq_dec r 0) as [->|]; [left|right; auto].
      destruct un_; cbn [mk vnode] in Hv; destruct (MAX_NODE_DEPTH <? d); try discriminate;
        cbn [map fst snd opt_bind] in Hv; inversion Hv; subst; clear Hv;
        unfold handle_sig; cbn [fst snd sa so sua suo];
        rewrite Nat.sub_0_r, Nat.add_0_r, (Nat.mul_comm k (so sg)); reflexivity. }
    destruct Ee as [->|Hr].
    2:{ destruct un_; cbn [mk Exec.exec]; destruct (Nat.eqb_spec r 0); try contradiction; exact I. }
    cbn [fst snd] in *.
    pose proof (iterv_le_claim k (sua sg) (suo sg) un) as Hle.
    assert (Hd : post (vao (sa sg * k) (so sg * k) sk, iterv k (sua sg) (suo sg) un) init uinit s
                      (if un_ then unboth_loop (exec fuel f) (so sg) k s else both_loop (exec fuel f) (sa sg) k s)).
    { destruct un_; [apply unboth_loop_post_u | apply both_loop_post_u]; auto; lia. }
    assert (Hfin : post (vao (sa sg * k) (so sg * k) sk, vao (k * sua sg) (k * suo sg) un) init uinit s
                      (if un_ then unboth_loop (exec fuel f) (so sg) k s else both_loop (exec fuel f) (sa sg) k s)).
    { eapply post_deepen; [exact Hd | reflexivity | | | split; auto].
      - cbn [snd]. rewrite vao_h, iterv_h. lia.
      - split; cbn [fst snd]; [lia | exact Hle]. }
    assert (A1 : sa sg * k <= length (stk s)) by (eapply sim_enough; eauto; revert F1; vsimp; lia).
    destruct un_; cbn [mk Exec.exec]; destruct (Nat.eqb r 0); cbn [negb]; try exact I.
    - exact Hfin.
    - unfold need. assert (En : (sa sg * (k - 1) <=? length (stk s)) = true).
      { apply Nat.leb_le. assert (sa sg * (k - 1) <= sa sg * k) by (apply Nat.mul_le_mono_l; lia). lia. }
      rewrite En. cbn [negb]. exact Hfin.
  Qed.

  Lemma onsub_post fuel : P fuel -> asm_ok ->
    forall k sg f d e e' init uinit s,
    tree_ok (Mod (MOnSub k) [(sg, f)]) -> vnode d (Mod (MOnSub k) [(sg, f)]) e = Some e' ->
    fits e' init uinit -> sim2 e init uinit s ->
    post e' init uinit s (exec (S fuel) (Mod (MOnSub k) [(sg, f)]) s).
  Proof.
    intros HP HA k sg f d [sk un] e' init uinit s Ht Hv [F1 F2] [S1 S2].
    cbn [tree_ok fst snd] in Ht. destruct Ht as (_ & _ & _ & Tf & Of & _).
    cbn [vnode] in Hv. destruct (MAX_NODE_DEPTH <? d); [discriminate|].
    cbn [map fst snd opt_bind] in Hv.
    set (a := Nat.max (sa sg) k) in *.
    destruct (vnode (S d) f (handle_ao a a (sk, un))) as [e1|] eqn:E1; cbn [opt_bind] in Hv; [|discriminate].
    inversion Hv; subst; clear Hv.
    pose proof (vnode_mono _ _ _ _ E1) as [L1 L2].
    destruct e1 as [sk1 un1]. cbn [handle_ao fst snd] in *. vsimp.
    cbn [Exec.exec]. unfold need.
    destruct (k <=? length (stk s)) eqn:En; cbn [negb].
    2:{ apply post_err; auto. split; cbn [handle_ao fst snd].
        - eapply (simE_keep sk); [exact S1 | vsimp; lia].
        - eapply (simE_keep un); [exact S2 | vsimp; lia]. }
    apply Nat.leb_le in En.
    eapply (post_bind (sk1, un1)).
    - eapply (HP f (S d) (vao a a sk, un) (sk1, un1)); eauto.
      + split; cbn [handle_ao fst snd]; vsimp; lia.
      + split; cbn [handle_ao fst snd]; auto. rewrite vao_unfold. apply sim_widen; auto. vsimp. lia.
    - split; cbn [handle_ao fst snd]; vsimp; lia.
    - intros s1 _ [A B] Hh. apply post_ok; auto. split; cbn [handle_ao fst snd set_stk stk und]; auto.
      change (firstn k (stk s) ++ stk s1) with (firstn k (stk s) ++ skipn 0 (stk s1)).
      apply sim_ao; auto. rewrite firstn_length. lia.
  Qed.


  (** ---- try with any number of handlers ---- *)
  Definition b2n (b : bool) : nat := if b then 1 else 0.
  Definition handler_ok (ts : sig) (any : bool) (a : sig * node) : Prop :=
    tree_ok (snd a) /\ stored_ok (fst a) (snd a) /\ sua (fst a) = 0 /\ suo (fst a) = 0 /\
    so (fst a) <= so ts /\ sa (fst a) + (so ts - so (fst a)) <= sa ts + 1 /\
    (sa (fst a) + (so ts - so (fst a)) = sa ts + 1 -> any = true).

  Ltac tar A B C D := vsimp; rewrite ?A, ?B, ?C, ?D; vsimp; cbn [b2n]; lia.

  Lemma try_loop_post fuel : P fuel -> asm_ok ->
    forall ts any sk un init uinit s0,
    m (vao (sa ts) (so ts) sk) <= length init -> m un <= length uinit ->
    forall hs sf f te s,
    tree_ok f -> stored_ok sf f -> sua sf = 0 -> suo sf = 0 ->
    so sf <= so ts -> sa sf + (so ts - so sf) <= sa ts + b2n te ->
    (te = true -> sa sf + (so ts - so sf) = sa ts + 1) ->
    Forall (handler_ok ts any) hs ->
    sim (vpush (sa ts + b2n te) (vpop (sa ts) sk)) init (stk s) -> sim un uinit (und s) -> hid s = hid s0 ->
    post (vao (sa ts) (so ts) sk, un) init uinit s0 (try_loop (exec fuel) ts any sf f hs te s).
  Proof.
    intros HP HA ts any sk un init uinit s0 F1 F2.
    set (targs := sa ts) in *. set (mo := so ts) in *.
    assert (Hm0 : m (vpop targs sk) <= length init) by (revert F1; vsimp; lia).
    induction hs as [|[sh hnd] hs IHh]; intros sf f te s Tf Of U1 U2 Ho Ha Hte Hhs S1 S2 Hh; cbn [try_loop];
      fold targs mo;
      set (V := vpush (targs + b2n te) (vpop targs sk)) in *;
      assert (Hb : te = true \/ te = false) by (destruct te; auto);
      assert (HmV : m V = m (vpop targs sk)) by (unfold V; vsimp; reflexivity);
      assert (HhV : h V = (h sk + Z.of_nat (b2n te))%Z) by (unfold V; vsimp; lia);
      assert (Hlen : targs + b2n te <= length (stk s))
        by (eapply (sim_enough (targs + b2n te) V); eauto; tar HmV HhV HmV HhV);
      assert (Hte' : te = true -> sa sf + (mo - so sf) = targs + 1 /\ b2n te = 1)
        by (intros Et; split; [apply Hte; exact Et | rewrite Et; reflexivity]);
      assert (Hte0 : te = false -> b2n te = 0) by (intros Et; rewrite Et; reflexivity).
    - (* the last function *)
      unfold need. assert (En : (targs <=? length (stk s)) = true) by (apply Nat.leb_le; lia).
      rewrite En. cbn [negb]. rewrite andb_false_r.
      set (n2 := Z.to_nat (Z.max 0 (Z.of_nat (so sf) - Z.of_nat (sa sf) - (Z.of_nat mo - Z.of_nat targs)))).
      assert (Hn2 : n2 <= targs) by (unfold n2; lia).
      assert (Hn2' : (Z.of_nat n2 = Z.of_nat (b2n te) + (Z.of_nat (so sf) - Z.of_nat (sa sf)) - (Z.of_nat mo - Z.of_nat targs))%Z).
      { destruct Hb as [Eb|Eb]; [destruct (Hte' Eb)|pose proof (Hte0 Eb)]; unfold n2; lia. }
      clearbody n2.
      eapply (post_deepen (vao (sa sf) (so sf) (vpush (targs - n2) (vpop targs V)), un)).
      + eapply frame_step; eauto.
        * cbn [stk set_stk]. apply sim_remove_n; auto; try lia. tar HmV HhV HmV HhV.
        * tar HmV HhV HmV HhV.
      + cbn [fst snd]. tar HmV HhV HmV HhV.
      + reflexivity.
      + split; cbn [fst snd]; [|lia]. tar HmV HhV HmV HhV.
      + split; cbn [fst snd]; auto.
    - (* a function followed by a handler *)
      inversion Hhs as [|? ? Hh1 Hhs']; subst.
      destruct Hh1 as (Th & Oh & V1 & V2 & Hoh & Hah & Hany). cbn [fst snd] in *. fold targs mo in Hoh, Hah, Hany.
      assert (Hfa : sa sf <= targs + b2n te) by lia.
      set (nb := Nat.min targs (sa sf)).
      unfold need. assert (En : (nb <=? length (stk s)) = true) by (apply Nat.leb_le; unfold nb; lia).
      rewrite En. cbn [negb].
      pose proof (framed_of_P _ _ _ HP HA Tf Of) as Fr.
      assert (A1 : sa sf <= length (stk s)) by lia.
      assert (A2 : sua sf <= length (und s)) by lia.
      specialize (Fr s A1 A2). unfold clean_of.
      destruct (exec fuel f s) as [s2|c s2| |]; [| |exact I|exact I].
      + (* f succeeded *)
        destruct Fr as (outs & uouts & E1 & L1 & E2 & L2 & Hh2).
        rewrite U2 in L2. destruct uouts; [|discriminate]. rewrite U1 in E2. simpl in E2.
        assert (Sf : sim (vao (sa sf) (so sf) V) init (stk s2)).
        { eapply frame_sim; eauto. tar HmV HhV HmV HhV. }
        set (dep := targs + so sf - sa sf).
        set (n1 := Z.to_nat (Z.max 0 (Z.of_nat (so sf) - Z.of_nat (sa sf) - (Z.of_nat mo - Z.of_nat targs)))).
        assert (Hn1' : (Z.of_nat n1 = Z.of_nat (b2n te) + (Z.of_nat (so sf) - Z.of_nat (sa sf)) - (Z.of_nat mo - Z.of_nat targs))%Z).
        { destruct Hb as [Eb|Eb]; [destruct (Hte' Eb)|pose proof (Hte0 Eb)]; unfold n1; lia. }
        assert (Hn1d : n1 <= dep) by (unfold dep; lia).
        clearbody n1.
        assert (Hd : dep <= length (stk s2)).
        { rewrite E1, app_length, skipn_length. unfold dep. lia. }
        assert (Hneed : (dep <=? length (stk s2)) = true) by (apply Nat.leb_le; auto).
        rewrite Hneed. cbn [negb]. rewrite andb_false_r.
        apply post_ok; [|exact (eq_trans Hh2 Hh)]. split; cbn [fst snd set_stk stk und].
        * eapply sim_deepen.
          -- apply sim_remove_n; eauto. unfold dep. tar HmV HhV HmV HhV.
          -- unfold dep. tar HmV HhV HmV HhV.
          -- unfold dep. tar HmV HhV HmV HhV.
          -- auto.
        * rewrite E2. auto.
      + (* f failed: exec_clean_stack *)
        destruct Fr as (j & uj & E1 & E2 & Hh2).
        rewrite E1, keep_bottom_frame by lia.
        rewrite U1 in *. rewrite E2. rewrite (keep_bottom_frame uj (und s) 0) by lia.
        cbn [skipn]. unfold set_su. cbn [stk und fills fbs depth].
        set (stkA := skipn (sa sf) (stk s)).
        assert (SA : sim (vpop (sa sf) V) init stkA).
        { apply sim_pop; auto. tar HmV HhV HmV HhV. }
        assert (LA : length stkA = length (stk s) - sa sf) by (unfold stkA; apply skipn_length).
        set (W := vpush (targs - nb) (vpop targs sk)).
        assert (HhW : h W = (h sk - Z.of_nat nb)%Z) by (unfold W, nb; vsimp; lia).
        assert (HmW : m W = m (vpop targs sk)) by (unfold W; vsimp; reflexivity).
        assert (Hnb : nb <= sa sf /\ nb <= targs /\ targs - sa sf <= targs - nb) by (unfold nb; lia).
        (* the stack after the stale error value is gone *)
        set (stale := te && (sa sf <=? targs)).
        set (stkB := if stale then remove_n 1 (targs - sa sf + 1) stkA else stkA).
        assert (Hst : (stale && negb (targs - sa sf + 1 <=? length stkA)) = false).
        { unfold stale. destruct Hb as [Eb|Eb]; [destruct (Hte' Eb)|]; rewrite Eb; cbn [andb]; auto.
          destruct (sa sf <=? targs) eqn:El; cbn [andb]; auto.
          apply Nat.leb_le in El. apply negb_false_iff, Nat.leb_le. lia. }
        rewrite Hst.
        assert (SW : sim W init stkB).
        { unfold stkB, stale. destruct Hb as [Eb|Eb]; [destruct (Hte' Eb) as [Q1 Q2]|pose proof (Hte0 Eb) as Q2]; rewrite Eb; cbn [andb].
          - destruct (sa sf <=? targs) eqn:El.
            + apply Nat.leb_le in El. eapply sim_deepen.
              * apply (sim_remove_n 1 (targs - sa sf + 1)); eauto; try lia. tar HmV HhV HmW HhW.
              * unfold nb in *. tar HmV HhV HmW HhW.
              * unfold nb in *. tar HmV HhV HmW HhW.
              * tar HmV HhV HmW HhW.
            + apply Nat.leb_gt in El. eapply sim_deepen; [exact SA| | |].
              * unfold nb in *. tar HmV HhV HmW HhW.
              * unfold nb in *. tar HmV HhV HmW HhW.
              * tar HmV HhV HmW HhW.
          - eapply sim_deepen; [exact SA| | |].
            + unfold nb in *. tar HmV HhV HmW HhW.
            + unfold nb in *. tar HmV HhV HmW HhW.
            + tar HmV HhV HmW HhW. }
        assert (LB : targs - sa sf <= length stkB).
        { eapply (sim_enough (targs - sa sf) W); eauto. tar HmV HhV HmW HhW. }
        set (sB := {| stk := stkB; und := und s; fills := fills s2; fbs := fbs s2; depth := depth s2 |}).
        assert (EsB : (if stale
                       then set_stk {| stk := stkA; und := und s; fills := fills s2; fbs := fbs s2; depth := depth s2 |}
                                    (remove_n 1 (targs - sa sf + 1) stkA)
                       else {| stk := stkA; und := und s; fills := fills s2; fbs := fbs s2; depth := depth s2 |}) = sB).
        { unfold sB, stkB. destruct stale; reflexivity. }
        rewrite EsB. clear EsB.
        assert (HhB : hid sB = hid s0).
        { unfold sB, hid in *. cbn [fills fbs depth]. congruence. }
        set (takes := any && (sa sh + (mo - so sh) =? targs + 1)).
        assert (EstB : stk sB = stkB) by reflexivity. rewrite !EstB.
        destruct c.
        * (* a case error passes through *)
          assert (Hn1 : (negb (targs - sa sf =? 0) && negb (targs - sa sf <=? length stkB)) = false).
          { apply andb_false_iff. right. apply negb_false_iff, Nat.leb_le. exact LB. }
          rewrite Hn1.
          apply post_err; auto. split; cbn [fst snd set_stk stk und sB].
          -- unfold remove_n. rewrite Nat.sub_diag. cbn [firstn app].
             eapply simE_weaken.
             ++ apply (simE_skip (targs - sa sf) (targs - nb) 0 W); eauto; try lia. tar HmV HhV HmW HhW.
             ++ tar HmV HhV HmW HhW.
          -- apply sim_simE; auto.
        * (* the next handler runs *)
          assert (Hdep : (takes && negb (targs - sa sf <=? length stkB)) = false).
          { apply andb_false_iff. right. apply negb_false_iff, Nat.leb_le. exact LB. }
          rewrite Hdep.
          set (st1 := if takes then insert_at (targs - sa sf) errval stkB else stkB).
          assert (S1' : sim (vpush (b2n takes) W) init st1).
          { unfold st1. destruct takes; cbn [b2n].
            - unfold insert_at. apply sim_insert; auto. tar HmV HhV HmW HhW.
            - change stkB with ([] ++ stkB). apply (sim_push' 0 []); auto. }
          assert (Htk : takes = true -> sa sh + (mo - so sh) = targs + 1).
          { unfold takes. intros H. apply andb_prop in H as [_ H]. apply Nat.eqb_eq in H. auto. }
          assert (Hnt : takes = false -> sa sh + (mo - so sh) <= targs).
          { unfold takes. intros H. apply andb_false_iff in H as [H|H].
            - destruct (Nat.eq_dec (sa sh + (mo - so sh)) (targs + 1)) as [E|E]; [|lia].
              rewrite (Hany E) in H. discriminate.
            - apply Nat.eqb_neq in H. lia. }
          apply IHh; auto.
          -- destruct takes eqn:Et; cbn [b2n]; [rewrite (Htk eq_refl)|pose proof (Hnt eq_refl)]; lia.
          -- cbn [set_stk stk sB].
             eapply sim_deepen.
             ++ apply (sim_push' nb (firstn nb (stk s))); [rewrite firstn_length; lia|exact S1'].
             ++ destruct takes; tar HmV HhV HmW HhW.
             ++ tar HmV HhV HmW HhW.
             ++ tar HmV HhV HmW HhW.
  Qed.

  Lemma try_post fuel : P fuel -> asm_ok ->
    forall args d e e' init uinit s,
    tree_ok (Mod MTry args) -> vnode d (Mod MTry args) e = Some e' ->
    fits e' init uinit -> sim2 e init uinit s ->
    post e' init uinit s (exec (S fuel) (Mod MTry args) s).
  Proof.
    intros HP HA args d [sk un] e' init uinit s Ht Hv [F1 F2] [S1 S2]. cbn [fst snd] in S1, S2.
    destruct args as [|[sf f] [|[sh hnd] hs]]; try exact I.
    cbn [tree_ok fst snd] in Ht. destruct Ht as (_ & HnoU & _ & Ht). specialize (HnoU eq_refl).
    cbn [vnode] in Hv. destruct (MAX_NODE_DEPTH <? d); [discriminate|].
    cbn [map fst snd] in Hv.
    pose proof (try_sig_bounds sf (sh :: map fst hs)) as Hbd. cbv zeta in Hbd.
    set (ts := fst (try_sig (sf :: sh :: map fst hs))) in *.
    set (any := snd (try_sig (sf :: sh :: map fst hs))) in *.
    destruct Hbd as (Tu1 & Tu2 & B1 & B2 & Bh).
    inversion Hv; subst e'; clear Hv.
    unfold handle_sig in *. cbn [fst snd] in *. rewrite Tu1, Tu2 in *. rewrite (vao00 _ _ _ S2) in *.
    cbn [Exec.exec]. fold ts any.
    unfold need. destruct (sa ts <=? length (stk s)) eqn:En; cbn [negb].
    2:{ apply post_err; auto. split; cbn [fst snd].
        - eapply simE_keep; eauto. vsimp. lia.
        - eapply simE_keep; eauto. }
    apply Nat.leb_le in En.
    (* every function with its facts *)
    assert (Hall : forall (l : list (sig * node)),
              (fix go (l : list (sig * node)) : Prop :=
                 match l with [] => True | a :: t => tree_ok (snd a) /\ stored_ok (fst a) (snd a) /\ go t end) l ->
              Forall (fun a : sig * node => sua (fst a) = 0 /\ suo (fst a) = 0) l ->
              Forall (fun h => so h <= so ts /\ sa h + (so ts - so h) <= sa ts + 1 /\
                               (sa h + (so ts - so h) = sa ts + 1 -> any = true)) (map fst l) ->
              Forall (handler_ok ts any) l).
    { induction l as [|a t IHl]; intros G U B; [constructor|].
      destruct G as (Ta & Oa & G). inversion U as [|? ? [Ua1 Ua2] U']; subst.
      cbn [map] in B. inversion B as [|? ? (Ba1 & Ba2 & Ba3) B']; subst.
      constructor; [|apply IHl; auto]. repeat split; auto. }
    destruct Ht as (Tf & Of & Ht).
    inversion HnoU as [|? ? [U1 U2] HnoU']; subst. cbn [fst] in *.
    assert (Hhs : Forall (handler_ok ts any) ((sh, hnd) :: hs)) by (apply Hall; auto).
    assert (Hw : sim (vpush (sa ts + b2n false) (vpop (sa ts) sk)) init (stk s)).
    { cbn [b2n]. rewrite Nat.add_0_r. apply sim_widen; auto; revert F1; vsimp; lia. }
    assert (Hd : false = true -> sa sf + (so ts - so sf) = sa ts + 1) by discriminate.
    assert (Ha0 : sa sf + (so ts - so sf) <= sa ts + b2n false) by (cbn [b2n]; lia).
    exact (try_loop_post fuel HP HA ts any sk un init uinit s F1 F2 ((sh, hnd) :: hs) sf f false s
             Tf Of U1 U2 B1 Ha0 Hd Hhs Hw S2 eq_refl).
  Qed.


  (** ---- do (the body undoes what the condition leaves) ---- *)
  Lemma do_loop_frame cond body cc A A' ac oc ab ob :
    frames_all cond ac oc -> frames_all body ab ob ->
    cc <= ac -> ac <= A -> 1 <= oc -> A' + 1 = A + cc - ac + oc -> ab <= A' -> A' - ab + ob = A ->
    forall k s, A <= length (stk s) ->
    match do_loop cond body cc k s with
    | Ok s' => exists outs, stk s' = outs ++ skipn A (stk s) /\ length outs = A' /\
                            und s' = und s /\ hid s' = hid s
    | Err _ s' => exists j uj, stk s' = j ++ skipn A (stk s) /\ und s' = uj ++ und s /\ hid s' = hid s
    | OOF | Unk => True end.
  Proof.
    intros Hc Hb Hcc Hac Hoc HA' Hab HA.
    induction k as [|k IHk]; intros s Hl; cbn [do_loop]; [exact I|].
    unfold need. assert (En : (cc <=? length (stk s)) = true) by (apply Nat.leb_le; lia).
    rewrite En. cbn [negb].
    set (T := firstn A (stk s)). set (B := skipn A (stk s)).
    assert (Es : stk s = T ++ B) by (unfold T, B; symmetry; apply firstn_skipn).
    assert (LT : length T = A) by (unfold T; rewrite firstn_length; lia).
    set (s1 := set_stk s (firstn cc (stk s) ++ stk s)).
    set (pre := firstn cc (stk s) ++ T).
    assert (Lpre : length pre = cc + A) by (unfold pre; rewrite app_length, firstn_length; lia).
    assert (Es1 : stk s1 = firstn ac pre ++ (skipn ac pre ++ B)).
    { unfold s1. cbn [set_stk stk]. rewrite app_assoc, firstn_skipn. unfold pre. rewrite Es at 2.
      rewrite app_assoc. reflexivity. }
    pose proof (Hc (skipn ac pre ++ B) (und s) (hid s) s1 (firstn ac pre) Es1
                   ltac:(rewrite firstn_length; lia) eq_refl eq_refl) as Fc.
    destruct (cond s1) as [s2|c s2| |]; [| |exact I|exact I].
    2:{ destruct Fc as (j & uj & E1 & E2 & E3). exists (j ++ skipn ac pre), uj.
        rewrite E1, <- app_assoc. auto. }
    destruct Fc as (outs & E1 & E2 & E3 & E4).
    destruct outs as [|b outs']; [simpl in E2; lia|].
    rewrite E1. cbn [app].
    set (X := outs' ++ skipn ac pre).
    assert (LX : length X = A').
    { unfold X. rewrite app_length, skipn_length. simpl in E2. lia. }
    assert (EX : outs' ++ skipn ac pre ++ B = X ++ B) by (unfold X; rewrite app_assoc; reflexivity).
    rewrite EX.
    destruct b as [z|o]; [|exact I].
    destruct (Z.eqb z 0).
    { exists X. cbn [set_stk stk und]. repeat split; auto. }
    destruct (Z.eqb z 1).
    2:{ exists X, []. cbn [set_stk stk und]. repeat split; auto. }
    set (s2' := set_stk s2 (X ++ B)).
    assert (Es2 : stk s2' = firstn ab X ++ (skipn ab X ++ B)).
    { unfold s2'. cbn [set_stk stk]. rewrite app_assoc, firstn_skipn. reflexivity. }
    pose proof (Hb (skipn ab X ++ B) (und s) (hid s) s2' (firstn ab X) Es2
                   ltac:(rewrite firstn_length; lia) E3 E4) as Fb.
    destruct (body s2') as [s3|c s3| |]; [| |exact I|exact I].
    2:{ destruct Fb as (j & uj & G1 & G2 & G3). exists (j ++ skipn ab X), uj.
        rewrite G1, <- app_assoc. auto. }
    destruct Fb as (outs3 & G1 & G2 & G3 & G4).
    assert (L3 : length (outs3 ++ skipn ab X) = A) by (rewrite app_length, skipn_length; lia).
    assert (Hl3 : A <= length (stk s3)) by (rewrite G1, app_assoc, app_length; lia).
    specialize (IHk s3 Hl3).
    assert (Esk : skipn A (stk s3) = B).
    { rewrite G1, app_assoc, skipn_app, <- L3, skipn_all, Nat.sub_diag. reflexivity. }
    rewrite Esk in IHk.
    destruct (do_loop cond body cc k s3) as [s4|c s4| |]; auto.
    - destruct IHk as (o4 & H1 & H2 & H3 & H4). exists o4. repeat split; auto; congruence.
    - destruct IHk as (j & uj & H1 & H2 & H3). exists j, uj. repeat split; auto; congruence.
  Qed.

  Lemma do_post fuel : P fuel -> asm_ok ->
    forall sb body sc cond d e e' init uinit s,
    tree_ok (Mod MDo [(sb, body); (sc, cond)]) -> vnode d (Mod MDo [(sb, body); (sc, cond)]) e = Some e' ->
    fits e' init uinit -> sim2 e init uinit s ->
    post e' init uinit s (exec (S fuel) (Mod MDo [(sb, body); (sc, cond)]) s).
  Proof.
    intros HP HA sb body sc cond d [sk un] e' init uinit s Ht Hv [F1 F2] [S1 S2]. cbn [fst snd] in S1, S2.
    cbn [tree_ok fst snd] in Ht. destruct Ht as (_ & HnoU & _ & Tb & Ob & Tc & Oc & _).
    specialize (HnoU eq_refl). inversion HnoU as [|? ? [U1 U2] HnoU']; subst.
    inversion HnoU' as [|? ? [U3 U4] _]; subst. cbn [fst] in *.
    cbn [vnode] in Hv. destruct (MAX_NODE_DEPTH <? d); [discriminate|].
    cbn [map fst snd] in Hv. cbn [Exec.exec].
    set (cc := sa sc - (so sc - 1)) in *.
    set (cs := sig2 (sa sc) (so sc + cc - 1)) in *.
    set (comp := sig_compose sb cs) in *.
    destruct (Nat.eqb_spec (so sc) 0) as [|Hoc]; [exact I|]. cbn [orb].
    destruct (Nat.eqb_spec (sa comp) (so comp)) as [Eq|]; [|exact I]. cbn [negb].
    assert (Elt : (sa comp <? so comp) = false) by (apply Nat.ltb_ge; lia).
    rewrite Elt in Hv. inversion Hv; subst e'; clear Hv. cbn [handle_ao fst snd] in *.
    set (A := sa comp) in *.
    set (A' := so comp + (so cs - sa sc)) in *.
    assert (Ecs : sa cs = sa sc /\ so cs = so sc + cc - 1) by (split; reflexivity).
    destruct Ecs as [Ecs1 Ecs2].
    assert (Ecomp : sa comp = sa cs + (sa sb - so cs) /\ so comp = so sb + (so cs - sa sb)) by (split; reflexivity).
    destruct Ecomp as [Ec1 Ec2].
    pose proof (framed_of_P _ _ _ HP HA Tb Ob) as Frb.
    pose proof (framed_of_P _ _ _ HP HA Tc Oc) as Frc.
    assert (Hfb : frames_all (exec fuel body) (sa sb) (so sb)).
    { intros B U H. eapply body_frames_of_framed; eauto. }
    assert (Hfc : frames_all (exec fuel cond) (sa sc) (so sc)).
    { intros B U H. eapply body_frames_of_framed; eauto. }
    assert (Hl : A <= length (stk s)) by (eapply sim_enough; eauto).
    pose proof (do_loop_frame (exec fuel cond) (exec fuel body) cc A A' (sa sc) (so sc) (sa sb) (so sb)
                  Hfc Hfb ltac:(unfold cc; lia) ltac:(unfold A; lia) ltac:(lia)
                  ltac:(unfold A', A, cc in *; lia) ltac:(unfold A', A, cc in *; lia)
                  ltac:(unfold A', A, cc in *; lia) fuel s Hl) as Hd.
    destruct (do_loop (exec fuel cond) (exec fuel body) cc fuel s) as [s'|c s'| |]; auto.
    - destruct Hd as (outs & E1 & E2 & E3 & E4). apply post_ok; auto. split; cbn [fst snd].
      + eapply frame_sim; eauto.
      + rewrite E3. auto.
    - destruct Hd as (j & uj & E1 & E2 & E3). apply post_err; auto. split; cbn [fst snd].
      + eapply frame_simE; eauto.
      + rewrite E2. apply simE_junk; auto.
  Qed.

  Ltac senv := cbn [handle_ao handle_sig epop epush fst snd set_stk set_und set_su stk und fills fbs depth] in *.

  Theorem P_all : asm_ok -> forall fuel, P fuel.
  Proof.
    intros HA. induction fuel as [|fuel IH]; intros n d e e' init uinit s Ht Hv F S.
    - exact I.
    - destruct (match n with Switch _ _ _ => true | _ => false end) eqn:Esw.
      { destruct n; try discriminate Esw. eapply switch_post; eauto. }
      destruct (match n with Mod (MBothImpl _ _ | MUnBothImpl _ _ | MOnSub _) [_] => true | _ => false end) eqn:Ebk.
      { destruct n; try discriminate Ebk. destruct m; try discriminate Ebk;
          destruct args as [|[sg f] [|? ?]]; try discriminate Ebk.
        - eapply onsub_post; eauto.
        - eapply (bothk_post fuel IH HA false); eauto.
        - eapply (bothk_post fuel IH HA true); eauto. }
      destruct (match n with Mod MDo [_; _] => true | _ => false end) eqn:Edo.
      { destruct n; try discriminate Edo. destruct m; try discriminate Edo.
        destruct args as [|[sb body] [|[sc cond] [|? ?]]]; try discriminate Edo.
        eapply do_post; eauto. }
      destruct (match n with Mod MTry _ => true | _ => false end) eqn:Etry.
      { destruct n; try discriminate Etry. destruct m; try discriminate Etry. eapply try_post; eauto. }
      destruct (match n with Mod MRepeatWithInverse [_; _] => true | _ => false end) eqn:Eri.
      { destruct n; try discriminate Eri. destruct m; try discriminate Eri.
        destruct args as [|[sg f] [|[si g] [|? ?]]]; try discriminate Eri.
        eapply repeat_inv_post; eauto. }
      destruct (match n with Mod mk [_] => is_iter mk || match mk with MBy => true | _ => false end | _ => false end) eqn:Ei.
      { destruct n; try discriminate Ei. destruct args as [|[sg f] [|? ?]]; try discriminate Ei.
        destruct (is_iter m) eqn:Ei2.
        - eapply iter_mod_post; eauto.
        - destruct m; try discriminate Ei; try discriminate Ei2. eapply by_post; eauto. }
      destruct n; cbn [vnode] in Hv; destruct (MAX_NODE_DEPTH <? d); try discriminate; cbn [Exec.exec].
      + (* Push *) inversion Hv; subst; clear Hv. apply post_ok; auto.
        destruct S as [S1 S2]. split; auto. destruct e as [sk un]. simpl in *.
        apply (sim_push [v]); auto.
      + (* Prim *) inversion Hv; subst; clear Hv. destruct e as [sk un]. destruct S as [S1 S2].
        destruct F as [F1 F2]. cbn [handle_ao fst snd] in *.
        unfold need. destruct (a <=? length (stk s)) eqn:En; cbn [negb].
        * destruct (pknown id (firstn a (stk s))); cbn [negb]; [|exact I].
          destruct (psem id (fillctx s) (firstn a (stk s))) as [outs|] eqn:Ep.
          -- destruct (Nat.eqb_spec (length outs) o) as [Eo|]; [|exact I].
             apply post_ok; auto. split; senv; auto.
             apply sim_ao; auto.
          -- apply post_err; auto. split; senv.
             ++ apply simE_ao_pop; auto.
             ++ apply sim_simE; auto.
        * apply post_err; auto. split; senv.
          -- eapply simE_keep; eauto. vsimp. lia.
          -- apply sim_simE; auto.
      + (* Run *) eapply run_post; eauto.
      + (* Mod *)
        destruct e as [sk un]. destruct S as [S1 S2]. destruct F as [F1 F2].
        destruct m; destruct args as [|[sg f] [|[sg2 g] [|? ?]]]; try exact I;
          cbn [vnode map fst snd opt_bind] in Hv; try discriminate;
          try discriminate Ei; try discriminate Ebk; try discriminate Etry; try discriminate Edo;
          cbn [tree_ok fst snd] in Ht; destruct Ht as (Hup & HnoU & Hex & Ht); cbn [ignores_under] in HnoU.
        * (* Dip *)
          destruct Ht as (Tf & Of & _).
          destruct (vnode (S d) f (epop 1 (sk, un))) as [e1|] eqn:E1; cbn [opt_bind] in Hv; [|discriminate].
          inversion Hv; subst; clear Hv.
          pose proof (vnode_mono _ _ _ _ E1) as [L1 L2]. senv. vsimp.
          destruct (stk s) as [|x rest] eqn:Es.
          -- apply post_err; auto. split; senv; rewrite ?Es.
             ++ eapply simE_keep; eauto. vsimp. lia.
             ++ eapply simE_keep; eauto.
          -- assert (Sp : sim (vpop 1 sk) init rest).
             { change rest with (skipn 1 (x :: rest)).
               apply sim_pop; auto; [simpl; lia | vsimp; lia]. }
             eapply post_bind.
             ++ eapply (post_hid_trans _ _ _ s (set_stk s rest)); [reflexivity|].
                eapply IH; eauto. split; senv; vsimp; lia. split; senv; auto.
             ++ split; senv; vsimp; lia.
             ++ intros s1 _ [A B] Hh. apply post_ok; auto. split; senv; auto.
                apply (sim_push [x]); auto.
        * (* Gap *)
          destruct Ht as (Tf & Of & _).
          pose proof (vnode_mono _ _ _ _ Hv) as [L1 L2]. senv. vsimp.
          destruct (stk s) as [|x rest] eqn:Es.
          -- apply post_err; auto. split; senv; rewrite ?Es.
             ++ eapply simE_keep; eauto. vsimp. lia.
             ++ eapply simE_keep; eauto.
          -- assert (Sp : sim (vpop 1 sk) init rest).
             { change rest with (skipn 1 (x :: rest)).
               apply sim_pop; auto; [simpl; lia | vsimp; lia]. }
             eapply (post_hid_trans _ _ _ s (set_stk s rest)); [reflexivity|].
             eapply IH; eauto. split; auto. split; senv; auto.
        * (* On *)
          destruct Ht as (Tf & Of & _).
          destruct (vnode (S d) f (epush 1 (epop 1 (sk, un)))) as [e1|] eqn:E1; cbn [opt_bind] in Hv; [|discriminate].
          inversion Hv; subst; clear Hv.
          pose proof (vnode_mono _ _ _ _ E1) as [L1 L2]. senv. vsimp.
          destruct (stk s) as [|x rest] eqn:Es.
          -- apply post_err; auto. split; senv; rewrite ?Es.
             ++ eapply simE_keep; eauto. vsimp. lia.
             ++ eapply simE_keep; eauto.
          -- assert (Sp : sim (vpush 1 (vpop 1 sk)) init (x :: rest)).
             { change (x :: rest) with ([x] ++ skipn 1 (x :: rest)). apply (sim_push [x]).
               apply sim_pop; auto; [simpl; lia | vsimp; lia]. }
             eapply post_bind.
             ++ eapply IH; eauto. split; senv; vsimp; lia. split; senv; rewrite ?Es; auto.
             ++ split; senv; vsimp; lia.
             ++ intros s1 _ [A B] Hh. apply post_ok; auto. split; senv; auto.
                apply (sim_push [x]); auto.
        * (* With *)
          destruct Ht as (Tf & Of & _). inversion Hv; subst; clear Hv.
          specialize (HnoU eq_refl). inversion HnoU as [|? ? [U1 U2] _]; subst; cbn [fst] in *.
          senv. destruct (Nat.eqb_spec (sa sg) 0); [exact I|].
          destruct (nth_error (stk s) (sa sg - 1)) as [x|] eqn:En.
          -- pose proof (framed_of_P _ _ _ IH HA Tf Of) as Fr.
             pose proof (handle_sig_noU sg sk un _ _ U1 U2 S2) as HS.
             eapply post_bind.
             ++ eapply (framed_post fuel sg f (sk, un)); eauto. split; auto.
                rewrite HS. split; senv; vsimp; auto.
             ++ rewrite HS. split; senv; vsimp; lia.
             ++ rewrite HS. intros s1 _ [A B] Hh. apply post_ok; auto.
                split; senv; auto. rewrite <- vpush_vao. apply (sim_push [x]); auto.
          -- apply post_err; auto. split; senv.
             ++ eapply simE_keep; eauto. vsimp. lia.
             ++ eapply simE_keep; eauto.
        * (* Off *)
          destruct Ht as (Tf & Of & _). inversion Hv; subst; clear Hv.
          specialize (HnoU eq_refl). inversion HnoU as [|? ? [U1 U2] _]; subst; cbn [fst] in *.
          senv. destruct (stk s) as [|x rest] eqn:Es.
          -- apply post_err; auto. split; senv; rewrite ?Es.
             ++ eapply simE_keep; eauto. vsimp. lia.
             ++ eapply simE_keep; eauto.
          -- pose proof (framed_of_P _ _ _ IH HA Tf Of) as Fr.
             pose proof (handle_sig_noU sg sk un _ _ U1 U2 S2) as HS.
             eapply post_bind.
             ++ eapply (framed_post fuel sg f (sk, un)); eauto. split; rewrite ?Es; auto.
                rewrite HS. split; senv; vsimp; auto.
             ++ rewrite HS. split; senv; vsimp; lia.
             ++ rewrite HS. intros s1 _ [A B] Hh. senv.
                pose proof (sim_cur_len _ _ _ A) as Hc. vsimp.
                unfold need. destruct (so sg <=? length (stk s1)) eqn:En; cbn [negb].
                ** apply post_ok; auto. split; senv; auto.
                   rewrite <- vpush_vao. apply sim_insert; auto. vsimp. lia.
                ** apply Nat.leb_gt in En. lia.
        * (* Above *)
          destruct Ht as (Tf & Of & _). inversion Hv; subst; clear Hv.
          specialize (HnoU eq_refl). inversion HnoU as [|? ? [U1 U2] _]; subst; cbn [fst] in *.
          senv. unfold need. destruct (sa sg <=? length (stk s)) eqn:En; cbn [negb].
          -- pose proof (framed_of_P _ _ _ IH HA Tf Of) as Fr.
             pose proof (handle_sig_noU sg sk un _ _ U1 U2 S2) as HS.
             eapply post_bind.
             ++ eapply (framed_post fuel sg f (sk, un)); eauto. split; auto.
                rewrite HS. split; senv; vsimp; auto.
             ++ rewrite HS. split; senv; vsimp; lia.
             ++ rewrite HS. intros s1 _ [A B] Hh. apply post_ok; auto.
                split; senv; auto. rewrite (Nat.add_comm (sa sg)), <- vpush_vao.
                apply sim_push'; auto. rewrite firstn_length. apply Nat.leb_le in En. lia.
          -- apply post_err; auto. split; senv.
             ++ eapply simE_keep; eauto. vsimp. lia.
             ++ eapply simE_keep; eauto.
        * (* Below *)
          destruct Ht as (Tf & Of & _). inversion Hv; subst; clear Hv.
          specialize (HnoU eq_refl). inversion HnoU as [|? ? [U1 U2] _]; subst; cbn [fst] in *.
          senv. unfold need. destruct (sa sg <=? length (stk s)) eqn:En; cbn [negb].
          -- pose proof (framed_of_P _ _ _ IH HA Tf Of) as Fr. apply Nat.leb_le in En.
             assert (Sp : sim (vpush (sa sg) sk) init (firstn (sa sg) (stk s) ++ stk s)).
             { apply sim_push'; auto. rewrite firstn_length. lia. }
             pose proof (handle_sig_noU sg (vpush (sa sg) sk) un _ _ U1 U2 S2) as HS.
             eapply (post_deepen (vao (sa sg) (so sg) (vpush (sa sg) sk), un)).
             ++ rewrite <- HS. eapply (framed_post fuel sg f (vpush (sa sg) sk, un)); eauto.
                split; senv; auto. rewrite HS. split; senv; vsimp; lia.
             ++ senv; vsimp; lia.
             ++ senv; vsimp; lia.
             ++ split; senv; vsimp; lia.
             ++ split; senv; vsimp; lia.
          -- apply post_err; auto. split; senv.
             ++ eapply simE_keep; eauto. vsimp. lia.
             ++ eapply simE_keep; eauto.
        * (* Both *)
          destruct Ht as (Tf & Of & _).
          destruct (vnode (S d) f (epop (sa sg) (sk, un))) as [e1|] eqn:E1; cbn [opt_bind] in Hv; [|discriminate].
          pose proof (vnode_mono _ _ _ _ E1) as [L1 L2].
          pose proof (vnode_mono _ _ _ _ Hv) as [L3 L4]. senv. vsimp.
          unfold need. destruct (sa sg <=? length (stk s)) eqn:En; cbn [negb].
          -- apply Nat.leb_le in En. eapply (post_bind e1).
             ++ eapply (post_hid_trans _ _ _ s (set_stk s (skipn (sa sg) (stk s)))); [reflexivity|].
                eapply (IH f (S d) (epop (sa sg) (sk, un)) e1); eauto.
                ** split; senv; vsimp; lia.
                ** split; senv; auto. apply sim_pop; auto. vsimp. lia.
             ++ split; senv; vsimp; lia.
             ++ intros s1 _ [A B] Hh.
                eapply (post_hid_trans _ _ _ s (set_stk s1 (firstn (sa sg) (stk s) ++ stk s1))); [exact Hh|].
                eapply (IH f (S d) (epush (sa sg) e1) e'); eauto.
                ** split; auto.
                ** split; senv; auto. apply sim_push'; auto. rewrite firstn_length. lia.
          -- apply post_err; auto. split; senv.
             ++ eapply simE_keep; eauto. vsimp. lia.
             ++ eapply simE_keep; eauto. lia.
        * (* Fork *)
          destruct Ht as (Tf & Of & Tg & Og & _). inversion Hv; subst; clear Hv.
          specialize (HnoU eq_refl). inversion HnoU as [|? ? [U1 U2] HnoU']; subst.
          inversion HnoU' as [|? ? [U3 U4] _]; subst. cbn [fst] in *.
          unfold max_list, sum_list in *. cbn [fold_right map] in *. senv.
          unfold need. destruct (sa sg <=? length (stk s)) eqn:En; cbn [negb].
          -- apply Nat.leb_le in En. vsimp.
             destruct (sa sg2 <? sa sg) eqn:Elt.
             ++ apply Nat.ltb_lt in Elt.
                assert (Sp : sim (vpush (sa sg2) (vpop (sa sg) sk)) init (firstn (sa sg2) (stk s) ++ skipn (sa sg) (stk s))).
                { apply sim_push'; [rewrite firstn_length; lia|]. apply sim_pop; auto. vsimp. lia. }
                eapply (post_bind (vao (sa sg2) (so sg2) (vpush (sa sg2) (vpop (sa sg) sk)), un)).
                ** eapply frame_step; eauto. vsimp. lia.
                ** split; senv; vsimp; lia.
                ** intros s1 _ [A B] Hh. senv.
                   eapply (post_deepen (vao (sa sg) (so sg) (vpush (sa sg) (vao (sa sg2) (so sg2) (vpush (sa sg2) (vpop (sa sg) sk)))), un)).
                   --- eapply frame_step; eauto.
                       +++ senv. apply sim_push'; auto. rewrite firstn_length; lia.
                       +++ vsimp. lia.
                   --- senv; vsimp; lia.
                   --- senv; vsimp; lia.
                   --- split; senv; vsimp; lia.
                   --- split; senv; vsimp; lia.
             ++ apply Nat.ltb_ge in Elt.
                eapply (post_bind (vao (sa sg2) (so sg2) sk, un)).
                ** eapply frame_step; eauto. vsimp. lia.
                ** split; senv; vsimp; lia.
                ** intros s1 _ [A B] Hh. senv.
                   eapply (post_deepen (vao (sa sg) (so sg) (vpush (sa sg) (vao (sa sg2) (so sg2) sk)), un)).
                   --- eapply frame_step; eauto.
                       +++ senv. apply sim_push'; auto. rewrite firstn_length; lia.
                       +++ vsimp. lia.
                   --- senv; vsimp; lia.
                   --- senv; vsimp; lia.
                   --- split; senv; vsimp; lia.
                   --- split; senv; vsimp; lia.
          -- apply post_err; auto. split; senv.
             ++ eapply simE_keep; eauto. vsimp. lia.
             ++ eapply simE_keep; eauto.
        * (* Bracket *)
          destruct Ht as (Tf & Of & Tg & Og & _). inversion Hv; subst; clear Hv.
          specialize (HnoU eq_refl). inversion HnoU as [|? ? [U1 U2] HnoU']; subst.
          inversion HnoU' as [|? ? [U3 U4] _]; subst. cbn [fst] in *.
          unfold max_list, sum_list in *. cbn [fold_right map] in *. senv.
          unfold need. destruct (sa sg <=? length (stk s)) eqn:En; cbn [negb].
          -- apply Nat.leb_le in En. vsimp.
             assert (Sp : sim (vpop (sa sg) sk) init (skipn (sa sg) (stk s))).
             { apply sim_pop; auto. vsimp. lia. }
             eapply (post_bind (vao (sa sg2) (so sg2) (vpop (sa sg) sk), un)).
             ** eapply frame_step; eauto. vsimp. lia.
             ** split; senv; vsimp; lia.
             ** intros s1 _ [A B] Hh. senv.
                eapply (post_deepen (vao (sa sg) (so sg) (vpush (sa sg) (vao (sa sg2) (so sg2) (vpop (sa sg) sk))), un)).
                --- eapply frame_step; eauto.
                    +++ senv. apply sim_push'; auto. rewrite firstn_length; lia.
                    +++ vsimp. lia.
                --- senv; vsimp; lia.
                --- senv; vsimp; lia.
                --- split; senv; vsimp; lia.
                --- split; senv; vsimp; lia.
          -- apply post_err; auto. split; senv.
             ++ eapply simE_keep; eauto. vsimp. lia.
             ++ eapply simE_keep; eauto.
        * (* Case *)
          destruct Ht as (Tf & Of & _). inversion Hv; subst; clear Hv.
          pose proof (framed_post fuel sg f (sk, un) init uinit s s
                        (framed_of_P _ _ _ IH HA Tf Of) (conj S1 S2) (conj F1 F2) eq_refl) as Hp.
          destruct (exec fuel f s); simpl in *; auto.
        * (* Fill *)
          destruct Ht as (Tf & Of & Tg & Og & _).
          destruct (Nat.eqb_spec (so sg) 0) as [|Hso]; [exact I|].
          assert (Hc : (0 <? so sg) = true) by (apply Nat.ltb_lt; lia).
          rewrite Hc in Hv. cbn [orb] in Hv.
          destruct (vnode (S d) f (sk, un)) as [e1|] eqn:E1; cbn [opt_bind] in Hv; [|discriminate].
          pose proof (vnode_mono _ _ _ _ E1) as [L1 L2].
          pose proof (vnode_mono _ _ _ _ Hv) as [L3 L4]. senv.
          eapply (post_bind e1).
          -- eapply (IH f (S d) (sk, un) e1); eauto.
             ++ split; senv; vsimp; lia.
             ++ split; auto.
          -- split; senv; vsimp; lia.
          -- intros s1 _ [A B] Hh. destruct e1 as [sk1 un1]. senv.
             unfold need. destruct (so sg <=? length (stk s1)) eqn:En; cbn [negb].
             ++ apply Nat.leb_le in En.
                set (s2 := {| stk := skipn (so sg) (stk s1); und := und s1;
                              fills := firstn (so sg) (stk s1) :: fills s1; fbs := fbs s1; depth := depth s1 |}).
                assert (Hp : post e' init uinit s2 (exec fuel g s2)).
                { eapply (IH g (S d) (handle_ao (so sg) 0 (sk1, un1)) e'); eauto.
                  - split; auto.
                  - split; senv.
                    + change (vao (so sg) 0 sk1) with (vpush 0 (vpop (so sg) sk1)).
                      apply (sim_push' 0 []); auto. apply sim_pop; auto. vsimp. lia.
                    + auto. }
                destruct (exec fuel g s2) as [s3|c s3| |]; simpl in Hp |- *; auto.
                ** destruct Hp as [Sx Hx]. split; auto.
                   unfold hid in *. cbn [fills fbs depth] in *. inversion Hx. inversion Hh. subst.
                   rewrite H0, H1, H2. cbn [tl]. congruence.
                ** destruct Hp as [Sx Hx]. split; auto.
                   unfold hid in *. cbn [fills fbs depth] in *. inversion Hx. inversion Hh. subst.
                   rewrite H0, H1, H2. cbn [tl]. congruence.
             ++ apply post_err; auto. split; senv.
                ** eapply simE_keep; eauto. vsimp. lia.
                ** eapply simE_keep; eauto.
        * (* DipN *)
          destruct Ht as (Tf & Of & _). inversion Hv; subst; clear Hv.
          specialize (HnoU eq_refl). inversion HnoU as [|? ? [U1 U2] _]; subst; cbn [fst] in *.
          unfold handle_sig in *. cbn [fst snd sa so sua suo] in *. rewrite U1, U2 in *.
          rewrite (vao00 _ _ _ S2) in *.
          unfold need. destruct (n <=? length (stk s)) eqn:En; cbn [negb].
          -- apply Nat.leb_le in En.
             eapply (post_bind (vao (sa sg) (so sg) (vpop n sk), un)).
             ++ eapply frame_step; eauto.
                ** senv. apply sim_pop; auto. vsimp. lia.
                ** vsimp. lia.
             ++ split; senv; vsimp; lia.
             ++ intros s1 _ [A B] Hh. senv. apply post_ok; auto. split; senv; auto.
                eapply (sim_deepen (vpush n (vao (sa sg) (so sg) (vpop n sk)))).
                ** apply sim_push'; auto. rewrite firstn_length; lia.
                ** vsimp. lia.
                ** vsimp. lia.
                ** auto.
          -- apply post_err; auto. split; senv.
             ++ eapply simE_keep; eauto. vsimp. lia.
             ++ eapply simE_keep; eauto.
      + (* Call *)
        inversion Hv; subst; clear Hv. cbn [tree_ok] in Ht.
        destruct (nth_error asm f) as [body|] eqn:Eb; [|exact I].
        assert (Tb : tree_ok body).
        { unfold asm_ok in HA. rewrite Forall_forall in HA. apply HA. eapply nth_error_In; eauto. }
        set (s1 := {| stk := stk s; und := und s; fills := fills s;
                      fbs := length (fills s) :: fbs s; depth := Datatypes.S (depth s) |}).
        pose proof (framed_post fuel s0 body e init uinit s1 s1
                      (framed_of_P _ _ _ IH HA Tb Ht) S F eq_refl) as Hp.
        destruct (exec fuel body s1) as [s2|c s2| |]; simpl in Hp |- *; auto.
        * destruct Hp as [[A B] Hh].
          assert (Hh' : hid {| stk := stk s2; und := und s2; fills := fills s2;
                               fbs := tl (fbs s2); depth := Init.Nat.pred (depth s2) |} = hid s).
          { unfold hid in *. cbn [fills fbs depth] in *. inversion Hh as [[H1 H2 H3]].
            rewrite H1, H2, H3. reflexivity. }
          match goal with |- post _ _ _ _ (if ?c then _ else _) => destruct c end.
          -- apply post_ok; auto. split; auto.
          -- apply post_err; auto. split; cbn [stk und]; apply sim_simE; auto.
        * destruct Hp as [[A B] Hh]. split; [split; auto|].
          unfold hid in *. cbn [fills fbs depth] in *. inversion Hh as [[H1 H2 H3]].
          rewrite H1, H2, H3. reflexivity.
      + (* CallGlobal: a constant binding *)
        inversion Hv; subst; clear Hv. destruct e as [sk un]. destruct S as [S1 S2]. destruct F as [F1 F2].
        destruct (Nat.eqb_spec (sa s0) 0) as [A0|]; [|exact I].
        destruct (Nat.eqb_spec (so s0) 1) as [O1|]; [|exact I].
        destruct (Nat.eqb_spec (sua s0) 0) as [U1|]; [|exact I].
        destruct (Nat.eqb_spec (suo s0) 0) as [U2|]; [|exact I]. cbn [andb].
        rewrite (handle_sig_noU s0 sk un _ _ U1 U2 S2) in *. rewrite A0, O1 in *. cbn [fst snd] in *.
        destruct (pknown GLOBAL_GET [SInt (Z.of_nat i)]); cbn [negb]; [|exact I].
        destruct (psem GLOBAL_GET (fillctx s) [SInt (Z.of_nat i)]) as [[|v [|? ?]]|]; try exact I.
        * apply post_ok; auto. split; senv; auto.
          change (v :: stk s) with ([v] ++ skipn 0 (stk s)). apply sim_ao; auto.
        * apply post_err; auto. split; senv; [eapply simE_keep; eauto; vsimp; lia | apply sim_simE; auto].
      + exact I.
      + (* BindGlobal *)
        inversion Hv; subst; clear Hv. destruct e as [sk un]. destruct S as [S1 S2]. destruct F as [F1 F2]. senv.
        destruct (stk s) as [|x rest] eqn:Es.
        * apply post_err; auto. split; senv; rewrite ?Es; [eapply simE_keep; eauto; vsimp; lia | apply sim_simE; auto].
        * apply post_ok; auto. split; senv; auto.
          change rest with ([] ++ skipn 1 (x :: rest)). apply sim_ao; auto.
      + (* Arr *)
        destruct (vnode (Datatypes.S d) n e) as [e1|] eqn:E1; cbn [opt_bind] in Hv; [|discriminate].
        inversion Hv; subst; clear Hv. cbn [tree_ok] in Ht.
        pose proof (vnode_mono _ _ _ _ E1) as [L1 L2]. destruct e1 as [sk1 un1]. destruct F as [F1 F2]. senv. vsimp.
        set (s0 := {| stk := stk s; und := und s; fills := fills s;
                      fbs := length (fills s) :: fbs s; depth := depth s |}).
        assert (Hp : post (sk1, un1) init uinit s0 (exec fuel n s0)).
        { eapply IH; eauto. split; senv; lia. }
        destruct (exec fuel n s0) as [s1|c s1| |]; simpl in Hp |- *; auto.
        * destruct Hp as [[A B] Hh]. senv.
          assert (Hh' : forall l u, hid {| stk := l; und := u; fills := fills s1;
                               fbs := tl (fbs s1); depth := depth s1 |} = hid s).
          { intros. unfold hid in *. cbn [fills fbs depth] in *. inversion Hh as [[H1 H2 H3]].
            rewrite H1, H2, H3. reflexivity. }
          unfold need. cbn [stk].
          destruct (len <=? length (stk s1)) eqn:En; cbn [negb].
          -- destruct (arrsem boxed (firstn len (stk s1))) as [v|].
             ++ apply post_ok; [|apply Hh']. split; senv; auto.
                apply (sim_push [v]). apply sim_pop; auto; try (apply Nat.leb_le; auto; fail); try (vsimp; lia).
             ++ apply post_err; [|apply Hh']. split; senv.
                ** eapply simE_weaken; [apply simE_pop; eauto; try (apply Nat.leb_le; auto; fail); try (vsimp; lia)|vsimp; lia].
                ** apply sim_simE; auto.
          -- apply post_err; [|apply Hh']. split; senv.
             ++ eapply simE_keep; eauto. vsimp. lia.
             ++ apply sim_simE; auto.
        * destruct Hp as [[A B] Hh]. split.
          -- split; senv; [eapply simE_weaken; eauto; vsimp; lia | auto].
          -- unfold hid in *. cbn [fills fbs depth] in *. inversion Hh as [[H1 H2 H3]].
             rewrite H1, H2, H3. reflexivity.
      + (* Unpack *)
        inversion Hv; subst; clear Hv. destruct e as [sk un]. destruct S as [S1 S2]. destruct F as [F1 F2]. senv.
        destruct (stk s) as [|x rest] eqn:Es.
        * apply post_err; auto. split; senv; rewrite ?Es.
          -- eapply simE_keep; eauto. vsimp. lia.
          -- apply sim_simE; auto.
        * destruct (unpacksem count unbox x) as [vs|].
          -- destruct (Nat.eqb_spec (length vs) count); [|exact I].
             apply post_ok; auto. split; senv; auto.
             change rest with (skipn 1 (x :: rest)). apply sim_ao; auto.
          -- apply post_err; auto. split; senv.
             ++ change rest with (skipn 1 (x :: rest)). apply simE_ao_pop; auto.
             ++ apply sim_simE; auto.
      + (* PushUnder *)
        inversion Hv; subst; clear Hv. destruct e as [sk un]. destruct S as [S1 S2]. destruct F as [F1 F2]. senv.
        unfold need. destruct (n <=? length (stk s)) eqn:En; cbn [negb].
        * apply Nat.leb_le in En. apply post_ok; auto. split; senv.
          -- apply sim_pop; auto.
          -- apply sim_push'; auto. rewrite rev_length, firstn_length. lia.
        * apply post_err; auto. split; senv.
          -- eapply simE_keep; eauto; try (vsimp; lia).
          -- eapply simE_keep; eauto; try (vsimp; lia).
      + (* CopyToUnder *)
        inversion Hv; subst; clear Hv. destruct e as [sk un]. destruct S as [S1 S2]. destruct F as [F1 F2]. senv.
        unfold need. destruct (n <=? length (stk s)) eqn:En; cbn [negb].
        * apply Nat.leb_le in En. apply post_ok; auto. split; senv.
          -- apply sim_widen; auto; try (vsimp; lia).
          -- apply sim_push'; auto. rewrite rev_length, firstn_length. lia.
        * apply post_err; auto. split; senv.
          -- eapply simE_keep; eauto; try (vsimp; lia).
          -- eapply simE_keep; eauto; try (vsimp; lia).
      + (* PopUnder *)
        inversion Hv; subst; clear Hv. destruct e as [sk un]. destruct S as [S1 S2]. destruct F as [F1 F2]. senv.
        destruct (length (und s) <? n) eqn:En.
        * apply post_err; auto. split; senv.
          -- eapply simE_keep; eauto; try (vsimp; lia).
          -- eapply simE_keep; eauto; try (vsimp; lia).
        * apply Nat.ltb_ge in En. apply post_ok; auto. split; senv.
          -- apply sim_push'; auto. rewrite rev_length, firstn_length. lia.
          -- apply sim_pop; auto.
      + (* NoInline *) cbn [tree_ok] in Ht. eapply IH; eauto.
      + (* TrackCaller *) cbn [tree_ok] in Ht.
        pose proof (vnode_mono _ _ _ _ Hv) as [L1 L2].
        unfold need. destruct (sa s0 <=? length (stk s)) eqn:En; cbn [negb].
        * eapply IH; eauto.
        * apply post_err; auto. destruct S as [S1 S2]. split; eapply simE_keep; eauto.
      + (* CustomInv *)
        cbn [tree_ok] in Ht. destruct Ht as (Tn & On & Hcs).
        destruct has_normal.
        * rewrite (Hcs eq_refl) in Hv. inversion Hv; subst; clear Hv.
          set (s1 := {| stk := stk s; und := und s; fills := fills s; fbs := fbs s; depth := Datatypes.S (depth s) |}).
          pose proof (framed_post fuel nsig n e init uinit s1 s1
                        (framed_of_P _ _ _ IH HA Tn On) S F eq_refl) as Hp.
          destruct (exec fuel n s1) as [s2|c s2| |]; simpl in Hp |- *; auto.
          -- destruct Hp as [[A B] Hh].
             assert (Hh' : hid {| stk := stk s2; und := und s2; fills := fills s2;
                                  fbs := fbs s2; depth := Init.Nat.pred (depth s2) |} = hid s).
             { unfold hid in *. cbn [fills fbs depth] in *. inversion Hh as [[H1 H2 H3]].
               rewrite H1, H2, H3. reflexivity. }
             match goal with |- post _ _ _ _ (if ?c then _ else _) => destruct c end.
             ++ apply post_ok; auto. split; auto.
             ++ apply post_err; auto. split; cbn [stk und]; apply sim_simE; auto.
          -- destruct Hp as [[A B] Hh]. split; [split; auto|].
             unfold hid in *. cbn [fills fbs depth] in *. inversion Hh as [[H1 H2 H3]].
             rewrite H1, H2, H3. reflexivity.
        * destruct s0 as [cs|]; [|discriminate]. inversion Hv; subst; clear Hv.
          apply post_err; auto. destruct S as [S1 S2]. destruct e as [sk un].
          split; senv; eapply simE_keep; eauto; vsimp; lia.
      + (* Label *)
        inversion Hv; subst; clear Hv. destruct e as [sk un]. destruct S as [S1 S2]. destruct F as [F1 F2]. senv.
        unfold need. destruct (1 <=? length (stk s)) eqn:En.
        * apply Nat.leb_le in En. apply post_ok; auto. split; senv; auto.
          destruct (stk s) as [|x rest] eqn:Es; [simpl in En; lia|].
          change (x :: rest) with ([x] ++ skipn 1 (x :: rest)). apply sim_ao; auto.
        * apply post_err; auto. split; senv; [eapply simE_keep; eauto; vsimp; lia | apply sim_simE; auto].
      + (* RemoveLabel *)
        inversion Hv; subst; clear Hv. destruct e as [sk un]. destruct S as [S1 S2]. destruct F as [F1 F2]. senv.
        unfold need. destruct (1 <=? length (stk s)) eqn:En.
        * apply Nat.leb_le in En. apply post_ok; auto. split; senv; auto.
          destruct (stk s) as [|x rest] eqn:Es; [simpl in En; lia|].
          change (x :: rest) with ([x] ++ skipn 1 (x :: rest)). apply sim_ao; auto.
        * apply post_err; auto. split; senv; [eapply simE_keep; eauto; vsimp; lia | apply sim_simE; auto].
      + (* Format *)
        inversion Hv; subst; clear Hv. destruct e as [sk un]. destruct S as [S1 S2]. destruct F as [F1 F2]. senv.
        unfold need. destruct (parts - 1 <=? length (stk s)) eqn:En; cbn [negb].
        * apply post_ok; auto. split; senv; auto.
          change (fmtsem (firstn (parts - 1) (stk s)) :: skipn (parts - 1) (stk s))
            with ([fmtsem (firstn (parts - 1) (stk s))] ++ skipn (parts - 1) (stk s)).
          apply sim_ao; auto.
        * apply Nat.leb_gt in En. exfalso.
          pose proof (sim_enough (parts - 1) sk init (stk s) S1). vsimp. lia.
      + exact I.
      + exact I.
      + (* SetOutputComment *) inversion Hv; subst. apply post_ok; auto.
  Qed.
End Sound.
