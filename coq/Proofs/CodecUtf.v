(** C18 — UTF-8 and UTF-16: encoder and decoder are mutual inverses. *)
From Coq Require Import List ZArith Bool Lia.
From UV Require Import Model.Codec.
Import ListNotations.
Open Scope Z_scope.

Ltac Zify.zify_post_hook ::= Z.div_mod_to_equations.

(** decide every integer comparison of the goal with lia *)
Ltac zb :=
  repeat match goal with
  | |- context [?a <=? ?b] =>
      first [ replace (a <=? b) with true by (symmetry; apply Z.leb_le; lia)
            | replace (a <=? b) with false by (symmetry; apply Z.leb_gt; lia) ]
  | |- context [?a <? ?b] =>
      first [ replace (a <? b) with true by (symmetry; apply Z.ltb_lt; lia)
            | replace (a <? b) with false by (symmetry; apply Z.ltb_ge; lia) ]
  | |- context [?a =? ?b] =>
      first [ replace (a =? b) with true by (symmetry; apply Z.eqb_eq; lia)
            | replace (a =? b) with false by (symmetry; apply Z.eqb_neq; lia) ]
  end.

Ltac boolz :=
  repeat match goal with
  | H : _ && _ = true |- _ => apply andb_true_iff in H; destruct H
  | H : (_ <=? _) = true |- _ => apply Z.leb_le in H
  | H : (_ <=? _) = false |- _ => apply Z.leb_gt in H
  | H : (_ =? _) = true |- _ => apply Z.eqb_eq in H
  | H : (_ =? _) = false |- _ => apply Z.eqb_neq in H
  | H : (_ <? _) = true |- _ => apply Z.ltb_lt in H
  | H : (_ <? _) = false |- _ => apply Z.ltb_ge in H
  end.

Module Utf8P.
  Import Utf8.

  Lemma un_utf8_enc : forall c rest, valid_scalar c -> un_utf8 (enc c ++ rest) = consO c (un_utf8 rest).
  Proof.
    intros c rest Hv. unfold valid_scalar in Hv. unfold enc.
    destruct (Z.ltb_spec c 128); [|destruct (Z.ltb_spec c 2048); [|destruct (Z.ltb_spec c 65536)]];
      cbn [app un_utf8]; unfold rng, cont.
    - zb. cbn [andb]. reflexivity.
    - zb. cbn [andb]. f_equal. lia.
    - destruct (Z.eq_dec (224 + c / 4096) 224) as [E|E]; [|destruct (Z.eq_dec (224 + c / 4096) 237) as [E'|E']].
      + zb. cbn [andb]. f_equal. lia.
      + zb. cbn [andb]. f_equal. lia.
      + zb. cbn [andb]. f_equal. lia.
    - destruct (Z.eq_dec (240 + c / 262144) 240) as [E|E]; [|destruct (Z.eq_dec (240 + c / 262144) 244) as [E'|E']].
      + zb. cbn [andb]. f_equal. lia.
      + zb. cbn [andb]. f_equal. lia.
      + zb. cbn [andb]. f_equal. lia.
  Qed.

  (** °utf₈ (utf₈ s) = s for every string of Unicode scalar values *)
  Theorem un_utf8_utf8 : forall cps, Forall valid_scalar cps -> un_utf8 (utf8 cps) = Some cps.
  Proof.
    induction cps; intros Hf; [reflexivity|]. inversion Hf; subst.
    unfold utf8. cbn [flat_map]. rewrite un_utf8_enc by assumption.
    fold (utf8 cps). rewrite IHcps by assumption. reflexivity.
  Qed.

  Lemma consO_some : forall c r l, consO c r = Some l -> exists t, r = Some t /\ l = c :: t.
  Proof. intros c [t|] l H; cbn in H; [inversion H; eauto | discriminate]. Qed.

  (** utf₈ (°utf₈ b) = b for every byte string that decodes; the decoded code points are scalar values *)
  Lemma utf8_un_utf8_aux : forall n bs cps, (length bs <= n)%nat -> un_utf8 bs = Some cps ->
    utf8 cps = bs /\ Forall valid_scalar cps.
  Proof.
    induction n; intros bs cps Hl H.
    - destruct bs; [|cbn in Hl; lia]. cbn in H. inversion H. split; [reflexivity | constructor].
    - destruct bs as [|b0 t1]; [cbn in H; inversion H; split; [reflexivity | constructor]|].
      cbn [length] in Hl. cbn [un_utf8] in H.
      destruct (rng 0 127 b0) eqn:E0.
      { apply consO_some in H. destruct H as [t [Ht ->]].
        destruct (IHn t1 t ltac:(lia) Ht) as [IH1 IH2]. unfold rng in E0. boolz.
        split; [|constructor; [unfold valid_scalar; lia | assumption]].
        unfold utf8 in *. cbn [flat_map]. rewrite IH1. unfold enc. zb. reflexivity. }
      destruct t1 as [|b1 t2]; [discriminate|]. cbn [length] in Hl.
      destruct (rng 194 223 b0) eqn:E1.
      { destruct (cont b1) eqn:C1; [|discriminate].
        apply consO_some in H. destruct H as [t [Ht ->]].
        destruct (IHn t2 t ltac:(lia) Ht) as [IH1 IH2]. unfold rng, cont in *. boolz.
        split; [|constructor; [unfold valid_scalar; lia | assumption]].
        unfold utf8 in *. cbn [flat_map]. rewrite IH1. unfold enc. zb. cbn [app]. repeat f_equal; lia. }
      destruct t2 as [|b2 t3]; [discriminate|]. cbn [length] in Hl.
      destruct (rng 224 239 b0) eqn:E2.
      { match type of H with (if ?c then _ else _) = _ => destruct c eqn:C end; [|discriminate].
        apply consO_some in H. destruct H as [t [Ht ->]].
        destruct (IHn t3 t ltac:(lia) Ht) as [IH1 IH2]. unfold rng, cont in *.
        destruct (Z.eqb_spec b0 224); [|destruct (Z.eqb_spec b0 237)]; boolz.
        all: (split; [|constructor; [unfold valid_scalar; lia | assumption]]).
        all: unfold utf8 in *; cbn [flat_map]; rewrite IH1; unfold enc; zb; cbn [app]; repeat f_equal; lia. }
      destruct t3 as [|b3 t4]; [discriminate|]. cbn [length] in Hl.
      destruct (rng 240 244 b0) eqn:E3; [|discriminate].
      match type of H with (if ?c then _ else _) = _ => destruct c eqn:C end; [|discriminate].
      apply consO_some in H. destruct H as [t [Ht ->]].
      destruct (IHn t4 t ltac:(lia) Ht) as [IH1 IH2]. unfold rng, cont in *.
      destruct (Z.eqb_spec b0 240); [|destruct (Z.eqb_spec b0 244)]; boolz.
      all: (split; [|constructor; [unfold valid_scalar; lia | assumption]]).
      all: unfold utf8 in *; cbn [flat_map]; rewrite IH1; unfold enc; zb; cbn [app]; repeat f_equal; lia.
  Qed.

  Theorem utf8_un_utf8 : forall bs cps, un_utf8 bs = Some cps -> utf8 cps = bs /\ Forall valid_scalar cps.
  Proof. intros bs cps H. apply (utf8_un_utf8_aux (length bs)); [lia | assumption]. Qed.
End Utf8P.

Module Utf16P.
  Import Utf16.

  Lemma un_utf16_enc : forall c rest, Utf8.valid_scalar c ->
    un_utf16 (enc c ++ rest) = Utf8.consO c (un_utf16 rest).
  Proof.
    intros c rest Hv. unfold Utf8.valid_scalar in Hv. unfold enc.
    destruct (Z.ltb_spec c 65536); cbn [app un_utf16]; unfold Utf8.rng.
    - destruct Hv; zb; cbn [andb]; reflexivity.
    - zb. cbn [andb]. f_equal. lia.
  Qed.

  (** °utf₁₆ (utf₁₆ s) = s *)
  Theorem un_utf16_utf16 : forall cps, Forall Utf8.valid_scalar cps -> un_utf16 (utf16 cps) = Some cps.
  Proof.
    induction cps; intros Hf; [reflexivity|]. inversion Hf; subst.
    unfold utf16. cbn [flat_map]. rewrite un_utf16_enc by assumption.
    fold (utf16 cps). rewrite IHcps by assumption. reflexivity.
  Qed.
End Utf16P.
