(** C13 — basic facts about the model; records of the deadlock of the admission rule before
    the fix d34a231 (model variant rep = false) *)
From Coq Require Import List NArith Bool Arith Lia.
From UV Require Import Model.Pool.
Import ListNotations.

Lemma step_oob st t : length (thr st) <= t -> step st t = None.
Proof.
  intros H. unfold step. destruct (nth_error (thr st) t) eqn:E; auto.
  apply nth_error_Some_lt in E || (assert (t < length (thr st)) by (apply nth_error_Some; congruence)); lia.
Qed.

Lemma stuckb_sound st : stuckb st = true -> forall t, step st t = None.
Proof.
  intros H t. destruct (lt_dec t (length (thr st))) as [L|L].
  - unfold stuckb in H. rewrite forallb_forall in H.
    specialize (H t). unfold tids in H. rewrite in_seq in H.
    assert (negb (enabledb st t) = true) as E by (apply H; lia).
    unfold enabledb in E. destruct (step st t); simpl in E; congruence.
  - apply step_oob. lia.
Qed.

Lemma all_stuck_sound n : forall st, all_stuck n st = true -> forall sched, final (run sched st) = false.
Proof.
  induction n as [|n IH]; intros st H.
  - simpl in H. rewrite andb_false_r in H. discriminate.
  - simpl in H. apply andb_true_iff in H. destruct H as [F A].
    apply negb_true_iff in F. rewrite forallb_forall in A.
    intros sched. induction sched as [|t r IHr]; simpl; auto.
    destruct (step st t) as [st'|] eqn:E; auto.
    apply IH. specialize (A t).
    destruct (lt_dec t (length (thr st))) as [L|L].
    + unfold tids in A. rewrite in_seq in A. rewrite E in A. apply A. lia.
    + rewrite step_oob in E by lia. discriminate.
Qed.

(** the measured witness: [wait pool(wait pool(+1)) 5] with one worker *)
Definition nested2 : code :=
  [Push 5%N; Fork true 1 [Fork true 1 [Push 1%N; AddAll]; Wait 1]; Wait 1].

Theorem pool_deadlock_refuted_pre :
  exists (prog : code) (sched : list nat),
    pure prog = true /\ fresh prog = true /\ pdepth prog = 2 /\ seqev prog [] [] = Some [6%N] /\
    let st := run sched (init 1 false prog) in
    final st = false /\ forall t, step st t = None.
Proof.
  exists nested2, [0; 0; 0; 1; 1].
  repeat split; try (vm_compute; reflexivity).
  apply stuckb_sound. vm_compute. reflexivity.
Qed.

(** with one worker no schedule at all finishes that program *)
Theorem pool_deadlock_every_schedule_pre :
  forall sched, final (run sched (init 1 false nested2)) = false.
Proof. apply (all_stuck_sound 30). vm_compute. reflexivity. Qed.

(** with n workers, n tasks that each wait for a nested pool task can block each other *)
Definition nested_wide (n : nat) : code :=
  repeat (Fork true 0 [Fork true 0 [Push 1%N]; Wait 1]) n ++ [WaitAll [] (List.seq 1 n) []].

Theorem pool_deadlock_refuted_n_pre :
  forall n, In n [1; 2; 3; 4; 8] ->
  exists sched, pdepth (nested_wide n) = 2 /\
    (exists r, seqev (nested_wide n) [] [] = Some r) /\
    let st := run sched (init n false (nested_wide n)) in
    final st = false /\ forall t, step st t = None.
Proof.
  intros n H. simpl in H.
  repeat (destruct H as [<-|H];
    [ match goal with |- exists _, pdepth (nested_wide ?k) = _ /\ _ =>
        exists (snd (run_strat 2000 pick_low (init k false (nested_wide k)) [])) end;
      split; [vm_compute; reflexivity|]; split; [eexists; vm_compute; reflexivity|];
      split; [vm_compute; reflexivity | apply stuckb_sound; vm_compute; reflexivity] | ]).
  contradiction.
Qed.
