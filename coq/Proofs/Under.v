(** C04, first half: the lens laws of the undo primitives (reference semantics). *)
From Coq Require Import List ZArith NArith Bool Arith Lia.
From UV Require Import Model.Prims Proofs.Prims Model.Invert Proofs.Invert Model.Under.
Import ListNotations.

(** get-put: putting back what was selected changes nothing (`⍜F∘ x = x`);
    put-get: the selected part of the result is exactly what was put *)
Definition well_behaved (l : lens) : Prop :=
  (forall x v, wf x -> lget l x = Ok v -> lput l x v = Ok x /\ wf v) /\
  (forall x v x', wf x -> lput l x v = Ok x' -> lget l x' = Ok v /\ wf x').

Lemma same_cell_spec t s v : same_cell t s v = true -> aty v = t /\ ash v = s /\ length (adata v) = prodn s.
Proof.
  unfold same_cell, wfb. intros H. apply andb_prop in H as [H W]. apply andb_prop in H as [T S].
  apply ety_eqb_eq in T. apply list_eqb_nat_eq in S. apply Nat.eqb_eq in W. subst. auto.
Qed.
Lemma same_cell_intro t s d : length d = prodn s -> same_cell t s (Arr t s d) = true.
Proof.
  intros H. unfold same_cell, wfb; cbn. rewrite ety_eqb_refl, list_eqb_refl_nat. cbn. apply Nat.eqb_eq; auto.
Qed.
Lemma firstn_exact {A} (v r : list A) a : length v = a -> firstn a (v ++ r) = v.
Proof. intros <-. rewrite firstn_app, Nat.sub_diag, firstn_all. cbn. apply app_nil_r. Qed.
Lemma skipn_exact {A} (v r : list A) a : length v = a -> skipn a (v ++ r) = r.
Proof. intros <-. rewrite skipn_app, Nat.sub_diag, skipn_all. reflexivity. Qed.
Lemma arr_eta v : Arr (aty v) (ash v) (adata v) = v.
Proof. destruct v; reflexivity. Qed.

Theorem first_well_behaved : well_behaved l_first.
Proof.
  split.
  - intros [t sh d] v Hw H. unfold wf in *. cbn [l_first lget lput aty ash adata] in *.
    destruct sh as [|[|n] s]; try discriminate. inversion H; subst; clear H. cbn [aty ash adata].
    cbn [prodn fold_right] in Hw. fold (prodn s) in Hw.
    assert (L : length (firstn (prodn s) d) = prodn s) by (rewrite firstn_length; lia).
    rewrite same_cell_intro by auto. rewrite firstn_skipn. split; auto.
  - intros [t sh d] v x' Hw H. unfold wf in *. cbn [l_first lget lput aty ash adata] in *.
    destruct sh as [|[|n] s]; try discriminate. destruct (same_cell t s v) eqn:C; [|discriminate].
    apply same_cell_spec in C as (T & S & L). inversion H; subst; clear H. cbn [aty ash adata].
    cbn [prodn fold_right] in Hw. fold (prodn (ash v)) in Hw.
    rewrite firstn_exact by auto. rewrite arr_eta. split; auto.
    cbn [prodn fold_right]. fold (prodn (ash v)). rewrite app_length, skipn_length. lia.
Qed.

(** frame: `⍜⊢` leaves every row but the first untouched *)
Theorem first_frame x v x' : lput l_first x v = Ok x' ->
  skipn (prodn (tl (ash x))) (adata x') = skipn (prodn (tl (ash x))) (adata x) /\ ash x' = ash x /\ aty x' = aty x.
Proof.
  destruct x as [t sh d]. cbn [l_first lput aty ash adata]. destruct sh as [|[|n] s]; try discriminate.
  destruct (same_cell t s v) eqn:C; [|discriminate]. apply same_cell_spec in C as (T & S & L).
  intros H; inversion H; subst; clear H. cbn [aty ash adata tl]. rewrite skipn_exact by auto. auto.
Qed.

Theorem take_well_behaved k : well_behaved (l_take k).
Proof.
  split.
  - intros [t sh d] v Hw H. unfold wf in *. cbn [l_take lget lput aty ash adata] in *.
    destruct sh as [|n s]; try discriminate. destruct (Nat.leb k n) eqn:K; [|discriminate].
    apply Nat.leb_le in K. inversion H; subst; clear H. cbn [aty ash adata andb].
    cbn [prodn fold_right] in Hw. fold (prodn s) in Hw.
    assert (L : length (firstn (k * prodn s) d) = prodn (k :: s)).
    { rewrite firstn_length. cbn [prodn fold_right]. fold (prodn s). nia. }
    rewrite same_cell_intro by auto. rewrite firstn_skipn. split; auto.
  - intros [t sh d] v x' Hw H. unfold wf in *. cbn [l_take lget lput aty ash adata] in *.
    destruct sh as [|n s]; try discriminate. destruct (Nat.leb k n) eqn:K; [|discriminate].
    cbn [andb] in H. destruct (same_cell t (k :: s) v) eqn:C; [|discriminate].
    apply Nat.leb_le in K. apply same_cell_spec in C as (T & S & L). inversion H; subst; clear H.
    cbn [aty ash adata]. rewrite K'. 2: exact (proj2 (Nat.leb_le k n) K).
    cbn [prodn fold_right] in *. fold (prodn s) in *.
    rewrite firstn_exact by auto. rewrite <- S. rewrite arr_eta. split; auto.
    rewrite app_length, skipn_length. nia.
Qed.
