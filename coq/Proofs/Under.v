(** C04, first half: the lens laws of the undo primitives (reference semantics). *)
From Coq Require Import List ZArith NArith Bool Arith Lia.
From UV Require Import Model.Prims Proofs.Prims Model.Invert Proofs.Invert Model.Under.
Import ListNotations.

(** get-put: putting back what was selected changes nothing (`⍜F∘ x = x`);
    put-get: the selected part of the result is exactly what was put *)
Definition well_behaved (l : lens) : Prop :=
  (forall x v, wf x -> lget l x = Ok v -> lput l x v = Ok x /\ wf v) /\
  (forall x v x', wf x -> lput l x v = Ok x' -> lget l x' = Ok v /\ wf x').

Lemma same_cell_spec t s v : same_cell t s v = true -> aty v = t /\ ash v = s /\ length (adata v) = prodn s.
Proof.
  unfold same_cell, wfb. intros H. apply andb_prop in H as [H W]. apply andb_prop in H as [T S].
  apply ety_eqb_eq in T. apply list_eqb_nat_eq in S. apply Nat.eqb_eq in W. subst. auto.
Qed.
Lemma same_cell_intro t s d : length d = prodn s -> same_cell t s (Arr t s d) = true.
Proof.
  intros H. unfold same_cell, wfb; cbn. rewrite ety_eqb_refl, list_eqb_refl_nat. cbn. apply Nat.eqb_eq; auto.
Qed.
Lemma firstn_exact {A} (v r : list A) a : length v = a -> firstn a (v ++ r) = v.
Proof. intros <-. rewrite firstn_app, Nat.sub_diag, firstn_all. cbn. apply app_nil_r. Qed.
Lemma skipn_exact {A} (v r : list A) a : length v = a -> skipn a (v ++ r) = r.
Proof. intros <-. rewrite skipn_app, Nat.sub_diag, skipn_all. reflexivity. Qed.
Lemma arr_eta v : Arr (aty v) (ash v) (adata v) = v.
Proof. destruct v; reflexivity. Qed.

Theorem first_well_behaved : well_behaved l_first.
Proof.
  split.
  - intros [t sh d] v Hw H. unfold wf in *. cbn [l_first lget lput aty ash adata] in *.
    destruct sh as [|[|n] s]; try discriminate. inversion H; subst; clear H. cbn [aty ash adata].
    cbn [prodn fold_right] in Hw. fold (prodn s) in Hw.
    assert (L : length (firstn (prodn s) d) = prodn s) by (rewrite firstn_length; lia).
    rewrite same_cell_intro by auto. rewrite firstn_skipn. split; auto.
  - intros [t sh d] v x' Hw H. unfold wf in *. cbn [l_first lget lput aty ash adata] in *.
    destruct sh as [|[|n] s]; try discriminate. destruct (same_cell t s v) eqn:C; [|discriminate].
    apply same_cell_spec in C as (T & S & L). inversion H; subst; clear H. cbn [aty ash adata].
    cbn [prodn fold_right] in Hw. fold (prodn (ash v)) in Hw.
    rewrite firstn_exact by auto. rewrite arr_eta. split; auto.
    cbn [prodn fold_right]. fold (prodn (ash v)). rewrite app_length, skipn_length. lia.
Qed.

(** frame: `⍜⊢` leaves every row but the first untouched *)
Theorem first_frame x v x' : lput l_first x v = Ok x' ->
  skipn (prodn (tl (ash x))) (adata x') = skipn (prodn (tl (ash x))) (adata x) /\ ash x' = ash x /\ aty x' = aty x.
Proof.
  destruct x as [t sh d]. cbn [l_first lput aty ash adata]. destruct sh as [|[|n] s]; try discriminate.
  destruct (same_cell t s v) eqn:C; [|discriminate]. apply same_cell_spec in C as (T & S & L).
  intros H; inversion H; subst; clear H. cbn [aty ash adata tl]. rewrite skipn_exact by auto. auto.
Qed.

Theorem take_well_behaved k : well_behaved (l_take k).
Proof.
  split.
  - intros [t sh d] v Hw H. unfold wf in *. cbn [l_take lget lput aty ash adata] in *.
    destruct sh as [|n s]; try discriminate. destruct (Nat.leb k n) eqn:K; [|discriminate].
    apply Nat.leb_le in K. inversion H; subst; clear H. cbn [aty ash adata andb].
    cbn [prodn fold_right] in Hw. fold (prodn s) in Hw.
    assert (L : length (firstn (k * prodn s) d) = prodn (k :: s)).
    { rewrite firstn_length. cbn [prodn fold_right]. fold (prodn s). nia. }
    rewrite same_cell_intro by auto. rewrite firstn_skipn. split; auto.
  - intros [t sh d] v x' Hw H. unfold wf in *. cbn [l_take lget lput aty ash adata] in *.
    destruct sh as [|n s]; try discriminate. destruct (Nat.leb k n) eqn:K; [|discriminate].
    cbn [andb] in H. destruct (same_cell t (k :: s) v) eqn:C; [|discriminate].
    pose proof K as Kb. apply Nat.leb_le in K. apply same_cell_spec in C as (T & S & L). inversion H; subst; clear H.
    cbn [aty ash adata]. rewrite Kb.
    cbn [prodn fold_right] in *. fold (prodn s) in *.
    rewrite firstn_exact by auto. rewrite <- S. rewrite arr_eta. split; auto.
    rewrite app_length, skipn_length. nia.
Qed.

Theorem drop_well_behaved k : well_behaved (l_drop k).
Proof.
  split.
  - intros [t sh d] v Hw H. unfold wf in *. cbn [l_drop lget lput aty ash adata] in *.
    destruct sh as [|n s]; try discriminate. destruct (Nat.leb k n) eqn:K; [|discriminate].
    apply Nat.leb_le in K. inversion H; subst; clear H. cbn [aty ash adata andb].
    cbn [prodn fold_right] in Hw. fold (prodn s) in Hw.
    assert (L : length (skipn (k * prodn s) d) = prodn ((n - k)%nat :: s)).
    { rewrite skipn_length. cbn [prodn fold_right]. fold (prodn s). nia. }
    rewrite same_cell_intro by auto. rewrite firstn_skipn. split; auto.
  - intros [t sh d] v x' Hw H. unfold wf in *. cbn [l_drop lget lput aty ash adata] in *.
    destruct sh as [|n s]; try discriminate. destruct (Nat.leb k n) eqn:K; [|discriminate].
    cbn [andb] in H. destruct (same_cell t ((n - k)%nat :: s) v) eqn:C; [|discriminate].
    pose proof K as Kb. apply Nat.leb_le in K. apply same_cell_spec in C as (T & S & L). inversion H; subst; clear H.
    cbn [aty ash adata]. rewrite Kb.
    cbn [prodn fold_right] in *. fold (prodn s) in *.
    assert (F : length (firstn (k * prodn s) d) = k * prodn s) by (rewrite firstn_length; nia).
    rewrite skipn_exact by auto. rewrite <- S. rewrite arr_eta. split; auto.
    rewrite app_length, F. nia.
Qed.

Theorem reverse_well_behaved : well_behaved l_reverse.
Proof.
  split.
  - intros x v Hw H. cbn [l_reverse lget lput] in *. inversion H; subst; clear H.
    pose proof (wf_reverse x Hw) as W. unfold same_cell.
    rewrite shape_reverse. replace (aty (p_reverse x)) with (aty x) by (destruct x as [t [|n s] d]; reflexivity).
    rewrite ety_eqb_refl, list_eqb_refl_nat. cbn [andb]. unfold wfb. unfold wf in W. rewrite W, Nat.eqb_refl.
    rewrite reverse_involutive by auto. split; auto.
  - intros x v x' Hw H. cbn [l_reverse lget lput] in *. destruct (same_cell (aty x) (ash x) v) eqn:C; [|discriminate].
    apply same_cell_spec in C as (T & S & L). inversion H; subst; clear H.
    assert (Wv : wf v) by (unfold wf; congruence).
    rewrite reverse_involutive by auto. split; auto using wf_reverse.
Qed.

Theorem fix_well_behaved : well_behaved l_fix.
Proof.
  split.
  - intros [t sh d] v Hw H. cbn [l_fix lget lput aty ash adata] in *. inversion H; subst; clear H.
    unfold wf, p_fix in *; cbn [aty ash adata] in *. rewrite same_cell_intro by (cbn [prodn fold_right]; fold (prodn sh); lia).
    split; [reflexivity|]. cbn [prodn fold_right]. fold (prodn sh). lia.
  - intros [t sh d] v x' Hw H. cbn [l_fix lget lput aty ash adata] in *.
    destruct (same_cell t (1%nat :: sh) v) eqn:C; [|discriminate]. apply same_cell_spec in C as (T & S & L).
    destruct v as [tv sv dv]. cbn [aty ash adata] in *. subst. unfold unfix in H; cbn in H. inversion H; subst.
    split; [reflexivity|]. unfold wf; cbn [aty ash adata]. cbn [prodn fold_right] in L. fold (prodn sh) in L. lia.
Qed.

Theorem deshape_well_behaved : well_behaved l_deshape.
Proof.
  split.
  - intros [t sh d] v Hw H. cbn [l_deshape lget lput aty ash adata] in *. inversion H; subst; clear H.
    unfold wf, p_deshape in *; cbn [aty ash adata] in *.
    rewrite same_cell_intro by (cbn [prodn fold_right]; lia). split; [reflexivity|]. cbn [prodn fold_right]. lia.
  - intros [t sh d] v x' Hw H. cbn [l_deshape lget lput aty ash adata] in *.
    destruct (same_cell t [prodn sh] v) eqn:C; [|discriminate]. apply same_cell_spec in C as (T & S & L).
    inversion H; subst; clear H. unfold p_deshape; cbn [aty ash adata]. rewrite <- S. rewrite arr_eta.
    split; [reflexivity|]. unfold wf; cbn [aty ash adata]. cbn [prodn fold_right] in L. fold (prodn sh) in L. lia.
Qed.

Lemma rot_by_shape k x v : rot_by k x = Ok v -> aty v = aty x /\ ash v = ash x.
Proof.
  destruct x as [t sh d]. unfold rot_by; cbn [aty ash adata]. destruct sh as [|n s]; [discriminate|].
  destruct (Nat.eqb n 0); intros H; inversion H; subst; auto.
Qed.
Lemma rot_by_wf k x v : wf x -> rot_by k x = Ok v -> wf v.
Proof.
  destruct x as [t sh d]. unfold wf, rot_by; cbn [aty ash adata]. destruct sh as [|n s]; [discriminate|].
  destruct (Nat.eqb n 0); intros Hw H; inversion H; subst; auto. cbn [ash adata].
  cbn [prodn fold_right] in *. fold (prodn s) in *.
  rewrite (concat_length_const (prodn s)).
  - rewrite rotl_length, chunk_length. reflexivity.
  - apply Forall_rotl. apply chunk_rows_len. lia.
Qed.

Theorem rotate_well_behaved k : well_behaved (l_rotate k).
Proof.
  split.
  - intros x v Hw H. cbn [l_rotate lget lput] in *.
    destruct (rot_by_shape _ _ _ H) as [T S]. pose proof (rot_by_wf _ _ _ Hw H) as Wv.
    unfold same_cell. rewrite T, S, ety_eqb_refl, list_eqb_refl_nat. cbn [andb].
    unfold wfb. unfold wf in Wv. rewrite Wv, Nat.eqb_refl. split; auto. eapply rot_by_inv; eauto.
  - intros x v x' Hw H. cbn [l_rotate lget lput] in *. destruct (same_cell (aty x) (ash x) v) eqn:C; [|discriminate].
    apply same_cell_spec in C as (T & S & L). assert (Wv : wf v) by (unfold wf; congruence).
    split; [|eapply rot_by_wf; eauto].
    pose proof (rot_by_inv (- k) v x' Wv H) as R. rewrite Z.opp_involutive in R. exact R.
Qed.

(** lens composition: the laws lift through sequencing (and hence through dip, which only moves
    the focus to another stack slot) *)
Theorem seq_well_behaved l1 l2 : well_behaved l1 -> well_behaved l2 -> well_behaved (l_seq l1 l2).
Proof.
  intros [G1 P1] [G2 P2]. split.
  - intros x v Hw H. cbn [l_seq lget lput] in *. apply bind_ok in H as (y & Hy & Hv).
    destruct (G1 _ _ Hw Hy) as [E1 Wy]. destruct (G2 _ _ Wy Hv) as [E2 Wv].
    rewrite Hy. cbn [bind]. rewrite E2. cbn [bind]. auto.
  - intros x v x' Hw H. cbn [l_seq lget lput] in *. apply bind_ok in H as (y & Hy & H).
    apply bind_ok in H as (y' & Hy' & H).
    destruct (G1 _ _ Hw Hy) as [_ Wy]. destruct (P2 _ _ _ Wy Hy') as [E2 Wy'].
    destruct (P1 _ _ _ Hw H) as [E1 Wx']. rewrite E1. cbn [bind]. auto.
Qed.

(** `⍜F∘ x = x` *)
Theorem under_identity l x v : well_behaved l -> wf x -> lget l x = Ok v -> under_run l Ok x = Ok x.
Proof.
  intros [G _] Hw H. unfold under_run. rewrite H. cbn [bind]. apply (G _ _ Hw H).
Qed.

(** `⍜F G x`: the part F selects from the result is exactly G of the part F selected from x *)
Theorem under_put_get l g x x' : well_behaved l -> wf x -> under_run l g x = Ok x' ->
  exists v w, lget l x = Ok v /\ g v = Ok w /\ lget l x' = Ok w /\ wf x'.
Proof.
  intros [_ P] Hw H. unfold under_run in H. apply bind_ok in H as (v & Hv & H). apply bind_ok in H as (w & Hg & H).
  destruct (P _ _ _ Hw H) as [E W]. eauto 8.
Qed.
