(** C18 — binary: the width selection and the per-element casts round-trip. *)
From Coq Require Import List ZArith Bool Lia.
From UV Require Import Model.Codec Proofs.CodecDigits.
Import ListNotations.
Open Scope Z_scope.

Module BinP.
  Import Bin.

  (** laws of the numeric casts (NumLaws-style premises; checked on f64 by the tie's cast cases):
      an integral float other than negative zero, converted to an integer (saturating at the top of
      u64 / i64, where the float 2^64 resp. 2^63 is the rounding of the saturated value) and back,
      is the SAME bit pattern *)
  Record num_laws (ops : numops) : Prop := {
    L_u : forall n z, to_int ops n = Some z -> negzero ops n = false -> 0 <= z <= 2 ^ 64 ->
          of_int ops (Z.min z (2 ^ 64 - 1)) = n;
    L_i : forall n z, to_int ops n = Some z -> negzero ops n = false -> - 2 ^ 63 <= z <= 2 ^ 63 ->
          of_int ops (Z.min z (2 ^ 63 - 1)) = n;
    L_nn : forall n z, nonneg ops n = true -> to_int ops n = Some z -> 0 <= z;
    L_f32 : forall n, 0 <= to_f32 ops n < 2 ^ 32
  }.

  (** an instance: a "float" is a natural below 2^53 (integral) or any other pattern (not integral) *)
  Definition zops : numops :=
    {| to_int := fun p => if (0 <=? p) && (p <? 2 ^ 53) then Some p else None;
       nonneg := fun _ => true; of_int := fun z => z;
       to_f32 := fun p => p mod 2 ^ 32; of_f32 := fun u => u; negzero := fun _ => false |}.
  Lemma zops_laws : num_laws zops.
  Proof.
    assert (P : 2 ^ 53 < 2 ^ 63 - 1 /\ 2 ^ 53 < 2 ^ 64 - 1) by (split; reflexivity).
    constructor; cbn [to_int nonneg of_int to_f32 negzero zops].
    - intros n z H _ Hz. destruct (Z.leb_spec 0 n); destruct (Z.ltb_spec n (2 ^ 53)); inversion H; subst. lia.
    - intros n z H _ Hz. destruct (Z.leb_spec 0 n); destruct (Z.ltb_spec n (2 ^ 53)); inversion H; subst. lia.
    - intros n z _ H. destruct (Z.leb_spec 0 n); destruct (Z.ltb_spec n (2 ^ 53)); inversion H; subst. assumption.
    - intros n. apply Z.mod_pos_bound. reflexivity.
  Qed.
  Theorem num_laws_inhabited : exists ops, num_laws ops.
  Proof. exists zops. exact zops_laws. Qed.

  Section Elem.
    Variable ops : numops.
    Hypothesis laws : num_laws ops.

    Lemma ints_of_in : forall excl d zs n, ints_of ops excl d = Some zs -> In n d ->
      exists z, to_int ops n = Some z /\ In z zs /\ (excl = true -> negzero ops n = false).
    Proof.
      induction d; intros zs n H Hin; [destruct Hin|].
      cbn [ints_of fold_right] in H. fold (ints_of ops excl d) in H.
      destruct (excl && negzero ops a) eqn:Ex; [discriminate|].
      destruct (to_int ops a) eqn:Ea; [|discriminate].
      destruct (ints_of ops excl d) eqn:Ed; [|discriminate]. inversion H; subst.
      destruct Hin as [->|Hin].
      - exists z. split; [assumption|]. split; [left; reflexivity|].
        intros ->. cbn [andb] in Ex. assumption.
      - destruct (IHd l n eq_refl Hin) as [z' (? & ? & ?)]. exists z'. split; [assumption|]. split; [right; assumption | assumption].
    Qed.

    Lemma fold_max_ge : forall zs z, In z zs -> z <= fold_right Z.max 0 zs.
    Proof. induction zs; intros z H; [destruct H|]. cbn [fold_right]. destruct H as [->|H]; [lia | specialize (IHzs _ H); lia]. Qed.
    Lemma fold_min_le : forall zs z, In z zs -> fold_right Z.min 0 zs <= z.
    Proof. induction zs; intros z H; [destruct H|]. cbn [fold_right]. destruct H as [->|H]; [lia | specialize (IHzs _ H); lia]. Qed.

    Lemma le_horner : forall w x, 0 <= x < 2 ^ (8 * Z.of_nat w) -> horner 256 (le w x) = x.
    Proof. intros. unfold le. apply horner_digits_small; [lia|]. rewrite BytesP.pow256. assumption. Qed.

    Lemma signed_of_mod : forall w z, (0 < w)%nat ->
      - 2 ^ (8 * Z.of_nat w - 1) <= z < 2 ^ (8 * Z.of_nat w - 1) ->
      signed_of w (z mod 2 ^ (8 * Z.of_nat w)) = z.
    Proof.
      intros w z Hw Hz. unfold signed_of.
      assert (Hh : 2 ^ (8 * Z.of_nat w) = 2 * 2 ^ (8 * Z.of_nat w - 1)).
      { rewrite <- Z.pow_succ_r by lia. f_equal. lia. }
      assert (Hp : 0 < 2 ^ (8 * Z.of_nat w - 1)) by (apply Z.pow_pos_nonneg; lia).
      destruct (Z.lt_ge_cases z 0) as [Hn|Hn].
      - replace (z mod 2 ^ (8 * Z.of_nat w)) with (z + 2 ^ (8 * Z.of_nat w)).
        + destruct (Z.leb_spec (2 ^ (8 * Z.of_nat w - 1)) (z + 2 ^ (8 * Z.of_nat w))); lia.
        + rewrite <- (Z.mod_add z 1) by lia. rewrite Z.mod_small; lia.
      - rewrite Z.mod_small by lia.
        destruct (Z.leb_spec (2 ^ (8 * Z.of_nat w - 1)) z); lia.
    Qed.

    Definition wfnum (n : Z) : Prop := 0 <= n < 2 ^ 64.

    Lemma write_num_length : forall t n, length (write_num ops t n) = width_of t.
    Proof. intros t n. destruct t; cbn [write_num width_of]; unfold le; apply digits_length. Qed.

    (** the element written with the chosen type reads back as the SAME bit pattern
        (as the byte that denotes it when the array is stored as u8) *)
    Theorem elem_roundtrip : forall d n, Forall wfnum d -> In n d ->
      let t := choose ops d in
      match t with
      | U8 => to_int ops n = Some (read_num ops t (write_num ops t n)) /\
              of_int ops (read_num ops t (write_num ops t n)) = n
      | _ => read_num ops t (write_num ops t n) = n
      end.
    Proof.
      intros d n Hwf Hin.
      assert (Hn : wfnum n) by (rewrite Forall_forall in Hwf; apply Hwf; assumption).
      unfold wfnum in Hn.
      assert (P8 : 2 ^ (8 * Z.of_nat 1) = 256) by reflexivity.
      assert (P16 : 2 ^ (8 * Z.of_nat 2) = 65536) by reflexivity.
      assert (P32 : 2 ^ (8 * Z.of_nat 4) = 4294967296) by reflexivity.
      assert (P64 : 2 ^ (8 * Z.of_nat 8) = 18446744073709551616) by reflexivity.
      assert (Q64 : 2 ^ 64 = 18446744073709551616) by reflexivity.
      assert (Q63 : 2 ^ 63 = 9223372036854775808) by reflexivity.
      assert (Q32 : 2 ^ 32 = 4294967296) by reflexivity.
      assert (Q31 : 2 ^ 31 = 2147483648) by reflexivity.
      assert (Q24 : 2 ^ 24 = 16777216) by reflexivity.
      unfold choose, choose_gen.
      destruct (ints_of ops true d) as [zs|] eqn:Ei.
      - destruct (ints_of_in true d zs n Ei Hin) as [z (Hz & Hzin & Hnz)]. specialize (Hnz eq_refl).
        pose proof (fold_max_ge zs z Hzin) as Hmx. pose proof (fold_min_le zs z Hzin) as Hmn.
        set (mx := fold_right Z.max 0 zs) in *. set (mn := fold_right Z.min 0 zs) in *.
        destruct (forallb (nonneg ops) d) eqn:Enn.
        + assert (Hz0 : 0 <= z).
          { rewrite forallb_forall in Enn. apply (L_nn ops laws n z); [apply Enn; assumption | assumption]. }
          destruct (Z.leb_spec mx 255); [|destruct (Z.leb_spec mx 65535); [|destruct (Z.leb_spec mx 4294967295);
            [|destruct (Z.leb_spec mx (2 ^ 64)); [|destruct (Z.leb_spec mx (2 ^ 24))]]]];
            cbv zeta; cbn [write_num read_num]; unfold zint, sat; rewrite ?Hz.
          * rewrite le_horner by (rewrite P8; lia). split; [f_equal; lia|].
            replace (Z.max 0 (Z.min 255 z)) with (Z.min z (2 ^ 64 - 1)) by lia. apply (L_u ops laws); [assumption | assumption | lia].
          * rewrite le_horner by (rewrite P16; lia).
            replace (Z.max 0 (Z.min 65535 z)) with (Z.min z (2 ^ 64 - 1)) by lia. apply (L_u ops laws); [assumption | assumption | lia].
          * rewrite le_horner by (rewrite P32; lia).
            replace (Z.max 0 (Z.min 4294967295 z)) with (Z.min z (2 ^ 64 - 1)) by lia. apply (L_u ops laws); [assumption | assumption | lia].
          * rewrite le_horner by (rewrite P64; lia).
            replace (Z.max 0 (Z.min (2 ^ 64 - 1) z)) with (Z.min z (2 ^ 64 - 1)) by lia. apply (L_u ops laws); [assumption | assumption | lia].
          * lia.
          * apply le_horner. rewrite P64. lia.
        + destruct ((-128 <=? mn) && (mx <=? 127)) eqn:E1;
            [|destruct ((-32768 <=? mn) && (mx <=? 32767)) eqn:E2;
              [|destruct ((- 2 ^ 31 <=? mn) && (mx <=? 2 ^ 31 - 1)) eqn:E3;
                [|destruct ((- 2 ^ 63 <=? mn) && (mx <=? 2 ^ 63)) eqn:E4;
                  [|destruct ((- 2 ^ 24 <=? mn) && (mx <=? 2 ^ 24)) eqn:E5]]]];
            cbv zeta; cbn [write_num read_num]; unfold zint, sat; rewrite ?Hz.
          * apply andb_true_iff in E1. destruct E1 as [A B]. apply Z.leb_le in A, B.
            rewrite le_horner by (rewrite P8; apply Z.mod_pos_bound; reflexivity).
            replace (Z.max (-128) (Z.min 127 z)) with z by lia.
            change (2 ^ 8) with (2 ^ (8 * Z.of_nat 1)). rewrite signed_of_mod by (change (2 ^ (8 * Z.of_nat 1 - 1)) with 128; lia).
            replace z with (Z.min z (2 ^ 63 - 1)) at 1 by lia. apply (L_i ops laws); [assumption | assumption | lia].
          * apply andb_true_iff in E2. destruct E2 as [A B]. apply Z.leb_le in A, B.
            rewrite le_horner by (rewrite P16; apply Z.mod_pos_bound; reflexivity).
            replace (Z.max (-32768) (Z.min 32767 z)) with z by lia.
            change (2 ^ 16) with (2 ^ (8 * Z.of_nat 2)). rewrite signed_of_mod by (change (2 ^ (8 * Z.of_nat 2 - 1)) with 32768; lia).
            replace z with (Z.min z (2 ^ 63 - 1)) at 1 by lia. apply (L_i ops laws); [assumption | assumption | lia].
          * apply andb_true_iff in E3. destruct E3 as [A B]. apply Z.leb_le in A, B.
            rewrite le_horner by (rewrite P32; apply Z.mod_pos_bound; reflexivity).
            replace (Z.max (- 2 ^ 31) (Z.min (2 ^ 31 - 1) z)) with z by lia.
            change (2 ^ 32) with (2 ^ (8 * Z.of_nat 4)). rewrite signed_of_mod by (change (2 ^ (8 * Z.of_nat 4 - 1)) with 2147483648; lia).
            replace z with (Z.min z (2 ^ 63 - 1)) at 1 by lia. apply (L_i ops laws); [assumption | assumption | lia].
          * apply andb_true_iff in E4. destruct E4 as [A B]. apply Z.leb_le in A, B.
            rewrite le_horner by (rewrite P64; apply Z.mod_pos_bound; reflexivity).
            replace (Z.max (- 2 ^ 63) (Z.min (2 ^ 63 - 1) z)) with (Z.min z (2 ^ 63 - 1)) by lia.
            change (2 ^ 64) with (2 ^ (8 * Z.of_nat 8)).
            rewrite signed_of_mod by (change (2 ^ (8 * Z.of_nat 8 - 1)) with 9223372036854775808; lia).
            apply (L_i ops laws); [assumption | assumption | lia].
          * (* unreachable: the i64 range contains +-2^24 *)
            apply andb_true_iff in E5. destruct E5 as [A B]. apply Z.leb_le in A, B.
            apply andb_false_iff in E4. destruct E4 as [C|C]; [apply Z.leb_gt in C | apply Z.leb_gt in C]; lia.
          * apply le_horner. rewrite P64. lia.
      - destruct (all_f32 ops d) eqn:Ef; cbv zeta; cbn [write_num read_num].
        + (* the run-time check of the encoder is exactly the round trip *)
          unfold all_f32 in Ef. rewrite forallb_forall in Ef. specialize (Ef n Hin). apply Z.eqb_eq in Ef.
          rewrite le_horner by (rewrite P32; rewrite <- Q32; apply (L_f32 ops laws)). assumption.
        + apply le_horner. rewrite P64. lia.
    Qed.
  End Elem.

  Theorem binary_num_roundtrip : forall (ops : numops), num_laws ops ->
    forall d n, Forall wfnum d -> In n d ->
    let t := choose ops d in
    length (write_num ops t n) = width_of t /\
    match t with
    | U8 => to_int ops n = Some (read_num ops t (write_num ops t n)) /\
            of_int ops (read_num ops t (write_num ops t n)) = n
    | _ => read_num ops t (write_num ops t n) = n
    end.
  Proof.
    intros ops laws d n Hwf Hin. split; [apply write_num_length | apply elem_roundtrip; assumption].
  Qed.

  (** record of the defect repaired by b303665: with the old selection (negative zero counted as an
      integer) the array [-0.0] was stored as U8 and read back as the byte 0, i.e. +0.0 *)
  Theorem negzero_refuted_pre :
    exists d n, In n d /\ Forall wfnum d /\ choose_pre cops d = U8 /\
      of_int cops (read_num cops U8 (write_num cops U8 n)) <> n /\ choose cops d = F32 /\
      read_num cops F32 (write_num cops F32 n) = n.
  Proof.
    exists [2 ^ 63], (2 ^ 63). split; [left; reflexivity|]. split; [repeat constructor; unfold wfnum; cbn; lia|].
    split; [vm_compute; reflexivity|]. split; [vm_compute; discriminate|]. split; vm_compute; reflexivity.
  Qed.
End BinP.
