(** C02/C11 proofs, part 1: the simulation between the checker's two counters and a real stack. *)
From Coq Require Import List ZArith NArith Bool Lia PeanoNat.
From UV Require Import Model.Node Model.Sig Model.Exec.
Import ListNotations.

Lemma vpop_m k v : m (vpop k v) = Nat.max (m v) (Z.to_nat (Z.max 0 (- (h v - Z.of_nat k)))).
Proof. reflexivity. Qed.
Lemma vpop_h k v : h (vpop k v) = (h v - Z.of_nat k)%Z.
Proof. reflexivity. Qed.
Lemma vpush_m k v : m (vpush k v) = m v.
Proof. reflexivity. Qed.
Lemma vpush_h k v : h (vpush k v) = (h v + Z.of_nat k)%Z.
Proof. reflexivity. Qed.
Lemma vao_m a o v : m (vao a o v) = Nat.max (m v) (Z.to_nat (Z.max 0 (- (h v - Z.of_nat a)))).
Proof. reflexivity. Qed.
Lemma vao_h a o v : h (vao a o v) = (h v - Z.of_nat a + Z.of_nat o)%Z.
Proof. reflexivity. Qed.
Global Opaque vpop vpush vao.
Ltac vsimp := repeat progress (rewrite ?vao_m, ?vao_h, ?vpop_m, ?vpop_h, ?vpush_m, ?vpush_h in *).

(** everything deeper than the running minimum [m] is literally the initial stack *)
Definition sim {A} (v : vs) (init stk : list A) : Prop :=
  exists cur, stk = cur ++ skipn (m v) init /\ Z.of_nat (length cur) = (h v + Z.of_nat (m v))%Z.
(** at a failure point only the frame is known *)
Definition simE {A} (v : vs) (init stk : list A) : Prop :=
  exists junk, stk = junk ++ skipn (m v) init.

Lemma skipn_skipn {A} (a b : nat) (l : list A) : skipn a (skipn b l) = skipn (a + b) l.
Proof.
  revert a l; induction b; intros a l; simpl.
  - f_equal; lia.
  - destruct l; simpl.
    + destruct a; reflexivity.
    + rewrite IHb. replace (a + S b) with (S (a + b)) by lia. reflexivity.
Qed.

Lemma sim_len {A} v (init stk : list A) : sim v init stk -> m v <= length init ->
  Z.of_nat (length stk) = (h v + Z.of_nat (length init))%Z.
Proof. intros (cur & -> & Hl) Hm. rewrite app_length, skipn_length. lia. Qed.

Lemma sim_simE {A} v (init stk : list A) : sim v init stk -> simE v init stk.
Proof. intros (cur & -> & _). exists cur; reflexivity. Qed.

Lemma simE_weaken {A} v v' (init stk : list A) : simE v init stk -> m v <= m v' -> simE v' init stk.
Proof.
  intros (j & ->) Hm. exists (j ++ firstn (m v' - m v) (skipn (m v) init)).
  rewrite <- app_assoc. f_equal.
  rewrite <- (firstn_skipn (m v' - m v) (skipn (m v) init)) at 1. f_equal.
  rewrite skipn_skipn. f_equal. lia.
Qed.

Lemma sim_pop {A} k v (init stk : list A) :
  sim v init stk -> k <= length stk -> m (vpop k v) <= length init ->
  sim (vpop k v) init (skipn k stk).
Proof.
  intros (cur & -> & Hlen) Hk Hm. vsimp.
  destruct (le_lt_dec k (length cur)) as [Hle|Hgt].
  - exists (skipn k cur). split.
    + rewrite skipn_app. replace (k - length cur) with 0 by lia. simpl.
      f_equal. f_equal. vsimp. lia.
    + rewrite skipn_length. vsimp. lia.
  - exists []. split.
    + simpl. rewrite skipn_app. rewrite skipn_all2 by lia. simpl.
      rewrite skipn_skipn. f_equal. vsimp. lia.
    + vsimp. simpl. rewrite app_length, skipn_length in Hk. lia.
Qed.

Lemma sim_push {A} (outs : list A) v init stk :
  sim v init stk -> sim (vpush (length outs) v) init (outs ++ stk).
Proof.
  intros (cur & -> & Hlen). exists (outs ++ cur). split.
  - rewrite app_assoc. reflexivity.
  - rewrite app_length. vsimp. lia.
Qed.

Lemma sim_push' {A} k (outs : list A) v init stk :
  length outs = k -> sim v init stk -> sim (vpush k v) init (outs ++ stk).
Proof. intros <-. apply sim_push. Qed.

(** the popped prefix, when the checker's minimum does not move, lies inside [cur] *)
Lemma sim_enough {A} k v (init stk : list A) :
  sim v init stk -> m (vpop k v) <= length init -> k <= length stk.
Proof.
  intros (cur & -> & Hlen) Hm. vsimp. rewrite app_length, skipn_length. lia.
Qed.

Lemma sim_ao {A} a o (outs : list A) v init stk :
  sim v init stk -> m (vao a o v) <= length init -> length outs = o ->
  sim (vao a o v) init (outs ++ skipn a stk).
Proof.
  intros S Hm Ho.
  assert (Hk : a <= length stk) by (eapply sim_enough; eauto).
  change (vao a o v) with (vpush o (vpop a v)) in *.
  apply sim_push'; auto. apply sim_pop; auto.
Qed.

Lemma simE_pop {A} k v (init stk : list A) :
  sim v init stk -> k <= length stk -> m (vpop k v) <= length init ->
  simE (vpop k v) init (skipn k stk).
Proof. intros. apply sim_simE, sim_pop; auto. Qed.

Lemma vao_unfold a o v : vao a o v = vpush o (vpop a v).
Proof. reflexivity. Qed.

Lemma simE_ao_pop {A} a o v (init stk : list A) :
  sim v init stk -> m (vao a o v) <= length init -> simE (vao a o v) init (skipn a stk).
Proof.
  intros S Hm. assert (Hk : a <= length stk) by (eapply sim_enough; eauto).
  destruct (sim_pop a v init stk S Hk Hm) as (cur & E & _). exists cur. rewrite E. reflexivity.
Qed.
Lemma simE_keep {A} v v' (init stk : list A) : sim v init stk -> m v <= m v' -> simE v' init stk.
Proof. intros S L. eapply simE_weaken; [apply sim_simE; eauto | auto]. Qed.

Lemma sim_nonneg {A} v (init stk : list A) : sim v init stk -> (0 <= h v + Z.of_nat (m v))%Z.
Proof. intros (cur & _ & H). lia. Qed.
Lemma vao00 {A} v (init stk : list A) : sim v init stk -> vao 0 0 v = v.
Proof.
  intros S. pose proof (sim_nonneg _ _ _ S). destruct v as [hv mv].
  Transparent vao vpop vpush. unfold vao, vpop, vpush; simpl. Opaque vao vpop vpush.
  f_equal; simpl in *; lia.
Qed.
Lemma frame_sim {A} a o v (init stk stk' outs : list A) :
  sim v init stk -> stk' = outs ++ skipn a stk -> length outs = o ->
  m (vao a o v) <= length init -> sim (vao a o v) init stk'.
Proof. intros S -> L M. apply sim_ao; auto. Qed.
Lemma frame_simE {A} a o v (init stk stk' j : list A) :
  sim v init stk -> stk' = j ++ skipn a stk ->
  m (vao a o v) <= length init -> simE (vao a o v) init stk'.
Proof.
  intros S -> M. destruct (simE_ao_pop a o v init stk S M) as (c & E).
  exists (j ++ c). rewrite E, app_assoc. reflexivity.
Qed.

Lemma vpush_vao k a o v : vpush k (vao a o v) = vao a (o + k) v.
Proof.
  Transparent vao vpop vpush. unfold vao, vpop, vpush; simpl. Opaque vao vpop vpush.
  f_equal. lia.
Qed.
Lemma vpush_vpush j k v : vpush j (vpush k v) = vpush (k + j) v.
Proof.
  Transparent vao vpop vpush. unfold vpush; simpl. Opaque vao vpop vpush.
  f_equal. lia.
Qed.

(** a checker state with the same height and a deeper minimum is still simulated *)
Lemma sim_deepen {A} v v' (init stk : list A) :
  sim v init stk -> h v' = h v -> m v <= m v' -> m v' <= length init -> sim v' init stk.
Proof.
  intros (cur & -> & Hl) Hh Hm Hb.
  exists (cur ++ firstn (m v' - m v) (skipn (m v) init)). split.
  - rewrite <- app_assoc. f_equal.
    rewrite <- (firstn_skipn (m v' - m v) (skipn (m v) init)) at 1. f_equal.
    rewrite skipn_skipn. f_equal. lia.
  - rewrite app_length, firstn_length, skipn_length. lia.
Qed.
Lemma sim_insert {A} k (x : A) v init stk :
  sim v init stk -> (Z.of_nat k <= h v + Z.of_nat (m v))%Z ->
  sim (vpush 1 v) init (firstn k stk ++ x :: skipn k stk).
Proof.
  intros (cur & -> & Hl) Hk. exists (firstn k cur ++ x :: skipn k cur). split.
  - rewrite firstn_app, skipn_app. replace (k - length cur) with 0 by lia. simpl.
    rewrite app_nil_r. rewrite <- app_assoc. simpl. reflexivity.
  - rewrite app_length. simpl. rewrite firstn_length, skipn_length. vsimp. lia.
Qed.
Lemma sim_cur_len {A} v (init stk : list A) : sim v init stk -> (h v + Z.of_nat (m v) <= Z.of_nat (length stk))%Z.
Proof. intros (cur & -> & Hl). rewrite app_length. lia. Qed.

(** ---- lemmas for try ---- *)
Lemma max0r a : Nat.max a 0 = a. Proof. lia. Qed.

Lemma try_sig2 sf sh :
  let mo := Nat.max (so sf) (so sh) in
  try_sig [sf; sh] =
  (sig2 (Nat.max (sa sf + (mo - so sf)) ((sa sh + (mo - so sh)) - 1)) mo,
   Nat.max (sa sf) (sa sh - 1) <? sa sh + (mo - so sh)).
Proof.
  unfold try_sig, max_list. cbn [map length seq combine fold_right fst snd tl existsb Nat.eqb].
  rewrite !max0r, !Nat.sub_0_r, orb_false_r. reflexivity.
Qed.

(** bounds that [try_sig] gives for each of its functions (any number of handlers) *)
Lemma max_list_ge x l : In x l -> x <= max_list l.
Proof.
  unfold max_list. induction l as [|y t IH]; simpl; intros H; [contradiction|].
  destruct H as [->|H]; [lia|]. specialize (IH H). lia.
Qed.
Lemma max_list_map_le {A} (f g : A -> nat) l :
  (forall x, f x <= g x) -> max_list (map f l) <= max_list (map g l).
Proof.
  intros H. unfold max_list. induction l as [|y t IH]; simpl; [lia|]. specialize (H y). lia.
Qed.
Lemma in_combine_seq {A} (h : A) hs : forall k, In h hs ->
  exists i, In (i, h) (combine (seq k (length hs)) hs) /\ k <= i.
Proof.
  induction hs as [|y t IH]; intros k H; [contradiction|].
  cbn [length seq combine]. destruct H as [->|H].
  - exists k. split; [left; reflexivity|lia].
  - destruct (IH (S k) H) as (i & Hi & Hk). exists i. split; [right; exact Hi|lia].
Qed.

Lemma try_sig_bounds s0 hs :
  let ts := fst (try_sig (s0 :: hs)) in
  let any := snd (try_sig (s0 :: hs)) in
  sua ts = 0 /\ suo ts = 0 /\
  so s0 <= so ts /\ sa s0 + (so ts - so s0) <= sa ts /\
  Forall (fun h => so h <= so ts /\ sa h + (so ts - so h) <= sa ts + 1 /\
                   (sa h + (so ts - so h) = sa ts + 1 -> any = true)) hs.
Proof.
  unfold try_sig. cbn [fst snd sig2 sa so sua suo length seq combine tl].
  set (mo := max_list (map so (s0 :: hs))).
  set (ma0 := max_list (map (fun p : nat * sig => sa (snd p) - (if Nat.eqb (fst p) 0 then 0 else 1))
                             ((0, s0) :: combine (seq 1 (length hs)) hs))).
  set (ma := max_list (map (fun p : nat * sig => sa (snd p) + (mo - so (snd p)) - (if Nat.eqb (fst p) 0 then 0 else 1))
                            ((0, s0) :: combine (seq 1 (length hs)) hs))).
  assert (H0 : ma0 <= ma).
  { apply max_list_map_le. intros [i x]. cbn [fst snd]. destruct (Nat.eqb i 0); lia. }
  split; [reflexivity|]. split; [reflexivity|]. split; [|split].
  - apply max_list_ge. left. reflexivity.
  - assert (H : sa s0 + (mo - so s0) - 0 <= ma).
    { apply max_list_ge. cbn [map fst snd Nat.eqb]. left. reflexivity. }
    lia.
  - rewrite Forall_forall. intros h Hh.
    assert (Ho : so h <= mo) by (apply max_list_ge; cbn [map]; right; apply in_map; exact Hh).
    destruct (in_combine_seq h hs 1 Hh) as (i & Hi & Hk).
    assert (Ha : sa h + (mo - so h) - 1 <= ma).
    { apply max_list_ge. cbn [map]. right.
      apply (in_map (fun p : nat * sig => sa (snd p) + (mo - so (snd p)) - (if Nat.eqb (fst p) 0 then 0 else 1))) in Hi.
      cbn [fst snd] in Hi. destruct (Nat.eqb_spec i 0) as [E|_]; [lia|]. exact Hi. }
    split; [exact Ho|]. split; [lia|].
    intros E. apply existsb_exists. exists h. split; [exact Hh|]. apply Nat.ltb_lt. lia.
Qed.

Lemma keep_bottom_frame (j l : list sval) k :
  k <= length l -> Exec.keep_bottom (length l - k) (j ++ skipn k l) = skipn k l.
Proof.
  intros Hk. unfold keep_bottom. rewrite app_length, skipn_length.
  replace (length j + (length l - k) - (length l - k)) with (length j) by lia.
  rewrite skipn_app, skipn_all, Nat.sub_diag. reflexivity.
Qed.

Lemma sim_remove_n n dep v (init stk : list sval) :
  sim v init stk -> dep <= length stk -> n <= dep -> m (vpop dep v) <= length init ->
  sim (vpush (dep - n) (vpop dep v)) init (Exec.remove_n n dep stk).
Proof.
  intros S Hd Hn Hm. unfold remove_n. apply sim_push'.
  - rewrite firstn_length. lia.
  - apply sim_pop; auto.
Qed.

Lemma insert_at_split (x : sval) (l : list sval) a t :
  a <= t -> firstn a l ++ Exec.insert_at (t - a) x (skipn a l) = Exec.insert_at t x l.
Proof.
  intros H. unfold insert_at. rewrite firstn_skipn_comm, skipn_skipn.
  replace (a + (t - a)) with t by lia. replace (t - a + a) with t by lia.
  rewrite app_assoc. f_equal.
  rewrite <- (firstn_skipn a (firstn t l)) at 2. f_equal.
  rewrite firstn_firstn. f_equal. lia.
Qed.

Lemma simE_skip {A} k a o v (init stk : list A) :
  sim v init stk -> k <= a -> m (vao a o v) <= length init -> simE (vao a o v) init (skipn k stk).
Proof.
  intros S Hk Hm. destruct (simE_ao_pop a o v init stk S Hm) as (c & E).
  exists (firstn (a - k) (skipn k stk) ++ c). rewrite <- app_assoc, <- E.
  rewrite <- (firstn_skipn (a - k) (skipn k stk)) at 1. f_equal.
  rewrite skipn_skipn. f_equal. lia.
Qed.

Lemma sim_widen {A} k v (init stk : list A) :
  sim v init stk -> m (vpop k v) <= length init -> sim (vpush k (vpop k v)) init stk.
Proof.
  intros S Hm. assert (Hk : k <= length stk) by (eapply sim_enough; eauto).
  rewrite <- (firstn_skipn k stk) at 1. apply sim_push'. rewrite firstn_length; lia.
  apply sim_pop; auto.
Qed.
