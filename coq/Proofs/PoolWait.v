(** C13 — waiting on an array of ids returns the results in id order, for every interleaving *)
From Coq Require Import List NArith Bool Arith Lia.
From UV Require Import Model.Pool Proofs.PoolShape Proofs.Pool.
Import ListNotations.

Definition forks (bodies : list (bool * code)) : code := map (fun pb => Fork (fst pb) 0 (snd pb)) bodies.
(** k tasks (spawn or pool, any bodies), then wait [1..k] *)
Definition wait_prog (bodies : list (bool * code)) : code :=
  forks bodies ++ [WaitAll [] (List.seq 1 (length bodies)) []].

Fixpoint all_some (rs : list res) : option (list (list N)) :=
  match rs with
  | [] => Some []
  | Some v :: rs' => match all_some rs' with Some vs => Some (v :: vs) | None => None end
  | None :: _ => None
  end.

Lemma seqev_forks bodies : forall rest s kids,
  seqev (forks bodies ++ rest) s kids =
  seqev rest s (kids ++ map (fun pb => Some (seqev (snd pb) [] [])) bodies).
Proof.
  induction bodies as [|[p b] bs IH]; intros rest s kids; simpl.
  - rewrite app_nil_r. reflexivity.
  - change (seqev (Fork p 0 b :: forks bs ++ rest) s kids) with
      (seqev (forks bs ++ rest) s (kids ++ [Some (seqev b [] [])])).
    rewrite IH. rewrite <- app_assoc. reflexivity.
Qed.

Lemma upd_mid {A} (pre : list A) x y l : upd (length pre) y (pre ++ x :: l) = pre ++ y :: l.
Proof. induction pre; simpl; auto. f_equal; auto. Qed.

Lemma nth_mid {A} (pre : list A) x l : nth_error (pre ++ x :: l) (length pre) = Some x.
Proof. induction pre; simpl; auto. Qed.

Lemma gather_seq rs : forall pre acc,
  gather (List.seq (S (length pre)) (length rs)) acc (pre ++ map Some rs) =
  match all_some rs with
  | Some vs => Some (acc ++ concat vs, pre ++ map (fun _ => None) rs)
  | None => None
  end.
Proof.
  induction rs as [|r rs IH]; intros pre acc; simpl.
  - rewrite !app_nil_r. reflexivity.
  - rewrite nth_mid. destruct r as [v|]; auto.
    rewrite upd_mid.
    replace (pre ++ None :: map Some rs) with ((pre ++ [None]) ++ map Some rs) by (rewrite <- app_assoc; reflexivity).
    replace (S (S (length pre))) with (S (length (pre ++ [None]))) by (rewrite app_length; simpl; lia).
    rewrite IH. destruct (all_some rs); auto.
    rewrite <- !app_assoc. reflexivity.
Qed.

Lemma pure_wait_prog bodies :
  forallb (fun pb => pure (snd pb)) bodies = true -> pure (wait_prog bodies) = true.
Proof.
  intros H. unfold pure, wait_prog. rewrite forallb_app. simpl. rewrite andb_true_r.
  unfold forks. induction bodies as [|[p b] bs IH]; simpl in *; auto.
  apply andb_true_iff in H. destruct H as [H1 H2]. rewrite IH by auto. unfold pure in H1. rewrite H1. reflexivity.
Qed.

Theorem wait_order bodies m rp sched r :
  forallb (fun pb => pure (snd pb)) bodies = true ->
  root_res (run sched (init m rp (wait_prog bodies))) = Some r ->
  r = option_map (@concat N) (all_some (map (fun pb => seqev (snd pb) [] []) bodies)).
Proof.
  intros P R. apply determinism in R; [|apply pure_wait_prog; auto].
  rewrite R. unfold wait_prog. rewrite seqev_forks. simpl app.
  rewrite seqev_cons. simpl ev_i.
  pose proof (gather_seq (map (fun pb => seqev (snd pb) [] []) bodies) [] []) as G.
  simpl in G. rewrite map_length, map_map in G. rewrite G.
  destruct (all_some (map (fun pb => seqev (snd pb) [] []) bodies)); simpl; auto.
  rewrite app_nil_r. reflexivity.
Qed.

(** * The shape of the result of [wait] *)
Definition prodn (l : list nat) : nat := fold_right Nat.mul 1 l.

Lemma list_eqb_refl a : list_eqb a a = true.
Proof. induction a; simpl; auto. rewrite Nat.eqb_refl. auto. Qed.

Lemma collect_vals vs : collect (map WVal vs) = inl vs.
Proof. induction vs; simpl; auto. rewrite IHvs. reflexivity. Qed.

(** waiting on an id array of shape [ish] (not a scalar): one row per id, in id order, under the
    id array's shape -- also when there is exactly one id *)
Theorem wait_shape ish vs rs :
  ish <> [] -> vs <> [] -> (forall v, In v vs -> fst v = rs) ->
  wait_glue ish (map WVal vs) = WVal (ish ++ rs, concat (map snd vs)).
Proof.
  intros NI NV SH. unfold wait_glue. destruct ish as [|i ish]; [congruence|].
  rewrite collect_vals. destruct vs as [|v vs]; [congruence|].
  assert (F : forallb (fun x => list_eqb (fst x) (fst v)) vs = true).
  { apply forallb_forall. intros x I. rewrite (SH x), (SH v) by (simpl; auto). apply list_eqb_refl. }
  rewrite F. rewrite (SH v) by (left; auto). reflexivity.
Qed.

Theorem wait_shape_empty ish : ish <> [] -> wait_glue ish [] = WVal (ish, []).
Proof. destruct ish; [congruence|reflexivity]. Qed.

(** a scalar id: the thread's value as it is *)
Theorem wait_scalar v : wait_glue [] [WVal v] = WVal v.
Proof. reflexivity. Qed.

(** a failing child: an id array reports the first failing child's own error, a scalar id
    reports "A thread errored" *)
Theorem wait_error ish pre c rest :
  ish <> [] -> wait_glue ish (map WVal pre ++ WErr c :: rest) = WErr c.
Proof.
  intros NI. unfold wait_glue. destruct ish as [|i ish]; [congruence|].
  assert (E : collect (map WVal pre ++ WErr c :: rest) = inr c).
  { induction pre; simpl; auto. rewrite IHpre. reflexivity. }
  rewrite E. reflexivity.
Qed.

Theorem wait_error_scalar c : wait_glue [] [WErr c] = WErr 0%N.
Proof. reflexivity. Qed.

Lemma prodn_app a b : prodn (a ++ b) = prodn a * prodn b.
Proof. induction a; simpl; [lia|]. rewrite IHa. lia. Qed.

(** the result is a well-formed array: as many elements as its shape says *)
Theorem wait_wf ish vs rs s d :
  ish <> [] -> vs <> [] -> (forall v, In v vs -> fst v = rs /\ length (snd v) = prodn rs) ->
  length vs = prodn ish ->
  wait_glue ish (map WVal vs) = WVal (s, d) -> length d = prodn s.
Proof.
  intros NI NV SH L E. rewrite (wait_shape ish vs rs) in E; auto; [|intros v I; apply SH; auto].
  inversion E; subst. rewrite prodn_app, <- L.
  clear - SH. induction vs as [|v vs IH]; simpl; auto.
  rewrite app_length, IH by (intros x I; apply SH; right; auto).
  destruct (SH v) as [_ ->]; [left; auto|]. lia.
Qed.
