(** C13 — waiting on an array of ids returns the results in id order, for every interleaving *)
From Coq Require Import List NArith Bool Arith Lia.
From UV Require Import Model.Pool Proofs.PoolShape Proofs.Pool.
Import ListNotations.

Definition forks (bodies : list (bool * code)) : code := map (fun pb => Fork (fst pb) 0 (snd pb)) bodies.
(** k tasks (spawn or pool, any bodies), then wait [1..k] *)
Definition wait_prog (bodies : list (bool * code)) : code :=
  forks bodies ++ [WaitAll [] (List.seq 1 (length bodies)) []].

Fixpoint all_some (rs : list res) : option (list (list N)) :=
  match rs with
  | [] => Some []
  | Some v :: rs' => match all_some rs' with Some vs => Some (v :: vs) | None => None end
  | None :: _ => None
  end.

Lemma seqev_forks bodies : forall rest s kids,
  seqev (forks bodies ++ rest) s kids =
  seqev rest s (kids ++ map (fun pb => Some (seqev (snd pb) [] [])) bodies).
Proof.
  induction bodies as [|[p b] bs IH]; intros rest s kids; simpl.
  - rewrite app_nil_r. reflexivity.
  - change (seqev (Fork p 0 b :: forks bs ++ rest) s kids) with
      (seqev (forks bs ++ rest) s (kids ++ [Some (seqev b [] [])])).
    rewrite IH. rewrite <- app_assoc. reflexivity.
Qed.

Lemma upd_mid {A} (pre : list A) x y l : upd (length pre) y (pre ++ x :: l) = pre ++ y :: l.
Proof. induction pre; simpl; auto. f_equal; auto. Qed.

Lemma nth_mid {A} (pre : list A) x l : nth_error (pre ++ x :: l) (length pre) = Some x.
Proof. induction pre; simpl; auto. Qed.

Lemma gather_seq rs : forall pre acc,
  gather (List.seq (S (length pre)) (length rs)) acc (pre ++ map Some rs) =
  match all_some rs with
  | Some vs => Some (acc ++ concat vs, pre ++ map (fun _ => None) rs)
  | None => None
  end.
Proof.
  induction rs as [|r rs IH]; intros pre acc; simpl.
  - rewrite !app_nil_r. reflexivity.
  - rewrite nth_mid. destruct r as [v|]; auto.
    rewrite upd_mid.
    replace (pre ++ None :: map Some rs) with ((pre ++ [None]) ++ map Some rs) by (rewrite <- app_assoc; reflexivity).
    replace (S (S (length pre))) with (S (length (pre ++ [None]))) by (rewrite app_length; simpl; lia).
    rewrite IH. destruct (all_some rs); auto.
    rewrite <- !app_assoc. reflexivity.
Qed.

Lemma pure_wait_prog bodies :
  forallb (fun pb => pure (snd pb)) bodies = true -> pure (wait_prog bodies) = true.
Proof.
  intros H. unfold pure, wait_prog. rewrite forallb_app. simpl. rewrite andb_true_r.
  unfold forks. induction bodies as [|[p b] bs IH]; simpl in *; auto.
  apply andb_true_iff in H. destruct H as [H1 H2]. rewrite IH by auto. unfold pure in H1. rewrite H1. reflexivity.
Qed.

Theorem wait_order bodies m rp sched r :
  forallb (fun pb => pure (snd pb)) bodies = true ->
  root_res (run sched (init m rp (wait_prog bodies))) = Some r ->
  r = option_map (@concat N) (all_some (map (fun pb => seqev (snd pb) [] []) bodies)).
Proof.
  intros P R. apply determinism in R; [|apply pure_wait_prog; auto].
  rewrite R. unfold wait_prog. rewrite seqev_forks. simpl app.
  rewrite seqev_cons. simpl ev_i.
  pose proof (gather_seq (map (fun pb => seqev (snd pb) [] []) bodies) [] []) as G.
  simpl in G. rewrite map_length, map_map in G. rewrite G.
  destruct (all_some (map (fun pb => seqev (snd pb) [] []) bodies)); simpl; auto.
  rewrite app_nil_r. reflexivity.
Qed.
