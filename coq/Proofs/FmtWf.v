(** C10: well-formed word sequences are formatted into stable lines (induction over the line). *)
From Coq Require Import List NArith Bool Lia PeanoNat.
From UV Require Import Model.Fmt Proofs.Fmt Proofs.FmtNorm.
Import ListNotations.
Local Open Scope N_scope.

Lemma stable_from_cons : forall h t rest, (forall m, t <> TSpace m) ->
  stable_from h (t :: rest) = normal_tok t && adj_stable h t && stable_from t rest.
Proof. intros h t rest H; destruct t; try reflexivity. exfalso; eapply H; reflexivity. Qed.

Lemma stable_from_space : forall h t rest,
  stable_from h (TSpace false :: t :: rest) = normal_tok t && spaced_stable h t && stable_from t rest.
Proof. reflexivity. Qed.

Lemma adj_glyphs : forall g1 g2, is_glyphc g1 = true -> is_glyphc g2 = true ->
  adj_stable (TGlyph g1) (TGlyph g2) = true.
Proof.
  intros g1 g2 H1 H2. unfold adj_stable, sep_ok, first_char, space_between, space_adjacent, is_glyphc in *.
  cbn [text hd_error est]. unfold continue.
  destruct (cls g1); try discriminate; destruct (cls g2); try discriminate; reflexivity.
Qed.

Lemma normal_glyph : forall g, is_glyphc g = true -> normal_tok (TGlyph g) = true.
Proof. intros g H. unfold normal_tok; cbn. rewrite H. reflexivity. Qed.

Lemma glyph_chain : forall gs g1 rest, is_glyphc g1 = true -> forallb is_glyphc gs = true ->
  stable_from (TGlyph (last (g1 :: gs) 0)) rest = true ->
  stable_from (TGlyph g1) (map TGlyph gs ++ rest) = true.
Proof.
  induction gs as [|g2 gs IH]; intros g1 rest H1 Hs Hr.
  - exact Hr.
  - cbn in Hs; apply andb_true_iff in Hs; destruct Hs as [H2 Hs].
    cbn [map app]. rewrite stable_from_cons by discriminate.
    rewrite (normal_glyph _ H2), (adj_glyphs _ _ H1 H2). cbn [andb].
    apply IH; [exact H2 | exact Hs | exact Hr].
Qed.

Lemma normal_out_first : forall t, valid_tok t = true -> shape_of t <> None ->
  normal_tok (out_first_of t) = true.
Proof.
  intros t H Hs; destruct t; unfold normal_tok; cbn [out_first_of valid_tok] in *;
    try (rewrite ?H; reflexivity).
  - apply andb_true_iff in H; destruct H as [Hn Ha]. destruct gs as [|g gs]; [discriminate|].
    cbn in Ha; apply andb_true_iff in Ha; destruct Ha as [Hg _]. cbn [hd]. rewrite Hg. reflexivity.
  - exfalso; apply Hs; reflexivity.
Qed.

Lemma out_first_not_space : forall t m, shape_of t <> None -> out_first_of t <> TSpace m.
Proof. intros t m H; destruct t; cbn; try discriminate. exfalso; apply H; reflexivity. Qed.

(** the words of [t] attached after [h] *)
Lemma emit_attach : forall t h rest (spaced : bool), valid_tok t = true -> shape_of t <> None ->
  (if spaced then spaced_stable h (out_first t) = true else adj_stable h (out_first t) = true) ->
  stable_from (out_last t) rest = true ->
  stable_from h ((if spaced then [TSpace false] else []) ++ emit t ++ rest) = true.
Proof.
  intros t h rest spaced Ht Hs Hj Hr.
  rewrite (out_first_eq t Ht) in Hj. rewrite (out_last_eq t Ht) in Hr.
  pose proof (normal_out_first t Ht Hs) as Hn.
  assert (E : emit t ++ rest = out_first_of t ::
                match t with TNames gs => map TGlyph (tl gs) ++ rest | _ => rest end).
  { destruct t; try reflexivity. cbn [valid_tok] in Ht; apply andb_true_iff in Ht; destruct Ht as [Hne _].
    destruct gs; [discriminate | reflexivity]. }
  rewrite E.
  assert (T : stable_from (out_first_of t) match t with TNames gs => map TGlyph (tl gs) ++ rest | _ => rest end = true).
  { destruct t; try exact Hr.
    cbn [valid_tok] in Ht; apply andb_true_iff in Ht; destruct Ht as [Hne Ha].
    destruct gs as [|g gs]; [discriminate|]. cbn in Ha; apply andb_true_iff in Ha; destruct Ha as [Hg Ha].
    cbn [out_first_of hd tl]. apply glyph_chain; [exact Hg | exact Ha | exact Hr]. }
  destruct spaced; cbn [app].
  - rewrite stable_from_space, Hn, Hj, T. reflexivity.
  - rewrite stable_from_cons by (intro m; apply out_first_not_space; exact Hs).
    rewrite Hn, Hj, T. reflexivity.
Qed.

Lemma wf_go_cons : forall p spb t r, shape_of t <> None ->
  wf_go (Some p) spb (t :: r) = valid_tok t && wf_junction p spb t && wf_go (Some t) false r.
Proof.
  intros p spb t r H. unfold wf_junction.
  destruct t; try (exfalso; apply H; reflexivity); cbn [wf_go];
    destruct (shape_of p); try reflexivity; destruct (shape_of _); reflexivity.
Qed.

Lemma norm_fw_wf : forall ts p sp, valid_tok p = true -> shape_of p <> None ->
  wf_go (Some p) (is_some sp) ts = true ->
  stable_from (out_last p) (norm_fw (Some p) sp ts) = true.
Proof.
  induction ts as [|t r IH]; intros p sp Hp Hps H; [reflexivity|].
  destruct (shape_of t) eqn:Est.
  - assert (Hts : shape_of t <> None) by (rewrite Est; discriminate).
    rewrite wf_go_cons in H by exact Hts.
    apply andb_true_iff in H; destruct H as [H Hr]; apply andb_true_iff in H; destruct H as [Ht Hj].
    assert (E : norm_fw (Some p) sp (t :: r) = sep_of (Some p) sp t ++ emit t ++ norm_fw (Some t) None r).
    { destruct t; try reflexivity. discriminate Est. }
    rewrite E. unfold sep_of.
    pose proof (junction p t sp Hp Ht Hj) as J.
    specialize (IH t None Ht Hts Hr).
    destruct (space_between p sp t).
    + apply (emit_attach t (out_last p) _ true); assumption.
    + apply (emit_attach t (out_last p) _ false); assumption.
  - destruct t; try (destruct bangs); try (destruct neg); try discriminate Est. cbn [wf_go norm_fw] in *.
    apply IH; [exact Hp | exact Hps | destruct sp; exact H].
Qed.

Lemma wf_first : forall t r, shape_of t <> None ->
  wf_go None false (t :: r) = true -> valid_tok t = true /\ wf_go (Some t) false r = true.
Proof.
  intros t r Hs H. destruct t; try (exfalso; apply Hs; reflexivity); cbn [wf_go] in H;
    apply andb_true_iff in H; destruct H as [H Hr]; apply andb_true_iff in H; destruct H as [Ht _];
    split; assumption.
Qed.

Lemma norm_fw_wf0 : forall ts spb sp, wf_go None spb ts = true -> stable (norm_fw None sp ts) = true.
Proof.
  induction ts as [|t r IH]; intros spb sp H; [reflexivity|].
  destruct (shape_of t) eqn:Est.
  - assert (Hts : shape_of t <> None) by (rewrite Est; discriminate).
    assert (H' : wf_go None false (t :: r) = true).
    { destruct t; try discriminate Est; exact H. }
    destruct (wf_first t r Hts H') as [Ht Hr].
    assert (E : norm_fw None sp (t :: r) = emit t ++ norm_fw (Some t) None r).
    { destruct t; try reflexivity. discriminate Est. }
    rewrite E.
    pose proof (norm_fw_wf r t None Ht Hts Hr) as S.
    rewrite (out_last_eq t Ht) in S.
    pose proof (normal_out_first t Ht Hts) as Hn.
    destruct t; try discriminate Est; cbn [emit app out_first_of out_last_of stable] in *;
      try (rewrite Hn, S; reflexivity).
    (* TNames *)
    cbn [valid_tok] in Ht; apply andb_true_iff in Ht; destruct Ht as [Hne Ha].
    destruct gs as [|g gs]; [discriminate|]. cbn in Ha; apply andb_true_iff in Ha; destruct Ha as [Hg Ha].
    cbn [map app stable hd] in *. rewrite Hn. cbn [andb]. apply glyph_chain; assumption.
  - destruct t; try (destruct bangs); try (destruct neg); try discriminate Est. cbn [wf_go norm_fw] in *. eapply IH; exact H.
Qed.

(** every well-formed line is formatted into a stable line *)
Theorem norm_wf_stable : forall ts, wf_tokens ts = true -> stable (norm ts) = true.
Proof.
  intros ts H. unfold wf_tokens in H. apply andb_true_iff in H; destruct H as [H _].
  rewrite norm_fw_eq. eapply norm_fw_wf0; exact H.
Qed.

(** THE ADJACENCY THEOREMS: the formatter's spacing never merges or splits words ... *)
Theorem relex_render : forall ts, wf_tokens ts = true -> lex (render ts) = norm ts.
Proof. intros ts H. apply relex_render_of_stable, norm_wf_stable, H. Qed.

(** ... its output is a fixed point ... *)
Theorem render_idempotent : forall ts, wf_tokens ts = true -> render (lex (render ts)) = render ts.
Proof. intros ts H. apply render_idempotent_of_stable, norm_wf_stable, H. Qed.

(** ... and a line that is already formatted is left unchanged, so that [lex (render ts) = ts] *)
Theorem relex_render_fixed : forall ts, stable ts = true -> lex (render ts) = ts.
Proof.
  intros ts H. unfold render. rewrite (norm_stable ts H). apply lex_print_stable; exact H.
Qed.
