(** C18 — binary: from_binary (to_binary v) matches v, by induction on the value. *)
From Coq Require Import List ZArith Bool Lia.
From UV Require Import Model.Codec Proofs.CodecDigits Proofs.CodecUtf Proofs.CodecBin.
Import ListNotations.
Open Scope Z_scope.

Module BinS.
  Import Bin BinP.

  (** ** induction through the nested list *)
  Section BvalInd.
    Variable P : bval -> Prop.
    Definition okP (k : option bval) : Prop := match k with None => True | Some kv => P kv end.
    Hypothesis Hleaf : forall h k p, okP k -> P (BLeaf h k p).
    Hypothesis Hbox : forall h k d, okP k -> Forall P d -> P (BBox h k d).
    Fixpoint bval_ind' (v : bval) : P v :=
      match v with
      | BLeaf h k p => Hleaf h k p (match k return okP k with None => I | Some kv => bval_ind' kv end)
      | BBox h k d => Hbox h k d (match k return okP k with None => I | Some kv => bval_ind' kv end)
          ((fix go (l : list bval) : Forall P l :=
          match l with [] => Forall_nil P | x :: t => Forall_cons x (bval_ind' x) (go t) end) d)
      end.
  End BvalInd.

  (** ** the values of the theorem: header, map keys and payload within the format's limits *)
  Definition shape_of (v : bval) : list Z := match v with BLeaf h _ _ | BBox h _ _ => shape h end.
  Definition rc_shape (sh : list Z) : Z := match sh with [] => 1 | d :: _ => d end.
  Definition wf_hdr (h : hdr) : Prop :=
    0 <= flags h <= 15 /\ (exists cps, Utf8.un_utf8 (label h) = Some cps) /\
    Z.of_nat (length (label h)) < 2 ^ 32 /\ (length (shape h) <= 255)%nat /\
    Forall (fun d => 0 <= d < 2 ^ 32) (shape h) /\ nz_prod (shape h) <= 2 ^ 63.
  Definition wf_leaf (count : Z) (p : leaf) : Prop :=
    match p with
    | LNum d => Z.of_nat (length d) = count /\ Forall wfnum d
    | LByte d => Z.of_nat (length d) = count /\ Forall (fun b => 0 <= b < 256) d
    | LChar d => Z.of_nat (length d) = count /\ Forall Utf8.valid_scalar d /\ Z.of_nat (length (Utf8.utf8 d)) < 2 ^ 32
    | LCplx d => Z.of_nat (length d) = count /\ Forall (fun c => wfnum (fst c) /\ wfnum (snd c)) d
    end.
  Fixpoint wf (v : bval) : Prop :=
    match v with
    | BLeaf h k p =>
        (* map keys: a well-formed value with as many rows as the array (`map` checks it) *)
        match k with None => True | Some kv => wf kv /\ row_count kv = rc_shape (shape h) end /\
        wf_hdr h /\ wf_leaf (zprod (shape h)) p
    | BBox h k d =>
        match k with None => True | Some kv => wf kv /\ row_count kv = rc_shape (shape h) end /\
        wf_hdr h /\ Z.of_nat (length d) = zprod (shape h) /\
        (fix all (l : list bval) : Prop := match l with [] => True | x :: t => wf x /\ all t end) d
    end.
  (** nesting below the value (box elements and map keys count one level): 0 for plain leaves and empty boxes *)
  Fixpoint height (v : bval) : nat :=
    match v with
    | BLeaf _ k _ => match k with None => O | Some kv => S (height kv) end
    | BBox _ k d => Nat.max (match k with None => O | Some kv => S (height kv) end) ((fix hl (l : list bval) : nat := match l with [] => O | x :: t => Nat.max (S (height x)) (hl t) end) d)
    end.

  Section WithOps.
    Variable ops : numops.
    Hypothesis laws : num_laws ops.

    (** ** "matches": same flags, label and shape; the same payload, bit for bit (numbers in 0..255 may come back as bytes) *)
    Definition hmatch (h h' : hdr) : Prop := flags h' = flags h /\ label h' = label h /\ shape h' = shape h.
    Definition pmatch (p p' : leaf) : Prop :=
      match p, p' with
      | LNum d, LNum d' => d' = d                (* the same bit patterns *)
      | LNum d, LByte d' => Forall2 (fun n b => to_int ops n = Some b /\ of_int ops b = n) d d'
      | LByte d, LByte d' => d' = d
      | LChar d, LChar d' => d' = d
      | LCplx d, LCplx d' => d' = d
      | _, _ => False
      end.
    Fixpoint bmatch (v v' : bval) : Prop :=
      match v, v' with
      | BLeaf h k p, BLeaf h' k' p' =>
          (* the decoded keys are what `map` makes (norm_keys) of a value that matches the keys *)
          match k, k' with
          | None, None => True
          | Some a, Some b => exists b0, b = norm_keys ops b0 /\ bmatch a b0
          | _, _ => False
          end /\ hmatch h h' /\ pmatch p p'
      | BBox h k d, BBox h' k' d' =>
          match k, k' with
          | None, None => True
          | Some a, Some b => exists b0, b = norm_keys ops b0 /\ bmatch a b0
          | _, _ => False
          end /\ hmatch h h' /\
          (fix all2 (l l' : list bval) : Prop :=
             match l, l' with
             | [], [] => True
             | x :: t, x' :: t' => bmatch x x' /\ all2 t t'
             | _, _ => False
             end) d d'
      | _, _ => False
      end.

    (** ** small parsing lemmas *)
    Lemma takeZ_app : forall a b, takeZ (Z.of_nat (length a)) (a ++ b) = Some (a, b).
    Proof.
      intros a b. unfold takeZ. rewrite app_length, Nat2Z.id.
      replace (Z.of_nat (length a) <=? Z.of_nat (length a + length b)%nat) with true by (symmetry; apply Z.leb_le; lia).
      rewrite firstn_app_exact, skipn_app_exact. reflexivity.
    Qed.
    Lemma take_app : forall a b, take (length a) (a ++ b) = Some (a, b).
    Proof. intros. unfold take. apply takeZ_app. Qed.

    Lemma le_length : forall w x, length (le w x) = w.
    Proof. intros. unfold le. apply digits_length. Qed.

    Lemma read_shape_ok : forall sh tail, Forall (fun d => 0 <= d < 2 ^ 32) sh ->
      read_shape (length sh) (flat_map (fun d => le 4 (d mod 2 ^ 32)) sh ++ tail) = Some (sh, tail).
    Proof.
      induction sh; intros tail Hf; cbn [length flat_map read_shape app]; [reflexivity|].
      inversion Hf; subst. rewrite <- app_assoc.
      rewrite <- (le_length 4 (a mod 2 ^ 32)) at 1. rewrite take_app. cbn [obind].
      rewrite IHsh by assumption. cbn [obind]. f_equal. f_equal. f_equal.
      rewrite Z.mod_small by lia. apply le_horner. change (2 ^ (8 * Z.of_nat 4)) with (2 ^ 32). lia.
    Qed.

    Lemma parse_shape_ok : forall sh tail, (length sh <= 255)%nat -> Forall (fun d => 0 <= d < 2 ^ 32) sh ->
      parse_shape (write_shape sh ++ tail) = Some (sh, tail).
    Proof.
      intros sh tail Hr Hf. unfold write_shape, parse_shape. cbn [app].
      rewrite Z.mod_small by lia. rewrite Nat2Z.id. apply read_shape_ok. assumption.
    Qed.

    Lemma zprod_zero : forall sh, existsb (Z.eqb 0) sh = true -> zprod sh = 0.
    Proof.
      induction sh; intros H; cbn [existsb] in H; [discriminate|]. unfold zprod. cbn [fold_right].
      apply orb_true_iff in H. destruct H as [H|H]; [apply Z.eqb_eq in H; subst; reflexivity|].
      fold (zprod sh). rewrite IHsh by assumption. lia.
    Qed.
    Lemma count_of_ok : forall sh, nz_prod sh <= 2 ^ 63 -> count_of sh = Some (zprod sh).
    Proof.
      intros sh H. unfold count_of. destruct (existsb (Z.eqb 0) sh) eqn:E; [|reflexivity].
      rewrite zprod_zero by assumption. destruct (Z.ltb_spec (2 ^ 63) (nz_prod sh)); [lia | reflexivity].
    Qed.

    (** the bytes write_ty_meta produces; [kb] = the encoding of the map keys, if any *)
    Definition meta_bytes (code : Z) (h : hdr) (k : option bval) (kb : option (list Z)) : list Z :=
      if has_meta h k
      then [code + 128; flags h] ++ le 4 (Z.of_nat (length (label h)) mod 2 ^ 32) ++ label h
           ++ match kb with Some b => 1 :: b | None => [0] end
      else [code].
    Lemma write_meta_none : forall code h, write_meta code h None None = Some (meta_bytes code h None None).
    Proof. intros. unfold write_meta, meta_bytes. destruct (has_meta h None); reflexivity. Qed.
    Lemma write_meta_some : forall code h kv b, write_meta code h (Some kv) (Some b) = Some (meta_bytes code h (Some kv) (Some b)).
    Proof. intros. unfold write_meta, meta_bytes. destruct (has_meta h (Some kv)); reflexivity. Qed.
    Lemma meta_bytes_nonempty : forall code h k kb, (1 <= length (meta_bytes code h k kb))%nat.
    Proof. intros. unfold meta_bytes. destruct (has_meta h k); cbn [app length]; lia. Qed.
    Lemma has_meta_some : forall h kv, has_meta h (Some kv) = true.
    Proof. intros. unfold has_meta. rewrite andb_false_r. apply orb_true_r. Qed.

    Definition valid_code (code : Z) : bool :=
      orb (orb (code <=? 9) (code =? 16)) (orb (code =? 32) (code =? 48)).

    Definition dec_hdr (h : hdr) (k : option bval) : hdr :=
      {| alloc := has_meta h k; flags := flags h; label := label h; shape := shape h |}.

    (** type byte, metadata (with the map keys, read by the recursive call [rec]) and shape are read
        back; what remains is the payload parser.  [k'] = the keys the decoder installs *)
    Lemma parse_header : forall rec code h k kb k' tail, wf_hdr h -> 0 <= code < 128 -> valid_code code = true ->
      match kb with
      | None => k = None /\ k' = None
      | Some b => k <> None /\ exists k0, rec (b ++ write_shape (shape h) ++ tail) = Some (k0, write_shape (shape h) ++ tail)
                                          /\ k' = Some (norm_keys ops k0)
      end ->
      parse_value ops rec (meta_bytes code h k kb ++ write_shape (shape h) ++ tail) =
      obind (parse_payload ops rec code (dec_hdr h k) (zprod (shape h)) tail)
            (fun '(v, rest) => finish v (dec_hdr h k) k' rest).
    Proof.
      intros rec code h k kb k' tail (Hfl & (cps & Hl) & Hll & Hr & Hd & Hnz) Hc Hv Hk.
      pose proof (count_of_ok (shape h) Hnz) as Hco.
      unfold meta_bytes, dec_hdr. destruct (has_meta h k) eqn:Hm.
      - cbn [app parse_value].
        replace (128 <=? code + 128) with true by (symmetry; apply Z.leb_le; lia).
        assert (Em : (code + 128) mod 128 = code).
        { replace (code + 128) with (code + 1 * 128) by lia. rewrite Z.mod_add by lia. apply Z.mod_small. lia. }
        rewrite Em.
        fold (valid_code code). rewrite Hv. cbn [negb].
        unfold parse_meta.
        replace (15 <? flags h) with false by (symmetry; apply Z.ltb_ge; lia).
        rewrite <- app_assoc.
        rewrite <- (le_length 4 (Z.of_nat (length (label h)) mod 2 ^ 32)) at 1. rewrite take_app. cbn [obind].
        rewrite le_horner by (change (2 ^ (8 * Z.of_nat 4)) with (2 ^ 32); apply Z.mod_pos_bound; reflexivity).
        rewrite Z.mod_small by lia. rewrite <- !app_assoc. rewrite takeZ_app. cbn [obind].
        rewrite Hl. destruct kb as [b|].
        + destruct Hk as (_ & k0 & Ek & ->). cbn [app]. cbn [Z.eqb]. rewrite Ek. cbn [obind].
          rewrite parse_shape_ok by assumption. cbn [obind shape]. rewrite Hco. reflexivity.
        + destruct Hk as (_ & ->). cbn [app]. cbn [Z.eqb obind].
          rewrite parse_shape_ok by assumption. cbn [obind shape]. rewrite Hco. reflexivity.
      - (* no metadata: no keys, and the header fields are the defaults *)
        assert (k = None) as -> by (destruct k; [rewrite has_meta_some in Hm; discriminate | reflexivity]).
        destruct kb as [b|]; [destruct Hk as [Hk _]; congruence|]. destruct Hk as (_ & ->).
        cbn [app parse_value].
        replace (128 <=? code) with false by (symmetry; apply Z.leb_gt; lia).
        rewrite Z.mod_small by lia. fold (valid_code code). rewrite Hv. cbn [negb parse_meta obind].
        rewrite parse_shape_ok by assumption. cbn [obind shape]. rewrite Hco. cbn [obind].
        unfold has_meta in Hm. apply orb_false_iff in Hm. destruct Hm as [Ha Hm]. apply negb_false_iff in Hm.
        apply andb_true_iff in Hm. destruct Hm as [Hm _]. apply andb_true_iff in Hm. destruct Hm as [Hf0 Hl0].
        apply Z.eqb_eq in Hf0. destruct (label h) eqn:El; [|discriminate]. rewrite Hf0. reflexivity.
    Qed.

    (** ** payload *)
    Lemma read_elems_ok : forall w rows rest, (0 < w)%nat -> Forall (fun r => length r = w) rows ->
      read_elems w (Z.of_nat (length rows)) (concat rows ++ rest) = Some (rows, rest).
    Proof.
      intros w rows rest Hw Hf. unfold read_elems.
      pose proof (concat_length_eq w rows Hf) as Hc.
      rewrite app_length, Hc.
      replace (Z.of_nat (length rows * w + length rest) <? Z.of_nat (length rows) * Z.of_nat w) with false
        by (symmetry; apply Z.ltb_ge; rewrite Nat2Z.inj_add, Nat2Z.inj_mul; lia).
      rewrite Nat2Z.id, <- Hc, firstn_app_exact, skipn_app_exact.
      rewrite chunks_concat by (try assumption; lia). reflexivity.
    Qed.

    Lemma Forall2_map_in : forall (A B : Type) (R : A -> B -> Prop) (f : A -> B) l,
      (forall x, In x l -> R x (f x)) -> Forall2 R l (map f l).
    Proof.
      induction l; intros H; cbn [map]; constructor.
      - apply H. left. reflexivity.
      - apply IHl. intros x Hx. apply H. right. assumption.
    Qed.

    Lemma firstn_app_len : forall (x y : list Z) n, length x = n -> firstn n (x ++ y) = x.
    Proof. intros x y n <-. apply firstn_app_exact. Qed.
    Lemma skipn_app_len : forall (x y : list Z) n, length x = n -> skipn n (x ++ y) = y.
    Proof. intros x y n <-. apply skipn_app_exact. Qed.

    Lemma concat_singletons : forall d : list Z, concat (map (fun b => [b]) d) = d.
    Proof. induction d; cbn; [reflexivity | rewrite IHd; reflexivity]. Qed.

    Lemma ty_code_facts : forall t, (ty_code t <=? 9) = true /\ ty_of_code (ty_code t) = Some t /\
      (0 < width_of t)%nat /\ 0 <= ty_code t < 128 /\ valid_code (ty_code t) = true.
    Proof. destruct t; cbn; repeat split; try reflexivity; lia. Qed.

    (** the payload of a leaf is read back as a matching leaf *)
    Lemma parse_leaf : forall rec h' count p rest, wf_leaf count p ->
      exists p', parse_payload ops rec (fst (write_leaf ops p)) h' count (snd (write_leaf ops p) ++ rest)
                 = Some (BLeaf h' None p', rest) /\ pmatch p p' /\
                 valid_code (fst (write_leaf ops p)) = true /\ 0 <= fst (write_leaf ops p) < 128.
    Proof.
      intros rec h' count p rest Hwf. destruct p as [d|d|d|d]; cbn [wf_leaf] in Hwf.
      - (* numbers *)
        destruct Hwf as [Hlen Hnum]. cbn [write_leaf fst snd].
        assert (Hel : forall n, In n d ->
                  match choose ops d with
                  | U8 => to_int ops n = Some (read_num ops (choose ops d) (write_num ops (choose ops d) n)) /\
                          of_int ops (read_num ops (choose ops d) (write_num ops (choose ops d) n)) = n
                  | _ => read_num ops (choose ops d) (write_num ops (choose ops d) n) = n
                  end) by (intros n Hin; apply (elem_roundtrip ops laws d n Hnum Hin)).
        set (t := choose ops d) in *. clearbody t.
        destruct (ty_code_facts t) as (F1 & F2 & F3 & F4 & F5).
        unfold parse_payload. rewrite F1, F2. rewrite flat_map_concat_map.
        rewrite <- Hlen. rewrite <- (map_length (write_num ops t) d).
        rewrite read_elems_ok; [| assumption |
          rewrite Forall_forall; intros r Hr; rewrite in_map_iff in Hr; destruct Hr as [n [<- _]]; apply write_num_length].
        cbn [obind]. rewrite map_map.
        destruct t; eexists; (split; [reflexivity|]); (split; [|split; assumption]); cbn [pmatch];
          first [ apply Forall2_map_in; exact Hel
                | rewrite <- (map_id d) at 2; apply map_ext_in; exact Hel ].
      - (* bytes *)
        destruct Hwf as [Hlen Hb]. cbn [write_leaf fst snd ty_code]. exists (LByte d).
        split; [|split; [reflexivity | split; [reflexivity | lia]]].
        unfold parse_payload. cbn [Z.leb Z.compare ty_of_code width_of].
        rewrite <- (concat_singletons d) at 1. rewrite <- Hlen. rewrite <- (map_length (fun b => [b]) d).
        rewrite read_elems_ok; [| lia | rewrite Forall_forall; intros r Hr; rewrite in_map_iff in Hr; destruct Hr as [n [<- _]]; reflexivity].
        cbn [obind]. rewrite map_map. do 4 f_equal.
        rewrite <- (map_id d) at 2. apply map_ext. intros b. cbn [read_num horner]. lia.
      - (* characters *)
        destruct Hwf as (Hlen & Hv & Hl). cbn [write_leaf fst snd]. exists (LChar d).
        split; [|split; [reflexivity | split; [reflexivity | unfold CHAR; lia]]].
        unfold parse_payload, CHAR. cbn [Z.leb Z.eqb Z.compare Pos.compare Pos.compare_cont Pos.eqb].
        rewrite <- app_assoc.
        rewrite <- (le_length 4 (Z.of_nat (length (Utf8.utf8 d)) mod 2 ^ 32)) at 1. rewrite take_app. cbn [obind].
        rewrite le_horner by (change (2 ^ (8 * Z.of_nat 4)) with (2 ^ 32); apply Z.mod_pos_bound; reflexivity).
        rewrite Z.mod_small by lia. rewrite takeZ_app. cbn [obind].
        rewrite Utf8P.un_utf8_utf8 by assumption. rewrite Hlen, Z.eqb_refl. reflexivity.
      - (* complex *)
        destruct Hwf as [Hlen Hc]. cbn [write_leaf fst snd]. exists (LCplx d).
        split; [|split; [reflexivity | split; [reflexivity | unfold COMPLEX; lia]]].
        unfold parse_payload, COMPLEX. cbn [Z.leb Z.eqb Z.compare Pos.compare Pos.compare_cont Pos.eqb].
        rewrite flat_map_concat_map. rewrite <- Hlen.
        rewrite <- (map_length (fun c : Z * Z => le 8 (fst c) ++ le 8 (snd c)) d).
        rewrite read_elems_ok; [| lia |
          rewrite Forall_forall; intros r Hr; rewrite in_map_iff in Hr; destruct Hr as [c [<- _]];
          rewrite app_length, !le_length; reflexivity].
        cbn [obind]. rewrite map_map. do 4 f_equal.
        rewrite <- (map_id d) at 2. apply map_ext_in. intros [a b] Hin.
        rewrite Forall_forall in Hc. destruct (Hc _ Hin) as [Ha Hb]. cbn [fst snd] in *. unfold wfnum in *.
        rewrite firstn_app_len, skipn_app_len by apply le_length.
        rewrite !le_horner by (change (2 ^ (8 * Z.of_nat 8)) with (2 ^ 64); lia). reflexivity.
    Qed.

    (** ** boxes *)
    Definition enc_list (f : bval -> option (list Z)) : list bval -> option (list Z) :=
      fix go (l : list bval) : option (list Z) :=
        match l with
        | [] => Some []
        | x :: t => obind (f x) (fun bx => obind (go t) (fun bt => Some (bx ++ bt)))
        end.
    Definition bmatch_list : list bval -> list bval -> Prop :=
      fix all2 (l l' : list bval) : Prop :=
        match l, l' with
        | [], [] => True
        | x :: t, x' :: t' => bmatch x x' /\ all2 t t'
        | _, _ => False
        end.
    Definition wf_list : list bval -> Prop :=
      fix all (l : list bval) : Prop := match l with [] => True | x :: t => wf x /\ all t end.
    Definition height_list : list bval -> nat :=
      fix hl (l : list bval) : nat := match l with [] => O | x :: t => Nat.max (S (height x)) (hl t) end.

    (** the statement proved by induction on the value *)
    Definition RT (v : bval) : Prop := forall d, wf v -> (d + height v <= MAX_DEPTH)%nat ->
      exists bs, to_binary ops d v = Some bs /\ (1 <= length bs)%nat /\
        forall rest, exists v', from_binary ops (S (MAX_DEPTH - d)) (bs ++ rest) = Some (v', rest) /\ bmatch v v'.

    Lemma box_elems : forall d l, Forall RT l -> wf_list l -> (d + height_list l <= MAX_DEPTH)%nat ->
      exists body, enc_list (to_binary ops (S d)) l = Some body /\ (length l <= length body)%nat /\
        forall rest, exists l', read_boxes (from_binary ops (MAX_DEPTH - d)) (length l) (body ++ rest) = Some (l', rest)
                                /\ bmatch_list l l'.
    Proof.
      intros d l. induction l as [|x t IH]; intros HRT Hwf Hh.
      - exists []. split; [reflexivity|]. split; [cbn; lia|]. intros rest. exists []. split; [reflexivity | exact I].
      - inversion HRT; subst. cbn [wf_list] in Hwf. destruct Hwf as [Hwx Hwt]. cbn [height_list] in Hh.
        destruct (H1 (S d) Hwx ltac:(lia)) as (bx & Ex & Lx & Dx).
        destruct (IH H2 Hwt ltac:(lia)) as (bt & Et & Lt & Dt).
        exists (bx ++ bt). split; [cbn [enc_list]; rewrite Ex; cbn [obind]; fold (enc_list (to_binary ops (S d))); rewrite Et; reflexivity|].
        split; [rewrite app_length; cbn [length]; lia|].
        intros rest. destruct (Dx (bt ++ rest)) as (x' & Ex' & Mx). destruct (Dt rest) as (t' & Et' & Mt).
        exists (x' :: t'). split; [|split; assumption].
        cbn [length read_boxes]. rewrite <- app_assoc.
        replace (MAX_DEPTH - d)%nat with (S (MAX_DEPTH - S d)) by (unfold MAX_DEPTH in *; lia).
        rewrite Ex'. cbn [obind].
        replace (S (MAX_DEPTH - S d)) with (MAX_DEPTH - d)%nat by (unfold MAX_DEPTH in *; lia).
        rewrite Et'. reflexivity.
    Qed.

    Lemma hmatch_dec : forall h k, hmatch h (dec_hdr h k).
    Proof. intros. unfold hmatch, dec_hdr. cbn. repeat split; reflexivity. Qed.

    (** ** map keys *)
    Lemma row_count_shape : forall v, row_count v = rc_shape (shape_of v).
    Proof. destruct v; reflexivity. Qed.
    Lemma bmatch_shape : forall v v', bmatch v v' -> shape_of v' = shape_of v.
    Proof.
      destruct v, v'; cbn [bmatch shape_of]; intros H; try contradiction;
        destruct H as (_ & (_ & _ & Hs) & _); exact Hs.
    Qed.
    Lemma row_count_norm : forall k, row_count (norm_keys ops k) = row_count k.
    Proof.
      destruct k as [h ks p|h ks l]; [|reflexivity]. destruct p; try reflexivity.
      unfold norm_keys. destruct (shape h) eqn:E; [reflexivity|]. destruct (z =? 0); [reflexivity|].
      unfold row_count. cbn [shape]. rewrite E. reflexivity.
    Qed.
    Lemma write_meta_ok : forall code h k kb,
      match k with Some _ => kb <> None | None => kb = None end ->
      write_meta code h k kb = Some (meta_bytes code h k kb).
    Proof.
      intros code h k kb H. destruct k as [kv|]; [destruct kb as [b|]; [apply write_meta_some | congruence] | subst; apply write_meta_none].
    Qed.

    Definition kheight (k : option bval) : nat := match k with None => O | Some kv => S (height kv) end.
    Definition kmatch (k k' : option bval) : Prop :=
      match k, k' with
      | None, None => True
      | Some a, Some b => exists b0, b = norm_keys ops b0 /\ bmatch a b0
      | _, _ => False
      end.

    (** the keys are encoded one level deeper, and read back by the recursive call as keys that match *)
    Lemma keys_part : forall d k sh, okP RT k ->
      match k with None => True | Some kv => wf kv /\ row_count kv = rc_shape sh end ->
      (d + kheight k <= MAX_DEPTH)%nat ->
      exists kb, match k with Some kv => to_binary ops (S d) kv | None => None end = kb /\
        match k with Some _ => kb <> None | None => kb = None end /\
        forall T, exists k',
          match kb with
          | None => k = None /\ k' = None
          | Some b => k <> None /\ exists k0, from_binary ops (MAX_DEPTH - d) (b ++ T) = Some (k0, T)
                                              /\ k' = Some (norm_keys ops k0)
          end /\ kmatch k k' /\ match k' with None => True | Some kk => row_count kk = rc_shape sh end.
    Proof.
      intros d k sh HRT Hwf Hd. destruct k as [kv|]; cbn [okP kheight] in *.
      - destruct Hwf as [Hwk Hrc]. destruct (HRT (S d) Hwk ltac:(lia)) as (bs & E & _ & D).
        exists (Some bs). split; [assumption|]. split; [discriminate|].
        intros T. destruct (D T) as (k0 & E0 & M0). exists (Some (norm_keys ops k0)).
        split; [split; [discriminate|]; exists k0; split; [|reflexivity];
                replace (MAX_DEPTH - d)%nat with (S (MAX_DEPTH - S d)) by (unfold MAX_DEPTH in *; lia); assumption|].
        split; [exists k0; split; [reflexivity | assumption]|].
        rewrite row_count_norm, row_count_shape, (bmatch_shape _ _ M0), <- row_count_shape. assumption.
      - exists None. split; [reflexivity|]. split; [reflexivity|]. intros T. exists None.
        split; [split; reflexivity|]. split; exact I.
    Qed.

    Lemma finish_ok : forall v h k' rest,
      match k' with None => True | Some kk => row_count kk = row_count v end ->
      finish v h k' rest = Some (set_keys v h k', rest).
    Proof. intros v h [kk|] rest H; cbn [finish]; [rewrite H, Z.eqb_refl|]; reflexivity. Qed.

    Theorem roundtrip_all : forall v, RT v.
    Proof.
      apply bval_ind'.
      - (* leaves *)
        intros h k p Hk d Hwf Hd. cbn [wf] in Hwf. destruct Hwf as (Hwk & Hh & Hp).
        change (height (BLeaf h k p)) with (kheight k) in Hd.
        destruct (keys_part d k (shape h) Hk Hwk Hd) as (kb & Ekb & Hcons & Dk).
        destruct (parse_leaf (from_binary ops (MAX_DEPTH - d)) (dec_hdr h k) (zprod (shape h)) p) with (rest := @nil Z) as (_ & _ & _ & Hv & Hc); [assumption|].
        cbn [to_binary]. cbv zeta. rewrite Ekb.
        replace (Nat.ltb MAX_DEPTH d) with false by (symmetry; apply Nat.ltb_ge; lia).
        assert (Hr : Nat.ltb 255 (length (shape h)) = false) by (apply Nat.ltb_ge; destruct Hh as (_ & _ & _ & Hr & _ & _); assumption).
        rewrite Hr. destruct (write_leaf ops p) as [code payload] eqn:Ew. cbn [fst snd] in *.
        rewrite write_meta_ok by assumption. cbn [obind].
        eexists. split; [reflexivity|]. split; [rewrite app_length; pose proof (meta_bytes_nonempty code h k kb); lia|].
        intros rest.
        destruct (parse_leaf (from_binary ops (MAX_DEPTH - d)) (dec_hdr h k) (zprod (shape h)) p rest Hp) as (p' & Ep & Mp & _ & _).
        rewrite Ew in Ep. cbn [fst snd] in Ep.
        destruct (Dk (write_shape (shape h) ++ payload ++ rest)) as (k' & Hk' & Mk & Hrc).
        exists (BLeaf (dec_hdr h k) k' p'). split.
        + cbn [from_binary]. rewrite <- !app_assoc. rewrite (parse_header _ code h k kb k') by assumption.
          rewrite Ep. cbn [obind]. rewrite finish_ok; [reflexivity|].
          destruct k'; [|exact I]. rewrite Hrc. reflexivity.
        + cbn [bmatch]. split; [exact Mk|]. split; [apply hmatch_dec | assumption].
      - (* boxes *)
        intros h k l Hk IH d Hwf Hd. cbn [wf] in Hwf. destruct Hwf as (Hwk & Hh & Hlen & Hall).
        change ((fix all (l : list bval) : Prop := match l with [] => True | x :: t => wf x /\ all t end) l) with (wf_list l) in Hall.
        change (height (BBox h k l)) with (Nat.max (kheight k) (height_list l)) in Hd.
        destruct (keys_part d k (shape h) Hk Hwk ltac:(lia)) as (kb & Ekb & Hcons & Dk).
        destruct (box_elems d l IH Hall ltac:(lia)) as (body & Eb & Lb & Db).
        change (to_binary ops d (BBox h k l)) with
          (if Nat.ltb MAX_DEPTH d then None else
           if Nat.ltb 255 (length (shape h)) then None else
           obind (write_meta BOX h k (match k with Some kv => to_binary ops (S d) kv | None => None end)) (fun m =>
           obind (enc_list (to_binary ops (S d)) l) (fun body => Some (m ++ write_shape (shape h) ++ body)))).
        rewrite Ekb.
        replace (Nat.ltb MAX_DEPTH d) with false by (symmetry; apply Nat.ltb_ge; lia).
        assert (Hr : Nat.ltb 255 (length (shape h)) = false) by (apply Nat.ltb_ge; destruct Hh as (_ & _ & _ & Hr & _ & _); assumption).
        rewrite Hr, write_meta_ok, Eb by assumption. cbn [obind].
        eexists. split; [reflexivity|]. split; [rewrite app_length; pose proof (meta_bytes_nonempty BOX h k kb); lia|].
        intros rest. destruct (Db rest) as (l' & El & Ml).
        destruct (Dk (write_shape (shape h) ++ body ++ rest)) as (k' & Hk' & Mk & Hrc).
        exists (BBox (dec_hdr h k) k' l'). split.
        + cbn [from_binary]. rewrite <- !app_assoc.
          rewrite (parse_header _ BOX h k kb k') by (try assumption; unfold BOX; try lia; reflexivity).
          unfold parse_payload, BOX. cbn [Z.leb Z.eqb Z.compare Pos.compare Pos.compare_cont Pos.eqb].
          replace (Z.of_nat (length (body ++ rest)) <? zprod (shape h)) with false
            by (symmetry; apply Z.ltb_ge; rewrite <- Hlen, app_length; lia).
          rewrite <- Hlen, Nat2Z.id, El. cbn [obind]. rewrite finish_ok; [reflexivity|].
          destruct k'; [|exact I]. rewrite Hrc. reflexivity.
        + change (bmatch (BBox h k l) (BBox (dec_hdr h k) k' l')) with
            (kmatch k k' /\ hmatch h (dec_hdr h k) /\ bmatch_list l l').
          split; [exact Mk|]. split; [apply hmatch_dec | assumption].
    Qed.

    (** °binary (binary v) matches v *)
    Theorem from_binary_to_binary : forall v, wf v -> (height v <= MAX_DEPTH)%nat ->
      exists bs, to_binary_top ops v = Some bs /\
        (exists v', from_binary_top ops bs = Some v' /\ bmatch v v') /\
        forall rest, exists v', from_binary ops (S MAX_DEPTH) (bs ++ rest) = Some (v', rest) /\ bmatch v v'.
    Proof.
      intros v Hwf Hh. destruct (roundtrip_all v 0%nat Hwf ltac:(lia)) as (bs & E & _ & D).
      exists bs. split; [exact E|]. split.
      - destruct (D []) as (v' & Ev & Mv). exists v'. split; [|assumption].
        unfold from_binary_top. rewrite app_nil_r in Ev. rewrite Nat.sub_0_r in Ev. rewrite Ev. reflexivity.
      - intros rest. destruct (D rest) as (v' & Ev & Mv). exists v'. rewrite Nat.sub_0_r in Ev. split; assumption.
    Qed.
  End WithOps.
End BinS.
