(** C07 — each transcribed depth kernel is a blockwise kernel; with the generic theorem this gives
    kernel = iterated rows of the primitive. *)
From Coq Require Import List ZArith NArith Bool Arith Lia.
From UV Require Import Model.Prims Model.Kernels Proofs.Prims Proofs.KernelsBase.
Import ListNotations.

Lemma mapM_ok_map {A B} (h : A -> B) l : mapM (fun a => Ok (h a)) l = Ok (map h l).
Proof. induction l; cbn [mapM map bind]; auto. rewrite IHl. reflexivity. Qed.

Lemma map_id_in {A} (h : A -> A) l : (forall a, In a l -> h a = a) -> map h l = l.
Proof. induction l; intros H; cbn; auto. rewrite H by (left; auto). rewrite IHl; auto. intros; apply H; right; auto. Qed.

Lemma wf_blocks_len d x : wf x -> length (adata x) = prodn (firstn d (ash x)) * prodn (skipn d (ash x)).
Proof. intros W. rewrite prodn_firstn_skipn. exact W. Qed.
Lemma blocks_concat d x : wf x -> concat (blocks d x) = adata x.
Proof. intros W. unfold blocks. apply concat_chunk. apply wf_blocks_len; auto. Qed.
Lemma blocks_len d x : wf x -> Forall (fun b => length b = prodn (skipn d (ash x))) (blocks d x).
Proof. intros W. unfold blocks. apply chunk_rows_len. apply wf_blocks_len; auto. Qed.
Lemma lead_pos_prod d sh : lead_pos d sh -> 0 < prodn (firstn d sh).
Proof.
  unfold lead_pos. generalize (firstn d sh) as l. induction 1; [cbn; lia|]. rewrite prodn_cons. nia.
Qed.
Lemma blocks_count d x : length (blocks d x) = prodn (firstn d (ash x)).
Proof. unfold blocks. apply chunk_length. Qed.
Lemma skipn_nil_firstn {A} d (l : list A) : skipn d l = [] -> firstn d l = l.
Proof. intros H. rewrite <- (firstn_skipn d l) at 2. rewrite H, app_nil_r. reflexivity. Qed.
Lemma dmin_le d x : dmin d x <= length (ash x).
Proof. unfold dmin; lia. Qed.
Lemma lead_pos_dmin d x : lead_pos d (ash x) -> lead_pos (dmin d x) (ash x).
Proof.
  unfold lead_pos, dmin. intros H. destruct (Nat.le_gt_cases d (length (ash x))).
  - rewrite Nat.min_l; auto.
  - rewrite Nat.min_r by lia. rewrite firstn_all. rewrite firstn_all2 in H by lia. auto.
Qed.

(** extensionality of iterated rows over well-formed arrays *)
Lemma rows_iter_ext F G : (forall y, wf y -> F y = G y) ->
  forall d x, wf x -> rows_iter d F x = rows_iter d G x.
Proof.
  intros H. induction d; intros x W; cbn [rows_iter]; auto.
  apply rows_def_ext; [|intros; apply IHd; auto].
  intros r Hr. destruct (ash x) as [|n s] eqn:E.
  - unfold rows in Hr. rewrite E in Hr. cbn in Hr. destruct Hr as [<-|[]]. apply IHd.
    unfold wf in *. cbn [adata ash]. rewrite E in W. cbn [rowsh tl]. exact W.
  - pose proof (rows_wf x n s W E) as Fa. rewrite Forall_forall in Fa. apply IHd. apply (Fa r Hr).
Qed.

(* ------------------------------------------------------------------ data-preserving kernels: fix, deshape *)

Definition bk_same (shf : list nat -> list nat) : bk := BK shf (fun t => t) (fun _ _ blk => Ok blk).
Lemma run_bk_same shf d x : wf x ->
  run_bk (bk_same shf) d x =
  Ok (Arr (aty x) (firstn (dmin d x) (ash x) ++ shf (skipn (dmin d x) (ash x))) (adata x)).
Proof.
  intros W. unfold run_bk, bk_same; cbn [bk_data bk_ty bk_shape].
  rewrite (mapM_ok_map (fun b => b)), map_id. cbn [bind]. rewrite blocks_concat; auto.
Qed.

Lemma k_fix_bk d x : wf x -> Ok (k_fix d x) = run_bk (bk_same (cons 1%nat)) d x.
Proof. intros W. rewrite run_bk_same; auto. Qed.
Lemma k_deshape_bk d x : wf x -> Ok (k_deshape d x) = run_bk (bk_same (fun rs => [prodn rs])) d x.
Proof. intros W. rewrite run_bk_same; auto. Qed.
Lemma fix_bk0 x : wf x -> run_bk (bk_same (cons 1%nat)) 0 x = sem FFix x.
Proof. intros W. rewrite run_bk_same; auto. Qed.
Lemma deshape_bk0 x : wf x -> run_bk (bk_same (fun rs => [prodn rs])) 0 x = sem FDeshape x.
Proof. intros W. rewrite run_bk_same; auto. Qed.

(* ------------------------------------------------------------------ reverse *)

Definition bk_rev : bk := BK (fun rs => rs) (fun t => t)
  (fun _ rs blk => match rs with [] => Ok blk | n :: rest => Ok (rev_block n (prodn rest) blk) end).

Lemma chunk_nil {A} c n : concat (rev (chunk c n (@nil A))) = [].
Proof.
  induction n; cbn [chunk rev concat]; auto.
  rewrite firstn_nil, skipn_nil, concat_app, IHn. reflexivity.
Qed.

Lemma k_reverse_bk d x : wf x -> Ok (k_reverse d x) = run_bk bk_rev d x.
Proof.
  intros W. unfold run_bk, k_reverse, bk_rev; cbn [bk_data bk_ty bk_shape].
  rewrite firstn_skipn.
  destruct (skipn (dmin d x) (ash x)) as [|n rest] eqn:E.
  - rewrite (mapM_ok_map (fun b => b)), map_id. cbn [bind]. rewrite blocks_concat; auto. destruct x; reflexivity.
  - rewrite (mapM_ok_map (rev_block n (prodn rest))). cbn [bind].
    destruct (Nat.eqb (prodn (n :: rest)) 0) eqn:Z; [|reflexivity].
    apply Nat.eqb_eq in Z.
    rewrite map_id_in.
    + rewrite blocks_concat; auto. destruct x; reflexivity.
    + intros a Ha. pose proof (blocks_len (dmin d x) x W) as F. rewrite Forall_forall in F.
      specialize (F a Ha). rewrite E, Z in F. destruct a; [|discriminate]. unfold rev_block. apply chunk_nil.
Qed.

Lemma rev_bk0 x : wf x -> run_bk bk_rev 0 x = sem FRev x.
Proof.
  intros W. destruct x as [t sh dat]. unfold run_bk, dmin, blocks, bk_rev, wf in *; cbn [aty ash adata bk_data bk_ty bk_shape Nat.min firstn skipn app prodn fold_right chunk] in *.
  rewrite <- W, firstn_all.
  destruct sh as [|n s]; cbn [mapM bind concat sem p_reverse ash aty adata]; rewrite app_nil_r; reflexivity.
Qed.

(* ------------------------------------------------------------------ first / last *)

Definition bk_first : bk := BK (@tl nat) (fun t => t)
  (fun _ rs blk => match rs with [] => Ok blk | O :: _ => Err | _ :: rest => Ok (firstn (prodn rest) blk) end).
Definition bk_last : bk := BK (@tl nat) (fun t => t)
  (fun _ rs blk => match rs with [] => Ok blk | O :: _ => Err | n :: rest => Ok (skipn ((n - 1) * prodn rest) blk) end).

Lemma first_bk0 x : wf x -> run_bk bk_first 0 x = sem FFirst x.
Proof.
  intros W. destruct x as [t sh dat]. unfold run_bk, dmin, blocks, bk_first, wf in *; cbn [aty ash adata bk_data bk_ty bk_shape Nat.min firstn skipn app prodn fold_right chunk] in *.
  rewrite <- W, firstn_all. cbn [sem p_first ash].
  destruct sh as [|[|n] s]; cbn [mapM bind concat tl aty adata]; try reflexivity; rewrite app_nil_r; reflexivity.
Qed.
Lemma last_bk0 x : wf x -> run_bk bk_last 0 x = sem FLast x.
Proof.
  intros W. destruct x as [t sh dat]. unfold run_bk, dmin, blocks, bk_last, wf in *; cbn [aty ash adata bk_data bk_ty bk_shape Nat.min firstn skipn app prodn fold_right chunk] in *.
  rewrite <- W, firstn_all. cbn [sem p_last ash].
  destruct sh as [|[|n] s]; cbn [mapM bind concat tl aty adata]; try reflexivity; rewrite app_nil_r; try reflexivity.
  rewrite Nat.sub_succ, Nat.sub_0_r. reflexivity.
Qed.

Lemma mapM_err_head {A B} (f : A -> res B) l : 0 < length l -> (forall a, In a l -> f a = Err) -> mapM f l = Err.
Proof. destruct l; cbn; [lia|]. intros _ H. rewrite H by (left; auto). reflexivity. Qed.

Lemma existsb_zero_prod l : existsb (Nat.eqb 0) l = true -> prodn l = 0.
Proof.
  induction l as [|a l IH]; cbn [existsb]; [discriminate|]. intros H. rewrite prodn_cons.
  destruct a; [reflexivity|]. cbn in H. rewrite (IH H). lia.
Qed.
Lemma existsb_zero_pos l : existsb (Nat.eqb 0) l = false -> Forall (fun n => 0 < n) l.
Proof.
  induction l as [|a l IH]; cbn [existsb]; intros H; constructor.
  - destruct a; [discriminate|lia].
  - apply IH. destruct a; [discriminate|exact H].
Qed.
Lemma wf_no_cells_nil d x : wf x -> existsb (Nat.eqb 0) (firstn d (ash x)) = true -> adata x = [] /\ blocks d x = [].
Proof.
  intros W H. apply existsb_zero_prod in H. split.
  - pose proof (wf_blocks_len d x W) as L. rewrite H in L. destruct (adata x); [reflexivity|discriminate].
  - unfold blocks. rewrite H. reflexivity.
Qed.

(** the current first/last kernels are blockwise on EVERY well-formed array *)
Lemma k_first_bk d x : wf x -> k_first false d x = run_bk bk_first d x.
Proof.
  intros W. unfold k_first.
  destruct (dmin d x) as [|dm] eqn:Ed.
  - change (p_first None x) with (sem FFirst x). rewrite <- first_bk0; auto. unfold run_bk. rewrite Ed. unfold dmin. rewrite Nat.min_0_l. reflexivity.
  - unfold run_bk. rewrite Ed. unfold bk_first; cbn [bk_data bk_ty bk_shape].
    pose proof (blocks_len (S dm) x W) as F. rewrite Forall_forall in F.
    destruct (skipn (S dm) (ash x)) as [|n rest] eqn:E.
    + rewrite (mapM_ok_map (fun b => b)), map_id. cbn [bind tl]. rewrite blocks_concat, app_nil_r, skipn_nil_firstn; auto. destruct x; reflexivity.
    + unfold no_cells. cbn [negb andb]. destruct (existsb (Nat.eqb 0) (firstn (S dm) (ash x))) eqn:Z.
      * destruct (wf_no_cells_nil (S dm) x W Z) as [D B]. rewrite B, D. reflexivity.
      * apply existsb_zero_pos in Z.
        destruct n as [|[|n]].
        -- rewrite mapM_err_head; auto. rewrite blocks_count. apply lead_pos_prod; auto.
        -- rewrite (mapM_ok_map (firstn (prodn rest))). cbn [bind tl]. rewrite map_id_in, blocks_concat; auto.
           intros a Ha. specialize (F a Ha). rewrite prodn_cons in F. apply firstn_all2. lia.
        -- rewrite (mapM_ok_map (firstn (prodn rest))). reflexivity.
Qed.

Lemma k_last_bk d x : wf x -> k_last false d x = run_bk bk_last d x.
Proof.
  intros W. unfold k_last.
  destruct (dmin d x) as [|dm] eqn:Ed.
  - change (p_last None x) with (sem FLast x). rewrite <- last_bk0; auto. unfold run_bk. rewrite Ed. unfold dmin. rewrite Nat.min_0_l. reflexivity.
  - unfold run_bk. rewrite Ed. unfold bk_last; cbn [bk_data bk_ty bk_shape].
    destruct (skipn (S dm) (ash x)) as [|n rest] eqn:E.
    + rewrite (mapM_ok_map (fun b => b)), map_id. cbn [bind tl]. rewrite blocks_concat, app_nil_r, skipn_nil_firstn; auto. destruct x; reflexivity.
    + unfold no_cells. cbn [negb andb]. destruct (existsb (Nat.eqb 0) (firstn (S dm) (ash x))) eqn:Z.
      * destruct (wf_no_cells_nil (S dm) x W Z) as [D B]. rewrite B, D. reflexivity.
      * apply existsb_zero_pos in Z.
        destruct n as [|[|n]].
        -- rewrite mapM_err_head; auto. rewrite blocks_count. apply lead_pos_prod; auto.
        -- rewrite (mapM_ok_map (skipn ((1 - 1) * prodn rest))). cbn [bind tl Nat.sub Nat.mul skipn]. rewrite map_id, blocks_concat; auto.
        -- rewrite (mapM_ok_map (skipn ((S (S n) - 1) * prodn rest))). reflexivity.
Qed.

(* ------------------------------------------------------------------ box (repaired slicing) *)

Definition bk_box : bk := BK (fun _ => []) (fun _ => TBox) (fun t rs blk => Ok [EBox t rs blk]).
Lemma concat_map_singleton {A B} (h : A -> B) l : concat (map (fun a => [h a]) l) = map h l.
Proof. induction l; cbn; auto. rewrite IHl. reflexivity. Qed.
Lemma box_bk0 x : wf x -> run_bk bk_box 0 x = sem FBox x.
Proof.
  intros W. destruct x as [t sh dat]. unfold run_bk, dmin, blocks, bk_box, wf in *; cbn [aty ash adata bk_data bk_ty bk_shape Nat.min firstn skipn app prodn fold_right chunk] in *.
  rewrite <- W, firstn_all. reflexivity.
Qed.
Lemma k_box_fixed_bk d x : wf x -> Ok (k_box_fixed d x) = run_bk bk_box d x.
Proof.
  intros W. unfold k_box_fixed. destruct (dmin d x) as [|dm] eqn:Ed.
  - change (Ok (p_box x)) with (sem FBox x). rewrite <- box_bk0; auto. unfold run_bk. rewrite Ed. unfold dmin. rewrite Nat.min_0_l. reflexivity.
  - unfold run_bk. rewrite Ed. unfold bk_box; cbn [bk_data bk_ty bk_shape].
    rewrite (mapM_ok_map (fun blk => [EBox (aty x) (skipn (S dm) (ash x)) blk])). cbn [bind].
    rewrite concat_map_singleton, app_nil_r. reflexivity.
Qed.
(** the slicing before commit 3374592 agrees unless the rows are empty below depth 1 *)
Lemma k_box_pre_eq_fixed d x : wf x -> (prodn (skipn (dmin d x) (ash x)) <> 0 \/ dmin d x <= 1) -> k_box true d x = k_box_fixed d x.
Proof.
  intros W H. unfold k_box, k_box_fixed. destruct (dmin d x) as [|dm] eqn:Ed; auto.
  unfold blocks. f_equal. f_equal. f_equal.
  destruct (Nat.eqb (prodn (skipn (S dm) (ash x))) 0) eqn:Z.
  - apply Nat.eqb_eq in Z. destruct H as [H|H]; [congruence|].
    assert (dm = 0) by lia. subst dm. destruct (ash x) as [|n s]; cbn [firstn skipn nrows]; unfold prodn; cbn [fold_right]; lia.
  - apply Nat.eqb_neq in Z. rewrite (wf_blocks_len (S dm) x W). apply Nat.div_mul; auto.
Qed.
(** the current slicing (one empty slice per cell) is the blockwise one, unconditionally *)
Lemma k_box_eq_fixed d x : wf x -> k_box false d x = k_box_fixed d x.
Proof.
  intros W. unfold k_box, k_box_fixed. destruct (dmin d x) as [|dm] eqn:Ed; auto.
  unfold blocks. f_equal. f_equal. f_equal.
  destruct (Nat.eqb (prodn (skipn (S dm) (ash x))) 0) eqn:Z.
  - rewrite skipn_length. pose proof (dmin_le d x) as Hl. rewrite Ed in Hl. do 2 f_equal. lia.
  - apply Nat.eqb_neq in Z. rewrite (wf_blocks_len (S dm) x W). apply Nat.div_mul; auto.
Qed.
