(** C16 — arithmetic of cyclic probing and list lemmas used by Proofs/Map.v *)
From Coq Require Import List Arith NArith ZArith Lia Bool.
From UV Require Import Model.Map.
Import ListNotations.

(** position reached after [d] probes from [s] in a table of [c] cells *)
Definition off (c s d : nat) : nat := (s + d) mod c.

Lemma off_lt : forall c s d, 0 < c -> off c s d < c.
Proof. intros. unfold off. apply Nat.mod_upper_bound. lia. Qed.

Lemma off_0 : forall c s, s < c -> off c s 0 = s.
Proof. intros. unfold off. rewrite Nat.add_0_r. apply Nat.mod_small. assumption. Qed.

Lemma off_step : forall c s d, 0 < c -> S (off c s d) mod c = off c s (S d).
Proof.
  intros. unfold off. replace (S ((s + d) mod c)) with ((s + d) mod c + 1) by lia.
  rewrite Nat.add_mod_idemp_l by lia. f_equal. lia.
Qed.

Lemma off_off : forall c s d j, 0 < c -> off c (off c s d) j = off c s (d + j).
Proof. intros. unfold off. rewrite Nat.add_mod_idemp_l by lia. f_equal. lia. Qed.

Lemma off_cap : forall c s, s < c -> off c s c = s.
Proof.
  intros. unfold off. transitivity ((s + 1 * c) mod c).
  { f_equal. lia. }
  rewrite Nat.mod_add by lia. apply Nat.mod_small. assumption.
Qed.

Lemma off_small : forall c s d, s + d < c -> off c s d = s + d.
Proof. intros. unfold off. apply Nat.mod_small. assumption. Qed.

Lemma off_wrap : forall c s d, s < c -> d < c -> c <= s + d -> off c s d = s + d - c.
Proof.
  intros. unfold off. transitivity (((s + d - c) + 1 * c) mod c).
  { f_equal. lia. }
  rewrite Nat.mod_add by lia. apply Nat.mod_small. lia.
Qed.

(** the probe is back at its start exactly after [c] steps *)
Lemma off_back : forall c s d, s < c -> 0 < d -> d <= c -> (off c s d =? s) = (d =? c).
Proof.
  intros c s d Hs Hd Hdc.
  destruct (Nat.eqb_spec d c) as [->|Hne].
  - rewrite off_cap by assumption. apply Nat.eqb_refl.
  - apply Nat.eqb_neq. destruct (Nat.lt_ge_cases (s + d) c).
    + rewrite off_small by assumption. lia.
    + rewrite off_wrap by lia. lia.
Qed.

Lemma off_inj : forall c s d d', s < c -> d < c -> d' < c -> off c s d = off c s d' -> d = d'.
Proof.
  intros c s d d' Hs Hd Hd' H.
  destruct (Nat.lt_ge_cases (s + d) c); destruct (Nat.lt_ge_cases (s + d') c);
    repeat (rewrite off_small in H by assumption); repeat (rewrite off_wrap in H by lia);
    try (rewrite (off_small c s d') in H by assumption); try (rewrite (off_wrap c s d') in H by lia); lia.
Qed.

(** every position is reached within [c] probes *)
Lemma off_cover : forall c s p, s < c -> p < c -> exists d, d < c /\ p = off c s d.
Proof.
  intros c s p Hs Hp. destruct (Nat.le_gt_cases s p).
  - exists (p - s). split; [lia|]. rewrite off_small by lia. lia.
  - exists (p + c - s). split; [lia|]. rewrite off_wrap by lia. lia.
Qed.

Lemma start_of_lt : forall h c, 0 < c -> start_of h c < c.
Proof.
  intros h c Hc. unfold start_of. replace (Nat.max c 1) with c by lia.
  assert (H : (N.modulo h (N.of_nat c) < N.of_nat c)%N) by (apply N.mod_lt; lia).
  lia.
Qed.

(** ---- lists *)
Lemma set_nth_length : forall A n (x : A) l, length (set_nth n x l) = length l.
Proof. intros A n x l. revert n. induction l; intros [|n]; simpl; auto. Qed.

Lemma nth_set_nth_eq : forall A p (x : A) l d, p < length l -> nth p (set_nth p x l) d = x.
Proof. intros A p x l d. revert p. induction l; intros [|p] H; simpl in *; try lia; auto. apply IHl. lia. Qed.

Lemma nth_set_nth_neq : forall A p q (x : A) l d, q <> p -> nth q (set_nth p x l) d = nth q l d.
Proof.
  intros A p q x l d. revert p q. induction l; intros [|p] [|q] H; simpl; auto; try lia.
Qed.

Lemma nth_overflow_default : forall A (l : list A) n d, nth n l d <> d -> n < length l.
Proof.
  intros A l n d H. destruct (Nat.lt_ge_cases n (length l)); auto.
  exfalso. apply H. apply nth_overflow. assumption.
Qed.

Lemma nth_repeat_any : forall A (x : A) n i, nth i (repeat x n) x = x.
Proof. intros A x n. induction n; intros [|i]; simpl; auto. Qed.

Lemma remove_nth_length : forall A n (l : list A), n < length l -> length (remove_nth n l) = length l - 1.
Proof.
  intros A n l. revert n. induction l; intros [|n] H; simpl in *; try lia.
  rewrite IHl by lia. lia.
Qed.

Lemma nth_error_remove_nth : forall A n (l : list A) i,
  nth_error (remove_nth n l) i = if i <? n then nth_error l i else nth_error l (S i).
Proof.
  intros A n l. revert n. induction l as [|a t IH]; intros n i.
  - destruct n as [|n]; simpl; [destruct (i <? 0)|destruct (i <? S n)]; destruct i; reflexivity.
  - destruct n as [|n]; destruct i as [|i]; try reflexivity.
    simpl remove_nth. simpl nth_error. rewrite IH.
    change (S i <? S n) with (i <? n). reflexivity.
Qed.

Lemma nth_error_set_nth : forall A n (x : A) l i,
  nth_error (set_nth n x l) i = if (i =? n) && (n <? length l) then Some x else nth_error l i.
Proof.
  intros A n x l. revert n. induction l as [|a t IH]; intros n i.
  - destruct n; simpl; rewrite andb_false_r; reflexivity.
  - destruct n as [|n]; destruct i as [|i]; try reflexivity.
    simpl set_nth. simpl nth_error. rewrite IH. reflexivity.
Qed.

(** number of key cells *)
Fixpoint count_keys {K} (l : list (cell K)) : nat :=
  match l with [] => 0 | Key _ :: t => S (count_keys t) | _ :: t => count_keys t end.
Definition is_keyb {K} (c : cell K) : bool := match c with Key _ => true | _ => false end.
Definition key_weight {K} (c : cell K) : nat := if is_keyb c then 1 else 0.

Lemma count_keys_le : forall K (l : list (cell K)), count_keys l <= length l.
Proof. induction l as [|[| |k] t IH]; simpl; lia. Qed.

Lemma count_keys_set_nth : forall K p (c : cell K) l, p < length l ->
  count_keys (set_nth p c l) + key_weight (nth p l Empty) = count_keys l + key_weight c.
Proof.
  intros K p c l. revert p. induction l as [|a t IH]; intros [|p] H; simpl in *; try lia.
  - unfold key_weight. destruct a, c; simpl; lia.
  - specialize (IH p ltac:(lia)). destruct a; simpl; lia.
Qed.

(** a table with fewer keys than cells has a cell that is not a key *)
Lemma count_keys_full : forall K (l : list (cell K)),
  (forall p, p < length l -> is_keyb (nth p l Empty) = true) -> count_keys l = length l.
Proof.
  induction l as [|a t IH]; intros H; simpl; auto.
  assert (Ha := H 0 ltac:(simpl; lia)). simpl in Ha. destruct a; try discriminate.
  f_equal. apply IH. intros p Hp. apply (H (S p)). simpl. lia.
Qed.

Lemma count_keys_repeat_empty : forall K n, count_keys (repeat (@Empty K) n) = 0.
Proof. induction n; simpl; auto. Qed.
