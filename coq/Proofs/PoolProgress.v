(** C13 — progress: the invariant of reachable states and the absence of deadlock for
    flat programs (either rule) and for all programs under the admission rule of the code *)
From Coq Require Import List NArith Bool Arith Lia.
From UV Require Import Model.Pool Proofs.PoolShape.
Import ListNotations.

Definition actf (th : thread) : bool := t_poolk th && match t_st th with Running => true | _ => false end.
Definition cnt {A} (f : A -> bool) (l : list A) : nat := length (filter f l).
Definition b2 (b : bool) : nat := if b then 1 else 0.

Lemma cnt_upd {A} (f : A -> bool) l t x y : nth_error l t = Some x ->
  cnt f (upd t y l) + b2 (f x) = cnt f l + b2 (f y).
Proof.
  unfold cnt. revert t. induction l as [|a l IH]; intros [|t] H; simpl in *; try discriminate.
  - inversion H; subst. destruct (f x), (f y); simpl; lia.
  - specialize (IH _ H). destruct (f a); simpl; lia.
Qed.

Lemma cnt_app {A} (f : A -> bool) l r : cnt f (l ++ r) = cnt f l + cnt f r.
Proof. unfold cnt. rewrite filter_app, app_length. reflexivity. Qed.

Lemma cnt_pos {A} (f : A -> bool) l : 1 <= cnt f l -> exists n x, nth_error l n = Some x /\ f x = true.
Proof.
  unfold cnt. intros H. destruct (filter f l) as [|x r] eqn:E; simpl in H; [lia|].
  assert (In x (filter f l)) by (rewrite E; left; auto).
  apply filter_In in H0. destruct H0 as [I F]. apply In_nth_error in I. destruct I as [n I]. eauto.
Qed.

Lemma nth_upd_cases {A} t (x : A) l u y : nth_error (upd t x l) u = Some y ->
  (u = t /\ y = x) \/ (u <> t /\ nth_error l u = Some y).
Proof.
  intros H. destruct (Nat.eq_dec u t) as [->|N].
  - left. split; auto. assert (t < length l) by (rewrite <- (upd_length t x); eapply nth_some_lt; eauto).
    rewrite nth_upd_eq in H by auto. congruence.
  - right. rewrite nth_upd_neq in H by auto. auto.
Qed.

Lemma nth_updapp_cases {A} t (x c : A) l u y : nth_error (upd t x l ++ [c]) u = Some y ->
  (u = t /\ y = x /\ t < length l) \/ (u <> t /\ u < length l /\ nth_error l u = Some y) \/ (u = length l /\ y = c).
Proof.
  intros H. destruct (lt_dec u (length l)) as [L|L].
  - rewrite nth_app_l in H by (rewrite upd_length; auto).
    apply nth_upd_cases in H. destruct H as [[-> ->]|[N H]]; auto.
  - assert (u = length l).
    { apply nth_some_lt in H. rewrite app_length, upd_length in H. simpl in H. lia. }
    subst u. right. right. split; auto.
    rewrite <- (upd_length t x l) in H. rewrite nth_app_new in H. congruence.
Qed.

(** non-pool-task code as written: flat, or without any pool *)
Definition okc (c : code) : Prop := flat c = true \/ nopool c = true.
Definition codeok (rp : bool) (th : thread) : Prop :=
  pure (t_code th) = true /\
  (rp = true \/ if t_inpool th then nopool (t_code th) = true else okc (t_code th)).

Record Inv (st : state) : Prop := mkInv {
  I_mx : 1 <= mx st;
  I_root : exists th, nth_error (thr st) 0 = Some th /\ t_inpool th = false /\ t_st th <> Queued;
  I_q1 : forall t, In t (qu st) -> exists th, nth_error (thr st) t = Some th /\ t_st th = Queued;
  I_q2 : forall t th, nth_error (thr st) t = Some th -> t_st th = Queued -> In t (qu st) /\ t_poolk th = true;
  I_qnd : NoDup (qu st);
  I_act : act st = cnt actf (thr st);
  I_lck : forall u, lck st = Some u -> exists th k b c, nth_error (thr st) u = Some th /\ t_st th = Running /\
            t_code th = Fork true k b :: c /\ (rep st && t_inpool th) = false /\ (length (t_stack th) <? k) = false;
  I_kids : forall t th k, nth_error (thr st) t = Some th -> In k (map fst (t_kids th)) ->
            t < k /\ exists kt, nth_error (thr st) k = Some kt /\
                               (t_inpool th = true -> t_inpool kt = true /\ t_st kt <> Queued);
  I_pk : forall t th, nth_error (thr st) t = Some th -> t_poolk th = true -> t_inpool th = true;
  I_code : forall t th, nth_error (thr st) t = Some th -> codeok (rep st) th
}.

(** ** what can block a running thread *)
Lemma running_cases st t th : nth_error (thr st) t = Some th -> t_st th = Running ->
  step st t <> None
  \/ (exists k, In k (map fst (t_kids th)) /\
        forall kt, nth_error (thr st) k = Some kt -> t_st kt = Queued \/ t_st kt = Running)
  \/ (exists k b c, t_code th = Fork true k b :: c /\ (rep st && t_inpool th) = false /\
        exists u, lck st = Some u /\ (u = t -> mx st <= act st))
  \/ pure (t_code th) = false.
Proof.
  intros H R. unfold step. rewrite H, R.
  assert (KID : forall i k w, kid_of th i = Some (k, w) -> In k (map fst (t_kids th))).
  { intros i k w E. apply kid_of_S in E. destruct E as [j [_ E]].
    apply nth_error_In in E. apply in_map_iff. exists (k, w). auto. }
  destruct (t_code th) as [|ins c] eqn:Ec; [left; discriminate|].
  destruct ins; try (left; discriminate).
  - destruct (t_stack th); left; discriminate.
  - destruct (t_stack th); left; discriminate.
  - destruct n; left; discriminate.
  - destruct (length (t_stack th) <? k); [left; discriminate|].
    destruct (negb pool || (rep st && t_inpool th)) eqn:Ed; [left; discriminate|].
    apply orb_false_iff in Ed. destruct Ed as [Ep Er]. destruct pool; [|discriminate].
    destruct (lck st) as [u|] eqn:El; [|left; discriminate].
    destruct (u =? t) eqn:Eu.
    + apply Nat.eqb_eq in Eu. subst u. destruct (act st <? mx st) eqn:Ea; [left; discriminate|].
      apply Nat.ltb_ge in Ea. right. right. left. do 3 eexists. split; [reflexivity|]. split; [assumption|].
      exists t. split; [reflexivity|]. intros; assumption.
    + apply Nat.eqb_neq in Eu. right. right. left. do 3 eexists. split; [reflexivity|]. split; [assumption|].
      exists u. split; [reflexivity|]. intros; congruence.
  - destruct (kid_of th i) as [[k [|]]|] eqn:Ek; try (left; discriminate).
    destruct (nth_error (thr st) k) as [kt|] eqn:Ekt.
    + destruct (t_st kt) as [| |[r|]] eqn:Es; try (left; discriminate);
        right; left; exists k; (split; [eapply KID; eauto|]); intros kt' E; rewrite Ekt in E; inversion E; subst; auto.
    + right. left. exists k. split; [eapply KID; eauto|]. intros kt' E; rewrite Ekt in E; discriminate E.
  - destruct todo as [|i todo']; [left; discriminate|].
    destruct (kid_of th i) as [[k [|]]|] eqn:Ek; try (left; discriminate).
    destruct (nth_error (thr st) k) as [kt|] eqn:Ekt.
    + destruct (t_st kt) as [| |[r|]] eqn:Es; try (left; discriminate);
        right; left; exists k; (split; [eapply KID; eauto|]); intros kt' E; rewrite Ekt in E; inversion E; subst; auto.
    + right. left. exists k. split; [eapply KID; eauto|]. intros kt' E; rewrite Ekt in E; discriminate E.
  - right. right. right. reflexivity.
  - right. right. right. reflexivity.
Qed.

Lemma prog_inpool st : Inv st -> forall n t th, length (thr st) - t <= n ->
  nth_error (thr st) t = Some th -> t_st th = Running -> t_inpool th = true ->
  exists u, step st u <> None.
Proof.
  intros IV. induction n as [|n IH]; intros t th L H R P.
  - apply nth_some_lt in H. lia.
  - destruct (running_cases st t th H R) as [E|[[k [Ik Hk]]|[[k [b [c [Ec [Ed _]]]]]|NP]]].
    + eauto.
    + destruct (I_kids st IV t th k H Ik) as [Lt [kt [Hkt Q]]].
      destruct (Q P) as [Pk NQ]. destruct (Hk kt Hkt) as [Q'|Rk]; [congruence|].
      apply (IH k kt); auto. lia.
    + destruct (I_code st IV t th H) as [_ [Rp|C]].
      * rewrite Rp, P in Ed. discriminate.
      * rewrite P, Ec in C. simpl in C. discriminate.
    + destruct (I_code st IV t th H) as [Pu _]. congruence.
Qed.

Lemma worker_progress st : Inv st -> mx st <= act st -> exists u, step st u <> None.
Proof.
  intros IV H. pose proof (I_mx st IV). rewrite (I_act st IV) in H.
  destruct (cnt_pos actf (thr st)) as [w [thw [Hw F]]]; [lia|].
  unfold actf in F. apply andb_true_iff in F. destruct F as [Pk Rn].
  destruct (t_st thw) eqn:Es; try discriminate.
  eapply (prog_inpool st IV (length (thr st)) w thw); eauto. lia.
  eapply I_pk; eauto.
Qed.

Lemma head_progress st h q : Inv st -> qu st = h :: q -> exists u, step st u <> None.
Proof.
  intros IV E. destruct (lt_dec (act st) (mx st)) as [L|L].
  - destruct (I_q1 st IV h) as [th [H Q]]; [rewrite E; left; auto|].
    exists h. unfold step. rewrite H, Q, E. rewrite Nat.eqb_refl.
    apply Nat.ltb_lt in L. rewrite L. discriminate.
  - apply worker_progress; auto. lia.
Qed.

Lemma holder_progress st u : Inv st -> lck st = Some u -> exists v, step st v <> None.
Proof.
  intros IV E. destruct (I_lck st IV u E) as [th [k [b [c [H [R [Ec [Ed Ek]]]]]]]].
  destruct (lt_dec (act st) (mx st)) as [L|L].
  - exists u. unfold step. rewrite H, R, Ec, Ek, Ed, E. simpl. rewrite Nat.eqb_refl.
    apply Nat.ltb_lt in L. rewrite L. discriminate.
  - apply worker_progress; auto. lia.
Qed.

Lemma prog_any st : Inv st -> forall n t th, length (thr st) - t <= n ->
  nth_error (thr st) t = Some th -> t_st th = Running -> exists u, step st u <> None.
Proof.
  intros IV. induction n as [|n IH]; intros t th L H R.
  - apply nth_some_lt in H. lia.
  - destruct (running_cases st t th H R) as [E|[[k [Ik Hk]]|[[k [b [c [Ec [Ed [u [El _]]]]]]]|NP]]].
    + eauto.
    + destruct (I_kids st IV t th k H Ik) as [Lt [kt [Hkt _]]].
      destruct (Hk kt Hkt) as [Q|Rk].
      * destruct (I_q2 st IV k kt Hkt Q) as [I _]. destruct (qu st) as [|h q] eqn:Eq; [inversion I|].
        eapply head_progress; eauto.
      * apply (IH k kt); auto. lia.
    + eapply holder_progress; eauto.
    + destruct (I_code st IV t th H) as [Pu _]. congruence.
Qed.

Theorem inv_progress st : Inv st -> final st = false -> exists t, step st t <> None.
Proof.
  intros IV F. destruct (I_root st IV) as [th [H [_ NQ]]].
  unfold final, root_res in F. rewrite H in F.
  destruct (t_st th) eqn:Es; try congruence; try discriminate.
  eapply (prog_any st IV (length (thr st)) 0 th); eauto. lia.
Qed.
