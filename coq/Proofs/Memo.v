(** C12 — proofs about the memo table and the per-cache key/dependency analysis *)
From Coq Require Import List NArith Bool Lia.
From UV Require Import Model.Memo.
Import ListNotations.
Open Scope N_scope.

(* ------------------------------------------------------------------ the memo table *)

Section MemoProofs.
  Context {X K V : Type}.
  Variable keqb : K -> K -> bool.
  Hypothesis keqb_spec : forall a b, keqb a b = true <-> a = b.
  Variable usable : V -> bool.
  Variable key : X -> K.
  Variable f : X -> V.

  Definition sufficient : Prop := forall x y, key x = key y -> f x = f y.
  Definition sufficient_on (h : list X) : Prop :=
    forall x y, In x h -> In y h -> key x = key y -> f x = f y.

  (** invariant: every entry (k, v) of the table is the value of [f] on every element of
      the remaining history with that key *)
  Definition table_ok (t : list (K * V)) (h : list X) : Prop :=
    forall k v, lookup keqb k t = Some v -> forall x, In x h -> key x = k -> v = f x.

  Lemma memo_from_ok : forall h t,
    sufficient_on h -> table_ok t h ->
    run_memo_from keqb usable key f t h = map f h.
  Proof.
    induction h as [|x h IH]; intros t Hs Ht; [reflexivity|].
    assert (Hs' : sufficient_on h).
    { intros a b Ha Hb. apply Hs; right; assumption. }
    assert (Hins : table_ok ((key x, f x) :: t) h).
    { intros k v Hl y Hy Hk. cbn [lookup] in Hl.
      destruct (keqb k (key x)) eqn:E.
      - injection Hl as <-. apply keqb_spec in E. subst k.
        apply Hs; [left; reflexivity | right; assumption | symmetry; assumption].
      - apply (Ht k v Hl y); [right; assumption | assumption]. }
    cbn [run_memo_from map].
    destruct (lookup keqb (key x) t) as [v|] eqn:L.
    - assert (v = f x) by (apply (Ht _ _ L x); [left; reflexivity | reflexivity]). subst v.
      destruct (usable (f x)).
      + f_equal. apply IH; [assumption|].
        intros k v Hl y Hy Hk. apply (Ht k v Hl y); [right; assumption | assumption].
      + f_equal. apply IH; assumption.
    - f_equal. apply IH; assumption.
  Qed.

  Theorem memo_transparent_on : forall history,
    sufficient_on history -> run_memo keqb usable key f history = map f history.
  Proof.
    intros h Hs. apply memo_from_ok; [assumption|].
    intros k v Hl. discriminate Hl.
  Qed.

  Theorem memo_transparent :
    sufficient -> forall history, run_memo keqb usable key f history = map f history.
  Proof.
    intros Hs h. apply memo_transparent_on. intros x y _ _. apply Hs.
  Qed.

  (** the converse, constructively from a witness pair *)
  Theorem memo_not_transparent_pair : forall x y,
    key x = key y -> f x <> f y -> usable (f x) = true ->
    run_memo keqb usable key f [x; y] <> map f [x; y].
  Proof.
    intros x y Hk Hf Hu. unfold run_memo. cbn [run_memo_from lookup map].
    assert (E : keqb (key y) (key x) = true) by (apply keqb_spec; symmetry; assumption).
    rewrite E, Hu. intro H. inversion H as [H1]. apply Hf. exact H1.
  Qed.

  Theorem memo_not_transparent :
    (exists x y, key x = key y /\ f x <> f y /\ usable (f x) = true) ->
    exists history, run_memo keqb usable key f history <> map f history.
  Proof.
    intros (x & y & Hk & Hf & Hu). exists [x; y]. apply memo_not_transparent_pair; assumption.
  Qed.
End MemoProofs.

(** the table with a side condition on the store step: transparent as soon as every STORED
    input's key determines [f] (inputs that are not stored may share a key with anything) *)
Section MemoStoreProofs.
  Context {X K V : Type}.
  Variable keqb : K -> K -> bool.
  Hypothesis keqb_spec : forall a b, keqb a b = true <-> a = b.
  Variable usable : V -> bool.
  Variable store : X -> bool.
  Variable key : X -> K.
  Variable f : X -> V.

  Definition sufficient_stored_on (h : list X) : Prop :=
    forall x y, In x h -> In y h -> store x = true -> key x = key y -> f x = f y.

  Lemma memo_store_from_ok : forall h t,
    sufficient_stored_on h -> table_ok keqb key f t h ->
    run_memo_store_from keqb usable store key f t h = map f h.
  Proof.
    induction h as [|x h IH]; intros t Hs Ht; [reflexivity|].
    assert (Hs' : sufficient_stored_on h).
    { intros a b Ha Hb. apply Hs; right; assumption. }
    assert (Ht' : table_ok keqb key f t h).
    { intros k v Hl y Hy Hk. apply (Ht k v Hl y); [right; assumption | assumption]. }
    assert (Hins : table_ok keqb key f (if store x then (key x, f x) :: t else t) h).
    { destruct (store x) eqn:St; [|exact Ht'].
      intros k v Hl y Hy Hk. cbn [lookup] in Hl.
      destruct (keqb k (key x)) eqn:E.
      - injection Hl as <-. apply keqb_spec in E. subst k.
        apply Hs; [left; reflexivity | right; assumption | assumption | symmetry; assumption].
      - apply (Ht k v Hl y); [right; assumption | assumption]. }
    cbn [run_memo_store_from map].
    destruct (lookup keqb (key x) t) as [v|] eqn:L.
    - assert (v = f x) by (apply (Ht _ _ L x); [left; reflexivity | reflexivity]). subst v.
      destruct (usable (f x)); f_equal; apply IH; assumption.
    - f_equal. apply IH; assumption.
  Qed.

  Theorem memo_store_transparent_on : forall history,
    sufficient_stored_on history -> run_memo_store keqb usable store key f history = map f history.
  Proof.
    intros h Hs. apply memo_store_from_ok; [assumption|].
    intros k v Hl. discriminate Hl.
  Qed.
End MemoStoreProofs.

(** the table as the code has it: keyed by a 64-bit hash [H] of what the key function feeds.
    Premise: [H] has no collision among the keys of the history. *)

(** the table that is consulted and filled only for inputs passing a gate: transparent as soon as
    the key determines [f] among the gated inputs *)
Section MemoGatedProofs.
  Context {X K V : Type}.
  Variable keqb : K -> K -> bool.
  Hypothesis keqb_spec : forall a b, keqb a b = true <-> a = b.
  Variable gate : X -> bool.
  Variable key : X -> K.
  Variable f : X -> V.

  Definition sufficient_gated_on (h : list X) : Prop :=
    forall x y, In x h -> In y h -> gate x = true -> gate y = true -> key x = key y -> f x = f y.
  Definition table_ok_gated (t : list (K * V)) (h : list X) : Prop :=
    forall k v, lookup keqb k t = Some v -> forall x, In x h -> gate x = true -> key x = k -> v = f x.

  Lemma memo_gated_from_ok : forall h t,
    sufficient_gated_on h -> table_ok_gated t h ->
    run_memo_gated_from keqb gate key f t h = map f h.
  Proof.
    induction h as [|x h IH]; intros t Hs Ht; [reflexivity|].
    assert (Hs' : sufficient_gated_on h).
    { intros a b Ha Hb. apply Hs; right; assumption. }
    assert (Ht' : table_ok_gated t h).
    { intros k v Hl y Hy Gy Hk. apply (Ht k v Hl y); [right; assumption | assumption | assumption]. }
    cbn [run_memo_gated_from map].
    destruct (gate x) eqn:G; [|f_equal; apply IH; assumption].
    destruct (lookup keqb (key x) t) as [v|] eqn:L.
    - assert (v = f x) by (apply (Ht _ _ L x); [left; reflexivity | assumption | reflexivity]). subst v.
      f_equal. apply IH; assumption.
    - f_equal. apply IH; [assumption|].
      intros k v Hl y Hy Gy Hk. cbn [lookup] in Hl.
      destruct (keqb k (key x)) eqn:E.
      + injection Hl as <-. apply keqb_spec in E. subst k.
        apply Hs; [left; reflexivity | right; assumption | assumption | assumption | symmetry; assumption].
      + apply (Ht k v Hl y); [right; assumption | assumption | assumption].
  Qed.

  Theorem memo_gated_transparent_on : forall history,
    sufficient_gated_on history -> run_memo_gated keqb gate key f history = map f history.
  Proof.
    intros h Hs. apply memo_gated_from_ok; [assumption|].
    intros k v Hl. discriminate Hl.
  Qed.
End MemoGatedProofs.

Theorem memo_transparent_hashed :
  forall {X K V : Type} (H : K -> N) (usable : V -> bool) (key : X -> K) (f : X -> V) (history : list X),
    sufficient key f ->
    (forall x y, In x history -> In y history -> H (key x) = H (key y) -> key x = key y) ->
    run_memo N.eqb usable (fun x => H (key x)) f history = map f history.
Proof.
  intros X K V H usable key f h Hs Hc.
  apply (memo_transparent_on N.eqb N.eqb_eq usable (fun x => H (key x)) f).
  intros x y Hx Hy Hk. apply Hs. apply Hc; assumption.
Qed.

(* ------------------------------------------------------------------ induction on nodes *)

Section NodeInd.
  Variable P : node -> Prop.
  Hypothesis Hprim : forall p s, P (NPrim p s).
  Hypothesis Hmod : forall p args s, Forall (fun a => P (fst a)) args -> P (NMod p args s).
  Hypothesis Hcall : forall i fs x h o b s, P b -> P (NCall i fs x h o b s).
  Hypothesis Hglob : forall i s, P (NGlobal i s).
  Hypothesis Hpush : forall v, P (NPush v).
  Hypothesis Hrun : forall ns, Forall P ns -> P (NRun ns).
  Hypothesis Hother : forall c o, P (NOther c o).

  Fixpoint node_ind' (x : node) : P x :=
    match x with
    | NPrim p s => Hprim p s
    | NMod p args s =>
        Hmod p args s
          ((fix go (l : list (node * N)) : Forall (fun a => P (fst a)) l :=
              match l with
              | [] => Forall_nil _
              | (n, g) :: r => @Forall_cons _ (fun a => P (fst a)) (n, g) r (node_ind' n) (go r)
              end) args)
    | NCall i fs x h o b s => Hcall i fs x h o b s (node_ind' b)
    | NGlobal i s => Hglob i s
    | NPush v => Hpush v
    | NRun ns =>
        Hrun ns ((fix go (l : list node) : Forall P l :=
                    match l with
                    | [] => Forall_nil _
                    | n :: r => @Forall_cons _ P n r (node_ind' n) (go r)
                    end) ns)
    | NOther c o => Hother c o
    end.
End NodeInd.

(* ------------------------------------------------------------------ 4. signature cache *)

(** since 8592559 a call feeds its handle's signature field: the key IS what the checker reads *)
Lemma sig_deps_erase : forall x, sig_deps x = erase x.
Proof.
  (* the two functions are now the same fixpoint up to the names *)
  intro x. reflexivity.
Qed.

Theorem sig_cache_sufficient : forall (x y : list node),
  sig_key x = sig_key y -> sig_cache_deps x = sig_cache_deps y.
Proof.
  intros x y E. unfold sig_key, sig_cache_deps in *.
  rewrite (map_ext _ _ sig_deps_erase x), (map_ext _ _ sig_deps_erase y). exact E.
Qed.

(* ------------------------------------------------------------------ 6. comptime evaluation cache *)

(** on an erased tree, put back the body content the table assigns to each body hash *)
Fixpoint fillbody (B : N -> node) (x : node) : node :=
  match x with
  | NMod p args s => NMod p (map (fun a => (fillbody B (fst a), snd a)) args) s
  | NCall i fs x h o _ s => NCall i fs x h o (B h) s
  | NRun ns => NRun (map (fillbody B) ns)
  | other => other
  end.

Section Content.
  Variable eqb : node -> node -> bool.
  Hypothesis eqb_sound : forall a b, eqb a b = true -> a = b.

  Lemma content_fill : forall B x, wf_body B eqb x = true -> content x = fillbody B (erase x).
  Proof.
    intros B. induction x using node_ind'; intros W; cbn [content erase fillbody wf_body] in *; try reflexivity.
    - f_equal. rewrite map_map. apply map_ext_in. intros a Ha. cbn [fst snd].
      rewrite Forall_forall in H. rewrite forallb_forall in W. rewrite (H a Ha (W a Ha)). reflexivity.
    - apply andb_prop in W. destruct W as [W1 W2]. apply eqb_sound in W1. rewrite W1. reflexivity.
    - f_equal. rewrite map_map. apply map_ext_in. intros a Ha.
      rewrite Forall_forall in H. rewrite forallb_forall in W. apply H; auto.
  Qed.

  (** no [CallGlobal] is reachable (pre_eval.rs:32-82 [matches_nodes] only lets a node through
      whose globals are compile-time constants, and those are compiled to [Push]:
      compile/mod.rs:2144) and body hashes do not collide: the key determines what is run *)
  Theorem pre_cache_sufficient : forall B (x y : pre_input),
    wf_body B eqb (fst x) = true -> wf_body B eqb (fst y) = true ->
    globals (fst x) = [] -> globals (fst y) = [] ->
    pre_key x = pre_key y -> pre_deps x = pre_deps y.
  Proof.
    intros B [x bx] [y b_y] Wx Wy Gx Gy E. unfold pre_key, pre_deps in *. cbn [fst snd] in *.
    rewrite Gx, Gy. cbn [look map].
    rewrite (content_fill B x Wx), (content_fill B y Wy), E. reflexivity.
  Qed.
End Content.

(** [node_eqb] is sound (so it can be the [eqb] of [wf_body]) *)
Lemma opt_eqb_sound : forall a b, opt_eqb a b = true -> a = b.
Proof.
  intros [a|] [b|] H; cbn in H; try discriminate; try reflexivity.
  apply N.eqb_eq in H. subst. reflexivity.
Qed.

Lemma node_eqb_sound : forall x y, node_eqb x y = true -> x = y.
Proof.
  induction x using node_ind'; intros y E; destruct y; cbn [node_eqb] in E; try discriminate.
  - apply andb_prop in E. destruct E as [E1 E2]. apply N.eqb_eq in E1, E2. subst. reflexivity.
  - apply andb_prop in E. destruct E as [E E3]. apply andb_prop in E. destruct E as [E1 E2].
    apply N.eqb_eq in E1, E2. subst. f_equal.
    revert args0 E3. induction args as [|[n g] r IHr]; intros [|[n' g'] r'] E3; try discriminate; [reflexivity|].
    apply andb_prop in E3. destruct E3 as [E3 E5]. apply andb_prop in E3. destruct E3 as [E3 E4].
    inversion H; subst. cbn [fst] in *.
    apply N.eqb_eq in E4. subst. f_equal; [f_equal; apply H2; assumption | apply IHr; assumption].
  - repeat (apply andb_prop in E; destruct E as [E ?]).
    repeat match goal with H : N.eqb _ _ = true |- _ => apply N.eqb_eq in H end. subst.
    f_equal. apply IHx; assumption.
  - apply andb_prop in E. destruct E as [E1 E2]. apply N.eqb_eq in E1, E2. subst. reflexivity.
  - apply N.eqb_eq in E. subst. reflexivity.
  - f_equal. revert ns0 E. induction ns as [|n r IHr]; intros [|n' r'] E; try discriminate; [reflexivity|].
    apply andb_prop in E. destruct E as [E1 E2]. inversion H; subst.
    f_equal; [apply H2; assumption | apply IHr; assumption].
  - apply andb_prop in E. destruct E as [E1 E2]. apply N.eqb_eq in E1. apply opt_eqb_sound in E2. subst. reflexivity.
Qed.

Theorem pre_cache_sufficient' : forall B (x y : pre_input),
  wf_body B node_eqb (fst x) = true -> wf_body B node_eqb (fst y) = true ->
  globals (fst x) = [] -> globals (fst y) = [] ->
  pre_key x = pre_key y -> pre_deps x = pre_deps y.
Proof. exact (pre_cache_sufficient node_eqb node_eqb_sound). Qed.

(** Lsp mode: a node that reads the backend.  The real history (harness, every run): in ONE
    thread compile [&var "PATH"] in Lsp mode on the native backend, then on the denying
    backend: the second assembly holds the host's PATH (fresh thread: the call stays) *)
Theorem pre_cache_backend_refuted : forall (impure : N -> bool) p, impure p = true ->
  exists x y, pre_key_b x = pre_key_b y /\ pre_deps_b impure x <> pre_deps_b impure y.
Proof.
  intros impure p Hp. exists ((NPrim p 1, []), 1), ((NPrim p 1, []), 2). split; [reflexivity|].
  unfold pre_deps_b. cbn [fst snd reads_backend]. rewrite Hp. intro H. inversion H.
Qed.

(** nodes that do not read the backend (all that Normal mode admits): the key suffices *)
Theorem pre_cache_sufficient_b : forall impure B (x y : pre_input_b),
  wf_body B node_eqb (fst (fst x)) = true -> wf_body B node_eqb (fst (fst y)) = true ->
  globals (fst (fst x)) = [] -> globals (fst (fst y)) = [] ->
  reads_backend impure (fst (fst x)) = false -> reads_backend impure (fst (fst y)) = false ->
  pre_key_b x = pre_key_b y -> pre_deps_b impure x = pre_deps_b impure y.
Proof.
  intros impure B [x bx] [y b_y] Wx Wy Gx Gy Rx Ry E. unfold pre_key_b, pre_deps_b in *. cbn [fst snd] in *.
  rewrite Rx, Ry. rewrite (pre_cache_sufficient' B x y Wx Wy Gx Gy E). reflexivity.
Qed.


(** since 49da69f the comptime cache is consulted and filled only for nodes that do not read the
    backend: transparent on every history of well-formed inputs, for every function of what
    running the node reads — the backend included *)
Section PreGated.
  Context {K V : Type}.
  Variable keqb : K -> K -> bool.
  Hypothesis keqb_spec : forall a b, keqb a b = true <-> a = b.

  Theorem pre_cache_gated_transparent : forall impure B (kinj : node -> K),
    (forall a b, kinj a = kinj b -> a = b) ->
    forall (g : (node * list (option (N * bool))) * option N -> V) (history : list pre_input_b),
    (forall x, In x history -> wf_body B node_eqb (fst (fst x)) = true /\ globals (fst (fst x)) = []) ->
    run_memo_gated keqb (fun x => negb (reads_backend impure (fst (fst x)))) (fun x => kinj (pre_key_b x))
                   (fun x => g (pre_deps_b impure x)) history
    = map (fun x => g (pre_deps_b impure x)) history.
  Proof.
    intros impure B kinj Hinj g h W. apply (memo_gated_transparent_on keqb keqb_spec).
    intros x y Hx Hy Gx Gy E. apply Hinj in E.
    apply Bool.negb_true_iff in Gx, Gy.
    destruct (W x Hx) as [Wx Nx]. destruct (W y Hy) as [Wy Ny].
    rewrite (pre_cache_sufficient_b impure B x y Wx Wy Nx Ny Gx Gy E). reflexivity.
  Qed.
End PreGated.

(* ------------------------------------------------------------------ 1-3, 7: the [hash_deep] keys (25aa9f6, 7da4086, 8592559) *)

Lemma no_origin_deep : forall x, no_origin x = deep x.
Proof.
  (* the two functions are the same fixpoint up to the names *)
  intro x. reflexivity.
Qed.

(** the inverse caches' key determines everything the cached value is made of — spans, function
    indices, signatures, bodies and names, and the extra arguments ((g_sig, inverse) for
    under, for_un for anti) — (all but the origin field of the handles) *)
Theorem inv_cache_sufficient : forall (x y : inv_input),
  inv_key x = inv_key y -> inv_deps_named x = inv_deps_named y.
Proof.
  intros [x ex] [y ey] E. unfold inv_key, inv_deps_named in *. cbn [fst snd] in *.
  rewrite (map_ext _ _ no_origin_deep x), (map_ext _ _ no_origin_deep y). exact E.
Qed.

Lemma zip_no_origin_shallow : forall x, no_bodies (no_origin x) = shallow x.
Proof.
  induction x using node_ind'; cbn [no_bodies no_origin shallow]; try reflexivity.
  - f_equal. rewrite map_map. apply map_ext_in. intros a Ha. cbn [fst snd].
    rewrite Forall_forall in H. rewrite (H a Ha). reflexivity.
  - f_equal. rewrite map_map. apply map_ext_in. intros a Ha. rewrite Forall_forall in H. apply H; assumption.
Qed.

(** the fast-function cache's key ([hash_deep(None)]: the bodies are not walked) determines the
    closure, names included: the closure does not contain the bodies, it resolves the
    function index in the assembly that is current when it runs *)
Theorem zip_cache_sufficient : forall (x y : node),
  zip_key x = zip_key y -> zip_deps_named x = zip_deps_named y.
Proof.
  intros x y E. unfold zip_key, zip_deps_named in *. rewrite !zip_no_origin_shallow. exact E.
Qed.

(** hence: with the current keys, on every history a hit returns what a fresh computation
    returns, for every function of those dependencies (trees, errors and traces that
    mention names included) *)
Section Transparent.
  Context {K V : Type}.
  Variable keqb : K -> K -> bool.
  Hypothesis keqb_spec : forall a b, keqb a b = true <-> a = b.

  Theorem inv_cache_transparent : forall (kinj : list node * (N * bool) -> K),
    (forall a b, kinj a = kinj b -> a = b) ->
    forall (g : list node * (N * bool) -> V) usable (history : list inv_input),
    run_memo keqb usable (fun x => kinj (inv_key x)) (fun x => g (inv_deps_named x)) history
    = map (fun x => g (inv_deps_named x)) history.
  Proof.
    intros kinj Hinj g usable h. apply (memo_transparent keqb keqb_spec).
    intros x y E. apply Hinj in E. rewrite (inv_cache_sufficient x y E). reflexivity.
  Qed.

  Theorem zip_cache_transparent : forall (kinj : node -> K),
    (forall a b, kinj a = kinj b -> a = b) ->
    forall (g : node -> V) usable (history : list node),
    run_memo keqb usable (fun x => kinj (zip_key x)) (fun x => g (zip_deps_named x)) history
    = map (fun x => g (zip_deps_named x)) history.
  Proof.
    intros kinj Hinj g usable h. apply (memo_transparent keqb keqb_spec).
    intros x y E. apply Hinj in E. rewrite (zip_cache_sufficient x y E). reflexivity.
  Qed.
End Transparent.

(* ------------------------------------------------------------------ witnesses *)

(** codes used in the witnesses (any distinct numbers do) *)
Definition DIP := 7. Definition JOIN := 11. Definition ROWS := 13. Definition REDUCE := 17.
Definition REVERSE := 19. Definition FIRST := 23. Definition ADD := 29. Definition MUL := 31.
Definition RISE := 37. Definition SELECT := 41.
Definition S11 := 65537. Definition S21 := 65538. Definition S01c := 65536.   (* |1.1, |2.1, |0.1 *)

(** why the function index must be part of the key even though the body is walked.
      X ← 5 / K ← (7) / F ← °(+K) / F ⌊⚂      and the same with      X ← (5)
    [°(+K)] keeps the call to K in the inverse; the call expression, K's body and every span
    index coincide; K is function 0 in the first assembly and function 1 in the second.
    A key that hashes the body instead of the index gives both the same entry, and the
    second program then executes function 0 (X): [¯5] instead of [¯7]. *)
Definition ix_w1 : inv_input := ([NCall 75 S01c 0 88 2 (NPush 7) 9; NPrim ADD 8], (0, false)).
Definition ix_w2 : inv_input := ([NCall 75 S01c 1 88 2 (NPush 7) 9; NPrim ADD 8], (0, false)).
Theorem inv_key_without_index_refuted :
  exists x y, inv_key_no_index x = inv_key_no_index y /\ inv_deps_named x <> inv_deps_named y.
Proof. exists ix_w1, ix_w2. split; [reflexivity|]. intro H. vm_compute in H. discriminate H. Qed.
Theorem inv_key_separates_index : inv_key ix_w1 <> inv_key ix_w2.
Proof. intro H. vm_compute in H. discriminate H. Qed.

(** remark (no real witness: a text program cannot change a function's origin binding without
    adding a span): the origin field of a kept handle is not determined by the key *)
Definition or_w1 : inv_input := ([NCall 75 S01c 0 88 1 (NPush 7) 9], (0, false)).
Definition or_w2 : inv_input := ([NCall 75 S01c 0 88 2 (NPush 7) 9], (0, false)).
Remark inv_key_forgets_origin : inv_key or_w1 = inv_key or_w2 /\ inv_deps or_w1 <> inv_deps or_w2.
Proof. split; [reflexivity|]. intro H. vm_compute in H. discriminate H. Qed.

(** the spans-table length (since 868269f): an inverse whose making took [asm.spans.len() - 1]
    is not stored; with that side condition the inverse caches are transparent for every
    function of the keyed dependencies AND, where the inversion reads it, the table length *)
Section StoreTransparent.
  Context {K V : Type}.
  Variable keqb : K -> K -> bool.
  Hypothesis keqb_spec : forall a b, keqb a b = true <-> a = b.

  Theorem inv_cache_store_transparent : forall (kinj : list node * (N * bool) -> K),
    (forall a b, kinj a = kinj b -> a = b) ->
    forall (u : list node * (N * bool) -> bool) (g : list node * (N * bool) -> option N -> V) usable
           (history : list inv_input_l),
    run_memo_store keqb usable (inv_store_l u) (fun x => kinj (inv_key_l x)) (inv_f_l u g) history
    = map (inv_f_l u g) history.
  Proof.
    intros kinj Hinj u g usable h. apply (memo_store_transparent_on keqb keqb_spec).
    intros [x lx] [y ly] Hx Hy St E. apply Hinj in E. unfold inv_key_l in E. cbn [fst] in E.
    pose proof (inv_cache_sufficient x y E) as D.
    unfold inv_store_l, inv_f_l in *. cbn [fst snd] in *. rewrite <- D.
    destruct (u (inv_deps_named x)); [discriminate St | reflexivity].
  Qed.
End StoreTransparent.

(** the under cache and the anti cache by themselves: what their keys feed determines what the
    inversions read of their arguments (nodes with spans, indices, signatures, bodies, names;
    g_sig and the inverse flag; for_un) *)
Theorem under_cache_sufficient : forall (x y : under_input),
  under_key x = under_key y -> under_deps x = under_deps y.
Proof.
  intros [x ex] [y ey] E. unfold under_key, under_deps in *. cbn [fst snd] in *.
  rewrite (map_ext _ _ no_origin_deep x), (map_ext _ _ no_origin_deep y). exact E.
Qed.

Theorem anti_cache_sufficient : forall (x y : anti_input),
  anti_key x = anti_key y -> anti_deps x = anti_deps y.
Proof.
  intros [x fx] [y fy] E. unfold anti_key, anti_deps in *. cbn [fst snd] in *.
  assert (E1 : fx = fy) by (apply (f_equal fst) in E; exact E).
  assert (E2 : map deep x = map deep y) by (apply (f_equal snd) in E; exact E).
  rewrite (map_ext _ _ no_origin_deep x), (map_ext _ _ no_origin_deep y), E1, E2. reflexivity.
Qed.

(** any table whose key determines [d], that stores a result only when its making did not read
    the spans-table length, is transparent for every function of [d] and (where read) the length *)
Section LenStore.
  Context {X D K V : Type}.
  Variable keqb : K -> K -> bool.
  Hypothesis keqb_spec : forall a b, keqb a b = true <-> a = b.
  Variable k : X -> K.
  Variable d : X -> D.
  Hypothesis k_determines_d : forall x y, k x = k y -> d x = d y.

  Theorem len_store_transparent : forall (u : D -> bool) (g : D -> option N -> V) usable (history : list (X * N)),
    run_memo_store keqb usable (len_store d u) (fun x => k (fst x)) (len_f d u g) history
    = map (len_f d u g) history.
  Proof.
    intros u g usable h. apply (memo_store_transparent_on keqb keqb_spec).
    intros [x lx] [y ly] Hx Hy St E. cbn [fst] in E. pose proof (k_determines_d x y E) as Dq.
    unfold len_store, len_f in *. cbn [fst snd] in *. rewrite <- Dq.
    destruct (u (d x)); [discriminate St | reflexivity].
  Qed.
End LenStore.

Theorem under_cache_store_transparent :
  forall (K V : Type) (keqb : K -> K -> bool), (forall a b, keqb a b = true <-> a = b) ->
  forall (kinj : list node * (N * bool) -> K), (forall a b, kinj a = kinj b -> a = b) ->
  forall (u : list node * (N * bool) -> bool) (g : list node * (N * bool) -> option N -> V) usable
         (history : list (under_input * N)),
    run_memo_store keqb usable (len_store under_deps u) (fun x => kinj (under_key (fst x))) (len_f under_deps u g) history
    = map (len_f under_deps u g) history.
Proof.
  intros K V keqb Hk kinj Hinj.
  exact (len_store_transparent keqb Hk (fun x => kinj (under_key x)) under_deps
           (fun x y E => under_cache_sufficient x y (Hinj _ _ E))).
Qed.

Theorem anti_cache_store_transparent :
  forall (K V : Type) (keqb : K -> K -> bool), (forall a b, keqb a b = true <-> a = b) ->
  forall (kinj : bool * list node -> K), (forall a b, kinj a = kinj b -> a = b) ->
  forall (u : list node * bool -> bool) (g : list node * bool -> option N -> V) usable
         (history : list (anti_input * N)),
    run_memo_store keqb usable (len_store anti_deps u) (fun x => kinj (anti_key (fst x))) (len_f anti_deps u g) history
    = map (len_f anti_deps u g) history.
Proof.
  intros K V keqb Hk kinj Hinj.
  exact (len_store_transparent keqb Hk (fun x => kinj (anti_key x)) anti_deps
           (fun x y E => anti_cache_sufficient x y (Hinj _ _ E))).
Qed.

Theorem inv_fix_sufficient : forall (V : Type) (g : list node * (N * bool) -> V),
  sufficient inv_key_fix (fun x => g (inv_deps x)).
Proof. intros V g x y E. unfold inv_key_fix, inv_deps in *. rewrite E. reflexivity. Qed.

Theorem zip_fix_sufficient : forall (V : Type) (g : node -> V), sufficient zip_key_fix (fun x => g (zip_deps x)).
Proof. intros V g x y E. unfold zip_key_fix, zip_deps in *. rewrite E. reflexivity. Qed.

(** purity.  The real pair (confirmed by the harness on every run):
      X ← ⚂ / °(⊂X) [1 2]       then       F ← |0.1 (°(⊂F) [1 2]) / F
    [<call global 0>] with signature |0.1 is asked for its purity in both; binding 0 is an
    (unevaluated) constant in the first assembly and does not exist yet in the second
    (tree.rs:889-899: missing binding => not pure).  The cached [true] makes the second
    program compile (fresh: "Cannot call F because of an inversion error"). *)
Definition S01 := 65536.
Definition pur_w1 : pur_input := ((NGlobal 0 S01, [{| b_kind := 0; b_external := false |}]), 2).
Definition pur_w2 : pur_input := ((NGlobal 0 S01, []), 2).
Theorem pur_cache_refuted : exists x y, pur_key x = pur_key y /\ pur_deps x <> pur_deps y.
Proof. exists pur_w1, pur_w2. split; [reflexivity|]. intro H. vm_compute in H. discriminate H. Qed.

Theorem pur_fix_sufficient : forall (V : Type) (g : _ -> V), sufficient pur_key_fix (fun x => g (pur_deps x)).
Proof. intros V g x y E. unfold pur_key_fix in E. rewrite E. reflexivity. Qed.

(* ------------------------------------------------------------------ consequences for histories *)

(** with the current inverse key there is a history on which the cache is visible
    (taking as cached function the dependencies themselves) *)
Section Visible.
  Context {X K D : Type}.
  Variable key : X -> K.
  Variable deps : X -> D.
  (** any decidable equality on keys *)
  Variable keqb : K -> K -> bool.
  Hypothesis keqb_spec : forall a b, keqb a b = true <-> a = b.

  Theorem refuted_visible :
    (exists x y, key x = key y /\ deps x <> deps y) ->
    exists history, run_memo keqb always key deps history <> map deps history.
  Proof.
    intros (x & y & Hk & Hd). apply (memo_not_transparent keqb keqb_spec).
    exists x, y. repeat split; assumption.
  Qed.

  (** and conversely if the key determines the dependencies every function of them is cached transparently *)
  Theorem determined_transparent : forall (V : Type) (g : D -> V) usable,
    (forall x y, key x = key y -> deps x = deps y) ->
    forall history, run_memo keqb usable key (fun x => g (deps x)) history = map (fun x => g (deps x)) history.
  Proof.
    intros V g usable Hd h. apply (memo_transparent keqb keqb_spec).
    intros x y E. rewrite (Hd x y E). reflexivity.
  Qed.
End Visible.
