(** C14 proofs, part 1: structural equality of IR trees is Leibniz equality. *)
From Coq Require Import List ZArith NArith Bool Lia PeanoNat.
From UV Require Import Model.Node Model.Sig Model.Exec Model.Calls Proofs.TreeOk.
Import ListNotations.

Lemma sval_eqb_eq a b : sval_eqb a b = true -> a = b.
Proof.
  destruct a, b; simpl; try discriminate; intros H.
  - apply Z.eqb_eq in H. congruence.
  - apply N.eqb_eq in H. congruence.
Qed.
Lemma modk_eqb_eq a b : modk_eqb a b = true -> a = b.
Proof. unfold modk_eqb. destruct (modk_eq_dec a b); auto; discriminate. Qed.
Lemma modk_eqb_refl m : modk_eqb m m = true.
Proof. unfold modk_eqb; destruct (modk_eq_dec m m); congruence. Qed.
Lemma osig_eqb_eq a b : osig_eqb a b = true -> a = b.
Proof.
  destruct a, b; simpl; try discriminate; auto. intros H. apply sig_eqb_eq in H. congruence.
Qed.

Ltac split_andb :=
  repeat match goal with
  | H : _ && _ = true |- _ => apply andb_prop in H; destruct H
  end.
Ltac conv_eqb :=
  repeat match goal with
  | H : Nat.eqb _ _ = true |- _ => apply Nat.eqb_eq in H
  | H : N.eqb _ _ = true |- _ => apply N.eqb_eq in H
  | H : Bool.eqb _ _ = true |- _ => apply Bool.eqb_prop in H
  | H : sig_eqb _ _ = true |- _ => apply sig_eqb_eq in H
  | H : osig_eqb _ _ = true |- _ => apply osig_eqb_eq in H
  | H : sval_eqb _ _ = true |- _ => apply sval_eqb_eq in H
  | H : modk_eqb _ _ = true |- _ => apply modk_eqb_eq in H
  end.

Lemma run_eqb_eq l1 :
  Forall (fun a => forall b, node_eqb a b = true -> a = b) l1 ->
  forall l2, node_eqb (Run l1) (Run l2) = true -> l1 = l2.
Proof.
  induction 1 as [|x t Hx Ht IH]; intros [|y u] H; simpl in H; try discriminate; auto.
  split_andb. f_equal; auto.
Qed.
Lemma ops_eqb_eq m l1 :
  Forall (fun a : sig * node => forall b, node_eqb (snd a) b = true -> snd a = b) l1 ->
  forall l2, node_eqb (Mod m l1) (Mod m l2) = true -> l1 = l2.
Proof.
  induction 1 as [|x t Hx Ht IH]; intros [|y u] H; simpl in H; rewrite modk_eqb_refl in H; simpl in H; try discriminate; auto.
  split_andb. conv_eqb. destruct x, y; simpl in *. f_equal; [f_equal; auto|].
  apply IH. simpl. rewrite modk_eqb_refl. simpl. assumption.
Qed.

Theorem node_eqb_sound : forall a b, node_eqb a b = true -> a = b.
Proof.
  induction a using node_ind'; intros bb; destruct bb; intros E; try discriminate E.
  - simpl in E. conv_eqb. congruence.
  - simpl in E. split_andb. conv_eqb. congruence.
  - simpl in E. conv_eqb. congruence.
  - f_equal. eapply run_eqb_eq; eauto.
  - assert (m = m0) by (simpl in E; split_andb; conv_eqb; auto). subst.
    f_equal. eapply ops_eqb_eq; eauto.
  - simpl in E. split_andb. conv_eqb. congruence.
  - simpl in E. split_andb. conv_eqb. congruence.
  - simpl in E. split_andb. conv_eqb. congruence.
  - reflexivity.
  - simpl in E. split_andb. conv_eqb. f_equal; auto.
  - simpl in E. split_andb. conv_eqb. congruence.
  - simpl in E. split_andb. conv_eqb. subst. f_equal.
    match goal with HH : _ brs brs0 = true |- _ => rename HH into HB end.
    clear - H HB. revert brs0 HB. induction H as [|x t Hx Ht IH]; intros [|y u] E; try discriminate; auto.
    split_andb. conv_eqb. destruct x, y; simpl in *. f_equal; [f_equal; auto|]. apply IH; auto.
  - simpl in E. conv_eqb. congruence.
  - simpl in E. conv_eqb. congruence.
  - simpl in E. conv_eqb. congruence.
  - simpl in E. f_equal; auto.
  - simpl in E. split_andb. conv_eqb. f_equal; auto.
  - simpl in E. split_andb. conv_eqb. f_equal; auto.
  - reflexivity.
  - reflexivity.
  - simpl in E. conv_eqb. congruence.
  - simpl in E. conv_eqb. congruence.
  - simpl in E. conv_eqb. congruence.
  - reflexivity.
Qed.
