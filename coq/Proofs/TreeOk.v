(** the executable tree invariant implies the one the frame theorem assumes *)
From Coq Require Import List ZArith NArith Bool Lia PeanoNat.
From UV Require Import Model.Node Model.Sig Model.Exec Model.TreeOk Proofs.SimBase Proofs.SigMono Proofs.SigSound.
Import ListNotations.

Lemma sig_eqb_eq a b : sig_eqb a b = true -> a = b.
Proof.
  destruct a, b; unfold sig_eqb; simpl. intros H.
  repeat (apply andb_prop in H; destruct H as [H ?]).
  repeat match goal with H : Nat.eqb _ _ = true |- _ => apply Nat.eqb_eq in H end. subst. reflexivity.
Qed.

Lemma stored_okb_sound sg f : stored_okb sg f = true -> stored_ok sg f.
Proof.
  unfold stored_okb, stored_ok. destruct (vnode 0 f (vs0, vs0)) as [e0|]; [|discriminate].
  intros H. exists e0. split; auto. unfold sig_fitsb in H.
  repeat (apply andb_prop in H; destruct H as [H ?]).
  repeat match goal with H : Nat.eqb _ _ = true |- _ => apply Nat.eqb_eq in H end.
  apply Nat.leb_le in H. exists (sa sg - sa (env_sig e0)). repeat split; lia.
Qed.

Lemma stored_exactb_sound sg f : stored_exactb sg f = true -> stored_exact sg f.
Proof.
  unfold stored_exactb, stored_exact. destruct (vnode 0 f (vs0, vs0)) as [e0|]; [|discriminate].
  intros H. exists e0. split; auto. apply sig_eqb_eq; auto.
Qed.

Theorem tree_okb_sound asm : forall n, tree_okb asm n = true -> tree_ok asm n.
Proof.
  induction n using node_ind'; cbn [tree_okb tree_ok]; intros Hb; auto.
  - (* Run *) induction H as [|x t Hx Ht IH]; simpl in *; auto.
    apply andb_prop in Hb as [H1 H2]. split; auto. apply IH; auto.
  - (* Mod *)
    apply andb_prop in Hb as [Hb H3]. apply andb_prop in Hb as [Hb H2x]. apply andb_prop in Hb as [H1 H2].
    split; [|split; [|split]].
    + reflexivity.
    + intros Hi. assert (Hi' : ignores_underb m = true) by (destruct m; simpl in *; auto; discriminate).
      rewrite Hi' in H2. simpl in H2. rewrite Forall_forall. rewrite forallb_forall in H2.
      intros a Ha. specialize (H2 a Ha). apply andb_prop in H2 as [A B].
      apply Nat.eqb_eq in A, B. auto.
    + intros Hi. assert (Hi' : needs_exactb m = true) by (destruct m; simpl in *; auto; discriminate).
      rewrite Hi' in H2x. simpl in H2x. rewrite Forall_forall. rewrite forallb_forall in H2x.
      intros a Ha. apply stored_exactb_sound. auto.
    + clear H1 H2 H2x. induction H as [|a t Ha Ht IH]; simpl in *; auto.
      apply andb_prop in H3 as [H3 H4]. apply andb_prop in H3 as [H5 H6].
      repeat split; auto. apply stored_okb_sound; auto. apply IH; auto.
  - (* Call *) destruct (nth_error asm f); auto. apply stored_okb_sound; auto.
  - (* Switch *)
    apply andb_prop in Hb as [Hb H3]. apply andb_prop in Hb as [H1 H2].
    apply Nat.eqb_eq in H1, H2. repeat split; auto.
    induction H as [|a t Ha Ht IH]; simpl in *; auto.
    apply andb_prop in H3 as [H3 H4].
    repeat (apply andb_prop in H3; destruct H3 as [H3 ?]).
    repeat match goal with
           | H : Nat.eqb _ _ = true |- _ => apply Nat.eqb_eq in H
           | H : (_ <=? _) = true |- _ => apply Nat.leb_le in H end.
    split; [repeat split; auto; apply stored_okb_sound; auto | apply IH; auto].
  - (* CustomInv *)
    apply andb_prop in Hb as [Hb H3]. apply andb_prop in Hb as [H1 H2].
    repeat split; auto. apply stored_okb_sound; auto.
    intros ->. simpl in H3. destruct s; [|discriminate]. apply sig_eqb_eq in H3. subst; reflexivity.
Qed.

Theorem asm_okb_sound asm : asm_okb asm = true -> asm_ok asm.
Proof.
  unfold asm_okb, asm_ok. rewrite forallb_forall, Forall_forall.
  intros H x Hx. apply tree_okb_sound; auto.
Qed.
