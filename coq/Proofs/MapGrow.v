(** C16 — grow_impl: re-hashing every old cell (placeholders included) into a larger
    table keeps the bindings and re-establishes the invariant, for every hash function. *)
From Coq Require Import List Arith NArith ZArith Lia Bool.
From UV Require Import Model.Map Proofs.MapBase Proofs.MapProbe Proofs.Map.
Import ListNotations.

Section MapGrow.
Variable key : Type.
Variable keq : key -> key -> bool.
Variable hash : key -> N.
Variable he : N.
Variable ht : N.
Hypothesis keq_sym : forall a b, keq a b = keq b a.

Notation mkk := (mk key).
Notation capm := (cap key).
Notation hs := (hstart key hash).
Notation cellk := (cell key).

Definition ne_weight (c : cellk) : nat := match c with Empty => 0 | _ => 1 end.
Fixpoint count_ne (l : list cellk) : nat :=
  match l with [] => 0 | c :: t => ne_weight c + count_ne t end.

Lemma count_ne_le : forall l, count_ne l <= length l.
Proof. induction l as [|[| |k] t IH]; simpl; lia. Qed.

Lemma count_ne_set_nth : forall p c l, p < length l ->
  count_ne (set_nth p c l) + ne_weight (nth p l Empty) = count_ne l + ne_weight c.
Proof.
  intros p c l. revert p. induction l as [|a t IH]; intros [|p] H; simpl in *; try lia.
  specialize (IH p ltac:(lia)). lia.
Qed.

Lemma count_ne_full : forall l, (forall p, p < length l -> nth p l Empty <> Empty) -> count_ne l = length l.
Proof.
  induction l as [|a t IH]; intros H; simpl; auto.
  assert (Ha := H 0 ltac:(simpl; lia)). simpl in Ha.
  rewrite IH. { destruct a; simpl; try lia. congruence. }
  intros p Hp. apply (H (S p)). simpl. lia.
Qed.

Lemma count_ne_repeat : forall n, count_ne (repeat Empty n) = 0.
Proof. induction n; simpl; auto. Qed.

(** ---- one placement *)
Lemma place_spec : forall fuel (cs : list cellk) (is : list nat) c ix s d,
  let n := length cs in
  s < n -> d < n -> d + fuel = n ->
  (forall e, e < d -> nth (off n s e) cs Empty <> Empty) ->
  count_ne cs < n ->
  exists d0, d0 < n /\ nth (off n s d0) cs Empty = Empty /\
    (forall e, e < d0 -> nth (off n s e) cs Empty <> Empty) /\
    place key fuel cs is c ix (off n s d) = (set_nth (off n s d0) c cs, set_nth (off n s d0) ix is).
Proof.
  induction fuel; intros cs is c ix s d n Hs Hd Hf Hprev Hcnt.
  - lia.
  - cbn [place]. destruct (nth (off n s d) cs Empty) eqn:Ec.
    + exists d. repeat split; auto.
    + assert (Hsd : S d < n).
      { destruct (Nat.eq_dec (S d) n) as [E|]; [|lia]. exfalso.
        assert (Hfull : count_ne cs = length cs).
        { apply count_ne_full. intros p Hp. destruct (off_cover n s p Hs Hp) as [e [He ->]].
          destruct (Nat.eq_dec e d) as [->|]; [rewrite Ec; discriminate|apply Hprev; lia]. }
        fold n in Hfull. lia. }
      fold n. rewrite off_step by lia.
      apply IHfuel; auto; try lia.
      intros e He. fold n. destruct (Nat.eq_dec e d) as [->|]; [rewrite Ec; discriminate|apply Hprev; lia].
    + assert (Hsd : S d < n).
      { destruct (Nat.eq_dec (S d) n) as [E|]; [|lia]. exfalso.
        assert (Hfull : count_ne cs = length cs).
        { apply count_ne_full. intros p Hp. destruct (off_cover n s p Hs Hp) as [e [He ->]].
          destruct (Nat.eq_dec e d) as [->|]; [rewrite Ec; discriminate|apply Hprev; lia]. }
        fold n in Hfull. lia. }
      fold n. rewrite off_step by lia.
      apply IHfuel; auto; try lia.
      intros e He. fold n. destruct (Nat.eq_dec e d) as [->|]; [rewrite Ec; discriminate|apply Hprev; lia].
Qed.

(** ---- the invariant of the re-insertion loop *)
Definition holds (cs : list cellk) (is : list nat) (k : key) (i : nat) : Prop :=
  exists p, nth p cs Empty = Key k /\ nth p is 0 = i.
Definition inrest (rest : list (cellk * nat)) (k : key) (i : nat) : Prop :=
  exists b, nth_error rest b = Some (Key k, i).
Definition reach_l (n : nat) (cs : list cellk) : Prop :=
  forall p k, nth p cs Empty = Key k ->
    exists d, d < n /\ p = off n (hs k n) d /\ forall e, e < d -> nth (off n (hs k n) e) cs Empty <> Empty.

Record ginv (n K : nat) (B : key -> nat -> Prop) (cs : list cellk) (is : list nat) (rest : list (cellk * nat)) : Prop := {
  g_len : length cs = n /\ length is = n;
  g_room : count_ne cs + length rest < n;
  g_reach : reach_l n cs;
  g_distinct : forall p q k k', nth p cs Empty = Key k -> nth q cs Empty = Key k' -> keq k k' = true -> p = q;
  g_cross : forall p k b k' i, nth p cs Empty = Key k -> nth_error rest b = Some (Key k', i) -> keq k k' = false;
  g_rest : forall a b k k' i j, nth_error rest a = Some (Key k, i) -> nth_error rest b = Some (Key k', j) ->
             keq k k' = true -> a = b;
  g_binds : forall k i, (holds cs is k i \/ inrest rest k i) <-> B k i;
  g_count : count_keys cs + count_keys (map fst rest) = K }.

Lemma start_lt : forall (c : cellk) n, 0 < n -> cell_start key hash he ht c n < n.
Proof. intros [| |k] n H; simpl; apply start_of_lt; assumption. Qed.

Lemma nth_set_cases : forall A p q (x : A) l d, p < length l ->
  nth q (set_nth p x l) d = if q =? p then x else nth q l d.
Proof.
  intros. destruct (Nat.eqb_spec q p) as [->|Hne].
  - apply nth_set_nth_eq. assumption.
  - apply nth_set_nth_neq. assumption.
Qed.

Lemma ginv_step : forall n K B cs is c ix rest, 0 < n ->
  ginv n K B cs is ((c, ix) :: rest) ->
  let r := place key n cs is c ix (cell_start key hash he ht c n) in
  ginv n K B (fst r) (snd r) rest.
Proof.
  intros n K B cs is c ix rest Hn G r.
  destruct (g_len _ _ _ _ _ _ G) as [Lc Li].
  assert (Hs := start_lt c n Hn).
  assert (Hroom := g_room _ _ _ _ _ _ G). simpl in Hroom.
  destruct (place_spec n cs is c ix (cell_start key hash he ht c n) 0) as [d0 [Hd0 [He0 [Hpath Hpl]]]];
    rewrite ?Lc; auto; try lia.
  rewrite Lc in Hpl, He0, Hpath, Hd0. rewrite off_0 in Hpl by assumption.
  unfold r. rewrite Hpl. simpl fst. simpl snd.
  set (s := cell_start key hash he ht c n) in *.
  set (p0 := off n s d0) in *.
  assert (Hp0 : p0 < n) by (apply off_lt; assumption).
  assert (Hcs : forall q, nth q (set_nth p0 c cs) Empty = if q =? p0 then c else nth q cs Empty).
  { intros q. apply nth_set_cases. lia. }
  assert (His : forall q, nth q (set_nth p0 ix is) 0 = if q =? p0 then ix else nth q is 0).
  { intros q. apply nth_set_cases. lia. }
  constructor.
  - rewrite !set_nth_length. auto.
  - assert (Hc := count_ne_set_nth p0 c cs ltac:(lia)). rewrite He0 in Hc. simpl in Hc.
    destruct c; simpl in Hc; lia.
  - intros q k Hq. rewrite Hcs in Hq. destruct (Nat.eqb_spec q p0) as [->|Hne].
    + subst c. simpl in s. exists d0. repeat split; auto.
      intros e He. rewrite Hcs. destruct (_ =? p0); [discriminate|apply Hpath; assumption].
    + destruct (g_reach _ _ _ _ _ _ G q k Hq) as [d [Hd [Hqd Hpth]]]. exists d. repeat split; auto.
      intros e He. rewrite Hcs. destruct (Nat.eqb_spec (off n (hs k n) e) p0) as [E|_]; [|apply Hpth; assumption].
      intro Hx. subst c. apply (Hpth e He). rewrite E. exact He0.
  - intros p q k k' Hp Hq Hk. rewrite Hcs in Hp, Hq.
    destruct (Nat.eqb_spec p p0), (Nat.eqb_spec q p0); subst; auto.
    + assert (Hx := g_cross _ _ _ _ _ _ G q k' 0 k ix Hq eq_refl). rewrite keq_sym in Hx. congruence.
    + assert (Hx := g_cross _ _ _ _ _ _ G p k 0 k' ix Hp eq_refl). congruence.
    + apply (g_distinct _ _ _ _ _ _ G p q k k'); auto.
  - intros p k b k' i Hp Hb. rewrite Hcs in Hp. destruct (Nat.eqb_spec p p0) as [->|Hne].
    + subst c. destruct (keq k k') eqn:E; auto. exfalso.
      assert (Hx := g_rest _ _ _ _ _ _ G 0 (S b) k k' ix i eq_refl Hb E). discriminate.
    + apply (g_cross _ _ _ _ _ _ G p k (S b) k' i Hp Hb).
  - intros a b k k' i j Ha Hb Hk.
    assert (Hx := g_rest _ _ _ _ _ _ G (S a) (S b) k k' i j Ha Hb Hk). lia.
  - intros k i. rewrite <- (g_binds _ _ _ _ _ _ G k i). unfold holds, inrest. split.
    + intros [[q [Hq Hi]]|[b Hb]].
      * rewrite Hcs in Hq. rewrite His in Hi. destruct (Nat.eqb_spec q p0) as [Heq|Hne].
        -- right. exists 0. simpl. subst c ix. reflexivity.
        -- left. exists q. auto.
      * right. exists (S b). exact Hb.
    + intros [[q [Hq Hi]]|[[|b] Hb]].
      * left. exists q. rewrite Hcs, His. destruct (Nat.eqb_spec q p0) as [Heq|Hne]; auto.
        rewrite Heq, He0 in Hq. discriminate.
      * simpl in Hb. inversion Hb; subst. left. exists p0. rewrite Hcs, His, Nat.eqb_refl. auto.
      * right. exists b. exact Hb.
  - assert (Hc := count_keys_set_nth key p0 c cs ltac:(lia)). rewrite He0 in Hc.
    unfold key_weight in Hc. simpl in Hc.
    rewrite <- (g_count _ _ _ _ _ _ G). simpl. destruct c; simpl in *; lia.
Qed.

Lemma ginv_fold : forall n K B rest cs is, 0 < n -> ginv n K B cs is rest ->
  let r := place_all key hash he ht n rest (cs, is) in
  ginv n K B (fst r) (snd r) [].
Proof.
  intros n K B. induction rest as [|[c ix] rest IH]; intros cs is Hn G; simpl; auto.
  assert (G' := ginv_step n K B cs is c ix rest Hn G). simpl in G'.
  unfold place_all in IH.
  destruct (place key n cs is c ix (cell_start key hash he ht c n)) as [cs' is'] eqn:E.
  simpl in G'. apply (IH cs' is' Hn G').
Qed.

Lemma map_fst_combine : forall (l : list cellk) (l' : list nat), length l = length l' -> map fst (combine l l') = l.
Proof. induction l; intros [|b l'] H; simpl in *; try lia; auto. f_equal. apply IHl. lia. Qed.

Lemma nth_error_combine : forall (l : list cellk) (l' : list nat) b c i,
  nth_error (combine l l') b = Some (c, i) -> nth_error l b = Some c /\ nth_error l' b = Some i.
Proof.
  induction l; intros [|x l'] [|b] c i H; simpl in *; try discriminate.
  - inversion H; subst. auto.
  - apply IHl. assumption.
Qed.

Lemma nth_error_combine' : forall (l : list cellk) (l' : list nat) b c i,
  nth_error l b = Some c -> nth_error l' b = Some i -> nth_error (combine l l') b = Some (c, i).
Proof.
  induction l; intros [|x l'] [|b] c i H1 H2; simpl in *; try discriminate.
  - inversion H1; inversion H2; subst. auto.
  - apply IHl; assumption.
Qed.

Lemma nth_repeat_empty : forall n p, nth p (repeat (@Empty key) n) Empty = Empty.
Proof. induction n; intros [|p]; simpl; auto. Qed.

(** ---- growth keeps the bindings and re-establishes the invariant *)
Theorem grow_ok_proved : grow_ok key keq hash he ht.
Proof.
  intros m n Hp Hcap. unfold grow_spec.
  assert (Hn : 0 < n) by lia.
  set (B := binds_at key m).
  assert (G0 : ginv n (len m) B (repeat Empty n) (repeat 0 n) (combine (cells m) (idx m))).
  { constructor.
    - rewrite !repeat_length. auto.
    - rewrite count_ne_repeat, combine_length, (t_len _ _ _ Hp). unfold cap in *. lia.
    - intros p k H. rewrite nth_repeat_empty in H. discriminate.
    - intros p q k k' H. rewrite nth_repeat_empty in H. discriminate.
    - intros p k b k' i H. rewrite nth_repeat_empty in H. discriminate.
    - intros a b k k' i j Ha Hb Hk.
      apply nth_error_combine in Ha. apply nth_error_combine in Hb.
      destruct Ha as [Ha _]. destruct Hb as [Hb _].
      apply (t_distinct _ _ _ Hp a b k k'); auto; unfold cellat; apply nth_error_nth; assumption.
    - intros k i. unfold B, binds_at, holds, inrest. split.
      + intros [[p [H _]]|[b Hb]]; [rewrite nth_repeat_empty in H; discriminate|].
        apply nth_error_combine in Hb. destruct Hb as [H1 H2].
        exists b. split; [unfold cellat|]; apply nth_error_nth; assumption.
      + intros [p [H1 H2]]. right. exists p.
        assert (Hlt : p < length (cells m)).
        { apply nth_overflow_default with (d := Empty). unfold cellat in H1. rewrite H1. discriminate. }
        apply nth_error_combine'.
        * rewrite <- H1. unfold cellat. apply nth_error_nth'. assumption.
        * rewrite <- H2. apply nth_error_nth'. rewrite (t_len _ _ _ Hp) in Hlt. exact Hlt.
    - rewrite count_keys_repeat_empty, map_fst_combine by (apply (t_len _ _ _ Hp)). apply (t_count _ _ _ Hp). }
  assert (G := ginv_fold n (len m) B _ _ _ Hn G0). simpl in G.
  unfold grow_to.
  set (r := place_all key hash he ht n (combine (cells m) (idx m)) (repeat Empty n, repeat 0 n)) in *.
  destruct (g_len _ _ _ _ _ _ G) as [Lc Li].
  split; [|split; [|split; [|split]]].
  - constructor; simpl.
    + unfold cap. simpl. lia.
    + intros p q k k'. unfold cellat. simpl. apply (g_distinct _ _ _ _ _ _ G).
    + assert (Hc := g_count _ _ _ _ _ _ G). simpl in Hc. lia.
  - intros p k H. unfold cap. simpl. rewrite Li. unfold cellat in *. simpl in *.
    apply (g_reach _ _ _ _ _ _ G p k H).
  - unfold cap. simpl. exact Li.
  - reflexivity.
  - intros k i. rewrite <- (g_binds _ _ _ _ _ _ G k i). unfold binds_at, holds, inrest, cellat. simpl. split.
    + intros H. left. exact H.
    + intros [H|[b Hb]]; [exact H|]. destruct b; discriminate.
Qed.

End MapGrow.
