(** C16 — records of the four defects repaired by fix: commits d33ad92, 1d73a86, ca07ac6 and
    5017b06: the model of the code BEFORE them ([fixed = false]) departs from the association
    list on these histories (each was confirmed on the implementation of that time by
    harness/src/bin/c16.rs); the model of the current code ([fixed = true]) agrees on them.
    Evaluated with the real hashes of the keys involved (low 63 bits of DefaultHasher). *)
From Coq Require Import List Arith NArith ZArith Bool.
From UV Require Import Model.Map.
Import ListNotations.
Import NInst.

(** number keys 0..3 and NaN (coded 999), placeholders EMPTY_NAN / TOMBSTONE_NAN *)
Definition real_tbl : list (N * N) :=
  [(0, 1748808729412576414); (1, 583418475314495168); (2, 5678932554625264879);
   (3, 9110319541411285617); (999, 3460169562480226753)]%N.
Definition real_hash : N -> N := assoc_hash real_tbl.
Definition real_he : N := 210751463537172823%N.
Definition real_ht : N := 2088776636592848410%N.
(** NaN compares equal to the placeholder cells (all NaNs are equal) *)
Definition is_nan (k : N) : bool := N.eqb k 999%N.

Definition agrees (fixed : bool) (ops : list (@op N N)) : bool := spec_agrees fixed is_nan real_hash real_he real_ht ops.

(** (a) d33ad92: `get NaN map [1 2 3] [4 5 6]` found 4 *)
Definition h_nan_get : list (@op N N) := [OIns 1 4; OIns 2 5; OIns 3 6; OGet 999; OHas 999]%N.
(** `insert NaN 7` of that map left 4 keys for 3 rows *)
Definition h_nan_insert : list (@op N N) := [OIns 1 4; OIns 2 5; OIns 3 6; OIns 999 7; OUnmap]%N.
(** `insert 2 2 insert 1 1 remove NaN insert 0 0 map [] []` overflowed the stack: the model's
    insert runs out of retries on the table without an empty cell *)
Definition h_nan_remove : list (@op N N) := [OIns 0 0; ORem 999; OIns 1 1; OIns 2 2; OUnmap]%N.
Lemma nan_key_refuted_pre : agrees false h_nan_get = false /\ agrees false h_nan_insert = false /\ agrees false h_nan_remove = false.
Proof. vm_compute. repeat split; reflexivity. Qed.
Lemma nan_insert_refuted_pre :
  let v := fst (run N N N.eqb is_nan false real_hash real_he real_ht (empty_map N N) h_nan_insert) in
  len (fst v) = 4 /\ length (snd v) = 3.
Proof. vm_compute. split; reflexivity. Qed.

(** (b) 1d73a86: `°map ↘1 map [3] [4]` kept the key *)
Definition h_drop_all : list (@op N N) := [OIns 3 4; ODrop 1; OUnmap; OIns 1 5; OUnmap]%N.
Lemma drop_all_refuted_pre : agrees false h_drop_all = false.
Proof. vm_compute. reflexivity. Qed.

(** (c) ca07ac6: `⊂ map [1 2 3] [4 5 6] map [1 2] [7 8]` left two keys on one row *)
Definition h_join_overlap : list (@op N N) := [OIns 1 4; OIns 2 5; OIns 3 6; OJoin [(1, 7); (2, 8)]; OUnmap; OGet 3]%N.
Lemma join_overlap_refuted_pre : agrees false h_join_overlap = false.
Proof. vm_compute. reflexivity. Qed.

(** (d) 5017b06: `map [1 2 2 1] [10 20 30 40]` left two keys on one row *)
Definition l_dup_keys : list (N * N) := [(1, 10); (2, 20); (2, 30); (1, 40)]%N.
Lemma map_dup_keys_refuted_pre :
  abs N N (v_map N N N.eqb false real_hash real_he real_ht l_dup_keys) <> lift N N (a_map N N N.eqb l_dup_keys).
Proof. vm_compute. discriminate. Qed.

(** the model of the current code agrees with the association list on all of them *)
Lemma repaired_histories_agree :
  agrees true h_nan_get = true /\ agrees true h_nan_insert = true /\ agrees true h_nan_remove = true /\
  agrees true h_drop_all = true /\ agrees true h_join_overlap = true /\
  abs N N (v_map N N N.eqb true real_hash real_he real_ht l_dup_keys) = lift N N (a_map N N N.eqb l_dup_keys).
Proof. vm_compute. repeat split; reflexivity. Qed.

(** a history with re-insertion after removal, colliding keys, a NaN key, growth and the row operations *)
Lemma agrees_example :
  agrees true [OIns 1 4; OIns 2 5; OIns 999 6; ORem 2; OIns 0 9; OIns 2 8; OGet 999; OHas 3; ORem 1; OLen;
               OIns 1 1; OUnmap; ORev; ORot 1%Z; OTake 3; ODrop 1; OJoin [(3, 7); (999, 8); (0, 2)]; OUnmap;
               ODrop 5; OUnmap; OIns 3 3; OUnmap]%N = true.
Proof. vm_compute. reflexivity. Qed.
