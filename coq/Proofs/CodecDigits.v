(** C18 — positional digits: the lemmas shared by bits, base and the little-endian layouts,
    and the round-trip theorems of bits / base / bytes. *)
From Coq Require Import List ZArith Bool Lia.
From UV Require Import Model.Codec.
Import ListNotations.
Open Scope Z_scope.

(** ** digits / horner *)
Lemma horner_digits : forall k b n, 0 < b -> horner b (digits k b n) = n mod b ^ Z.of_nat k.
Proof.
  induction k; intros b n Hb.
  - cbn [digits horner Z.of_nat]. rewrite Z.pow_0_r, Z.mod_1_r. reflexivity.
  - cbn [digits horner]. rewrite IHk by assumption.
    rewrite Nat2Z.inj_succ, Z.pow_succ_r by lia.
    rewrite Z.rem_mul_r by (try lia; apply Z.pow_pos_nonneg; lia). reflexivity.
Qed.

Lemma horner_digits_small : forall k b n, 0 < b -> 0 <= n < b ^ Z.of_nat k -> horner b (digits k b n) = n.
Proof. intros. rewrite horner_digits by assumption. apply Z.mod_small. assumption. Qed.

Lemma horner_scale : forall b s ds, horner b (map (Z.mul s) ds) = s * horner b ds.
Proof. induction ds; cbn [map horner]; [ring | rewrite IHds; ring]. Qed.

Lemma horner_app_zeros : forall b ds m, horner b (ds ++ repeat 0 m) = horner b ds.
Proof.
  induction ds; intros; cbn [app horner].
  - induction m; cbn [repeat horner]; [reflexivity | rewrite IHm; ring].
  - rewrite IHds. reflexivity.
Qed.

Lemma digits_length : forall k b n, length (digits k b n) = k.
Proof. induction k; intros; cbn [digits length]; [reflexivity | rewrite IHk; reflexivity]. Qed.

Lemma digits_range : forall k b n, 0 < b -> Forall (fun d => 0 <= d < b) (digits k b n).
Proof.
  induction k; intros; cbn [digits]; constructor.
  - apply Z.mod_pos_bound. assumption.
  - apply IHk. assumption.
Qed.

(** digits of a horner value: the decoder's input is what the encoder would produce *)
Lemma digits_horner : forall b ds, 0 < b -> Forall (fun d => 0 <= d < b) ds ->
  digits (length ds) b (horner b ds) = ds.
Proof.
  induction ds; intros Hb Hf; cbn [length digits horner]; [reflexivity|].
  inversion Hf; subst.
  assert (E1 : (a + b * horner b ds) mod b = a).
  { replace (a + b * horner b ds) with (a + horner b ds * b) by ring.
    rewrite Z.mod_add by lia. apply Z.mod_small. assumption. }
  assert (E2 : (a + b * horner b ds) / b = horner b ds).
  { replace (a + b * horner b ds) with (a + horner b ds * b) by ring.
    rewrite Z.div_add by lia. rewrite (Z.div_small a b) by assumption. lia. }
  rewrite E1, E2, IHds by assumption. reflexivity.
Qed.

Lemma horner_bound : forall b ds, 0 < b -> Forall (fun d => 0 <= d < b) ds ->
  0 <= horner b ds < b ^ Z.of_nat (length ds).
Proof.
  induction ds; intros Hb Hf; cbn [length horner].
  - cbn. lia.
  - inversion Hf; subst. specialize (IHds Hb H2).
    rewrite Nat2Z.inj_succ, Z.pow_succ_r by lia. nia.
Qed.

(** ** chunks of a concatenation of equal-length rows *)
Lemma firstn_app_exact : forall (A : Type) (r l : list A), firstn (length r) (r ++ l) = r.
Proof. induction r; intros; cbn; [destruct l; reflexivity | rewrite IHr; reflexivity]. Qed.
Lemma skipn_app_exact : forall (A : Type) (r l : list A), skipn (length r) (r ++ l) = l.
Proof. induction r; intros; cbn; [reflexivity | apply IHr]. Qed.

Lemma chunks_concat : forall k rows fuel, (0 < k)%nat ->
  Forall (fun r => length r = k) rows -> (length rows <= fuel)%nat ->
  chunks fuel k (concat rows) = rows.
Proof.
  intros k rows. induction rows as [|r t IH]; intros fuel Hk Hf Hl.
  - destruct fuel; reflexivity.
  - inversion Hf; subst. destruct fuel; [cbn in Hl; lia|].
    cbn [concat chunks]. destruct r as [|x r']; [cbn in Hk; lia|].
    change ((x :: r') ++ concat t) with ((x :: r') ++ concat t).
    remember (x :: r') as r.
    replace (match r ++ concat t with [] => [] | _ :: _ => firstn (length r) (r ++ concat t) :: chunks fuel (length r) (skipn (length r) (r ++ concat t)) end)
      with (firstn (length r) (r ++ concat t) :: chunks fuel (length r) (skipn (length r) (r ++ concat t)))
      by (subst r; reflexivity).
    rewrite firstn_app_exact, skipn_app_exact. f_equal. apply IH; [assumption | assumption | cbn in Hl; lia].
Qed.

Lemma concat_length_ge : forall k (rows : list (list Z)), (0 < k)%nat ->
  Forall (fun r => length r = k) rows -> (length rows <= length (concat rows))%nat.
Proof.
  induction rows; intros Hk Hf; cbn [concat length]; [lia|].
  inversion Hf; subst. rewrite app_length. specialize (IHrows Hk H2). lia.
Qed.

Lemma concat_length_eq : forall k (rows : list (list Z)),
  Forall (fun r => length r = k) rows -> length (concat rows) = (length rows * k)%nat.
Proof.
  induction rows; intros Hf; cbn [concat length]; [reflexivity|].
  inversion Hf; subst. rewrite app_length, IHrows by assumption. lia.
Qed.

(** ** bit length *)
Lemma pos_size_nat_gt : forall p, Zpos p < 2 ^ Z.of_nat (Pos.size_nat p).
Proof.
  induction p; cbn [Pos.size_nat]; rewrite ?Nat2Z.inj_succ, ?Z.pow_succ_r by lia; try lia.
Qed.
Lemma bit_len_gt : forall n, 0 <= n -> n < 2 ^ Z.of_nat (bit_len n).
Proof.
  intros [|p|p] H; cbn [bit_len]; [cbn; lia | apply pos_size_nat_gt | lia].
Qed.
Lemma bit_len_zero : forall n, 0 <= n -> bit_len n = O -> n = 0.
Proof.
  intros [|p|p] H E; [reflexivity | destruct p; cbn in E; discriminate | lia].
Qed.

Lemma zmax_list_ge : forall l x, In x l -> x <= zmax_list l.
Proof.
  induction l; intros x Hin; [destruct Hin|]. cbn [zmax_list fold_right].
  destruct Hin as [->|Hin]; [lia | specialize (IHl _ Hin); unfold zmax_list in IHl; lia].
Qed.
Lemma zmax_list_nonneg : forall l, 0 <= zmax_list l.
Proof. induction l; cbn [zmax_list fold_right]; [lia | unfold zmax_list in IHl; lia]. Qed.

Lemma sgn_abs : forall n, sgn_of n * Z.abs n = n.
Proof. intros n. unfold sgn_of. destruct (Z.ltb_spec n 0); lia. Qed.

Lemma rev_snoc_shape : forall (sh : list Z) x, rev (sh ++ [x]) = x :: rev sh.
Proof. intros. rewrite rev_app_distr. reflexivity. Qed.

(** ** bits / un bits *)
Module BitsP.
  Import Bits.

  Lemma nat_of_small : forall n, Z.abs n < 2 ^ 53 -> nat_of n = Some (Z.abs n).
  Proof.
    intros n H. unfold nat_of, U128_MAX.
    assert (2 ^ 53 < 2 ^ 128) by (apply Z.pow_lt_mono_r; lia).
    destruct (Z.ltb_spec (2 ^ 128) (Z.abs n)); [lia|]. f_equal. lia.
  Qed.

  Lemma nats_of_small : forall ns, Forall (fun n => Z.abs n < 2 ^ 53) ns -> nats_of ns = Some (map Z.abs ns).
  Proof.
    induction ns; intros Hf; cbn [nats_of map]; [reflexivity|].
    inversion Hf; subst. rewrite nat_of_small, IHns by assumption. reflexivity.
  Qed.

  Lemma row_length : forall bc n a, length (row bc n a) = bc.
  Proof. intros. unfold row. rewrite app_length, map_length, digits_length, repeat_length. lia. Qed.

  Lemma combine_map_abs : forall ns (f : Z * Z -> list Z),
    map f (combine ns (map Z.abs ns)) = map (fun n => f (n, Z.abs n)) ns.
  Proof. induction ns; intros; cbn; [reflexivity | rewrite IHns; reflexivity]. Qed.

  Lemma horner_row : forall bc n, Z.abs n < 2 ^ 53 -> Z.abs n < 2 ^ Z.of_nat bc ->
    horner 2 (row bc n (Z.abs n)) = n.
  Proof.
    intros bc n H53 Hbc. unfold row. rewrite horner_app_zeros, horner_scale, horner_digits by lia.
    rewrite Z.mod_small; [apply sgn_abs|].
    split; [lia|]. destruct (Nat.le_ge_cases bc 127).
    - rewrite Nat.min_l by assumption. assumption.
    - rewrite Nat.min_r by assumption. change (Z.of_nat 127) with 127.
      assert (2 ^ 53 < 2 ^ 127) by (apply Z.pow_lt_mono_r; lia). lia.
  Qed.

  (** un_bits (bits x) = x for every integer array whose entries are below 2^53 in magnitude *)
  Theorem unbits_bits : forall sh ns,
    Forall (fun n => Z.abs n < 2 ^ 53) ns -> Z.of_nat (length ns) = zprod sh ->
    exists sh' ds, bits sh ns = Some (sh', ds) /\ un_bits sh' ds = (sh, ns).
  Proof.
    intros sh ns Hf Hlen. unfold bits. rewrite nats_of_small by assumption.
    set (bc := bit_len (zmax_list (map Z.abs ns))).
    eexists. eexists. split; [reflexivity|].
    unfold un_bits. rewrite rev_snoc_shape, rev_involutive.
    rewrite combine_map_abs. cbn [fst snd].
    assert (Hbc : forall n, In n ns -> Z.abs n < 2 ^ Z.of_nat bc).
    { intros n Hin. pose proof (zmax_list_ge (map Z.abs ns) (Z.abs n) (in_map Z.abs _ _ Hin)).
      pose proof (bit_len_gt (zmax_list (map Z.abs ns)) (zmax_list_nonneg _)). fold bc in H0. lia. }
    destruct (Z.eqb_spec (Z.of_nat bc) 0) as [E|E].
    - (* every number is 0 *)
      f_equal. rewrite <- Hlen, Nat2Z.id.
      assert (Hz : forall n, In n ns -> n = 0).
      { intros n Hin. specialize (Hbc n Hin). rewrite E in Hbc. cbn in Hbc. lia. }
      clear - Hz. induction ns; cbn [length repeat]; [reflexivity|].
      rewrite (Hz a) by (left; reflexivity). f_equal. apply IHns. intros; apply Hz; right; assumption.
    - f_equal. rewrite Nat2Z.id.
      rewrite chunks_concat.
      + rewrite map_map. rewrite <- (map_id ns) at 2. apply map_ext_in. intros n Hin.
        apply horner_row; [rewrite Forall_forall in Hf; apply Hf; assumption | apply Hbc; assumption].
      + lia.
      + rewrite Forall_forall. intros r Hr. rewrite in_map_iff in Hr. destruct Hr as [n [<- _]]. apply row_length.
      + apply (concat_length_ge bc); [lia|].
        rewrite Forall_forall. intros r Hr. rewrite in_map_iff in Hr. destruct Hr as [n [<- _]]. apply row_length.
  Qed.
End BitsP.

(** ** base / anti base *)
Module BaseP.
  Import Base.

  Lemma row_length : forall len b n, length (row len b n) = len.
  Proof. intros. unfold row. rewrite map_length, digits_length. reflexivity. Qed.

  Lemma horner_row : forall len b n, 2 <= b -> Z.abs n < b ^ Z.of_nat len -> horner b (row len b n) = n.
  Proof.
    intros. unfold row. rewrite horner_scale, horner_digits_small by lia. apply sgn_abs.
  Qed.

  (** anti_base (base x) = x whenever the row length is large enough for every entry *)
  Theorem antibase_base : forall len b sh ns,
    2 <= b -> Forall (fun n => Z.abs n < b ^ Z.of_nat len) ns -> Z.of_nat (length ns) = zprod sh ->
    anti_base b (fst (base len b sh ns)) (snd (base len b sh ns)) = (sh, ns).
  Proof.
    intros len b sh ns Hb Hf Hlen. unfold base. cbn [fst snd].
    unfold anti_base. rewrite rev_snoc_shape, rev_involutive.
    destruct (Z.eqb_spec (Z.of_nat len) 0) as [E|E].
    - f_equal. rewrite <- Hlen, Nat2Z.id.
      assert (Hz : forall n, In n ns -> n = 0).
      { intros n Hin. rewrite Forall_forall in Hf. specialize (Hf n Hin). rewrite E in Hf. cbn in Hf. lia. }
      clear - Hz. induction ns; cbn [length repeat]; [reflexivity|].
      rewrite (Hz a) by (left; reflexivity). f_equal. apply IHns. intros; apply Hz; right; assumption.
    - f_equal. rewrite Nat2Z.id. rewrite chunks_concat.
      + rewrite map_map. rewrite <- (map_id ns) at 2. apply map_ext_in. intros n Hin.
        apply horner_row; [assumption | rewrite Forall_forall in Hf; apply Hf; assumption].
      + lia.
      + rewrite Forall_forall. intros r Hr. rewrite in_map_iff in Hr. destruct Hr as [n [<- _]]. apply row_length.
      + apply (concat_length_ge len); [lia|].
        rewrite Forall_forall. intros r Hr. rewrite in_map_iff in Hr. destruct Hr as [n [<- _]]. apply row_length.
  Qed.

  (** *** the row length the implementation computes *)
  Section Auto.
    Variable est : Z -> Z -> nat.
    Variable b : Z.
    Hypothesis Hb : 2 <= b.
    (** the only fact needed about the floating-point logarithm: its floor is at most one digit short *)
    Definition est_close (n : Z) : Prop := n <> 0 -> Z.abs n < b ^ Z.of_nat (S (est b n)).

    Lemma digits_needed_enough : forall n, est_close n -> Z.abs n < b ^ Z.of_nat (digits_needed true est b n).
    Proof.
      intros n Hc. unfold digits_needed. destruct (Z.eqb_spec n 0) as [->|Hn].
      - cbn. lia.
      - cbn [andb]. replace (1 <? b) with true by (symmetry; apply Z.ltb_lt; lia). cbn [andb].
        destruct (Z.leb_spec (b ^ Z.of_nat (est b n)) (Z.abs n)); [apply Hc; assumption | assumption].
    Qed.

    Lemma fold_max_ge_nat : forall l x, In x l -> (x <= fold_right Nat.max O l)%nat.
    Proof. induction l; intros x H; [destruct H|]. cbn [fold_right]. destruct H as [->|H]; [lia | specialize (IHl _ H); lia]. Qed.

    (** ⌝⊥ b (⊥ b x) = x with the row length computed as the repaired code does, for every base >= 2 *)
    Theorem antibase_base_auto : forall sh ns,
      Forall est_close ns -> Z.of_nat (length ns) = zprod sh ->
      anti_base b (fst (base_auto true est b sh ns)) (snd (base_auto true est b sh ns)) = (sh, ns).
    Proof.
      intros sh ns Hc Hlen. unfold base_auto. apply antibase_base; [assumption | | assumption].
      rewrite Forall_forall in *. intros n Hin.
      eapply Z.lt_le_trans; [apply digits_needed_enough; apply Hc; assumption|].
      apply Z.pow_le_mono_r; [lia|]. apply inj_le. apply fold_max_ge_nat. apply in_map. assumption.
    Qed.
  End Auto.

  (** record of the defect repaired by dfd90e9: before the repair (no correction) an estimate that is
      one short -- log 3 of 243 = 4.99.. gives 5 -- lost the leading digit although it satisfies [est_close] *)
  Theorem antibase_base_short_refuted_pre :
    exists est b sh ns, 2 <= b /\ Forall (fun n => 0 <= n < 2 ^ 53) ns /\ Forall (est_close est b) ns /\
      anti_base b (fst (base_auto false est b sh ns)) (snd (base_auto false est b sh ns)) <> (sh, ns).
  Proof.
    exists (fun _ _ => 5%nat), 3, [], [243]. split; [lia|]. split; [repeat constructor; cbn; lia|].
    split; [repeat constructor; intros _; cbn; lia|]. vm_compute. discriminate.
  Qed.
End BaseP.

(** ** bytes: fixed-width integer formats *)
Module BytesP.
  Import Bytes.

  Lemma pow256 : forall w, 256 ^ Z.of_nat w = 2 ^ (8 * Z.of_nat w).
  Proof. intros. change 256 with (2 ^ 8). rewrite <- Z.pow_mul_r by lia. reflexivity. Qed.

  Lemma le_bytes_length : forall w n, length (le_bytes w n) = w.
  Proof. intros. unfold le_bytes. apply digits_length. Qed.

  Lemma enc1_length : forall f big n, length (enc1 f big n) = width f.
  Proof. intros. unfold enc1. destruct big; rewrite ?rev_length; apply le_bytes_length. Qed.

  Definition in_range (f : fmt) (n : Z) : Prop := lo f <= n <= hi f.

  Lemma of_le_le_bytes : forall f n, (0 < width f)%nat -> in_range f n ->
    of_le f (le_bytes (width f) n) = n.
  Proof.
    intros f n Hw [Hlo Hhi]. unfold of_le, le_bytes.
    assert (Hp : 0 < 2 ^ (8 * Z.of_nat (width f))) by (apply Z.pow_pos_nonneg; lia).
    rewrite horner_digits_small; try lia.
    2:{ rewrite pow256. apply Z.mod_pos_bound. assumption. }
    unfold lo, hi, bitsz in *.
    assert (Hh : 2 ^ (8 * Z.of_nat (width f)) = 2 * 2 ^ (8 * Z.of_nat (width f) - 1)).
    { rewrite <- Z.pow_succ_r by lia. f_equal. lia. }
    destruct (signed f); cbn [andb].
    - destruct (Z.leb_spec (2 ^ (8 * Z.of_nat (width f) - 1)) (n mod 2 ^ (8 * Z.of_nat (width f)))) as [L|L].
      + (* negative *)
        destruct (Z.lt_ge_cases n 0) as [Hn|Hn].
        * rewrite <- (Z.mod_add n 1) by lia. rewrite Z.mod_small by lia. lia.
        * rewrite Z.mod_small in L by lia. lia.
      + destruct (Z.lt_ge_cases n 0) as [Hn|Hn].
        * rewrite <- (Z.mod_add n 1) in L by lia. rewrite Z.mod_small in L by lia. lia.
        * apply Z.mod_small. lia.
    - apply Z.mod_small. lia.
  Qed.

  Lemma dec1_enc1 : forall f big n, (0 < width f)%nat -> in_range f n -> dec1 f big (enc1 f big n) = n.
  Proof.
    intros f big n Hw Hr. unfold dec1, enc1.
    assert (clamp f n = n) as -> by (unfold clamp; destruct Hr; lia).
    destruct big; rewrite ?rev_involutive; apply of_le_le_bytes; assumption.
  Qed.

  Lemma enc1_byte : forall big a, 0 <= a <= 255 -> enc1 {| signed := false; width := 1 |} big a = [a].
  Proof.
    intros big a Ha. unfold enc1, le_bytes, clamp, lo, hi, bitsz. cbn [signed width digits].
    change (8 * Z.of_nat 1) with 8. change (2 ^ 8) with 256.
    replace (Z.max 0 (Z.min (256 - 1) a)) with a by lia.
    rewrite Z.mod_mod by lia. rewrite Z.mod_small by lia. destruct big; reflexivity.
  Qed.

  (** ⌝bytes f (bytes f x) = x for EVERY integer format (1-byte formats included), any endianness *)
  Theorem decode_encode_bytes : forall f big sh ns,
    (0 < width f)%nat -> Forall (in_range f) ns -> Z.of_nat (length ns) = zprod sh ->
    decode true f big (fst (encode f big sh ns)) (snd (encode f big sh ns)) = Some (sh, ns).
  Proof.
    intros f big sh ns Hw Hf Hlen. unfold encode, decode. cbn [fst snd].
    assert (Hrows : Forall (fun r => length r = width f) (map (enc1 f big) ns)).
    { rewrite Forall_forall. intros r Hr. rewrite in_map_iff in Hr. destruct Hr as [n [<- _]]. apply enc1_length. }
    assert (Hdec : map (fun x => dec1 f big (enc1 f big x)) ns = ns).
    { rewrite <- (map_id ns) at 2. apply map_ext_in. intros n Hin. apply dec1_enc1; [lia|].
      rewrite Forall_forall in Hf. apply Hf. assumption. }
    destruct (Nat.eqb_spec (width f) 1) as [E|E].
    - destruct (signed f) eqn:Es; cbn [negb andb].
      + (* i8 *)
        f_equal. f_equal. rewrite <- E. rewrite chunks_concat; [| lia | assumption | apply (concat_length_ge (width f)); [lia | assumption]].
        rewrite map_map, Hdec, <- Hlen, Nat2Z.id. apply firstn_all.
      + (* u8 *)
        f_equal. f_equal. destruct f as [sg w]. cbn [signed width] in *. subst sg w.
        clear - Hf. induction ns; cbn [map concat]; [reflexivity|]. inversion Hf; subst.
        rewrite IHns by assumption. rewrite enc1_byte; [reflexivity|].
        unfold in_range, lo, hi, bitsz in H1. cbn in H1. lia.
    - rewrite andb_false_r. cbn [andb]. rewrite rev_snoc_shape, rev_involutive, Z.eqb_refl.
      f_equal. f_equal. rewrite chunks_concat; [| lia | assumption | apply (concat_length_ge (width f)); [lia | assumption]].
      rewrite map_map, Hdec, <- Hlen, Nat2Z.id. apply firstn_all.
  Qed.

  (** record of the defect repaired by 821d336: before it the i8 format did not round-trip
      (the encoder adds no axis, the decoder removed one) *)
  Theorem decode_encode_i8_refuted_pre :
    exists big sh ns, Forall (in_range {| signed := true; width := 1 |}) ns /\ Z.of_nat (length ns) = zprod sh /\
      decode false {| signed := true; width := 1 |} big (fst (encode {| signed := true; width := 1 |} big sh ns))
             (snd (encode {| signed := true; width := 1 |} big sh ns)) <> Some (sh, ns).
  Proof.
    exists false, [3], [1; 2; 3]. split; [repeat constructor; cbn; lia|]. split; [reflexivity|].
    vm_compute. discriminate.
  Qed.
End BytesP.
