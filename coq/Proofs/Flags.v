(** C05 proofs: soundness of the flag algebra (each helper preserves truthfulness under its
    stated side condition) and preservation of well-formedness by the concretely modelled
    primitives.  The row order is C15's [value_cmp true]; its laws come from Proofs/Order.v. *)
From Coq Require Import List ZArith NArith Bool Arith Lia PeanoNat.
From UV Require Import Base.Value Model.Order Proofs.CmpLaws Proofs.Order Model.Flags.
Import ListNotations.

(* ------------------------------------------------------------------ the row order *)

Lemma ge_le a b : ge_b a b = le_b b a.
Proof. unfold ge_b, le_b. rewrite (cmp_antisym a b). destruct (value_cmp true a b); reflexivity. Qed.
Lemma le_total a b : le_b a b = false -> le_b b a = true.
Proof. unfold le_b. rewrite (cmp_antisym a b). destruct (value_cmp true a b); simpl; congruence. Qed.
Lemma le_refl a : le_b a a = true.
Proof. unfold le_b. rewrite cmp_refl. reflexivity. Qed.
Lemma le_trans a b c : le_b a b = true -> le_b b c = true -> le_b a c = true.
Proof.
  unfold le_b. intros H1 H2.
  assert (V : vle a c).
  { apply (cmp_trans a b c); unfold vle; intro E; rewrite E in *; discriminate. }
  unfold vle in V. destruct (value_cmp true a c); congruence.
Qed.
Lemma le_ge_eq a b : le_b a b = true -> ge_b a b = true -> value_cmp true a b = Eq.
Proof. unfold le_b, ge_b. destruct (value_cmp true a b); congruence. Qed.

(* ------------------------------------------------------------------ chains *)

Section Chain.
  Context {A : Type}.
  Lemma chain_cons (r : A -> A -> bool) x y t :
    chain r (x :: y :: t) = r x y && chain r (y :: t).
  Proof. reflexivity. Qed.
  Lemma chain_tail (r : A -> A -> bool) x t : chain r (x :: t) = true -> chain r t = true.
  Proof. destruct t; simpl; auto. intros H. apply andb_prop in H. tauto. Qed.
  Lemma chain_app1 (r : A -> A -> bool) l x :
    chain r l = true -> (forall y, last l x = y -> l <> [] -> r y x = true) -> chain r (l ++ [x]) = true.
  Proof.
    induction l as [|a l IH]; intros H L; auto.
    destruct l as [|b l].
    - simpl. rewrite L; auto. discriminate.
    - change ((a :: b :: l) ++ [x]) with (a :: (b :: l) ++ [x]).
      simpl app. rewrite chain_cons in *. apply andb_prop in H as [H1 H2]. rewrite H1. simpl.
      apply IH; auto. intros y E _. apply L; [exact E | discriminate].
  Qed.
  Lemma chain_rev (r r' : A -> A -> bool) l :
    (forall a b, r' a b = r b a) -> chain r l = true -> chain r' (rev l) = true.
  Proof.
    intros E. induction l as [|a l IH]; intros H; auto.
    simpl. apply chain_app1.
    - apply IH. eapply chain_tail; eauto.
    - intros y L NE. rewrite E. destruct l as [|b l]; [exfalso; apply NE; reflexivity|].
      rewrite chain_cons in H. apply andb_prop in H as [H1 _].
      rewrite <- L. simpl rev. rewrite last_last. exact H1.
  Qed.
  Lemma chain_ext (r r' : A -> A -> bool) l : (forall a b, r a b = r' a b) -> chain r l = chain r' l.
  Proof. intros E. induction l as [|a l IH]; auto. destruct l as [|b l]; auto. rewrite !chain_cons, IH, E. reflexivity. Qed.

  (** insertion into a chain of a total relation *)
  Variable le : A -> A -> bool.
  Hypothesis total : forall a b, le a b = false -> le b a = true.
  Lemma insert_chain x l : chain le l = true -> chain le (insert le x l) = true.
  Proof.
    induction l as [|y l IH]; intros H; auto.
    simpl. destruct (le x y) eqn:E.
    - rewrite chain_cons, E. auto.
    - specialize (IH (chain_tail _ _ _ H)).
      destruct l as [|z l].
      + simpl. rewrite (total _ _ E). reflexivity.
      + simpl insert in *. destruct (le x z) eqn:E2.
        * rewrite chain_cons, (total _ _ E). simpl. exact IH.
        * rewrite chain_cons in H. apply andb_prop in H as [H1 _].
          rewrite chain_cons, H1. simpl. exact IH.
  Qed.
  Lemma isort_chain l : chain le (isort le l) = true.
  Proof. induction l; simpl; auto. apply insert_chain; auto. Qed.
  Lemma insert_length x l : length (insert le x l) = S (length l).
  Proof. induction l; simpl; auto. destruct (le x a); simpl; auto. Qed.
  Lemma isort_length l : length (isort le l) = length l.
  Proof. induction l; simpl; auto. rewrite insert_length; auto. Qed.
  Lemma insert_Forall (P : A -> Prop) x l : P x -> Forall P l -> Forall P (insert le x l).
  Proof.
    intros Hx. induction 1; simpl; auto. destruct (le x x0); auto.
  Qed.
  Lemma isort_Forall (P : A -> Prop) l : Forall P l -> Forall P (isort le l).
  Proof. induction 1; simpl; auto. apply insert_Forall; auto. Qed.
End Chain.

Lemma chain_map {A B} (r : B -> B -> bool) (f : A -> B) l :
  chain r (map f l) = chain (fun a b => r (f a) (f b)) l.
Proof.
  induction l as [|a l IH]; auto. destruct l as [|b l]; auto.
  change (map f (a :: b :: l)) with (f a :: f b :: map f l).
  change (map f (b :: l)) with (f b :: map f l) in IH.
  rewrite !chain_cons, IH. reflexivity.
Qed.

(* ------------------------------------------------------------------ chunks *)

Section Chunk.
  Context {A : Type}.
  Lemma chunk_length (m n : nat) (d : list A) : length (chunk m n d) = n.
  Proof. revert d; induction n; simpl; auto. Qed.
  Lemma chunk_Forall m n (d : list A) : length d = (n * m)%nat -> Forall (fun r => length r = m) (chunk m n d).
  Proof.
    revert d; induction n; intros d H; simpl; constructor.
    - rewrite firstn_length. simpl in H. lia.
    - apply IHn. rewrite skipn_length. simpl in H. lia.
  Qed.
  Lemma concat_chunk m n (d : list A) : length d = (n * m)%nat -> concat (chunk m n d) = d.
  Proof.
    revert d; induction n; intros d H; simpl.
    - destruct d; simpl in *; congruence.
    - rewrite IHn. apply firstn_skipn. rewrite skipn_length. simpl in H. lia.
  Qed.
  Lemma chunk_concat m (l : list (list A)) :
    Forall (fun r => length r = m) l -> chunk m (length l) (concat l) = l.
  Proof.
    induction 1 as [|r l Hr Hl IH]; simpl; auto.
    rewrite firstn_app, skipn_app, (firstn_all2 r), (skipn_all2 r) by lia.
    replace (m - length r)%nat with 0%nat by lia. simpl. rewrite app_nil_r. f_equal. exact IH.
  Qed.
  Lemma concat_length_const m (l : list (list A)) :
    Forall (fun r => length r = m) l -> length (concat l) = (length l * m)%nat.
  Proof. induction 1; simpl; auto. rewrite app_length. lia. Qed.
  Lemma forallb_concat (p : A -> bool) (l : list (list A)) :
    forallb p (concat l) = forallb (forallb p) l.
  Proof. induction l; simpl; auto. rewrite forallb_app, IHl. reflexivity. Qed.
  Lemma forallb_rev (p : A -> bool) l : forallb p (rev l) = forallb p l.
  Proof. induction l; simpl; auto. rewrite forallb_app. simpl. rewrite IHl, andb_true_r, andb_comm. reflexivity. Qed.
  Lemma forallb_firstn (p : A -> bool) n l : forallb p l = true -> forallb p (firstn n l) = true.
  Proof. revert l; induction n; intros [|x l]; simpl; auto. intros H. apply andb_prop in H as [H1 H2]. rewrite H1; simpl; auto. Qed.
  Lemma forallb_skipn (p : A -> bool) n l : forallb p l = true -> forallb p (skipn n l) = true.
  Proof. revert l; induction n; intros [|x l]; simpl; auto. intros H. apply andb_prop in H as [H1 H2]. auto. Qed.
  Lemma forallb_chunk (p : A -> bool) m n d : forallb p d = true -> forallb (forallb p) (chunk m n d) = true.
  Proof.
    revert d; induction n; intros d H; simpl; auto.
    rewrite forallb_firstn; auto. simpl. apply IHn, forallb_skipn, H.
  Qed.
  Lemma forallb_Forall_len (l : list (list A)) m : Forall (fun r => length r = m) (rev l) <-> Forall (fun r => length r = m) l.
  Proof. rewrite !Forall_forall. split; intros H x I; apply H; apply in_rev; try exact I. rewrite rev_involutive; exact I. Qed.
  Lemma forallb_insert (p : A -> bool) le x l : p x = true -> forallb p l = true -> forallb p (insert le x l) = true.
  Proof.
    intros Hx. induction l; simpl; intros H. rewrite Hx; auto.
    apply andb_prop in H as [H1 H2]. destruct (le x a); simpl; rewrite ?Hx, ?H1; simpl; auto.
  Qed.
  Lemma forallb_isort (p : A -> bool) le l : forallb p l = true -> forallb p (isort le l) = true.
  Proof. induction l; simpl; auto. intros H. apply andb_prop in H as [H1 H2]. apply forallb_insert; auto. Qed.
End Chunk.

(* ------------------------------------------------------------------ the flag algebra *)

Lemma flags_okb_iff v f : flags_okb v f = true <->
  (f_bool f = true -> bool_ok v = true) /\ (f_up f = true -> up_ok v = true) /\ (f_down f = true -> down_ok v = true).
Proof.
  unfold flags_okb. destruct f as [b u d]; simpl.
  destruct b, u, d, (bool_ok v), (up_ok v), (down_ok v); simpl; intuition congruence.
Qed.

(** marks may always be dropped *)
Definition fle (g f : flags) : Prop :=
  (f_bool g = true -> f_bool f = true) /\ (f_up g = true -> f_up f = true) /\ (f_down g = true -> f_down f = true).
Lemma flags_weaken v f g : fle g f -> flags_okb v f = true -> flags_okb v g = true.
Proof. rewrite !flags_okb_iff. unfold fle. intuition. Qed.

Lemma take_sorted_sound v f : flags_okb v f = true -> flags_okb v (clear_sorted f) = true /\ flags_okb v (sorted_part f) = true.
Proof. intros H; split; eapply flags_weaken; eauto; unfold fle; simpl; intuition discriminate. Qed.
Lemma take_value_sound v f : flags_okb v f = true -> flags_okb v (clear_value f) = true.
Proof. intros H; eapply flags_weaken; eauto; unfold fle; simpl; intuition discriminate. Qed.
Lemma reset_sound v f : flags_okb v (reset_flags f) = true.
Proof. reflexivity. Qed.
(** or-ing marks in is truthful exactly when the added marks are truthful about the same data *)
Lemma or_sorted_sound v f g : flags_okb v f = true -> flags_okb v (sorted_part g) = true -> flags_okb v (or_sorted f g) = true.
Proof.
  rewrite !flags_okb_iff. destruct f, g; simpl. intros (A & B & C) (_ & D & E). repeat split; auto.
  - intros H. apply orb_prop in H as [H|H]; auto.
  - intros H. apply orb_prop in H as [H|H]; auto.
Qed.
Lemma mark_up_sound v f b : flags_okb v f = true -> (b = true -> up_ok v = true) -> flags_okb v (mark_up f b) = true.
Proof. rewrite !flags_okb_iff. destruct f; simpl. intuition. Qed.
Lemma mark_down_sound v f b : flags_okb v f = true -> (b = true -> down_ok v = true) -> flags_okb v (mark_down f b) = true.
Proof. rewrite !flags_okb_iff. destruct f; simpl. intuition. Qed.
(** combine never adds a mark to [self]: it is truthful about the array [self] described
    BEFORE its data is changed; every caller (join, couple) must re-establish the sortedness
    marks for the combined data, and the value marks survive only if they held of both *)
Lemma combine_weakens self other : fle (combine self other) self.
Proof.
  destruct other as [o|]; unfold fle, combine; simpl; repeat split; intros H;
    try discriminate; try (apply andb_prop in H; tauto); auto.
Qed.
Lemma combine_sound v self other : flags_okb v self = true -> flags_okb v (combine self other) = true.
Proof. apply flags_weaken, combine_weakens. Qed.
(** the boolean mark of a combination of two byte arrays is truthful for the concatenated data *)
Lemma combine_bool_app s1 s2 s d1 d2 f1 f2 :
  flags_okb (VByte s1 d1) f1 = true -> flags_okb (VByte s2 d2) f2 = true ->
  f_bool (combine f1 (Some f2)) = true -> bool_ok (VByte s (d1 ++ d2)) = true.
Proof.
  rewrite !flags_okb_iff. simpl. intros (A & _) (B & _) H. apply andb_prop in H as [H1 H2].
  rewrite forallb_app, A, B; auto.
Qed.
Lemma derive_sortedness_sound v f : (f_bool f = true -> bool_ok v = true) -> flags_okb v (derive_sortedness v f) = true.
Proof. intros H. apply flags_okb_iff. simpl. auto. Qed.

(** reversal: the side condition is that the new rows are the old rows in reverse order *)
Lemma up_down_rev v v' : vrows v' = rev (vrows v) ->
  (up_ok v = true -> down_ok v' = true) /\ (down_ok v = true -> up_ok v' = true).
Proof.
  unfold up_ok, down_ok. intros ->. split; apply chain_rev; intros a b.
  - apply ge_le. - rewrite ge_le. reflexivity.
Qed.
Lemma reverse_sorted_sound v v' f :
  vrows v' = rev (vrows v) -> (bool_ok v = true -> bool_ok v' = true) ->
  flags_okb v f = true -> flags_okb v' (reverse_sorted f) = true.
Proof.
  intros R B. rewrite !flags_okb_iff. destruct f; simpl. destruct (up_down_rev v v' R) as [U D].
  intuition.
Qed.

(** adjacent pairs of two row lists of the same length, related pairwise *)
Fixpoint adj_rel (P : value -> value -> value -> value -> Prop) (l l' : list value) : Prop :=
  match l, l' with
  | x :: ((y :: _) as t), x' :: ((y' :: _) as t') => P x y x' y' /\ adj_rel P t t'
  | [_], [_] | [], [] => True
  | _, _ => False
  end.
Lemma chain_transfer (r r' : value -> value -> bool) l l' :
  adj_rel (fun x y x' y' => r x y = true -> r' x' y' = true) l l' -> chain r l = true -> chain r' l' = true.
Proof.
  revert l'. induction l as [|x l IH]; intros [|x' l'] H C; simpl in *; auto; try tauto.
  destruct l as [|y l], l' as [|y' l']; auto; try tauto.
  destruct H as [H1 H2]. apply andb_prop in C as [C1 C2].
  rewrite (H1 C1). simpl. apply (IH (y' :: l')); auto.
Qed.
(** a map that preserves (resp. reverses) the order of adjacent rows keeps (resp. swaps) the
    sortedness marks: the side condition of maintain_scalar_sortedness / signed_scalar_sortedness
    / or_sorted_flags_rev.  It holds for x + c and x * c (c > 0) on numbers WITHOUT NaN in the
    result, reversed for c - x and x * c (c < 0); it fails for characters (case swap), for
    complex numbers and boxes (lexicographic order is not preserved by rounding or by NaN). *)
Definition monotone_rows (v v' : value) : Prop :=
  adj_rel (fun x y x' y' => (le_b x y = true -> le_b x' y' = true) /\ (ge_b x y = true -> ge_b x' y' = true)) (vrows v) (vrows v').
Definition antitone_rows (v v' : value) : Prop :=
  adj_rel (fun x y x' y' => (le_b x y = true -> ge_b x' y' = true) /\ (ge_b x y = true -> le_b x' y' = true)) (vrows v) (vrows v').
Lemma adj_rel_weaken (P Q : value -> value -> value -> value -> Prop) l l' :
  (forall a b c d, P a b c d -> Q a b c d) -> adj_rel P l l' -> adj_rel Q l l'.
Proof.
  intros W. revert l'. induction l as [|x l IH]; intros [|x' l'] H; simpl in *; auto.
  destruct l as [|y l], l' as [|y' l']; auto. destruct H; split; auto.
Qed.
Lemma monotone_sound v v' f : monotone_rows v v' ->
  flags_okb v (sorted_part f) = true -> flags_okb v' (sorted_part f) = true.
Proof.
  unfold monotone_rows. intros M. rewrite !flags_okb_iff. simpl. intros (_ & U & D).
  repeat split; try discriminate; intros H.
  - eapply chain_transfer; [|apply U, H]. eapply adj_rel_weaken; [|exact M]. simpl. tauto.
  - eapply chain_transfer; [|apply D, H]. eapply adj_rel_weaken; [|exact M]. simpl. tauto.
Qed.
Lemma antitone_sound v v' f : antitone_rows v v' ->
  flags_okb v (sorted_part f) = true -> flags_okb v' (sorted_part (reverse_sorted f)) = true.
Proof.
  unfold antitone_rows. intros M. rewrite !flags_okb_iff. simpl. intros (_ & U & D).
  repeat split; try discriminate; intros H.
  - eapply chain_transfer; [|apply D, H]. eapply adj_rel_weaken; [|exact M]. simpl. tauto.
  - eapply chain_transfer; [|apply U, H]. eapply adj_rel_weaken; [|exact M]. simpl. tauto.
Qed.

(** or_sorted_flags_rev (any version after the character repair): truthful when the result's
    rows are an antitone image of the argument's rows - required only for number and complex
    results; characters and boxes get no marks *)
Lemma or_sorted_rev_sound ver v v' cur taken : (1 <= ver)%nat ->
  flags_okb v' cur = true -> flags_okb v (sorted_part taken) = true ->
  (match v' with VBox _ _ | VChar _ _ => True | _ => antitone_rows v v' end) ->
  flags_okb v' (or_sorted_rev ver v' cur taken) = true.
Proof.
  intros V C T A. unfold or_sorted_rev.
  assert (L : Nat.leb 1 ver = true) by (apply Nat.leb_le; exact V). rewrite L.
  assert (CS : flags_okb v' (clear_sorted cur) = true) by (apply take_sorted_sound; auto).
  destruct v'; simpl andb; cbv iota; auto;
    (destruct (negb (f_up taken || f_down taken)); auto;
     assert (O : flags_okb _ (or_sorted cur (reverse_sorted taken)) = true)
       by (apply or_sorted_sound; [exact C | exact (antitone_sound _ _ taken A T)]);
     match goal with |- context [if ?c then _ else _] => destruct c end; auto;
     apply take_sorted_sound; auto).
Qed.

(** the rule before the repair marked the case-swapped string: "abc" sorted ascending becomes
    "ABC" marked descending *)
Lemma neg_chars_mark_refuted_pre :
  exists m swapped r, wf m /\ length swapped = data_len (mv_v m) /\
    p_neg_chars false m swapped = Ok r /\ wfb r = false.
Proof.
  exists (MV (VChar [3%nat] [97; 98; 99]%N) (FL false true false)), [65; 66; 67]%N.
  eexists. repeat split; vm_compute; reflexivity.
Qed.
Lemma neg_chars_repaired m swapped r :
  wf m -> length swapped = data_len (mv_v m) -> p_neg_chars true m swapped = Ok r -> wf r.
Proof.
  unfold wf, wfb, p_neg_chars. destruct m as [[s d|s d|s d|s d|s d] f]; simpl; try discriminate.
  intros W L E. inversion E; subst; clear E. apply andb_prop in W as [W1 W2]. simpl.
  apply andb_true_intro; split.
  - rewrite L. exact W1.
  - apply flags_okb_iff. simpl. repeat split; try discriminate; intros _; reflexivity.
Qed.

(* ------------------------------------------------------------------ structural helpers *)

Definition len_ok (f : forall A, list A -> list A) (n n' : nat) : Prop :=
  forall A (d : list A), length d = n -> length (f A d) = n'.
Definition all_ok (f : forall A, list A -> list A) : Prop :=
  forall A (p : A -> bool) d, forallb p d = true -> forallb p (f A d) = true.

Lemma wf_shape_len v : wf_shape v = true -> data_len v = shape_prod (shape_of v).
Proof. destruct v; simpl; intros H; try (apply Nat.eqb_eq; exact H). apply andb_prop in H as [H _]. apply Nat.eqb_eq; exact H. Qed.

Lemma vdata_map_wf f sh v : len_ok f (shape_prod (shape_of v)) (shape_prod sh) -> all_ok f ->
  wf_shape v = true -> wf_shape (vdata_map f sh v) = true.
Proof.
  intros L P W. pose proof (wf_shape_len v W) as E.
  destruct v; simpl in *; try (apply Nat.eqb_eq, L; exact E).
  apply andb_prop in W as [_ W]. rewrite (P _ _ _ W), andb_true_r. apply Nat.eqb_eq, L; exact E.
Qed.
Lemma vdata_map_bool f sh v : all_ok f -> bool_ok v = true -> bool_ok (vdata_map f sh v) = true.
Proof. intros P. destruct v; simpl; auto. Qed.
Lemma shape_of_vdata_map f sh v : shape_of (vdata_map f sh v) = sh.
Proof. destruct v; reflexivity. Qed.

Lemma flags_cleared_ok v v' f : (bool_ok v = true -> bool_ok v' = true) ->
  flags_okb v f = true -> flags_okb v' (clear_sorted f) = true.
Proof. intros B. rewrite !flags_okb_iff. destruct f; simpl. intuition discriminate. Qed.

(** all rows of a one-row or zero-row array are trivially sorted *)
Lemma vrows_length v n s : shape_of v = n :: s -> length (vrows v) = n.
Proof. destruct v; simpl; intros ->; rewrite map_length, chunk_length; reflexivity. Qed.
Lemma chain_short {A} (r : A -> A -> bool) l : (length l <= 1)%nat -> chain r l = true.
Proof. destruct l as [|x [|y l]]; simpl; auto. lia. Qed.

(* ------------------------------------------------------------------ reverse *)

Lemma rev_rows_len n m : len_ok (rev_rows n m) (n * m) (n * m).
Proof.
  intros A d H. unfold rev_rows.
  rewrite (concat_length_const m).
  - rewrite rev_length, chunk_length. reflexivity.
  - apply forallb_Forall_len, chunk_Forall, H.
Qed.
Lemma rev_rows_all n m : all_ok (rev_rows n m).
Proof.
  intros A p d H. unfold rev_rows. rewrite forallb_concat, forallb_rev. apply forallb_chunk, H.
Qed.
Lemma chunk_rev_rows {A} n m (d : list A) : length d = (n * m)%nat ->
  chunk m n (rev_rows n m A d) = rev (chunk m n d).
Proof.
  intros H. unfold rev_rows.
  replace n with (length (rev (chunk m n d))) at 1 by (rewrite rev_length, chunk_length; reflexivity).
  apply chunk_concat, forallb_Forall_len, chunk_Forall, H.
Qed.

Lemma vrows_reverse v n s : shape_of v = n :: s -> wf_shape v = true ->
  vrows (vdata_map (rev_rows n (shape_prod s)) (n :: s) v) = rev (vrows v).
Proof.
  intros S W. pose proof (wf_shape_len v W) as E. rewrite S in E. simpl in E.
  destruct v; simpl in *; subst; rewrite chunk_rev_rows, map_rev; auto.
Qed.

Lemma reverse_wf m : wf m -> wf (p_reverse m).
Proof.
  unfold wf, wfb, p_reverse. destruct m as [v f]; simpl. intros W. apply andb_prop in W as [W1 W2].
  destruct (shape_of v) as [|n s] eqn:S; simpl; [rewrite W1, W2; reflexivity|].
  destruct (Nat.eqb _ 0); simpl; [rewrite W1, W2; reflexivity|].
  apply andb_true_intro; split.
  - apply vdata_map_wf; auto.
    + rewrite S. apply rev_rows_len.
    + apply rev_rows_all.
  - apply (reverse_sorted_sound v); [apply vrows_reverse; auto | apply vdata_map_bool, rev_rows_all | exact W2].
Qed.

(* ------------------------------------------------------------------ first / last / fix / deshape *)

Lemma first_wf m r : wf m -> p_first m = Ok r -> wf r.
Proof.
  unfold wf, wfb, p_first. destruct m as [v f]; simpl. intros W. apply andb_prop in W as [W1 W2].
  destruct (shape_of v) as [|[|n] s] eqn:S; intros E; inversion E; subst; clear E; simpl.
  - rewrite W1, W2; reflexivity.
  - apply andb_true_intro; split.
    + apply vdata_map_wf; auto.
      * rewrite S. intros A d H. rewrite firstn_length. simpl in H. lia.
      * intros A p d H. apply forallb_firstn, H.
    + apply (flags_cleared_ok v); [|exact W2]. apply vdata_map_bool. intros A p d H. apply forallb_firstn, H.
Qed.
Lemma last_wf m r : wf m -> p_last m = Ok r -> wf r.
Proof.
  unfold wf, wfb, p_last. destruct m as [v f]; simpl. intros W. apply andb_prop in W as [W1 W2].
  destruct (shape_of v) as [|[|n] s] eqn:S; intros E; inversion E; subst; clear E; simpl.
  - rewrite W1, W2; reflexivity.
  - apply andb_true_intro; split.
    + apply vdata_map_wf; auto.
      * rewrite S. intros A d H. rewrite skipn_length. simpl in H. lia.
      * intros A p d H. apply forallb_skipn, H.
    + apply (flags_cleared_ok v); [|exact W2]. apply vdata_map_bool. intros A p d H. apply forallb_skipn, H.
Qed.
Lemma deshape_wf m : wf m -> wf (p_deshape m).
Proof.
  unfold wf, wfb, p_deshape. destruct m as [v f]; simpl. intros W. apply andb_prop in W as [W1 W2].
  apply andb_true_intro; split.
  - apply vdata_map_wf; auto.
    + intros A d H. simpl. lia.
    + intros A p d H; exact H.
  - apply (flags_cleared_ok v); [|exact W2]. apply vdata_map_bool. intros A p d H; exact H.
Qed.
Lemma fix_wf m : wf m -> wf (p_fix m).
Proof.
  unfold wf, wfb, p_fix. destruct m as [v f]; simpl. intros W. apply andb_prop in W as [W1 W2].
  apply andb_true_intro; split.
  - apply vdata_map_wf; auto.
    + intros A d H. simpl. lia.
    + intros A p d H; exact H.
  - apply flags_okb_iff in W2. destruct W2 as (B & _ & _). apply flags_okb_iff. repeat split; intros H.
    + apply vdata_map_bool; auto. intros A p d H'; exact H'.
    + apply chain_short. erewrite vrows_length; [|apply shape_of_vdata_map]. lia.
    + apply chain_short. erewrite vrows_length; [|apply shape_of_vdata_map]. lia.
Qed.

(* ------------------------------------------------------------------ sort *)

Lemma sorted_rows_generic {A} (mk : list nat -> list A -> value) (le : value -> value -> bool)
      (n : nat) (s : list nat) (d : list A) :
  (forall a b, le a b = false -> le b a = true) ->
  length d = (n * shape_prod s)%nat ->
  let d' := concat (isort (fun a b => le (mk s a) (mk s b)) (chunk (shape_prod s) n d)) in
  length d' = (n * shape_prod s)%nat /\
  chain le (map (mk s) (chunk (shape_prod s) n d')) = true /\
  (forall p, forallb p d = true -> forallb p d' = true).
Proof.
  intros T L d'. set (le' := fun a b => le (mk s a) (mk s b)).
  set (rows := chunk (shape_prod s) n d).
  assert (F : Forall (fun r => length r = shape_prod s) (isort le' rows))
    by (apply isort_Forall, chunk_Forall, L).
  assert (N : length (isort le' rows) = n) by (rewrite isort_length; apply chunk_length).
  repeat split.
  - unfold d'. fold le' rows. rewrite (concat_length_const _ _ F), N. reflexivity.
  - unfold d'. fold le' rows. rewrite <- N at 1. rewrite (chunk_concat _ _ F), chain_map.
    apply isort_chain. intros a b. apply T.
  - intros p H. unfold d'. fold le' rows. rewrite forallb_concat. apply forallb_isort, forallb_chunk, H.
Qed.

Lemma rows_sorted_wf le v :
  (forall a b, le a b = false -> le b a = true) -> wf_shape v = true ->
  wf_shape (vdata_rows_sorted le v) = true /\ chain le (vrows (vdata_rows_sorted le v)) = true /\
  (bool_ok v = true -> bool_ok (vdata_rows_sorted le v) = true).
Proof.
  intros T W. pose proof (wf_shape_len v W) as E.
  destruct v as [[|n s] d|[|n s] d|[|n s] d|[|n s] d|[|n s] d]; simpl in E |- *;
    try (repeat split; auto; fail).
  - destruct (sorted_rows_generic VNum le n s d T E) as (L & C & P). repeat split; auto. apply Nat.eqb_eq; exact L.
  - destruct (sorted_rows_generic VByte le n s d T E) as (L & C & P). repeat split; auto. apply Nat.eqb_eq; exact L.
  - destruct (sorted_rows_generic VChar le n s d T E) as (L & C & P). repeat split; auto. apply Nat.eqb_eq; exact L.
  - destruct (sorted_rows_generic VCplx le n s d T E) as (L & C & P). repeat split; auto. apply Nat.eqb_eq; exact L.
  - destruct (sorted_rows_generic VBox le n s d T E) as (L & C & P). simpl in W. apply andb_prop in W as [_ W].
    repeat split; auto. rewrite (P _ W), andb_true_r. apply Nat.eqb_eq; exact L.
Qed.

(** sorting yields rows in ascending order under C15's ordering *)
Theorem sort_sorted v : wf_shape v = true -> up_ok (vdata_rows_sorted le_b v) = true.
Proof. intros W. apply (rows_sorted_wf le_b v le_total W). Qed.

Lemma ge_total a b : ge_b a b = false -> ge_b b a = true.
Proof. rewrite !ge_le. apply le_total. Qed.

Lemma sort_wf m : wf m -> wf (p_sort m).
Proof.
  unfold wf, wfb, p_sort. destruct m as [v f]; simpl. intros W.
  destruct (shape_of v) as [|n s] eqn:S; auto.
  destruct (Nat.eqb _ 0 || f_up f); auto. simpl.
  apply andb_prop in W as [W1 W2].
  destruct (rows_sorted_wf le_b v le_total W1) as (A & B & C). rewrite A. simpl.
  apply flags_okb_iff in W2. destruct W2 as (Bo & _ & _).
  apply flags_okb_iff. destruct f; simpl in *. repeat split; auto; discriminate.
Qed.
Lemma sort_down_wf m : wf m -> wf (p_sort_down m).
Proof.
  unfold wf, wfb, p_sort_down. destruct m as [v f]; simpl. intros W.
  destruct (shape_of v) as [|n s] eqn:S; auto.
  destruct (Nat.eqb _ 0 || f_down f); auto. simpl.
  apply andb_prop in W as [W1 W2].
  destruct (rows_sorted_wf ge_b v ge_total W1) as (A & B & C). rewrite A. simpl.
  apply flags_okb_iff in W2. destruct W2 as (Bo & _ & _).
  apply flags_okb_iff. destruct f; simpl in *. repeat split; auto; discriminate.
Qed.

(* ------------------------------------------------------------------ couple *)

Lemma chunk2 {A} (x y : list A) : chunk (length x) 2 (x ++ y) = [x; firstn (length x) y].
Proof.
  simpl. rewrite firstn_app, Nat.sub_diag, firstn_all. simpl. rewrite app_nil_r.
  rewrite skipn_app, Nat.sub_diag, skipn_all. reflexivity.
Qed.

Lemma lex_cmp_eq' a b : shape_eq a b = true -> a = b.
Proof. unfold shape_eq. intros H. apply lex_cmp_eq. destruct (lex_cmp a b); auto; discriminate. Qed.

Lemma chunk2' {A} m (x y : list A) : length x = m -> length y = m -> chunk m 2 (x ++ y) = [x; y].
Proof. intros <- H. rewrite chunk2, firstn_all2 by lia. reflexivity. Qed.

Lemma vappend_rows a b v : shape_of a = shape_of b -> wf_shape a = true -> wf_shape b = true ->
  vappend (2%nat :: shape_of a) a b = Some v ->
  vrows v = [a; b] /\ wf_shape v = true /\ (bool_ok a = true -> bool_ok b = true -> bool_ok v = true).
Proof.
  intros S Wa Wb E.
  pose proof (wf_shape_len a Wa) as La. pose proof (wf_shape_len b Wb) as Lb.
  destruct a as [sa da|sa da|sa da|sa da|sa da], b as [sb db|sb db|sb db|sb db|sb db];
    simpl in *; try discriminate; subst sb; inversion E; subst; clear E.
  all: cbn [vrows wf_shape bool_ok data_len shape_of].
  all: rewrite (chunk2' (shape_prod sa)) by assumption; (split; [reflexivity|]).
  all: assert (X : Nat.eqb (length (da ++ db)) (shape_prod (2%nat :: sa)) = true)
    by (apply Nat.eqb_eq; rewrite app_length, La, Lb; simpl; lia); rewrite X; simpl; split; auto.
  - intros A B. rewrite forallb_app, A, B. reflexivity.
  - apply andb_prop in Wa as [_ Wa], Wb as [_ Wb]. rewrite forallb_app, Wa, Wb. reflexivity.
Qed.

Lemma couple_wf a b r : wf a -> wf b -> p_couple_same a b = Ok r -> wf r.
Proof.
  unfold wf, wfb, p_couple_same. destruct a as [va fa], b as [vb fb]; simpl.
  intros Wa Wb. apply andb_prop in Wa as [Wa1 Wa2], Wb as [Wb1 Wb2].
  destruct (shape_eq (shape_of va) (shape_of vb)) eqn:SE; simpl; try discriminate.
  apply lex_cmp_eq' in SE.
  destruct (vappend _ va vb) as [v|] eqn:V; try discriminate.
  destruct (vappend_rows va vb v SE Wa1 Wb1 V) as (R & W & B).
  intros E; inversion E; subst; clear E. simpl. rewrite W. simpl.
  apply flags_okb_iff in Wa2, Wb2. destruct Wa2 as (Ba & _ & _), Wb2 as (Bb & _ & _).
  apply flags_okb_iff. simpl. repeat split; intros H.
  - apply andb_prop in H as [H1 H2]. auto.
  - unfold up_ok. rewrite R. simpl. unfold le_b. rewrite andb_true_r. destruct (value_cmp true va vb); auto; discriminate.
  - unfold down_ok. rewrite R. simpl. unfold ge_b. rewrite andb_true_r. destruct (value_cmp true va vb); auto; discriminate.
Qed.

(* ------------------------------------------------------------------ range *)

Lemma chunk1 {A} n (l : list A) : length l = n -> chunk 1 n l = map (fun x => [x]) l.
Proof.
  revert l; induction n; intros [|x l] H; simpl in *; try discriminate; auto.
  f_equal. apply IHn. lia.
Qed.

Lemma byte_scalar_le a b : a < 256 -> b < 256 -> (a <=? b) = true -> le_b (VByte [] [a]) (VByte [] [b]) = true.
Proof.
  intros Ha Hb H. apply N.leb_le in H.
  assert (F : forallb (fun a => forallb (fun b => negb (a <=? b) || le_b (VByte [] [a]) (VByte [] [b])) bytes256) bytes256 = true)
    by (vm_compute; reflexivity).
  rewrite forallb_forall in F. specialize (F a (in_bytes256 a Ha)).
  rewrite forallb_forall in F. specialize (F b (in_bytes256 b Hb)).
  apply orb_prop in F as [F|F]; auto. apply negb_true_iff, N.leb_gt in F. lia.
Qed.

Lemma range_bytes_wf n : (n <= 256)%nat -> wf (p_range_nat n).
Proof.
  intros H. unfold wf, wfb, p_range_nat. destruct (Nat.leb_spec n 256); [|lia]. simpl.
  rewrite map_length, seq_length, Nat.mul_1_r, Nat.eqb_refl. simpl.
  apply flags_okb_iff. simpl. repeat split; try discriminate.
  - intros _. unfold up_ok. simpl. rewrite chunk1 by (rewrite map_length, seq_length; reflexivity).
    rewrite map_map, chain_map.
    assert (G : forall k m, (k + m <= 256)%nat ->
              chain (fun a b : N => le_b (VByte [] [a]) (VByte [] [b])) (map N.of_nat (seq k m)) = true).
    { intros k m; revert k; induction m as [|m IHm]; intros k Hk; auto.
      destruct m as [|m]; auto.
      change (seq k (S (S m))) with (k :: seq (S k) (S m)).
      change (map N.of_nat (k :: seq (S k) (S m))) with (N.of_nat k :: map N.of_nat (seq (S k) (S m))).
      specialize (IHm (S k)).
      change (seq (S k) (S m)) with (S k :: seq (S (S k)) m) in *.
      change (map N.of_nat (S k :: seq (S (S k)) m)) with (N.of_nat (S k) :: map N.of_nat (seq (S (S k)) m)) in *.
      rewrite chain_cons, IHm by lia. rewrite andb_true_r.
      apply byte_scalar_le; try lia. apply N.leb_le; lia. }
    apply (G 0%nat n). lia.
  - intros E. apply Nat.eqb_eq in E. subst. reflexivity.
Qed.

(* ------------------------------------------------------------------ take / drop (one amount) *)

Lemma chain_firstn {A} (r : A -> A -> bool) k l : chain r l = true -> chain r (firstn k l) = true.
Proof.
  revert k; induction l as [|a l IH]; intros k C; destruct k; auto.
  destruct l as [|b l]; [destruct k; auto|].
  rewrite chain_cons in C. apply andb_prop in C as [C1 C2].
  destruct k; auto. specialize (IH (S k) C2).
  change (firstn (S (S k)) (a :: b :: l)) with (a :: b :: firstn k l).
  change (firstn (S k) (b :: l)) with (b :: firstn k l) in IH.
  rewrite chain_cons, C1. exact IH.
Qed.
Lemma chain_skipn {A} (r : A -> A -> bool) k l : chain r l = true -> chain r (skipn k l) = true.
Proof.
  revert l; induction k; intros l C; auto. destruct l; auto. simpl. apply IHk. eapply chain_tail; eauto.
Qed.
Lemma chunk_firstn {A} m n k (d : list A) : (k <= n)%nat ->
  chunk m k (firstn (k * m) d) = firstn k (chunk m n d).
Proof.
  revert n d; induction k; intros n d H; auto.
  destruct n; [lia|].
  replace (S k * m)%nat with (m + k * m)%nat by (simpl; lia).
  cbn [chunk]. cbn [firstn]. rewrite firstn_firstn, Nat.min_l by lia.
  rewrite <- firstn_skipn_comm. f_equal. apply IHk. lia.
Qed.
Lemma skipn_plus {A} x y (l : list A) : skipn x (skipn y l) = skipn (y + x) l.
Proof. revert l; induction y; intros l; simpl; auto. destruct l; auto. destruct x; reflexivity. Qed.
Lemma chunk_skipn {A} m n k (d : list A) : (k <= n)%nat ->
  chunk m (n - k) (skipn (k * m) d) = skipn k (chunk m n d).
Proof.
  revert n d; induction k; intros n d H.
  - rewrite Nat.sub_0_r. reflexivity.
  - destruct n; [lia|].
    replace (S n - S k)%nat with (n - k)%nat by lia.
    replace (S k * m)%nat with (m + k * m)%nat by (simpl; lia).
    cbn [chunk]. cbn [skipn]. rewrite <- skipn_plus. apply IHk. lia.
Qed.

Lemma vrows_prefix v n s j : shape_of v = n :: s -> (j <= n)%nat ->
  vrows (vdata_map (fun A d => firstn (j * shape_prod s) d) (j :: s) v) = firstn j (vrows v).
Proof.
  intros S H. destruct v; simpl in *; subst; rewrite (chunk_firstn _ n) by exact H;
    rewrite firstn_map; reflexivity.
Qed.
Lemma vrows_suffix v n s j : shape_of v = n :: s -> (j <= n)%nat ->
  vrows (vdata_map (fun A d => skipn ((n - j) * shape_prod s) d) (j :: s) v) = skipn (n - j) (vrows v).
Proof.
  intros S H.
  assert (X : forall A (d : list A), chunk (shape_prod s) j (skipn ((n - j) * shape_prod s) d)
                                     = skipn (n - j) (chunk (shape_prod s) n d)).
  { intros A d. pose proof (chunk_skipn (shape_prod s) n (n - j) d) as Y.
    replace (n - (n - j))%nat with j in Y by lia. apply Y. lia. }
  destruct v; simpl in *; subst; rewrite X, skipn_map; reflexivity.
Qed.

Lemma prefix_wf m n s j : wf m -> shape_of (mv_v m) = n :: s -> (j <= n)%nat -> wf (p_prefix j m).
Proof.
  unfold wf, wfb, p_prefix. destruct m as [v f]; simpl. intros W S H. rewrite S. simpl.
  apply andb_prop in W as [W1 W2]. apply andb_true_intro; split.
  - apply vdata_map_wf; auto.
    + rewrite S. intros A d L. rewrite firstn_length. simpl in *.
      assert (j * shape_prod s <= n * shape_prod s)%nat by (apply Nat.mul_le_mono_r; exact H). lia.
    + intros A p d X. apply forallb_firstn, X.
  - apply flags_okb_iff in W2. destruct W2 as (B & U & D). apply flags_okb_iff. repeat split; intros X.
    + apply vdata_map_bool; auto. intros A p d Y. apply forallb_firstn, Y.
    + unfold up_ok. rewrite (vrows_prefix v n s j S H). apply chain_firstn. apply U, X.
    + unfold down_ok. rewrite (vrows_prefix v n s j S H). apply chain_firstn. apply D, X.
Qed.
Lemma suffix_wf m n s j : wf m -> shape_of (mv_v m) = n :: s -> (j <= n)%nat -> wf (p_suffix j m).
Proof.
  unfold wf, wfb, p_suffix. destruct m as [v f]; simpl. intros W S H. rewrite S. simpl.
  apply andb_prop in W as [W1 W2]. apply andb_true_intro; split.
  - apply vdata_map_wf; auto.
    + rewrite S. intros A d L. rewrite skipn_length. simpl in *. rewrite L.
      rewrite <- Nat.mul_sub_distr_r. replace (n - (n - j))%nat with j by lia. reflexivity.
    + intros A p d X. apply forallb_skipn, X.
  - apply flags_okb_iff in W2. destruct W2 as (B & U & D). apply flags_okb_iff. repeat split; intros X.
    + apply vdata_map_bool; auto. intros A p d Y. apply forallb_skipn, Y.
    + unfold up_ok. rewrite (vrows_suffix v n s j S H). apply chain_skipn. apply U, X.
    + unfold down_ok. rewrite (vrows_suffix v n s j S H). apply chain_skipn. apply D, X.
Qed.

Lemma take1_wf z m r : wf m -> p_take1 z m = Ok r -> wf r.
Proof.
  unfold p_take1. intros W. destruct (shape_of (mv_v m)) as [|n s] eqn:S; try discriminate.
  destruct (Nat.ltb_spec n (Z.to_nat (Z.abs z))); try discriminate.
  intros E; inversion E; subst; clear E.
  destruct (0 <=? z)%Z; [eapply prefix_wf | eapply suffix_wf]; eauto.
Qed.
Lemma drop1_wf z m r : wf m -> p_drop1 z m = Ok r -> wf r.
Proof.
  unfold p_drop1. intros W. destruct (shape_of (mv_v m)) as [|n s] eqn:S; try discriminate.
  intros E; inversion E; subst; clear E.
  destruct (0 <=? z)%Z; [eapply suffix_wf | eapply prefix_wf]; eauto; lia.
Qed.

(* ------------------------------------------------------------------ wf_preserved *)

(** the primitives under the theorem *)
Definition proved (p : cprim) : bool :=
  match p with CNeg | CRange => false | _ => true end.

Theorem wf_preserved p args outs :
  proved p = true -> Forall wf args -> prim_c p args = Ok outs -> Forall wf outs.
Proof.
  intros P F E. destruct p; try discriminate P; simpl in E.
  - destruct args as [|a [|? ?]]; try discriminate. inversion F; subst. inversion E; subst.
    constructor; auto. apply reverse_wf; auto.
  - destruct args as [|a [|? ?]]; try discriminate. inversion F; subst.
    destruct (p_first a) eqn:X; inversion E; subst. constructor; auto. eapply first_wf; eauto.
  - destruct args as [|a [|? ?]]; try discriminate. inversion F; subst.
    destruct (p_last a) eqn:X; inversion E; subst. constructor; auto. eapply last_wf; eauto.
  - destruct args as [|a [|? ?]]; try discriminate. inversion F; subst. inversion E; subst.
    constructor; auto. apply fix_wf; auto.
  - destruct args as [|a [|? ?]]; try discriminate. inversion F; subst. inversion E; subst.
    constructor; auto. apply deshape_wf; auto.
  - destruct args as [|a [|? ?]]; try discriminate. inversion F; subst. inversion E; subst.
    constructor; auto. apply sort_wf; auto.
  - destruct args as [|a [|? ?]]; try discriminate. inversion F; subst. inversion E; subst.
    constructor; auto. apply sort_down_wf; auto.
  - destruct args as [|a [|b [|? ?]]]; try discriminate. inversion F as [|? ? Wa F']; subst.
    inversion F' as [|? ? Wb _]; subst.
    destruct (p_couple_same a b) eqn:X; inversion E; subst. constructor; auto. exact (couple_wf a b _ Wa Wb X).
  - destruct args as [|a [|? ?]]; try discriminate. inversion F; subst.
    destruct (p_take1 z a) eqn:X; inversion E; subst. constructor; auto. eapply take1_wf; eauto.
  - destruct args as [|a [|? ?]]; try discriminate. inversion F; subst.
    destruct (p_drop1 z a) eqn:X; inversion E; subst. constructor; auto. eapply drop1_wf; eauto.
Qed.

(** the flag algebra, collected *)
Theorem flag_algebra_sound :
  (forall v f, flags_okb v f = true -> flags_okb v (clear_sorted f) = true /\ flags_okb v (sorted_part f) = true) /\
  (forall v f, flags_okb v f = true -> flags_okb v (clear_value f) = true) /\
  (forall v f g, flags_okb v f = true -> flags_okb v (sorted_part g) = true -> flags_okb v (or_sorted f g) = true) /\
  (forall v f b, flags_okb v f = true -> (b = true -> up_ok v = true) -> flags_okb v (mark_up f b) = true) /\
  (forall v f b, flags_okb v f = true -> (b = true -> down_ok v = true) -> flags_okb v (mark_down f b) = true) /\
  (forall v self other, flags_okb v self = true -> flags_okb v (combine self other) = true) /\
  (forall v v' f, vrows v' = rev (vrows v) -> (bool_ok v = true -> bool_ok v' = true) ->
                  flags_okb v f = true -> flags_okb v' (reverse_sorted f) = true) /\
  (forall v f, (f_bool f = true -> bool_ok v = true) -> flags_okb v (derive_sortedness v f) = true) /\
  (forall v v' f, monotone_rows v v' -> flags_okb v (sorted_part f) = true -> flags_okb v' (sorted_part f) = true) /\
  (forall v v' f, antitone_rows v v' -> flags_okb v (sorted_part f) = true ->
                  flags_okb v' (sorted_part (reverse_sorted f)) = true) /\
  (forall v v' cur taken, flags_okb v' cur = true -> flags_okb v (sorted_part taken) = true ->
                  (match v' with VBox _ _ | VChar _ _ => True | _ => antitone_rows v v' end) ->
                  flags_okb v' (or_sorted_rev cur_ver v' cur taken) = true).
Proof.
  repeat split.
  - apply take_sorted_sound; auto. - apply take_sorted_sound; auto.
  - apply take_value_sound. - apply or_sorted_sound. - apply mark_up_sound. - apply mark_down_sound.
  - apply combine_sound. - apply reverse_sorted_sound. - apply derive_sortedness_sound.
  - apply monotone_sound. - apply antitone_sound. - intros v v' cur taken. apply or_sorted_rev_sound. unfold cur_ver; lia.
Qed.

(* ------------------------------------------------------------------ round-2 repairs *)

(** Before f306b49 floor/ceil/round kept the marks of box and complex arrays, although rounding
    is not monotone for the lexicographic order of their elements (`⌊⍆[ℂ5 1.2 ℂ0 1.7]`). *)
Lemma floor_rule_refuted_pre :
  exists a out f, wf a /\ rule_flags false RFloor [a] out = Some f /\ wf_shape out = true /\ flags_okb out f = false.
Proof.
  (* a = sorted [1.2+5i, 1.7+0i] (as (re, im) bit patterns), out = [1+5i, 1+0i] *)
  exists (MV (VCplx [2%nat] [(4608083138725491507, 4617315517961601024); (4610560118520545280, 0)]%N) (FL false true false)).
  exists (VCplx [2%nat] [(4607182418800017408, 4617315517961601024); (4607182418800017408, 0)]%N).
  eexists. repeat split; vm_compute; reflexivity.
Qed.

Definition is_round (p : rprim) : bool := match p with RFloor | RCeil | RRound => true | _ => false end.

(** the repaired rule gives sortedness marks to arrays of real numbers only ... *)
Lemma round_rule_fixed_nonreal p a out f : is_round p = true -> is_num_ty out = false ->
  rule_flags true p [a] out = Some f -> f_up f = false /\ f_down f = false.
Proof.
  intros P N E. destruct p; try discriminate P; simpl in E; rewrite N, andb_false_r in E;
    inversion E; subst; simpl; auto.
Qed.
(** ... and is truthful whenever rounding maps the rows of the argument monotonically (which it
    does for lists of real numbers: the side condition of the rule) *)
Lemma round_rule_fixed p a out f : is_round p = true ->
  flags_okb (mv_v a) (mv_f a) = true -> rule_flags true p [a] out = Some f ->
  (f_bool (mv_f a) = true -> bool_ok out = true) ->
  (is_num_ty out = true -> monotone_rows (mv_v a) out) -> flags_okb out f = true.
Proof.
  intros P W E B M.
  assert (C : flags_okb out (clear_sorted (mv_f a)) = true).
  { apply flags_okb_iff. simpl. repeat split; auto; discriminate. }
  assert (G : forall c, Some (if c && (negb true || is_num_ty out)
                then or_sorted (clear_sorted (mv_f a)) (sorted_part (mv_f a)) else clear_sorted (mv_f a)) = Some f ->
              flags_okb out f = true).
  { intros c X. inversion X; subst; clear X. simpl negb. simpl orb.
    destruct c; simpl; auto. destruct (is_num_ty out) eqn:N; auto.
    apply or_sorted_sound; auto. apply (monotone_sound (mv_v a)); auto.
    apply take_sorted_sound. apply take_sorted_sound. exact W. }
  destruct p; try discriminate P; simpl in E; eapply G; exact E.
Qed.

(** The dyadic rules before the repairs, refuted on the witnesses the monitor found:
    `+ ⍆[¯∞ 1] ⍆[∞ ∞]` = [NaN ∞] marked ascending (eea1d01);
    `÷ ¯0 ⇌⍆[0.5 149 ¯∞]` = [¯∞ ¯∞ ∞] marked descending (60de79d);
    `÷ ⍆[¯1 1] 1` = [¯1 1] marked descending (9703aa4). *)
Definition w_add_a := MV (VNum [2%nat] [18442240474082181120; 4607182418800017408]%N) (FL false true false).
Definition w_add_b := MV (VNum [2%nat] [9218868437227405312; 9218868437227405312]%N) (FL false true false).
Definition w_add_out := VNum [2%nat] [9221120237041090560; 9218868437227405312]%N.
Definition w_div0_a := MV (VNum []%nat [9223372036854775808]%N) fl_none.
Definition w_div0_b := MV (VNum [3%nat] [4639446488005476352; 4602678819172646912; 18442240474082181120]%N) (FL false false true).
Definition w_div0_out := VNum [3%nat] [18442240474082181120; 18442240474082181120; 9218868437227405312]%N.
Definition w_dvd_a := MV (VNum [2%nat] [13830554455654793216; 4607182418800017408]%N) (FL false true false).
Definition w_dvd_b := MV (VByte []%nat [1]%N) fl_none.
Definition w_dvd_out := VNum [2%nat] [13830554455654793216; 4607182418800017408]%N.
Definition rule_truthful (fixed : bool) (p : rprim) (args : list mvalue) (out : value) : bool :=
  forallb wfb args && wf_shape out &&
  match rule_flags fixed p args out with Some f => flags_okb out f | None => false end.
Lemma dyadic_rules_refuted_pre :
  rule_truthful false RAdd [w_add_a; w_add_b] w_add_out = false /\
  rule_truthful false RDiv [w_div0_a; w_div0_b] w_div0_out = false /\
  rule_truthful false RDiv [w_dvd_a; w_dvd_b] w_dvd_out = false.
Proof. repeat split; vm_compute; reflexivity. Qed.
Lemma dyadic_rules_fixed_witnesses :
  rule_truthful true RAdd [w_add_a; w_add_b] w_add_out = true /\
  rule_truthful true RDiv [w_div0_a; w_div0_b] w_div0_out = true /\
  rule_truthful true RDiv [w_dvd_a; w_dvd_b] w_dvd_out = true.
Proof. repeat split; vm_compute; reflexivity. Qed.

(** the repaired `pre` rules take marks from lists of real numbers (or characters, for
    subtract) only, never from the dividend side, and count ¯0 as negative *)
Lemma pre_signed_fixed_guard left a b l f : pre_signed true left a b l = Some f ->
  rank_le1 (mv_v a) = true /\ is_num_ty (mv_v a) = true /\
  (forall s, left = Some s -> l = s).
Proof.
  unfold pre_signed. destruct (scalar_sign true (mv_v b)); try discriminate.
  destruct (rank_le1 (mv_v a)), (is_num_ty (mv_v a)); simpl; try discriminate.
  intros H. repeat split. intros s ->. destruct l, s; simpl in H; auto; discriminate.
Qed.
Lemma pre_scalar_fixed_guard left a b l f : pre_scalar true left a b l = Some f ->
  rank_le1 (mv_v a) = true /\ (is_num_ty (mv_v a) || is_char_ty (mv_v a)) = true.
Proof.
  unfold pre_scalar. destruct (negb _); try discriminate.
  destruct (rank_le1 (mv_v a)), (is_num_ty (mv_v a) || is_char_ty (mv_v a)); simpl; try discriminate; auto.
Qed.
Lemma pre_both_fixed_guard a b f : pre_both true a b = Some f ->
  rank_le1 (mv_v a) = true /\ rank_le1 (mv_v b) = true /\ nan_at_end (mv_v a) = false /\ nan_at_end (mv_v b) = false.
Proof.
  unfold pre_both. destruct (negb _); try discriminate.
  destruct (rank_le1 (mv_v a)), (rank_le1 (mv_v b)), (nan_at_end (mv_v a)), (nan_at_end (mv_v b));
    simpl; try discriminate; auto.
Qed.
Lemma scalar_sign_neg_zero : scalar_sign true (VNum [] [F_NEG_ZERO]) = Some true /\
                             scalar_sign false (VNum [] [F_NEG_ZERO]) = Some false.
Proof. split; vm_compute; reflexivity. Qed.
(** handle_pre is truthful when the marks it or-s in are truthful about the result: the
    obligation each dyadic function owes for lists of real numbers (x+c, c-x, x*c, x/c monotone
    or antitone), NaN results excepted by the guard *)
Lemma handle_pre_sound ng res resf pa pb :
  flags_okb res resf = true ->
  (forall g, or_else pa pb = Some g -> ng && has_nan res = false -> flags_okb res (sorted_part g) = true) ->
  flags_okb res (handle_pre ng res resf pa pb) = true.
Proof.
  intros R G. unfold handle_pre.
  destruct (or_else pa pb) as [g|] eqn:E.
  - destruct (ng && has_nan res) eqn:N.
    + destruct ng; try discriminate. simpl in N. rewrite N.
      destruct (f_up (or_sorted resf g) || f_down (or_sorted resf g)) eqn:Q; simpl.
      * eapply flags_weaken; [|exact R]. unfold fle; simpl; intuition discriminate.
      * apply orb_false_elim in Q as [Q1 Q2].
        eapply flags_weaken; [|exact R]. unfold fle. rewrite Q1, Q2. simpl. intuition discriminate.
    + assert (O : flags_okb res (or_sorted resf g) = true) by (apply or_sorted_sound; auto).
      replace (ng && (f_up (or_sorted resf g) || f_down (or_sorted resf g)) && has_nan res) with false; auto.
      destruct ng; auto. simpl in *. rewrite N, andb_false_r. reflexivity.
  - destruct (ng && (f_up resf || f_down resf) && has_nan res); auto.
    eapply flags_weaken; [|exact R]. unfold fle; simpl; intuition discriminate.
Qed.

(* ------------------------------------------------------------------ select *)

Lemma ge_refl a : ge_b a a = true. Proof. rewrite ge_le. apply le_refl. Qed.
Lemma ge_trans a b c : ge_b a b = true -> ge_b b c = true -> ge_b a c = true.
Proof. rewrite !ge_le. intros H1 H2. eapply le_trans; eauto. Qed.

Section SelectChain.
  Context {A : Type} (R : A -> A -> bool) (d : A).
  Hypothesis Rrefl : forall a, R a a = true.
  Hypothesis Rtrans : forall a b c, R a b = true -> R b c = true -> R a c = true.
  (** in a chain of a reflexive transitive relation every earlier element is related to every later one *)
  Lemma chain_nth_le l : chain R l = true ->
    forall i j, (i <= j)%nat -> (j < length l)%nat -> R (nth i l d) (nth j l d) = true.
  Proof.
    induction l as [|a l IH]; intros C i j Hij Hj; simpl in Hj; [lia|].
    pose proof (chain_tail _ _ _ C) as Ct.
    destruct i, j; simpl; auto; try lia.
    - destruct l as [|b l]; [simpl in Hj; lia|].
      rewrite chain_cons in C. apply andb_prop in C as [C1 _].
      eapply Rtrans; [exact C1|]. apply (IH Ct 0%nat j); lia.
    - apply IH; auto; lia.
  Qed.
  (** selecting with non-decreasing in-bounds indices keeps the chain ... *)
  Lemma select_chain_asc l is : chain R l = true -> chain Nat.leb is = true ->
    Forall (fun i => (i < length l)%nat) is -> chain R (map (fun i => nth i l d) is) = true.
  Proof.
    intros C. induction is as [|i is IH]; intros S F; auto.
    destruct is as [|j is]; auto. inversion F as [|? ? Fi F']; subst. inversion F' as [|? ? Fj _]; subst.
    rewrite chain_cons in S. apply andb_prop in S as [S1 S2]. apply Nat.leb_le in S1.
    change (map (fun i => nth i l d) (i :: j :: is)) with (nth i l d :: map (fun i => nth i l d) (j :: is)).
    change (map (fun i => nth i l d) (j :: is)) with (nth j l d :: map (fun i => nth i l d) is) at 1.
    rewrite chain_cons. rewrite (chain_nth_le l C i j S1 Fj). simpl.
    apply IH; auto.
  Qed.
  (** ... and with non-increasing indices reverses it *)
  Lemma select_chain_desc l is : chain R l = true -> chain (fun a b => Nat.leb b a) is = true ->
    Forall (fun i => (i < length l)%nat) is -> chain (fun x y => R y x) (map (fun i => nth i l d) is) = true.
  Proof.
    intros C. induction is as [|i is IH]; intros S F; auto.
    destruct is as [|j is]; auto. inversion F as [|? ? Fi F']; subst. inversion F' as [|? ? Fj _]; subst.
    rewrite chain_cons in S. apply andb_prop in S as [S1 S2]. apply Nat.leb_le in S1.
    change (map (fun i => nth i l d) (i :: j :: is)) with (nth i l d :: map (fun i => nth i l d) (j :: is)).
    change (map (fun i => nth i l d) (j :: is)) with (nth j l d :: map (fun i => nth i l d) is) at 1.
    rewrite chain_cons. rewrite (chain_nth_le l C j i S1 Fi). simpl.
    apply IH; auto.
  Qed.
End SelectChain.

(** select's mark rule is truthful: if the result's rows are the rows of [b] at the (in-bounds,
    hence non-negative: nothing wraps) positions [is], the marks
    (asc && up || desc && down, asc && down || desc && up) hold of the result.  The hypothesis
    that the positions ARE the indices is exactly what "all indices non-negative" buys: a
    negative index is the position row_count + i, which breaks monotonicity. *)
Theorem select_marks_sound b out fb (is : list nat) d :
  flags_okb b fb = true ->
  vrows out = map (fun i => nth i (vrows b) d) is ->
  Forall (fun i => (i < length (vrows b))%nat) is ->
  let iu := chain Nat.leb is in
  let id := chain (fun x y => Nat.leb y x) is in
  flags_okb out (FL false (iu && f_up fb || id && f_down fb) (iu && f_down fb || id && f_up fb)) = true.
Proof.
  intros W R F iu id. apply flags_okb_iff in W. destruct W as (_ & U & D).
  apply flags_okb_iff. simpl. repeat split; try discriminate; intros H; unfold up_ok, down_ok in *; rewrite R.
  - apply orb_prop in H as [H|H]; apply andb_prop in H as [H1 H2].
    + apply (select_chain_asc le_b d le_refl le_trans); auto.
    + rewrite (chain_ext _ (fun x y => ge_b y x)) by (intros; rewrite ge_le; reflexivity).
      apply (select_chain_desc ge_b d ge_refl ge_trans); auto.
  - apply orb_prop in H as [H|H]; apply andb_prop in H as [H1 H2].
    + apply (select_chain_asc ge_b d ge_refl ge_trans); auto.
    + rewrite (chain_ext _ (fun x y => le_b y x)) by (intros; apply ge_le).
      apply (select_chain_desc le_b d le_refl le_trans); auto.
Qed.

(** the seeded weakening "only the first index is checked for negativity" is refuted in the model:
    `⊏ [1 0 ¯1] ⍆[30 10 20]` = [20 10 30] would be marked descending *)
Lemma select_first_index_rule_refuted :
  let out := VByte [3%nat] [20; 10; 30]%N in
  wf_shape out = true /\ flags_okb out (FL false false true) = false /\
  rule_flags true RSelect [MV (VNum [3%nat] [4607182418800017408; 0; 13830554455654793216]%N) fl_none;
                           MV (VByte [3%nat] [10; 20; 30]%N) (FL false true false)] out = Some fl_none.
Proof. repeat split; vm_compute; reflexivity. Qed.

(* ------------------------------------------------------------------ keep / rotate *)

(** Any result whose rows are the rows of [b] at non-decreasing in-bounds positions (a
    subsequence with repetitions: take, drop, keep, select with ascending non-negative indices)
    may keep both sortedness marks of [b]; the boolean mark may stay when it holds of the result. *)
Theorem monotone_selection_keeps_marks b out fb bo (is : list nat) d :
  flags_okb b fb = true ->
  vrows out = map (fun i => nth i (vrows b) d) is ->
  Forall (fun i => (i < length (vrows b))%nat) is ->
  chain Nat.leb is = true ->
  (bo = true -> bool_ok out = true) ->
  flags_okb out (FL bo (f_up fb) (f_down fb)) = true.
Proof.
  intros W R F C B. apply flags_okb_iff in W. destruct W as (_ & U & D).
  apply flags_okb_iff. simpl. repeat split; auto; intros H; unfold up_ok, down_ok in *; rewrite R.
  - apply (select_chain_asc le_b d le_refl le_trans); auto.
  - apply (select_chain_asc ge_b d ge_refl ge_trans); auto.
Qed.

(** the row positions keep selects: position [i] repeated [c_i] times, in order
    (keep_list, dyadic/mod.rs:781-850; a scalar count is the list of equal counts) *)
Fixpoint kidx (i : nat) (cs : list nat) : list nat :=
  match cs with [] => [] | c :: t => repeat i c ++ kidx (S i) t end.

Lemma chain_app_le l1 l2 : chain Nat.leb l1 = true -> chain Nat.leb l2 = true ->
  (forall x y, In x l1 -> In y l2 -> (x <= y)%nat) -> chain Nat.leb (l1 ++ l2) = true.
Proof.
  induction l1 as [|a l1 IH]; intros C1 C2 H; auto.
  destruct l1 as [|b l1].
  - change ([a] ++ l2) with (a :: l2). destruct l2 as [|y l2]; auto.
    rewrite chain_cons, C2, andb_true_r. apply Nat.leb_le, H; simpl; auto.
  - change ((a :: b :: l1) ++ l2) with (a :: (b :: l1) ++ l2). simpl app.
    rewrite chain_cons in *. apply andb_prop in C1 as [X Y]. rewrite X. simpl.
    apply IH; auto. intros x y Ix Iy. apply H; simpl in *; auto.
Qed.
Lemma repeat_chain i c : chain Nat.leb (repeat i c) = true.
Proof.
  induction c; auto. destruct c; auto. simpl repeat in *. rewrite chain_cons, IHc, Nat.leb_refl. reflexivity.
Qed.
Lemma kidx_bounds cs : forall i x, In x (kidx i cs) -> (i <= x < i + length cs)%nat.
Proof.
  induction cs as [|c cs IH]; intros i x H; simpl in H; [tauto|].
  apply in_app_or in H as [H|H].
  - apply repeat_spec in H. subst. simpl. lia.
  - apply IH in H. simpl. lia.
Qed.
Lemma kidx_chain cs : forall i, chain Nat.leb (kidx i cs) = true.
Proof.
  induction cs as [|c cs IH]; intros i; auto. simpl. apply chain_app_le; auto.
  - apply repeat_chain.
  - intros x y Ix Iy. apply repeat_spec in Ix. subst. apply kidx_bounds in Iy. lia.
Qed.

(** keep with natural counts keeps the sortedness marks (the side condition of keep_list's
    take-and-or-back and of keep_scalar_integer leaving the metadata alone) *)
Theorem keep_marks_sound b out fb bo (cs : list nat) d :
  flags_okb b fb = true -> length cs = length (vrows b) ->
  vrows out = map (fun i => nth i (vrows b) d) (kidx 0 cs) ->
  (bo = true -> bool_ok out = true) ->
  flags_okb out (FL bo (f_up fb) (f_down fb)) = true.
Proof.
  intros W L R B. apply (monotone_selection_keeps_marks b out fb bo (kidx 0 cs) d); auto.
  - apply Forall_forall. intros x I. apply kidx_bounds in I. lia.
  - apply kidx_chain.
Qed.

(** a primitive that clears the sortedness marks and moves elements around (rotate, first, last,
    deshape, transpose of rank >= 2) owes only the boolean mark *)
Theorem cleared_marks_sound v v' f : (bool_ok v = true -> bool_ok v' = true) ->
  flags_okb v f = true -> flags_okb v' (clear_sorted f) = true.
Proof. exact (flags_cleared_ok v v' f). Qed.
