(** C01 — soundness of rewrite rules of the optimiser model (Model/Opt.v) with respect to the
    reference semantics of array primitives (Model/Prims.v), and soundness of the fix-point
    driver of a run given the soundness of the rules it applies.

    Direction: only "the original succeeds => the rewritten one succeeds with the same stack". *)
From Coq Require Import List ZArith NArith Bool Arith Lia.
From UV Require Import Model.Node Model.Sig Model.Opt Model.Prims Proofs.Prims.
Import ListNotations.

(* ------------------------------------------------------------------ evaluator of straight-line runs *)

(** the leftmost minimum of a list w.r.t. a total preorder given as [le] *)
Fixpoint min_r {A} (le : A -> A -> bool) (l : list A) : option A :=
  match l with
  | [] => None
  | x :: t => match min_r le t with None => Some x | Some m => Some (if le x m then x else m) end
  end.

(** the rightmost maximum of a list w.r.t. a total preorder given as [le] *)
Fixpoint max_r {A} (le : A -> A -> bool) (l : list A) : option A :=
  match l with
  | [] => None
  | x :: t => match max_r le t with None => Some x | Some m => Some (if le x m then m else x) end
  end.

(** semantics given to the fused implementation primitives.  They have no documentation; the
    definitions state what the names say.  [fixed = false] is the code before fix commit 2d75a21,
    where FirstMinIndex / FirstMaxIndex (and the Last ones) gave 0 on an empty array, where
    `first rise` fails; [fixed = true] is the current code: "Cannot get min index of an empty array". *)
Definition p_first_index (fixed : bool) (le : list elem -> list elem -> bool) (a : arr) : res arr :=
  if negb (sortable a) then Unspec else
  match ash a with
  | [] => Unspec
  | n :: s =>
      let rs := chunk (prodn s) n (adata a) in
      match min_r (fun x y => le (snd x) (snd y)) (combine (seq 0 (length rs)) rs) with
      | None => if fixed then Err else Ok (num 0)
      | Some p => Ok (num (Z.of_nat (fst p))) end
  end.
(** LastMaxIndex (le = row_le) / LastMinIndex (le = row_ge): index of the rightmost extremal row *)
Definition p_last_index (le : list elem -> list elem -> bool) (a : arr) : res arr :=
  if negb (sortable a) then Unspec else
  match ash a with
  | [] => Unspec
  | n :: s =>
      let rs := chunk (prodn s) n (adata a) in
      match max_r (fun x y => le (snd x) (snd y)) (combine (seq 0 (length rs)) rs) with
      | None => Err
      | Some p => Ok (num (Z.of_nat (fst p))) end
  end.
(** the code before fix commit 1f3e8d8 (algorithm/monadic/mod.rs, last_max_index): an array
    marked as sorted ascending gave 0; before 2d75a21 an empty array gave 0 as well *)
Definition p_last_max_index_pre (marked_up : bool) (a : arr) : res arr :=
  match ash a with
  | O :: _ => Ok (num 0)
  | _ => if marked_up then Ok (num 0) else p_last_index row_le a end.
Definition p_count_unique (a : arr) : res arr :=
  match ash a with
  | [] => Unspec
  | n :: s => Ok (num (Z.of_nat (length (dedup row_eqb (chunk (prodn s) n (adata a)))))) end.

(** FirstSort / LastSort: the leftmost minimal / rightmost maximal row (a scalar is its own row) *)
Definition p_first_sort (a : arr) : res arr :=
  if negb (sortable a) then Unspec else
  match ash a with
  | [] => Ok a
  | n :: s => match min_r row_le (chunk (prodn s) n (adata a)) with
              | None => Err
              | Some r => Ok (Arr (aty a) s r) end
  end.
Definition p_last_sort (a : arr) : res arr :=
  if negb (sortable a) then Unspec else
  match ash a with
  | [] => Ok a
  | n :: s => match max_r row_le (chunk (prodn s) n (adata a)) with
              | None => Err
              | Some r => Ok (Arr (aty a) s r) end
  end.
(** SortDown: the rows in descending order (rows that compare equal are identical for numbers and
    characters, so any descending sort gives this array; [row_gt] makes it the exact reverse of
    the stable ascending sort for every input of the model) *)
Definition row_gt (l l' : list elem) : bool := negb (row_le l l').
Definition p_sort_down (a : arr) : res arr :=
  if negb (sortable a) then Unspec else
  match ash a with
  | [] => Ok a
  | n :: s => Ok (of_drows (aty a) s (isort row_gt (chunk (prodn s) n (adata a)))) end.
(** NegAbs: the negated absolute value of every number *)
Definition p_neg_abs (a : arr) : res arr :=
  match aty a with
  | TNum =>
    d <- mapM (fun e => match e with ENum z => Ok (ENum (- Z.abs z)%Z) | _ => Unspec end) (adata a) ;;
    Ok (Arr TNum (ash a) d)
  | _ => Unspec end.

Definition on_top (f : arr -> res arr) (st : list arr) : res (list arr) :=
  match st with a :: r => v <- f a ;; Ok (v :: r) | [] => Err end.

(** a primitive by its id (ids of harness/src/bin/c01.rs); [Unspec] = not interpreted.
    No fill value is in scope. *)
Definition prim_sem (id : N) (st : list arr) : res (list arr) :=
  match transposeN_of id with
  | Some n =>
      if (0 <=? n)%Z then on_top (fun a => Ok (Nat.iter (Z.to_nat n) p_transpose a)) st else Unspec
  | None =>
      match id with
      | 2%N => step None ODup st
      | 3%N => step None OFlip st
      | 4%N => match st with _ :: r => Ok r | [] => Err end
      | 31%N => step None OFirst st
      | 32%N => step None OLast st
      | 33%N => step None OReverse st
      | 34%N => step None ORise st
      | 35%N => step None OFall st
      | 37%N => step None OLen st
      | 41%N => step None ODedup st
      | 43%N => step None OSort st
      | 47%N => step None OTranspose st
      | 102%N => on_top (p_first_index true row_le) st
      | 103%N => on_top (p_last_index row_ge) st
      | 104%N => on_top (p_first_index true row_ge) st
      | 105%N => on_top (p_last_index row_le) st
      | 8%N => step None (OP1 PNeg) st
      | 19%N => step None (OP1 PAbs) st
      | 112%N => on_top p_count_unique st
      | 113%N => on_top p_sort_down st
      | 114%N => on_top p_first_sort st
      | 115%N => on_top p_last_sort st
      | 120%N => on_top p_neg_abs st
      | _ => Unspec end
  end.

Definition sval_arr (v : sval) : res arr := match v with SInt z => Ok (num z) | SOpq _ => Unspec end.

(** one node on a stack of well-formed arrays (top first) *)
Definition node_step (n : node) (st : list arr) : res (list arr) :=
  if negb (forallb wfb st) then Unspec else
  match n with
  | Push v => a <- sval_arr v ;; Ok (a :: st)
  | Prim id _ _ => prim_sem id st
  | _ => Unspec end.
Fixpoint run (ns : list node) (st : list arr) : res (list arr) :=
  match ns with [] => Ok st | n :: t => st' <- node_step n st ;; run t st' end.

Definition prule_sound (f : prule) : Prop :=
  forall ns k new, f ns = Some (k, new) ->
  forall st out, run (firstn k ns) st = Ok out -> run new st = Ok out.
Definition lrule_sound (r : lrule) : Prop :=
  forall ns ns', r ns = Some ns' -> forall st out, run ns st = Ok out -> run ns' st = Ok out.

(* ------------------------------------------------------------------ congruence *)

Lemma run_app : forall a b st, run (a ++ b) st = (st' <- run a st ;; run b st').
Proof.
  induction a as [|x a IH]; intros; cbn; auto.
  destruct (node_step x st); cbn; auto.
Qed.

Lemma run_app_ok : forall a b st out, run (a ++ b) st = Ok out ->
  exists mid, run a st = Ok mid /\ run b mid = Ok out.
Proof.
  intros a b st out H. rewrite run_app in H. destruct (run a st) as [mid| |]; cbn in H; try discriminate.
  exists mid; auto.
Qed.

(** a sound positional rule is sound wherever [match_and_replace] applies it *)
Theorem mar_sound : forall f, prule_sound f -> lrule_sound (mar f).
Proof.
  intros f Hf ns. induction ns as [|x t IH]; intros ns' H st out R; cbn in H; try discriminate.
  destruct (f (x :: t)) as [[k new]|] eqn:E.
  - inversion H; subst ns'; clear H.
    rewrite <- (firstn_skipn k (x :: t)) in R.
    apply run_app_ok in R. destruct R as [mid [R1 R2]].
    rewrite run_app. rewrite (Hf _ _ _ E _ _ R1). cbn. exact R2.
  - destruct (mar f t) as [t'|] eqn:E'; cbn in H; try discriminate.
    inversion H; subst ns'; clear H.
    cbn in R |- *. destruct (node_step x st) as [st'| |]; cbn in *; try discriminate.
    eapply IH; eauto.
Qed.

(* ------------------------------------------------------------------ the driver of a run *)

Lemma apply_first_in : forall rules ns nm ns',
  apply_first rules ns = Some (nm, ns') ->
  exists o, In o rules /\ opt_name o = nm /\ snd o ns = Some ns'.
Proof.
  induction rules as [|r rs IH]; intros ns nm ns' H; cbn in H; try discriminate.
  destruct (snd r ns) as [x|] eqn:E.
  - inversion H; subst. exists r. cbn; auto.
  - destruct (IH _ _ _ H) as [o [Hi Ho]]. exists o; cbn; auto.
Qed.

(** the `while` loop of optimize_run: if every rule it applied is sound, the result refines the input *)
Theorem fix_rules_sound : forall fuel rules ns used ns',
  fix_rules fuel rules ns = Some (used, ns') ->
  (forall o, In o rules -> In (opt_name o) used -> lrule_sound (snd o)) ->
  forall st out, run ns st = Ok out -> run ns' st = Ok out.
Proof.
  induction fuel as [|fuel IH]; intros rules ns used ns' H S st out R; cbn in H; try discriminate.
  destruct (apply_first rules ns) as [[nm ns1]|] eqn:E.
  - destruct (fix_rules fuel rules ns1) as [[u r]|] eqn:E2; try discriminate.
    inversion H; subst used ns'; clear H.
    destruct (apply_first_in _ _ _ _ E) as [o [Hi [Hn Ho]]].
    eapply IH; [exact E2| |].
    + intros o' Hi' Hu. apply S; auto. right; auto.
    + eapply (S o Hi); [left; auto|exact Ho|exact R].
  - inversion H; subst; auto.
Qed.

(* ------------------------------------------------------------------ helpers for rule proofs *)

Lemma step_wf : forall n st out, node_step n st = Ok out -> forallb wfb st = true.
Proof. intros n st out H. unfold node_step in H. destruct (forallb wfb st); auto; discriminate. Qed.

Lemma is_prim_inv : forall id n, is_prim id n = true -> exists a o, n = Prim id a o.
Proof.
  intros id n H. destruct n; cbn in H; try discriminate.
  apply N.eqb_eq in H. subst. eauto.
Qed.

(** a two-primitive tuple pattern determines the matched nodes up to their arity fields *)
Lemma tuple2_inv : forall i1 i2 ns k b,
  tuple_match [PP i1; PP i2] ns = Some (k, b) ->
  exists a1 o1 a2 o2 rest, ns = Prim i1 a1 o1 :: Prim i2 a2 o2 :: rest /\ k = 2%nat.
Proof.
  intros i1 i2 ns k b H. cbn in H.
  destruct ns as [|n1 ns]; try discriminate.
  destruct (is_prim i1 n1) eqn:E1; try discriminate.
  destruct ns as [|n2 ns]; try discriminate.
  destruct (is_prim i2 n2) eqn:E2; try discriminate.
  inversion H; subst.
  apply is_prim_inv in E1. apply is_prim_inv in E2.
  destruct E1 as [a1 [o1 ->]]. destruct E2 as [a2 [o2 ->]].
  exists a1, o1, a2, o2, ns; auto.
Qed.

(** soundness of a rule  (P1, P2) -> Q  from the semantic inclusion of its two sides *)
Lemma tuple2_sound : forall i1 i2 q a o,
  (forall st out, forallb wfb st = true ->
     (st' <- prim_sem i1 st ;; if negb (forallb wfb st') then Unspec else prim_sem i2 st') = Ok out ->
     prim_sem q st = Ok out) ->
  prule_sound (tuple_rule [PP i1; PP i2] [Prim q a o]).
Proof.
  intros i1 i2 q a o Hsem ns k new H st out R.
  unfold tuple_rule in H.
  destruct (tuple_match [PP i1; PP i2] ns) as [[k' b]|] eqn:E; try discriminate.
  destruct b; try discriminate. inversion H; subst k' new; clear H.
  destruct (tuple2_inv _ _ _ _ _ E) as [a1 [o1 [a2 [o2 [rest [-> ->]]]]]].
  cbn [firstn run] in R. cbn [flat2 from_list fold_left as_slice flat_map app run].
  destruct (node_step (Prim i1 a1 o1) st) as [st1| |] eqn:S1; cbn in R; try discriminate.
  pose proof (step_wf _ _ _ S1) as W.
  unfold node_step in S1 |- *. rewrite W in *. cbn [negb] in *.
  destruct (node_step (Prim i2 a2 o2) st1) as [st2| |] eqn:S2; cbn in R; try discriminate.
  inversion R; subst st2; clear R.
  rewrite (Hsem st out W); [reflexivity|].
  rewrite S1. cbn. unfold node_step in S2. exact S2.
Qed.

(* ------------------------------------------------------------------ reverse; first = last *)

Lemma skipn_add {A} : forall b a (l : list A), skipn a (skipn b l) = skipn (b + a) l.
Proof.
  induction b as [|b IH]; intros a l; [reflexivity|].
  destruct l as [|x l]; [cbn; apply skipn_nil|]. cbn [skipn Nat.add]. apply IH.
Qed.

Lemma first_of_reversed {A} m n : forall (d : list A), length d = (S n * m)%nat ->
  firstn m (concat (rev (chunk m (S n) d))) = skipn (n * m) d.
Proof.
  induction n as [|n IH]; intros d H.
  - cbn [chunk rev app concat Nat.mul skipn]. rewrite app_nil_r.
    rewrite firstn_all2 by (rewrite firstn_length; lia). apply firstn_all2. lia.
  - change (chunk m (S (S n)) d) with (firstn m d :: chunk m (S n) (skipn m d)).
    cbn [rev]. rewrite concat_app.
    assert (L : length (concat (rev (chunk m (S n) (skipn m d)))) = (S n * m)%nat).
    { rewrite (concat_length_const m).
      - rewrite rev_length, chunk_length. reflexivity.
      - apply Forall_rev, chunk_rows_len. rewrite skipn_length. lia. }
    rewrite firstn_app, L. replace (m - S n * m)%nat with O by lia. cbn [firstn]. rewrite app_nil_r.
    rewrite IH by (rewrite skipn_length; lia).
    rewrite skipn_add. reflexivity.
Qed.

Lemma last_of_reversed {A} m n (d : list A) : length d = (S n * m)%nat ->
  skipn (n * m) (concat (rev (chunk m (S n) d))) = firstn m d.
Proof.
  intros H. change (chunk m (S n) d) with (firstn m d :: chunk m n (skipn m d)).
  cbn [rev]. rewrite concat_app. cbn [concat]. rewrite app_nil_r.
  assert (L : length (concat (rev (chunk m n (skipn m d)))) = (n * m)%nat).
  { rewrite (concat_length_const m).
    - rewrite rev_length, chunk_length. reflexivity.
    - apply Forall_rev, chunk_rows_len. rewrite skipn_length. lia. }
  rewrite skipn_app, L, Nat.sub_diag. cbn [skipn].
  rewrite skipn_all2 by lia. reflexivity.
Qed.

Lemma wfb_wf : forall a, wfb a = true -> length (adata a) = prodn (ash a).
Proof. intros a H. apply Nat.eqb_eq in H. exact H. Qed.

Lemma wfb_reverse : forall a, wfb a = true -> wfb (p_reverse a) = true.
Proof.
  intros a H. apply Nat.eqb_eq. apply wf_reverse. apply wfb_wf; auto.
Qed.

Theorem reverse_first_is_last : forall a, wfb a = true ->
  forall v, p_first None (p_reverse a) = Ok v -> p_last None a = Ok v.
Proof.
  intros [t sh d] W v H. apply wfb_wf in W. cbn [adata ash] in W.
  destruct sh as [|n s]; [exact H|].
  destruct n as [|n]; [cbn in H; discriminate|].
  unfold p_reverse, p_first, p_last in *. cbn [ash aty adata] in *.
  assert (L : length d = (S n * prodn s)%nat) by (unfold prodn in *; cbn [fold_right] in W; lia).
  rewrite (first_of_reversed _ _ _ L) in H. exact H.
Qed.

Theorem reverse_last_is_first : forall a, wfb a = true ->
  forall v, p_last None (p_reverse a) = Ok v -> p_first None a = Ok v.
Proof.
  intros [t sh d] W v H. apply wfb_wf in W. cbn [adata ash] in W.
  destruct sh as [|n s]; [exact H|].
  destruct n as [|n]; [cbn in H; discriminate|].
  unfold p_reverse, p_first, p_last in *. cbn [ash aty adata] in *.
  assert (L : length d = (S n * prodn s)%nat) by (unfold prodn in *; cbn [fold_right] in W; lia).
  rewrite (last_of_reversed _ _ _ L) in H. exact H.
Qed.

Lemma transposeN_small : forall id, (id < T50)%N -> transposeN_of id = None.
Proof. intros id H. unfold transposeN_of. apply N.leb_gt in H. rewrite H. reflexivity. Qed.

Ltac small_id := apply transposeN_small; vm_compute; reflexivity.

(** rule 1: (Reverse, First) -> Last *)
Theorem rule_reverse_first : prule_sound (tuple_rule [PP 33; PP 31] [nLast]).
Proof.
  apply tuple2_sound. intros st out W H.
  unfold prim_sem in *.
  rewrite (transposeN_small 33) in H by (vm_compute; reflexivity).
  rewrite (transposeN_small 32) by (vm_compute; reflexivity).
  destruct st as [|a r]; cbn in H; try discriminate.
  cbn in W. apply andb_prop in W. destruct W as [Wa Wr].
  rewrite (wfb_reverse a Wa), Wr in H. cbn in H.
  try (rewrite (transposeN_small 31) in H by (vm_compute; reflexivity)); cbn in H.
  destruct (p_first None (p_reverse a)) as [v| |] eqn:E; cbn in H; try discriminate.
  cbn. rewrite (reverse_first_is_last a Wa v E). exact H.
Qed.

(** rule 2: (Reverse, Last) -> First *)
Theorem rule_reverse_last : prule_sound (tuple_rule [PP 33; PP 32] [nFirst]).
Proof.
  apply tuple2_sound. intros st out W H.
  unfold prim_sem in *.
  rewrite (transposeN_small 33) in H by (vm_compute; reflexivity).
  rewrite (transposeN_small 31) by (vm_compute; reflexivity).
  destruct st as [|a r]; cbn in H; try discriminate.
  cbn in W. apply andb_prop in W. destruct W as [Wa Wr].
  rewrite (wfb_reverse a Wa), Wr in H. cbn in H.
  try (rewrite (transposeN_small 32) in H by (vm_compute; reflexivity)); cbn in H.
  destruct (p_last None (p_reverse a)) as [v| |] eqn:E; cbn in H; try discriminate.
  cbn. rewrite (reverse_last_is_first a Wa v E). exact H.
Qed.

(* ------------------------------------------------------------------ first of rise / fall *)

Lemma hd_isort {A} (le : A -> A -> bool) : forall l, hd_error (isort le l) = min_r le l.
Proof.
  induction l as [|x t IH]; cbn; auto.
  rewrite <- IH. destruct (isort le t) as [|y s]; cbn; auto.
  destruct (le x y); reflexivity.
Qed.

Lemma firstn1_map {A B} (f : A -> B) (l : list A) :
  firstn 1 (map f l) = match hd_error l with Some x => [f x] | None => [] end.
Proof. destruct l; reflexivity. Qed.

Lemma min_r_none {A} (le : A -> A -> bool) l : min_r le l = None -> l = [].
Proof. destruct l; cbn; auto. destruct (min_r le l); discriminate. Qed.

(** first of the rise (fall) of an array = index of its leftmost minimal (maximal) row *)
Lemma first_of_grade : forall (e : res arr) (le : list elem -> list elem -> bool) (rs : list (list elem)) n v,
  length rs = n ->
  p_first None (Arr TNum [n]
     (map nat_elem (map fst (isort (fun x y => le (snd x) (snd y)) (combine (seq 0 (length rs)) rs))))) = Ok v ->
  match min_r (fun x y => le (snd x) (snd y)) (combine (seq 0 (length rs)) rs) with
  | None => e
  | Some p => Ok (num (Z.of_nat (fst p))) end = Ok v.
Proof.
  intros e le rs n v L H. unfold p_first in H. cbn [ash aty adata] in H.
  destruct n as [|n]; try discriminate.
  change (prodn []) with 1%nat in H. rewrite map_map in H. rewrite firstn1_map in H.
  rewrite hd_isort in H.
  destruct (min_r _ _) as [p|] eqn:E.
  - rewrite <- H. reflexivity.
  - apply min_r_none in E. destruct rs; cbn in *; discriminate.
Qed.

Theorem rise_first_is_first_min : forall fixed a u v,
  p_rise a = Ok u -> p_first None u = Ok v -> p_first_index fixed row_le a = Ok v.
Proof.
  intros fixed a u v R F. unfold p_rise in R. unfold p_first_index.
  destruct (negb (sortable a)); try discriminate.
  destruct (ash a) as [|n s]; try discriminate.
  inversion R; subst u; clear R. unfold rise_list in F.
  eapply first_of_grade in F; [exact F|apply chunk_length].
Qed.

Theorem fall_first_is_first_max : forall fixed a u v,
  p_fall a = Ok u -> p_first None u = Ok v -> p_first_index fixed row_ge a = Ok v.
Proof.
  intros fixed a u v R F. unfold p_fall in R. unfold p_first_index.
  destruct (negb (sortable a)); try discriminate.
  destruct (ash a) as [|n s]; try discriminate.
  inversion R; subst u; clear R. unfold fall_list in F.
  eapply first_of_grade in F; [exact F|apply chunk_length].
Qed.

(** rule 3: (Rise, First) -> FirstMinIndex *)
Theorem rule_rise_first : prule_sound (tuple_rule [PP 34; PP 31] [nFirstMinIndex]).
Proof.
  apply tuple2_sound. intros st out W H.
  unfold prim_sem in *.
  rewrite (transposeN_small 34) in H by (vm_compute; reflexivity).
  rewrite (transposeN_small 102) by (vm_compute; reflexivity).
  destruct st as [|a r]; cbn in H; try discriminate.
  destruct (p_rise a) as [u| |] eqn:E; cbn in H; try discriminate.
  destruct (negb (wfb u && forallb wfb r)); try discriminate.
  try (rewrite (transposeN_small 31) in H by (vm_compute; reflexivity)); cbn in H.
  destruct (p_first None u) as [v| |] eqn:E2; cbn in H; try discriminate.
  cbn. rewrite (rise_first_is_first_min true a u v E E2). exact H.
Qed.

(** rule 5: (Fall, First) -> FirstMaxIndex *)
Theorem rule_fall_first : prule_sound (tuple_rule [PP 35; PP 31] [nFirstMaxIndex]).
Proof.
  apply tuple2_sound. intros st out W H.
  unfold prim_sem in *.
  rewrite (transposeN_small 35) in H by (vm_compute; reflexivity).
  rewrite (transposeN_small 104) by (vm_compute; reflexivity).
  destruct st as [|a r]; cbn in H; try discriminate.
  destruct (p_fall a) as [u| |] eqn:E; cbn in H; try discriminate.
  destruct (negb (wfb u && forallb wfb r)); try discriminate.
  try (rewrite (transposeN_small 31) in H by (vm_compute; reflexivity)); cbn in H.
  destruct (p_first None u) as [v| |] eqn:E2; cbn in H; try discriminate.
  cbn. rewrite (fall_first_is_first_max true a u v E E2). exact H.
Qed.

(* ------------------------------------------------------------------ last of rise / fall *)

(** the order of rows is transitive *)
Lemma elem_cmp_eq_l : forall x y z, elem_cmp x y = Eq -> elem_cmp x z = elem_cmp y z.
Proof.
  intros x y z; destruct x as [a|a|ta sa da], y as [b|b|tb sb db], z as [c|c|tc sc dc]; cbn; intros H; try discriminate; try reflexivity.
  - apply Z.compare_eq in H. subst. reflexivity.
  - apply N.compare_eq in H. subst. reflexivity.
Qed.
Lemma elem_cmp_eq_r : forall x y z, elem_cmp y z = Eq -> elem_cmp x y = elem_cmp x z.
Proof.
  intros x y z H. rewrite (elem_cmp_antisym y x), (elem_cmp_antisym z x). f_equal.
  symmetry. apply elem_cmp_eq_l. rewrite elem_cmp_antisym, H. reflexivity.
Qed.
Lemma elem_cmp_lt_trans : forall x y z, elem_cmp x y = Lt -> elem_cmp y z = Lt -> elem_cmp x z = Lt.
Proof.
  intros x y z; destruct x as [a|a|ta sa da], y as [b|b|tb sb db], z as [c|c|tc sc dc]; cbn; intros H1 H2; try discriminate; try reflexivity.
  - rewrite Z.compare_lt_iff in *. lia.
  - rewrite N.compare_lt_iff in *. lia.
Qed.
Lemma row_cmp_eq_l : forall a b c, row_cmp a b = Eq -> row_cmp a c = row_cmp b c.
Proof.
  induction a as [|x a IH]; destruct b as [|y b], c as [|z c]; cbn; intros H; try discriminate; auto.
  destruct (elem_cmp x y) eqn:E; try discriminate.
  rewrite (elem_cmp_eq_l x y z E). destruct (elem_cmp y z); auto.
Qed.
Lemma row_cmp_eq_r : forall a b c, row_cmp b c = Eq -> row_cmp a b = row_cmp a c.
Proof.
  intros a b c H. rewrite (row_cmp_antisym b a), (row_cmp_antisym c a). f_equal.
  symmetry. apply row_cmp_eq_l. rewrite row_cmp_antisym, H. reflexivity.
Qed.
Lemma row_cmp_lt_trans : forall a b c, row_cmp a b = Lt -> row_cmp b c = Lt -> row_cmp a c = Lt.
Proof.
  induction a as [|x a IH]; destruct b as [|y b], c as [|z c]; cbn; intros H1 H2; try discriminate; auto.
  destruct (elem_cmp x y) eqn:E1; try discriminate; destruct (elem_cmp y z) eqn:E2; try discriminate.
  - rewrite (elem_cmp_eq_l x y z E1), E2. eauto.
  - rewrite (elem_cmp_eq_l x y z E1), E2. reflexivity.
  - rewrite <- (elem_cmp_eq_r x y z E2), E1. reflexivity.
  - rewrite (elem_cmp_lt_trans x y z E1 E2). reflexivity.
Qed.
Lemma row_le_trans : forall a b c, row_le a b = true -> row_le b c = true -> row_le a c = true.
Proof.
  unfold row_le. intros a b c H1 H2.
  destruct (row_cmp a b) eqn:E1; try discriminate.
  - rewrite (row_cmp_eq_l a b c E1). exact H2.
  - destruct (row_cmp b c) eqn:E2; try discriminate.
    + rewrite <- (row_cmp_eq_r a b c E2), E1. reflexivity.
    + rewrite (row_cmp_lt_trans a b c E1 E2). reflexivity.
Qed.
Lemma row_ge_le : forall a b, row_ge a b = row_le b a.
Proof. intros. unfold row_ge, row_le. rewrite (row_cmp_antisym a b). destruct (row_cmp a b); reflexivity. Qed.
Lemma row_ge_trans : forall a b c, row_ge a b = true -> row_ge b c = true -> row_ge a c = true.
Proof. intros a b c. rewrite !row_ge_le. intros H1 H2. eapply row_le_trans; eauto. Qed.
Lemma row_ge_total : forall l l', row_ge l l' = true \/ row_ge l' l = true.
Proof. intros. rewrite !row_ge_le. destruct (row_le_total l l'); auto. Qed.

(** the last element of a list *)
Fixpoint lst {A} (l : list A) : option A :=
  match l with [] => None | x :: t => match lst t with None => Some x | Some m => Some m end end.
Lemma lst_none {A} (l : list A) : lst l = None -> l = [].
Proof. destruct l; cbn; auto. destruct (lst l); discriminate. Qed.
Lemma lst_map {A B} (f : A -> B) (l : list A) : lst (map f l) = option_map f (lst l).
Proof. induction l; cbn; auto. rewrite IHl. destruct (lst l); reflexivity. Qed.
Lemma skipn_lst {A} : forall (l : list A) n, length l = S n ->
  skipn n l = match lst l with Some m => [m] | None => [] end.
Proof.
  induction l as [|x t IH]; intros n H; [discriminate|].
  destruct n as [|n].
  - destruct t; [reflexivity|discriminate].
  - cbn [skipn]. cbn in H. rewrite (IH n) by lia. cbn [lst].
    destruct (lst t) eqn:E; [reflexivity|]. apply lst_none in E. subst t. discriminate.
Qed.

Section LastSorted.
  Context {A : Type} (le : A -> A -> bool).
  Hypothesis le_total : forall x y, le x y = true \/ le y x = true.
  Hypothesis le_trans : forall x y z, le x y = true -> le y z = true -> le x z = true.

  Definition lmax (l : list A) : Prop := forall m, lst l = Some m -> forall y, In y l -> le y m = true.

  Lemma lmax_tail : forall y s, lmax (y :: s) -> lmax s.
  Proof.
    intros y s H m Hm z Hz. apply (H m); [cbn; rewrite Hm; reflexivity|right; exact Hz].
  Qed.

  Lemma lst_insert : forall x l, lmax l ->
    lst (insert le x l) = Some (match lst l with None => x | Some m => if le x m then m else x end).
  Proof.
    intros x l. induction l as [|y s IH]; intros M; [reflexivity|].
    cbn [insert]. destruct (le x y) eqn:E.
    - change (lst (x :: y :: s)) with (match lst (y :: s) with None => Some x | Some m => Some m end).
      destruct (lst (y :: s)) as [m0|] eqn:L; [|apply lst_none in L; discriminate].
      assert (Hy : le y m0 = true) by (apply (M m0 L); left; reflexivity).
      rewrite (le_trans x y m0 E Hy). reflexivity.
    - change (lst (y :: insert le x s)) with (match lst (insert le x s) with None => Some y | Some m => Some m end).
      rewrite (IH (lmax_tail _ _ M)). cbn [lst].
      destruct (lst s) as [m|]; [reflexivity|]. rewrite E. reflexivity.
  Qed.

  Lemma lmax_insert : forall x l, lmax l -> lmax (insert le x l).
  Proof.
    intros x l M m' Hm' y Hy.
    rewrite (lst_insert x l M) in Hm'. inversion Hm'; subst m'; clear Hm'.
    assert (Hy' : y = x \/ In y l).
    { pose proof (Permutation.Permutation_in y (insert_perm le x l) Hy) as P. destruct P; auto. }
    assert (Rx : le x x = true) by (destruct (le_total x x); auto).
    destruct (lst l) as [m|] eqn:L.
    - destruct (le x m) eqn:E.
      + destruct Hy' as [->|Hy']; [exact E|exact (M m L y Hy')].
      + destruct Hy' as [->|Hy']; [exact Rx|].
        apply (le_trans y m x); [exact (M m L y Hy')|].
        destruct (le_total x m); [congruence|assumption].
    - apply lst_none in L. subst l. destruct Hy' as [->|[]]. exact Rx.
  Qed.

  Lemma lst_isort : forall l, lst (isort le l) = max_r le l /\ lmax (isort le l).
  Proof.
    induction l as [|x t [IH1 IH2]]; cbn [isort max_r].
    - split; [reflexivity|]. intros m H; discriminate.
    - split; [|apply lmax_insert; exact IH2].
      rewrite (lst_insert x _ IH2), IH1. destruct (max_r le t); reflexivity.
  Qed.
End LastSorted.

Lemma max_r_none {A} (le : A -> A -> bool) l : max_r le l = None -> l = [].
Proof. destruct l; cbn; auto. destruct (max_r le l); discriminate. Qed.

(** last of the rise (fall) of an array = index of its rightmost maximal (minimal) row *)
Lemma last_of_grade : forall (le : list elem -> list elem -> bool),
  (forall x y, le x y = true \/ le y x = true) ->
  (forall x y z, le x y = true -> le y z = true -> le x z = true) ->
  forall (rs : list (list elem)) n,
  length rs = n ->
  p_last None (Arr TNum [n]
     (map nat_elem (map fst (isort (fun x y => le (snd x) (snd y)) (combine (seq 0 (length rs)) rs))))) =
  match max_r (fun x y => le (snd x) (snd y)) (combine (seq 0 (length rs)) rs) with
  | None => Err
  | Some p => Ok (num (Z.of_nat (fst p))) end.
Proof.
  intros le Tot Tr rs n L. unfold p_last. cbn [ash aty adata].
  set (le' := fun x y : nat * list elem => le (snd x) (snd y)).
  set (l := combine (seq 0 (length rs)) rs).
  assert (Ll : length l = n) by (unfold l; rewrite combine_length, seq_length, L; lia).
  destruct n as [|n].
  - destruct l; [reflexivity|discriminate].
  - change (prodn []) with 1%nat. rewrite Nat.mul_1_r, map_map.
    assert (Ls : length (map (fun x => nat_elem (fst x)) (isort le' l)) = S n).
    { rewrite map_length. rewrite (Permutation.Permutation_length (isort_perm le' l)). exact Ll. }
    rewrite (skipn_lst _ n Ls), lst_map.
    destruct (lst_isort le' (fun x y => Tot (snd x) (snd y)) (fun x y z => Tr (snd x) (snd y) (snd z)) l) as [E _].
    rewrite E. destruct (max_r le' l) as [p|] eqn:M; [reflexivity|].
    apply max_r_none in M. rewrite M in Ll. discriminate.
Qed.

(** the unfused and the fused forms agree, failure included, wherever rise / fall is defined *)
Theorem rise_last_equiv : forall a u, p_rise a = Ok u -> p_last_index row_le a = p_last None u.
Proof.
  intros a u R. unfold p_rise in R. unfold p_last_index.
  destruct (negb (sortable a)); try discriminate.
  destruct (ash a) as [|n s]; try discriminate.
  inversion R; subst u; clear R. unfold rise_list.
  symmetry. apply (last_of_grade row_le row_le_total row_le_trans). apply chunk_length.
Qed.
Theorem fall_last_equiv : forall a u, p_fall a = Ok u -> p_last_index row_ge a = p_last None u.
Proof.
  intros a u R. unfold p_fall in R. unfold p_last_index.
  destruct (negb (sortable a)); try discriminate.
  destruct (ash a) as [|n s]; try discriminate.
  inversion R; subst u; clear R. unfold fall_list.
  symmetry. apply (last_of_grade row_ge row_ge_total row_ge_trans). apply chunk_length.
Qed.
Theorem rise_first_equiv : forall a u, p_rise a = Ok u -> p_first_index true row_le a = p_first None u.
Proof.
  intros a u R. destruct (p_first None u) as [v| |] eqn:F.
  - apply (rise_first_is_first_min true a u v R F).
  - unfold p_rise in R. unfold p_first_index.
    destruct (negb (sortable a)); try discriminate.
    destruct (ash a) as [|n s]; try discriminate.
    inversion R; subst u; clear R. unfold p_first in F. cbn [ash] in F.
    destruct n as [|n]; [|discriminate].
    pose proof (chunk_length (prodn s) 0 (adata a)) as L.
    destruct (chunk (prodn s) 0 (adata a)); [reflexivity|discriminate].
  - unfold p_rise in R. destruct (negb (sortable a)); try discriminate.
    destruct (ash a) as [|n s]; try discriminate. inversion R; subst u.
    unfold p_first in F. cbn [ash] in F. destruct n; discriminate.
Qed.

Theorem fall_first_equiv : forall a u, p_fall a = Ok u -> p_first_index true row_ge a = p_first None u.
Proof.
  intros a u R. destruct (p_first None u) as [v| |] eqn:F.
  - apply (fall_first_is_first_max true a u v R F).
  - unfold p_fall in R. unfold p_first_index.
    destruct (negb (sortable a)); try discriminate.
    destruct (ash a) as [|n s]; try discriminate.
    inversion R; subst u; clear R. unfold p_first in F. cbn [ash] in F.
    destruct n as [|n]; [|discriminate].
    pose proof (chunk_length (prodn s) 0 (adata a)) as L.
    destruct (chunk (prodn s) 0 (adata a)); [reflexivity|discriminate].
  - unfold p_fall in R. destruct (negb (sortable a)); try discriminate.
    destruct (ash a) as [|n s]; try discriminate. inversion R; subst u.
    unfold p_first in F. cbn [ash] in F. destruct n; discriminate.
Qed.

(** rule 6: (Rise, Last) -> LastMaxIndex *)
Theorem rule_rise_last : prule_sound (tuple_rule [PP 34; PP 32] [nLastMaxIndex]).
Proof.
  apply tuple2_sound. intros st out W H.
  unfold prim_sem in *.
  rewrite (transposeN_small 34) in H by (vm_compute; reflexivity).
  rewrite (transposeN_small 105) by (vm_compute; reflexivity).
  destruct st as [|a r]; cbn in H; try discriminate.
  destruct (p_rise a) as [u| |] eqn:E; cbn in H; try discriminate.
  destruct (negb (wfb u && forallb wfb r)); try discriminate.
  try (rewrite (transposeN_small 32) in H by (vm_compute; reflexivity)); cbn in H.
  cbn. rewrite (rise_last_equiv a u E). exact H.
Qed.

(** rule 4: (Fall, Last) -> LastMinIndex *)
Theorem rule_fall_last : prule_sound (tuple_rule [PP 35; PP 32] [nLastMinIndex]).
Proof.
  apply tuple2_sound. intros st out W H.
  unfold prim_sem in *.
  rewrite (transposeN_small 35) in H by (vm_compute; reflexivity).
  rewrite (transposeN_small 103) by (vm_compute; reflexivity).
  destruct st as [|a r]; cbn in H; try discriminate.
  destruct (p_fall a) as [u| |] eqn:E; cbn in H; try discriminate.
  destruct (negb (wfb u && forallb wfb r)); try discriminate.
  try (rewrite (transposeN_small 32) in H by (vm_compute; reflexivity)); cbn in H.
  cbn. rewrite (fall_last_equiv a u E). exact H.
Qed.

(* ------------------------------------------------------------------ first / last of sort *)

Lemma firstn_concat_hd {A} m (r : list A) rest : length r = m -> firstn m (concat (r :: rest)) = r.
Proof.
  intros L. cbn [concat]. rewrite firstn_app, L, Nat.sub_diag. cbn [firstn]. rewrite app_nil_r.
  apply firstn_all2. lia.
Qed.

Lemma skipn_concat_last {A} m : forall (l : list (list A)) k r,
  Forall (fun x => length x = m) l -> length l = S k -> lst l = Some r ->
  skipn (k * m) (concat l) = r.
Proof.
  induction l as [|x t IH]; intros k r F L R; [discriminate|].
  inversion F as [|? ? Hx Ft]; subst.
  destruct k as [|k].
  - destruct t; [|discriminate]. cbn in R |- *. inversion R. apply app_nil_r.
  - cbn [concat]. rewrite skipn_app.
    rewrite (skipn_all2 x) by (cbn; lia). cbn [app].
    replace (S k * length x - length x)%nat with (k * length x)%nat by (cbn; lia).
    apply IH; auto.
    cbn [lst] in R. destruct (lst t) eqn:E; [exact R|]. apply lst_none in E. subst t. discriminate.
Qed.

Lemma isort_rows_len m (l : list (list elem)) :
  Forall (fun r => length r = m) l -> Forall (fun r => length r = m) (isort row_le l).
Proof.
  intros F. apply Forall_forall. intros x Hx. rewrite Forall_forall in F. apply F.
  eapply Permutation.Permutation_in; [apply isort_perm|exact Hx].
Qed.

(** sort then first / last = the fused FirstSort / LastSort, failure on an array without rows included *)
Theorem sort_first_equiv : forall a, wfb a = true ->
  p_first_sort a = (v <- p_sort a ;; p_first None v).
Proof.
  intros [t sh d] W. apply wfb_wf in W. cbn [adata ash] in W.
  unfold p_first_sort, p_sort. destruct (negb (sortable (Arr t sh d))); [reflexivity|].
  cbn [ash aty adata]. destruct sh as [|n s]; [reflexivity|].
  cbn [bind]. unfold of_drows, p_first. cbn [ash aty adata].
  set (rs := chunk (prodn s) n d).
  assert (F : Forall (fun r => length r = prodn s) (isort row_le rs)).
  { apply isort_rows_len. apply chunk_rows_len. unfold prodn in *. cbn [fold_right] in W. lia. }
  pose proof (hd_isort row_le rs) as H.
  destruct (isort row_le rs) as [|r0 rest] eqn:E; cbn [hd_error length] in *.
  - rewrite <- H. reflexivity.
  - rewrite <- H. inversion F; subst. rewrite firstn_concat_hd by auto. reflexivity.
Qed.

Theorem sort_last_equiv : forall a, wfb a = true ->
  p_last_sort a = (v <- p_sort a ;; p_last None v).
Proof.
  intros [t sh d] W. apply wfb_wf in W. cbn [adata ash] in W.
  unfold p_last_sort, p_sort. destruct (negb (sortable (Arr t sh d))); [reflexivity|].
  cbn [ash aty adata]. destruct sh as [|n s]; [reflexivity|].
  cbn [bind]. unfold of_drows, p_last. cbn [ash aty adata].
  set (rs := chunk (prodn s) n d).
  assert (F : Forall (fun r => length r = prodn s) (isort row_le rs)).
  { apply isort_rows_len. apply chunk_rows_len. unfold prodn in *. cbn [fold_right] in W. lia. }
  destruct (lst_isort row_le row_le_total row_le_trans rs) as [H _].
  rewrite <- H.
  destruct (isort row_le rs) as [|r0 rest] eqn:E; [reflexivity|].
  change (length (r0 :: rest)) with (S (length rest)). cbn iota.
  destruct (lst (r0 :: rest)) as [r|] eqn:L; [|apply lst_none in L; discriminate].
  rewrite (skipn_concat_last (prodn s) (r0 :: rest) (length rest) r F eq_refl L). reflexivity.
Qed.

(** rule 19: (Sort, First) -> FirstSort *)
Theorem rule_sort_first : prule_sound (tuple_rule [PP 43; PP 31] [nFirstSort]).
Proof.
  apply tuple2_sound. intros st out W H.
  unfold prim_sem in *.
  rewrite (transposeN_small 43) in H by (vm_compute; reflexivity).
  rewrite (transposeN_small 114) by (vm_compute; reflexivity).
  destruct st as [|a r]; cbn in H; try discriminate.
  cbn in W. apply andb_prop in W. destruct W as [Wa Wr].
  unfold on_top. rewrite (sort_first_equiv a Wa).
  destruct (p_sort a) as [u| |] eqn:E; cbn in H; try discriminate.
  destruct (negb (wfb u && forallb wfb r)); try discriminate.
  try (rewrite (transposeN_small 31) in H by (vm_compute; reflexivity)); cbn in H.
  cbn. exact H.
Qed.

(** rule 20: (Sort, Last) -> LastSort *)
Theorem rule_sort_last : prule_sound (tuple_rule [PP 43; PP 32] [nLastSort]).
Proof.
  apply tuple2_sound. intros st out W H.
  unfold prim_sem in *.
  rewrite (transposeN_small 43) in H by (vm_compute; reflexivity).
  rewrite (transposeN_small 115) by (vm_compute; reflexivity).
  destruct st as [|a r]; cbn in H; try discriminate.
  cbn in W. apply andb_prop in W. destruct W as [Wa Wr].
  unfold on_top. rewrite (sort_last_equiv a Wa).
  destruct (p_sort a) as [u| |] eqn:E; cbn in H; try discriminate.
  destruct (negb (wfb u && forallb wfb r)); try discriminate.
  try (rewrite (transposeN_small 32) in H by (vm_compute; reflexivity)); cbn in H.
  cbn. exact H.
Qed.

(* ------------------------------------------------------------------ sort / reverse / sort down *)

Section RevSort.
  Context {A : Type} (le : A -> A -> bool).
  Hypothesis le_total : forall x y, le x y = true \/ le y x = true.
  Hypothesis le_trans : forall x y z, le x y = true -> le y z = true -> le x z = true.
  Let gt := fun a b : A => negb (le a b).

  Lemma insert_gt_end : forall x m, (forall z, In z m -> le x z = true) -> insert gt x m = m ++ [x].
  Proof.
    intros x m. induction m as [|z m IH]; intros H; [reflexivity|].
    cbn [insert]. unfold gt at 1. rewrite (H z (or_introl eq_refl)). cbn [negb app].
    f_equal. apply IH. intros w Hw. apply H. right; exact Hw.
  Qed.

  Lemma insert_gt_app : forall x y m, le x y = false -> insert gt x (m ++ [y]) = insert gt x m ++ [y].
  Proof.
    intros x y m E. induction m as [|z m IH]; cbn [insert app].
    - unfold gt. rewrite E. reflexivity.
    - destruct (gt x z); [reflexivity|]. cbn [app]. f_equal. exact IH.
  Qed.

  Lemma rev_insert : forall x l, Sorted.StronglySorted (fun a b => le a b = true) l ->
    rev (insert le x l) = insert gt x (rev l).
  Proof.
    intros x l S. induction S as [|y s Ss IH Fy]; [reflexivity|].
    cbn [insert]. destruct (le x y) eqn:E.
    - change (rev (x :: y :: s)) with (rev (y :: s) ++ [x]).
      symmetry. apply insert_gt_end. intros z Hz. apply in_rev in Hz.
      destruct Hz as [<-|Hz]; [exact E|].
      rewrite Forall_forall in Fy. apply (le_trans x y z E (Fy z Hz)).
    - cbn [rev]. rewrite IH. symmetry. apply insert_gt_app. exact E.
  Qed.

  Lemma rev_isort : forall l, rev (isort le l) = isort gt l.
  Proof.
    induction l as [|x t IH]; [reflexivity|].
    cbn [isort]. rewrite rev_insert, IH; [reflexivity|].
    apply Sorted.Sorted_StronglySorted.
    - intros a b c H1 H2. exact (le_trans a b c H1 H2).
    - apply (isort_sorted le le_total).
  Qed.
End RevSort.

Lemma rev_sort_rows : forall rs, rev (isort row_le rs) = isort row_gt rs.
Proof. intros. apply (rev_isort row_le row_le_total row_le_trans). Qed.

Lemma reverse_of_rows : forall t s (l : list (list elem)), Forall (fun r => length r = prodn s) l ->
  p_reverse (of_drows t s l) = of_drows t s (rev l).
Proof.
  intros t s l F. unfold of_drows, p_reverse. cbn [ash aty adata].
  rewrite (chunk_concat _ _ F). rewrite rev_length. reflexivity.
Qed.

(** sort then reverse = SortDown; SortDown then reverse = sort: on every well-formed array *)
Theorem sort_reverse_equiv : forall a, wfb a = true ->
  p_sort_down a = (v <- p_sort a ;; Ok (p_reverse v)).
Proof.
  intros [t sh d] W. apply wfb_wf in W. cbn [adata ash] in W.
  unfold p_sort_down, p_sort. destruct (negb (sortable (Arr t sh d))); [reflexivity|].
  cbn [ash aty adata]. destruct sh as [|n s]; [reflexivity|].
  cbn [bind]. rewrite reverse_of_rows.
  - rewrite rev_sort_rows. reflexivity.
  - apply isort_rows_len. apply chunk_rows_len. unfold prodn in *. cbn [fold_right] in W. lia.
Qed.

Theorem sortdown_reverse_equiv : forall a, wfb a = true ->
  p_sort a = (v <- p_sort_down a ;; Ok (p_reverse v)).
Proof.
  intros [t sh d] W. apply wfb_wf in W. cbn [adata ash] in W.
  unfold p_sort_down, p_sort. destruct (negb (sortable (Arr t sh d))); [reflexivity|].
  cbn [ash aty adata]. destruct sh as [|n s]; [reflexivity|].
  cbn [bind]. rewrite <- rev_sort_rows. rewrite reverse_of_rows.
  - rewrite rev_involutive. reflexivity.
  - apply Forall_rev. apply isort_rows_len. apply chunk_rows_len. unfold prodn in *. cbn [fold_right] in W. lia.
Qed.

(** rule 17: (Sort, Reverse) -> SortDown *)
Theorem rule_sort_reverse : prule_sound (tuple_rule [PP 43; PP 33] [nSortDown]).
Proof.
  apply tuple2_sound. intros st out W H.
  unfold prim_sem in *.
  rewrite (transposeN_small 43) in H by (vm_compute; reflexivity).
  rewrite (transposeN_small 113) by (vm_compute; reflexivity).
  destruct st as [|a r]; cbn in H; try discriminate.
  cbn in W. apply andb_prop in W. destruct W as [Wa Wr].
  unfold on_top. rewrite (sort_reverse_equiv a Wa).
  destruct (p_sort a) as [u| |] eqn:E; cbn in H; try discriminate.
  destruct (negb (wfb u && forallb wfb r)); try discriminate.
  try (rewrite (transposeN_small 33) in H by (vm_compute; reflexivity)); cbn in H.
  cbn. exact H.
Qed.

(** rule 18: (SortDown, Reverse) -> Sort *)
Theorem rule_sortdown_reverse : prule_sound (tuple_rule [PP 113; PP 33] [nSort]).
Proof.
  apply tuple2_sound. intros st out W H.
  unfold prim_sem in *.
  rewrite (transposeN_small 113) in H by (vm_compute; reflexivity).
  rewrite (transposeN_small 43) by (vm_compute; reflexivity).
  destruct st as [|a r]; cbn in H; try discriminate.
  cbn in W. apply andb_prop in W. destruct W as [Wa Wr].
  cbn. rewrite (sortdown_reverse_equiv a Wa).
  destruct (p_sort_down a) as [u| |] eqn:E; cbn in H; try discriminate.
  destruct (negb (wfb u && forallb wfb r)); try discriminate.
  try (rewrite (transposeN_small 33) in H by (vm_compute; reflexivity)); cbn in H.
  cbn. exact H.
Qed.

(* ------------------------------------------------------------------ negate of absolute value *)

Definition f_abs (e : elem) : res elem := match e with ENum z => Ok (ENum (Z.abs z)) | _ => Unspec end.
Definition f_neg (e : elem) : res elem := match e with ENum z => Ok (ENum (- z)%Z) | _ => Unspec end.
Definition f_neg_abs (e : elem) : res elem := match e with ENum z => Ok (ENum (- Z.abs z)%Z) | _ => Unspec end.

Lemma mapM_abs_neg : forall l d1 d2,
  mapM f_abs l = Ok d1 -> mapM f_neg d1 = Ok d2 -> mapM f_neg_abs l = Ok d2.
Proof.
  induction l as [|x t IH]; intros d1 d2 H1 H2; cbn in *.
  - inversion H1; subst. cbn in H2. exact H2.
  - destruct x as [z|c|bt bs bd]; cbn in H1; try discriminate.
    destruct (mapM f_abs t) as [l0| |] eqn:E1; cbn in H1; try discriminate.
    inversion H1; subst d1; clear H1. cbn in H2.
    destruct (mapM f_neg l0) as [l1| |] eqn:E2; cbn in H2; try discriminate.
    inversion H2; subst d2; clear H2.
    rewrite (IH l0 l1 eq_refl E2). reflexivity.
Qed.

Theorem abs_neg_is_neg_abs : forall a u v,
  p_perv1 PAbs a = Ok u -> p_perv1 PNeg u = Ok v -> p_neg_abs a = Ok v.
Proof.
  intros a u v H1 H2. unfold p_perv1 in H1. unfold p_neg_abs.
  destruct (aty a); try discriminate.
  change (mapM _ (adata a)) with (mapM f_abs (adata a)) in H1.
  change (mapM _ (adata a)) with (mapM f_neg_abs (adata a)).
  destruct (mapM f_abs (adata a)) as [d1| |] eqn:E1; cbn in H1; try discriminate.
  inversion H1; subst u; clear H1.
  unfold p_perv1 in H2. cbn [aty adata ash] in H2.
  change (mapM _ d1) with (mapM f_neg d1) in H2.
  destruct (mapM f_neg d1) as [d2| |] eqn:E2; cbn in H2; try discriminate.
  inversion H2; subst v; clear H2.
  rewrite (mapM_abs_neg _ _ _ E1 E2). reflexivity.
Qed.

(** rule 28: (Abs, Neg) -> NegAbs *)
Theorem rule_abs_neg : prule_sound (tuple_rule [PP 19; PP 8] [nNegAbs]).
Proof.
  apply tuple2_sound. intros st out W H.
  unfold prim_sem in *.
  rewrite (transposeN_small 19) in H by (vm_compute; reflexivity).
  rewrite (transposeN_small 120) by (vm_compute; reflexivity).
  destruct st as [|a r]; cbn in H; try discriminate.
  destruct (p_perv1 PAbs a) as [u| |] eqn:E; cbn in H; try discriminate.
  destruct (negb (wfb u && forallb wfb r)); try discriminate.
  try (rewrite (transposeN_small 8) in H by (vm_compute; reflexivity)); cbn in H.
  destruct (p_perv1 PNeg u) as [v| |] eqn:E2; cbn in H; try discriminate.
  cbn. rewrite (abs_neg_is_neg_abs a u v E E2). exact H.
Qed.

(** rule 14: (Deduplicate, Len) -> CountUnique *)
Theorem rule_dedup_len : prule_sound (tuple_rule [PP 41; PP 37] [nCountUnique]).
Proof.
  apply tuple2_sound. intros st out W H.
  unfold prim_sem in *.
  rewrite (transposeN_small 41) in H by (vm_compute; reflexivity).
  rewrite (transposeN_small 112) by (vm_compute; reflexivity).
  destruct st as [|a r]; cbn in H; try discriminate.
  unfold p_dedup in H. unfold on_top, p_count_unique.
  destruct (ash a) as [|n s]; cbn in H; try discriminate.
  destruct (negb _) in H; try discriminate.
  try (rewrite (transposeN_small 37) in H by (vm_compute; reflexivity)); cbn in H.
  cbn. exact H.
Qed.

(* ------------------------------------------------------------------ struct rules *)

(** PopConst: a literal followed by pop *)
Theorem rule_pop_const : prule_sound r_pop_const.
Proof.
  intros ns k new H st out R. unfold r_pop_const in H.
  destruct ns as [|n1 ns]; try discriminate. destruct n1; try discriminate.
  destruct ns as [|n2 ns]; try discriminate. destruct n2; try discriminate.
  destruct id as [|p]; try discriminate.
  destruct p as [p|p|]; try discriminate. destruct p as [p|p|]; try discriminate.
  destruct p as [p|p|]; try discriminate.
  inversion H; subst k new; clear H.
  cbn [firstn run] in R. cbn.
  unfold node_step in R.
  destruct (negb (forallb wfb st)); cbn in R; try discriminate.
  destruct (sval_arr v) as [x| |]; cbn in R; try discriminate.
  destruct (negb _) in R; cbn in R; try discriminate.
  unfold prim_sem in R. try (rewrite (transposeN_small 4) in R by (vm_compute; reflexivity)).
  cbn in R. exact R.
Qed.

Lemma iter_transpose_add : forall x y a,
  Nat.iter y p_transpose (Nat.iter x p_transpose a) = Nat.iter (x + y) p_transpose a.
Proof.
  intros x y a. induction y as [|y IH].
  - rewrite Nat.add_0_r. reflexivity.
  - rewrite Nat.add_succ_r.
    change (p_transpose (Nat.iter y p_transpose (Nat.iter x p_transpose a)) = p_transpose (Nat.iter (x + y) p_transpose a)).
    f_equal. exact IH.
Qed.

Lemma transposeN_of_n : forall n, (0 <= n)%Z -> transposeN_of (Z.to_N (T0 + n)) = Some n.
Proof.
  intros n H. unfold transposeN_of.
  assert (L : (T50 <=? Z.to_N (T0 + n))%N = true).
  { apply N.leb_le. unfold T50, T0. lia. }
  rewrite L. f_equal. rewrite Z2N.id; unfold T0 in *; lia.
Qed.

Lemma transposeN_of_47 : transposeN_of 47 = None.
Proof. small_id. Qed.

(** semantic content of TransposeOpt: TransposeN a; TransposeN b = TransposeN (a+b) for all a b >= 0,
    with Transpose = TransposeN 1 *)
Theorem transposeN_compose : forall x y st out, (0 <= x)%Z -> (0 <= y)%Z ->
  (st' <- on_top (fun a => Ok (Nat.iter (Z.to_nat x) p_transpose a)) st ;;
   on_top (fun a => Ok (Nat.iter (Z.to_nat y) p_transpose a)) st') = Ok out ->
  on_top (fun a => Ok (Nat.iter (Z.to_nat (x + y)) p_transpose a)) st = Ok out.
Proof.
  intros x y st out Hx Hy H. destruct st as [|a r]; cbn in *; try discriminate.
  rewrite iter_transpose_add in H. rewrite Z2Nat.inj_add by lia. exact H.
Qed.

Lemma node_step_prim : forall id a o st out, node_step (Prim id a o) st = Ok out ->
  forallb wfb st = true /\ prim_sem id st = Ok out.
Proof.
  intros id a o st out H. pose proof (step_wf _ _ _ H) as W. split; auto.
  unfold node_step in H. rewrite W in H. exact H.
Qed.

Lemma prim_sem_transposeN : forall id x st, transposeN_of id = Some x ->
  prim_sem id st = if (0 <=? x)%Z then on_top (fun a => Ok (Nat.iter (Z.to_nat x) p_transpose a)) st else Unspec.
Proof. intros id x st H. unfold prim_sem. rewrite H. reflexivity. Qed.

Lemma prim_sem_47 : forall st, prim_sem 47 st = on_top (fun a => Ok (Nat.iter 1 p_transpose a)) st.
Proof.
  intros st. unfold prim_sem. rewrite transposeN_of_47. destruct st as [|a r]; reflexivity.
Qed.

Lemma run_transposeN : forall n st, (0 <= n)%Z -> forallb wfb st = true ->
  run [nTransposeN n] st = (st' <- on_top (fun a => Ok (Nat.iter (Z.to_nat n) p_transpose a)) st ;; Ok st').
Proof.
  intros n st Hn W. cbn [run]. unfold nTransposeN, node_step. rewrite W. cbn [negb].
  rewrite (prim_sem_transposeN _ n) by (apply transposeN_of_n; auto).
  apply Z.leb_le in Hn. rewrite Hn. reflexivity.
Qed.

Lemma finish_t : forall x y st st1 out, (0 <= x)%Z -> (0 <= y)%Z ->
  on_top (fun a => Ok (Nat.iter (Z.to_nat x) p_transpose a)) st = Ok st1 ->
  on_top (fun a => Ok (Nat.iter (Z.to_nat y) p_transpose a)) st1 = Ok out ->
  (st' <- on_top (fun a => Ok (Nat.iter (Z.to_nat (x + y)) p_transpose a)) st ;; Ok st') = Ok out.
Proof.
  intros x y st st1 out Hx Hy S1 S2.
  rewrite (transposeN_compose x y st out Hx Hy); [reflexivity|].
  rewrite S1. cbn. exact S2.
Qed.

Theorem rule_transpose : prule_sound r_transpose.
Proof.
  intros ns k new H st out R. unfold r_transpose in H.
  destruct ns as [|n1 ns]; try discriminate. destruct n1 as [|i1 a1 o1| | | | | | | | | | | | | | | | | | | | | |]; try discriminate.
  destruct ns as [|n2 ns]; try discriminate. destruct n2 as [|i2 a2 o2| | | | | | | | | | | | | | | | | | | | | |]; try discriminate.
  cbn [firstn] in R.
  assert (K : k = 2%nat).
  { destruct (N.eqb i1 47 && N.eqb i2 47); [inversion H; auto|].
    destruct (transposeN_of i1); try discriminate.
    destruct (N.eqb i2 47); [inversion H; auto|].
    destruct (transposeN_of i2); try discriminate. inversion H; auto. }
  subst k. cbn [firstn run] in R.
  destruct (node_step (Prim i1 a1 o1) st) as [st1| |] eqn:S1; cbn in R; try discriminate.
  destruct (node_step (Prim i2 a2 o2) st1) as [st2| |] eqn:S2; cbn in R; try discriminate.
  inversion R; subst st2; clear R.
  apply node_step_prim in S1. destruct S1 as [W S1].
  apply node_step_prim in S2. destruct S2 as [W1 S2].
  destruct (N.eqb i1 47 && N.eqb i2 47) eqn:B.
  - apply andb_prop in B. destruct B as [B1 B2]. apply N.eqb_eq in B1, B2. subst i1 i2.
    inversion H; subst new; clear H.
    rewrite prim_sem_47 in S1, S2.
    rewrite run_transposeN by (auto; lia).
    exact (finish_t 1 1 st st1 out ltac:(lia) ltac:(lia) S1 S2).
  - destruct (transposeN_of i1) as [x|] eqn:T1; try discriminate.
    rewrite (prim_sem_transposeN _ x) in S1 by auto.
    destruct (0 <=? x)%Z eqn:Px; try discriminate. apply Z.leb_le in Px.
    destruct (N.eqb i2 47) eqn:B2.
    + apply N.eqb_eq in B2. subst i2. inversion H; subst new; clear H.
      rewrite prim_sem_47 in S2.
      rewrite run_transposeN by (auto; lia).
      exact (finish_t x 1 st st1 out Px ltac:(lia) S1 S2).
    + destruct (transposeN_of i2) as [y|] eqn:T2; try discriminate.
      inversion H; subst new; clear H.
      rewrite (prim_sem_transposeN _ y) in S2 by auto.
      destruct (0 <=? y)%Z eqn:Py; try discriminate. apply Z.leb_le in Py.
      rewrite run_transposeN by (auto; lia).
      exact (finish_t x y st st1 out Px Py S1 S2).
Qed.

(* ------------------------------------------------------------------ the proved set *)

Definition proved : list rname :=
  [RTuple 1; RTuple 2; RTuple 3; RTuple 4; RTuple 5; RTuple 6; RTuple 14; RTuple 17; RTuple 18; RTuple 19; RTuple 20; RTuple 28;
   RTranspose; RPopConst].
(** rules of the current table that are NOT proved here (decided by the differential search only):
    PseudoIsPrime, where rules, member-of-range rules, RandomRow, the two select-by-rise/fall sort rules,
    ReplaceRand, the power rules (no reference semantics of power), AbsComplex, SquareAbs, NegAbs,
    and every hand-written Optimization except TransposeOpt and PopConst *)
Definition listed_unproved : list rname :=
  [RTuple 0; RTuple 7; RTuple 8; RTuple 9; RTuple 10; RTuple 11; RTuple 12; RTuple 13;
   RTuple 15; RTuple 16; RTuple 21; RTuple 22; RTuple 23; RTuple 24;
   RTuple 25; RTuple 26; RTuple 27;
   RByToDup; RRowsFlip; RInlineCustomInverse; RReduceTable; RReduceDepth; RReduceContent;
   RReduceConjoinInventory; RPath; RSplitBy; RAllSame; RSortedUp; RValidateType].

Definition mem_name (r : rname) (l : list rname) : bool := existsb (rname_eqb r) l.

(** every rule of the transcribed table is either proved or listed as unproved, never both *)
Lemma all_rules_accounted :
  forallb (fun o => xorb (mem_name (opt_name o) proved) (mem_name (opt_name o) listed_unproved)) unsorted_opts = true
  /\ length unsorted_opts = 43%nat
  /\ length optimizations = 43%nat.
Proof. vm_compute. auto. Qed.

(** the proved rules are sound, as they stand in the table *)
Theorem proved_rules_sound : forall o, In o unsorted_opts -> In (opt_name o) proved -> lrule_sound (snd o).
Proof.
  intros o Hi Hp.
  unfold unsorted_opts, tuple_opts, struct_opts in Hi. cbn in Hi.
  repeat (destruct Hi as [<-|Hi];
          [cbn in Hp |- *;
           first [ apply mar_sound; first [ exact rule_reverse_first | exact rule_reverse_last | exact rule_rise_first | exact rule_rise_last | exact rule_fall_last
                                          | exact rule_fall_first | exact rule_dedup_len | exact rule_sort_first | exact rule_sort_last | exact rule_sort_reverse | exact rule_sortdown_reverse | exact rule_abs_neg | exact rule_transpose
                                          | exact rule_pop_const ]
                 | exfalso; repeat (destruct Hp as [Hp|Hp]; [discriminate Hp|]); exact Hp ]|]).
  destruct Hi.
Qed.

Lemma in_rules_at : forall lv o, In o (rules_at lv) -> In o unsorted_opts.
Proof.
  intros lv o H. unfold rules_at in H. apply filter_In in H. destruct H as [H _].
  unfold optimizations in H. apply in_app_or in H.
  destruct H as [H|H]; apply filter_In in H; tauto.
Qed.

(** the optimiser's loop on a run: if it applied only proved rules, the optimised run refines the original *)
Theorem optimize_run_sound : forall fuel lv ns used ns',
  fix_rules fuel (rules_at lv) ns = Some (used, ns') ->
  incl used proved ->
  forall st out, run ns st = Ok out -> run ns' st = Ok out.
Proof.
  intros fuel lv ns used ns' H I st out R.
  eapply fix_rules_sound; eauto.
  intros o Hi Hu. apply proved_rules_sound; [eapply in_rules_at; eauto|apply I; auto].
Qed.

(* ------------------------------------------------------------------ Node::push *)

(** inlining after an integer literal: where the model computes the inlined literal, the reference
    semantics of the primitive gives the same value (length, reverse, transpose, sort of a scalar) *)
Theorem push_inline_sound : forall id a o z z' st,
  inlinable id = true -> inline_val id (SInt z) = SInt z' ->
  run [Push (SInt z); Prim id a o] st = run [Push (SInt z')] st.
Proof.
  intros id a o z z' st I V. unfold inline_val in V.
  cbn [run]. unfold node_step at 1 3. destruct (negb (forallb wfb st)) eqn:W; [reflexivity|].
  cbn [sval_arr bind]. unfold node_step.
  assert (W2 : forall y, negb (forallb wfb (num y :: st)) = false).
  { intros y. cbn. apply negb_false_iff in W. rewrite W. reflexivity. }
  rewrite W2.
  destruct (N.eqb id 37) eqn:E37.
  - apply N.eqb_eq in E37. subst id. inversion V; subst z'. reflexivity.
  - destruct (existsb (N.eqb id) [33; 47; 43]%N) eqn:E; try discriminate.
    inversion V; subst z'. cbn in E.
    destruct (N.eqb id 33) eqn:E33; [apply N.eqb_eq in E33; subst id; reflexivity|].
    destruct (N.eqb id 47) eqn:E47; [apply N.eqb_eq in E47; subst id; reflexivity|].
    destruct (N.eqb id 43) eqn:E43; [apply N.eqb_eq in E43; subst id; reflexivity|].
    discriminate.
Qed.

(* ------------------------------------------------------------------ fused primitives: tie and tied extremes *)

(** The semantics of a fused primitive is a function of the array alone: the sortedness marks an
    implementation value carries are not an input of [prim_sem].  The correspondence check runs the
    real fused primitive on marked and unmarked copies of arrays with tied extremes and compares
    with [prim_sem]: 0 = agreement. *)
Definition fcase_code (c : N * arr * option arr) : N :=
  let '(id, a, expect) := c in
  match prim_sem id [a], expect with
  | Ok [v], Some e => if arr_eqb v e then 0%N else 1%N
  | Err, None => 0%N
  | Unspec, _ => 2%N
  | _, _ => 1%N end.
Fixpoint fcodes_from (i : N) (l : list (N * arr * option arr)) : list (N * N) :=
  match l with [] => [] | c :: t =>
    let k := fcase_code c in
    if N.eqb k 0 then fcodes_from (i + 1)%N t else (i, k) :: fcodes_from (i + 1)%N t end.

(** tied extremes: on [1 2 3 3] (ascending, maximum repeated) and [3 3 1 1] (descending, both
    repeated) the four fused index primitives give the leftmost / rightmost extremal row, exactly
    as first / last of rise / fall do *)
Example tied_extremes :
  let up := Arr TNum [4%nat] [ENum 1; ENum 2; ENum 3; ENum 3] in
  let dn := Arr TNum [4%nat] [ENum 3; ENum 3; ENum 1; ENum 1] in
  let r2 := Arr TNum [3%nat; 2%nat] [ENum 3; ENum 4; ENum 1; ENum 2; ENum 3; ENum 4] in
  map (fun a => (run [nFall; nFirst] [a], run [nRise; nLast] [a], run [nRise; nFirst] [a], run [nFall; nLast] [a])) [up; dn; r2] =
  map (fun a => (run [nFirstMaxIndex] [a], run [nLastMaxIndex] [a], run [nFirstMinIndex] [a], run [nLastMinIndex] [a])) [up; dn; r2]
  /\ run [nFirstMaxIndex] [up] = Ok [num 2] /\ run [nLastMaxIndex] [up] = Ok [num 3]
  /\ run [nFirstMinIndex] [dn] = Ok [num 2] /\ run [nLastMinIndex] [dn] = Ok [num 3]
  /\ run [nFirstMaxIndex] [r2] = Ok [num 0] /\ run [nLastMaxIndex] [r2] = Ok [num 2].
Proof. vm_compute. auto 10. Qed.

(* ------------------------------------------------------------------ records of repaired defects *)

(** before fix commit 2d75a21: `first rise` of an empty list fails in the reference semantics while
    the fused primitive gave 0 (the rewrite turned a failing program into a succeeding one) *)
Theorem first_rise_empty_refuted_pre :
  let a := Arr TNum [0%nat] [] in
  (u <- p_rise a ;; p_first None u) = Err /\ p_first_index false row_le a = Ok (num 0).
Proof. vm_compute. auto. Qed.
(** ... and in the current model both fail *)
Theorem first_rise_empty_agrees :
  let st := [Arr TNum [0%nat] []] in
  run [nRise; nFirst] st = Err /\ run [nFirstMinIndex] st = Err.
Proof. vm_compute. auto. Qed.

(** before fix commit 1f3e8d8: `last rise` of [1 2] (a list marked as sorted ascending) is 1, the
    fused LastMaxIndex gave 0; the current model gives 1 *)
Theorem last_rise_sorted_refuted_pre :
  let a := Arr TNum [2%nat] [ENum 1; ENum 2] in
  (u <- p_rise a ;; p_last None u) = Ok (num 1) /\ p_last_max_index_pre true a = Ok (num 0) /\
  p_last_index row_le a = Ok (num 1).
Proof. vm_compute. auto. Qed.

(** non-vacuity: the rules fire and the runs succeed on a 3x2 array *)
Example opt_nonvacuous :
  let a := Arr TNum [3%nat; 2%nat] [ENum 5; ENum 1; ENum 2; ENum 7; ENum 2; ENum 0] in
  let ns := [nReverse; nFirst; nTranspose; nTranspose; nDup; nRise; nFirst; Push (SInt 4); nPop] in
  exists used ns',
    fix_rules 20 (rules_at Full) ns = Some (used, ns') /\ incl used proved /\
    used = [RTuple 1; RTuple 3; RTranspose; RPopConst] /\
    ns' = [nLast; nTransposeN 2; nDup; nFirstMinIndex] /\
    run ns [a] = Ok [num 1; Arr TNum [2%nat] [ENum 2; ENum 0]] /\
    run ns' [a] = Ok [num 1; Arr TNum [2%nat] [ENum 2; ENum 0]].
Proof.
  eexists. eexists. split; [vm_compute; reflexivity|].
  split; [intros x Hx; repeat (destruct Hx as [<-|Hx]; [vm_compute; tauto|]); destruct Hx|].
  vm_compute. auto 10.
Qed.
