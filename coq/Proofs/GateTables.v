(** C20 - the tables regenerated from the code on every run (Gen/Purity.v) agree with the hand
    classification the model and the proofs use.  Everything here is a complete enumeration of a
    finite table, decided by vm_compute. *)
From Coq Require Import List Arith NArith Bool String.
From UV Require Import Model.Node Model.Gate Gen.Purity.
Import ListNotations.

Definition gen_tbl : list (N * pinfo) := map (fun x => (fst x, snd (snd x))) gen_prims.
Definition gen_lprim : N -> pinfo := lprim_of gen_tbl.
Definition gen_lmod : modk -> purity := lmod_of gen_tbl.
Definition label_of (op : string) : option purity := assoc op gen_named.
Definition is_some {A} (o : option A) : bool := match o with Some _ => true | None => false end.

(** the hand classification of the modifier kinds (Gate.modk_purity) is the implementation's purity()
    for every modifier primitive and every implementation modifier *)
Lemma gen_mods_ok : forallb (fun mp => purity_eqb (gen_lmod (fst mp)) (snd mp)) gen_mods = true.
Proof. vm_compute. reflexivity. Qed.

(** no system function is labelled Pure: each one is therefore refused by is_pure and by matches_nodes
    in the default modes *)
Lemma sysops_never_pure : forallb (fun np => negb (purity_eqb (snd np) Pure)) gen_sysops = true.
Proof. vm_compute. reflexivity. Qed.
Lemma pure_prims_not_sys :
  forallb (fun e => negb (pi_sys (snd (snd e)) && purity_eqb (pi_pur (snd (snd e))) Pure)) gen_prims = true.
Proof. vm_compute. reflexivity. Qed.

(** every system function has a row in effects_of and a label *)
Lemma effects_cover_sysops :
  forallb (fun np => is_some (assoc (fst np) effects_of) && is_some (label_of (fst np))) gen_sysops = true.
Proof. vm_compute. reflexivity. Qed.

(** each row of effects_of respects the label of its operation in the code as it stands: a Pure
    operation calls nothing but ambient methods, an Impure one only read-only methods.  No exceptions. *)
Definition row_ok (row : string * list string) : bool :=
  match label_of (fst row) with
  | Some p => label_ok p (snd row)
  | None => false end.
Lemma effects_respect_labels : forallb row_ok effects_of = true.
Proof. vm_compute. reflexivity. Qed.

(** every trait method has a class; the methods SafeSys overrides are exactly the documented
    in-memory ones; every other method is confined (denies, is benign, or composes confined ones) *)
Lemma methods_classified : forallb (fun m => is_some (method_class (fst m))) trait_methods = true.
Proof. vm_compute. reflexivity. Qed.
Lemma safe_overrides_match :
  forallb (fun m => smem m safe_overrides) safe_overridden && forallb (fun m => smem m safe_overridden) safe_overrides = true.
Proof. vm_compute. reflexivity. Qed.
Lemma safe_backend_confined : forallb (method_confined trait_methods) trait_methods = true.
Proof. vm_compute. reflexivity. Qed.

(** no default body touches the host: the scan of every default body for file-system probes
    (exists, is_file, metadata, read_dir, canonicalize ...), std::fs / env / process / net / io /
    thread / time, clocks, stdin/stdout/stderr, print macros and unsafe finds nothing, except in the
    two listed clock / time-zone defaults; and every default that is neither a denial nor a
    composition has exactly its listed constant text.  A backend that overrides nothing (and SafeSys,
    whose overrides are the in-memory ones) therefore makes no host call but those two. *)
Lemma defaults_host_free :
  forallb (fun mt => match snd mt with [] => true | _ => smem (fst mt) host_reading_defaults end) default_host_tokens = true.
Proof. vm_compute. reflexivity. Qed.
Lemma defaults_bodies_listed :
  forallb (fun nb => smem (fst nb) host_reading_defaults && negb (smem (fst nb) (map fst benign_bodies)) ||
                     match assoc (fst nb) benign_bodies with Some b => String.eqb b (snd nb) | None => false end)
          default_other_bodies = true.
Proof. vm_compute. reflexivity. Qed.
Lemma defaults_cover_trait :
  forallb (fun m => match snd m with DRequired => true | _ => is_some (assoc (fst m) default_host_tokens) end) trait_methods = true.
Proof. vm_compute. reflexivity. Qed.

(** the property-level statement about SafeSys drawn from the three tables: a trait method that
    changes state and is not one of SafeSys's in-memory overrides has a default body that answers
    "not supported", is a listed no-op, or only composes such methods *)
Theorem safe_backend_denies : forall m d, In (m, d) trait_methods ->
  method_class m = Some Changing -> smem m safe_overrides = false ->
  match d with
  | DErr => True
  | DOther => smem m benign_defaults = true
  | DComp _ => method_confined trait_methods (m, d) = true
  | DRequired => False end.
Proof.
  intros m d Hin Hc Hs.
  pose proof safe_backend_confined as H. rewrite forallb_forall in H. specialize (H (m, d) Hin).
  destruct d.
  - unfold method_confined in H. rewrite Hs in H. cbn [orb] in H. discriminate.
  - exact I.
  - exact H.
  - unfold method_confined in H. rewrite Hs in H. cbn [orb] in H. exact H.
Qed.

(** RECORD of the labelling defects found and repaired (fix commits 1cead72, d78a439, 06086d8):
    with the labels of the code before those commits the four rows violated their label; with the
    regenerated labels they satisfy it. *)
Lemma labels_refuted_pre : forall op p, In (op, p) labels_pre ->
  label_ok p (effects op) = false.
Proof.
  intros op p H. cbn in H.
  repeat (destruct H as [H | H]; [inversion H; subst; vm_compute; reflexivity|]). contradiction.
Qed.
Lemma labels_repaired : forall op, In op label_exceptions_pre -> row_ok (op, effects op) = true.
Proof.
  intros op H. cbn in H.
  repeat (destruct H as [H | H]; [subst; vm_compute; reflexivity|]). contradiction.
Qed.
