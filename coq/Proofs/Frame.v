(** C02 / C11: corollaries of the frame theorem [P_all]. *)
From Coq Require Import List ZArith NArith Bool Lia PeanoNat.
From UV Require Import Model.Node Model.Sig Model.Exec Proofs.SimBase Proofs.SigMono Proofs.SigSound.
Import ListNotations.

Section Frame.
  Variable pknown : N -> list sval -> bool.
  Variable psem : N -> option (list sval) -> list sval -> option (list sval).
  Variable arrsem : bool -> list sval -> option sval.
  Variable unpacksem : nat -> bool -> sval -> option (list sval).
  Variable fmtsem : list sval -> sval.
  Variable asm : list node.
  Notation exec := (Exec.exec pknown psem arrsem unpacksem fmtsem asm).
  Notation tree_ok := (tree_ok asm).
  Notation asm_ok := (asm_ok asm).
  Notation framed_at := (framed_at pknown psem arrsem unpacksem fmtsem asm).

  Lemma stored_ok_self n e0 : vnode 0 n (vs0, vs0) = Some e0 -> stored_ok (env_sig e0) n.
  Proof. intros H. exists e0. split; auto. exists 0. repeat split; lia. Qed.

  (** The frame theorem: a function whose inferred signature is |a.o (under: ua.uo), run on any stack
      holding at least a values, either fails or consumes exactly the top a values and produces o,
      leaving every value beneath untouched - and at the moment of a failure the values beneath are
      untouched too; fill stack, fill boundaries and call depth are restored in both cases. *)
  Theorem sig_sound : asm_ok -> forall n sg, tree_ok n -> node_sig n = Some sg ->
    forall fuel s, sa sg <= length (stk s) -> sua sg <= length (und s) ->
    match exec fuel n s with
    | Ok s' => exists outs uouts,
        stk s' = outs ++ skipn (sa sg) (stk s) /\ length outs = so sg /\
        und s' = uouts ++ skipn (sua sg) (und s) /\ length uouts = suo sg /\ hid s' = hid s
    | Err _ s' => exists j uj,
        stk s' = j ++ skipn (sa sg) (stk s) /\ und s' = uj ++ skipn (sua sg) (und s) /\ hid s' = hid s
    | OOF | Unk => True end.
  Proof.
    intros HA n sg Ht Hs fuel. unfold node_sig in Hs.
    destruct (vnode 0 n (vs0, vs0)) as [e0|] eqn:E; [|discriminate]. inversion Hs; subst.
    apply (framed_of_P pknown psem arrsem unpacksem fmtsem asm fuel (env_sig e0) n); auto.
    - apply P_all; auto.
    - apply stored_ok_self; auto.
  Qed.

  (** a whole program (no under-signature) leaves nothing in the hidden context stack *)
  Corollary root_leaves_no_context : asm_ok -> forall n sg, tree_ok n -> node_sig n = Some sg ->
    sua sg = 0 -> suo sg = 0 ->
    forall fuel s s', sa sg <= length (stk s) -> exec fuel n s = Ok s' -> und s' = und s.
  Proof.
    intros HA n sg Ht Hs U1 U2 fuel s s' Hl Hx.
    pose proof (sig_sound HA n sg Ht Hs fuel s Hl ltac:(lia)) as H. rewrite Hx in H.
    destruct H as (outs & uouts & _ & _ & E & L & _). rewrite U2 in L. destruct uouts; [|discriminate].
    rewrite E, U1. reflexivity.
  Qed.

  (** the run-time check of exec_with_frame_span can never fire for a checked function *)
  Corollary frame_check_passes : asm_ok -> forall body sg, tree_ok body -> stored_ok sg body ->
    forall fuel s s', sa sg <= length (stk s) -> sua sg <= length (und s) ->
    exec fuel body s = Ok s' ->
    (Z.of_nat (length (stk s')) - Z.of_nat (length (stk s)) = Z.of_nat (so sg) - Z.of_nat (sa sg))%Z.
  Proof.
    intros HA body sg Tb Ob fuel s s' H1 H2 Hx.
    pose proof (framed_of_P pknown psem arrsem unpacksem fmtsem asm fuel sg body
                  (P_all pknown psem arrsem unpacksem fmtsem asm HA fuel) HA Tb Ob s H1 H2) as H.
    rewrite Hx in H. destruct H as (outs & uouts & E & L & _).
    rewrite E, app_length, skipn_length. lia.
  Qed.

  (** * try is all-or-nothing (C11) *)
  Definition try_targs (sf sh : sig) : nat := sa (fst (try_sig [sf; sh])).
  Definition try_takes (sf sh : sig) : bool :=
    snd (try_sig [sf; sh]) && Nat.eqb (sa sh + (so (fst (try_sig [sf; sh])) - so sh)) (try_targs sf sh + 1).
  Definition try_excess (sf sh : sig) : nat :=
    Z.to_nat (Z.max 0 ((Z.of_nat (so sh) - Z.of_nat (sa sh)) -
                       (Z.of_nat (so (fst (try_sig [sf; sh]))) - Z.of_nat (try_targs sf sh)))).
  (** the state in which the handler starts: the ORIGINAL state, with the error value slipped in
      beneath the try's arguments when the handler asks for it (and the excess deepest arguments dropped) *)
  Definition handler_state (sf sh : sig) (s : rt) : rt :=
    set_stk s (remove_n (try_excess sf sh) (try_targs sf sh)
                 (if try_takes sf sh then insert_at (try_targs sf sh) errval (stk s) else stk s)).

  Theorem try_rollback : asm_ok -> forall sf f sh g, tree_ok (Mod MTry [(sf, f); (sh, g)]) ->
    forall fuel s c s', try_targs sf sh <= length (stk s) ->
    exec fuel f s = Err c s' -> c = false ->
    exec (S fuel) (Mod MTry [(sf, f); (sh, g)]) s = exec fuel g (handler_state sf sh s).
  Proof.
    intros HA sf f sh g Ht fuel s c s' Hl Hx Hc. subst c.
    cbn [SigSound.tree_ok fst snd] in Ht. destruct Ht as (_ & HnoU & _ & Tf & Of & _).
    specialize (HnoU eq_refl). inversion HnoU as [|? ? [U1 U2] _]; subst. cbn [fst] in *.
    unfold handler_state, try_takes, try_excess, try_targs in *.
    rewrite try_sig2 in *. cbn [fst snd] in *. unfold sig2 in *. cbn [sa so] in *.
    set (mo := Nat.max (so sf) (so sh)) in *.
    set (targs := Nat.max (sa sf + (mo - so sf)) (sa sh + (mo - so sh) - 1)) in *.
    assert (Hfa : sa sf <= targs) by (unfold targs; lia).
    pose proof (framed_of_P pknown psem arrsem unpacksem fmtsem asm fuel sf f
                  (P_all pknown psem arrsem unpacksem fmtsem asm HA fuel) HA Tf Of s ltac:(lia) ltac:(lia)) as Fr.
    rewrite Hx in Fr. destruct Fr as (j & uj & E1 & E2 & Hh).
    cbn [Exec.exec try_loop map fst snd]. unfold clean_of. rewrite try_sig2. cbn [fst snd]. unfold sig2. cbn [sa so].
    fold mo. fold targs.
    unfold need. replace (targs <=? length (stk s)) with true by (symmetry; apply Nat.leb_le; lia).
    replace (Nat.min targs (sa sf) <=? length (stk s)) with true by (symmetry; apply Nat.leb_le; lia).
    cbn [negb andb]. rewrite Hx. cbn [andb].
    rewrite E1, keep_bottom_frame by lia.
    rewrite U1 in *. rewrite E2, (keep_bottom_frame uj (und s) 0) by lia. cbn [skipn].
    unfold set_su. cbn [stk und fills fbs depth].
    assert (Hdep : (targs - sa sf <=? length (skipn (sa sf) (stk s))) = true).
    { apply Nat.leb_le. rewrite skipn_length. lia. }
    rewrite Hdep. cbn [negb]. rewrite andb_false_r. rewrite Nat.min_r by lia.
    set (takes := (Nat.max (sa sf) (sa sh - 1) <? sa sh + (mo - so sh)) && (sa sh + (mo - so sh) =? targs + 1)).
    assert (E3 : firstn (sa sf) (stk s) ++
                 (if takes then insert_at (targs - sa sf) errval (skipn (sa sf) (stk s)) else skipn (sa sf) (stk s)) =
                 (if takes then insert_at targs errval (stk s) else stk s)).
    { destruct takes; [apply insert_at_split; lia | apply firstn_skipn]. }
    cbn [set_stk stk]. rewrite E3.
    assert (Hl3 : (targs <=? length (if takes then insert_at targs errval (stk s) else stk s)) = true).
    { apply Nat.leb_le. destruct takes; auto. unfold insert_at. rewrite app_length. simpl.
      rewrite firstn_length, skipn_length. lia. }
    rewrite Hl3. cbn [negb]. rewrite andb_false_r.
    f_equal. unfold set_stk. cbn [und fills fbs depth].
    unfold hid in Hh. inversion Hh as [[H1 H2 H3]]. rewrite H1, H2, H3. reflexivity.
  Qed.

  (** * try with any number of handlers: EVERY handler starts from the original arguments *)
  Lemma insert_at_len (a r : list sval) x : insert_at (length a) x (a ++ r) = a ++ x :: r.
  Proof. unfold insert_at. rewrite firstn_app, firstn_all, Nat.sub_diag, skipn_app, skipn_all, Nat.sub_diag.
         cbn [firstn skipn app]. rewrite app_nil_r. reflexivity. Qed.
  Lemma remove_one_mid (a r : list sval) x : remove_n 1 (length a + 1) (a ++ x :: r) = a ++ r.
  Proof. unfold remove_n. replace (length a + 1 - 1) with (length a) by lia.
         rewrite firstn_app, firstn_all, Nat.sub_diag. cbn [firstn]. rewrite app_nil_r.
         rewrite skipn_app, skipn_all2 by lia. replace (length a + 1 - length a) with 1 by lia. reflexivity. Qed.

  (** the loop of algorithm::try_ at any position: [s] holds the try's arguments [T] on top (and
      beneath them the error value [e] iff the current function [f] is a handler that was given
      it); if [f] fails at any point, the NEXT function starts from exactly [T] again (with the new
      error value beneath iff it asks for it), the same values [R] beneath, the same hidden context
      stack, fill stack, fill boundaries and call depth: no trace of the failed attempt, for every
      handler, not only the first *)
  Theorem try_handler_sees_original : asm_ok ->
    forall ts any sf f sh g hs (te : bool) fuel s (T : list sval) (e : sval) (R : list sval) c s',
    tree_ok f -> stored_ok sf f -> sua sf = 0 -> suo sf = 0 ->
    length T = sa ts -> sa sf <= sa ts + (if te then 1 else 0) ->
    stk s = T ++ (if te then [e] else []) ++ R ->
    exec fuel f s = Err c s' -> c = false ->
    try_loop (exec fuel) ts any sf f ((sh, g) :: hs) te s =
    try_loop (exec fuel) ts any sh g hs (any && Nat.eqb (sa sh + (so ts - so sh)) (sa ts + 1))
      (RT (T ++ (if any && Nat.eqb (sa sh + (so ts - so sh)) (sa ts + 1) then [errval] else []) ++ R)
          (und s) (fills s) (fbs s) (depth s)).
  Proof.
    intros HA ts any sf f sh g hs te fuel s T e R c s' Tf Of U1 U2 LT Hfa Es Hx Hc. subst c.
    set (targs := sa ts) in *. set (takes := any && _).
    set (E := if te then [e] else []) in *.
    assert (LE : length E = if te then 1 else 0) by (unfold E; destruct te; reflexivity).
    assert (Ls : length (stk s) = targs + length E + length R) by (rewrite Es, !app_length; lia).
    pose proof (framed_of_P pknown psem arrsem unpacksem fmtsem asm fuel sf f
                  (P_all pknown psem arrsem unpacksem fmtsem asm HA fuel) HA Tf Of s ltac:(lia) ltac:(lia)) as Fr.
    rewrite Hx in Fr. destruct Fr as (j & uj & E1 & E2 & Hh).
    cbn [try_loop]. fold targs. unfold clean_of, need.
    set (nb := Nat.min targs (sa sf)).
    replace (nb <=? length (stk s)) with true by (symmetry; apply Nat.leb_le; unfold nb; lia).
    cbn [negb]. rewrite Hx.
    rewrite E1, keep_bottom_frame by lia.
    rewrite U1 in *. rewrite E2, (keep_bottom_frame uj (und s) 0) by lia. cbn [skipn].
    unfold set_su. cbn [stk und fills fbs depth].
    (* the stack once the stale error value is gone: the try arguments f did not take, then R *)
    assert (HB : (te && (sa sf <=? targs) && negb (targs - sa sf + 1 <=? length (skipn (sa sf) (stk s))) = false) /\
                 (if te && (sa sf <=? targs)
                  then remove_n 1 (targs - sa sf + 1) (skipn (sa sf) (stk s))
                  else skipn (sa sf) (stk s)) = skipn nb T ++ R).
    { rewrite Es. unfold E in *. destruct te; cbn [andb].
      - destruct (sa sf <=? targs) eqn:El.
        + apply Nat.leb_le in El. split.
          * apply negb_false_iff, Nat.leb_le. rewrite skipn_length, !app_length. cbn [length]. lia.
          * replace nb with (sa sf) by (unfold nb; lia).
            rewrite skipn_app. replace (sa sf - length T) with 0 by lia. cbn [skipn app].
            replace (targs - sa sf + 1) with (length (skipn (sa sf) T) + 1) by (rewrite skipn_length; lia).
            apply remove_one_mid.
        + apply Nat.leb_gt in El. split; [reflexivity|].
          replace nb with targs by (unfold nb; lia).
          rewrite skipn_app, (skipn_all2 T) by lia. replace (sa sf - length T) with 1 by lia.
          rewrite <- LT, skipn_all. reflexivity.
      - split; [reflexivity|]. replace nb with (sa sf) by (unfold nb; lia).
        cbn [app]. rewrite skipn_app. replace (sa sf - length T) with 0 by lia. reflexivity. }
    destruct HB as [HB1 HB2]. rewrite HB1.
    set (s2 := {| stk := skipn (sa sf) (stk s); und := und s; fills := fills s'; fbs := fbs s'; depth := depth s' |}).
    assert (Es2 : stk (if te && (sa sf <=? targs) then set_stk s2 (remove_n 1 (targs - sa sf + 1) (skipn (sa sf) (stk s))) else s2)
                  = skipn nb T ++ R).
    { rewrite <- HB2. destruct (te && (sa sf <=? targs)); reflexivity. }
    assert (Hrest : forall l, set_stk (if te && (sa sf <=? targs) then set_stk s2 (remove_n 1 (targs - sa sf + 1) (skipn (sa sf) (stk s))) else s2) l
                              = RT l (und s) (fills s) (fbs s) (depth s)).
    { intros l. unfold hid in Hh. inversion Hh as [[H1 H2 H3]].
      destruct (te && (sa sf <=? targs)); unfold set_stk, s2; cbn [stk und fills fbs depth]; rewrite H1, H2, H3; reflexivity. }
    fold takes. rewrite Es2.
    assert (Ldep : targs - sa sf <= length (skipn nb T ++ R)).
    { rewrite app_length, skipn_length. unfold nb. lia. }
    replace (targs - sa sf <=? length (skipn nb T ++ R)) with true by (symmetry; apply Nat.leb_le; exact Ldep).
    cbn [negb]. rewrite andb_false_r.
    rewrite Hrest. f_equal. f_equal.
    assert (Hd : targs - sa sf = length (skipn nb T)) by (rewrite skipn_length; unfold nb; lia).
    assert (Hbk : firstn nb (stk s) = firstn nb T).
    { rewrite Es, firstn_app. replace (nb - length T) with 0 by (unfold nb; lia). cbn [firstn]. apply app_nil_r. }
    rewrite Hbk. destruct takes.
    - rewrite Hd, insert_at_len. rewrite app_assoc, firstn_skipn. reflexivity.
    - rewrite app_assoc, firstn_skipn. reflexivity.
  Qed.

  (** when F succeeds, try is F followed by dropping the excess arguments *)
  Theorem try_success : forall sf f sh g fuel s s2, try_targs sf sh <= length (stk s) ->
    exec fuel f s = Ok s2 ->
    exec (S fuel) (Mod MTry [(sf, f); (sh, g)]) s =
      (let n1 := Z.to_nat (Z.max 0 ((Z.of_nat (so sf) - Z.of_nat (sa sf)) -
                    (Z.of_nat (so (fst (try_sig [sf; sh]))) - Z.of_nat (try_targs sf sh)))) in
       let dep := (try_targs sf sh + so sf) - sa sf in
       if negb (Nat.eqb n1 0) && negb (need dep s2) then Err false s2
       else Ok (set_stk s2 (remove_n n1 dep (stk s2)))).
  Proof.
    intros sf f sh g fuel s s2 Hl Hx. unfold try_targs in *. cbn [Exec.exec try_loop map fst snd]. unfold clean_of.
    unfold need at 1. replace (sa (fst (try_sig [sf; sh])) <=? length (stk s)) with true
      by (symmetry; apply Nat.leb_le; lia).
    unfold need at 1.
    replace (Nat.min (sa (fst (try_sig [sf; sh]))) (sa sf) <=? length (stk s)) with true
      by (symmetry; apply Nat.leb_le; lia).
    cbn [negb]. rewrite Hx. reflexivity.
  Qed.

  (** what a handler can observe after a failure anywhere inside F: at EVERY failure point
      the values beneath F's arguments and the hidden state are those F started with *)
  Theorem err_restores_scoped : asm_ok -> forall n sg, tree_ok n -> node_sig n = Some sg ->
    forall fuel s c s', sa sg <= length (stk s) -> sua sg <= length (und s) ->
    exec fuel n s = Err c s' ->
    (exists junk, stk s' = junk ++ skipn (sa sg) (stk s)) /\
    (exists ujunk, und s' = ujunk ++ skipn (sua sg) (und s)) /\
    fills s' = fills s /\ fbs s' = fbs s /\ depth s' = depth s.
  Proof.
    intros HA n sg Ht Hs fuel s c s' H1 H2 Hx.
    pose proof (sig_sound HA n sg Ht Hs fuel s H1 H2) as H. rewrite Hx in H.
    destruct H as (j & uj & E1 & E2 & Hh). unfold hid in Hh. inversion Hh.
    repeat split; eauto.
  Qed.
End Frame.
