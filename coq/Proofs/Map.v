(** C16 — refinement of the association-list specification by the open-addressing
    table, for EVERY hash function: invariant, simulation relation, preservation by
    insert / remove / get / has / length (with growth of the table). *)
From Coq Require Import List Arith NArith ZArith Lia Bool.
From Coq Require Import Sorting.Permutation.
From UV Require Import Model.Map Proofs.MapBase Proofs.MapProbe Proofs.MapSort.
Import ListNotations.

Section MapRefine.
Variable key : Type.
Variable val : Type.
Variable keq : key -> key -> bool.
Variable nanlike : key -> bool.
Variable hash : key -> N.
Variable he : N.
Variable ht : N.
Hypothesis keq_refl : forall k, keq k k = true.
Hypothesis keq_sym : forall a b, keq a b = keq b a.
Hypothesis keq_trans : forall a b c, keq a b = true -> keq b c = true -> keq a c = true.
Hypothesis hash_compat : forall a b, keq a b = true -> hash a = hash b.

Notation mkk := (mk key).
Notation capm := (cap key).
Notation hs := (hstart key hash).
Notation cellat := (cellat key).
Notation matches := (matches key keq).
Notation getm := (get key keq nanlike true hash).
Notation removem := (remove key keq nanlike true hash).
Notation insertm := (insert key keq hash he ht).
Notation growm := (grow key hash he ht).
Notation grow_tom := (grow_to key hash he ht).
Notation vmapk := (vmap key val).
Notation alistk := (alist key val).

(** key [k] is bound to row [i] *)
Definition binds_at (m : mkk) (k : key) (i : nat) : Prop :=
  exists p, cellat m p = Key k /\ nth p (idx m) 0 = i.

Record tpre (m : mkk) : Prop := {
  t_len : length (cells m) = capm m;
  t_distinct : forall p q k k', cellat m p = Key k -> cellat m q = Key k' -> keq k k' = true -> p = q;
  t_count : count_keys (cells m) = len m }.
(** every present key is reachable from its hash position without crossing an empty cell *)
Definition reach (m : mkk) : Prop :=
  forall p k, cellat m p = Key k ->
    exists d, d < capm m /\ p = off (capm m) (hs k (capm m)) d /\
      forall e, e < d -> cellat m (off (capm m) (hs k (capm m)) e) <> Empty.
Definition tinv (m : mkk) : Prop := tpre m /\ reach m /\ 4 * len m <= 3 * capm m.

(** what growing the table must achieve (proved in Proofs/MapGrow.v when present) *)
Definition grow_spec (m : mkk) (n : nat) : Prop :=
  let m' := grow_tom m n in
  tpre m' /\ reach m' /\ capm m' = n /\ len m' = len m /\ forall k i, binds_at m' k i <-> binds_at m k i.
Definition grow_ok : Prop := forall m n, tpre m -> capm m < n -> grow_spec m n.

Section WithGrow.
Hypothesis Hgrow : grow_ok.

Lemma matches_key : forall k c, matches k c = true -> exists k', c = Key k' /\ keq k k' = true.
Proof. intros k [| |k'] H; simpl in H; try discriminate. eauto. Qed.

Lemma hs_compat : forall a b c, keq a b = true -> hs a c = hs b c.
Proof. intros. unfold hstart. rewrite (hash_compat a b); auto. Qed.

Lemma cellat_key_lt : forall m p k, cellat m p = Key k -> p < length (cells m).
Proof. intros m p k H. apply nth_overflow_default with (d := Empty). unfold MapProbe.cellat in H. rewrite H. discriminate. Qed.

(** reachability of the keys matching [k], relative to [k]'s own hash position *)
Lemma reach_for : forall m k, reach m ->
  forall q, matches k (cellat m q) = true ->
    exists d', d' < capm m /\ q = off (capm m) (hs k (capm m)) d' /\
      forall e, e < d' -> cellat m (off (capm m) (hs k (capm m)) e) <> Empty.
Proof.
  intros m k Hr q Hm. destruct (matches_key _ _ Hm) as [k' [Hc Hk]].
  rewrite (hs_compat k k' _ Hk). apply (Hr q k' Hc).
Qed.

(** a search that gives up proves that no present key matches *)
Lemma find_none_nomatch : forall m k, tpre m -> reach m -> 0 < capm m ->
  find_loop key keq (capm m) m k (hs k (capm m)) (hs k (capm m)) = None ->
  forall q, matches k (cellat m q) = false.
Proof.
  intros m k Hp Hr Hc H q.
  assert (Hs : hs k (capm m) < capm m) by (apply start_of_lt; assumption).
  rewrite <- (off_0 (capm m) (hs k (capm m))) in H at 2 by assumption.
  destruct (find_loop_none key keq (capm m) m k (hs k (capm m)) 0) as [t [_ [Ht1 [Ht2 Ht3]]]]; auto.
  destruct (matches k (cellat m q)) eqn:Eq; auto. exfalso.
  destruct (reach_for m k Hr q Eq) as [d' [Hd' [Hq Hpath]]]. subst q.
  destruct (Nat.lt_ge_cases d' t).
  - rewrite Ht2 in Eq by lia. discriminate.
  - assert (Htc : t < capm m) by lia. specialize (Ht3 Htc).
    destruct (Nat.eq_dec t d') as [->|].
    + rewrite Ht3 in Eq. simpl in Eq. discriminate.
    + apply (Hpath t); [lia|assumption].
Qed.

Lemma cap_zero_nokey : forall m p, tpre m -> capm m = 0 -> cellat m p = Empty.
Proof.
  intros m p Hp Hc. unfold MapProbe.cellat. apply nth_overflow. rewrite (t_len _ Hp). lia.
Qed.

(** ---- get *)
Lemma get_some : forall m k i, tinv m -> getm m k = Some i ->
  exists k', binds_at m k' i /\ keq k k' = true.
Proof.
  intros m k i [Hp [Hr Hl]] H. unfold get in H.
  destruct (length (cells m) =? 0); try discriminate.
  rewrite get_loop_find in H.
  destruct (find_loop key keq (capm m) m k (hs k (capm m)) (hs k (capm m))) as [p|] eqn:E; try discriminate.
  simpl in H. inversion H; subst.
  apply find_loop_sound in E; auto. destruct (matches_key _ _ E) as [k' [Hc Hk]].
  exists k'. split; auto. exists p. auto.
Qed.

Lemma get_none : forall m k, tinv m -> getm m k = None ->
  forall k' i, binds_at m k' i -> keq k k' = false.
Proof.
  intros m k [Hp [Hr Hl]] H k' i [p [Hc _]]. unfold get in H.
  assert (Hlt := cellat_key_lt _ _ _ Hc).
  destruct (Nat.eqb_spec (length (cells m)) 0); try lia.
  rewrite get_loop_find in H.
  destruct (find_loop key keq (capm m) m k (hs k (capm m)) (hs k (capm m))) as [q|] eqn:E; try discriminate.
  assert (Hcap : 0 < capm m) by (rewrite <- (t_len _ Hp); lia).
  assert (Hn := find_none_nomatch m k Hp Hr Hcap E p). rewrite Hc in Hn. exact Hn.
Qed.

(** ---- remove *)
Definition tombed (m : mkk) (p : nat) : mkk :=
  MK (set_nth p Tomb (cells m)) (set_nth p 0 (idx m)) (len m - 1).

Lemma remove_spec : forall m k, tinv m ->
  (removem m k = (m, None) /\ forall k' i, binds_at m k' i -> keq k k' = false) \/
  (exists p k', cellat m p = Key k' /\ keq k k' = true /\
     removem m k = (tombed m p, Some (nth p (idx m) 0))).
Proof.
  intros m k [Hp [Hr Hl]]. unfold remove. rewrite rem_loop_find.
  destruct (find_loop key keq (capm m) m k (hs k (capm m)) (hs k (capm m))) as [p|] eqn:E.
  - right. apply find_loop_sound in E; auto. destruct (matches_key _ _ E) as [k' [Hc Hk]].
    exists p, k'. auto.
  - left. split; auto. intros k' i [p [Hc _]].
    destruct (Nat.eq_dec (capm m) 0) as [H0|H0].
    + rewrite (cap_zero_nokey m p Hp H0) in Hc. discriminate.
    + assert (Hn := find_none_nomatch m k Hp Hr ltac:(lia) E p). rewrite Hc in Hn. exact Hn.
Qed.

Lemma cellat_set : forall m p c is n q,
  cellat (MK (set_nth p c (cells m)) is n) q =
  if (q =? p) && (p <? length (cells m)) then c else cellat m q.
Proof.
  intros. unfold MapProbe.cellat. simpl.
  destruct (Nat.eqb_spec q p) as [->|Hne]; simpl.
  - destruct (Nat.ltb_spec p (length (cells m))).
    + apply nth_set_nth_eq. assumption.
    + rewrite !nth_overflow; auto. rewrite set_nth_length. assumption.
  - apply nth_set_nth_neq. assumption.
Qed.

(** ---- insert_impl under the invariant *)
Lemma ins_loop_ok : forall m k index, tinv m -> 0 < capm m ->
  exists m' r, ins_loop key keq (capm m) m k index (hs k (capm m)) (hs k (capm m)) = Some (m', r) /\
    ins_post key keq m k index (hs k (capm m)) (Some (m', r)).
Proof.
  intros m k index [Hp [Hr Hl]] Hc.
  assert (Hs : hs k (capm m) < capm m) by (apply start_of_lt; assumption).
  assert (H := ins_loop_spec key keq (capm m) m k index (hs k (capm m)) 0).
  simpl in H. rewrite off_0 in H by assumption.
  specialize (H Hs Hc eq_refl (t_len _ Hp) (reach_for m k Hr) ltac:(intros; lia)).
  destruct (ins_loop key keq (capm m) m k index (hs k (capm m)) (hs k (capm m))) as [[m' r]|].
  - eauto.
  - exfalso. simpl in H.
    assert (Hfull : count_keys (cells m) = length (cells m)).
    { apply count_keys_full. intros p Hlt. rewrite (t_len _ Hp) in Hlt.
      destruct (off_cover (capm m) (hs k (capm m)) p Hs Hlt) as [d [Hd ->]]. apply H. assumption. }
    rewrite (t_count _ Hp), (t_len _ Hp) in Hfull. lia.
Qed.

(** the table after [put] *)
Lemma put_cap : forall m p k index b, capm (put key m p k index b) = capm m.
Proof. intros. unfold put, cap. simpl. apply set_nth_length. Qed.

Lemma put_fresh_pre : forall m p k index, tpre m -> p < capm m ->
  is_keyb (cellat m p) = false -> (forall q, matches k (cellat m q) = false) ->
  tpre (put key m p k index true).
Proof.
  intros m p k index Hp Hlt Hph Hno. constructor.
  - rewrite put_cap. simpl. rewrite set_nth_length. apply (t_len _ Hp).
  - intros a b k1 k2 Ha Hb Hk. unfold put in Ha, Hb. rewrite cellat_set in Ha, Hb.
    rewrite (t_len _ Hp) in Ha, Hb. replace (p <? capm m) with true in * by (symmetry; apply Nat.ltb_lt; assumption).
    rewrite andb_true_r in Ha, Hb.
    destruct (Nat.eqb_spec a p), (Nat.eqb_spec b p); subst; auto.
    + inversion Ha; subst. specialize (Hno b). rewrite Hb in Hno. simpl in Hno. congruence.
    + inversion Hb; subst. specialize (Hno a). rewrite Ha in Hno. simpl in Hno.
      rewrite keq_sym in Hk. congruence.
    + apply (t_distinct _ Hp a b k1 k2); auto.
  - unfold put. simpl.
    assert (Hc := count_keys_set_nth key p (Key k) (cells m) ltac:(rewrite (t_len _ Hp); assumption)).
    unfold key_weight in Hc. fold (cellat m p) in Hc. rewrite Hph in Hc. simpl in Hc.
    rewrite <- (t_count _ Hp). lia.
Qed.

Lemma put_replace_pre : forall m p k k0 index, tpre m ->
  cellat m p = Key k0 -> keq k k0 = true ->
  tpre (put key m p k index false).
Proof.
  intros m p k k0 index Hp Hc Hk.
  assert (Hlt : p < capm m) by (rewrite <- (t_len _ Hp); eapply cellat_key_lt; eauto).
  constructor.
  - rewrite put_cap. simpl. rewrite set_nth_length. apply (t_len _ Hp).
  - intros a b k1 k2 Ha Hb Hkk. unfold put in Ha, Hb. rewrite cellat_set in Ha, Hb.
    rewrite (t_len _ Hp) in Ha, Hb. replace (p <? capm m) with true in * by (symmetry; apply Nat.ltb_lt; assumption).
    rewrite andb_true_r in Ha, Hb.
    destruct (Nat.eqb_spec a p), (Nat.eqb_spec b p); subst; auto.
    + inversion Ha; subst. apply (t_distinct _ Hp p b k0 k2); auto.
      apply keq_trans with k1; auto. rewrite keq_sym. assumption.
    + inversion Hb; subst. apply (t_distinct _ Hp a p k1 k0); auto.
      apply keq_trans with k2; auto.
    + apply (t_distinct _ Hp a b k1 k2); auto.
  - unfold put. simpl.
    assert (Hcnt := count_keys_set_nth key p (Key k) (cells m) ltac:(rewrite (t_len _ Hp); assumption)).
    unfold key_weight in Hcnt. fold (cellat m p) in Hcnt. rewrite Hc in Hcnt. simpl in Hcnt.
    rewrite <- (t_count _ Hp). lia.
Qed.

(** writing a key never turns a cell into an empty one: paths stay open *)
Lemma put_reach_others : forall m p k index b q k',
  tpre m -> reach m -> q <> p -> cellat (put key m p k index b) q = Key k' ->
  exists d, d < capm m /\ q = off (capm m) (hs k' (capm m)) d /\
    forall e, e < d -> cellat (put key m p k index b) (off (capm m) (hs k' (capm m)) e) <> Empty.
Proof.
  intros m p k index b q k' Hp Hr Hne Hc. unfold put in Hc. rewrite cellat_set in Hc.
  replace (q =? p) with false in Hc by (symmetry; apply Nat.eqb_neq; assumption). simpl in Hc.
  destruct (Hr q k' Hc) as [d [Hd [Hq Hpath]]]. exists d. repeat split; auto.
  intros e He. unfold put. rewrite cellat_set.
  destruct ((off (capm m) (hs k' (capm m)) e =? p) && (p <? length (cells m))); [discriminate|]. auto.
Qed.

(** ---- growth after an insertion *)
Lemma grow_tinv : forall m, tpre m -> reach m -> 4 * len m <= 3 * capm m + 4 -> (capm m = 0 -> len m = 0) ->
  tinv (growm m) /\ len (growm m) = len m /\ forall k i, binds_at (growm m) k i <-> binds_at m k i.
Proof.
  intros m Hp Hr Hl H0. unfold grow, need_grow.
  destruct (Nat.eqb_spec (capm m) 0) as [Hc|Hc]; cbn [orb].
  - destruct (Hgrow m (Nat.max (2 * capm m) 1) Hp ltac:(lia)) as [G1 [G2 [G3 [G4 G5]]]].
    split; [split; [exact G1|split; [exact G2|rewrite G3, G4; lia]]|split; [exact G4|exact G5]].
  - destruct (Nat.ltb_spec (3 * capm m) (4 * len m)).
    + destruct (Hgrow m (Nat.max (2 * capm m) 1) Hp ltac:(lia)) as [G1 [G2 [G3 [G4 G5]]]].
      split; [split; [exact G1|split; [exact G2|rewrite G3, G4; lia]]|split; [exact G4|exact G5]].
    + split; [split; [exact Hp|split; [exact Hr|lia]]|split; [reflexivity|tauto]].
Qed.

(** ---- MapKeys::insert *)
Definition insert_new (m m' : mkk) (k : key) (index : nat) : Prop :=
  (forall k' i, binds_at m k' i -> keq k k' = false) /\ len m' = S (len m) /\
  forall k' i, binds_at m' k' i <-> (binds_at m k' i \/ (k' = k /\ i = index)).
Definition insert_old (m m' : mkk) (k : key) (index : nat) (r : option nat) : Prop :=
  exists k0 i0, binds_at m k0 i0 /\ keq k k0 = true /\ r = Some i0 /\ len m' = len m /\
  forall k' i, binds_at m' k' i <-> ((binds_at m k' i /\ keq k k' = false) \/ (k' = k /\ i = index)).

Lemma binds_put : forall m p k index b, p < capm m -> length (cells m) = capm m ->
  forall k' i, binds_at (put key m p k index b) k' i <->
    ((exists q, q <> p /\ cellat m q = Key k' /\ nth q (idx m) 0 = i) \/ (k' = k /\ i = index)).
Proof.
  intros m p k index b Hlt Hlen k' i. unfold binds_at. split.
  - intros [q [Hc Hi]]. unfold put in Hc, Hi. rewrite cellat_set in Hc. simpl in Hi.
    destruct (Nat.eqb_spec q p) as [Heq|Hne]; simpl in Hc.
    + subst q. rewrite Hlen in Hc. replace (p <? capm m) with true in Hc by (symmetry; apply Nat.ltb_lt; assumption).
      inversion Hc; subst. right. split; auto. apply nth_set_nth_eq. unfold cap in Hlt. assumption.
    + left. exists q. rewrite nth_set_nth_neq in Hi by assumption. auto.
  - intros [[q [Hne [Hc Hi]]]|[-> ->]].
    + exists q. unfold put. rewrite cellat_set. simpl.
      replace (q =? p) with false by (symmetry; apply Nat.eqb_neq; assumption). simpl.
      rewrite nth_set_nth_neq by assumption. auto.
    + exists p. unfold put. rewrite cellat_set. simpl. rewrite Nat.eqb_refl, Hlen.
      replace (p <? capm m) with true by (symmetry; apply Nat.ltb_lt; assumption). simpl.
      split; auto. apply nth_set_nth_eq. unfold cap in Hlt. assumption.
Qed.

Lemma insert_f_S : forall fuel m k index,
  insert_f key keq hash he ht (S fuel) m k index =
  match ins_loop key keq (capm (if capm m =? 0 then growm m else m)) (if capm m =? 0 then growm m else m) k index
          (hs k (capm (if capm m =? 0 then growm m else m))) (hs k (capm (if capm m =? 0 then growm m else m))) with
  | Some (m', r) => (growm m', r)
  | None => insert_f key keq hash he ht fuel (growm (if capm m =? 0 then growm m else m)) k index
  end.
Proof. reflexivity. Qed.

Lemma insert_spec : forall m k index, tinv m ->
  let '(m', r) := insertm m k index in
  tinv m' /\ ((r = None /\ insert_new m m' k index) \/ insert_old m m' k index r).
Proof.
  intros m k index Hinv. unfold insert. rewrite insert_f_S.
  (* the table has a cell to probe *)
  set (m1 := if capm m =? 0 then growm m else m).
  assert (H1 : tinv m1 /\ 0 < capm m1 /\ len m1 = len m /\ forall k i, binds_at m1 k i <-> binds_at m k i).
  { unfold m1. destruct Hinv as [Hp [Hr Hl]]. destruct (Nat.eqb_spec (capm m) 0) as [Hc|Hc].
    - destruct (grow_tinv m Hp Hr ltac:(lia) ltac:(lia)) as [G1 [G2 G3]].
      split; [exact G1|]. split; [|split; [exact G2|exact G3]].
      unfold grow, need_grow. rewrite Hc. change (0 =? 0) with true. cbn [orb].
      change (Nat.max (2 * 0) 1) with 1.
      destruct (Hgrow m 1 Hp ltac:(lia)) as [_ [_ [G _]]]. rewrite G. lia.
    - split; [split; [exact Hp|split; [exact Hr|exact Hl]]|]. split; [lia|]. split; [reflexivity|tauto]. }
  destruct H1 as [Hinv1 [Hc1 [Hlen1 Hb1]]].
  destruct (ins_loop_ok m1 k index Hinv1 Hc1) as [m2 [r [E Hpost]]].
  rewrite E. destruct Hinv1 as [Hp1 [Hr1 Hl1]].
  simpl in Hpost. destruct Hpost as [p [Hplt Hcase]].
  assert (Hs : hs k (capm m1) < capm m1) by (apply start_of_lt; assumption).
  destruct Hcase as [[-> [-> [Hph [Hno [d0 [Hd0 [Hpd Hpath]]]]]]]|[-> [-> Hm]]].
  - (* new key *)
    assert (Hpre2 := put_fresh_pre m1 p k index Hp1 Hplt Hph Hno).
    assert (Hreach2 : reach (put key m1 p k index true)).
    { intros q k' Hc. rewrite put_cap. destruct (Nat.eq_dec q p) as [->|Hne].
      - unfold put in Hc. rewrite cellat_set in Hc. rewrite Nat.eqb_refl, (t_len _ Hp1) in Hc.
        replace (p <? capm m1) with true in Hc by (symmetry; apply Nat.ltb_lt; assumption).
        simpl in Hc. inversion Hc; subst k'. exists d0. repeat split; auto.
        intros e He. unfold put. rewrite cellat_set.
        destruct ((off (capm m1) (hs k (capm m1)) e =? p) && (p <? length (cells m1))); [discriminate|auto].
      - eapply put_reach_others; eauto. }
    destruct (grow_tinv (put key m1 p k index true) Hpre2 Hreach2) as [G1 [G2 G3]].
    { rewrite put_cap. unfold put. simpl. lia. }
    { rewrite put_cap. lia. }
    split; auto. left. split; auto. split; [|split].
    + intros k' i Hb. apply Hb1 in Hb. destruct Hb as [q [Hc _]]. specialize (Hno q). rewrite Hc in Hno. exact Hno.
    + rewrite G2. unfold put. simpl. lia.
    + intros k' i. rewrite G3. rewrite binds_put by (auto; apply (t_len _ Hp1)). rewrite <- Hb1.
      split.
      * intros [[q [_ [Hc Hi]]]|H]; [left; exists q; auto|right; auto].
      * intros [[q [Hc Hi]]|H]; [|right; auto]. left. exists q. repeat split; auto.
        intros ->. rewrite Hc in Hph. discriminate.
  - (* the key is there already *)
    destruct (matches_key _ _ Hm) as [k0 [Hc0 Hk0]].
    assert (Hpre2 := put_replace_pre m1 p k k0 index Hp1 Hc0 Hk0).
    assert (Hreach2 : reach (put key m1 p k index false)).
    { intros q k' Hc. rewrite put_cap. destruct (Nat.eq_dec q p) as [->|Hne].
      - unfold put in Hc. rewrite cellat_set in Hc. rewrite Nat.eqb_refl, (t_len _ Hp1) in Hc.
        replace (p <? capm m1) with true in Hc by (symmetry; apply Nat.ltb_lt; assumption).
        simpl in Hc. inversion Hc; subst k'.
        destruct (Hr1 p k0 Hc0) as [d [Hd [Hq Hpath]]]. rewrite <- (hs_compat k k0 _ Hk0) in Hq, Hpath.
        exists d. repeat split; auto.
        intros e He. unfold put. rewrite cellat_set.
        destruct ((off (capm m1) (hs k (capm m1)) e =? p) && (p <? length (cells m1))); [discriminate|auto].
      - eapply put_reach_others; eauto. }
    destruct (grow_tinv (put key m1 p k index false) Hpre2 Hreach2) as [G1 [G2 G3]].
    { rewrite put_cap. unfold put. simpl. lia. }
    { rewrite put_cap. lia. }
    split; auto. right. exists k0, (nth p (idx m1) 0).
    split; [apply Hb1; exists p; auto|]. split; auto. split; auto. split.
    + rewrite G2. unfold put. simpl. lia.
    + intros k' i. rewrite G3. rewrite binds_put by (auto; apply (t_len _ Hp1)).
      split.
      * intros [[q [Hne [Hc Hi]]]|H]; [left|right; auto]. split; [apply Hb1; exists q; auto|].
        destruct (keq k k') eqn:Ek; auto. exfalso. apply Hne.
        apply (t_distinct _ Hp1 q p k' k0); auto.
        apply keq_trans with k; auto. rewrite keq_sym. assumption.
      * intros [[Hb Hk]|H]; [|right; auto]. apply Hb1 in Hb. destruct Hb as [q [Hc Hi]].
        left. exists q. repeat split; auto. intros ->. rewrite Hc in Hc0. inversion Hc0; subst. congruence.
Qed.

(** ---- association lists: what insert / remove / get do at the position of the first match *)
Lemma alist_miss : forall (a : alistk) k x,
  (forall i k' x', nth_error a i = Some (k', x') -> keq k k' = false) ->
  a_get key val keq a k = None /\ a_insert key val keq a k x = a ++ [(k, x)] /\ a_remove key val keq a k = a.
Proof.
  induction a as [|[k1 x1] t IH]; intros k x H; simpl; auto.
  rewrite (H 0 k1 x1 eq_refl).
  destruct (IH k x) as [I1 [I2 I3]]. { intros i k' x' Hn. apply (H (S i) k' x' Hn). }
  rewrite I1, I2, I3. auto.
Qed.

Lemma alist_miss' : forall (a : alistk) k,
  (forall i k' x', nth_error a i = Some (k', x') -> keq k k' = false) ->
  a_get key val keq a k = None /\ a_remove key val keq a k = a.
Proof.
  induction a as [|[k1 x1] t IH]; intros k H; simpl; auto.
  rewrite (H 0 k1 x1 eq_refl).
  destruct (IH k) as [I1 I2]. { intros i k' x' Hn. apply (H (S i) k' x' Hn). }
  rewrite I1, I2. auto.
Qed.

Lemma alist_hit : forall (a : alistk) k x i k0 x0,
  nth_error a i = Some (k0, x0) -> keq k k0 = true ->
  (forall j k' x', j < i -> nth_error a j = Some (k', x') -> keq k k' = false) ->
  a_get key val keq a k = Some x0 /\ a_insert key val keq a k x = set_nth i (k, x) a /\
  a_remove key val keq a k = remove_nth i a.
Proof.
  induction a as [|[k1 x1] t IH]; intros k x i k0 x0 Hn Hk Hfirst.
  - destruct i; discriminate.
  - destruct i as [|i]; simpl in Hn.
    + inversion Hn; subst. simpl. rewrite Hk. auto.
    + simpl. rewrite (Hfirst 0 k1 x1 ltac:(lia) eq_refl).
      destruct (IH k x i k0 x0 Hn Hk) as [I1 [I2 I3]].
      { intros j k' x' Hj Hnj. apply (Hfirst (S j) k' x' ltac:(lia) Hnj). }
      rewrite I1, I2, I3. auto.
Qed.

(** ---- the simulation relation between a map value and an association list *)
Definition R (v : vmapk) (a : alistk) : Prop :=
  tinv (fst v) /\ snd v = map snd a /\ len (fst v) = length a /\
  forall k i, binds_at (fst v) k i <-> exists x, nth_error a i = Some (k, x).

Lemma R_init : R (empty_map key val) [].
Proof.
  unfold R, empty_map. simpl. split; [|split; [reflexivity|split; [reflexivity|]]].
  - split; [|split].
    + constructor; simpl; auto. intros p q k k' H. unfold MapProbe.cellat in H. simpl in H. destruct p; discriminate.
    + intros p k H. unfold MapProbe.cellat in H. simpl in H. destruct p; discriminate.
    + simpl. lia.
  - intros k i. split.
    + intros [p [H _]]. unfold MapProbe.cellat in H. simpl in H. destruct p; discriminate.
    + intros [x H]. destruct i; discriminate.
Qed.

(** two bindings with matching keys are the same binding *)
Lemma binds_same : forall m k1 i1 k2 i2, tpre m ->
  binds_at m k1 i1 -> binds_at m k2 i2 -> keq k1 k2 = true -> k1 = k2 /\ i1 = i2.
Proof.
  intros m k1 i1 k2 i2 Hp [p [Hc1 Hi1]] [q [Hc2 Hi2]] Hk.
  assert (p = q) by (apply (t_distinct _ Hp p q k1 k2); auto). subst q.
  rewrite Hc1 in Hc2. inversion Hc2. subst. auto.
Qed.

Lemma R_first : forall v a k k0 i, R v a -> binds_at (fst v) k0 i -> keq k k0 = true ->
  forall j k' x', j < i -> nth_error a j = Some (k', x') -> keq k k' = false.
Proof.
  intros v a k k0 i [[Hp _] [_ [_ HB]]] Hb Hk j k' x' Hj Hn.
  destruct (keq k k') eqn:E; auto. exfalso.
  assert (Hb' : binds_at (fst v) k' j) by (apply HB; eauto).
  assert (Hkk : keq k' k0 = true) by (apply keq_trans with k; auto; rewrite keq_sym; assumption).
  destruct (binds_same _ _ _ _ _ Hp Hb' Hb Hkk). lia.
Qed.

Lemma R_miss : forall v a k, R v a -> (forall k' i, binds_at (fst v) k' i -> keq k k' = false) ->
  forall i k' x', nth_error a i = Some (k', x') -> keq k k' = false.
Proof. intros v a k [_ [_ [_ HB]]] H i k' x' Hn. apply (H k' i). apply HB. eauto. Qed.

Lemma map_snd_set_nth : forall (a : alistk) i k x, map snd (set_nth i (k, x) a) = set_nth i x (map snd a).
Proof. induction a; intros [|i] k x; simpl; auto. f_equal. apply IHa. Qed.
Lemma map_snd_remove_nth : forall (a : alistk) i, map snd (remove_nth i a) = remove_nth i (map snd a).
Proof. induction a; intros [|i]; simpl; auto. f_equal. apply IHa. Qed.

Lemma nth_dec_above : forall r l p, nth p (dec_above r l) 0 = (fun j => if r <? j then j - 1 else j) (nth p l 0).
Proof.
  intros r l. unfold dec_above. induction l as [|a t IH]; intros [|p]; simpl; auto;
    destruct (r <? 0); reflexivity.
Qed.

(** ---- insert *)
Lemma v_insert_sim : forall v a k x, R v a ->
  exists v', v_insert key val keq nanlike true hash he ht v k x = Some v' /\ R v' (a_insert key val keq a k x).
Proof.
  intros [m rows] a k x HR. assert (HR' := HR). destruct HR' as [Hinv [Hrows [Hlen HB]]]. simpl in *.
  unfold v_insert. rewrite Hrows, map_length, Hlen, Nat.eqb_refl. simpl negb. cbv iota.
  destruct (getm m k) as [i|] eqn:Eg.
  - destruct (get_some m k i Hinv Eg) as [k0 [Hb Hk]].
    destruct (proj1 (HB k0 i) Hb) as [x0 Hn].
    assert (Hi : i < length a) by (apply nth_error_Some; congruence).
    replace (length a <? i) with false by (symmetry; apply Nat.ltb_ge; lia).
    destruct (alist_hit a k x i k0 x0 Hn Hk (R_first _ a k k0 i HR Hb Hk)) as [_ [-> _]].
    assert (Hs := insert_spec m k i Hinv). destruct (insertm m k i) as [m' r]. destruct Hs as [Hinv' Hcase].
    eexists. split; [reflexivity|]. unfold R. simpl.
    destruct Hcase as [[_ [Hnew _]]|[k1 [i1 [Hb1 [Hk1 [_ [Hl' HB']]]]]]].
    { rewrite (Hnew k0 i Hb) in Hk. discriminate. }
    split; auto. split; [symmetry; apply map_snd_set_nth|]. split.
    { rewrite Hl', set_nth_length. assumption. }
    intros k' j. rewrite HB'. rewrite nth_error_set_nth.
    replace (i <? length a) with true by (symmetry; apply Nat.ltb_lt; assumption). rewrite andb_true_r.
    split.
    + intros [[Hbj Hkj]|[-> ->]].
      * destruct (Nat.eqb_spec j i) as [->|_]; [|apply HB; assumption].
        exfalso. destruct Hbj as [pj [Hcj Hij]]. destruct Hb as [pi [Hci Hii]].
        destruct Hinv as [Hp _]. destruct (proj1 (HB k' i) (ex_intro _ pj (conj Hcj Hij))) as [xa Ha].
        rewrite Hn in Ha. inversion Ha; subst. congruence.
      * rewrite Nat.eqb_refl. eauto.
    + intros [xx Hx]. destruct (Nat.eqb_spec j i) as [->|Hne].
      * inversion Hx; subst. right. auto.
      * left. assert (Hbj : binds_at m k' j) by (apply HB; eauto). split; auto.
        destruct (keq k k') eqn:E; auto. exfalso.
        assert (Hkk : keq k' k0 = true) by (apply keq_trans with k; auto; rewrite keq_sym; assumption).
        destruct Hinv as [Hp _]. destruct (binds_same _ _ _ _ _ Hp Hbj Hb Hkk). congruence.
  - assert (Hno := get_none m k Hinv Eg).
    destruct (alist_miss a k x (R_miss _ a k HR Hno)) as [_ [-> _]].
    assert (Hs := insert_spec m k (length a) Hinv). destruct (insertm m k (length a)) as [m' r]. destruct Hs as [Hinv' Hcase].
    eexists. split; [reflexivity|]. unfold R. simpl.
    destruct Hcase as [[_ [_ [Hl' HB']]]|[k1 [i1 [Hb1 [Hk1 _]]]]].
    2:{ rewrite (Hno k1 i1 Hb1) in Hk1. discriminate. }
    split; auto. split; [rewrite map_app; reflexivity|]. split.
    { rewrite Hl', app_length. simpl. lia. }
    intros k' j. rewrite HB'. split.
    + intros [Hbj|[-> ->]].
      * destruct (proj1 (HB k' j) Hbj) as [xx Hx]. exists xx. rewrite nth_error_app1; auto.
        apply nth_error_Some. congruence.
      * exists x. rewrite nth_error_app2 by lia. rewrite Nat.sub_diag. reflexivity.
    + intros [xx Hx]. destruct (Nat.lt_ge_cases j (length a)).
      * rewrite nth_error_app1 in Hx by assumption. left. apply HB. eauto.
      * rewrite nth_error_app2 in Hx by assumption. destruct (j - length a) as [|n] eqn:E; simpl in Hx.
        -- inversion Hx; subst. right. split; auto. lia.
        -- destruct n; discriminate.
Qed.

(** ---- remove *)
Lemma tombed_inv : forall m p k0, tinv m -> cellat m p = Key k0 ->
  tinv (MK (cells (tombed m p)) (dec_above (nth p (idx m) 0) (idx (tombed m p))) (len (tombed m p))).
Proof.
  intros m p k0 [Hp [Hr Hl]] Hc.
  assert (Hlt : p < length (cells m)) by (eapply cellat_key_lt; eauto).
  set (m' := MK (cells (tombed m p)) (dec_above (nth p (idx m) 0) (idx (tombed m p))) (len (tombed m p))).
  assert (Hcap : capm m' = capm m).
  { unfold m', cap, tombed, dec_above. simpl. rewrite map_length, set_nth_length. reflexivity. }
  assert (Hcell : forall q, cellat m' q = if q =? p then Tomb else cellat m q).
  { intros q. unfold m', tombed. simpl. rewrite cellat_set.
    replace (p <? length (cells m)) with true by (symmetry; apply Nat.ltb_lt; assumption).
    rewrite andb_true_r. reflexivity. }
  split; [|split].
  - constructor.
    + rewrite Hcap. unfold m', tombed. simpl. rewrite set_nth_length. apply (t_len _ Hp).
    + intros a b k1 k2 Ha Hb Hk. rewrite Hcell in Ha, Hb.
      destruct (a =? p); [discriminate|]. destruct (b =? p); [discriminate|].
      apply (t_distinct _ Hp a b k1 k2); auto.
    + unfold m', tombed. simpl.
      assert (Hcnt := count_keys_set_nth key p Tomb (cells m) Hlt).
      unfold key_weight in Hcnt. fold (cellat m p) in Hcnt. rewrite Hc in Hcnt. simpl in Hcnt.
      rewrite <- (t_count _ Hp). lia.
  - intros q k' Hq. rewrite Hcap. rewrite Hcell in Hq.
    destruct (q =? p); [discriminate|].
    destruct (Hr q k' Hq) as [d [Hd [Hqd Hpath]]]. exists d. repeat split; auto.
    intros e He. rewrite Hcell. destruct (_ =? p); [discriminate|auto].
  - rewrite Hcap. unfold m', tombed. simpl. lia.
Qed.

Lemma v_remove_sim : forall v a k, R v a ->
  exists v', v_remove key val keq nanlike true hash v k = Some v' /\ R v' (a_remove key val keq a k).
Proof.
  intros [m rows] a k HR. assert (HR' := HR). destruct HR' as [Hinv [Hrows [Hlen HB]]]. simpl in *.
  unfold v_remove. rewrite Hrows, map_length.
  destruct (Nat.eqb_spec (length a) 0) as [H0|H0].
  - destruct a; [|discriminate]. simpl. eexists. split; [reflexivity|]. subst rows. exact HR.
  - rewrite Hlen, Nat.eqb_refl. simpl negb. cbv iota.
    destruct (remove_spec m k Hinv) as [[E Hno]|[p [k0 [Hc [Hk E]]]]]; rewrite E.
    + destruct (alist_miss' a k (R_miss _ a k HR Hno)) as [_ ->].
      eexists. split; [reflexivity|]. subst rows. exact HR.
    + set (i0 := nth p (idx m) 0).
      assert (Hb : binds_at m k0 i0) by (exists p; auto).
      destruct (proj1 (HB k0 i0) Hb) as [x0 Hn].
      assert (Hi : i0 < length a) by (apply nth_error_Some; congruence).
      replace (length a <=? i0) with false by (symmetry; apply Nat.leb_gt; assumption).
      destruct (alist_hit a k x0 i0 k0 x0 Hn Hk (R_first _ a k k0 i0 HR Hb Hk)) as [_ [_ ->]].
      eexists. split; [reflexivity|]. unfold R. simpl fst. simpl snd.
      split; [eapply tombed_inv; eauto|]. split; [symmetry; apply map_snd_remove_nth|].
      split. { unfold tombed. simpl. rewrite remove_nth_length by assumption. lia. }
      assert (Hlt : p < length (cells m)) by (eapply cellat_key_lt; eauto).
      destruct Hinv as [Hp [Hr Hl]].
      assert (Hidx : p < length (idx m)) by (rewrite (t_len _ Hp) in Hlt; exact Hlt).
      intros k' j. rewrite nth_error_remove_nth. unfold binds_at. split.
      * intros [q [Hq Hj]]. unfold tombed in Hq, Hj. rewrite cellat_set in Hq. simpl in Hj.
        replace (p <? length (cells m)) with true in Hq by (symmetry; apply Nat.ltb_lt; assumption).
        rewrite andb_true_r in Hq. destruct (Nat.eqb_spec q p) as [|Hne]; [discriminate|].
        rewrite nth_dec_above, nth_set_nth_neq in Hj by assumption. fold i0 in Hj.
        set (jq := nth q (idx m) 0) in *.
        assert (Hbq : binds_at m k' jq) by (exists q; auto).
        destruct (proj1 (HB k' jq) Hbq) as [xq Hxq].
        assert (Hjne : jq <> i0).
        { intro Heq. rewrite Heq, Hn in Hxq. inversion Hxq; subst.
          apply Hne. apply (t_distinct _ Hp q p k' k'); auto. }
        destruct (Nat.ltb_spec i0 jq); subst j.
        -- replace (jq - 1 <? i0) with false by (symmetry; apply Nat.ltb_ge; lia).
           replace (S (jq - 1)) with jq by lia. eauto.
        -- replace (jq <? i0) with true by (symmetry; apply Nat.ltb_lt; lia). eauto.
      * intros [xx Hx]. destruct (Nat.ltb_spec j i0) as [Hlo|Hhi].
        -- destruct (proj2 (HB k' j) (ex_intro _ xx Hx)) as [q [Hq Hj]].
           assert (Hne : q <> p) by (intros ->; fold i0 in Hj; lia).
           exists q. unfold tombed. rewrite cellat_set. simpl.
           replace (q =? p) with false by (symmetry; apply Nat.eqb_neq; assumption). simpl.
           split; auto. rewrite nth_dec_above, nth_set_nth_neq by assumption. rewrite Hj. fold i0.
           replace (i0 <? j) with false by (symmetry; apply Nat.ltb_ge; lia). reflexivity.
        -- destruct (proj2 (HB k' (S j)) (ex_intro _ xx Hx)) as [q [Hq Hj]].
           assert (Hne : q <> p) by (intros ->; fold i0 in Hj; lia).
           exists q. unfold tombed. rewrite cellat_set. simpl.
           replace (q =? p) with false by (symmetry; apply Nat.eqb_neq; assumption). simpl.
           split; auto. rewrite nth_dec_above, nth_set_nth_neq by assumption. rewrite Hj. fold i0.
           replace (i0 <? S j) with true by (symmetry; apply Nat.ltb_lt; lia). lia.
Qed.

(** ---- get / has *)
Lemma v_get_sim : forall v a k, R v a ->
  v_get key val keq nanlike true hash v k =
  match a_get key val keq a k with Some x => GVal x | None => GMissing end.
Proof.
  intros [m rows] a k HR. assert (HR' := HR). destruct HR' as [Hinv [Hrows [Hlen HB]]]. simpl in *.
  unfold v_get. rewrite Hrows, map_length.
  destruct (Nat.eqb_spec (length a) 0) as [H0|H0].
  - destruct a; [reflexivity|discriminate].
  - rewrite Hlen, Nat.eqb_refl. simpl negb. cbv iota.
    destruct (getm m k) as [i|] eqn:Eg.
    + destruct (get_some m k i Hinv Eg) as [k0 [Hb Hk]].
      destruct (proj1 (HB k0 i) Hb) as [x0 Hn].
      destruct (alist_hit a k x0 i k0 x0 Hn Hk (R_first _ a k k0 i HR Hb Hk)) as [-> _].
      rewrite nth_error_map, Hn. reflexivity.
    + assert (Hno := get_none m k Hinv Eg).
      destruct (alist_miss' a k (R_miss _ a k HR Hno)) as [-> _]. reflexivity.
Qed.

Lemma v_has_sim : forall v a k, R v a ->
  v_has key val keq nanlike true hash v k = match a_get key val keq a k with Some _ => true | None => false end.
Proof.
  intros [m rows] a k HR. assert (HR' := HR). destruct HR' as [Hinv [Hrows [Hlen HB]]]. simpl in *.
  unfold v_has. rewrite Hrows, map_length.
  destruct (Nat.eqb_spec (length a) 0) as [H0|H0].
  - destruct a; [reflexivity|discriminate].
  - destruct (getm m k) as [i|] eqn:Eg.
    + destruct (get_some m k i Hinv Eg) as [k0 [Hb Hk]].
      destruct (proj1 (HB k0 i) Hb) as [x0 Hn].
      destruct (alist_hit a k x0 i k0 x0 Hn Hk (R_first _ a k k0 i HR Hb Hk)) as [-> _]. reflexivity.
    + assert (Hno := get_none m k Hinv Eg).
      destruct (alist_miss' a k (R_miss _ a k HR Hno)) as [-> _]. reflexivity.
Qed.

(** ---- the abstraction of a related state is the association list:
    row i carries the value of the i-th entry and the key bound to row i is its key *)
Lemma In_binds : forall (cs : list (cell key)) (is : list nat) k i,
  In (k, i) (flat_map (fun ci : cell key * nat => match fst ci with Key k => [(k, snd ci)] | _ => [] end) (combine cs is)) <->
  exists p, nth_error cs p = Some (Key k) /\ nth_error is p = Some i.
Proof.
  induction cs as [|c cs IH]; intros is k i.
  - simpl. split; [tauto|]. intros [[|p] [H _]]; discriminate.
  - destruct is as [|j is].
    + simpl. split; [tauto|]. intros [[|p] [_ H]]; discriminate.
    + simpl combine. simpl flat_map. rewrite in_app_iff, IH. split.
      * intros [H|[p Hp]]; [|exists (S p); exact Hp].
        destruct c; simpl in H; try tauto. destruct H as [H|[]]. inversion H; subst. exists 0. auto.
      * intros [[|p] [H1 H2]]; [left|right; exists p; auto].
        simpl in H1, H2. inversion H1; inversion H2; subst. simpl. auto.
Qed.

Lemma binds_at_In : forall m k i, tpre m -> (In (k, i) (binds key m) <-> binds_at m k i).
Proof.
  intros m k i Hp. unfold binds. rewrite In_binds. unfold binds_at. split.
  - intros [p [H1 H2]]. exists p. split.
    + unfold MapProbe.cellat. apply nth_error_nth. assumption.
    + apply nth_error_nth. assumption.
  - intros [p [H1 H2]]. exists p.
    assert (Hlt : p < length (cells m)) by (eapply cellat_key_lt; eauto).
    split.
    + rewrite <- H1. unfold MapProbe.cellat. apply nth_error_nth'. assumption.
    + rewrite <- H2. apply nth_error_nth'. rewrite (t_len _ Hp) in Hlt. exact Hlt.
Qed.

Lemma key_at_R : forall v a i k x, R v a -> nth_error a i = Some (k, x) -> key_at key (fst v) i = Some k.
Proof.
  intros v a i k x [[Hp _] [_ [_ HB]]] Hn. unfold key_at.
  destruct (find (fun p : key * nat => snd p =? i) (binds key (fst v))) as [[k0 i0]|] eqn:E.
  - apply find_some in E. destruct E as [Hin Hi]. simpl in Hi. apply Nat.eqb_eq in Hi. subst i0.
    apply binds_at_In in Hin; auto. apply HB in Hin. destruct Hin as [x' Hx]. congruence.
  - exfalso. assert (Hin : In (k, i) (binds key (fst v))) by (apply binds_at_In; auto; apply HB; eauto).
    apply (find_none _ _ E) in Hin. simpl in Hin. rewrite Nat.eqb_refl in Hin. discriminate.
Qed.

Lemma map_seq_keys : forall (a : alistk) (f : nat -> option key) s,
  (forall i k x, nth_error a i = Some (k, x) -> f (s + i) = Some k) ->
  map f (seq s (length a)) = map (fun p : key * val => Some (fst p)) a.
Proof.
  induction a as [|[k x] t IH]; intros f s H; simpl; auto. f_equal.
  - rewrite <- (H 0 k x eq_refl). f_equal. lia.
  - apply IH. intros i k' x' Hn. rewrite <- (H (S i) k' x' Hn). f_equal. lia.
Qed.

Lemma abs_of_R : forall v a, R v a -> abs key val v = lift key val a.
Proof.
  intros v a HR. assert (HR' := HR). destruct HR' as [_ [Hrows _]]. unfold abs, lift. rewrite Hrows, map_length.
  rewrite (map_seq_keys a (key_at key (fst v)) 0).
  - clear. induction a as [|[k x] t IH]; simpl; auto. rewrite IH. reflexivity.
  - intros i k x Hn. simpl. eapply key_at_R; eauto.
Qed.

(** ---- un-map: normalized() sorts the present keys by row index; under the invariant that is
    the key order of the association list *)
Lemma binds_length : forall (cs : list (cell key)) (is : list nat), length cs = length is ->
  length (flat_map (fun ci : cell key * nat => match fst ci with Key k => [(k, snd ci)] | _ => [] end) (combine cs is)) = count_keys cs.
Proof.
  induction cs as [|c cs IH]; intros [|j is] H; simpl in *; try lia; auto.
  rewrite app_length, IH by lia. destruct c; simpl; lia.
Qed.

Lemma unmap_keys_R : forall v a, R v a -> unmap_keys key (fst v) = map fst a.
Proof.
  intros v a HR. assert (HR' := HR). destruct HR' as [[Hp _] [_ [Hlen HB]]]. unfold unmap_keys.
  destruct (Nat.eqb_spec (len (fst v)) 0) as [H0|H0].
  - rewrite H0 in Hlen. destruct a; [reflexivity|discriminate].
  - assert (Hbl : length (binds key (fst v)) = length a).
    { unfold binds. rewrite binds_length by (apply (t_len _ Hp)). rewrite (t_count _ Hp). exact Hlen. }
    apply firsts_by_index with (o := 0).
    + apply sort_by_snd_seq; auto. intros i Hi.
      destruct (nth_error a i) as [[k x]|] eqn:E; [|apply nth_error_None in E; lia].
      apply in_map_iff. exists (k, i). split; auto. apply binds_at_In; auto. apply HB. eauto.
    + intros k i Hin. rewrite Nat.sub_0_r.
      apply (Permutation_in _ (sort_by_snd_perm _ _)) in Hin. apply binds_at_In in Hin; auto. apply HB. exact Hin.
Qed.

(** ---- present_indices (l.726-733), the key-side ingredient of reverse / rotate / take / drop:
    under the invariant it lists the table positions of the keys in row order *)
Lemma present_from_In : forall (l : list (cell key * nat)) p q i,
  In (q, i) (present_from key p l) <-> exists j k, q = p + j /\ nth_error l j = Some (Key k, i).
Proof.
  induction l as [|[c i0] t IH]; intros p q i; simpl.
  - split; [tauto|]. intros [[|j] [k [_ H]]]; discriminate.
  - assert (Hrec : In (q, i) (present_from key (S p) t) <-> exists j k, q = p + S j /\ nth_error t j = Some (Key k, i)).
    { rewrite IH. split; intros [j [k [H1 H2]]]; exists j, k; split; auto; lia. }
    destruct c; simpl; rewrite ?Hrec.
    + split.
      * intros [j [k [H1 H2]]]. exists (S j), k. auto.
      * intros [[|j] [k [H1 H2]]]; [discriminate|]. exists j, k. auto.
    + split.
      * intros [j [k [H1 H2]]]. exists (S j), k. auto.
      * intros [[|j] [k [H1 H2]]]; [discriminate|]. exists j, k. auto.
    + split.
      * intros [H|[j [k0 [H1 H2]]]].
        -- inversion H; subst. exists 0, k. split; auto.
        -- exists (S j), k0. auto.
      * intros [[|j] [k0 [H1 H2]]].
        -- simpl in H2. inversion H2; subst. left. f_equal. lia.
        -- right. exists j, k0. auto.
Qed.

Lemma present_from_length : forall (l : list (cell key * nat)) p,
  length (present_from key p l) = count_keys (map fst l).
Proof. induction l as [|[[| |k] i] t IH]; intros p; simpl; auto. Qed.

Lemma map_fst_combine_cells : forall (l : list (cell key)) (l' : list nat), length l = length l' -> map fst (combine l l') = l.
Proof. induction l; intros [|b l'] H; simpl in *; try lia; auto. f_equal. apply IHl. lia. Qed.

Lemma nth_error_combine_cells : forall (l : list (cell key)) (l' : list nat) b c i,
  nth_error (combine l l') b = Some (c, i) -> nth_error l b = Some c /\ nth_error l' b = Some i.
Proof.
  induction l; intros [|x l'] [|b] c i H; simpl in *; try discriminate.
  - inversion H; subst. auto.
  - apply IHl. assumption.
Qed.

Lemma nth_error_combine_cells' : forall (l : list (cell key)) (l' : list nat) b c i,
  nth_error l b = Some c -> nth_error l' b = Some i -> nth_error (combine l l') b = Some (c, i).
Proof.
  induction l; intros [|x l'] [|b] c i H1 H2; simpl in *; try discriminate.
  - inversion H1; inversion H2; subst. auto.
  - apply IHl; assumption.
Qed.

Theorem present_indices_R : forall v a, R v a ->
  length (present_indices key (fst v)) = length a /\
  forall i k x, nth_error a i = Some (k, x) ->
    exists p, nth_error (present_indices key (fst v)) i = Some p /\
      cellat (fst v) p = Key k /\ nth p (idx (fst v)) 0 = i.
Proof.
  intros v a HR. assert (HR' := HR). destruct HR' as [[Hp _] [_ [Hlen HB]]]. unfold present_indices.
  set (P := present_from key 0 (combine (cells (fst v)) (idx (fst v)))).
  assert (HPin : forall q i, In (q, i) P -> exists k, cellat (fst v) q = Key k /\ nth q (idx (fst v)) 0 = i).
  { intros q i H. apply present_from_In in H. destruct H as [j [k [Hq Hn]]]. simpl in Hq. subst q.
    apply nth_error_combine_cells in Hn. destruct Hn as [H1 H2]. exists k. split.
    - unfold MapProbe.cellat. apply nth_error_nth. exact H1.
    - apply nth_error_nth. exact H2. }
  assert (HPlen : length P = length a).
  { unfold P. rewrite present_from_length, map_fst_combine_cells by (apply (t_len _ Hp)).
    rewrite (t_count _ Hp). exact Hlen. }
  assert (Hseq : map snd (sort_by_snd P) = seq 0 (length a)).
  { apply sort_by_snd_seq; auto. intros i Hi.
    destruct (nth_error a i) as [[k x]|] eqn:E; [|apply nth_error_None in E; lia].
    destruct (proj2 (HB k i) (ex_intro _ x E)) as [p [Hc Hi']].
    apply in_map_iff. exists (p, i). split; auto. apply present_from_In.
    assert (Hlt : p < length (cells (fst v))) by (eapply cellat_key_lt; eauto).
    exists p, k. split; auto. apply nth_error_combine_cells'.
    - rewrite <- Hc. unfold MapProbe.cellat. apply nth_error_nth'. exact Hlt.
    - rewrite <- Hi'. apply nth_error_nth'. rewrite (t_len _ Hp) in Hlt. exact Hlt. }
  split.
  - rewrite map_length. rewrite <- (map_length snd), Hseq, seq_length. reflexivity.
  - intros i k x Hn.
    assert (Hi : i < length a) by (apply nth_error_Some; congruence).
    destruct (nth_error (sort_by_snd P) i) as [[p i']|] eqn:E.
    2:{ apply nth_error_None in E. rewrite <- (map_length snd), Hseq, seq_length in E. lia. }
    assert (Hi' : i' = i).
    { assert (H := map_nth_error snd _ _ E). rewrite Hseq in H. simpl in H.
      rewrite nth_error_nth' with (d := 0) in H by (rewrite seq_length; exact Hi).
      rewrite seq_nth in H by exact Hi. inversion H. reflexivity. }
    subst i'. exists p. split; [apply (map_nth_error fst _ _ E)|].
    apply nth_error_In in E. apply (Permutation_in _ (sort_by_snd_perm _ _)) in E.
    destruct (HPin p i E) as [k' [Hc Hx]]. split; auto.
    destruct (proj1 (HB k' i) (ex_intro _ p (conj Hc Hx))) as [x' Hx']. congruence.
Qed.

(** ---- histories *)
Notation stepm := (step key val keq nanlike true hash he ht).
Notation sstepm := (sstep key val keq).
Notation runm := (run key val keq nanlike true hash he ht).
Notation srunm := (srun key val keq).

(** operations covered by the proof *)
Definition proved_op (o : op key val) : bool :=
  match o with OIns _ _ | ORem _ | OGet _ | OHas _ | OLen | OUnmap => true | _ => false end.

Lemma step_sim : forall v a o, proved_op o = true -> R v a ->
  R (fst (stepm v o)) (fst (sstepm a o)) /\ snd (stepm v o) = snd (sstepm a o).
Proof.
  intros v a o Ho HR. destruct o; try discriminate; simpl.
  - destruct (v_insert_sim v a k x HR) as [v' [-> HR']]. simpl. auto.
  - destruct (v_remove_sim v a k HR) as [v' [-> HR']]. simpl. auto.
  - split; auto. rewrite (v_get_sim v a k HR). destruct (a_get key val keq a k); reflexivity.
  - split; auto. rewrite (v_has_sim v a k HR). reflexivity.
  - split; auto. destruct HR as [_ [-> _]]. rewrite map_length. reflexivity.
  - split; auto. rewrite (unmap_keys_R v a HR). destruct HR as [_ [-> _]]. reflexivity.
Qed.

Lemma run_sim : forall ops v a, forallb proved_op ops = true -> R v a ->
  R (fst (runm v ops)) (fst (srunm a ops)) /\ snd (runm v ops) = snd (srunm a ops).
Proof.
  induction ops as [|o t IH]; intros v a Hall HR; simpl; auto.
  simpl in Hall. apply andb_prop in Hall. destruct Hall as [Ho Ht].
  destruct (step_sim v a o Ho HR) as [HR1 Hout].
  destruct (stepm v o) as [v1 r1]. destruct (sstepm a o) as [a1 s1]. simpl in *.
  destruct (IH v1 a1 Ht HR1) as [HR2 Houts].
  destruct (runm v1 t) as [v2 rs]. destruct (srunm a1 t) as [a2 ss]. simpl in *.
  split; auto. congruence.
Qed.

(** ---- the refinement theorem (relative to the growth lemma) *)
Theorem refines_with_grow : forall ops, forallb proved_op ops = true ->
  let c := runm (empty_map key val) ops in
  let s := srunm [] ops in
  snd c = snd s /\ abs key val (fst c) = lift key val (fst s) /\
  length (snd (fst c)) = length (fst s) /\ len (fst (fst c)) = length (fst s).
Proof.
  intros ops Hall c s. destruct (run_sim ops (empty_map key val) [] Hall R_init) as [HR Hout].
  fold c in HR, Hout. fold s in HR, Hout. split; auto. split; [apply abs_of_R; assumption|].
  destruct HR as [_ [Hrows [Hlen _]]]. rewrite Hrows, map_length. auto.
Qed.

End WithGrow.
End MapRefine.
