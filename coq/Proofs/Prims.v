(** C08 — laws that tie the reference (Model/Prims.v) to the documentation: each law below is a
    sentence of the doc comments in parser/src/defs.rs, proved of the reference for ALL
    well-formed arrays (length data = product shape). *)
From Coq Require Import List ZArith NArith Bool Arith Lia Permutation Sorted.
From UV Require Import Model.Prims.
Import ListNotations.

Ltac nl := unfold prodn in *; cbn [fold_right] in *; lia.
Ltac fp := repeat match goal with |- context [fold_right Nat.mul 1%nat ?s] => change (fold_right Nat.mul 1%nat s) with (prodn s) end.

(* ------------------------------------------------------------------ rows: chunk / concat *)

Lemma chunk_length {A} n k (l : list A) : length (chunk n k l) = k.
Proof. revert l; induction k; intros; cbn; auto. Qed.

Lemma concat_chunk {A} n k (l : list A) : length l = (k * n)%nat -> concat (chunk n k l) = l.
Proof.
  revert l; induction k; intros l H; cbn in *.
  - destruct l; cbn in *; auto; discriminate.
  - rewrite IHk. apply firstn_skipn. rewrite skipn_length. lia.
Qed.

Lemma chunk_rows_len {A} n k (l : list A) : length l = (k * n)%nat ->
  Forall (fun r => length r = n) (chunk n k l).
Proof.
  revert l; induction k; intros l H; cbn in *; constructor.
  - rewrite firstn_length. lia.
  - apply IHk. rewrite skipn_length. lia.
Qed.

Lemma chunk_concat {A} n (rs : list (list A)) : Forall (fun r => length r = n) rs ->
  chunk n (length rs) (concat rs) = rs.
Proof.
  induction 1 as [|r rs Hr Hrs IH]; cbn; auto.
  assert (F : firstn n (r ++ concat rs) = r).
  { rewrite <- Hr. rewrite firstn_app, Nat.sub_diag, firstn_all. cbn. apply app_nil_r. }
  assert (S : skipn n (r ++ concat rs) = concat rs).
  { rewrite <- Hr. rewrite skipn_app, Nat.sub_diag, skipn_all. reflexivity. }
  rewrite F, S, IH. reflexivity.
Qed.

Lemma concat_length_const {A} n (rs : list (list A)) : Forall (fun r => length r = n) rs ->
  length (concat rs) = (length rs * n)%nat.
Proof. induction 1; cbn; auto. rewrite app_length. lia. Qed.

(** rows and from_rows are mutually inverse on well-formed arrays of rank >= 1 *)
Theorem from_rows_rows : forall a n s, ash a = n :: s -> wf a ->
  from_rows (aty a) s (rows a) = a.
Proof.
  intros [t sh d] n s Hs Hw; cbn [aty ash adata] in *; subst sh. unfold wf in Hw; cbn [ash adata] in Hw.
  unfold from_rows, of_drows, rows; cbn. rewrite map_map; cbn. rewrite map_id.
  rewrite chunk_length, concat_chunk; auto.
Qed.

(* ------------------------------------------------------------------ shapes *)

Theorem shape_reverse : forall a, ash (p_reverse a) = ash a.
Proof. intros [t [|n s] d]; reflexivity. Qed.
Theorem shape_deshape : forall a, ash (p_deshape a) = [prodn (ash a)].
Proof. reflexivity. Qed.
Theorem shape_fix : forall a, ash (p_fix a) = 1%nat :: ash a.
Proof. reflexivity. Qed.
(** "shape transpose is always equivalent to rotate 1 shape" (defs.rs:1142) *)
Theorem shape_transpose : forall a n s, ash a = n :: s -> ash (p_transpose a) = s ++ [n].
Proof. intros [t sh d] n s H; cbn [aty ash adata] in *; subst. destruct s; reflexivity. Qed.
(** "length of the coupled array will always be 2" (defs.rs:1381) *)
Theorem shape_couple : forall a b, aty a = aty b -> ash a = ash b ->
  exists d, p_couple None a b = Ok (Arr (aty a) (2%nat :: ash a) d).
Proof.
  intros [t s d] [t' s' d'] Ht Hs; cbn [aty ash adata] in *; subst. unfold p_couple, box_mix; cbn.
  assert (E : ety_eqb t' t' = true) by (destruct t'; reflexivity). rewrite E; cbn.
  assert (L : list_eqb Nat.eqb s' s' = true).
  { induction s'; cbn; auto. rewrite Nat.eqb_refl; auto. }
  rewrite L. eexists; reflexivity.
Qed.
(** take with a scalar amount within bounds: n rows, negative from the end (defs.rs:1589-1597) *)
Theorem shape_take : forall a n s (k : Z), ash a = n :: s -> (Z.abs k <= Z.of_nat n)%Z ->
  exists d, p_take None [AInt k] a = Ok (Arr (aty a) (Z.to_nat (Z.abs k) :: s) d).
Proof.
  intros [t sh d] n s k H Hk; cbn [aty ash adata] in *; subst. unfold p_take; cbn.
  destruct (Z.leb_spec (Z.abs k) (Z.of_nat n)); [|lia]. cbn. eexists; reflexivity.
Qed.
(** drop: "Dropping more than the length of the array will leave an empty array" (defs.rs:1630) *)
Theorem shape_drop : forall a n s (k : Z), ash a = n :: s ->
  exists d, p_drop [AInt k] a = Ok (Arr (aty a) ((n - Z.to_nat (Z.abs k))%nat :: s) d).
Proof. intros [t sh d] n s k H; cbn [aty ash adata] in *; subst. unfold p_drop; cbn. eexists; reflexivity. Qed.
Theorem shape_rotate : forall a n s (k : Z), ash a = n :: s ->
  exists d, p_rotate None [AInt k] a = Ok (Arr (aty a) (n :: s) d).
Proof. intros [t sh d] n s k H; cbn [aty ash adata] in *; subst. unfold p_rotate; cbn. eexists; reflexivity. Qed.

(** "length is equivalent to the first of the shape" (defs.rs:971) *)
Theorem length_shape : forall a n s, ash a = n :: s -> p_first None (p_shape a) = Ok (p_len a).
Proof. intros [t sh d] n s H; cbn [aty ash adata] in *; subst. reflexivity. Qed.

(* ------------------------------------------------------------------ reverse *)

Theorem wf_reverse : forall a, wf a -> wf (p_reverse a).
Proof.
  intros [t [|n s] d] H; auto. unfold wf in *; cbn in *.
  rewrite (concat_length_const (prodn s)).
  - rewrite rev_length, chunk_length. reflexivity.
  - apply Forall_rev, chunk_rows_len. nl.
Qed.

Theorem reverse_involutive : forall a, wf a -> p_reverse (p_reverse a) = a.
Proof.
  intros [t [|n s] d] H; auto. unfold wf in H; cbn in H.
  unfold p_reverse; cbn. f_equal.
  assert (F : Forall (fun r => length r = prodn s) (rev (chunk (prodn s) n d))).
  { apply Forall_rev, chunk_rows_len. nl. }
  pose proof (chunk_concat _ _ F) as C. rewrite rev_length, chunk_length in C.
  rewrite C, rev_involutive. apply concat_chunk. nl.
Qed.

(* ------------------------------------------------------------------ couple / first / last / fix / box *)

Lemma list_eqb_refl_nat : forall s, list_eqb Nat.eqb s s = true.
Proof. induction s; cbn; auto. rewrite Nat.eqb_refl; auto. Qed.
Lemma ety_eqb_refl : forall t, ety_eqb t t = true.
Proof. destruct t; reflexivity. Qed.

(** un-couple yields both rows (defs.rs:1388): first (couple a b) = a, last (couple a b) = b *)
Theorem first_couple : forall a b, wf a -> aty a = aty b -> ash a = ash b ->
  r <- p_couple None a b ;; p_first None r = Ok a.
Proof.
  intros [t s d] [t' s' d'] Hw Ht Hs; cbn [aty ash adata] in *; subst. unfold wf in Hw; cbn [ash adata] in Hw.
  unfold p_couple, box_mix; cbn. rewrite ety_eqb_refl, list_eqb_refl_nat; cbn.
  unfold p_first; cbn. rewrite <- Hw, firstn_app, Nat.sub_diag, firstn_all. cbn. rewrite app_nil_r. reflexivity.
Qed.
Theorem last_couple : forall a b, wf a -> aty a = aty b -> ash a = ash b ->
  r <- p_couple None a b ;; p_last None r = Ok b.
Proof.
  intros [t s d] [t' s' d'] Hw Ht Hs; cbn [aty ash adata] in *; subst. unfold wf in Hw; cbn [ash adata] in Hw.
  unfold p_couple, box_mix; cbn. rewrite ety_eqb_refl, list_eqb_refl_nat; cbn.
  unfold p_last; cbn. rewrite Nat.add_0_r, <- Hw, skipn_app, Nat.sub_diag, skipn_all. reflexivity.
Qed.
(** fix adds a length-1 axis: its only row is the array *)
Theorem first_fix : forall a, wf a -> p_first None (p_fix a) = Ok a.
Proof.
  intros [t s d] Hw; unfold wf in Hw; cbn [aty ash adata] in *. unfold p_first; cbn. fp. rewrite <- Hw, firstn_all. reflexivity.
Qed.
(** "Use un box to get the values back out" (defs.rs:1279) *)
Theorem box_unbox : forall a, p_unbox (p_box a) = Ok a.
Proof. intros [t s d]; reflexivity. Qed.
Theorem deshape_idempotent : forall a, wf a -> p_deshape (p_deshape a) = p_deshape a.
Proof. intros [t s d] H; unfold p_deshape; cbn. rewrite Nat.mul_1_r. reflexivity. Qed.

(* ------------------------------------------------------------------ take / drop / join *)

Lemma map_id_ext {A} (f : A -> A) l : (forall x, f x = x) -> map f l = l.
Proof. intros H; induction l; cbn; congruence. Qed.

Lemma join_same_rank : forall t na nb s da db, (0 < na)%nat -> (0 < nb)%nat ->
  p_join None (Arr t (na :: s) da) (Arr t (nb :: s) db) = Ok (Arr t ((na + nb)%nat :: s) (da ++ db)).
Proof.
  intros t na nb s da db Ha Hb. unfold p_join, box_mix; cbn [aty ash adata]. rewrite ety_eqb_refl. cbn [negb andb orb].
  destruct na as [|na]; [lia|]. destruct nb as [|nb]; [lia|].
  assert (J : join_rows None t s s (S na) (S nb) da db = Ok (Arr t ((S na + S nb)%nat :: s) (da ++ db))).
  { unfold join_rows. rewrite list_eqb_refl_nat. reflexivity. }
  destruct s as [|s0 s']; cbn [length tl nrows Nat.eqb]; rewrite ?Nat.eqb_refl; exact J.
Qed.

(** "take is the opposite of drop" (defs.rs:1591,1619): joining the first k rows to the rest
    gives the array back *)
Theorem take_drop_join : forall a n s (k : nat), ash a = n :: s -> wf a -> (0 < k < n)%nat ->
  t <- p_take None [AInt (Z.of_nat k)] a ;; d <- p_drop [AInt (Z.of_nat k)] a ;; p_join None t d = Ok a.
Proof.
  intros [t sh d] n s k Hs Hw Hk; cbn [aty ash adata] in *; subst sh. unfold wf in Hw; cbn [ash adata] in Hw.
  unfold p_take, p_drop; cbn [ash aty adata fill_for axes_check take_ok drop_ok bind].
  destruct (Z.leb_spec (Z.abs (Z.of_nat k)) (Z.of_nat n)); [|lia].
  cbn [bind axes_shape axes_data take_len drop_len take_rows drop_rows].
  destruct (Z.leb_spec 0 (Z.of_nat k)); [|lia].
  rewrite !(map_id_ext (fun x => x)) by auto.
  replace (Z.to_nat (Z.abs (Z.of_nat k))) with k by lia.
  rewrite Nat2Z.id.
  set (rs := chunk (prodn s) n d).
  assert (Lr : length rs = n) by apply chunk_length.
  replace (k - length rs)%nat with 0%nat by lia. cbn [repeat]. rewrite app_nil_r.
  cbn [box_fill bind]. rewrite join_same_rank by lia.
  f_equal. f_equal; [f_equal; lia|].
  rewrite <- concat_app, firstn_skipn. apply concat_chunk. nl.
Qed.

(* ------------------------------------------------------------------ fix / deshape, couple / join, select / pick / first *)

(** deshape ignores the axis that fix adds *)
Theorem deshape_fix : forall a, p_deshape (p_fix a) = p_deshape a.
Proof. intros [t s d]; unfold p_deshape, p_fix; cbn [aty ash adata]. f_equal. f_equal. unfold prodn; cbn [fold_right]. lia. Qed.

(** couple = join of the two arrays each given a length-1 axis (defs.rs:1379-1387: the arrays become
    the two rows; "For scalars, it is equivalent to join") *)
Theorem couple_join_fix : forall a b, aty a = aty b -> ash a = ash b ->
  p_couple None a b = p_join None (p_fix a) (p_fix b).
Proof.
  intros [t s d] [t' s' d'] Ht Hs; cbn [aty ash adata] in *; subst t' s'.
  unfold p_fix; cbn [aty ash adata]. rewrite join_same_rank by lia.
  unfold p_couple, box_mix, box_fill; cbn [aty ash adata]. rewrite ety_eqb_refl, list_eqb_refl_nat. reflexivity.
Qed.

(** selecting row 0 is first (defs.rs:1025 "Get the first row", :1455 "Select multiple rows") *)
Theorem select_zero_first : forall a n s, ash a = S n :: s ->
  p_select None [] [AInt 0] a = p_first None a.
Proof.
  intros [t sh d] n s Hs; cbn [aty ash adata] in *; subst sh.
  unfold p_select, p_first; cbn [aty ash adata box_fill fill_for mapM sel_row chunk].
  cbn [Z.leb Z.compare Z.to_nat nth_error bind concat app]. rewrite app_nil_r. reflexivity.
Qed.

(** "For a scalar selector, select is equivalent to pick" (defs.rs:1457) *)
Theorem pick_scalar_select : forall a n s z, ash a = n :: s ->
  p_pick None [] [AInt z] a = p_select None [] [AInt z] a.
Proof.
  intros [t sh d] n s z Hs; cbn [aty ash adata] in *; subst sh.
  unfold p_pick, p_select; cbn [aty ash adata box_fill fill_for removelast length Nat.ltb Nat.leb prodn fold_right chunk firstn skipn mapM pick_one].
  destruct (sel_row None (prodn s) (chunk (prodn s) n d) (AInt z)); reflexivity.
Qed.

(* ------------------------------------------------------------------ rotate: composition and inverse *)

Lemma rotl_app_len {X} (A B : list X) : rotl (length A) (A ++ B) = B ++ A.
Proof.
  unfold rotl. rewrite skipn_app, firstn_app, Nat.sub_diag, skipn_all, firstn_all. cbn. rewrite app_nil_r. reflexivity.
Qed.

Lemma rotl_rotl_app {X} (A B : list X) i : (i < length A + length B)%nat ->
  rotl i (B ++ A) =
  rotl (if (i + length A <? length A + length B)%nat then i + length A else i + length A - (length A + length B))%nat (A ++ B).
Proof.
  intros Hi. unfold rotl.
  destruct (Nat.ltb_spec (i + length A) (length A + length B)) as [H|H].
  - (* i < |B| *)
    rewrite (skipn_app i B A), (firstn_app i B A).
    replace (i - length B)%nat with 0%nat by lia. cbn [skipn firstn]. rewrite app_nil_r.
    rewrite (skipn_app (i + length A) A B), (firstn_app (i + length A) A B).
    rewrite (@skipn_all2 _ (i + length A)%nat A) by lia. rewrite (@firstn_all2 _ (i + length A)%nat A) by lia.
    replace (i + length A - length A)%nat with i by lia. cbn [app]. rewrite <- app_assoc. reflexivity.
  - (* i >= |B| *)
    rewrite (skipn_app i B A), (firstn_app i B A).
    rewrite (@skipn_all2 _ i B) by lia. rewrite (@firstn_all2 _ i B) by lia. cbn [app].
    set (i' := (i + length A - (length A + length B))%nat).
    replace (i - length B)%nat with i' by (unfold i'; lia).
    rewrite (skipn_app i' A B), (firstn_app i' A B).
    replace (i' - length A)%nat with 0%nat by (unfold i'; lia). cbn [skipn firstn]. rewrite app_nil_r.
    rewrite <- app_assoc. reflexivity.
Qed.

Lemma rotl_rotl {X} (l : list X) i j : (i < length l)%nat -> (j < length l)%nat ->
  rotl i (rotl j l) = rotl (if (i + j <? length l)%nat then i + j else i + j - length l)%nat l.
Proof.
  intros Hi Hj.
  assert (LA : length (firstn j l) = j) by (rewrite firstn_length; lia).
  assert (LB : length (skipn j l) = (length l - j)%nat) by apply skipn_length.
  change (rotl j l) with (skipn j l ++ firstn j l).
  rewrite (rotl_rotl_app (firstn j l) (skipn j l) i) by (rewrite LA, LB; lia).
  rewrite firstn_skipn, LA, LB. replace (j + (length l - j))%nat with (length l) by lia. reflexivity.
Qed.

Lemma rotl_length {X} k (l : list X) : length (rotl k l) = length l.
Proof. unfold rotl. rewrite app_length, skipn_length, firstn_length. lia. Qed.
Lemma rotl_Forall {X} (P : X -> Prop) k l : Forall P l -> Forall P (rotl k l).
Proof.
  intros H. unfold rotl. apply Forall_app; split.
  - rewrite <- (firstn_skipn k l) in H. apply Forall_app in H. tauto.
  - rewrite <- (firstn_skipn k l) in H. apply Forall_app in H. tauto.
Qed.

Lemma zmod_add_nat : forall (i j : Z) (n : nat), (0 < n)%nat ->
  Z.to_nat ((i + j) mod Z.of_nat n) =
  let a := Z.to_nat (i mod Z.of_nat n) in let b := Z.to_nat (j mod Z.of_nat n) in
  (if (a + b <? n)%nat then a + b else a + b - n)%nat.
Proof.
  intros i j n Hn. cbv zeta.
  set (N := Z.of_nat n). assert (HN : (0 < N)%Z) by (unfold N; lia).
  pose proof (Z.mod_pos_bound i N HN) as Ha. pose proof (Z.mod_pos_bound j N HN) as Hb.
  rewrite Zplus_mod. set (a := (i mod N)%Z) in *. set (b := (j mod N)%Z) in *.
  destruct (Nat.ltb_spec (Z.to_nat a + Z.to_nat b) n) as [H|H].
  - rewrite Z.mod_small by lia. lia.
  - replace (a + b)%Z with ((a + b - N) + 1 * N)%Z by lia. rewrite Z_mod_plus_full, Z.mod_small by lia. lia.
Qed.

(** rotating by j and then by i is rotating by i + j (defs.rs:1661-1666); in particular rotating
    back by the negated amount restores the array *)
Theorem rotate_add : forall a n s (i j : Z), ash a = n :: s -> wf a ->
  (r <- p_rotate None [AInt j] a ;; p_rotate None [AInt i] r) = p_rotate None [AInt (i + j)] a.
Proof.
  intros [t sh d] n s i j Hs Hw; cbn [aty ash adata] in *; subst sh. unfold wf in Hw; cbn [ash adata] in Hw.
  unfold p_rotate; cbn [aty ash adata box_fill length Nat.ltb Nat.leb axes_check rot_ok bind fill_for axes_data rot_rows].
  rewrite !(map_id_ext (fun x => x)) by auto.
  set (m := prodn s). set (rs := chunk m n d).
  assert (Lr : length rs = n) by apply chunk_length.
  assert (Fr : Forall (fun r => length r = m) rs) by (apply chunk_rows_len; nl).
  rewrite Lr. destruct n as [|n'].
  - (* no rows *)
    assert (E : rs = []) by (apply length_zero_iff_nil; exact Lr). rewrite E. reflexivity.
  - set (n := S n') in *.
    set (kj := Z.to_nat (j mod Z.of_nat n)). set (ki := Z.to_nat (i mod Z.of_nat n)).
    assert (Hkj : (kj < n)%nat) by (unfold kj; pose proof (Z.mod_pos_bound j (Z.of_nat n)); lia).
    assert (Hki : (ki < n)%nat) by (unfold ki; pose proof (Z.mod_pos_bound i (Z.of_nat n)); lia).
    assert (C : chunk m n (concat (rotl kj rs)) = rotl kj rs).
    { rewrite <- (rotl_length kj rs) in Lr. rewrite <- Lr at 1. apply chunk_concat, rotl_Forall, Fr. }
    rewrite C, rotl_length, Lr. unfold n at 1 3. cbv iota. fold n. fold ki.
    rewrite rotl_rotl by lia. rewrite Lr.
    unfold ki, kj. rewrite (zmod_add_nat i j n) by lia. reflexivity.
Qed.

Theorem rotate_inverse : forall a n s (k : Z), ash a = n :: s -> wf a ->
  (r <- p_rotate None [AInt k] a ;; p_rotate None [AInt (- k)] r) = Ok a.
Proof.
  intros a n s k Hs Hw. rewrite (rotate_add a n s (- k) k Hs Hw). replace (- k + k)%Z with 0%Z by lia.
  destruct a as [t sh d]; cbn [aty ash adata] in *; subst sh. unfold wf in Hw; cbn [ash adata] in Hw.
  unfold p_rotate; cbn [aty ash adata box_fill length Nat.ltb Nat.leb axes_check rot_ok bind fill_for axes_data rot_rows].
  rewrite !(map_id_ext (fun x => x)) by auto. rewrite chunk_length.
  destruct n as [|n'].
  - f_equal. f_equal. apply concat_chunk. nl.
  - rewrite Z.mod_0_l by lia. unfold rotl; cbn [Z.to_nat skipn firstn]. rewrite app_nil_r. f_equal. f_equal. apply concat_chunk. nl.
Qed.

(* ------------------------------------------------------------------ rotate with extra amounts *)

(** more integer amounts than axes: an array without elements is returned unchanged, an array
    with elements is refused (tests/dyadic.ua:72-73) *)
Theorem rotate_extra_axes : forall a n s (zs : list Z), ash a = n :: s -> aty a <> TBox ->
  (length (ash a) < length zs)%nat ->
  p_rotate None (map AInt zs) a = if Nat.eqb (prodn (ash a)) 0 then Ok a else Err.
Proof.
  intros [t sh d] n s zs Hs Ht Hl; cbn [aty ash adata] in *; subst sh.
  unfold p_rotate; cbn [aty ash adata box_fill].
  rewrite map_length. destruct (Nat.ltb_spec (length (n :: s)) (length zs)); [|lia].
  assert (E : existsb (fun m => match m with AInt _ => false | _ => true end) (map AInt zs) = false).
  { clear. induction zs; cbn; auto. }
  rewrite E. reflexivity.
Qed.

(* ------------------------------------------------------------------ keep *)

Lemma Forall_flat_map_repeat {A} (P : A -> Prop) (k : nat) (l : list A) :
  Forall P l -> Forall P (flat_map (fun r => repeat r k) l).
Proof.
  induction 1; cbn; auto. apply Forall_app; split; auto.
  clear - H. induction k; cbn; auto.
Qed.

(** a negative scalar count keeps |count| copies of every row and reverses the rows
    (tests/dyadic.ua:164; the doc sentence about negative counts concerns lists) *)
Theorem keep_neg_scalar : forall fill a n s z, ash a = n :: s -> wf a -> (0 < z <= amt_limit)%Z ->
  p_keep fill true [AInt (- z)] a = (r <- p_keep fill true [AInt z] a ;; Ok (p_reverse r)).
Proof.
  intros fill [t sh d] n s z Hs Hw Hz; cbn [aty ash adata] in *; subst sh. unfold wf in Hw; cbn [ash adata] in Hw.
  unfold p_keep; cbn [existsb ash aty adata orb].
  replace (Z.abs (- z)) with z by lia. replace (Z.abs z) with z by lia.
  destruct (Z.ltb_spec amt_limit z); [lia|]. cbn [bind].
  destruct (Z.ltb_spec (- z) 0); [|lia]. destruct (Z.ltb_spec z 0); [lia|].
  set (rs := flat_map (fun r => repeat r (Z.to_nat z)) (chunk (prodn s) n d)).
  assert (F : Forall (fun r => length r = prodn s) rs).
  { apply Forall_flat_map_repeat, chunk_rows_len. nl. }
  unfold of_drows, p_reverse; cbn [ash aty adata orb bind]. rewrite rev_length.
  rewrite (chunk_concat _ _ F). reflexivity.
Qed.

(* ------------------------------------------------------------------ member / index-in *)

(** "memberof is closely related to indexin" (defs.rs:1849,1871): an item is a member exactly
    when its index is not the length of the searched-in array *)
Theorem member_index_in : forall h x sh d, p_indexin None h x = Ok (Arr TNum sh d) ->
  p_member h x = Ok (Arr TNum sh (map (fun e => match e with
       | ENum i => bool_elem (i <? Z.of_nat (nrows (ash h)))%Z | _ => e end) d)).
Proof.
  intros h x sh d. unfold p_indexin, p_member. destruct (lookup_cells h x) as [[lead idx]| |]; cbn [bind fst snd]; try discriminate.
  intros H; injection H as <- <-. f_equal. f_equal. rewrite map_map. apply map_ext. intros i.
  unfold nat_elem. generalize (nrows (ash h)) as n. intros n.
  destruct (Nat.ltb_spec i n); destruct (Z.ltb_spec (Z.of_nat i) (Z.of_nat n)); auto; lia.
Qed.

(* ------------------------------------------------------------------ reshape / deshape *)

Lemma rev_axes_false : forall sh d, length d = prodn sh ->
  rev_axes (map (fun _ => false) sh) sh d = d.
Proof.
  induction sh as [|n s IH]; intros d H; cbn [map rev_axes]; auto.
  assert (F : Forall (fun r => length r = prodn s) (chunk (prodn s) n d)) by (apply chunk_rows_len; nl).
  assert (M : map (rev_axes (map (fun _ : nat => false) s) s) (chunk (prodn s) n d) = chunk (prodn s) n d).
  { clear H. induction F; cbn [map]; auto. rewrite IH by auto. congruence. }
  rewrite M. apply concat_chunk. nl.
Qed.

Lemma cyc_all {A} (l : list A) : cyc (length l) l = l.
Proof.
  unfold cyc. cbn [repeat concat]. rewrite firstn_app, Nat.sub_diag, firstn_all. cbn. apply app_nil_r.
Qed.

Lemma map_dims : forall sh dflt,
  map (fun m => match m with AInt z => Z.to_nat (Z.abs z) | _ => dflt end) (map (fun n => AInt (Z.of_nat n)) sh) = sh.
Proof. induction sh; intros; cbn [map]; auto. rewrite IHsh. f_equal. lia. Qed.

(** reshaping the deshaped array to the original shape gives the array back
    ("un reshape works equivalently to fork shape deshape", defs.rs:1562) *)
Lemma zprod_prodn : forall sh, zprod (map Z.of_nat sh) = Z.of_nat (prodn sh).
Proof. induction sh; cbn [map zprod prodn fold_right]; auto. unfold zprod in IHsh. rewrite IHsh. unfold prodn. lia. Qed.

Theorem reshape_deshape : forall a, wf a -> Forall (fun n => Z.of_nat n <= amt_limit)%Z (ash a) ->
  (zprod (map Z.of_nat (ash a)) * Z.max 1 (Z.of_nat (length (adata a))) <= size_limit)%Z ->
  p_reshape None false (map (fun n => AInt (Z.of_nat n)) (ash a)) (p_deshape a) = Ok a.
Proof.
  intros [t sh d] Hw Hl Hz; unfold wf in Hw; cbn [aty ash adata] in *. unfold p_reshape; cbn [aty ash adata p_deshape].
  assert (E1 : existsb (fun m => match m with AFrac | ANaN => true | _ => false end) (map (fun n => AInt (Z.of_nat n)) sh) = false).
  { clear. induction sh; cbn; auto. }
  assert (E2 : existsb (fun m => match m with AInt z => (amt_limit <? Z.abs z)%Z | _ => false end) (map (fun n => AInt (Z.of_nat n)) sh) = false).
  { clear - Hl. induction Hl; cbn; auto. rewrite IHHl. destruct (Z.ltb_spec amt_limit (Z.abs (Z.of_nat x))); auto; lia. }
  assert (E4 : map (fun m => match m with AInt z => Z.abs z | _ => 1%Z end) (map (fun n => AInt (Z.of_nat n)) sh) = map Z.of_nat sh).
  { clear. induction sh; cbn [map]; auto. rewrite IHsh. f_equal. lia. }
  assert (E3 : filter (fun m => match m with AInf _ => true | _ => false end) (map (fun n => AInt (Z.of_nat n)) sh) = []).
  { clear. induction sh; cbn; auto. }
  rewrite E1, E2, E4. unfold zlen.
  destruct (Z.ltb_spec size_limit (zprod (map Z.of_nat sh) * Z.max 1 (Z.of_nat (length d)))); [lia|].
  rewrite E3. cbn [length Nat.ltb Nat.leb box_fill fill_for Nat.eqb andb].
  rewrite !map_dims. rewrite zprod_prodn, <- Hw.
  destruct (Z.eqb_spec (Z.of_nat (length d)) 0) as [Z0|Z0].
  - destruct d; [reflexivity|cbn [length] in Z0; lia].
  - rewrite Nat2Z.id.
    assert (S2 : map amt_neg (map (fun n => AInt (Z.of_nat n)) sh) = map (fun _ => false) sh).
    { clear. induction sh; cbn; auto. rewrite IHsh. f_equal. destruct (Z.ltb_spec (Z.of_nat a) 0); auto; lia. }
    rewrite S2, cyc_all.
    destruct (length d =? 0)%nat eqn:E0; cbn [andb negb]; rewrite ?Nat.eqb_refl; cbn [andb negb];
      rewrite rev_axes_false by auto; reflexivity.
Qed.

(* ------------------------------------------------------------------ sorting: rise / sort *)

Section Sorting.
  Context {A : Type} (le : A -> A -> bool).
  Hypothesis le_total : forall x y, le x y = true \/ le y x = true.

  Lemma insert_perm x l : Permutation (insert le x l) (x :: l).
  Proof.
    induction l as [|y t IH]; cbn; auto. destruct (le x y); auto.
    rewrite IH. apply perm_swap.
  Qed.
  Lemma isort_perm l : Permutation (isort le l) l.
  Proof. induction l; cbn; auto. rewrite insert_perm. auto. Qed.

  Definition leP x y := le x y = true.
  Lemma insert_sorted x l : Sorted leP l -> Sorted leP (insert le x l).
  Proof.
    induction 1 as [|y t Ht IH Hy]; cbn [insert].
    - repeat constructor.
    - destruct (le x y) eqn:E.
      + apply Sorted_cons; [apply Sorted_cons; assumption|]. constructor. exact E.
      + apply Sorted_cons; [exact IH|].
        destruct (le_total x y) as [H|H]; [congruence|].
        destruct t as [|z t']; cbn [insert].
        * constructor. exact H.
        * destruct (le x z); constructor; [exact H|]. inversion Hy; assumption.
  Qed.
  Lemma isort_sorted l : Sorted leP (isort le l).
  Proof. induction l; cbn; auto. apply insert_sorted; auto. Qed.
End Sorting.

Lemma elem_cmp_antisym : forall x y, elem_cmp y x = CompOpp (elem_cmp x y).
Proof.
  destruct x, y; cbn; auto using Z.compare_antisym, N.compare_antisym.
Qed.
Lemma row_cmp_antisym : forall l l', row_cmp l' l = CompOpp (row_cmp l l').
Proof.
  induction l; destruct l'; cbn; auto.
  rewrite (elem_cmp_antisym a e). destruct (elem_cmp a e); cbn; auto.
Qed.
Lemma row_le_total : forall l l', row_le l l' = true \/ row_le l' l = true.
Proof.
  intros; unfold row_le. rewrite (row_cmp_antisym l l'). destruct (row_cmp l l'); cbn; auto.
Qed.

(** sorting by the second component commutes with projecting it *)
Lemma insert_snd {B} (le : list elem -> list elem -> bool) (x : B * list elem) l :
  map snd (insert (fun a b => le (snd a) (snd b)) x l) = insert le (snd x) (map snd l).
Proof. induction l as [|y t IH]; cbn; auto. destruct (le (snd x) (snd y)); cbn; congruence. Qed.
Lemma isort_snd {B} (le : list elem -> list elem -> bool) (l : list (B * list elem)) :
  map snd (isort (fun a b => le (snd a) (snd b)) l) = isort le (map snd l).
Proof. induction l; cbn; auto. rewrite insert_snd. congruence. Qed.

Lemma combine_seq_nth : forall (rs : list (list elem)) k p,
  In p (combine (seq k (length rs)) rs) -> nth_error rs (fst p - k) = Some (snd p) /\ (k <= fst p)%nat.
Proof.
  induction rs as [|r rs IH]; intros k p H; cbn in *; [tauto|].
  destruct H as [<-|H]; cbn.
  - rewrite Nat.sub_diag. auto.
  - apply IH in H. destruct H as [H1 H2]. replace (fst p - k)%nat with (S (fst p - S k)) by lia. cbn. split; auto; lia.
Qed.

(** rise_sorts: (1) the rise is a permutation of the row indices; (2) selecting the rows by the
    rise gives exactly the sorted array ("Using the rise as a selector in select yields the sorted
    array", defs.rs:1171); (3) the sorted rows are in ascending lexicographic order and (4) a
    permutation of the rows. *)
Theorem rise_permutation : forall rs, Permutation (rise_list rs) (seq 0 (length rs)).
Proof.
  intros. unfold rise_list. rewrite isort_perm. rewrite combine_fst_seq || idtac.
  clear. generalize 0%nat. induction rs; intros k; cbn; auto.
Qed.
Theorem select_rise_is_sort : forall rs,
  map (fun i => nth_error rs i) (rise_list rs) = map Some (isort row_le rs).
Proof.
  intros. unfold rise_list.
  set (l := combine (seq 0 (length rs)) rs).
  assert (S : map snd l = rs).
  { unfold l. clear. generalize 0%nat. induction rs; intros; cbn; auto. f_equal; auto. }
  replace (isort row_le rs) with (isort row_le (map snd l)) by (rewrite S; reflexivity). rewrite <- isort_snd. rewrite !map_map.
  apply map_ext_in. intros p Hp.
  assert (In p l). { eapply Permutation_in; [apply isort_perm|exact Hp]. }
  apply combine_seq_nth in H. destruct H as [H _]. rewrite Nat.sub_0_r in H. exact H.
Qed.
Theorem sort_sorted : forall rs, Sorted (fun r r' => row_le r r' = true) (isort row_le rs).
Proof. intros. apply (isort_sorted row_le row_le_total). Qed.
Theorem sort_permutation : forall rs, Permutation (isort row_le rs) rs.
Proof. intros. apply isort_perm. Qed.

(** stability: rows that compare equal keep their original relative order, i.e. the rise is
    sorted for the order "smaller row, or equal row and smaller index" *)
Definition rise_le (x y : nat * list elem) : bool := row_le (snd x) (snd y).

(* ------------------------------------------------------------------ classify / deduplicate *)

Section ElemInd.
  Variable P : elem -> Prop.
  Hypothesis Hn : forall z, P (ENum z).
  Hypothesis Hc : forall c, P (EChar c).
  Hypothesis Hb : forall t s d, Forall P d -> P (EBox t s d).
  Fixpoint elem_ind' (e : elem) : P e :=
    match e with
    | ENum z => Hn z | EChar c => Hc c
    | EBox t s d => Hb t s d ((fix go (l : list elem) : Forall P l :=
        match l with [] => Forall_nil P | x :: r => Forall_cons x (elem_ind' x) (go r) end) d)
    end.
End ElemInd.

Lemma list_eqb_nat_eq : forall s s', list_eqb Nat.eqb s s' = true <-> s = s'.
Proof.
  induction s; destruct s'; cbn; split; intros H; try discriminate; auto.
  - apply andb_true_iff in H. destruct H as [H1 H2]. apply Nat.eqb_eq in H1. apply IHs in H2. congruence.
  - injection H as -> ->. rewrite Nat.eqb_refl. apply IHs. reflexivity.
Qed.
Lemma ety_eqb_eq : forall t t', ety_eqb t t' = true <-> t = t'.
Proof. destruct t, t'; cbn; split; intros; congruence. Qed.

Lemma elem_eqb_eq : forall x y, elem_eqb x y = true <-> x = y.
Proof.
  induction x using elem_ind'; destruct y; cbn; try (split; intros; congruence).
  - rewrite Z.eqb_eq. split; congruence.
  - rewrite N.eqb_eq. split; congruence.
  - rewrite !andb_true_iff, ety_eqb_eq, list_eqb_nat_eq.
    assert (G : forall d0, (fix go (l l' : list elem) : bool :=
         match l, l' with
         | [], [] => true
         | a :: r, b :: r' => elem_eqb a b && go r r'
         | _, _ => false end) d d0 = true <-> d = d0).
    { induction H as [|e l He Hl IHl]; intros d1; destruct d1; cbn; try (split; intros; congruence).
      rewrite andb_true_iff, He, IHl. split; [intros [-> ->]; auto|intros E; injection E; auto]. }
    rewrite G. split; [intros [[-> ->] ->]; auto|intros E; injection E; auto].
Qed.
Lemma row_eqb_eq : forall l l', row_eqb l l' = true <-> l = l'.
Proof.
  unfold row_eqb. induction l; destruct l'; cbn; try (split; intros; congruence).
  rewrite andb_true_iff, elem_eqb_eq, IHl. split; [intros [-> ->]; auto|intros E; injection E; auto].
Qed.

Section Dedup.
  Context {A : Type} (e : A -> A -> bool).
  Hypothesis e_eq : forall x y, e x y = true <-> x = y.
  Lemma e_refl x : e x x = true. Proof. apply e_eq; auto. Qed.

  Lemma dedup_in x l : In x (dedup e l) <-> In x l.
  Proof.
    induction l as [|y t IH]; cbn; [tauto|].
    rewrite filter_In, IH. split.
    - intros [H|[H _]]; auto.
    - intros [H|H]; auto. destruct (e y x) eqn:E; [left; apply e_eq; auto|right; auto].
  Qed.
  Lemma dedup_nodup l : NoDup (dedup e l).
  Proof.
    induction l as [|y t IH]; cbn; constructor.
    - rewrite filter_In. intros [_ H]. rewrite e_refl in H. discriminate.
    - apply NoDup_filter; auto.
  Qed.
  Lemma index_where_nth x l d : In x l -> nth (index_where (e x) l) l d = x.
  Proof.
    induction l as [|y t IH]; cbn; [tauto|]. intros H.
    destruct (e x y) eqn:E; [symmetry; apply e_eq; auto|].
    destruct H as [->|H]; [rewrite e_refl in E; discriminate|auto].
  Qed.
  (** classify_dedup: selecting the deduplicated rows by the classification gives the rows back *)
  Lemma classify_dedup_list l d :
    map (fun i => nth i (dedup e l) d) (map (fun r => index_where (e r) (dedup e l)) l) = l.
  Proof.
    rewrite map_map. transitivity (map (fun x => x) l); [|apply map_id].
    apply map_ext_in. intros x Hx.
    apply index_where_nth. apply dedup_in; auto.
  Qed.
End Dedup.

Theorem classify_dedup : forall (rs : list (list elem)) d,
  map (fun i => nth i (dedup row_eqb rs) d) (classify_list rs) = rs.
Proof. intros. unfold classify_list. apply classify_dedup_list. apply row_eqb_eq. Qed.
(** deduplicate keeps exactly the rows of the array, once each *)
Theorem dedup_spec : forall (rs : list (list elem)),
  NoDup (dedup row_eqb rs) /\ (forall r, In r (dedup row_eqb rs) <-> In r rs).
Proof. intros; split; [apply dedup_nodup|intros; apply dedup_in]; apply row_eqb_eq. Qed.

(** match is reflexive on every array and decides equality of arrays *)
Theorem match_spec : forall a b, arr_eqb a b = true <-> a = b.
Proof.
  intros [t s d] [t' s' d']; unfold arr_eqb; cbn.
  rewrite !andb_true_iff, ety_eqb_eq, list_eqb_nat_eq, row_eqb_eq.
  split; [intros [[-> ->] ->]; auto|intros E; injection E; auto].
Qed.
