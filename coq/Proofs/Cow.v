(** C06 proofs about the CowSlice model (Model/Cow.v). *)
From Coq Require Import List NArith Bool Arith Lia.
From UV Require Import Model.Cow.
Import ListNotations.

(** Record of the defect repaired by commit 1c88250 ([fixed = false] is the code before it): a
    left-sided fill applied in place to a uniquely owned window with a hidden prefix rotated the
    hidden prefix into view (rotate_right on the whole vector inside modify_end, whose in-place
    test cowslice.rs:162 does not require start == 0). *)
Definition left_fill_witness : list op :=
  [ONew [1; 2; 3]%N; OSlice 0 1 3; ODrop 0; OExtRepeatFill 0 9%N true 2].

Lemma cow_left_fill_refuted_pre :
  exists ops, contents (run false ops state0) <> srun ops [].
Proof. exists left_fill_witness. vm_compute. discriminate. Qed.

Lemma cow_left_fill_witness_values :
  contents (run false left_fill_witness state0) = [[9; 1; 2; 3]%N] /\
  contents (run true left_fill_witness state0) = [[9; 9; 2; 3]%N] /\
  srun left_fill_witness [] = [[9; 9; 2; 3]%N].
Proof. vm_compute. repeat split; reflexivity. Qed.

(** * List lemmas *)
Lemma set_nth_length {A} (l : list A) i x : length (set_nth i x l) = length l.
Proof. revert i; induction l; destruct i; simpl; auto. Qed.

Lemma nth_error_set_nth_eq {A} (l : list A) i x y :
  nth_error l i = Some y -> nth_error (set_nth i x l) i = Some x.
Proof. revert i; induction l; destruct i; simpl; intros; try discriminate; auto. Qed.

Lemma nth_error_set_nth_neq {A} (l : list A) i j x :
  i <> j -> nth_error (set_nth i x l) j = nth_error l j.
Proof. revert i j; induction l; destruct i, j; simpl; intros; auto; try congruence. Qed.

Lemma set_nth_set_nth {A} (l : list A) i x y : set_nth i x (set_nth i y l) = set_nth i x l.
Proof. revert i; induction l; destruct i; simpl; intros; auto. f_equal; auto. Qed.

Lemma set_nth_same {A} (l : list A) i x : nth_error l i = Some x -> set_nth i x l = l.
Proof. revert i; induction l; destruct i; simpl; intros; try discriminate; auto; try congruence. f_equal; auto. Qed.

Lemma set_nth_none {A} (l : list A) i x : nth_error l i = None -> set_nth i x l = l.
Proof. revert i; induction l; destruct i; simpl; intros; try discriminate; auto. f_equal; auto. Qed.

Lemma set_nth_app_l {A} (l m : list A) i x y :
  nth_error l i = Some y -> set_nth i x (l ++ m) = set_nth i x l ++ m.
Proof. revert i; induction l; destruct i; simpl; intros; try discriminate; auto. f_equal; eauto. Qed.

Lemma del_nth_app_l {A} (l m : list A) i y :
  nth_error l i = Some y -> del_nth i (l ++ m) = del_nth i l ++ m.
Proof. revert i; induction l; destruct i; simpl; intros; try discriminate; auto. f_equal; eauto. Qed.

Lemma map_set_nth_ext {A B} (f f' : A -> B) (l : list A) i y :
  (forall j x, j <> i -> nth_error l j = Some x -> f' x = f x) ->
  map f' (set_nth i y l) = set_nth i (f' y) (map f l).
Proof.
  revert i; induction l; intros i Hf; destruct i; simpl; auto.
  - f_equal. apply map_ext_in. intros x Hx. apply In_nth_error in Hx. destruct Hx as [j Hj].
    apply (Hf (S j)); auto.
  - f_equal. + apply (Hf 0); auto. + apply IHl. intros j x Hj Hx. apply (Hf (S j)); auto.
Qed.

Lemma map_del_nth {A B} (f : A -> B) (l : list A) i : map f (del_nth i l) = del_nth i (map f l).
Proof. revert i; induction l; destruct i; simpl; auto. f_equal; auto. Qed.

Lemma nth_error_del_nth {A} (l : list A) i j :
  nth_error (del_nth i l) j = nth_error l (if Nat.ltb j i then j else S j).
Proof.
  revert i j; induction l; intros i j.
  - assert (Hn : forall n, nth_error (@nil A) n = None) by (destruct n; auto).
    destruct i; simpl; rewrite !Hn; auto.
  - destruct i; simpl.
    + reflexivity.
    + destruct j; simpl; auto. rewrite IHl.
      change (Nat.ltb (S j) (S i)) with (Nat.ltb j i). destruct (Nat.ltb j i); auto.
Qed.

Lemma nth_error_map_some {A B} (f : A -> B) l i x :
  nth_error l i = Some x -> nth_error (map f l) i = Some (f x).
Proof. intros. rewrite nth_error_map, H. reflexivity. Qed.
Lemma nth_error_map_none {A B} (f : A -> B) l i :
  nth_error l i = None -> nth_error (map f l) i = None.
Proof. intros. rewrite nth_error_map, H. reflexivity. Qed.

(** * Reference counting *)
Definition refs (o : option nat) (b : nat) : nat :=
  match o with Some b' => if Nat.eqb b' b then 1 else 0 | None => 0 end.
Fixpoint cnt (b : nat) (hs : list handle) : nat :=
  match hs with [] => 0 | h :: t => refs (hb h) b + cnt b t end.

Lemma cnt_app b l1 l2 : cnt b (l1 ++ l2) = cnt b l1 + cnt b l2.
Proof. induction l1; simpl; lia. Qed.

Lemma cnt_set_nth b hs i h h' :
  nth_error hs i = Some h -> cnt b (set_nth i h' hs) + refs (hb h) b = cnt b hs + refs (hb h') b.
Proof.
  revert i; induction hs; destruct i; simpl; intros; try discriminate.
  - inversion H; subst. lia.
  - specialize (IHhs _ H). lia.
Qed.

Lemma cnt_del_nth b hs i h :
  nth_error hs i = Some h -> cnt b (del_nth i hs) + refs (hb h) b = cnt b hs.
Proof.
  revert i; induction hs; destruct i; simpl; intros; try discriminate.
  - inversion H; subst. lia.
  - specialize (IHhs _ H). lia.
Qed.

Lemma cnt_one b hs i h : nth_error hs i = Some h -> refs (hb h) b <= cnt b hs.
Proof.
  revert i; induction hs; destruct i; simpl; intros; try discriminate.
  - inversion H; subst. lia.
  - specialize (IHhs _ H). lia.
Qed.

Lemma cnt_two b hs i j h hj :
  i <> j -> nth_error hs i = Some h -> nth_error hs j = Some hj ->
  refs (hb h) b + refs (hb hj) b <= cnt b hs.
Proof.
  revert i j; induction hs; intros i j Hij Hi Hj; destruct i, j; simpl in *; try discriminate; try congruence.
  - inversion Hi; subst. pose proof (cnt_one b _ _ _ Hj). lia.
  - inversion Hj; subst. pose proof (cnt_one b _ _ _ Hi). lia.
  - assert (i <> j) by congruence. specialize (IHhs _ _ H Hi Hj). lia.
Qed.

Lemma refs_self b : refs (Some b) b = 1.
Proof. simpl. rewrite Nat.eqb_refl. reflexivity. Qed.
Lemma refs_le1 o b : refs o b <= 1.
Proof. destruct o; simpl; auto. destruct (Nat.eqb n b); auto. Qed.

(** * The invariant *)
Definition hwf (hp : heap) (h : handle) : Prop :=
  match hb h with
  | None => hst h = 0 /\ hen h = 0
  | Some b => hst h <= hen h /\ hen h <= length (dat hp b)
  end.

Definition inv (s : state) : Prop :=
  (forall b, rc (fst s) b = cnt b (snd s)) /\
  (forall b, next (fst s) <= b -> rc (fst s) b = 0) /\
  (forall j hj, nth_error (snd s) j = Some hj -> hwf (fst s) hj).

Lemma view_length hp h : hwf hp h -> length (view hp h) = hen h - hst h.
Proof.
  unfold hwf, view, bdata. destruct (hb h).
  - intros [H1 H2]. rewrite firstn_length, skipn_length. lia.
  - intros [H1 H2]. rewrite H1, H2. reflexivity.
Qed.

Lemma inv0 : inv state0.
Proof. split; [|split]; simpl; intros; auto. destruct j; discriminate. Qed.

(** * Frame lemmas: what an update of one handle must satisfy *)
Lemma other_data_same hp hs i j h hj hp' :
  inv (hp, hs) -> nth_error hs i = Some h -> nth_error hs j = Some hj -> i <> j ->
  (forall b, refs (hb h) b < rc hp b -> dat hp' b = dat hp b) ->
  bdata hp' (hb hj) = bdata hp (hb hj).
Proof.
  intros [Hrc _] Hi Hj Hij Hd. unfold bdata. destruct (hb hj) as [b|] eqn:E; auto.
  apply Hd. simpl in Hrc. rewrite Hrc.
  pose proof (cnt_two b hs i j h hj Hij Hi Hj). rewrite E, refs_self in H. lia.
Qed.

Lemma hwf_same_data hp hp' h : bdata hp' (hb h) = bdata hp (hb h) -> hwf hp h -> hwf hp' h.
Proof. unfold hwf, bdata. destruct (hb h); auto. intros ->. auto. Qed.
Lemma view_same_data hp hp' h : bdata hp' (hb h) = bdata hp (hb h) -> view hp' h = view hp h.
Proof. unfold view. intros ->. reflexivity. Qed.

Lemma frame_set hp hs i h hp' h' :
  inv (hp, hs) -> nth_error hs i = Some h ->
  (forall b, rc hp' b + refs (hb h) b = rc hp b + refs (hb h') b) ->
  (forall b, next hp' <= b -> rc hp' b = 0) ->
  (forall b, refs (hb h) b < rc hp b -> dat hp' b = dat hp b) ->
  hwf hp' h' ->
  inv (hp', set_nth i h' hs) /\
  contents (hp', set_nth i h' hs) = set_nth i (view hp' h') (contents (hp, hs)).
Proof.
  intros Hinv Hi Hrc Hnext Hdat Hwf.
  assert (Hoth : forall j hj, j <> i -> nth_error hs j = Some hj -> bdata hp' (hb hj) = bdata hp (hb hj)).
  { intros j hj Hji Hj. apply (other_data_same hp hs i j h hj hp' Hinv Hi Hj (fun e => Hji (eq_sym e)) Hdat). }
  split.
  - destruct Hinv as [H1 [H2 H3]]. simpl in *. split; [|split]; simpl.
    + intros b. pose proof (cnt_set_nth b hs i h h' Hi). specialize (Hrc b). specialize (H1 b). lia.
    + assumption.
    + intros j hj Hj. destruct (Nat.eq_dec i j) as [->|Hne].
      * rewrite (nth_error_set_nth_eq _ _ _ _ Hi) in Hj. inversion Hj; subst; auto.
      * rewrite nth_error_set_nth_neq in Hj by auto.
        eapply hwf_same_data; [apply (Hoth j); auto | eapply H3; eauto].
  - unfold contents; simpl. apply map_set_nth_ext. intros j x Hji Hx.
    apply view_same_data. eapply Hoth; eauto.
Qed.

Lemma frame_add hp hs hp' h' :
  inv (hp, hs) ->
  (forall b, rc hp' b = rc hp b + refs (hb h') b) ->
  (forall b, next hp' <= b -> rc hp' b = 0) ->
  (forall b, 0 < rc hp b -> dat hp' b = dat hp b) ->
  hwf hp' h' ->
  inv (hp', hs ++ [h']) /\
  contents (hp', hs ++ [h']) = contents (hp, hs) ++ [view hp' h'].
Proof.
  intros [H1 [H2 H3]] Hrc Hnext Hdat Hwf. simpl in *.
  assert (Hoth : forall j hj, nth_error hs j = Some hj -> bdata hp' (hb hj) = bdata hp (hb hj)).
  { intros j hj Hj. unfold bdata. destruct (hb hj) as [b|] eqn:E; auto. apply Hdat. rewrite H1.
    pose proof (cnt_one b _ _ _ Hj). rewrite E, refs_self in H. lia. }
  split.
  - split; [|split]; simpl.
    + intros b. rewrite cnt_app. simpl. rewrite Hrc, H1. lia.
    + assumption.
    + intros j hj Hj. destruct (Nat.lt_ge_cases j (length hs)).
      * rewrite nth_error_app1 in Hj by auto. eapply hwf_same_data; [eapply Hoth; eauto | eapply H3; eauto].
      * rewrite nth_error_app2 in Hj by auto. destruct (j - length hs); simpl in Hj.
        -- inversion Hj; subst; auto.
        -- destruct n; discriminate.
  - unfold contents; simpl. rewrite map_app. simpl. f_equal.
    apply map_ext_in. intros x Hx. apply In_nth_error in Hx. destruct Hx as [j Hj].
    apply view_same_data. eapply Hoth; eauto.
Qed.

Lemma frame_del hp hs i h :
  inv (hp, hs) -> nth_error hs i = Some h ->
  inv (decr hp (hb h), del_nth i hs) /\
  contents (decr hp (hb h), del_nth i hs) = del_nth i (contents (hp, hs)).
Proof.
  intros [H1 [H2 H3]] Hi. simpl in *. split.
  - split; [|split]; simpl.
    + intros b. pose proof (cnt_del_nth b hs i h Hi). specialize (H1 b).
      pose proof (cnt_one b _ _ _ Hi).
      unfold decr. destruct (hb h) as [b0|] eqn:E; simpl in *.
      * unfold upd. destruct (Nat.eqb_spec b b0); subst.
        -- rewrite Nat.eqb_refl in *. pose proof (H1). lia.
        -- destruct (Nat.eqb_spec b0 b); subst; try congruence. lia.
      * lia.
    + intros b Hb. unfold decr. destruct (hb h) as [b0|]; simpl in *; auto.
      unfold upd. destruct (Nat.eqb_spec b b0); subst; auto. rewrite (H2 b0 Hb). reflexivity.
    + intros j hj Hj. rewrite nth_error_del_nth in Hj. apply H3 in Hj.
      eapply hwf_same_data; [|exact Hj]. unfold decr. destruct (hb h); reflexivity.
  - unfold contents; simpl. rewrite <- map_del_nth. apply map_ext. intros a.
    apply view_same_data. unfold decr. destruct (hb h); reflexivity.
Qed.

Lemma frame_set' hp hs i h hp' h' v :
  inv (hp, hs) -> nth_error hs i = Some h ->
  (forall b, rc hp' b + refs (hb h) b = rc hp b + refs (hb h') b) ->
  (forall b, next hp' <= b -> rc hp' b = 0) ->
  (forall b, refs (hb h) b < rc hp b -> dat hp' b = dat hp b) ->
  hwf hp' h' -> view hp' h' = v ->
  inv (hp', set_nth i h' hs) /\
  contents (hp', set_nth i h' hs) = set_nth i v (contents (hp, hs)).
Proof. intros. subst v. eapply frame_set; eauto. Qed.

(** * Heap primitives *)
Ltac eqb_cases :=
  repeat match goal with
  | |- context [Nat.eqb ?a ?b] => destruct (Nat.eqb_spec a b); subst
  | H : context [Nat.eqb ?a ?b] |- _ => destruct (Nat.eqb_spec a b); subst
  end.

Lemma no_ref_next hp hs i h : inv (hp, hs) -> nth_error hs i = Some h -> refs (hb h) (next hp) = 0.
Proof.
  intros [H1 [H2 _]] Hi. simpl in *. pose proof (cnt_one (next hp) _ _ _ Hi).
  rewrite <- H1, (H2 (next hp)) in H; lia.
Qed.

Lemma rc_pos hp hs i h b : inv (hp, hs) -> nth_error hs i = Some h -> hb h = Some b -> 1 <= rc hp b.
Proof.
  intros [H1 _] Hi E. simpl in *. pose proof (cnt_one b _ _ _ Hi). rewrite E, refs_self in H. rewrite H1. lia.
Qed.

Lemma view_whole hp b n : dat hp b = dat hp b -> n = length (dat hp b) -> view hp (H (Some b) 0 n) = dat hp b.
Proof. intros _ ->. unfold view; simpl. rewrite Nat.sub_0_r. apply firstn_all. Qed.

(** replacing handle i by a freshly built vector (the copy branches) *)
Lemma fresh_replace_ok hp hs i h w g :
  inv (hp, hs) -> nth_error hs i = Some h ->
  inv (decr (fst (fresh_from hp w g)) (hb h), set_nth i (snd (fresh_from hp w g)) hs) /\
  contents (decr (fst (fresh_from hp w g)) (hb h), set_nth i (snd (fresh_from hp w g)) hs)
  = set_nth i (vf g w) (contents (hp, hs)).
Proof.
  intros Hinv Hi. pose proof (no_ref_next _ _ _ _ Hinv Hi) as Hnr.
  unfold fresh_from. destruct (negb (isnil w) || valloc g) eqn:Ec; simpl fst; simpl snd.
  - apply frame_set' with (h := h); [exact Hinv | exact Hi | | | | | ].
    + intros b. destruct Hinv as [H1 [H2 _]]. simpl in H1, H2.
      pose proof (H2 (next hp) (le_n _)) as Hz.
      destruct (hb h) as [b0|] eqn:E; simpl.
      * assert (1 <= rc hp b0). { pose proof (cnt_one b0 _ _ _ Hi). rewrite E, refs_self in H. rewrite H1. lia. }
        simpl in Hnr. unfold upd. eqb_cases; try lia; try discriminate.
      * unfold upd. eqb_cases; lia.
    + intros b Hb. destruct Hinv as [_ [H2 _]]. simpl in H2.
      assert (rc hp b = 0) by (apply H2; simpl in Hb; destruct (hb h); simpl in Hb; lia).
      destruct (hb h) as [b0|]; simpl in *; unfold upd; eqb_cases; try lia.
    + intros b Hb. destruct Hinv as [_ [H2 _]]. simpl in H2.
      destruct (hb h) as [b0|]; simpl; unfold upd; eqb_cases; auto; rewrite (H2 (next hp)) in Hb; lia.
    + unfold hwf; simpl. split; [lia|].
      destruct (hb h) as [b0|]; simpl; unfold upd; rewrite Nat.eqb_refl; auto.
    + unfold view; simpl. rewrite Nat.sub_0_r.
      assert (Hd : dat (decr (Heap (upd (dat hp) (next hp) (vf g w)) (upd (rc hp) (next hp) 1) (S (next hp))) (hb h)) (next hp) = vf g w).
      { unfold decr. destruct (hb h); simpl; unfold upd; rewrite Nat.eqb_refl; reflexivity. }
      rewrite Hd. apply firstn_all.
  - apply orb_false_iff in Ec. destruct Ec as [Ew Ea]. unfold valloc in Ea.
    apply orb_false_iff in Ea. destruct Ea as [_ Ea].
    destruct w; simpl in Ew; try discriminate.
    destruct (vf g []) eqn:Eg; simpl in Ea; try discriminate.
    apply frame_set' with (h := h); [exact Hinv | exact Hi | | | | | reflexivity].
    + intros b. simpl. destruct Hinv as [H1 _]. simpl in H1.
      pose proof (cnt_one b _ _ _ Hi). rewrite <- H1 in H.
      destruct (hb h) as [b0|]; simpl in *; unfold upd; eqb_cases; lia.
    + intros b Hb. destruct Hinv as [_ [H2 _]]. simpl in H2.
      assert (rc hp b = 0) by (apply H2; destruct (hb h); exact Hb).
      destruct (hb h) as [b0|]; simpl in *; unfold upd; eqb_cases; auto; lia.
    + intros b _. destruct (hb h); reflexivity.
    + unfold hwf; simpl. auto.
Qed.

(** updating the buffer of a uniquely owned handle in place *)
Lemma inplace_ok hp hs i h b d' en' :
  inv (hp, hs) -> nth_error hs i = Some h -> hb h = Some b -> rc hp b = 1 ->
  hst h <= en' -> en' <= length d' ->
  inv (setdat hp b d', set_nth i (H (Some b) (hst h) en') hs) /\
  contents (setdat hp b d', set_nth i (H (Some b) (hst h) en') hs)
  = set_nth i (firstn (en' - hst h) (skipn (hst h) d')) (contents (hp, hs)).
Proof.
  intros Hinv Hi Hb Hrc H1 H2.
  apply frame_set' with (h := h); [exact Hinv | exact Hi | | | | | ].
  - intros b'. simpl. rewrite Hb. reflexivity.
  - destruct Hinv as [_ [Hn _]]. exact Hn.
  - intros b' Hlt. simpl. unfold upd. destruct (Nat.eqb_spec b' b); subst; auto.
    rewrite Hb, refs_self in Hlt. lia.
  - unfold hwf; simpl. unfold upd. rewrite Nat.eqb_refl. auto.
  - unfold view; simpl. unfold upd. rewrite Nat.eqb_refl. reflexivity.
Qed.

Lemma let_pair {A B C} (p : A * B) (f : A -> C) :
  (let '(a, b) := p in (f a, b)) = (f (fst p), snd p).
Proof. destruct p; reflexivity. Qed.

Lemma modify_gen_ok ns g hp hs i h :
  inv (hp, hs) -> nth_error hs i = Some h ->
  (ns = true \/ forall d, length d <= length (vf g d)) ->
  (ns = true \/ forall pre, vf g (pre ++ view hp h) = pre ++ vf g (view hp h)) ->
  inv (fst (modify_gen ns hp h g), set_nth i (snd (modify_gen ns hp h g)) hs) /\
  contents (fst (modify_gen ns hp h g), set_nth i (snd (modify_gen ns hp h g)) hs)
  = set_nth i (vf g (view hp h)) (contents (hp, hs)).
Proof.
  intros Hinv Hi Hgrow Hloc.
  assert (Hwf : hwf hp h) by (destruct Hinv as [_ [_ H3]]; eapply H3; eauto).
  unfold modify_gen.
  destruct (unique hp (hb h) && (negb ns || Nat.eqb (hst h) 0) && Nat.eqb (hen h) (length (bdata hp (hb h)))) eqn:Ec.
  - apply andb_true_iff in Ec. destruct Ec as [Ec Een]. apply andb_true_iff in Ec. destruct Ec as [Eu Est].
    apply Nat.eqb_eq in Een.
    destruct (hb h) as [b|] eqn:Eb.
    + simpl fst; simpl snd. simpl in Eu. apply Nat.eqb_eq in Eu. simpl in Een.
      unfold hwf in Hwf. rewrite Eb in Hwf. destruct Hwf as [Hse Hel].
      assert (Hview : view hp h = skipn (hst h) (dat hp b)).
      { unfold view. rewrite Eb. simpl. rewrite Een. apply firstn_all2. rewrite skipn_length. lia. }
      assert (Hst' : hst h <= length (vf g (dat hp b))).
      { destruct Hgrow as [->|Hg].
        - simpl in Est. apply Nat.eqb_eq in Est. lia.
        - specialize (Hg (dat hp b)). lia. }
      assert (Hres : firstn (length (vf g (dat hp b)) - hst h) (skipn (hst h) (vf g (dat hp b))) = vf g (view hp h)).
      { rewrite firstn_all2 by (rewrite skipn_length; lia).
        destruct Hloc as [->|Hl].
        - simpl in Est. apply Nat.eqb_eq in Est. rewrite Hview, Est. reflexivity.
        - rewrite <- (firstn_skipn (hst h) (dat hp b)) at 1. rewrite <- Hview, Hl.
          rewrite skipn_app. rewrite firstn_length, Nat.min_l by lia. rewrite Nat.sub_diag. simpl.
          rewrite skipn_all2; [reflexivity|]. rewrite firstn_length. lia. }
      rewrite <- Hres. apply inplace_ok; auto.
    + (* unallocated: the in-place branch coincides with building a fresh vector from [] *)
      unfold hwf in Hwf. rewrite Eb in Hwf. destruct Hwf as [Hs He].
      assert (Hv : view hp h = []). { unfold view. rewrite Eb, Hs, He. reflexivity. }
      pose proof (fresh_replace_ok hp hs i h [] g Hinv Hi) as Hf. rewrite Eb in Hf. simpl decr in Hf.
      rewrite Hv. unfold fresh_from in Hf. simpl negb in Hf. simpl orb in Hf.
      destruct (valloc g) eqn:Ea.
      * simpl in Hf. simpl. rewrite Hs. exact Hf.
      * simpl in Hf. simpl. destruct h as [o s e]. simpl in *. subst. exact Hf.
  - rewrite let_pair. simpl fst. simpl snd. apply fresh_replace_ok; auto.
Qed.

(** * Closures *)
Lemma rotl_length n d : length (rotl n d) = length d.
Proof. unfold rotl. rewrite app_length, skipn_length, firstn_length. lia. Qed.
Lemma rotr_length n d : length (rotr n d) = length d.
Proof. apply rotl_length. Qed.

Lemma v_app_grow l d : length d <= length (vf (v_app l) d).
Proof. simpl. rewrite app_length. lia. Qed.
Lemma v_app_local l pre w : vf (v_app l) (pre ++ w) = pre ++ vf (v_app l) w.
Proof. simpl. rewrite app_assoc. reflexivity. Qed.

Lemma v_fill_grow lf ext len d : length d <= length (vf (v_fill true lf ext len) d).
Proof.
  simpl. destruct lf.
  - rewrite app_length, rotr_length, firstn_length, skipn_length, app_length. lia.
  - rewrite app_length. lia.
Qed.
Lemma v_fill_local lf ext w pre :
  vf (v_fill true lf ext (length w)) (pre ++ w) = pre ++ vf (v_fill true lf ext (length w)) w.
Proof.
  simpl. destruct lf.
  - rewrite !app_length.
    replace (length pre + length w + length ext - length w - length ext) with (length pre) by lia.
    replace (length w + length ext - length w - length ext) with 0 by lia.
    simpl. rewrite <- app_assoc.
    rewrite firstn_app, Nat.sub_diag, firstn_all. simpl. rewrite app_nil_r.
    rewrite skipn_app, Nat.sub_diag, skipn_all. simpl. reflexivity.
  - rewrite app_assoc. reflexivity.
Qed.

(** * Simulation of single operations *)
Lemma on_handle_sim (f : heap -> handle -> heap * handle) (F : list T -> list T) hp hs i :
  inv (hp, hs) ->
  (forall h, nth_error hs i = Some h ->
     inv (fst (f hp h), set_nth i (snd (f hp h)) hs) /\
     contents (fst (f hp h), set_nth i (snd (f hp h)) hs) = set_nth i (F (view hp h)) (contents (hp, hs))) ->
  inv (on_handle (hp, hs) i f) /\
  contents (on_handle (hp, hs) i f) = on_list (contents (hp, hs)) i F.
Proof.
  intros Hinv Hf. unfold on_handle, on_list. simpl fst; simpl snd.
  assert (Hc : nth_error (contents (hp, hs)) i = option_map (view hp) (nth_error hs i))
    by (unfold contents; simpl; apply nth_error_map).
  rewrite Hc. destruct (nth_error hs i) as [h|]; simpl.
  - specialize (Hf h eq_refl). destruct (f hp h) as [hp' h']. exact Hf.
  - auto.
Qed.

Lemma modify_sim ns g (F : list T -> list T) hp hs i :
  inv (hp, hs) ->
  (ns = true \/ forall d, length d <= length (vf g d)) ->
  (forall h, nth_error hs i = Some h ->
     (ns = true \/ forall pre, vf g (pre ++ view hp h) = pre ++ vf g (view hp h)) /\
     vf g (view hp h) = F (view hp h)) ->
  inv (on_handle (hp, hs) i (fun hp h => modify_gen ns hp h g)) /\
  contents (on_handle (hp, hs) i (fun hp h => modify_gen ns hp h g)) = on_list (contents (hp, hs)) i F.
Proof.
  intros Hinv Hg Hl. apply on_handle_sim; auto. intros h Hi.
  destruct (Hl h Hi) as [Hloc HF]. rewrite <- HF. apply modify_gen_ok; auto.
Qed.

Lemma rewindow_ok hp hs i h a e :
  inv (hp, hs) -> nth_error hs i = Some h -> hwf hp (H (hb h) a e) ->
  inv (hp, set_nth i (H (hb h) a e) hs) /\
  contents (hp, set_nth i (H (hb h) a e) hs) = set_nth i (view hp (H (hb h) a e)) (contents (hp, hs)).
Proof.
  intros Hinv Hi Hw. apply frame_set with (h := h); auto.
  destruct Hinv as [_ [Hn _]]. exact Hn.
Qed.

Lemma truncate_ok hp hs i h n :
  inv (hp, hs) -> nth_error hs i = Some h ->
  inv (fst (truncate hp h n), set_nth i (snd (truncate hp h n)) hs) /\
  contents (fst (truncate hp h n), set_nth i (snd (truncate hp h n)) hs)
  = set_nth i (firstn n (view hp h)) (contents (hp, hs)).
Proof.
  intros Hinv Hi.
  assert (Hwf : hwf hp h) by (destruct Hinv as [_ [_ H3]]; eapply H3; eauto).
  unfold truncate. simpl fst; simpl snd.
  assert (Hview : forall d : list T, firstn (Nat.min (hst h + n) (hen h) - hst h) (skipn (hst h) d)
                            = firstn n (firstn (hen h - hst h) (skipn (hst h) d))).
  { intros d. rewrite firstn_firstn. f_equal. lia. }
  destruct (unique hp (hb h)) eqn:Eu; destruct (hb h) as [b|] eqn:Eb.
  - simpl in Eu. apply Nat.eqb_eq in Eu. unfold hwf in Hwf. rewrite Eb in Hwf. destruct Hwf as [H1 H2].
    unfold view. rewrite Eb. simpl bdata. rewrite <- Hview.
    replace (firstn (Nat.min (hst h + n) (hen h) - hst h) (skipn (hst h) (dat hp b)))
      with (firstn (Nat.min (hst h + n) (hen h) - hst h) (skipn (hst h) (firstn (hst h + n) (dat hp b)))).
    + apply inplace_ok; auto; try lia. rewrite firstn_length. lia.
    + rewrite skipn_firstn_comm, firstn_firstn. f_equal. lia.
  - unfold view. rewrite Eb. rewrite <- Hview.
    pose proof (rewindow_ok hp hs i h (hst h) (Nat.min (hst h + n) (hen h)) Hinv Hi) as Hr.
    rewrite Eb in Hr. apply Hr. unfold hwf in *. rewrite Eb in Hwf. simpl. lia.
  - unfold view. rewrite Eb. rewrite <- Hview.
    pose proof (rewindow_ok hp hs i h (hst h) (Nat.min (hst h + n) (hen h)) Hinv Hi) as Hr.
    rewrite Eb in Hr. apply Hr. unfold hwf in *. rewrite Eb in Hwf. simpl. lia.
  - unfold view. rewrite Eb. rewrite <- Hview.
    pose proof (rewindow_ok hp hs i h (hst h) (Nat.min (hst h + n) (hen h)) Hinv Hi) as Hr.
    rewrite Eb in Hr. apply Hr. unfold hwf in *. rewrite Eb in Hwf. simpl. lia.
Qed.

Lemma skipn_set_nth {A} a k (x : A) d : skipn a (set_nth (a + k) x d) = set_nth k x (skipn a d).
Proof.
  revert d; induction a; intros d; simpl; auto.
  destruct d; simpl; auto. destruct k; reflexivity.
Qed.
Lemma firstn_set_nth {A} m k (x : A) l : k < m -> firstn m (set_nth k x l) = set_nth k x (firstn m l).
Proof.
  revert k l; induction m; intros k l Hk; [lia|].
  destruct l; simpl; [destruct k; reflexivity|]. destruct k; simpl; auto. f_equal. apply IHm. lia.
Qed.

Lemma contents_nth hp hs i h : nth_error hs i = Some h -> nth_error (contents (hp, hs)) i = Some (view hp h).
Proof. intros. unfold contents; simpl. apply nth_error_map_some; auto. Qed.

Lemma as_mut_ok hp hs i h :
  inv (hp, hs) -> nth_error hs i = Some h ->
  inv (fst (as_mut hp h), set_nth i (snd (as_mut hp h)) hs) /\
  contents (fst (as_mut hp h), set_nth i (snd (as_mut hp h)) hs) = contents (hp, hs) /\
  unique (fst (as_mut hp h)) (hb (snd (as_mut hp h))) = true /\
  view (fst (as_mut hp h)) (snd (as_mut hp h)) = view hp h.
Proof.
  intros Hinv Hi. unfold as_mut. destruct (unique hp (hb h)) eqn:Eu.
  - simpl. rewrite (set_nth_same _ _ _ Hi). auto.
  - rewrite let_pair. simpl fst; simpl snd.
    destruct (fresh_replace_ok hp hs i h (view hp h) v_id Hinv Hi) as [A B].
    simpl vf in B. rewrite (set_nth_same _ _ _ (contents_nth hp hs i h Hi)) in B.
    split; [exact A|]. split; [exact B|].
    pose proof (no_ref_next _ _ _ _ Hinv Hi) as Hnr.
    unfold fresh_from. destruct (negb (isnil (view hp h)) || valloc v_id) eqn:Ec; simpl.
    + split.
      * destruct (hb h) as [b0|]; simpl in *; unfold upd; eqb_cases; auto; try discriminate.
      * unfold view; simpl. rewrite Nat.sub_0_r.
        assert (Hd : dat (decr (Heap (upd (dat hp) (next hp) (view hp h)) (upd (rc hp) (next hp) 1) (S (next hp))) (hb h)) (next hp) = view hp h).
        { unfold decr. destruct (hb h); simpl; unfold upd; rewrite Nat.eqb_refl; reflexivity. }
        unfold view in Hd. rewrite Hd. apply firstn_all.
    + split; auto. apply orb_false_iff in Ec. destruct Ec as [Ew _].
      destruct (view hp h); simpl in Ew; try discriminate. reflexivity.
Qed.

Lemma write_ok hp hs i h k x :
  inv (hp, hs) -> nth_error hs i = Some h ->
  inv (fst (write hp h k x), set_nth i (snd (write hp h k x)) hs) /\
  contents (fst (write hp h k x), set_nth i (snd (write hp h k x)) hs)
  = set_nth i (if Nat.ltb k (length (view hp h)) then set_nth k x (view hp h) else view hp h) (contents (hp, hs)).
Proof.
  intros Hinv Hi. unfold write.
  destruct (as_mut_ok hp hs i h Hinv Hi) as [A [B [C D]]].
  destruct (as_mut hp h) as [hp1 h1]. simpl fst in *; simpl snd in *.
  assert (Hi1 : nth_error (set_nth i h1 hs) i = Some h1) by (eapply nth_error_set_nth_eq; eauto).
  assert (Hwf1 : hwf hp1 h1) by (destruct A as [_ [_ H3]]; eapply H3; eauto).
  pose proof (view_length _ _ Hwf1) as Hlen. rewrite D in Hlen.
  assert (Hsame : set_nth i (view hp h) (contents (hp, hs)) = contents (hp, hs))
    by (apply set_nth_same; apply contents_nth; auto).
  destruct (hb h1) as [b|] eqn:Eb.
  - rewrite Hlen. destruct (Nat.ltb k (hen h1 - hst h1)) eqn:Ek.
    + apply Nat.ltb_lt in Ek. simpl in C. apply Nat.eqb_eq in C.
      unfold hwf in Hwf1. rewrite Eb in Hwf1. destruct Hwf1 as [W1 W2].
      destruct (inplace_ok hp1 (set_nth i h1 hs) i h1 b (set_nth (hst h1 + k) x (dat hp1 b)) (hen h1) A Hi1 Eb C W1) as [A' B'].
      { rewrite set_nth_length. exact W2. }
      rewrite set_nth_set_nth in A', B'. rewrite B in B'.
      replace (H (Some b) (hst h1) (hen h1)) with h1 in A', B' by (destruct h1; simpl in *; subst; reflexivity).
      simpl fst; simpl snd. split; [exact A'|]. rewrite B'. f_equal.
      rewrite skipn_set_nth, firstn_set_nth by lia. rewrite <- D. unfold view. rewrite Eb. reflexivity.
    + simpl fst; simpl snd. rewrite Hsame. auto.
  - simpl fst; simpl snd. rewrite Hlen.
    unfold hwf in Hwf1. rewrite Eb in Hwf1. destruct Hwf1 as [W1 W2]. rewrite W1, W2. simpl.
    rewrite Hsame. auto.
Qed.

Lemma hwf_empty_window hp o : hwf hp (H o 0 0).
Proof. unfold hwf; simpl. destruct o; split; auto; lia. Qed.

Lemma clear_ok hp hs i h :
  inv (hp, hs) -> nth_error hs i = Some h ->
  inv (fst (clear hp h), set_nth i (snd (clear hp h)) hs) /\
  contents (fst (clear hp h), set_nth i (snd (clear hp h)) hs) = set_nth i [] (contents (hp, hs)).
Proof.
  intros Hinv Hi. unfold clear. destruct (unique hp (hb h)) eqn:Eu.
  - destruct (modify_gen_ok true v_clear hp hs i h Hinv Hi (or_introl eq_refl) (or_introl eq_refl)) as [A B].
    destruct (modify_gen true hp h v_clear) as [hp1 h1]. simpl fst in *; simpl snd in *.
    assert (Hi1 : nth_error (set_nth i h1 hs) i = Some h1) by (eapply nth_error_set_nth_eq; eauto).
    destruct (rewindow_ok hp1 (set_nth i h1 hs) i h1 0 0 A Hi1 (hwf_empty_window _ _)) as [A' B'].
    rewrite set_nth_set_nth in A', B'. split; [exact A'|].
    rewrite B', B, set_nth_set_nth. reflexivity.
  - pose proof (fresh_replace_ok hp hs i h [] v_clear Hinv Hi) as Hf. simpl in Hf. exact Hf.
Qed.

(** * Operations that add or remove handles *)
Lemma frame_add' hp hs hp' h' v :
  inv (hp, hs) ->
  (forall b, rc hp' b = rc hp b + refs (hb h') b) ->
  (forall b, next hp' <= b -> rc hp' b = 0) ->
  (forall b, 0 < rc hp b -> dat hp' b = dat hp b) ->
  hwf hp' h' -> view hp' h' = v ->
  inv (hp', hs ++ [h']) /\
  contents (hp', hs ++ [h']) = contents (hp, hs) ++ [v].
Proof. intros. subst v. apply frame_add; auto. Qed.

Lemma fresh_add_ok hp hs w g :
  inv (hp, hs) ->
  inv (fst (fresh_from hp w g), hs ++ [snd (fresh_from hp w g)]) /\
  contents (fst (fresh_from hp w g), hs ++ [snd (fresh_from hp w g)]) = contents (hp, hs) ++ [vf g w].
Proof.
  intros Hinv. unfold fresh_from. destruct (negb (isnil w) || valloc g) eqn:Ec; simpl fst; simpl snd.
  - assert (Hz : rc hp (next hp) = 0) by (destruct Hinv as [_ [H2 _]]; apply H2; simpl; lia).
    apply frame_add'; [exact Hinv | | | | | ].
    + intros b. simpl. unfold upd. eqb_cases; lia.
    + intros b Hb. simpl in *. destruct Hinv as [_ [H2 _]]. simpl in H2. unfold upd. eqb_cases; try lia. apply H2. lia.
    + intros b Hb. simpl. unfold upd. eqb_cases; auto. lia.
    + unfold hwf; simpl. unfold upd. rewrite Nat.eqb_refl. split; lia.
    + unfold view; simpl. unfold upd. rewrite Nat.eqb_refl, Nat.sub_0_r. apply firstn_all.
  - apply orb_false_iff in Ec. destruct Ec as [Ew Ea]. unfold valloc in Ea.
    apply orb_false_iff in Ea. destruct Ea as [_ Ea].
    destruct w; simpl in Ew; try discriminate.
    destruct (vf g []) eqn:Eg; simpl in Ea; try discriminate.
    apply frame_add'; [exact Hinv | | | | | reflexivity].
    + intros b. simpl. lia.
    + destruct Hinv as [_ [H2 _]]. exact H2.
    + auto.
    + apply hwf_empty_window.
Qed.

Lemma dup_ok hp hs i h a e :
  inv (hp, hs) -> nth_error hs i = Some h -> hwf hp (H (hb h) a e) ->
  inv (incr hp (hb h), hs ++ [H (hb h) a e]) /\
  contents (incr hp (hb h), hs ++ [H (hb h) a e]) = contents (hp, hs) ++ [view hp (H (hb h) a e)].
Proof.
  intros Hinv Hi Hw.
  assert (Hd : forall o, dat (incr hp o) = dat hp) by (destruct o; reflexivity).
  apply frame_add'; [exact Hinv | | | | | ].
  - intros b. simpl. unfold incr. destruct (hb h) as [b0|]; simpl; unfold upd; eqb_cases; lia.
  - intros b Hb.
    assert (Hz : rc hp b = 0) by (destruct Hinv as [_ [H2 _]]; apply H2; destruct (hb h); exact Hb).
    destruct (hb h) as [b0|] eqn:E; simpl in *; auto. unfold upd. eqb_cases; auto.
    pose proof (rc_pos hp hs i h b0 Hinv Hi E). lia.
  - intros b _. rewrite Hd. reflexivity.
  - unfold hwf in *. simpl in *. destruct (hb h); auto; try (rewrite Hd; exact Hw).
  - unfold view, bdata; simpl. destruct (hb h); reflexivity.
Qed.

(** into_slices *)
Lemma skipn_skipn {A} x y (l : list A) : skipn x (skipn y l) = skipn (x + y) l.
Proof.
  revert l; induction y; intros l; simpl.
  - rewrite Nat.add_0_r. reflexivity.
  - rewrite Nat.add_succ_r. destruct l; simpl; [destruct x; reflexivity|]. apply IHy.
Qed.
Definition mk_from (h : handle) (size k0 count : nat) : list handle :=
  map (fun k => H (hb h) (hst h + k * size) (hst h + k * size + size)) (seq k0 count).

Lemma mk_slices_from h size count : mk_slices h size count = mk_from h size 0 count.
Proof. reflexivity. Qed.

Lemma view_chunks hp h size count k0 :
  (k0 + count) * size <= hen h - hst h ->
  map (view hp) (mk_from h size k0 count) = chunks size count (skipn (k0 * size) (view hp h)).
Proof.
  revert k0; induction count; intros k0 Hle; simpl; auto.
  f_equal.
  - unfold view; simpl.
    replace (hst h + k0 * size + size - (hst h + k0 * size)) with size by lia.
    rewrite skipn_firstn_comm, skipn_skipn, firstn_firstn.
    replace (k0 * size + hst h) with (hst h + k0 * size) by lia. f_equal. nia.
  - unfold mk_from in IHcount. rewrite IHcount by nia.
    rewrite skipn_skipn. f_equal.
Qed.

Lemma incr_n_dat n hp o : dat (incr_n n hp o) = dat hp.
Proof. induction n; simpl; auto. destruct o; simpl; auto. Qed.

Lemma slices_add hp hs i h size count :
  inv (hp, hs) -> nth_error hs i = Some h ->
  count * size <= hen h - hst h ->
  inv (incr_n count hp (hb h), hs ++ mk_from h size 0 count) /\
  contents (incr_n count hp (hb h), hs ++ mk_from h size 0 count)
  = contents (hp, hs) ++ map (view hp) (mk_from h size 0 count).
Proof.
  intros Hinv Hi.
  assert (Hwf : hwf hp h) by (destruct Hinv as [_ [_ H3]]; eapply H3; eauto).
  induction count; intros Hle.
  - simpl. rewrite !app_nil_r. auto.
  - destruct IHcount as [A B]; [nia|].
    unfold mk_from. rewrite seq_S, map_app. simpl. rewrite !app_assoc.
    fold (mk_from h size 0 count).
    assert (Hi' : nth_error (hs ++ mk_from h size 0 count) i = Some h).
    { rewrite nth_error_app1; auto. apply nth_error_Some. congruence. }
    assert (Hw : hwf (incr_n count hp (hb h)) (H (hb h) (hst h + count * size) (hst h + count * size + size))).
    { unfold hwf in *. simpl. destruct (hb h); [|nia]. rewrite incr_n_dat. nia. }
    destruct (dup_ok _ _ i h _ _ A Hi' Hw) as [A' B'].
    split; [exact A'|]. rewrite B', B, map_app. simpl. rewrite <- !app_assoc. do 2 f_equal.
    unfold view, bdata. simpl. destruct (hb h); auto. rewrite incr_n_dat. reflexivity.
Qed.

(** * One step of the model refines one step on plain lists *)
Definition sim_ok (s : state) (o : op) : Prop :=
  inv (step true s o) /\ contents (step true s o) = sstep (contents s) o.

Lemma handle_eta h : H (hb h) (hst h) (hen h) = h.
Proof. destruct h; reflexivity. Qed.

Lemma inv_hwf hp hs i h : inv (hp, hs) -> nth_error hs i = Some h -> hwf hp h.
Proof. intros [_ [_ H3]] Hi. eapply H3; eauto. Qed.

Lemma contents_nth_none hp hs i : nth_error hs i = None -> nth_error (contents (hp, hs)) i = None.
Proof. intros. unfold contents; simpl. apply nth_error_map_none; auto. Qed.

Lemma del_nth_none {A} (l : list A) i : nth_error l i = None -> del_nth i l = l.
Proof. revert i; induction l; destruct i; simpl; intros; try discriminate; auto. f_equal; auto. Qed.

Lemma sim_new hp hs l : inv (hp, hs) -> sim_ok (hp, hs) (ONew l).
Proof.
  intros Hinv. unfold sim_ok. simpl.
  pose proof (fresh_add_ok hp hs [] (v_app l) Hinv) as Hf.
  destruct (fresh_from hp [] (v_app l)) as [hp' h]. exact Hf.
Qed.

Lemma sim_clone hp hs i : inv (hp, hs) -> sim_ok (hp, hs) (OClone i).
Proof.
  intros Hinv. unfold sim_ok. simpl. destruct (nth_error hs i) as [h|] eqn:E.
  - rewrite (contents_nth hp hs i h E).
    pose proof (dup_ok hp hs i h (hst h) (hen h) Hinv E) as Hd. rewrite handle_eta in Hd.
    apply Hd. eapply inv_hwf; eauto.
  - rewrite (contents_nth_none hp hs i E). auto.
Qed.

Lemma sim_slice hp hs i a b : inv (hp, hs) -> sim_ok (hp, hs) (OSlice i a b).
Proof.
  intros Hinv. unfold sim_ok. simpl. destruct (nth_error hs i) as [h|] eqn:E.
  - rewrite (contents_nth hp hs i h E).
    pose proof (inv_hwf _ _ _ _ Hinv E) as Hwf. rewrite (view_length _ _ Hwf).
    assert (Hse : hst h <= hen h) by (unfold hwf in Hwf; destruct (hb h); lia).
    replace (Nat.leb (hst h + b) (hen h)) with (Nat.leb b (hen h - hst h)).
    2:{ destruct (Nat.leb_spec b (hen h - hst h)); destruct (Nat.leb_spec (hst h + b) (hen h)); auto; lia. }
    destruct (Nat.leb a b && Nat.leb b (hen h - hst h)) eqn:Ec; [|auto].
    apply andb_true_iff in Ec. destruct Ec as [E1 E2]. apply Nat.leb_le in E1. apply Nat.leb_le in E2.
    assert (Hw : hwf hp (H (hb h) (hst h + a) (hst h + b))).
    { unfold hwf in *. simpl. destruct (hb h); lia. }
    destruct (dup_ok hp hs i h _ _ Hinv E Hw) as [A B]. split; [exact A|]. rewrite B. do 2 f_equal.
    unfold view; simpl. rewrite skipn_firstn_comm, skipn_skipn, firstn_firstn.
    replace (a + hst h) with (hst h + a) by lia. f_equal. lia.
  - rewrite (contents_nth_none hp hs i E). auto.
Qed.

Lemma sim_into_slices hp hs i size : inv (hp, hs) -> sim_ok (hp, hs) (OIntoSlices i size).
Proof.
  intros Hinv. unfold sim_ok. simpl. destruct (nth_error hs i) as [h|] eqn:E.
  - rewrite (contents_nth hp hs i h E).
    pose proof (inv_hwf _ _ _ _ Hinv E) as Hwf. rewrite (view_length _ _ Hwf).
    destruct (Nat.eqb_spec size 0) as [->|Hs].
    + apply frame_del; auto.
    + destruct (Nat.eqb_spec ((hen h - hst h) mod size) 0) as [Hm|Hm]; [|auto].
      assert (Hc : (hen h - hst h) / size * size = hen h - hst h).
      { pose proof (Nat.div_exact (hen h - hst h) size Hs) as [_ Hx]. rewrite Nat.mul_comm. symmetry. auto. }
      rewrite mk_slices_from.
      destruct (slices_add hp hs i h size ((hen h - hst h) / size) Hinv E) as [A B]; [lia|].
      assert (Hi' : nth_error (hs ++ mk_from h size 0 ((hen h - hst h) / size)) i = Some h).
      { rewrite nth_error_app1; auto. apply nth_error_Some. congruence. }
      destruct (frame_del _ _ i h A Hi') as [A' B'].
      rewrite (del_nth_app_l _ _ _ _ E) in A', B'. split; [exact A'|].
      rewrite B', B. rewrite (del_nth_app_l _ _ _ _ (contents_nth hp hs i h E)). f_equal.
      rewrite view_chunks by (simpl; lia). reflexivity.
  - rewrite (contents_nth_none hp hs i E). auto.
Qed.

Lemma sim_write hp hs i k x : inv (hp, hs) -> sim_ok (hp, hs) (OWrite i k x).
Proof.
  intros Hinv. unfold sim_ok. simpl.
  apply (on_handle_sim (fun hp h => write hp h k x) (fun l => if Nat.ltb k (length l) then set_nth k x l else l)); auto.
  intros h Hi. apply write_ok; auto.
Qed.

Lemma sim_truncate hp hs i n : inv (hp, hs) -> sim_ok (hp, hs) (OTruncate i n).
Proof.
  intros Hinv. unfold sim_ok. simpl.
  apply (on_handle_sim (fun hp h => truncate hp h n) (firstn n)); auto.
  intros h Hi. apply truncate_ok; auto.
Qed.

Lemma sim_ext_slice hp hs i l : inv (hp, hs) -> sim_ok (hp, hs) (OExtSlice i l).
Proof.
  intros Hinv. unfold sim_ok. simpl. apply modify_sim; auto.
Qed.

Lemma sim_app_end hp hs i l :
  inv (hp, hs) ->
  inv (on_handle (hp, hs) i (fun hp h => modify_gen false hp h (v_app l))) /\
  contents (on_handle (hp, hs) i (fun hp h => modify_gen false hp h (v_app l)))
  = on_list (contents (hp, hs)) i (vf (v_app l)).
Proof.
  intros Hinv. apply modify_sim; auto.
  - right. apply v_app_grow.
  - intros h Hi. split; auto. right. intros pre. apply v_app_local.
Qed.

Lemma sim_ext_vec hp hs i l : inv (hp, hs) -> sim_ok (hp, hs) (OExtVec i l).
Proof. intros. apply sim_app_end; auto. Qed.
Lemma sim_ext_repeat hp hs i x n : inv (hp, hs) -> sim_ok (hp, hs) (OExtRepeat i x n).
Proof. intros. apply sim_app_end; auto. Qed.
Lemma sim_ext_repeat_slice hp hs i l n : inv (hp, hs) -> sim_ok (hp, hs) (OExtRepeatSlice i l n).
Proof. intros. apply (sim_app_end hp hs i (rep_slice l n)); auto. Qed.

Lemma sim_fill hp hs i lf ext :
  inv (hp, hs) ->
  inv (on_handle (hp, hs) i (fun hp h => modify_gen false hp h (v_fill true lf ext (hen h - hst h)))) /\
  contents (on_handle (hp, hs) i (fun hp h => modify_gen false hp h (v_fill true lf ext (hen h - hst h))))
  = on_list (contents (hp, hs)) i (fun l => vf (v_fill true lf ext (length l)) l).
Proof.
  intros Hinv.
  apply (on_handle_sim (fun hp h => modify_gen false hp h (v_fill true lf ext (hen h - hst h)))
                       (fun l => vf (v_fill true lf ext (length l)) l)); auto.
  intros h Hi. pose proof (inv_hwf _ _ _ _ Hinv Hi) as Hwf.
  rewrite <- (view_length _ _ Hwf). apply modify_gen_ok; auto.
  - right. apply v_fill_grow.
  - right. intros pre. apply v_fill_local.
Qed.

Lemma sim_ext_repeat_fill hp hs i x lf n : inv (hp, hs) -> sim_ok (hp, hs) (OExtRepeatFill i x lf n).
Proof. intros. apply sim_fill; auto. Qed.
Lemma sim_ext_repeat_slice_fill hp hs i l lf n : inv (hp, hs) -> sim_ok (hp, hs) (OExtRepeatSliceFill i l lf n).
Proof. intros. apply sim_fill; auto. Qed.

Lemma sim_remove hp hs i a b : inv (hp, hs) -> sim_ok (hp, hs) (ORemove i a b).
Proof.
  intros Hinv. unfold sim_ok. simpl. destruct (nth_error hs i) as [h|] eqn:E.
  - rewrite (contents_nth hp hs i h E).
    pose proof (inv_hwf _ _ _ _ Hinv E) as Hwf. rewrite (view_length _ _ Hwf).
    destruct (Nat.leb a b && Nat.leb b (hen h - hst h)); [|auto].
    apply modify_sim; auto.
  - rewrite (contents_nth_none hp hs i E). auto.
Qed.

Lemma sim_clear hp hs i : inv (hp, hs) -> sim_ok (hp, hs) (OClear i).
Proof.
  intros Hinv. unfold sim_ok. simpl.
  apply (on_handle_sim clear (fun _ => [])); auto.
  intros h Hi. apply clear_ok; auto.
Qed.

Lemma on_list_id (s : sstate) i : on_list s i (fun d => d) = s.
Proof.
  unfold on_list. destruct (nth_error s i) eqn:E; auto. apply set_nth_same; auto.
Qed.

Lemma sim_reserve hp hs i n : inv (hp, hs) -> sim_ok (hp, hs) (OReserve i n).
Proof.
  intros Hinv. unfold sim_ok. simpl.
  pose proof (modify_sim false (v_reserve n) (fun d => d) hp hs i Hinv) as X.
  rewrite on_list_id in X. apply X.
  - right. intros d. simpl. lia.
  - intros h Hi. split; auto.
Qed.

Lemma sim_drop hp hs i : inv (hp, hs) -> sim_ok (hp, hs) (ODrop i).
Proof.
  intros Hinv. unfold sim_ok. simpl. destruct (nth_error hs i) as [h|] eqn:E.
  - apply frame_del; auto.
  - rewrite (del_nth_none _ _ (contents_nth_none hp hs i E)). auto.
Qed.

Lemma sim_ext_cow hp hs i j : inv (hp, hs) -> sim_ok (hp, hs) (OExtCow i j).
Proof.
  intros Hinv. unfold sim_ok. simpl.
  destruct (nth_error hs i) as [h|] eqn:Ei.
  - rewrite (contents_nth hp hs i h Ei).
    destruct (nth_error hs j) as [hj|] eqn:Ej.
    + rewrite (contents_nth hp hs j hj Ej).
      destruct (Nat.eqb_spec i j) as [->|Hij]; [auto|].
      destruct (modify_gen_ok false (v_app (view hp hj)) hp hs i h Hinv Ei) as [A B].
      { right. apply v_app_grow. }
      { right. intros pre. apply v_app_local. }
      destruct (modify_gen false hp h (v_app (view hp hj))) as [hp1 h1]. simpl fst in *; simpl snd in *.
      assert (Ej' : nth_error (set_nth i h1 hs) j = Some hj) by (rewrite nth_error_set_nth_neq; auto).
      destruct (frame_del _ _ j hj A Ej') as [A' B']. split; [exact A'|]. rewrite B', B. reflexivity.
    + rewrite (contents_nth_none hp hs j Ej). auto.
  - rewrite (contents_nth_none hp hs i Ei). auto.
Qed.

Lemma sim_split_off hp hs i at_ : inv (hp, hs) -> sim_ok (hp, hs) (OSplitOff i at_).
Proof.
  intros Hinv. unfold sim_ok. simpl. destruct (nth_error hs i) as [h|] eqn:E.
  - rewrite (contents_nth hp hs i h E).
    pose proof (inv_hwf _ _ _ _ Hinv E) as Hwf. rewrite (view_length _ _ Hwf).
    destruct (Nat.leb at_ (hen h - hst h)); [|auto].
    unfold split_off.
    destruct (fresh_add_ok hp hs (skipn at_ (view hp h)) v_id Hinv) as [A B].
    destruct (fresh_from hp (skipn at_ (view hp h)) v_id) as [hp1 o] eqn:Ef. simpl fst in *; simpl snd in *.
    assert (Hi' : nth_error (hs ++ [o]) i = Some h).
    { rewrite nth_error_app1; auto. apply nth_error_Some. congruence. }
    destruct (truncate_ok hp1 (hs ++ [o]) i h at_ A Hi') as [A' B'].
    destruct (truncate hp1 h at_) as [hp2 h2]. simpl fst in *; simpl snd in *.
    rewrite (set_nth_app_l _ _ _ _ _ E) in A', B'. split; [exact A'|].
    rewrite B', B. simpl vf.
    rewrite (set_nth_app_l _ _ _ _ _ (contents_nth hp hs i h E)). do 2 f_equal.
    (* the view of h is the same in hp1: it is position i of both content lists *)
    pose proof (contents_nth hp1 (hs ++ [o]) i h Hi') as C1. rewrite B in C1.
    rewrite nth_error_app1 in C1 by (apply nth_error_Some; rewrite (contents_nth hp hs i h E); congruence).
    rewrite (contents_nth hp hs i h E) in C1. congruence.
  - rewrite (contents_nth_none hp hs i E). auto.
Qed.

Theorem step_sim s o : inv s -> inv (step true s o) /\ contents (step true s o) = sstep (contents s) o.
Proof.
  destruct s as [hp hs]. intros Hinv. destruct o.
  - apply sim_new; auto.
  - apply sim_clone; auto.
  - apply sim_slice; auto.
  - apply sim_into_slices; auto.
  - apply sim_write; auto.
  - apply sim_truncate; auto.
  - apply sim_ext_slice; auto.
  - apply sim_ext_vec; auto.
  - apply sim_ext_cow; auto.
  - apply sim_ext_repeat; auto.
  - apply sim_ext_repeat_fill; auto.
  - apply sim_ext_repeat_slice; auto.
  - apply sim_ext_repeat_slice_fill; auto.
  - apply sim_remove; auto.
  - apply sim_clear; auto.
  - apply sim_reserve; auto.
  - apply sim_split_off; auto.
  - apply sim_drop; auto.
Qed.

(** * The refinement theorem *)
Theorem run_sim ops : forall s, inv s ->
  inv (run true ops s) /\ contents (run true ops s) = srun ops (contents s).
Proof.
  induction ops as [|o ops IH]; intros s Hinv; simpl; auto.
  destruct (step_sim s o Hinv) as [A B]. unfold run, srun in *. simpl.
  rewrite <- B. apply IH; auto.
Qed.

Theorem cow_value_semantics ops :
  contents (run true ops state0) = srun ops [] /\ inv (run true ops state0).
Proof. destruct (run_sim ops state0 inv0) as [A B]. split; auto. Qed.

(** * Corollary: an operation on one handle leaves every other live handle's contents alone *)
Definition reorders (o : op) : bool :=
  match o with OIntoSlices _ _ | OExtCow _ _ | ODrop _ => true | _ => false end.
Definition target (o : op) : option nat :=
  match o with
  | ONew _ | OClone _ | OSlice _ _ _ => None
  | OIntoSlices i _ | OWrite i _ _ | OTruncate i _ | OExtSlice i _ | OExtVec i _ | OExtCow i _
  | OExtRepeat i _ _ | OExtRepeatFill i _ _ _ | OExtRepeatSlice i _ _ | OExtRepeatSliceFill i _ _ _
  | ORemove i _ _ | OClear i | OReserve i _ | OSplitOff i _ | ODrop i => Some i
  end.

Lemma on_list_other (sp : sstate) i j F : i <> j -> nth_error (on_list sp i F) j = nth_error sp j.
Proof. intros. unfold on_list. destruct (nth_error sp i); auto. apply nth_error_set_nth_neq; auto. Qed.

Lemma sstep_others sp o j :
  reorders o = false -> target o <> Some j -> j < length sp ->
  nth_error (sstep sp o) j = nth_error sp j.
Proof.
  intros Hr Ht Hj.
  assert (Hne : forall i, target o = Some i -> i <> j) by (intros i E1 E2; subst; congruence).
  destruct o; simpl in *; try discriminate;
    try (apply on_list_other; apply Hne; reflexivity); auto.
  - rewrite nth_error_app1; auto.
  - destruct (nth_error sp i); auto. rewrite nth_error_app1; auto.
  - destruct (nth_error sp i); auto. destruct (_ && _); auto. rewrite nth_error_app1; auto.
  - destruct (nth_error sp i); auto. destruct (_ && _); auto. apply on_list_other. apply Hne; reflexivity.
  - destruct (nth_error sp i) eqn:E; auto. destruct (Nat.leb at_ (length l)); auto.
    rewrite nth_error_app1 by (rewrite set_nth_length; auto).
    apply nth_error_set_nth_neq. apply Hne; reflexivity.
Qed.

Theorem cow_others_unchanged ops o j :
  let s := run true ops state0 in
  reorders o = false -> target o <> Some j -> j < length (snd s) ->
  nth_error (contents (step true s o)) j = nth_error (contents s) j.
Proof.
  intros s Hr Ht Hj.
  destruct (run_sim ops state0 inv0) as [Hinv _]. fold s in Hinv.
  destruct (step_sim s o Hinv) as [_ B]. rewrite B. apply sstep_others; auto.
  unfold contents. rewrite map_length. exact Hj.
Qed.

(** reference counts are exact and windows stay inside their buffers, along every history *)
Theorem cow_refcounts ops :
  let s := run true ops state0 in
  (forall b, rc (fst s) b = cnt b (snd s)) /\
  (forall j h, nth_error (snd s) j = Some h ->
     match hb h with
     | Some b => hst h <= hen h /\ hen h <= length (dat (fst s) b)
     | None => hst h = 0 /\ hen h = 0 end).
Proof.
  intros s. destruct (run_sim ops state0 inv0) as [[H1 [_ H3]] _]. fold s in H1, H3. split; auto.
Qed.

(** non-vacuity: a history with sharing, in-place updates, copies and a left fill on a
    uniquely owned window with a hidden prefix *)
Definition sample_history : list op :=
  [ONew [1; 2; 3; 4; 5; 6]%N; OIntoSlices 0 2; OClone 0; OWrite 3 0 9%N; ODrop 0; ODrop 0;
   OExtRepeatFill 0 7%N true 2; OExtVec 1 [8]%N; OSplitOff 0 1; OTruncate 1 1].
Lemma sample_history_values :
  contents (run true sample_history state0) = [[7]; [9]; [7; 5; 6]]%N /\
  srun sample_history [] = [[7]; [9]; [7; 5; 6]]%N /\
  uniques (run true sample_history state0) = [true; true; true] /\
  contents (run false sample_history state0) <> srun sample_history [].
Proof. vm_compute. repeat split; try reflexivity. discriminate. Qed.
