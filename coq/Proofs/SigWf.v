(** Well-formedness of checker states; checking in context = applying the inferred signature. *)
From Coq Require Import List ZArith NArith Bool Lia PeanoNat.
From UV Require Import Model.Node Model.Sig Model.Exec Proofs.SimBase Proofs.SigMono.
Import ListNotations.
From UV Require Import Proofs.SigShift.
(** reachable checker states never have a height below minus their minimum *)
Definition wfv (v : vs) : Prop := (0 <= h v + Z.of_nat (m v))%Z.
Definition wfe (e : venv) : Prop := wfv (fst e) /\ wfv (snd e).
Lemma wfv_vpop k v : wfv v -> wfv (vpop k v). Proof. unfold wfv; vsimp; lia. Qed.
Lemma wfv_vpush k v : wfv v -> wfv (vpush k v). Proof. unfold wfv; vsimp; lia. Qed.
Lemma wfv_vao a o v : wfv v -> wfv (vao a o v). Proof. unfold wfv; vsimp; lia. Qed.
Lemma wfe_epop k e : wfe e -> wfe (epop k e). Proof. intros [A B]; split; simpl; auto using wfv_vpop. Qed.
Lemma wfe_epush k e : wfe e -> wfe (epush k e). Proof. intros [A B]; split; simpl; auto using wfv_vpush. Qed.
Lemma wfe_handle_ao a o e : wfe e -> wfe (handle_ao a o e). Proof. intros [A B]; split; simpl; auto using wfv_vao. Qed.
Lemma wfe_handle_sig s e : wfe e -> wfe (handle_sig s e). Proof. intros [A B]; split; simpl; auto using wfv_vao. Qed.
Lemma wfe_zero : wfe (vs0, vs0). Proof. split; unfold wfv; simpl; lia. Qed.

Lemma run_go_wf d ns :
  Forall (fun n => forall d e e', wfe e -> vnode d n e = Some e' -> wfe e') ns ->
  forall e e', wfe e ->
  (fix go (l : list node) (e : venv) {struct l} : option venv :=
     match l with [] => Some e | x :: t => opt_bind (vnode d x e) (go t) end) ns e = Some e' ->
  wfe e'.
Proof.
  induction 1 as [|x t Hx Ht IH]; intros e e' W H.
  - inversion H; subst; auto.
  - simpl in H. destruct (vnode d x e) as [e1|] eqn:E; simpl in H; [|discriminate].
    eapply IH; [eapply Hx; eauto | eauto].
Qed.

Ltac wf_crush :=
  repeat match goal with
  | H : opt_bind ?x _ = Some _ |- _ => let E := fresh "E" in destruct x eqn:E; cbn [opt_bind] in H; [|discriminate]
  | H : (if ?c then _ else _) = Some _ |- _ => destruct c
  | H : match ?x with Some _ => _ | None => _ end = Some _ |- _ => let E := fresh "E" in destruct x eqn:E
  | H : Some _ = Some _ |- _ => inversion H; subst; clear H
  | H : None = Some _ |- _ => discriminate
  end;
  repeat match goal with
  | IH : forall d e e', wfe e -> vnode d ?f e = Some e' -> wfe e', E : vnode _ ?f ?x = Some _ |- _ =>
      apply IH in E; [| solve [repeat first [assumption | apply wfe_epop | apply wfe_epush | apply wfe_handle_ao | apply wfe_handle_sig]]]
  end;
  repeat match goal with |- context [if ?c then _ else _] => destruct c end;
  repeat first [assumption | apply wfe_epop | apply wfe_epush | apply wfe_handle_ao | apply wfe_handle_sig].

Theorem vnode_wf : forall n d e e', wfe e -> vnode d n e = Some e' -> wfe e'.
Proof.
  induction n using node_ind'; intros d e e' W Hv; cbn [vnode] in Hv;
    destruct (MAX_NODE_DEPTH <? d); try discriminate.
  all: try (wf_crush; fail).
  - eapply run_go_wf; eauto.
  - destruct m; try (wf_crush; fail);
      destruct args as [|[s f] [|[s2 f2] [|[s3 f3] ?]]]; cbn [map fst snd opt_bind] in Hv; try discriminate;
      repeat match goal with H : Forall _ (_ :: _) |- _ => inversion H; subst; clear H end;
      cbn [snd] in *; try (wf_crush; fail).
  - inversion Hv; subst. destruct W as [A B]. destruct u; split; simpl; auto using wfv_vao, wfv_vpop, wfv_vpush.
  - inversion Hv; subst. destruct W as [A B]. split; simpl; auto using wfv_vpop, wfv_vpush.
  - inversion Hv; subst. destruct W as [A B]. split; simpl; auto using wfv_vpop, wfv_vpush.
  - inversion Hv; subst. destruct W as [A B]. split; simpl; auto using wfv_vpop, wfv_vpush.
Qed.

(** shifting by a result obtained from the empty state = applying its signature *)
Lemma shiftv_sig v x : wfv x -> shiftv v x = vao (vs_args x) (vs_outs x) v.
Proof.
  intros W. apply vs_eq; unfold shiftv, vs_args, vs_outs, wfv in *; vsimp; simpl; lia.
Qed.
Lemma shift_sig e x : wfe x -> shift e x = handle_sig (env_sig x) e.
Proof.
  intros [A B]. unfold shift, handle_sig, env_sig. cbn [sa so sua suo].
  rewrite (shiftv_sig _ _ A), (shiftv_sig _ _ B). reflexivity.
Qed.

(** checking in context = applying the signature inferred from the empty state *)
Theorem vnode_ctx : forall n d e e' e0, wfe e ->
  vnode d n e = Some e' -> vnode 0 n (vs0, vs0) = Some e0 -> e' = handle_sig (env_sig e0) e.
Proof.
  intros n d e e' e0 [W1 W2] Hv H0.
  assert (Es : shift e (vs0, vs0) = e).
  { destruct e as [a b]. unfold shift. simpl in *. rewrite !shiftv_zero; auto. }
  rewrite <- Es in Hv. rewrite vnode_shift in Hv.
  destruct (vnode d n (vs0, vs0)) as [x|] eqn:E; [|discriminate]. simpl in Hv. inversion Hv; subst.
  pose proof (vnode_depth n d 0 _ _ ltac:(lia) E) as E0. rewrite H0 in E0. inversion E0; subst.
  apply shift_sig. eapply vnode_wf; [apply wfe_zero | eauto].
Qed.
