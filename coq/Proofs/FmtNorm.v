(** C10: the spacing decisions produce stable lines from every well-formed word sequence. *)
From Coq Require Import List NArith Bool Lia PeanoNat.
From UV Require Import Model.Fmt Proofs.Fmt.
Import ListNotations.
Local Open Scope N_scope.

(* ---------------------------------------------------------------- forward form of norm_go *)

Definition sp_join (sp : option bool) (m : bool) : option bool :=
  match sp with Some m0 => Some m0 | None => Some m end.

Definition sep_of (prev : option token) (sp : option bool) (t : token) : list token :=
  match prev with None => [] | Some p => if space_between p sp t then [TSpace false] else [] end.

Fixpoint norm_fw (prev : option token) (sp : option bool) (ts : list token) : list token :=
  match ts with
  | [] => []
  | TSpace m :: r => norm_fw prev (sp_join sp m) r
  | t :: r => sep_of prev sp t ++ emit t ++ norm_fw (Some t) None r
  end.

Lemma norm_go_fw : forall ts acc prev sp, norm_go acc prev sp ts = rev acc ++ norm_fw prev sp ts.
Proof.
  induction ts as [|t r IH]; intros acc prev sp.
  - cbn. rewrite app_nil_r. reflexivity.
  - destruct t; cbn [norm_go norm_fw]; try (rewrite IH; unfold sep_of; destruct prev as [p|];
      [destruct (space_between p sp _) | ]; rewrite rev_app_distr, rev_involutive; cbn [rev app];
      rewrite <- ?app_assoc; reflexivity).
    apply IH.
Qed.

Lemma norm_fw_eq : forall ts, norm ts = norm_fw None None ts.
Proof. intro ts. unfold norm. rewrite norm_go_fw. reflexivity. Qed.

(* ---------------------------------------------------------------- first / last characters of a word *)

Lemma last_map_some : forall (l : list N) d, l <> [] -> last (map Some l) None = Some (last l d).
Proof.
  induction l as [|a l IH]; intros d H; [contradiction|].
  destruct l as [|b l]; [reflexivity|]. cbn [map last] in *. apply IH. discriminate.
Qed.

Lemma last_app_r : forall (l r : list N) d, r <> [] -> last (l ++ r) d = last r d.
Proof.
  induction l as [|a l IH]; intros r d H; [reflexivity|].
  cbn [app]. specialize (IH r d H). destruct (l ++ r) eqn:E.
  - destruct l; destruct r; try discriminate; contradiction.
  - exact IH.
Qed.

Lemma last_repeat : forall (x : N) n d, last (repeat x (S n)) d = x.
Proof. induction n as [|n IH]; intro d; [reflexivity|]. cbn [repeat last] in *. apply IH. Qed.

Lemma forallb_last : forall (f : N -> bool) l d, forallb f l = true -> l <> [] -> f (last l d) = true.
Proof.
  induction l as [|a l IH]; intros d H Hn; [contradiction|].
  cbn in H; apply andb_true_iff in H; destruct H as [Ha Hl].
  destruct l as [|b l]; [exact Ha|]. cbn [last]. apply IH; [exact Hl | discriminate].
Qed.

Lemma last_map_glyph : forall gs p, gs <> [] -> last (map TGlyph gs) p = TGlyph (last gs 0).
Proof.
  induction gs as [|g gs IH]; intros p H; [contradiction|].
  destruct gs as [|g' gs]; [reflexivity|]. cbn [map last] in *. apply IH. discriminate.
Qed.

Definition lastc (t : token) : N := last (text t) 0.
Definition out_last (p : token) : token := last (emit p) p.
Definition out_first (t : token) : token := hd t (emit t).

Lemma nonempty_neq : forall A (l : list A), nonempty l = true -> l <> [].
Proof. intros A [|x r] H; [discriminate | discriminate]. Qed.

Lemma text_nonempty : forall t, valid_tok t = true -> text t <> [].
Proof.
  intros t H; destruct t; cbn [text valid_tok] in *; try discriminate.
  - apply andb_true_iff in H; destruct H as [H _]. apply nonempty_neq; exact H.
  - destruct s; [discriminate | discriminate].
  - apply andb_true_iff in H; destruct H as [H _]. apply nonempty_neq; exact H.
  - apply andb_true_iff in H; destruct H as [H _]. apply nonempty_neq in H.
    destruct neg; [discriminate|]. exact H.
  - apply andb_true_iff in H; destruct H as [H _]. apply nonempty_neq; exact H.
  - apply andb_true_iff in H; destruct H as [H _]. apply nonempty_neq; exact H.
Qed.

Lemma ends_with_spec : forall k t, valid_tok t = true -> ends_with k t = cclass_eqb (cls (lastc t)) k.
Proof.
  intros k t H. unfold ends_with, last_char, lastc.
  rewrite (last_map_some _ 0) by (apply text_nonempty; exact H). reflexivity.
Qed.

(** class of the last character, by kind of word *)
Definition lcls_ok (p : token) (k : cclass) : bool :=
  match p with
  | TLower _ => cclass_eqb k CLow
  | TUpper _ O => cclass_eqb k CLow || cclass_eqb k CUp
  | TUpper _ (S _) => cclass_eqb k CBang
  | TGlyph _ | TNames _ => cclass_eqb k CGly || cclass_eqb k CNeg
  | TEq => cclass_eqb k CEq
  | TNum _ _ => cclass_eqb k CDig
  | TSub _ | TSubA _ => cclass_eqb k CSubd
  | TStrand => cclass_eqb k CUnder
  | TOpen _ => cclass_eqb k COpen
  | TClose _ => cclass_eqb k CClose
  | TStr _ => cclass_eqb k CQuote
  | TChr _ => true
  | TSpace _ => cclass_eqb k CSp
  end.

Lemma cclass_eqb_refl : forall k, cclass_eqb k k = true.
Proof. destruct k; reflexivity. Qed.

Lemma all_cls_last : forall k s, all_cls k s = true -> s <> [] -> cls (last s 0) = k.
Proof.
  intros k s H Hn. apply cclass_eqb_eq.
  apply (forallb_last (fun c => cclass_eqb (cls c) k) s 0 H Hn).
Qed.

Lemma glyph_cls : forall g, is_glyphc g = true -> cclass_eqb (cls g) CGly || cclass_eqb (cls g) CNeg = true.
Proof. intros g H; unfold is_glyphc in H; destruct (cls g); try discriminate; reflexivity. Qed.

Lemma lastc_cls : forall p, valid_tok p = true -> lcls_ok p (cls (lastc p)) = true.
Proof.
  intros p H; destruct p; unfold lastc; cbn [text valid_tok lcls_ok] in *.
  - apply andb_true_iff in H; destruct H as [Hn Ha]. rewrite (all_cls_last CLow s Ha (nonempty_neq _ _ Hn)). reflexivity.
  - destruct s as [|c s]; [discriminate|]. apply andb_true_iff in H; destruct H as [Hc Hs].
    destruct bangs as [|b].
    + cbn [repeat]. rewrite app_nil_r.
      assert (Hl : is_letter (last (c :: s) 0) = true).
      { apply forallb_last; [|discriminate]. cbn. rewrite Hs, andb_true_r.
        unfold is_letter. apply cclass_eqb_eq in Hc. rewrite Hc. reflexivity. }
      unfold is_letter in Hl. destruct (cls (last (c :: s) 0)); try discriminate; reflexivity.
    + rewrite last_app_r by discriminate. rewrite last_repeat. reflexivity.
  - cbn [last]. apply glyph_cls; exact H.
  - apply andb_true_iff in H; destruct H as [Hn Ha]. apply glyph_cls.
    apply forallb_last; [exact Ha | apply nonempty_neq; exact Hn].
  - reflexivity.
  - apply andb_true_iff in H; destruct H as [Hn Ha]. rewrite last_app_r by (apply nonempty_neq; exact Hn).
    rewrite (all_cls_last CDig ds Ha (nonempty_neq _ _ Hn)). reflexivity.
  - apply andb_true_iff in H; destruct H as [Hn Ha]. rewrite (all_cls_last CSubd ds Ha (nonempty_neq _ _ Hn)). reflexivity.
  - apply andb_true_iff in H; destruct H as [Hn Ha]. rewrite (all_cls_last CSubd ds Ha (nonempty_neq _ _ Hn)). reflexivity.
  - reflexivity.
  - apply cclass_eqb_eq in H. cbn [last]. rewrite H. reflexivity.
  - apply cclass_eqb_eq in H. cbn [last]. rewrite H. reflexivity.
  - change (34 :: body ++ [34]) with ([34] ++ body ++ [34]). rewrite app_assoc, last_app_r by discriminate. reflexivity.
  - reflexivity.
  - reflexivity.
Qed.

(** class of the first character, by kind of word *)
Definition fcls_ok (t : token) (k : cclass) : bool :=
  match t with
  | TLower _ => cclass_eqb k CLow
  | TUpper _ _ => cclass_eqb k CUp
  | TGlyph _ | TNames _ => cclass_eqb k CGly || cclass_eqb k CNeg
  | TEq => cclass_eqb k CEq
  | TNum true _ => cclass_eqb k CNeg
  | TNum false _ => cclass_eqb k CDig
  | TSub _ | TSubA _ => cclass_eqb k CSubd
  | TStrand => cclass_eqb k CUnder
  | TOpen _ => cclass_eqb k COpen
  | TClose _ => cclass_eqb k CClose
  | TStr _ => cclass_eqb k CQuote
  | TChr _ => cclass_eqb k CAt
  | TSpace _ => cclass_eqb k CSp
  end.

Definition out_first_of (t : token) : token :=
  match t with TNames gs => TGlyph (hd 0 gs) | TSubA ds => TSub ds | t => t end.
Definition out_last_of (p : token) : token :=
  match p with TNames gs => TGlyph (last gs 0) | TSubA ds => TSub ds | p => p end.

Lemma out_first_eq : forall t, valid_tok t = true -> out_first t = out_first_of t.
Proof.
  intros t H; destruct t; try reflexivity. cbn [valid_tok] in H. apply andb_true_iff in H; destruct H as [Hn _].
  destruct gs; [discriminate | reflexivity].
Qed.

Lemma out_last_eq : forall p, valid_tok p = true -> out_last p = out_last_of p.
Proof.
  intros p H; destruct p; try reflexivity. cbn [valid_tok] in H. apply andb_true_iff in H; destruct H as [Hn _].
  unfold out_last; cbn [emit out_last_of]. apply last_map_glyph. apply nonempty_neq; exact Hn.
Qed.

Lemma first_out : forall t, valid_tok t = true ->
  exists c, first_char (out_first_of t) = Some c /\ fcls_ok t (cls c) = true.
Proof.
  intros t H; destruct t; unfold first_char; cbn [out_first_of text valid_tok fcls_ok hd_error] in *.
  - apply andb_true_iff in H; destruct H as [Hn Ha]. destruct s as [|c s]; [discriminate|].
    cbn in Ha; apply andb_true_iff in Ha; destruct Ha as [Hc _]. exists c; split; [reflexivity | exact Hc].
  - destruct s as [|c s]; [discriminate|]. apply andb_true_iff in H; destruct H as [Hc _].
    exists c; split; [reflexivity | exact Hc].
  - exists g; split; [reflexivity | apply glyph_cls; exact H].
  - apply andb_true_iff in H; destruct H as [Hn Ha]. destruct gs as [|g gs]; [discriminate|].
    cbn in Ha; apply andb_true_iff in Ha; destruct Ha as [Hg _].
    exists g; split; [reflexivity | apply glyph_cls; exact Hg].
  - exists 61; split; reflexivity.
  - apply andb_true_iff in H; destruct H as [Hn Ha]. destruct ds as [|c ds]; [discriminate|].
    cbn in Ha; apply andb_true_iff in Ha; destruct Ha as [Hc _]. destruct neg.
    + exists 175; split; reflexivity.
    + exists c; split; [reflexivity | exact Hc].
  - apply andb_true_iff in H; destruct H as [Hn Ha]. destruct ds as [|c ds]; [discriminate|].
    cbn in Ha; apply andb_true_iff in Ha; destruct Ha as [Hc _]. exists c; split; [reflexivity | exact Hc].
  - apply andb_true_iff in H; destruct H as [Hn Ha]. destruct ds as [|c ds]; [discriminate|].
    cbn in Ha; apply andb_true_iff in Ha; destruct Ha as [Hc _]. exists c; split; [reflexivity | exact Hc].
  - exists 95; split; reflexivity.
  - exists k; split; [reflexivity | exact H].
  - exists k; split; [reflexivity | exact H].
  - exists 34; split; reflexivity.
  - exists 64; split; reflexivity.
  - exists 32; split; reflexivity.
Qed.

(* ---------------------------------------------------------------- the adjacency lemma *)

Lemma ends_with_out : forall k p, valid_tok p = true ->
  ends_with k (out_last_of p) = cclass_eqb (cls (lastc p)) k.
Proof.
  intros k p H. destruct p; try (apply ends_with_spec; exact H).
  - (* TNames *) cbn [out_last_of]. unfold ends_with, last_char, lastc; cbn [text map last]. reflexivity.
  - (* TSubA *) cbn [out_last_of]. change (ends_with k (TSub ds)) with (ends_with k (TSubA ds)).
    apply ends_with_spec; exact H.
Qed.

(** the side condition of [wf_go] between the previous word and the next one *)
Definition wf_junction (p : token) (sp : bool) (t : token) : bool :=
  match shape_of p, shape_of t with
  | Some a, Some b =>
      if sp then match a, b with HStrand, _ | _, HStrand | _, HSub | _, HSubA => false | _, _ => true end
      else src_adjacent_ok a b
  | _, _ => false
  end.

Definition is_some {A} (o : option A) : bool := match o with Some _ => true | None => false end.

(* ---- finite abstraction: kind of word, class of its last character, class of the next first character *)

Inductive kind := KLower | KUpper0 | KUpperB | KGlyph | KNames | KEq | KNumP | KNumN | KSub | KSubA
                | KStrand | KOpen | KClose | KStr | KChr | KSpace.

Definition kind_of (t : token) : kind :=
  match t with
  | TLower _ => KLower | TUpper _ O => KUpper0 | TUpper _ (S _) => KUpperB
  | TGlyph _ => KGlyph | TNames _ => KNames | TEq => KEq
  | TNum false _ => KNumP | TNum true _ => KNumN
  | TSub _ => KSub | TSubA _ => KSubA | TStrand => KStrand | TOpen _ => KOpen | TClose _ => KClose
  | TStr _ => KStr | TChr _ => KChr | TSpace _ => KSpace
  end.

(** kind of the printed word *)
Definition okind (k : kind) : kind := match k with KNames => KGlyph | KSubA => KSub | k => k end.

Definition sadjA (L : cclass) (kt : kind) : bool :=
  match kt with
  | KNumP => cclass_eqb L CDig || cclass_eqb L CNeg
  | KEq => cclass_eqb L CBang
  | KLower => cclass_eqb L CLow
  | _ => false
  end.

Definition sbA (kp : kind) (L : cclass) (sp : option bool) (kt : kind) : bool :=
  match kp, kt with
  | KOpen, _ => false
  | _, KClose => false
  | _, _ =>
    match sp with
    | Some multi =>
        match kp, kt with
        | KUpperB, _ => sadjA L kt
        | KUpper0, KNames => multi
        | KChr, KNames => if cclass_eqb L CUp then multi else true
        | KSubA, (KNumP | KNumN) => multi
        | _, _ => true
        end
    | None => sadjA L kt
    end
  end.

Lemma sb_factor : forall p t sp L, (forall k, ends_with k p = cclass_eqb L k) ->
  space_between p sp t = sbA (kind_of p) L sp (kind_of t).
Proof.
  intros p t sp L H. unfold space_between, space_adjacent. rewrite !H.
  destruct p; try (destruct bangs); destruct t; try (destruct bangs); try (destruct bangs0);
    try (destruct neg); try (destruct neg0);
    destruct sp as [[|]|]; cbn [kind_of sbA sadjA negb andb]; try reflexivity.
Qed.

(** does a character of class [F] extend the pending word of a printed word of kind [k] ending in class [L]? *)
Definition contA (k : kind) (L F : cclass) : bool :=
  match k, F with
  | KLower, (CLow | CUp) => true
  | KUpper0, (CLow | CUp | CBang) => true
  | KUpperB, CBang => true
  | KGlyph, CDig => cclass_eqb L CNeg
  | (KNumP | KNumN), CDig => true
  | KSub, CSubd => true
  | KSpace, CSp => true
  | _, _ => false
  end.

Lemma sep_factor : forall h t c, valid_tok h = true -> first_char t = Some c ->
  (match h with TNames _ | TSubA _ => false | _ => true end) = true ->
  sep_ok h t = negb (contA (kind_of h) (cls (lastc h)) (cls c)).
Proof.
  intros h t c Hh Hc Hn. unfold sep_ok. rewrite Hc.
  destruct h; try discriminate Hn; try (destruct bangs); try (destruct neg);
    cbn [est kind_of lastc text last]; unfold continue;
    try (destruct (cls g) eqn:Eg); destruct (cls c); reflexivity.
Qed.

Definition wfjA (a : kind) (L : cclass) (sp : bool) (b : kind) : bool :=
  let sh (k : kind) : option shape :=
    match k with
    | KLower => Some HLower | KUpper0 => Some HUpper0 | KUpperB => Some HUpperB
    | KGlyph => Some (if cclass_eqb L CNeg then HNeg else HGly)
    | KNames => Some (if cclass_eqb L CNeg then HNamesN else HNamesG)
    | KEq => Some HEq | KNumP => Some HNumP | KNumN => Some HNumN | KSub => Some HSub | KSubA => Some HSubA
    | KStrand => Some HStrand | KOpen => Some HOpen | KClose => Some HClose | KStr => Some HStr | KChr => Some HChr
    | KSpace => None
    end in
  (* the shape of [t] never depends on its last character except for glyphs and name runs, whose
     distinction (¯ or not) plays no role on the right-hand side of [src_adjacent_ok] *)
  match sh a with
  | Some sa =>
      let ok sb := if sp then match sa, sb with HStrand, _ | _, HStrand | _, HSub | _, HSubA => false | _, _ => true end
                   else src_adjacent_ok sa sb in
      match b with
      | KGlyph => ok HGly | KNames => ok HNamesG
      | KLower => ok HLower | KUpper0 => ok HUpper0 | KUpperB => ok HUpperB | KEq => ok HEq
      | KNumP => ok HNumP | KNumN => ok HNumN | KSub => ok HSub | KSubA => ok HSubA | KStrand => ok HStrand
      | KOpen => ok HOpen | KClose => ok HClose | KStr => ok HStr | KChr => ok HChr | KSpace => false
      end
  | None => false
  end.

Definition lclsA (k : kind) (L : cclass) : bool :=
  match k with
  | KLower => cclass_eqb L CLow
  | KUpper0 => cclass_eqb L CLow || cclass_eqb L CUp
  | KUpperB => cclass_eqb L CBang
  | KGlyph | KNames => cclass_eqb L CGly || cclass_eqb L CNeg
  | KEq => cclass_eqb L CEq
  | KNumP | KNumN => cclass_eqb L CDig
  | KSub | KSubA => cclass_eqb L CSubd
  | KStrand => cclass_eqb L CUnder
  | KOpen => cclass_eqb L COpen
  | KClose => cclass_eqb L CClose
  | KStr => cclass_eqb L CQuote
  | KChr => true
  | KSpace => cclass_eqb L CSp
  end.

Definition fclsA (k : kind) (F : cclass) : bool :=
  match k with
  | KLower => cclass_eqb F CLow
  | KUpper0 | KUpperB => cclass_eqb F CUp
  | KGlyph | KNames => cclass_eqb F CGly || cclass_eqb F CNeg
  | KEq => cclass_eqb F CEq
  | KNumN => cclass_eqb F CNeg
  | KNumP => cclass_eqb F CDig
  | KSub | KSubA => cclass_eqb F CSubd
  | KStrand => cclass_eqb F CUnder
  | KOpen => cclass_eqb F COpen
  | KClose => cclass_eqb F CClose
  | KStr => cclass_eqb F CQuote
  | KChr => cclass_eqb F CAt
  | KSpace => cclass_eqb F CSp
  end.

Definition all_kinds := [KLower; KUpper0; KUpperB; KGlyph; KNames; KEq; KNumP; KNumN; KSub; KSubA;
                         KStrand; KOpen; KClose; KStr; KChr; KSpace].
Definition all_classes := [CLow; CUp; CDig; CSubd; CNeg; CEq; CBang; CUnder; COpen; CClose; CQuote; CAt; CSp; CBad; CGly].
Definition all_sp : list (option bool) := [None; Some false; Some true].

Lemma all_kinds_in : forall k, In k all_kinds. Proof. destruct k; cbn; tauto. Qed.
Lemma all_classes_in : forall k, In k all_classes. Proof. destruct k; cbn; tauto. Qed.
Lemma all_sp_in : forall s, In s all_sp. Proof. destruct s as [[|]|]; cbn; tauto. Qed.

(** the adjacency condition on one (kind, class, spacing, kind, class) tuple *)
Definition junctionA (kp : kind) (L : cclass) (sp : option bool) (kt : kind) (F : cclass) : bool :=
  implb (lclsA kp L && fclsA kt F && wfjA kp L (is_some sp) kt)
    (if sbA kp L sp kt
     then sbA (okind kp) L (Some false) (okind kt)
     else negb (contA (okind kp) L F) && negb (sbA (okind kp) L None (okind kt))).

(** EXHAUSTIVE: all 16 x 15 x 3 x 16 x 15 tuples *)
Lemma junctionA_all :
  forallb (fun kp => forallb (fun L => forallb (fun sp => forallb (fun kt => forallb (fun F =>
    junctionA kp L sp kt F) all_classes) all_kinds) all_sp) all_classes) all_kinds = true.
Proof. vm_compute. reflexivity. Qed.

Lemma junctionA_holds : forall kp L sp kt F, junctionA kp L sp kt F = true.
Proof.
  intros kp L sp kt F. pose proof junctionA_all as H.
  rewrite forallb_forall in H. specialize (H kp (all_kinds_in kp)).
  rewrite forallb_forall in H. specialize (H L (all_classes_in L)).
  rewrite forallb_forall in H. specialize (H sp (all_sp_in sp)).
  rewrite forallb_forall in H. specialize (H kt (all_kinds_in kt)).
  rewrite forallb_forall in H. exact (H F (all_classes_in F)).
Qed.

Lemma kind_out_last : forall p, kind_of (out_last_of p) = okind (kind_of p).
Proof. destruct p; try reflexivity; try (destruct bangs; reflexivity); destruct neg; reflexivity. Qed.
Lemma kind_out_first : forall t, kind_of (out_first_of t) = okind (kind_of t).
Proof. destruct t; try reflexivity; try (destruct bangs; reflexivity); destruct neg; reflexivity. Qed.

Lemma lastc_out : forall p, lastc (out_last_of p) = lastc p.
Proof. destruct p; reflexivity. Qed.

Lemma valid_out_last : forall p, valid_tok p = true -> valid_tok (out_last_of p) = true.
Proof.
  intros p H; destruct p; try exact H. cbn [valid_tok out_last_of] in *.
  apply andb_true_iff in H; destruct H as [Hn Ha]. apply forallb_last; [exact Ha | apply nonempty_neq; exact Hn].
Qed.

Lemma lcls_factor : forall p L, lcls_ok p L = lclsA (kind_of p) L.
Proof. destruct p; intro L; try reflexivity; try (destruct bangs; reflexivity); destruct neg; reflexivity. Qed.
Lemma fcls_factor : forall t F, fcls_ok t F = fclsA (kind_of t) F.
Proof. destruct t; intro F; try reflexivity; try (destruct bangs; reflexivity); destruct neg; reflexivity. Qed.

Lemma adj_ok_neg_r : forall a, src_adjacent_ok a HNeg = src_adjacent_ok a HGly.
Proof. destruct a; reflexivity. Qed.
Lemma adj_ok_namesn_r : forall a, src_adjacent_ok a HNamesN = src_adjacent_ok a HNamesG.
Proof. destruct a; reflexivity. Qed.

Lemma wfj_factor : forall p t spb, valid_tok p = true -> wf_junction p spb t = true ->
  wfjA (kind_of p) (cls (lastc p)) spb (kind_of t) = true.
Proof.
  intros p t spb Hp H. unfold wf_junction, shape_of in H.
  rewrite ?(ends_with_spec _ p Hp) in H.
  destruct p; try discriminate H; try (destruct bangs); try (destruct neg);
    cbn [kind_of wfjA lastc text last] in *;
    destruct t; try discriminate H; try (destruct bangs); try (destruct bangs0); try (destruct neg); try (destruct neg0);
    cbn [kind_of] in *;
    try exact H;
    repeat (match type of H with context [ends_with ?k ?x] => destruct (ends_with k x) end);
    try (match type of H with context [cclass_eqb (cls ?g) CNeg] => destruct (cclass_eqb (cls g) CNeg) end);
    try (match goal with |- context [cclass_eqb ?x CNeg] => destruct (cclass_eqb x CNeg) end);
    destruct spb; try exact H; try discriminate H; try reflexivity.
Qed.

(** THE ADJACENCY LEMMA (from the exhaustive check [junctionA_all]) *)
Lemma junction : forall p t sp, valid_tok p = true -> valid_tok t = true ->
  wf_junction p (is_some sp) t = true ->
  if space_between p sp t then spaced_stable (out_last p) (out_first t) = true
  else adj_stable (out_last p) (out_first t) = true.
Proof.
  intros p t sp Hp Ht Hw.
  rewrite (out_last_eq p Hp), (out_first_eq t Ht).
  destruct (first_out t Ht) as (c & Hfc & HF).
  pose proof (lastc_cls p Hp) as HL.
  pose proof (wfj_factor p t _ Hp Hw) as HW.
  pose proof (junctionA_holds (kind_of p) (cls (lastc p)) sp (kind_of t) (cls c)) as J.
  unfold junctionA in J. rewrite lcls_factor in HL. rewrite fcls_factor in HF.
  rewrite HL, HF, HW in J. cbn [andb implb] in J.
  rewrite (sb_factor p t sp (cls (lastc p))) by (intro k; apply ends_with_spec; exact Hp).
  unfold spaced_stable, adj_stable.
  rewrite (sb_factor (out_last_of p) (out_first_of t) (Some false) (cls (lastc p))) by (intro k; apply ends_with_out; exact Hp).
  rewrite (sb_factor (out_last_of p) (out_first_of t) None (cls (lastc p))) by (intro k; apply ends_with_out; exact Hp).
  rewrite (sep_factor (out_last_of p) (out_first_of t) c (valid_out_last p Hp) Hfc) by (destruct p; reflexivity).
  rewrite lastc_out, kind_out_last, kind_out_first.
  destruct (sbA (kind_of p) (cls (lastc p)) sp (kind_of t)); exact J.
Qed.
