(** C10: the spacing decisions produce stable lines from every well-formed word sequence. *)
From Coq Require Import List NArith Bool Lia PeanoNat.
From UV Require Import Model.Fmt Proofs.Fmt.
Import ListNotations.
Local Open Scope N_scope.

(* ---------------------------------------------------------------- forward form of norm_go *)

Definition sp_join (sp : option bool) (m : bool) : option bool :=
  match sp with Some m0 => Some (m0 || m || true) | None => Some m end.

Definition sep_of (prev : option token) (sp : option bool) (t : token) : list token :=
  match prev with None => [] | Some p => if space_between p sp t then [TSpace false] else [] end.

Fixpoint norm_fw (prev : option token) (sp : option bool) (ts : list token) : list token :=
  match ts with
  | [] => []
  | TSpace m :: r => norm_fw prev (sp_join sp m) r
  | t :: r => sep_of prev sp t ++ emit t ++ norm_fw (Some t) None r
  end.

Lemma norm_go_fw : forall ts acc prev sp, norm_go acc prev sp ts = rev acc ++ norm_fw prev sp ts.
Proof.
  induction ts as [|t r IH]; intros acc prev sp.
  - cbn. rewrite app_nil_r. reflexivity.
  - destruct t; cbn [norm_go norm_fw]; try (rewrite IH; unfold sep_of; destruct prev as [p|];
      [destruct (space_between p sp _) | ]; rewrite rev_app_distr, rev_involutive; cbn [rev app];
      rewrite <- ?app_assoc; reflexivity).
    apply IH.
Qed.

Lemma norm_fw_eq : forall ts, norm ts = norm_fw None None ts.
Proof. intro ts. unfold norm. rewrite norm_go_fw. reflexivity. Qed.

(* ---------------------------------------------------------------- first / last characters of a word *)

Lemma last_map_some : forall (l : list N) d, l <> [] -> last (map Some l) None = Some (last l d).
Proof.
  induction l as [|a l IH]; intros d H; [contradiction|].
  destruct l as [|b l]; [reflexivity|]. cbn [map last] in *. apply IH. discriminate.
Qed.

Lemma last_app_r : forall (l r : list N) d, r <> [] -> last (l ++ r) d = last r d.
Proof.
  induction l as [|a l IH]; intros r d H; [reflexivity|].
  cbn [app]. specialize (IH r d H). destruct (l ++ r) eqn:E.
  - destruct l; destruct r; try discriminate; contradiction.
  - exact IH.
Qed.

Lemma last_repeat : forall (x : N) n d, last (repeat x (S n)) d = x.
Proof. induction n as [|n IH]; intro d; [reflexivity|]. cbn [repeat last] in *. apply IH. Qed.

Lemma forallb_last : forall (f : N -> bool) l d, forallb f l = true -> l <> [] -> f (last l d) = true.
Proof.
  induction l as [|a l IH]; intros d H Hn; [contradiction|].
  cbn in H; apply andb_true_iff in H; destruct H as [Ha Hl].
  destruct l as [|b l]; [exact Ha|]. cbn [last]. apply IH; [exact Hl | discriminate].
Qed.

Lemma last_map_glyph : forall gs p, gs <> [] -> last (map TGlyph gs) p = TGlyph (last gs 0).
Proof.
  induction gs as [|g gs IH]; intros p H; [contradiction|].
  destruct gs as [|g' gs]; [reflexivity|]. cbn [map last] in *. apply IH. discriminate.
Qed.

Definition lastc (t : token) : N := last (text t) 0.
Definition out_last (p : token) : token := last (emit p) p.
Definition out_first (t : token) : token := hd t (emit t).

Lemma nonempty_neq : forall A (l : list A), nonempty l = true -> l <> [].
Proof. intros A [|x r] H; [discriminate | discriminate]. Qed.

Lemma text_nonempty : forall t, valid_tok t = true -> text t <> [].
Proof.
  intros t H; destruct t; cbn [text valid_tok] in *; try discriminate.
  - apply andb_true_iff in H; destruct H as [H _]. apply nonempty_neq; exact H.
  - destruct s; [discriminate | discriminate].
  - apply andb_true_iff in H; destruct H as [H _]. apply nonempty_neq; exact H.
  - apply andb_true_iff in H; destruct H as [H _]. apply nonempty_neq in H.
    destruct neg; [discriminate|]. exact H.
  - apply andb_true_iff in H; destruct H as [H _]. apply nonempty_neq; exact H.
  - apply andb_true_iff in H; destruct H as [H _]. apply nonempty_neq; exact H.
Qed.

Lemma ends_with_spec : forall k t, valid_tok t = true -> ends_with k t = cclass_eqb (cls (lastc t)) k.
Proof.
  intros k t H. unfold ends_with, last_char, lastc.
  rewrite (last_map_some _ 0) by (apply text_nonempty; exact H). reflexivity.
Qed.

(** class of the last character, by kind of word *)
Definition lcls_ok (p : token) (k : cclass) : bool :=
  match p with
  | TLower _ => cclass_eqb k CLow
  | TUpper _ O => cclass_eqb k CLow || cclass_eqb k CUp
  | TUpper _ (S _) => cclass_eqb k CBang
  | TGlyph _ | TNames _ => cclass_eqb k CGly || cclass_eqb k CNeg
  | TEq => cclass_eqb k CEq
  | TNum _ _ => cclass_eqb k CDig
  | TSub _ | TSubA _ => cclass_eqb k CSubd
  | TStrand => cclass_eqb k CUnder
  | TOpen _ => cclass_eqb k COpen
  | TClose _ => cclass_eqb k CClose
  | TStr _ => cclass_eqb k CQuote
  | TChr _ => true
  | TSpace _ => cclass_eqb k CSp
  end.

Lemma cclass_eqb_refl : forall k, cclass_eqb k k = true.
Proof. destruct k; reflexivity. Qed.

Lemma all_cls_last : forall k s, all_cls k s = true -> s <> [] -> cls (last s 0) = k.
Proof.
  intros k s H Hn. apply cclass_eqb_eq.
  apply (forallb_last (fun c => cclass_eqb (cls c) k) s 0 H Hn).
Qed.

Lemma glyph_cls : forall g, is_glyphc g = true -> cclass_eqb (cls g) CGly || cclass_eqb (cls g) CNeg = true.
Proof. intros g H; unfold is_glyphc in H; destruct (cls g); try discriminate; reflexivity. Qed.

Lemma lastc_cls : forall p, valid_tok p = true -> lcls_ok p (cls (lastc p)) = true.
Proof.
  intros p H; destruct p; unfold lastc; cbn [text valid_tok lcls_ok] in *.
  - apply andb_true_iff in H; destruct H as [Hn Ha]. rewrite (all_cls_last CLow s Ha (nonempty_neq _ _ Hn)). reflexivity.
  - destruct s as [|c s]; [discriminate|]. apply andb_true_iff in H; destruct H as [Hc Hs].
    destruct bangs as [|b].
    + cbn [repeat]. rewrite app_nil_r.
      assert (Hl : is_letter (last (c :: s) 0) = true).
      { apply forallb_last; [|discriminate]. cbn. rewrite Hs, andb_true_r.
        unfold is_letter. apply cclass_eqb_eq in Hc. rewrite Hc. reflexivity. }
      unfold is_letter in Hl. destruct (cls (last (c :: s) 0)); try discriminate; reflexivity.
    + rewrite last_app_r by discriminate. rewrite last_repeat. reflexivity.
  - cbn [last]. apply glyph_cls; exact H.
  - apply andb_true_iff in H; destruct H as [Hn Ha]. apply glyph_cls.
    apply forallb_last; [exact Ha | apply nonempty_neq; exact Hn].
  - reflexivity.
  - apply andb_true_iff in H; destruct H as [Hn Ha]. rewrite last_app_r by (apply nonempty_neq; exact Hn).
    rewrite (all_cls_last CDig ds Ha (nonempty_neq _ _ Hn)). reflexivity.
  - apply andb_true_iff in H; destruct H as [Hn Ha]. rewrite (all_cls_last CSubd ds Ha (nonempty_neq _ _ Hn)). reflexivity.
  - apply andb_true_iff in H; destruct H as [Hn Ha]. rewrite (all_cls_last CSubd ds Ha (nonempty_neq _ _ Hn)). reflexivity.
  - reflexivity.
  - apply cclass_eqb_eq in H. cbn [last]. rewrite H. reflexivity.
  - apply cclass_eqb_eq in H. cbn [last]. rewrite H. reflexivity.
  - change (34 :: body ++ [34]) with ([34] ++ body ++ [34]). rewrite app_assoc, last_app_r by discriminate. reflexivity.
  - reflexivity.
  - reflexivity.
Qed.

(** class of the first character, by kind of word *)
Definition fcls_ok (t : token) (k : cclass) : bool :=
  match t with
  | TLower _ => cclass_eqb k CLow
  | TUpper _ _ => cclass_eqb k CUp
  | TGlyph _ | TNames _ => cclass_eqb k CGly || cclass_eqb k CNeg
  | TEq => cclass_eqb k CEq
  | TNum true _ => cclass_eqb k CNeg
  | TNum false _ => cclass_eqb k CDig
  | TSub _ | TSubA _ => cclass_eqb k CSubd
  | TStrand => cclass_eqb k CUnder
  | TOpen _ => cclass_eqb k COpen
  | TClose _ => cclass_eqb k CClose
  | TStr _ => cclass_eqb k CQuote
  | TChr _ => cclass_eqb k CAt
  | TSpace _ => cclass_eqb k CSp
  end.

Definition out_first_of (t : token) : token :=
  match t with TNames gs => TGlyph (hd 0 gs) | TSubA ds => TSub ds | t => t end.
Definition out_last_of (p : token) : token :=
  match p with TNames gs => TGlyph (last gs 0) | TSubA ds => TSub ds | p => p end.

Lemma out_first_eq : forall t, valid_tok t = true -> out_first t = out_first_of t.
Proof.
  intros t H; destruct t; try reflexivity. cbn [valid_tok] in H. apply andb_true_iff in H; destruct H as [Hn _].
  destruct gs; [discriminate | reflexivity].
Qed.

Lemma out_last_eq : forall p, valid_tok p = true -> out_last p = out_last_of p.
Proof.
  intros p H; destruct p; try reflexivity. cbn [valid_tok] in H. apply andb_true_iff in H; destruct H as [Hn _].
  unfold out_last; cbn [emit out_last_of]. apply last_map_glyph. apply nonempty_neq; exact Hn.
Qed.

Lemma first_out : forall t, valid_tok t = true ->
  exists c, first_char (out_first_of t) = Some c /\ fcls_ok t (cls c) = true.
Proof.
  intros t H; destruct t; unfold first_char; cbn [out_first_of text valid_tok fcls_ok hd_error] in *.
  - apply andb_true_iff in H; destruct H as [Hn Ha]. destruct s as [|c s]; [discriminate|].
    cbn in Ha; apply andb_true_iff in Ha; destruct Ha as [Hc _]. exists c; split; [reflexivity | exact Hc].
  - destruct s as [|c s]; [discriminate|]. apply andb_true_iff in H; destruct H as [Hc _].
    exists c; split; [reflexivity | exact Hc].
  - exists g; split; [reflexivity | apply glyph_cls; exact H].
  - apply andb_true_iff in H; destruct H as [Hn Ha]. destruct gs as [|g gs]; [discriminate|].
    cbn in Ha; apply andb_true_iff in Ha; destruct Ha as [Hg _].
    exists g; split; [reflexivity | apply glyph_cls; exact Hg].
  - exists 61; split; reflexivity.
  - apply andb_true_iff in H; destruct H as [Hn Ha]. destruct ds as [|c ds]; [discriminate|].
    cbn in Ha; apply andb_true_iff in Ha; destruct Ha as [Hc _]. destruct neg.
    + exists 175; split; reflexivity.
    + exists c; split; [reflexivity | exact Hc].
  - apply andb_true_iff in H; destruct H as [Hn Ha]. destruct ds as [|c ds]; [discriminate|].
    cbn in Ha; apply andb_true_iff in Ha; destruct Ha as [Hc _]. exists c; split; [reflexivity | exact Hc].
  - apply andb_true_iff in H; destruct H as [Hn Ha]. destruct ds as [|c ds]; [discriminate|].
    cbn in Ha; apply andb_true_iff in Ha; destruct Ha as [Hc _]. exists c; split; [reflexivity | exact Hc].
  - exists 95; split; reflexivity.
  - exists k; split; [reflexivity | exact H].
  - exists k; split; [reflexivity | exact H].
  - exists 34; split; reflexivity.
  - exists 64; split; reflexivity.
  - exists 32; split; reflexivity.
Qed.

(* ---------------------------------------------------------------- the adjacency lemma *)

Lemma ends_with_out : forall k p, valid_tok p = true ->
  ends_with k (out_last_of p) = cclass_eqb (cls (lastc p)) k.
Proof.
  intros k p H. destruct p; try (apply ends_with_spec; exact H).
  - (* TNames *) cbn [out_last_of]. unfold ends_with, last_char, lastc; cbn [text map last]. reflexivity.
  - (* TSubA *) cbn [out_last_of]. change (ends_with k (TSub ds)) with (ends_with k (TSubA ds)).
    apply ends_with_spec; exact H.
Qed.

(** the side condition of [wf_go] between the previous word and the next one *)
Definition wf_junction (p : token) (sp : bool) (t : token) : bool :=
  match shape_of p, shape_of t with
  | Some a, Some b =>
      if sp then match a, b with HStrand, _ | _, HStrand | _, HSub | _, HSubA => false | _, _ => true end
      else src_adjacent_ok a b
  | _, _ => false
  end.

Definition is_some {A} (o : option A) : bool := match o with Some _ => true | None => false end.

Ltac split_cls :=
  repeat match goal with
  | H : context [cls ?x] |- _ => destruct (cls x) eqn:?; try discriminate
  | |- context [cls ?x] => destruct (cls x) eqn:?; try discriminate
  end.

Lemma junction : forall p t sp, valid_tok p = true -> valid_tok t = true ->
  wf_junction p (is_some sp) t = true ->
  if space_between p sp t then spaced_stable (out_last p) (out_first t) = true
  else adj_stable (out_last p) (out_first t) = true.
Proof.
  intros p t sp Hp Ht Hw.
  rewrite (out_last_eq p Hp), (out_first_eq t Ht).
  destruct (first_out t Ht) as (c & Hfc & HF).
  pose proof (lastc_cls p Hp) as HL.
  unfold spaced_stable, adj_stable, sep_ok; rewrite Hfc.
  unfold wf_junction, shape_of in Hw.
  unfold space_between, space_adjacent.
  rewrite ?(ends_with_spec _ p Hp), ?(ends_with_out _ p Hp) in *.
  clear Hfc Hp Ht.
  destruct p; try discriminate Hw;
    destruct t; try discriminate Hw;
    cbn [out_last_of out_first_of est lastc text last lcls_ok fcls_ok] in *;
    try (destruct bangs); try (destruct bangs0); try (destruct neg); try (destruct neg0);
    destruct sp as [[|]|]; cbn [is_some] in Hw;
    unfold continue; split_cls; try discriminate; reflexivity.
Qed.
