(** C12 — records of the cache keys before the repair 25aa9f6 ("key the inverse and
    fast-function caches on spans and function indices too"): the old keys, the real pairs
    on which they failed, and that the repaired keys tell those pairs apart. *)
From Coq Require Import List NArith Bool.
From UV Require Import Model.Memo Proofs.Memo.
Import ListNotations.
Open Scope N_scope.

(** F ← ⊂1 / X ← 5 / °⊙F X [2 2]      and      X ← 5 / F ← ⊂1 / °⊙F X [2 2]
    The third line has the same span indices 4..8 in both programs; F's body [⊂] has span
    index 2 in the first and 3 in the second; F is function 0 in both. *)
Definition body_at (s : N) : node := NRun [NPush 1; NPrim JOIN s].
Definition un_w1 : inv_input := ([NMod DIP [(NCall 1 S11 0 99 0 (body_at 2) 5, S11)] 6], (0, false)).
Definition un_w2 : inv_input := ([NMod DIP [(NCall 1 S11 0 99 1 (body_at 3) 5, S11)] 6], (0, false)).

Theorem inv_cache_refuted_pre : exists x y, inv_key_pre x = inv_key_pre y /\ inv_deps_pre x <> inv_deps_pre y.
Proof. exists un_w1, un_w2. split; [reflexivity|]. intro H. vm_compute in H. discriminate H. Qed.

(** hashing every span of the input recursively would not have repaired it: the spans that
    differ are in the body of the called function *)
Theorem inv_fix1_refuted_pre : exists x y, inv_key_fix1 x = inv_key_fix1 y /\ inv_deps_pre x <> inv_deps_pre y.
Proof. exists un_w1, un_w2. split; [reflexivity|]. intro H. vm_compute in H. discriminate H. Qed.

(** a pair that differs in a nested span of the input itself (same first span) *)
Definition un_w3 : inv_input := ([NMod DIP [(NPrim JOIN 4, S21)] 3], (0, false)).
Definition un_w4 : inv_input := ([NMod DIP [(NPrim JOIN 5, S21)] 3], (0, false)).
Theorem inv_cache_refuted_nested_pre : inv_key_pre un_w3 = inv_key_pre un_w4 /\ inv_deps_pre un_w3 <> inv_deps_pre un_w4.
Proof. split; [reflexivity|]. intro H. vm_compute in H. discriminate H. Qed.

(** fast functions: span index (≡⊢ at another position) *)
Definition zip_w1 : node := NPrim FIRST 4.
Definition zip_w2 : node := NPrim FIRST 1.
Theorem zip_cache_refuted_span_pre : exists x y, zip_key_pre x = zip_key_pre y /\ zip_deps x <> zip_deps y.
Proof. exists zip_w1, zip_w2. split; [reflexivity|]. intro H. vm_compute in H. discriminate H. Qed.

(** fast functions: function index.  F ← × / ≡(/F⇌) …  then  G ← + / F ← × / ≡(/F⇌) … :
    the cached closure called function 0, which is G in the second assembly *)
Definition zip_w3 : node := NRun [NPrim REVERSE 8; NMod REDUCE [(NCall 1 S21 0 77 0 (NPrim MUL 2) 10, S21)] 9].
Definition zip_w4 : node := NRun [NPrim REVERSE 8; NMod REDUCE [(NCall 1 S21 1 77 1 (NPrim MUL 2) 10, S21)] 9].
Theorem zip_cache_refuted_index_pre : exists x y, zip_key_pre x = zip_key_pre y /\ zip_deps x <> zip_deps y.
Proof. exists zip_w3, zip_w4. split; [reflexivity|]. intro H. vm_compute in H. discriminate H. Qed.

(** between 25aa9f6 and 7da4086 [hash_deep] did not feed the handles' names.
      F ← ⍏ / °F [1 2]     then     G ← ⍏ / °G [1 2]
    same content, spans, function index; the cached error said "cannot invert F because …";
      F ← ⊏ / ≡(/F⇌) [1_2 3_9]   then   G ← ⊏ / ≡(/G⇌) [1_2 3_8]: the trace named F *)
Definition un_n1 : inv_input := ([NCall 70 S11 0 55 1 (NPrim RISE 2) 4], (0, false)).
Definition un_n2 : inv_input := ([NCall 71 S11 0 55 1 (NPrim RISE 2) 4], (0, false)).
Theorem inv_cache_names_refuted_pre : exists x y, inv_key_pre_names x = inv_key_pre_names y /\ inv_deps_named x <> inv_deps_named y.
Proof. exists un_n1, un_n2. split; [reflexivity|]. intro H. vm_compute in H. discriminate H. Qed.
Definition zip_n1 : node := NRun [NPrim REVERSE 8; NMod REDUCE [(NCall 70 S21 0 66 1 (NPrim SELECT 2) 6, S21)] 5].
Definition zip_n2 : node := NRun [NPrim REVERSE 8; NMod REDUCE [(NCall 71 S21 0 66 1 (NPrim SELECT 2) 6, S21)] 5].
Theorem zip_cache_names_refuted_pre : exists x y, zip_key_pre_names x = zip_key_pre_names y /\ zip_deps_named x <> zip_deps_named y.
Proof. exists zip_n1, zip_n2. split; [reflexivity|]. intro H. vm_compute in H. discriminate H. Qed.

(** before 868269f the inverse that took [asm.spans.len() - 1] was stored like any other.
      F ← ⊙5 / °F 1 6        then        F ← ⊙5 / X ← 1 / Y ← 2 / °F 1 6
    [°F] inverts F's body [⊙5] (same span indices in both); the table has 6 spans at that
    moment in the first program and 10 in the second; the cached [MatchPattern] carried
    span 5: the second program's error was reported at 2:1 instead of 4:2 (other order: the
    index is out of range, "The compiler has crashed") *)
Definition len_w1 : inv_input_l := (([NMod DIP [(NPush 5, S01c)] 2], (0, false)), 6).
Definition len_w2 : inv_input_l := (([NMod DIP [(NPush 5, S01c)] 2], (0, false)), 10).
Theorem inv_cache_spans_len_refuted_pre : exists x y, inv_key_l x = inv_key_l y /\ inv_deps_l x <> inv_deps_l y.
Proof. exists len_w1, len_w2. split; [reflexivity|]. intro H. vm_compute in H. discriminate H. Qed.

(** ... as a history: storing unconditionally, with a function that reads the length *)
Theorem inv_cache_spans_len_visible_pre :
  let f := inv_f_l (fun _ => true) (fun d l => (d, l)) in
  run_memo_store (fun a b : list node * (N * bool) => true) always (fun _ => true) inv_key_l f [len_w1; len_w2]
  <> map f [len_w1; len_w2].
Proof. intro f. intro H. vm_compute in H. discriminate H. Qed.

(** before 8592559 [Hash for Function] fed the body hash only; the signature cache then served
    the signature of another function with the same body.  The real history:
      F ← |1.0 + / G ← F      then      F ← + / G ← F / ∩G 1 2 3 4      gave [4 6] instead of [7 3] *)
Definition S10 := 1. Definition S21' := 65538.
Definition sg_w1 : list node := [NCall 70 S10 0 44 1 (NPrim ADD 2) 3].
Definition sg_w2 : list node := [NCall 70 S21' 0 44 1 (NPrim ADD 2) 3].
Theorem sig_cache_refuted_pre : exists x y, sig_key_pre x = sig_key_pre y /\ sig_cache_deps x <> sig_cache_deps y.
Proof. exists sg_w1, sg_w2. split; [reflexivity|]. intro H. vm_compute in H. discriminate H. Qed.

(** before 261768c the anti-inverse key did not feed [for_un].  The real program:
      M! ← ⊃(⌝^0 1|°(^0 1)) / M!ℂ ℂ0 5     gave different results for the two orders of the branches *)
Definition an_w1 : inv_input := ([NPrim MUL 4; NPush 1], (0, false)).
Definition an_w2 : inv_input := ([NPrim MUL 4; NPush 1], (0, true)).
Theorem anti_cache_for_un_refuted_pre : exists x y, anti_key_pre x = anti_key_pre y /\ inv_deps_named x <> inv_deps_named y.
Proof. exists an_w1, an_w2. split; [reflexivity|]. intro H. vm_compute in H. discriminate H. Qed.

(** the repaired keys tell every one of these pairs apart *)
Theorem repaired_keys_separate :
  inv_key un_w1 <> inv_key un_w2 /\ inv_key un_w3 <> inv_key un_w4 /\
  zip_key zip_w1 <> zip_key zip_w2 /\ zip_key zip_w3 <> zip_key zip_w4 /\
  inv_key un_n1 <> inv_key un_n2 /\ zip_key zip_n1 <> zip_key zip_n2 /\
  sig_key sg_w1 <> sig_key sg_w2 /\ inv_key an_w1 <> inv_key an_w2.
Proof. repeat split; intro H; vm_compute in H; discriminate H. Qed.
