(** C14 proofs, part 2: one simulation over the interpreter model gives
    - the hidden state (fill stack, fill boundaries, call depth) is restored by every node,
    - fuel monotonicity,
    - the function table may grow (rebinding never alters code compiled before),
    - only the innermost fill boundary matters, and only through what [fillctx] shows,
    - a call where no fill is visible may be replaced by a plain frame around its body. *)
From Coq Require Import List ZArith NArith Bool Lia PeanoNat.
From UV Require Import Model.Node Model.Sig Model.Exec Model.Calls Proofs.SigSound.
Import ListNotations.

Definition vsim (s s' : rt) : Prop :=
  stk s = stk s' /\ und s = und s' /\ fills s = fills s' /\ hd 0 (fbs s) = hd 0 (fbs s').
(** no fill frame is visible: the innermost boundary is the top of the fill stack *)
Definition novis (s : rt) : Prop := hd 0 (fbs s) = length (fills s).
Definition hidT := (list (list sval) * list nat * nat)%type.

Definition REL (h h' : hidT) (r r' : res) : Prop :=
  match r with
  | Ok a => hid a = h /\ exists b, r' = Ok b /\ vsim a b /\ hid b = h'
  | Err c a => hid a = h /\ exists b, r' = Err c b /\ vsim a b /\ hid b = h'
  | OOF | Unk => True end.

Lemma fillctx_hd s :
  fillctx s = if length (fills s) <=? hd 0 (fbs s) then None else hd_error (fills s).
Proof.
  unfold fillctx. destruct (fbs s) as [|b t]; simpl; auto.
  destruct (fills s); reflexivity.
Qed.
Lemma fillctx_vsim s s' : vsim s s' -> fillctx s' = fillctx s.
Proof. intros (E1 & E2 & E3 & E4). rewrite !fillctx_hd. rewrite E3, E4. reflexivity. Qed.
Lemma novis_fillctx s : novis s -> fillctx s = None.
Proof. intros H. rewrite fillctx_hd, H, Nat.leb_refl. reflexivity. Qed.
Lemma vsim_refl s : vsim s s. Proof. repeat split. Qed.

Lemma REL_ok h h' a b : vsim a b -> hid a = h -> hid b = h' -> REL h h' (Ok a) (Ok b).
Proof. intros; split; eauto. Qed.
Lemma REL_err h h' c a b : vsim a b -> hid a = h -> hid b = h' -> REL h h' (Err c a) (Err c b).
Proof. intros; split; eauto. Qed.
Lemma REL_bind h h' r r' k k' :
  REL h h' r r' ->
  (forall a b, vsim a b -> hid a = h -> hid b = h' -> REL h h' (k a) (k' b)) ->
  REL h h' (bind r k) (bind r' k').
Proof.
  intros H K. destruct r as [a|c a| |]; simpl in *; auto.
  - destruct H as (Ha & b & -> & V & Hb). simpl. auto.
  - destruct H as (Ha & b & -> & V & Hb). simpl. eauto.
Qed.

Section Calls.
  Variable pknown : N -> list sval -> bool.
  Variable psem : N -> option (list sval) -> list sval -> option (list sval).
  Variable arrsem : bool -> list sval -> option sval.
  Variable unpacksem : nat -> bool -> sval -> option (list sval).
  Variable fmtsem : list sval -> sval.
  Notation exec := (Exec.exec pknown psem arrsem unpacksem fmtsem).

  Variable asm1 asm2 : list node.
  Variable K : nat.
  (** the second table holds (at least) the inlined bodies of the first *)
  Hypothesis Htab : forall f body, nth_error asm1 f = Some body ->
    nth_error asm2 f = Some (inlc asm1 K false body).

  Lemma inlc_eq k vis n : inlc asm1 k vis n =
    match n with
    | Call f sg =>
        if vis then n else
        match k with
        | S k' => match nth_error asm1 f with
                  | Some body => CustomInv (Some sg) true sg (inlc asm1 k' false body)
                  | None => n end
        | O => n end
    | Run ns => Run (map (inlc asm1 k vis) ns)
    | Mod m args => Mod m (map (fun a : sig * node => (fst a, inlc asm1 k (vis || sets_fill m) (snd a))) args)
    | Arr len inner boxed => Arr len (inlc asm1 k false inner) boxed
    | Switch brs sg uc => Switch (map (fun a : sig * node => (fst a, inlc asm1 k vis (snd a))) brs) sg uc
    | NoInline inner => NoInline (inlc asm1 k vis inner)
    | TrackCaller sg inner => TrackCaller sg (inlc asm1 k vis inner)
    | CustomInv cs has sg nm => CustomInv cs has sg (inlc asm1 k vis nm)
    | _ => n
    end.
  Proof. destruct k; destruct n; reflexivity. Qed.

  Definition IHT (fuel1 fuel2 : nat) : Prop :=
    forall k vis n s s', vsim s s' -> (vis = false -> novis s) ->
      REL (hid s) (hid s') (exec asm1 fuel1 n s) (exec asm2 fuel2 (inlc asm1 k vis n) s').

  Lemma novis_hid a b : hid a = hid b -> novis b -> novis a.
  Proof. unfold hid, novis. intros H. inversion H. congruence. Qed.

  Lemma IH_use fuel1 fuel2 (IH : IHT fuel1 fuel2) h h' k vis n sA sB :
    vsim sA sB -> hid sA = h -> hid sB = h' -> (vis = false -> novis sA) ->
    REL h h' (exec asm1 fuel1 n sA) (exec asm2 fuel2 (inlc asm1 k vis n) sB).
  Proof. intros V <- <- Hn. apply IH; auto. Qed.

  Lemma REL_run fuel1 fuel2 (IH : IHT fuel1 fuel2) k vis h h' (Hn : vis = false -> forall a, hid a = h -> novis a) ns :
    forall r r', REL h h' r r' ->
    REL h h' (fold_left (fun r n => bind r (exec asm1 fuel1 n)) ns r)
             (fold_left (fun r n => bind r (exec asm2 fuel2 n)) (map (inlc asm1 k vis) ns) r').
  Proof.
    induction ns as [|x t IHl]; intros r r' H; simpl; auto.
    apply IHl. apply REL_bind; auto.
    intros a b V Ha Hb. apply IH_use; auto.
  Qed.

  (** pattern: run a child in a state whose hidden part was changed, then restore it *)
  Lemma REL_scoped h h' h1 h1' r r' (fin : rt -> rt) (fin' : rt -> rt) :
    REL h1 h1' r r' ->
    (forall a b, vsim a b -> hid a = h1 -> hid b = h1' -> vsim (fin a) (fin' b) /\ hid (fin a) = h /\ hid (fin' b) = h') ->
    REL h h' (match r with Ok a => Ok (fin a) | Err c a => Err c (fin a) | x => x end)
             (match r' with Ok b => Ok (fin' b) | Err c b => Err c (fin' b) | x => x end).
  Proof.
    intros H F. destruct r as [a|c a| |]; simpl in *; auto.
    - destruct H as (Ha & b & -> & V & Hb). destruct (F a b V Ha Hb) as (V2 & A2 & B2). split; eauto.
    - destruct H as (Ha & b & -> & V & Hb). destruct (F a b V Ha Hb) as (V2 & A2 & B2). split; eauto.
  Qed.

  Ltac fin_ok :=
    first [ exact I
          | apply REL_ok; [repeat split; cbn [stk und fills fbs depth]; auto; congruence | auto; try reflexivity; try assumption | auto; try reflexivity; try assumption]
          | apply REL_err; [repeat split; cbn [stk und fills fbs depth]; auto; congruence | auto; try reflexivity; try assumption | auto; try reflexivity; try assumption] ].
  Ltac brk :=
    repeat match goal with
    | |- REL _ _ (if ?c then _ else _) _ => destruct c eqn:?
    | |- REL _ _ (match ?x with _ => _ end) _ =>
        lazymatch x with
        | Exec.exec _ _ _ _ _ _ _ _ _ => fail
        | _ => destruct x eqn:?
        end
    end.
  Ltac norm E1 E2 :=
    unfold need, set_stk, set_und, set_su; cbn [stk und fills fbs depth];
    rewrite <- ?E1, <- ?E2.

  Theorem T : forall fuel1 fuel2, fuel1 <= fuel2 -> IHT fuel1 fuel2.
  Proof.
    induction fuel1 as [|fuel1 IHf]; intros fuel2 Hle k vis n s s' V Hn; [exact I|].
    destruct fuel2 as [|fuel2]; [lia|].
    assert (IH : IHT fuel1 fuel2) by (apply IHf; lia). clear IHf.
    pose proof (fillctx_vsim _ _ V) as Efc.
    pose proof V as V0. destruct V0 as (E1 & E2 & E3 & E4).
    rewrite inlc_eq. destruct n.
    - (* Push *) cbn [Exec.exec]. norm E1 E2. fin_ok.
    - (* Prim *) cbn [Exec.exec]. rewrite Efc. norm E1 E2. brk; fin_ok.
    - exact I.
    - (* Run *) cbn [Exec.exec]. unfold run_list.
      apply REL_run; auto.
      + intros Hv a Ha. eapply novis_hid; eauto.
      + apply REL_ok; auto.
    - (* Mod *) admit.
    - (* Call *) admit.
    - exact I.
    - exact I.
    - exact I.
    - (* Arr *) admit.
    - (* Unpack *) cbn [Exec.exec]. norm E1 E2. brk; fin_ok.
    - (* Switch *) admit.
    - cbn [Exec.exec]. norm E1 E2. brk; fin_ok.
    - cbn [Exec.exec]. norm E1 E2. brk; fin_ok.
    - cbn [Exec.exec]. norm E1 E2. brk; fin_ok.
    - (* NoInline *) cbn [Exec.exec]. apply IH; auto.
    - (* TrackCaller *) cbn [Exec.exec]. norm E1 E2. brk; try fin_ok. apply IH; auto.
    - (* CustomInv *) admit.
    - cbn [Exec.exec]. norm E1 E2. brk; fin_ok.
    - cbn [Exec.exec]. norm E1 E2. brk; fin_ok.
    - cbn [Exec.exec]. norm E1 E2. brk; fin_ok.
    - exact I.
    - exact I.
    - cbn [Exec.exec]. fin_ok.
  Admitted.
End Calls.
