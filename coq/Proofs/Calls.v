(** C14 proofs, part 2: one simulation over the interpreter model gives
    - the hidden state (fill stack, fill boundaries, call depth) is restored by every node,
    - fuel monotonicity,
    - the function table may grow (rebinding never alters code compiled before),
    - only the innermost fill boundary matters, and only through what [fillctx] shows,
    - a call where no fill is visible may be replaced by a plain frame around its body. *)
From Coq Require Import List ZArith NArith Bool Lia PeanoNat.
From UV Require Import Model.Node Model.Sig Model.Exec Model.Calls Proofs.SimBase Proofs.SigMono Proofs.SigSound Proofs.Frame.
Import ListNotations.

Definition vsim (s s' : rt) : Prop :=
  stk s = stk s' /\ und s = und s' /\ fills s = fills s' /\ hd 0 (fbs s) = hd 0 (fbs s').
(** no fill frame is visible: the innermost boundary is the top of the fill stack *)
Definition novis (s : rt) : Prop := hd 0 (fbs s) = length (fills s).
Definition hidT := (list (list sval) * list nat * nat)%type.

Definition REL (h h' : hidT) (r r' : res) : Prop :=
  match r with
  | Ok a => hid a = h /\ exists b, r' = Ok b /\ vsim a b /\ hid b = h'
  | Err c a => hid a = h /\ exists b, r' = Err c b /\ vsim a b /\ hid b = h'
  | OOF | Unk => True end.

Lemma fillctx_hd s :
  fillctx s = if length (fills s) <=? hd 0 (fbs s) then None else hd_error (fills s).
Proof.
  unfold fillctx. destruct (fbs s) as [|b t]; simpl; auto.
  destruct (fills s); reflexivity.
Qed.
Lemma fillctx_vsim s s' : vsim s s' -> fillctx s' = fillctx s.
Proof. intros (E1 & E2 & E3 & E4). rewrite !fillctx_hd. rewrite E3, E4. reflexivity. Qed.
Lemma novis_fillctx s : novis s -> fillctx s = None.
Proof. intros H. rewrite fillctx_hd, H, Nat.leb_refl. reflexivity. Qed.
Lemma vsim_refl s : vsim s s. Proof. repeat split. Qed.

Lemma REL_ok h h' a b : vsim a b -> hid a = h -> hid b = h' -> REL h h' (Ok a) (Ok b).
Proof. intros; split; eauto. Qed.
Lemma REL_err h h' c a b : vsim a b -> hid a = h -> hid b = h' -> REL h h' (Err c a) (Err c b).
Proof. intros; split; eauto. Qed.
Lemma REL_bind h h' r r' k k' :
  REL h h' r r' ->
  (forall a b, vsim a b -> hid a = h -> hid b = h' -> REL h h' (k a) (k' b)) ->
  REL h h' (bind r k) (bind r' k').
Proof.
  intros H K. destruct r as [a|c a| |]; simpl in *; auto.
  - destruct H as (Ha & b & -> & V & Hb). simpl. auto.
  - destruct H as (Ha & b & -> & V & Hb). simpl. eauto.
Qed.

Lemma REL_match h h' h1 h1' r r' (ko ko' : rt -> res) (ke ke' : bool -> rt -> res) :
  REL h1 h1' r r' ->
  (forall a b, vsim a b -> hid a = h1 -> hid b = h1' -> REL h h' (ko a) (ko' b)) ->
  (forall c a b, vsim a b -> hid a = h1 -> hid b = h1' -> REL h h' (ke c a) (ke' c b)) ->
  REL h h' (match r with Ok a => ko a | Err c a => ke c a | x => x end)
           (match r' with Ok b => ko' b | Err c b => ke' c b | x => x end).
Proof.
  intros H KO KE. destruct r as [a|c a| |]; simpl in *; auto.
  - destruct H as (Ha & b & -> & V & Hb). auto.
  - destruct H as (Ha & b & -> & V & Hb). auto.
Qed.

(** the two kinds of frame: a call (fill boundary + frame) and a plain frame (exec_with_span) *)
Definition enter_call (s : rt) : rt := RT (stk s) (und s) (fills s) (length (fills s) :: fbs s) (S (depth s)).
Definition leave_call (s2 : rt) : rt := RT (stk s2) (und s2) (fills s2) (tl (fbs s2)) (pred (depth s2)).
Definition enter_frame (s : rt) : rt := RT (stk s) (und s) (fills s) (fbs s) (S (depth s)).
Definition leave_frame (s2 : rt) : rt := RT (stk s2) (und s2) (fills s2) (fbs s2) (pred (depth s2)).
Definition height_ok (sg : sig) (s s2 : rt) : bool :=
  Z.eqb (Z.of_nat (length (stk s2)) - Z.of_nat (length (stk s))) (Z.of_nat (so sg) - Z.of_nat (sa sg)).
Definition framed (fin : rt -> rt) (chk : rt -> bool) (r : res) : res :=
  match r with
  | Ok a => if chk a then Ok (fin a) else Err false (fin a)
  | Err c a => Err c (fin a)
  | x => x end.

Lemma leave_call_ok sg s s' a b : vsim s s' -> vsim a b ->
  hid a = hid (enter_call s) -> hid b = hid (enter_call s') ->
  vsim (leave_call a) (leave_call b) /\ hid (leave_call a) = hid s /\ hid (leave_call b) = hid s' /\
  height_ok sg s a = height_ok sg s' b.
Proof.
  destruct s, s', a, b. unfold vsim, hid, enter_call, leave_call, height_ok. simpl.
  intros (?&?&?&?) (?&?&?&?) Ha Hb. inversion Ha. inversion Hb. subst. simpl. repeat split; auto.
Qed.
Lemma leave_frame_ok sg s s' a b : vsim s s' -> novis s -> vsim a b ->
  hid a = hid (enter_call s) -> hid b = hid (enter_frame s') ->
  vsim (leave_call a) (leave_frame b) /\ hid (leave_call a) = hid s /\ hid (leave_frame b) = hid s' /\
  height_ok sg s a = height_ok sg s' b.
Proof.
  destruct s, s', a, b. unfold vsim, novis, hid, enter_call, enter_frame, leave_call, leave_frame, height_ok. simpl.
  intros (?&?&?&?) Hn (?&?&?&?) Ha Hb. inversion Ha. inversion Hb. subst. simpl in *. repeat split; auto.
Qed.
Lemma leave_frame2_ok sg s s' a b : vsim s s' -> vsim a b ->
  hid a = hid (enter_frame s) -> hid b = hid (enter_frame s') ->
  vsim (leave_frame a) (leave_frame b) /\ hid (leave_frame a) = hid s /\ hid (leave_frame b) = hid s' /\
  height_ok sg s a = height_ok sg s' b.
Proof.
  destruct s, s', a, b. unfold vsim, hid, enter_frame, leave_frame, height_ok. simpl.
  intros (?&?&?&?) (?&?&?&?) Ha Hb. inversion Ha. inversion Hb. subst. simpl. repeat split; auto.
Qed.

Section Calls.
  Variable pknown : N -> list sval -> bool.
  Variable psem : N -> option (list sval) -> list sval -> option (list sval).
  Variable arrsem : bool -> list sval -> option sval.
  Variable unpacksem : nat -> bool -> sval -> option (list sval).
  Variable fmtsem : list sval -> sval.
  Notation exec := (Exec.exec pknown psem arrsem unpacksem fmtsem).

  Variable asm1 asm2 : list node.
  Variable K : nat.
  (** the second table holds (at least) the inlined bodies of the first *)
  Hypothesis Htab : forall f body, nth_error asm1 f = Some body ->
    nth_error asm2 f = Some (inlc asm1 K false body).

  Lemma inlc_eq k vis n : inlc asm1 k vis n =
    match n with
    | Call f sg =>
        if vis then n else
        match k with
        | S k' => match nth_error asm1 f with
                  | Some body => CustomInv (Some sg) true sg (inlc asm1 k' false body)
                  | None => n end
        | O => n end
    | Run ns => Run (map (inlc asm1 k vis) ns)
    | Mod m args => Mod m (map (fun a : sig * node => (fst a, inlc asm1 k (vis || sets_fill m) (snd a))) args)
    | Arr len inner boxed => Arr len (inlc asm1 k false inner) boxed
    | Switch brs sg uc => Switch (map (fun a : sig * node => (fst a, inlc asm1 k vis (snd a))) brs) sg uc
    | NoInline inner => NoInline (inlc asm1 k vis inner)
    | TrackCaller sg inner => TrackCaller sg (inlc asm1 k vis inner)
    | CustomInv cs has sg nm => CustomInv cs has sg (inlc asm1 k vis nm)
    | _ => n
    end.
  Proof. destruct k; destruct n; reflexivity. Qed.

  Definition IHT (fuel1 fuel2 : nat) : Prop :=
    forall k vis n s s', vsim s s' -> (vis = false -> novis s) ->
      REL (hid s) (hid s') (exec asm1 fuel1 n s) (exec asm2 fuel2 (inlc asm1 k vis n) s').

  Lemma novis_hid a b : hid a = hid b -> novis b -> novis a.
  Proof. unfold hid, novis. intros H. inversion H. congruence. Qed.

  Lemma IH_use fuel1 fuel2 (IH : IHT fuel1 fuel2) h h' k vis n sA sB :
    vsim sA sB -> hid sA = h -> hid sB = h' -> (vis = false -> novis sA) ->
    REL h h' (exec asm1 fuel1 n sA) (exec asm2 fuel2 (inlc asm1 k vis n) sB).
  Proof. intros V <- <- Hn. apply IH; auto. Qed.

  Lemma REL_run fuel1 fuel2 (IH : IHT fuel1 fuel2) k vis h h' (Hn : vis = false -> forall a, hid a = h -> novis a) ns :
    forall r r', REL h h' r r' ->
    REL h h' (fold_left (fun r n => bind r (exec asm1 fuel1 n)) ns r)
             (fold_left (fun r n => bind r (exec asm2 fuel2 n)) (map (inlc asm1 k vis) ns) r').
  Proof.
    induction ns as [|x t IHl]; intros r r' H; simpl; auto.
    apply IHl. apply REL_bind; auto.
    intros a b V Ha Hb. apply IH_use; auto.
  Qed.

  (** pattern: run a child in a state whose hidden part was changed, then restore it *)
  Lemma REL_scoped h h' h1 h1' r r' (fin : rt -> rt) (fin' : rt -> rt) :
    REL h1 h1' r r' ->
    (forall a b, vsim a b -> hid a = h1 -> hid b = h1' -> vsim (fin a) (fin' b) /\ hid (fin a) = h /\ hid (fin' b) = h') ->
    REL h h' (match r with Ok a => Ok (fin a) | Err c a => Err c (fin a) | x => x end)
             (match r' with Ok b => Ok (fin' b) | Err c b => Err c (fin' b) | x => x end).
  Proof.
    intros H F. destruct r as [a|c a| |]; simpl in *; auto.
    - destruct H as (Ha & b & -> & V & Hb). destruct (F a b V Ha Hb) as (V2 & A2 & B2). split; eauto.
    - destruct H as (Ha & b & -> & V & Hb). destruct (F a b V Ha Hb) as (V2 & A2 & B2). split; eauto.
  Qed.

  Lemma exec_Call asm fuel f sg s :
    exec asm (S fuel) (Call f sg) s =
    match nth_error asm f with
    | None => Unk
    | Some body => framed leave_call (height_ok sg s) (exec asm fuel body (enter_call s)) end.
  Proof.
    cbn [Exec.exec]. destruct (nth_error asm f); [|reflexivity].
    unfold framed, enter_call, leave_call, height_ok.
    destruct (exec asm fuel n _); reflexivity.
  Qed.
  Lemma exec_CustomInv asm fuel cs sg nm s :
    exec asm (S fuel) (CustomInv cs true sg nm) s =
    framed leave_frame (height_ok sg s) (exec asm fuel nm (enter_frame s)).
  Proof.
    cbn [Exec.exec]. unfold framed, enter_frame, leave_frame, height_ok.
    destruct (exec asm fuel nm _); reflexivity.
  Qed.

  Lemma REL_framed h h' h1 h1' r r' fin fin' chk chk' :
    REL h1 h1' r r' ->
    (forall a b, vsim a b -> hid a = h1 -> hid b = h1' ->
       vsim (fin a) (fin' b) /\ hid (fin a) = h /\ hid (fin' b) = h' /\ chk a = chk' b) ->
    REL h h' (framed fin chk r) (framed fin' chk' r').
  Proof.
    intros H F. unfold framed. eapply REL_match; eauto.
    - intros a b V Ha Hb. destruct (F a b V Ha Hb) as (V2 & A2 & B2 & C). rewrite <- C.
      destruct (chk a); [apply REL_ok | apply REL_err]; auto.
    - intros c a b V Ha Hb. destruct (F a b V Ha Hb) as (V2 & A2 & B2 & C). apply REL_err; auto.
  Qed.


  (** iterating modifiers: related operands give related iterations *)
  Lemma REL_iter_loop h h' (body body' : rt -> res) argsof fa fo :
    (forall a b, vsim a b -> hid a = h -> hid b = h' -> REL h h' (body a) (body' b)) ->
    forall k i cur cur' acc, vsim cur cur' -> hid cur = h -> hid cur' = h' ->
    REL h h' (fst (iter_loop body argsof fa fo k i cur acc)) (fst (iter_loop body' argsof fa fo k i cur' acc)) /\
    (forall x, fst (iter_loop body argsof fa fo k i cur acc) = Ok x ->
       snd (iter_loop body argsof fa fo k i cur acc) = snd (iter_loop body' argsof fa fo k i cur' acc)).
  Proof.
    intros Hb. induction k as [|k IHk]; intros i cur cur' acc V Ha Hb'; cbn [iter_loop].
    - split; [apply REL_ok; auto | reflexivity].
    - destruct (argsof i acc) as [l|]; cbn [fst snd].
      2:{ split; [apply REL_err; auto | discriminate]. }
      destruct (negb (Nat.eqb (length l) fa)); cbn [fst snd]; [split; [exact I | discriminate]|].
      assert (V2 : vsim (set_stk cur (l ++ stk cur)) (set_stk cur' (l ++ stk cur'))).
      { destruct V as (E1 & E2 & E3 & E4). repeat split; cbn [set_stk stk und fills fbs]; auto; try congruence. }
      specialize (Hb _ _ V2 Ha Hb').
      destruct (body (set_stk cur (l ++ stk cur))) as [a|c a| |]; cbn [fst snd] in *.
      + destruct Hb as (Ha2 & b & -> & Vab & Hb2).
        pose proof Vab as (E1 & E2 & E3 & E4).
        unfold need. rewrite <- E1.
        destruct (negb (fo <=? length (stk a))); cbn [fst snd].
        * split; [apply REL_err; auto | discriminate].
        * apply IHk; auto.
          repeat split; cbn [set_stk stk und fills fbs]; auto; try congruence.
      + destruct Hb as (Ha2 & b & -> & Vab & Hb2). cbn [fst snd].
        split; [apply REL_err; auto | discriminate].
      + split; [exact I | discriminate].
      + split; [exact I | discriminate].
  Qed.

  Lemma REL_iter_exec (body body' : rt -> res) tag na no fa fo s s' :
    vsim s s' ->
    (forall a b, vsim a b -> hid a = hid s -> hid b = hid s' -> REL (hid s) (hid s') (body a) (body' b)) ->
    REL (hid s) (hid s') (iter_exec pknown psem body tag na no fa fo s)
                         (iter_exec pknown psem body' tag na no fa fo s').
  Proof.
    intros V Hb. pose proof (fillctx_vsim _ _ V) as Efc. pose proof V as (E1 & E2 & E3 & E4).
    unfold iter_exec, need. rewrite Efc, <- E1.
    destruct (negb (na <=? length (stk s))); [apply REL_err; auto|].
    destruct (negb (pknown ITER_N ([SInt tag; SInt (Z.of_nat fa); SInt (Z.of_nat fo)] ++ firstn na (stk s)))); [exact I|].
    destruct (psem ITER_N (fillctx s) ([SInt tag; SInt (Z.of_nat fa); SInt (Z.of_nat fo)] ++ firstn na (stk s))) as [[|[n|] [|]]|]; try exact I.
    - match goal with |- REL _ _ (let (_, _) := iter_loop _ ?ao _ _ ?k ?i ?c ?acc in _) _ =>
        destruct (REL_iter_loop (hid s) (hid s') body body' ao fa fo Hb k i c (set_stk s' (skipn na (stk s))) acc) as [R A]
      end; try reflexivity.
      { repeat split; cbn [set_stk stk und fills fbs]; auto. }
      destruct (iter_loop body _ fa fo (Z.to_nat n) 0%Z (set_stk s (skipn na (stk s))) []) as [r acc].
      destruct (iter_loop body' _ fa fo (Z.to_nat n) 0%Z (set_stk s' (skipn na (stk s))) []) as [r' acc'].
      cbn [fst snd] in *.
      destruct r as [a|c a| |]; cbn [REL] in R |- *; auto.
      + destruct R as (Ha & b & -> & Vab & Hb2). rewrite <- (A a eq_refl).
        pose proof Vab as (F1 & F2 & F3 & F4).
        destruct (psem ITER_OUT (fillctx s) _) as [outs|].
        * destruct (Nat.eqb (length outs) no); [|exact I].
          apply REL_ok; auto. repeat split; cbn [set_stk stk und fills fbs]; auto; try congruence.
        * apply REL_err; auto.
      + destruct R as (Ha & b & -> & Vab & Hb2). apply REL_err; auto.
    - apply REL_err; auto. repeat split; cbn [set_stk stk und fills fbs]; auto.
  Qed.


  (** both / un-both with a numeric subscript *)
  Lemma REL_both_loop h h' (body body' : rt -> res) a :
    (forall x y, vsim x y -> hid x = h -> hid y = h' -> REL h h' (body x) (body' y)) ->
    forall k s s', vsim s s' -> hid s = h -> hid s' = h' ->
    REL h h' (both_loop body a k s) (both_loop body' a k s').
  Proof.
    intros Hb. induction k as [|k IHk]; intros s s' V Ha Hb'; cbn [both_loop].
    - apply REL_ok; auto.
    - destruct k as [|k'].
      + apply Hb; auto.
      + pose proof V as (E1 & E2 & E3 & E4). unfold need. rewrite <- E1.
        destruct (negb (a <=? length (stk s))); [apply REL_err; auto|].
        apply REL_bind.
        * apply IHk; auto. repeat split; cbn [set_stk stk und fills fbs]; auto.
        * intros x y Vxy Hx Hy. apply Hb; auto.
          destruct Vxy as (G1 & G2 & G3 & G4). repeat split; cbn [set_stk stk und fills fbs]; auto; congruence.
  Qed.

  Lemma REL_unboth_loop h h' (body body' : rt -> res) o :
    (forall x y, vsim x y -> hid x = h -> hid y = h' -> REL h h' (body x) (body' y)) ->
    forall k s s', vsim s s' -> hid s = h -> hid s' = h' ->
    REL h h' (unboth_loop body o k s) (unboth_loop body' o k s').
  Proof.
    intros Hb. induction k as [|k IHk]; intros s s' V Ha Hb'; cbn [unboth_loop].
    - apply REL_ok; auto.
    - destruct k as [|k'].
      + apply Hb; auto.
      + apply REL_bind; [apply Hb; auto|].
        intros x y Vxy Hx Hy. pose proof Vxy as (G1 & G2 & G3 & G4). unfold need. rewrite <- G1.
        destruct (negb (o <=? length (stk x))); [apply REL_err; auto|].
        apply REL_bind.
        * apply IHk; auto. repeat split; cbn [set_stk stk und fills fbs]; auto.
        * intros x2 y2 V2 Hx2 Hy2. apply REL_ok; auto.
          destruct V2 as (J1 & J2 & J3 & J4). repeat split; cbn [set_stk stk und fills fbs]; auto; congruence.
  Qed.

  (** try with any number of handlers: related runs of the functions give related tries *)
  Lemma vsim_set_stk a b l : vsim a b -> vsim (set_stk a l) (set_stk b l).
  Proof. intros (E1 & E2 & E3 & E4). repeat split; cbn [set_stk stk und fills fbs]; auto. Qed.

  Lemma REL_try_loop h h' (ex ex' : node -> rt -> res) (g : node -> node) ts any :
    (forall n a b, vsim a b -> hid a = h -> hid b = h' -> REL h h' (ex n a) (ex' (g n) b)) ->
    forall hs sf f te s s', vsim s s' -> hid s = h -> hid s' = h' ->
    REL h h' (try_loop ex ts any sf f hs te s)
             (try_loop ex' ts any sf (g f) (map (fun a : sig * node => (fst a, g (snd a))) hs) te s').
  Proof.
    intros Hex. induction hs as [|[sh hnd] hs IH]; intros sf f te s s' V Ha Hb;
      cbn [try_loop map fst snd]; pose proof V as (E1 & E2 & E3 & E4); unfold need; rewrite <- ?E1.
    - destruct (_ && _); [apply REL_err; auto|].
      apply Hex; auto. apply vsim_set_stk; auto.
    - destruct (negb (Nat.min (sa ts) (sa sf) <=? length (stk s))); [apply REL_err; auto|].
      unfold clean_of. rewrite <- ?E1, <- ?E2.
      pose proof (Hex f s s' V Ha Hb) as R.
      destruct (ex f s) as [a|c a| |]; cbn [REL] in R; try exact I.
      + destruct R as (Ha2 & b & -> & Vab & Hb2). pose proof Vab as (G1 & G2 & G3 & G4). rewrite <- ?G1.
        destruct (_ && _); [apply REL_err; auto|].
        apply REL_ok; auto. apply vsim_set_stk; auto.
      + destruct R as (Ha2 & b & -> & Vab & Hb2). pose proof Vab as (G1 & G2 & G3 & G4).
        unfold set_su. cbn [stk und fills fbs depth]. rewrite <- ?G1, <- ?G2, <- ?G3.
        set (kA := keep_bottom _ (stk a)). set (uA := keep_bottom _ (und a)).
        assert (Hfb : hd 0 (fbs a) = hd 0 (fbs b)) by exact G4.
        set (sA := {| stk := kA; und := uA; fills := fills a; fbs := fbs a; depth := depth a |}).
        set (sB := {| stk := kA; und := uA; fills := fills a; fbs := fbs b; depth := depth b |}).
        assert (VAB : vsim sA sB) by (repeat split; auto).
        assert (HA : hid sA = h) by (rewrite <- Ha2; reflexivity).
        assert (HB : hid sB = h') by (rewrite <- Hb2; unfold hid, sB; cbn [fills fbs depth]; rewrite G3; reflexivity).
        destruct (te && (sa sf <=? sa ts)); cbn [andb].
        * destruct (negb (sa ts - sa sf + 1 <=? length kA)); [apply REL_err; auto|].
          cbn [set_stk stk und fills fbs depth].
          set (kB := remove_n 1 (sa ts - sa sf + 1) kA).
          assert (V2 : vsim (set_stk sA kB) (set_stk sB kB)) by (apply vsim_set_stk; auto).
          change {| stk := kB; und := uA; fills := fills a; fbs := fbs a; depth := depth a |} with (set_stk sA kB).
          change {| stk := kB; und := uA; fills := fills a; fbs := fbs b; depth := depth b |} with (set_stk sB kB).
          destruct c.
          -- cbn [set_stk stk]. destruct (_ && _); [apply REL_err; auto|].
             apply REL_err; auto. apply vsim_set_stk; auto.
          -- cbn [set_stk stk]. destruct (_ && _); [apply REL_err; auto|].
             apply IH; auto. apply vsim_set_stk; auto.
        * destruct c.
          -- cbn [stk]. destruct (_ && _); [apply REL_err; auto|].
             apply REL_err; auto. apply vsim_set_stk; auto.
          -- cbn [stk]. destruct (_ && _); [apply REL_err; auto|].
             apply IH; auto. apply vsim_set_stk; auto.
  Qed.

  (** do: related condition and body give related loops; more fuel on the right changes nothing *)
  Lemma REL_do_loop h h' (cond cond' body body' : rt -> res) cc :
    (forall x y, vsim x y -> hid x = h -> hid y = h' -> REL h h' (cond x) (cond' y)) ->
    (forall x y, vsim x y -> hid x = h -> hid y = h' -> REL h h' (body x) (body' y)) ->
    forall k1 k2 s s', k1 <= k2 -> vsim s s' -> hid s = h -> hid s' = h' ->
    REL h h' (do_loop cond body cc k1 s) (do_loop cond' body' cc k2 s').
  Proof.
    intros Hc Hb. induction k1 as [|k1 IH]; intros k2 s s' Hk V Ha Hb'; cbn [do_loop]; [exact I|].
    destruct k2 as [|k2]; [lia|]. cbn [do_loop].
    pose proof V as (E1 & E2 & E3 & E4). unfold need. rewrite <- E1.
    destruct (negb (cc <=? length (stk s))); [apply REL_err; auto|].
    assert (V1 : vsim (set_stk s (firstn cc (stk s) ++ stk s)) (set_stk s' (firstn cc (stk s) ++ stk s)))
      by (apply vsim_set_stk; auto).
    pose proof (Hc _ _ V1 Ha Hb') as R.
    destruct (cond (set_stk s (firstn cc (stk s) ++ stk s))) as [a|c a| |]; cbn [REL] in R; try exact I.
    - destruct R as (Ha2 & b & -> & Vab & Hb2). pose proof Vab as (G1 & G2 & G3 & G4). rewrite <- G1.
      destruct (stk a) as [|[z|o] rest]; [apply REL_err; auto| |exact I].
      destruct (Z.eqb z 0); [apply REL_ok; auto; apply vsim_set_stk; auto|].
      destruct (Z.eqb z 1); [|apply REL_err; auto; apply vsim_set_stk; auto].
      assert (V2 : vsim (set_stk a rest) (set_stk b rest)) by (apply vsim_set_stk; auto).
      pose proof (Hb _ _ V2 Ha2 Hb2) as R2.
      destruct (body (set_stk a rest)) as [a3|c a3| |]; cbn [REL] in R2; try exact I.
      + destruct R2 as (Ha3 & b3 & -> & V3 & Hb3). apply IH; auto. lia.
      + destruct R2 as (Ha3 & b3 & -> & V3 & Hb3). apply REL_err; auto.
    - destruct R as (Ha2 & b & -> & Vab & Hb2). apply REL_err; auto.
  Qed.

  Lemma REL_without_fill (body body' : rt -> res) a b :
    vsim a b ->
    (forall a1 b1, vsim a1 b1 -> novis a1 -> stk a1 = stk a -> hid a1 = (fills a, length (fills a) :: fbs a, depth a) ->
       hid b1 = (fills b, length (fills b) :: fbs b, depth b) ->
       REL (hid a1) (hid b1) (body a1) (body' b1)) ->
    REL (hid a) (hid b) (without_fill_body body a) (without_fill_body body' b).
  Proof.
    intros V Hb. pose proof V as (E1 & E2 & E3 & E4). unfold without_fill_body.
    set (a1 := {| stk := stk a; und := und a; fills := fills a; fbs := length (fills a) :: fbs a; depth := depth a |}).
    set (b1 := {| stk := stk b; und := und b; fills := fills b; fbs := length (fills b) :: fbs b; depth := depth b |}).
    assert (V1 : vsim a1 b1) by (repeat split; cbn [a1 b1 stk und fills fbs hd]; congruence).
    specialize (Hb a1 b1 V1 eq_refl eq_refl eq_refl eq_refl).
    destruct (body a1) as [x|c x| |]; cbn [REL] in Hb |- *; auto.
    - destruct Hb as (Hx & y & -> & Vxy & Hy). pose proof Vxy as (F1 & F2 & F3 & F4).
      unfold hid in Hx, Hy. cbn [a1 b1 fills fbs depth] in Hx, Hy.
      inversion Hx as [[X1 X2 X3]]. inversion Hy as [[Y1 Y2 Y3]].
      split; [unfold hid; cbn [fills fbs depth]; rewrite X1, X2, X3; reflexivity|].
      eexists; split; [reflexivity|]. split.
      + repeat split; cbn [stk und fills fbs]; auto. rewrite X2, Y2. cbn [tl]. exact E4.
      + unfold hid; cbn [fills fbs depth]. rewrite Y1, Y2, Y3. reflexivity.
    - destruct Hb as (Hx & y & -> & Vxy & Hy). pose proof Vxy as (F1 & F2 & F3 & F4).
      unfold hid in Hx, Hy. cbn [a1 b1 fills fbs depth] in Hx, Hy.
      inversion Hx as [[X1 X2 X3]]. inversion Hy as [[Y1 Y2 Y3]].
      split; [unfold hid; cbn [fills fbs depth]; rewrite X1, X2, X3; reflexivity|].
      eexists; split; [reflexivity|]. split.
      + repeat split; cbn [stk und fills fbs]; auto. rewrite X2, Y2. cbn [tl]. exact E4.
      + unfold hid; cbn [fills fbs depth]. rewrite Y1, Y2, Y3. reflexivity.
  Qed.


  Lemma REL_iter_exec_nn (body body' : rt -> res) tag na no fa fo s s' :
    vsim s s' ->
    (forall a b, vsim a b -> hid a = hid s -> hid b = hid s' -> REL (hid s) (hid s') (body a) (body' b)) ->
    REL (hid s) (hid s') (iter_exec_nn pknown psem body tag na no fa fo s)
                         (iter_exec_nn pknown psem body' tag na no fa fo s').
  Proof.
    intros V Hb. pose proof (REL_iter_exec body body' tag na no fa fo s s' V Hb) as H.
    pose proof (fillctx_vsim _ _ V) as Efc. pose proof V as (E1 & E2 & E3 & E4).
    unfold iter_exec_nn, need. rewrite Efc, <- E1.
    destruct (na <=? length (stk s)); auto.
    destruct (psem ITER_N _ _) as [[|[n|] [|]]|]; auto.
    destruct (n <? 0)%Z; auto. exact I.
  Qed.

  Ltac fin_ok :=
    first [ exact I
          | apply REL_ok; [repeat split; cbn [stk und fills fbs depth]; auto; congruence | auto; try reflexivity; try assumption | auto; try reflexivity; try assumption]
          | apply REL_err; [repeat split; cbn [stk und fills fbs depth]; auto; congruence | auto; try reflexivity; try assumption | auto; try reflexivity; try assumption] ].
  Ltac brk :=
    repeat match goal with
    | |- REL _ _ (if ?c then _ else _) _ => destruct c eqn:?
    | |- REL _ _ (match ?x with _ => _ end) _ =>
        lazymatch x with
        | Exec.exec _ _ _ _ _ _ _ _ _ => fail
        | _ => destruct x eqn:?
        end
    end.
  Ltac norm E1 E2 :=
    unfold need, set_stk, set_und, set_su; cbn [stk und fills fbs depth];
    rewrite <- ?E1, <- ?E2.

  Ltac inv_hid :=
    unfold hid, set_stk, set_und, set_su, enter_frame, enter_call in *; cbn [stk und fills fbs depth] in *;
    repeat match goal with H : (_, _, _) = (_, _, _) |- _ => inversion H; clear H end;
    repeat match goal with H : fbs _ = _ :: _ |- _ => rewrite !H end;
    cbn [tl hd].
  Ltac solve_hid :=
    first [ reflexivity | eassumption
          | (unfold hid, set_stk, set_und, set_su, enter_frame, enter_call in *; cbn [stk und fills fbs depth] in *; congruence)
          | (inv_hid; congruence) ].
  Ltac solve_vsim :=
    first [ (unfold vsim, set_stk, set_und, set_su, enter_frame, enter_call in *; cbn [stk und fills fbs depth hd] in *;
             repeat match goal with H : _ /\ _ |- _ => destruct H end;
             repeat split; congruence)
          | (unfold vsim; inv_hid; repeat match goal with H : _ /\ _ |- _ => destruct H end; repeat split; congruence) ].
  Ltac use_v :=
    repeat match goal with
    | H : vsim ?a ?b |- _ =>
        let e1 := fresh "Ev" in let e2 := fresh "Ev" in let e3 := fresh "Ev" in let e4 := fresh "Ev" in
        destruct H as (e1 & e2 & e3 & e4);
        unfold need, set_stk, set_und, set_su; cbn [stk und fills fbs depth];
        rewrite <- ?e1, <- ?e2, <- ?e3
    end.
  Ltac solve_novis Hn :=
    let Hv := fresh "Hv" in
    intros Hv; cbn [sets_fill] in Hv;
    first [ discriminate Hv
          | reflexivity
          | (rewrite ?orb_true_r, ?orb_false_r in Hv;
             first [ discriminate Hv
                   | (eapply novis_hid; [ | apply Hn; exact Hv ]; solve_hid) ]) ].
  Ltac step_exec IH Hn :=
    match goal with
    | |- REL _ _ ?L ?R =>
      match L with context [Exec.exec pknown psem arrsem unpacksem fmtsem asm1 ?fu ?n ?sa] =>
      match R with context [Exec.exec pknown psem arrsem unpacksem fmtsem asm2 ?fu2 ?n' ?sb] =>
        let H := fresh "HR" in
        assert (H : REL (hid sa) (hid sb) (exec asm1 fu n sa) (exec asm2 fu2 n' sb))
          by (apply (IH_use _ _ IH); [solve_vsim | reflexivity | reflexivity | solve_novis Hn]);
        let a := fresh "a" in let b := fresh "b" in let c := fresh "c" in
        let Ha := fresh "Ha" in let Hb := fresh "Hb" in let Vab := fresh "Vab" in let Eb := fresh "Eb" in
        destruct (exec asm1 fu n sa) as [a|c a| |];
          [ destruct H as (Ha & b & Eb & Vab & Hb); rewrite Eb; clear Eb
          | destruct H as (Ha & b & Eb & Vab & Hb); rewrite Eb; clear Eb
          | exact I | exact I ];
        cbn [bind]; use_v
      end end
    end.
  Ltac auto_rel IH Hn :=
    repeat first
    [ exact I
    | apply REL_ok; [solve_vsim | solve_hid | solve_hid]
    | apply REL_err; [solve_vsim | solve_hid | solve_hid]
    | match goal with
      | |- REL _ _ (if ?c then _ else _) _ => destruct c eqn:?
      | |- REL _ _ (match ?x with _ => _ end) _ =>
          lazymatch x with
          | context [Exec.exec] => fail
          | _ => destruct x eqn:?
          end
      end
    | step_exec IH Hn ].

  Theorem T : forall fuel1 fuel2, fuel1 <= fuel2 -> IHT fuel1 fuel2.
  Proof.
    induction fuel1 as [|fuel1 IHf]; intros fuel2 Hle k vis n s s' V Hn; [exact I|].
    destruct fuel2 as [|fuel2]; [lia|].
    assert (IH : IHT fuel1 fuel2) by (apply IHf; lia). clear IHf.
    pose proof (fillctx_vsim _ _ V) as Efc.
    pose proof V as V0. destruct V0 as (E1 & E2 & E3 & E4).
    rewrite inlc_eq. destruct n.
    - (* Push *) cbn [Exec.exec]. norm E1 E2. fin_ok.
    - (* Prim *) cbn [Exec.exec]. rewrite Efc. norm E1 E2. brk; fin_ok.
    - exact I.
    - (* Run *) cbn [Exec.exec]. unfold run_list.
      apply REL_run; auto.
      + intros Hv a Ha. eapply novis_hid; eauto.
      + apply REL_ok; auto.
    - (* Mod *)
      destruct (match m with MDo => true | _ => false end) eqn:Emd.
      { destruct m; try discriminate Emd.
        destruct args as [|[sb body] [|[sc cond] [|? ?]]]; cbn [Exec.exec map fst snd sets_fill]; try exact I.
        destruct (_ || _); [exact I|].
        assert (Hsub : forall n, forall a b, vsim a b -> hid a = hid s -> hid b = hid s' ->
                  REL (hid s) (hid s') (exec asm1 fuel1 n a) (exec asm2 fuel2 (inlc asm1 k (vis || false) n) b)).
        { intros n a b Vab Ha Hb. apply (IH_use _ _ IH); auto.
          intros Hv. rewrite ?orb_false_r in Hv. eapply novis_hid; [exact Ha | auto]. }
        apply REL_do_loop; auto; try lia. }
      destruct (match m with MTry => true | _ => false end) eqn:Em.
      { destruct m; try discriminate Em.
        destruct args as [|[sg1 f1] [|[sg2 f2] hs]]; cbn [Exec.exec map fst snd sets_fill]; try exact I.
        set (g := inlc asm1 k (vis || false)).
        assert (Emap : map fst (map (fun a : sig * node => (fst a, g (snd a))) hs) = map fst hs).
        { rewrite map_map. apply map_ext. reflexivity. }
        rewrite Emap. norm E1 E2.
        destruct (negb (sa (fst (try_sig (sg1 :: sg2 :: map fst hs))) <=? length (stk s))); [apply REL_err; auto|].
        refine (REL_try_loop (hid s) (hid s') (exec asm1 fuel1) (exec asm2 fuel2) g _ _ _
                  ((sg2, f2) :: hs) sg1 f1 false s s' V eq_refl eq_refl).
        intros n a b Vab Ha Hb. apply (IH_use _ _ IH); auto.
        intros Hv. rewrite ?orb_false_r in Hv. eapply novis_hid; [exact Ha | auto]. }
      destruct m; try discriminate Em; try discriminate Emd; cbn [Exec.exec];
        destruct args as [|[sg1 f1] [|[sg2 f2] [|[sg3 f3] rest]]]; cbn [map fst snd sets_fill]; try exact I.
      all: try (match goal with |- REL _ _ (match iter_ao ?mk ?sg with _ => _ end) _ =>
                  destruct (iter_ao mk sg) as [[na no]|]; [|exact I] end;
                apply REL_iter_exec; auto; intros a b Vab Ha Hb;
                apply (IH_use _ _ IH); auto;
                intros Hv; cbn [sets_fill] in Hv; rewrite ?orb_false_r in Hv;
                eapply novis_hid; [exact Ha | auto]).
      all: try (apply REL_iter_exec; auto; intros; exact I).
      all: try (match goal with |- REL _ _ (match iter_ao ?mk ?sg with _ => _ end) _ =>
                  destruct (iter_ao mk sg) as [[na no]|]; [|exact I] end;
                apply REL_iter_exec; auto; intros a b Vab Ha Hb; rewrite <- Ha, <- Hb;
                apply REL_without_fill; auto; intros a1 b1 V1 N1 _ _ _;
                apply (IH_use _ _ IH); auto).
      all: try (destruct (negb (sig_eqb (sig_inverse sg1) sg2)); [exact I|];
                match goal with |- REL _ _ (match iter_ao ?mk ?sg with _ => _ end) _ =>
                  destruct (iter_ao mk sg) as [[na no]|]; [|exact I] end;
                apply REL_iter_exec_nn; auto; intros a b Vab Ha Hb; rewrite <- Ha, <- Hb;
                apply REL_without_fill; auto; intros a1 b1 V1 N1 _ _ _;
                apply (IH_use _ _ IH); auto).
      all: try (match goal with |- REL _ _ (if negb (Nat.eqb ?r 0) then Unk else _) _ =>
                  destruct (negb (Nat.eqb r 0)); [exact I|] end;
                norm E1 E2;
                try (match goal with |- REL _ _ (if ?c then _ else _) _ => destruct c; [apply REL_err; auto|] end);
                first [apply REL_both_loop | apply REL_unboth_loop]; auto; intros a b Vab Ha Hb;
                apply (IH_use _ _ IH); auto;
                intros Hv; cbn [sets_fill] in Hv; rewrite ?orb_false_r in Hv;
                eapply novis_hid; [exact Ha | auto]).
      all: try (norm E1 E2; rewrite ?Efc; auto_rel IH Hn; fail).
      (* fill *)
      destruct (so sg1 =? 0); [exact I|]. auto_rel IH Hn.
      all: unfold hid in Ha, Hb, Ha0, Hb0; cbn [stk und fills fbs depth] in Ha0, Hb0;
        inversion Ha as [[A1 A2 A3]]; inversion Hb as [[B1 B2 B3]];
        inversion Ha0 as [[C1 C2 C3]]; inversion Hb0 as [[D1 D2 D3]].
      all: (apply REL_ok || apply REL_err); unfold vsim, hid; cbn [stk und fills fbs depth];
        rewrite ?C1, ?C2, ?C3, ?D2, ?D3; cbn [tl]; repeat split; congruence.
    - (* Call *)
      rewrite exec_Call. destruct (nth_error asm1 f) as [body|] eqn:Ef; [|exact I].
      assert (Kept : REL (hid s) (hid s') (framed leave_call (height_ok s0 s) (exec asm1 fuel1 body (enter_call s)))
                       (exec asm2 (S fuel2) (Call f s0) s')).
      { rewrite exec_Call, (Htab _ _ Ef).
        eapply REL_framed.
        - apply IH.
          + repeat split; cbn [enter_call stk und fills fbs depth hd]; auto. congruence.
          + intros _. reflexivity.
        - intros a b Vab Ha Hb. apply leave_call_ok; auto. }
      destruct vis; [exact Kept|].
      destruct k as [|k']; [exact Kept|].
      rewrite exec_CustomInv.
      eapply REL_framed.
      + apply IH.
        * repeat split; cbn [enter_call enter_frame stk und fills fbs depth hd]; auto.
          rewrite <- E4. symmetry. apply Hn. reflexivity.
        * intros _. reflexivity.
      + intros a b Vab Ha Hb. apply leave_frame_ok; auto.
    - (* CallGlobal *) cbn [Exec.exec]. rewrite Efc. norm E1 E2. brk; fin_ok.
    - exact I.
    - (* BindGlobal *) cbn [Exec.exec]. norm E1 E2. brk; fin_ok.
    - (* Arr *)
      cbn [Exec.exec]. norm E1 E2. auto_rel IH Hn.
    - (* Unpack *) cbn [Exec.exec]. norm E1 E2. brk; fin_ok.
    - (* Switch *)
      cbn [Exec.exec]. norm E1 E2. rewrite map_length.
      destruct (stk s) as [|sel rest] eqn:Es; [fin_ok|].
      destruct sel as [z|]; [|exact I].
      destruct ((z <? 0)%Z || (Z.of_nat (length brs) <=? z)%Z); [fin_ok|].
      rewrite nth_error_map. destruct (nth_error brs (Z.to_nat z)) as [[fs f]|]; [|exact I].
      cbn [option_map fst snd]. auto_rel IH Hn.
      destruct under_cond; auto_rel IH Hn.
    - cbn [Exec.exec]. norm E1 E2. brk; fin_ok.
    - cbn [Exec.exec]. norm E1 E2. brk; fin_ok.
    - cbn [Exec.exec]. norm E1 E2. brk; fin_ok.
    - (* NoInline *) cbn [Exec.exec]. apply IH; auto.
    - (* TrackCaller *) cbn [Exec.exec]. norm E1 E2. brk; try fin_ok. apply IH; auto.
    - (* CustomInv *)
      destruct has_normal.
      + rewrite !exec_CustomInv. eapply REL_framed.
        * apply IH; [solve_vsim|]. intros Hv. exact (Hn Hv).
        * intros a b Vab Ha Hb. apply leave_frame2_ok; auto.
      + cbn [Exec.exec]. fin_ok.
    - cbn [Exec.exec]. norm E1 E2. brk; fin_ok.
    - cbn [Exec.exec]. norm E1 E2. brk; fin_ok.
    - cbn [Exec.exec]. norm E1 E2. brk; fin_ok.
    - exact I.
    - exact I.
    - cbn [Exec.exec]. fin_ok.
  Qed.
End Calls.

(** * Corollaries *)
Lemma inlc_O asm n : forall vis, inlc asm 0 vis n = n.
Proof.
  induction n using node_ind'; intros vis; cbn [inlc]; try reflexivity.
  - f_equal. induction H as [|x t Hx Ht IHl]; simpl; f_equal; auto.
  - f_equal. induction H as [|[sg x] t Hx Ht IHl]; simpl; f_equal; auto. simpl in Hx. rewrite Hx. reflexivity.
  - destruct vis; reflexivity.
  - f_equal; auto.
  - f_equal. induction H as [|[sg x] t Hx Ht IHl]; simpl; f_equal; auto. simpl in Hx. rewrite Hx. reflexivity.
  - f_equal; auto.
  - f_equal; auto.
  - f_equal; auto.
Qed.

Lemma vsim_hid_eq a b : vsim a b -> hid a = hid b -> a = b.
Proof.
  destruct a, b. unfold vsim, hid. simpl. intros (?&?&?&?) HH. inversion HH. subst. reflexivity.
Qed.

Section Corollaries.
  Variable pknown : N -> list sval -> bool.
  Variable psem : N -> option (list sval) -> list sval -> option (list sval).
  Variable arrsem : bool -> list sval -> option sval.
  Variable unpacksem : nat -> bool -> sval -> option (list sval).
  Variable fmtsem : list sval -> sval.
  Notation exec := (Exec.exec pknown psem arrsem unpacksem fmtsem).
  Notation TT := (T pknown psem arrsem unpacksem fmtsem).

  Lemma tab_id asm : forall f body, nth_error asm f = Some body ->
    nth_error asm f = Some (inlc asm 0 false body).
  Proof. intros. rewrite inlc_O. auto. Qed.

  (** every node restores the fill stack, the fill boundaries and the call depth, on success and
      at every failure point (no premise on the tree) *)
  Theorem exec_hid asm fuel n s :
    match exec asm fuel n s with
    | Ok a | Err _ a => fills a = fills s /\ fbs a = fbs s /\ depth a = depth s
    | _ => True end.
  Proof.
    pose proof (TT asm asm 0 (tab_id asm) fuel fuel (le_n _) 0 true n s s (vsim_refl s)
                  (fun H => False_ind _ (Bool.diff_true_false H))) as H.
    destruct (exec asm fuel n s) as [a|c a| |]; auto; destruct H as (Ha & _);
      unfold hid in Ha; inversion Ha; auto.
  Qed.

  (** more fuel never changes a result *)
  Theorem fuel_mono asm fuel fuel' n s : fuel <= fuel' ->
    match exec asm fuel n s with
    | Ok a => exec asm fuel' n s = Ok a
    | Err c a => exec asm fuel' n s = Err c a
    | _ => True end.
  Proof.
    intros Hle.
    pose proof (TT asm asm 0 (tab_id asm) fuel fuel' Hle 0 true n s s (vsim_refl s)
                  (fun H => False_ind _ (Bool.diff_true_false H))) as H.
    rewrite inlc_O in H.
    destruct (exec asm fuel n s) as [a|c a| |]; auto; destruct H as (Ha & b & -> & V & Hb);
      f_equal; symmetry; apply vsim_hid_eq; auto; congruence.
  Qed.

  (** rebinding: a `Call` holds the index of the function it was compiled against; functions
      added to the table later (a rebinding adds a new function and a new binding, it never
      overwrites: assembly.rs:183 add_function pushes) do not change any run of older code *)
  Theorem rebinding_stable asm more fuel n s :
    match exec asm fuel n s with
    | Ok a => exec (asm ++ more) fuel n s = Ok a
    | Err c a => exec (asm ++ more) fuel n s = Err c a
    | _ => True end.
  Proof.
    assert (Htab : forall f body, nth_error asm f = Some body ->
              nth_error (asm ++ more) f = Some (inlc asm 0 false body)).
    { intros f body H. rewrite inlc_O. rewrite nth_error_app1; auto.
      apply nth_error_Some. congruence. }
    pose proof (TT asm (asm ++ more) 0 Htab fuel fuel (le_n _) 0 true n s s (vsim_refl s)
                  (fun H => False_ind _ (Bool.diff_true_false H))) as H.
    rewrite inlc_O in H.
    destruct (exec asm fuel n s) as [a|c a| |]; auto; destruct H as (Ha & b & -> & V & Hb);
      f_equal; symmetry; apply vsim_hid_eq; auto; congruence.
  Qed.

  (** the documented exception, stated positively: whatever fill the caller has, the body of a
      call sees none; and the caller's fill stack, boundaries and depth are back after the call *)
  Theorem call_hides_fill asm fuel f sg s :
    fillctx (enter_call s) = None /\
    (forall body, nth_error asm f = Some body ->
       exec asm (S fuel) (Call f sg) s =
       framed leave_call (height_ok sg s) (exec asm fuel body (enter_call s))) /\
    match exec asm (S fuel) (Call f sg) s with
    | Ok a | Err _ a => fills a = fills s /\ fbs a = fbs s /\ depth a = depth s
    | _ => True end.
  Proof.
    split; [|split].
    - apply novis_fillctx. reflexivity.
    - intros body Hb. rewrite exec_Call, Hb. reflexivity.
    - apply exec_hid.
  Qed.

  (** a call is its body: where no fill frame is visible, calling a checked function and running
      its body in place agree on success/failure, the stack, the under stack and the hidden state *)
  Theorem call_is_body asm : asm_ok asm -> forall f sg body, nth_error asm f = Some body ->
    tree_ok asm body -> stored_ok sg body ->
    forall fuel s, novis s -> sa sg <= length (stk s) -> sua sg <= length (und s) ->
    match exec asm fuel body s with
    | Ok a => exec asm (S fuel) (Call f sg) s = Ok a
    | Err c a => exec asm (S fuel) (Call f sg) s = Err c a
    | _ => True end.
  Proof.
    intros HA f sg body Hf Tb Ob fuel s Hn L1 L2.
    assert (V : vsim s (enter_call s)).
    { repeat split. unfold enter_call. cbn [fbs hd]. exact Hn. }
    pose proof (TT asm asm 0 (tab_id asm) fuel fuel (le_n _) 0 true body s (enter_call s) V
                  (fun H => False_ind _ (Bool.diff_true_false H))) as H.
    rewrite inlc_O in H. rewrite exec_Call, Hf.
    pose proof (Frame.frame_check_passes pknown psem arrsem unpacksem fmtsem asm HA body sg Tb Ob fuel s) as FC.
    destruct (exec asm fuel body s) as [a|c a| |] eqn:Ex; auto.
    - destruct H as (Ha & b & -> & Vab & Hb). unfold framed.
      specialize (FC a L1 L2 eq_refl).
      assert (Eab : leave_call b = a).
      { destruct a, b, s. unfold vsim, hid, enter_call, leave_call in *. simpl in *.
        destruct Vab as (?&?&?&?). inversion Ha. inversion Hb. subst. reflexivity. }
      assert (Hh : height_ok sg s b = true).
      { unfold height_ok. destruct Vab as (E & _). rewrite <- E. apply Z.eqb_eq. exact FC. }
      rewrite Hh, Eab. reflexivity.
    - destruct H as (Ha & b & -> & Vab & Hb). unfold framed.
      f_equal. destruct a, b, s. unfold vsim, hid, enter_call, leave_call in *. simpl in *.
      destruct Vab as (?&?&?&?). inversion Ha. inversion Hb. subst. reflexivity.
  Qed.

  (** checked inlining is sound for ALL outcomes with the SAME fuel: every call that is not under
      a fill operand is replaced (to any nesting depth k) by a plain frame around its inlined body,
      the table by its inlined bodies, and nothing observable changes *)
  Theorem inline_checked_sound asm K k fuel n s : novis s ->
    match exec asm fuel n s with
    | Ok a => exec (map (inlc asm K false) asm) fuel (inlc asm k false n) s = Ok a
    | Err c a => exec (map (inlc asm K false) asm) fuel (inlc asm k false n) s = Err c a
    | _ => True end.
  Proof.
    intros Hn.
    assert (Htab : forall f body, nth_error asm f = Some body ->
              nth_error (map (inlc asm K false) asm) f = Some (inlc asm K false body)).
    { intros f body H. apply map_nth_error. exact H. }
    pose proof (TT asm _ K Htab fuel fuel (le_n _) k false n s s (vsim_refl s) (fun _ => Hn)) as H.
    destruct (exec asm fuel n s) as [a|c a| |]; auto; destruct H as (Ha & b & -> & V & Hb);
      f_equal; symmetry; apply vsim_hid_eq; auto; congruence.
  Qed.
End Corollaries.
