(** C02 proofs: the checker is compositional (translation invariant): checking a node in any
    reachable state is the same as checking it from the empty state and adding the result. *)
From Coq Require Import List ZArith NArith Bool Lia PeanoNat.
From UV Require Import Model.Node Model.Sig Model.Exec Proofs.SimBase Proofs.SigMono.
Import ListNotations.

Definition shiftv (v x : vs) : vs :=
  VS (h v + h x) (Nat.max (m v) (Z.to_nat (Z.of_nat (m x) - h v))).
Definition shift (e x : venv) : venv := (shiftv (fst e) (fst x), shiftv (snd e) (snd x)).

Lemma vs_eq a b : h a = h b -> m a = m b -> a = b.
Proof. destruct a, b; simpl; intros; subst; reflexivity. Qed.

Lemma vpop_shiftv k v x : vpop k (shiftv v x) = shiftv v (vpop k x).
Proof. apply vs_eq; unfold shiftv; vsimp; simpl; vsimp; lia. Qed.
Lemma vpush_shiftv k v x : vpush k (shiftv v x) = shiftv v (vpush k x).
Proof. apply vs_eq; unfold shiftv; vsimp; simpl; vsimp; lia. Qed.
Lemma vao_shiftv a o v x : vao a o (shiftv v x) = shiftv v (vao a o x).
Proof. rewrite !vao_unfold, vpop_shiftv, vpush_shiftv. reflexivity. Qed.

Lemma epop_shift k e x : epop k (shift e x) = shift e (epop k x).
Proof. unfold epop, shift. simpl. rewrite vpop_shiftv. reflexivity. Qed.
Lemma epush_shift k e x : epush k (shift e x) = shift e (epush k x).
Proof. unfold epush, shift. simpl. rewrite vpush_shiftv. reflexivity. Qed.
Lemma handle_ao_shift a o e x : handle_ao a o (shift e x) = shift e (handle_ao a o x).
Proof. unfold handle_ao, shift. simpl. rewrite vao_shiftv. reflexivity. Qed.
Lemma handle_sig_shift s e x : handle_sig s (shift e x) = shift e (handle_sig s x).
Proof. unfold handle_sig, shift. simpl. rewrite !vao_shiftv. reflexivity. Qed.

Lemma shiftv_zero v : (0 <= h v + Z.of_nat (m v))%Z -> shiftv v vs0 = v.
Proof. intros H. apply vs_eq; unfold shiftv, vs0; simpl; lia. Qed.

Definition omap {A B} (f : A -> B) (o : option A) : option B :=
  match o with Some x => Some (f x) | None => None end.

Lemma run_go_shift d e ns :
  Forall (fun n => forall d x, vnode d n (shift e x) = omap (shift e) (vnode d n x)) ns ->
  forall x,
  (fix go (l : list node) (e : venv) {struct l} : option venv :=
     match l with [] => Some e | y :: t => opt_bind (vnode d y e) (go t) end) ns (shift e x) =
  omap (shift e)
  ((fix go (l : list node) (e : venv) {struct l} : option venv :=
     match l with [] => Some e | y :: t => opt_bind (vnode d y e) (go t) end) ns x).
Proof.
  induction 1 as [|y t Hy Ht IH]; intros x; simpl; auto.
  rewrite Hy. destruct (vnode d y x) as [x1|]; simpl; auto.
Qed.

Ltac shift_crush :=
  repeat first
    [ rewrite epop_shift | rewrite epush_shift | rewrite handle_ao_shift | rewrite handle_sig_shift
    | match goal with
      | IH : forall e d x, vnode d ?f (shift e x) = omap (shift e) (vnode d ?f x) |- context [vnode ?dd ?f (shift ?e ?y)] =>
          rewrite (IH e dd y)
      end
    | match goal with |- context [vnode ?dd ?f ?y] =>
          match goal with |- context [omap _ (vnode dd f y)] => destruct (vnode dd f y); cbn [omap opt_bind] end end
    | match goal with |- context [if ?c then _ else _] => destruct c end
    | match goal with |- context [match ?o with Some _ => _ | None => _ end] =>
          match type of o with option sig => destruct o end end
    | reflexivity
    | progress cbn [omap opt_bind] ].

Theorem vnode_shift : forall n e d x, vnode d n (shift e x) = omap (shift e) (vnode d n x).
Proof.
  induction n using node_ind'; intros e d x; cbn [vnode];
    destruct (MAX_NODE_DEPTH <? d); try reflexivity.
  all: try (shift_crush; fail).
  - (* Run *) apply run_go_shift. rewrite Forall_forall in *. intros n Hn d' x'. apply H; auto.
  - (* Mod *)
    destruct m; try (shift_crush; fail);
      destruct args as [|[s f] [|[s2 f2] [|[s3 f3] ?]]]; cbn [map fst snd opt_bind omap]; try reflexivity;
      repeat match goal with H : Forall _ (_ :: _) |- _ => inversion H; subst; clear H end;
      cbn [snd] in *; try (shift_crush; fail).
  - (* Switch *) rewrite epop_shift, handle_sig_shift. destruct u; cbn [omap]; [|reflexivity].
    unfold shift. cbn [fst snd]. rewrite vpush_shiftv. reflexivity.
  - unfold shift. cbn [fst snd omap]. rewrite vpop_shiftv, vpush_shiftv. reflexivity.
  - unfold shift. cbn [fst snd omap]. rewrite vpop_shiftv, !vpush_shiftv. reflexivity.
  - unfold shift. cbn [fst snd omap]. rewrite vpop_shiftv, vpush_shiftv. reflexivity.
Qed.

(** the depth argument is only a cut-off *)
Lemma run_go_depth d d' ns :
  Forall (fun n => forall d d' e r, d' <= d -> vnode d n e = Some r -> vnode d' n e = Some r) ns ->
  d' <= d -> forall e r,
  (fix go (l : list node) (e : venv) {struct l} : option venv :=
     match l with [] => Some e | y :: t => opt_bind (vnode d y e) (go t) end) ns e = Some r ->
  (fix go (l : list node) (e : venv) {struct l} : option venv :=
     match l with [] => Some e | y :: t => opt_bind (vnode d' y e) (go t) end) ns e = Some r.
Proof.
  intros F Hd. induction F as [|y t Hy Ht IH]; intros e r H; simpl in *; auto.
  destruct (vnode d y e) as [e1|] eqn:E; simpl in H; [|discriminate].
  rewrite (Hy d d' e e1 Hd E). simpl. auto.
Qed.

Ltac depth_crush Hd :=
  repeat match goal with
  | H : context [if ?c then _ else _] |- _ => destruct c
  | H : opt_bind (opt_bind (vnode ?dd ?f ?y) _) _ = Some _ |- _ =>
      let E := fresh "E" in destruct (vnode dd f y) eqn:E; cbn [opt_bind] in H; [|discriminate]
  | H : opt_bind (vnode ?dd ?f ?y) _ = Some _ |- _ =>
      let E := fresh "E" in destruct (vnode dd f y) eqn:E; cbn [opt_bind] in H; [|discriminate]
  | H : opt_bind (Some _) _ = Some _ |- _ => cbn [opt_bind] in H
  | H : match ?o with Some _ => _ | None => _ end = Some _ |- _ =>
      match type of o with
      | option sig => destruct o
      | option venv => let E := fresh "E" in destruct o eqn:E; [|discriminate]
      end
  | H : None = Some _ |- _ => discriminate
  end;
  repeat (cbn [opt_bind];
    match goal with
    | IH : forall d d' e r, d' <= d -> vnode d ?f e = Some r -> vnode d' ?f e = Some r,
      E : vnode (S ?dd) ?f ?y = Some ?z |- context [vnode (S ?dd') ?f ?y] =>
        rewrite (IH (S dd) (S dd') y z ltac:(lia) E)
    end);
  cbn [opt_bind]; auto.

Theorem vnode_depth : forall n d d' e r, d' <= d -> vnode d n e = Some r -> vnode d' n e = Some r.
Proof.
  induction n using node_ind'; intros d d' e r Hd Hv; cbn [vnode] in *;
    destruct (MAX_NODE_DEPTH <? d) eqn:Ed; try discriminate;
    (assert (Ed' : (MAX_NODE_DEPTH <? d') = false) by (apply Nat.ltb_ge; apply Nat.ltb_ge in Ed; lia));
    rewrite Ed'; auto.
  all: try (depth_crush Hd; fail).
  - (* Run *) eapply (run_go_depth (S d) (S d')); eauto; try lia.
  - (* Mod *)
    destruct m; try (depth_crush Hd; fail);
      destruct args as [|[s f] [|[s2 f2] [|[s3 f3] ?]]]; cbn [map fst snd opt_bind] in *; try discriminate; auto;
      repeat match goal with H : Forall _ (_ :: _) |- _ => inversion H; subst; clear H end;
      cbn [snd] in *; try (depth_crush Hd; fail).
Qed.

