(** C02 proofs, part 2: the checker only ever deepens its minimum; depth is only a cut-off. *)
From Coq Require Import List ZArith NArith Bool Lia PeanoNat.
From UV Require Import Model.Node Model.Sig Model.Exec Proofs.SimBase.
Import ListNotations.

Definition le_env (e e' : venv) : Prop := m (fst e) <= m (fst e') /\ m (snd e) <= m (snd e').
Lemma le_env_refl e : le_env e e. Proof. split; lia. Qed.
Lemma le_env_trans a b c : le_env a b -> le_env b c -> le_env a c.
Proof. intros [] []; split; lia. Qed.

Lemma le_epop k e : le_env e (epop k e).
Proof. destruct e; split; simpl; vsimp; lia. Qed.
Lemma le_epush k e : le_env e (epush k e).
Proof. destruct e; split; simpl; vsimp; lia. Qed.
Lemma le_handle_ao a o e : le_env e (handle_ao a o e).
Proof. destruct e; split; simpl; vsimp; lia. Qed.
Lemma le_handle_sig s e : le_env e (handle_sig s e).
Proof. destruct e; split; simpl; vsimp; lia. Qed.
#[export] Hint Resolve le_env_refl le_epop le_epush le_handle_ao le_handle_sig : lenv.

Ltac lenv_step :=
  match goal with
  | |- le_env ?e ?e => apply le_env_refl
  | |- le_env ?e (epop _ ?x) => apply (le_env_trans e x); [|apply le_epop]
  | |- le_env ?e (epush _ ?x) => apply (le_env_trans e x); [|apply le_epush]
  | |- le_env ?e (handle_ao _ _ ?x) => apply (le_env_trans e x); [|apply le_handle_ao]
  | |- le_env ?e (handle_sig _ ?x) => apply (le_env_trans e x); [|apply le_handle_sig]
  end.

Lemma run_go_mono d ns :
  Forall (fun n => forall d e e', vnode d n e = Some e' -> le_env e e') ns ->
  forall e e',
  (fix go (l : list node) (e : venv) {struct l} : option venv :=
     match l with [] => Some e | x :: t => opt_bind (vnode d x e) (go t) end) ns e = Some e' ->
  le_env e e'.
Proof.
  induction 1 as [|x t Hx Ht IH]; intros e e' H.
  - inversion H; subst. apply le_env_refl.
  - simpl in H. destruct (vnode d x e) as [e1|] eqn:E; simpl in H; [|discriminate].
    eapply le_env_trans; [eapply Hx; eauto | eapply IH; eauto].
Qed.

Ltac mono_crush :=
  repeat match goal with
  | H : opt_bind ?x _ = Some _ |- _ => let E := fresh "E" in destruct x eqn:E; cbn [opt_bind] in H; [|discriminate]
  | H : (if ?c then _ else _) = Some _ |- _ => destruct c
  | H : match ?x with Some _ => _ | None => _ end = Some _ |- _ => let E := fresh "E" in destruct x eqn:E
  | H : Some _ = Some _ |- _ => inversion H; subst; clear H
  | H : None = Some _ |- _ => discriminate
  end;
  repeat match goal with
  | IH : forall d e e', vnode d ?f e = Some e' -> le_env e e', E : vnode _ ?f _ = Some _ |- _ => apply IH in E
  end;
  repeat match goal with |- context [if ?c then _ else _] => destruct c end;
  repeat first [ lenv_step | eassumption | (eapply le_env_trans; [|eassumption]) ].

Theorem vnode_mono : forall n d e e', vnode d n e = Some e' -> le_env e e'.
Proof.
  induction n using node_ind'; intros d e e' Hv; cbn [vnode] in Hv;
    destruct (MAX_NODE_DEPTH <? d); try discriminate.
  all: try (mono_crush; fail).
  - eapply run_go_mono; eauto.
  - (* Mod *)
    destruct m; try (mono_crush; fail);
      destruct args as [|[s f] [|[s2 f2] [|[s3 f3] ?]]]; cbn [map fst snd opt_bind] in Hv; try discriminate;
      repeat match goal with H : Forall _ (_ :: _) |- _ => inversion H; subst; clear H end;
      cbn [snd] in *; try (mono_crush; fail).
  - inversion Hv; subst; clear; destruct e as [sk un]; try destruct u; split; unfold handle_sig, epop; cbn [fst snd]; vsimp; lia.
  - inversion Hv; subst; clear; destruct e as [sk un]; try destruct u; split; unfold handle_sig, epop; cbn [fst snd]; vsimp; lia.
  - inversion Hv; subst; clear; destruct e as [sk un]; try destruct u; split; unfold handle_sig, epop; cbn [fst snd]; vsimp; lia.
  - inversion Hv; subst; clear; destruct e as [sk un]; try destruct u; split; unfold handle_sig, epop; cbn [fst snd]; vsimp; lia.
Qed.
