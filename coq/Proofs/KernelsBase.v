(** C07 — list / chunk lemmas and the generic "blockwise kernel = iterated rows" theorem. *)
From Coq Require Import List ZArith NArith Bool Arith Lia.
From UV Require Import Model.Prims Model.Kernels Proofs.Prims.
Import ListNotations.

(* ------------------------------------------------------------------ chunk *)

Lemma firstn_firstn_le {A} (a b : nat) (l : list A) : a <= b -> firstn a (firstn b l) = firstn a l.
Proof. intros. rewrite firstn_firstn. f_equal. lia. Qed.

Lemma chunk_firstn_mul {A} c m (l : list A) : chunk c m (firstn (m * c) l) = chunk c m l.
Proof.
  revert l; induction m; intros l; cbn [chunk]; auto.
  rewrite firstn_firstn_le by lia. f_equal.
  replace (S m * c) with (c + m * c) by lia.
  rewrite skipn_firstn_comm. replace (c + m * c - c) with (m * c) by lia. apply IHm.
Qed.

Lemma skipn_add {A} a b (l : list A) : skipn b (skipn a l) = skipn (a + b) l.
Proof. revert l; induction a; intros l; cbn [Nat.add skipn]; auto. destruct l; [destruct b; reflexivity|]. apply IHa. Qed.

Lemma chunk_app_split {A} c m k (l : list A) :
  chunk c (m + k) l = chunk c m l ++ chunk c k (skipn (m * c) l).
Proof.
  revert l; induction m; intros l; cbn [chunk Nat.add Nat.mul skipn app]; auto.
  rewrite IHm. rewrite skipn_add. reflexivity.
Qed.

Lemma chunk_mul {A} c n m (l : list A) :
  chunk c (n * m) l = concat (map (chunk c m) (chunk (m * c) n l)).
Proof.
  revert l; induction n; intros l; cbn [chunk Nat.mul map concat]; auto.
  rewrite chunk_app_split, IHn, chunk_firstn_mul. reflexivity.
Qed.

Lemma concat_concat {A} (l : list (list (list A))) : concat (concat l) = concat (map (@concat A) l).
Proof. induction l; cbn; auto. rewrite concat_app, IHl. reflexivity. Qed.

Lemma prodn_app (a b : list nat) : prodn (a ++ b) = prodn a * prodn b.
Proof. induction a; cbn [app]; unfold prodn in *; cbn [fold_right]; [lia|]. rewrite IHa. lia. Qed.
Lemma prodn_firstn_skipn d (s : list nat) : prodn (firstn d s) * prodn (skipn d s) = prodn s.
Proof. rewrite <- prodn_app, firstn_skipn. reflexivity. Qed.
Lemma prodn_cons n s : prodn (n :: s) = n * prodn s.
Proof. reflexivity. Qed.

(* ------------------------------------------------------------------ mapM *)

Lemma mapM_app {A B} (f : A -> res B) l1 l2 :
  mapM f (l1 ++ l2) = (a <- mapM f l1 ;; b <- mapM f l2 ;; Ok (a ++ b)).
Proof.
  induction l1; cbn [app mapM bind].
  - destruct (mapM f l2); reflexivity.
  - destruct (f a); cbn [bind]; auto. rewrite IHl1.
    destruct (mapM f l1); cbn [bind]; auto. destruct (mapM f l2); reflexivity.
Qed.

Lemma mapM_concat {A B} (f : A -> res B) (ls : list (list A)) :
  mapM f (concat ls) = (r <- mapM (mapM f) ls ;; Ok (concat r)).
Proof.
  induction ls; cbn [concat mapM bind]; auto.
  rewrite mapM_app, IHls. destruct (mapM f a); cbn [bind]; auto.
  destruct (mapM (mapM f) ls); reflexivity.
Qed.

Lemma mapM_map {A B C} (f : B -> res C) (g : A -> B) l : mapM f (map g l) = mapM (fun x => f (g x)) l.
Proof. induction l; cbn [map mapM]; auto. rewrite IHl. reflexivity. Qed.

Lemma mapM_ext_in {A B} (f g : A -> res B) l : (forall x, In x l -> f x = g x) -> mapM f l = mapM g l.
Proof.
  induction l; intros H; cbn [mapM]; auto.
  rewrite (H a) by (left; auto). rewrite IHl; auto. intros; apply H; right; auto.
Qed.

Lemma mapM_length {A B} (f : A -> res B) l r : mapM f l = Ok r -> length r = length l.
Proof.
  revert r; induction l; intros r H; cbn [mapM bind] in H.
  - inversion H; auto.
  - destruct (f a); cbn [bind] in H; try discriminate.
    destruct (mapM f l) eqn:E; cbn [bind] in H; try discriminate. inversion H; subst. cbn. f_equal. auto.
Qed.

(** mapM of "compute then wrap" = compute all, then wrap all *)
Lemma mapM_wrap {A B C} (f : A -> res B) (w : B -> C) l :
  mapM (fun x => y <- f x ;; Ok (w y)) l = (r <- mapM f l ;; Ok (map w r)).
Proof.
  induction l; cbn [mapM bind map]; auto.
  destruct (f a); cbn [bind]; auto. rewrite IHl. destruct (mapM f l); reflexivity.
Qed.

(* ------------------------------------------------------------------ rows *)

Lemma rows_cons t n s d : rows (Arr t (n :: s) d) = map (Arr t s) (chunk (prodn s) n d).
Proof. reflexivity. Qed.

Lemma rows_wf x n s : wf x -> ash x = n :: s ->
  Forall (fun r => wf r /\ ash r = s /\ aty r = aty x) (rows x).
Proof.
  destruct x as [t sh d]; cbn [ash aty]; intros W E; subst sh. rewrite rows_cons.
  unfold wf in W; cbn [adata ash] in W. rewrite prodn_cons in W.
  pose proof (chunk_rows_len (prodn s) n d W) as F.
  apply Forall_forall. intros r Hr. apply in_map_iff in Hr. destruct Hr as (rd & <- & Hin).
  rewrite Forall_forall in F. unfold wf; cbn [adata ash aty]. repeat split; auto.
Qed.

Lemma rows_def_ext F G x : (forall r, In r (rows x) -> F r = G r) -> (ash x = [] -> F x = G x) ->
  rows_def F x = rows_def G x.
Proof.
  intros H H0. unfold rows_def. destruct (ash x); auto.
  rewrite (mapM_ext_in F G); auto.
Qed.

(** all mapped axes non-empty *)
Definition lead_pos (d : nat) (sh : list nat) : Prop := Forall (fun n => 0 < n) (firstn d sh).
Lemma lead_pos_cons d n s : lead_pos (S d) (n :: s) <-> 0 < n /\ lead_pos d s.
Proof. unfold lead_pos; cbn [firstn]. split; [inversion 1; auto | intros []; constructor; auto]. Qed.

(* ------------------------------------------------------------------ blockwise kernels *)

(** a kernel that treats the flat data as independent blocks of shape shape[d..] *)
Record bk := BK { bk_shape : list nat -> list nat; bk_ty : ety -> ety;
                  bk_data : ety -> list nat -> list elem -> res (list elem) }.
Definition run_bk (b : bk) (d : nat) (x : arr) : res arr :=
  let d := dmin d x in
  ds <- mapM (bk_data b (aty x) (skipn d (ash x))) (blocks d x) ;;
  Ok (Arr (bk_ty b (aty x)) (firstn d (ash x) ++ bk_shape b (skipn d (ash x))) (concat ds)).

Lemma forallb_same_kind_map (w : list (list elem) -> arr) (r0 : list (list elem)) (l : list (list (list elem))) :
  (forall a b, aty (w a) = aty (w b) /\ ash (w a) = ash (w b)) ->
  forallb (same_kind (w r0)) (map w l) = true.
Proof.
  intros H. induction l; cbn; auto. rewrite IHl, andb_true_r. unfold same_kind.
  destruct (H a r0) as [-> ->]. rewrite ety_eqb_refl, list_eqb_refl_nat. reflexivity.
Qed.

Theorem run_bk_step (b : bk) d x n s : wf x -> ash x = n :: s -> 0 < n ->
  run_bk b (S d) x = rows_def (run_bk b d) x.
Proof.
  destruct x as [t sh dat]; cbn [ash]; intros W E Hn; subst sh.
  unfold rows_def; cbn [ash]. rewrite rows_cons, mapM_map.
  unfold run_bk, dmin, blocks; cbn [ash aty adata length].
  set (dm := Nat.min d (length s)).
  replace (Nat.min (S d) (S (length s))) with (S dm) by (unfold dm; lia).
  cbn [firstn skipn app].
  set (cs := prodn (skipn dm s)). set (m := prodn (firstn dm s)).
  rewrite prodn_cons. fold m.
  assert (Ems : m * cs = prodn s) by (apply prodn_firstn_skipn).
  rewrite chunk_mul, Ems, mapM_concat, mapM_map.
  set (g := bk_data b t (skipn dm s)).
  set (w := fun ds : list (list elem) => Arr (bk_ty b t) (firstn dm s ++ bk_shape b (skipn dm s)) (concat ds)).
  change (fun x : list elem => ds <- mapM g (chunk cs m x);; Ok (Arr (bk_ty b t) (firstn dm s ++ bk_shape b (skipn dm s)) (concat ds)))
    with (fun x : list elem => ds <- (fun rd => mapM g (chunk cs m rd)) x ;; Ok (w ds)).
  rewrite (mapM_wrap (fun rd => mapM g (chunk cs m rd)) w).
  destruct (mapM (fun x => mapM g (chunk cs m x)) (chunk (prodn s) n dat)) as [r| |] eqn:Er; cbn [bind]; auto.
  pose proof (mapM_length _ _ _ Er) as Lr. rewrite chunk_length in Lr.
  destruct r as [|r0 r]; [cbn in Lr; lia|]. cbn [map assemble].
  rewrite (forallb_same_kind_map w r0 r) by (intros; split; reflexivity).
  unfold from_rows, of_drows. cbn [aty ash adata map length].
  rewrite !map_length. cbn [length] in Lr. rewrite Lr.
  f_equal. f_equal. rewrite concat_concat. cbn [map concat]. unfold w at 1. cbn [adata]. f_equal.
  rewrite map_map. reflexivity.
Qed.

Lemma run_bk_scalar (b : bk) d x : ash x = [] -> run_bk b d x = run_bk b 0 x.
Proof. intros E. unfold run_bk, dmin, blocks. rewrite E. cbn [length]. rewrite Nat.min_0_r. reflexivity. Qed.

(** the generic theorem: a blockwise kernel at depth d is d nested rows of its depth-0 self *)
Theorem run_bk_rows_iter (b : bk) : forall d x, wf x -> lead_pos d (ash x) ->
  run_bk b d x = rows_iter d (run_bk b 0) x.
Proof.
  induction d; intros x W L; cbn [rows_iter]; auto.
  destruct (ash x) as [|n s] eqn:E.
  - rewrite run_bk_scalar by auto. unfold rows_def. rewrite E.
    rewrite <- IHd; auto. symmetry; apply run_bk_scalar; auto.
    unfold lead_pos. rewrite E. destruct d; constructor.
  - apply lead_pos_cons in L. destruct L as [Hn Ls].
    rewrite (run_bk_step b d x n s) by auto.
    apply rows_def_ext; [|congruence].
    intros r Hr. pose proof (rows_wf x n s W E) as F. rewrite Forall_forall in F.
    destruct (F r Hr) as (Wr & Er & _). apply IHd; auto. rewrite Er; auto.
Qed.

(** over an empty mapped axis the kernel still succeeds, with the mapped axes as leading lengths *)
Theorem run_bk_empty (b : bk) : forall d x i, wf x -> d <= length (ash x) -> first_zero (firstn d (ash x)) = Some i ->
  exists y, run_bk b d x = Ok y /\ firstn (S i) (ash y) = firstn (S i) (ash x).
Proof.
  intros d x i W Hd Hz. unfold run_bk, dmin, blocks. rewrite Nat.min_l by auto.
  assert (P0 : prodn (firstn d (ash x)) = 0).
  { clear -Hz. revert i Hz. generalize (firstn d (ash x)) as l. induction l as [|a l IH]; intros i H; cbn in H; [discriminate|].
    destruct a; [reflexivity|]. destruct (first_zero l) eqn:E; cbn in H; [|discriminate].
    rewrite prodn_cons, (IH n); auto. }
  rewrite P0. cbn [chunk mapM bind concat]. eexists; split; [reflexivity|]. cbn [ash].
  assert (Li : S i <= length (firstn d (ash x))).
  { clear -Hz. revert i Hz. generalize (firstn d (ash x)) as l. induction l as [|a l IH]; intros i H; cbn in H; [discriminate|].
    destruct a; [inversion H; cbn; lia|]. destruct (first_zero l) eqn:E; cbn in H; [|discriminate]. inversion H; subst.
    cbn [length]. specialize (IH n eq_refl). lia. }
  rewrite firstn_app. replace (S i - length (firstn d (ash x))) with 0 by lia. rewrite firstn_O, app_nil_r.
  rewrite firstn_firstn. f_equal. rewrite firstn_length in Li. lia.
Qed.
