(** C17 proofs, part (ii): values as JSON (model: Model/UasmValue.v).
    The general round trip [of_json (to_json v) = Some v] does NOT hold for the current code; the
    witnesses below are confirmed on the implementation by the harness (c17 search / tie-values).
    A proof of the round trip for the remaining values (plain_json) is not carried yet: the tie
    compares model and implementation on generated values on every run. *)
From Coq Require Import List NArith Bool.
From UV Require Import Base.Value Model.Uasm Model.UasmValue.
Import ListNotations.
Open Scope N_scope.

(** the string "NaN" is written as the JSON string "NaN", which Num's ArrayRep::Scalar(F64Rep)
    accepts before Char's List(String) is tried: it reads back as the number NaN *)
Theorem value_json_refuted_string :
  exists v m', of_json (to_json v) = Some m' /\ mval_same m' (MV v None None) = false /\
               m' = MV (VNum [] [F_NAN_BITS]) None None.
Proof. exists (VChar [3%nat] S_NAN). eexists. split; [vm_compute; reflexivity|]. split; reflexivity. Qed.

(** every reserved spelling is affected *)
Theorem value_json_refuted_spellings :
  forallb (fun s => match of_json (to_json (VChar [length s] s)) with
                    | Some (MV (VNum [] [_]) None None) => true | _ => false end)
          [S_NAN; S_W; S_EMPTY; S_TOMB; S_INF; S_NINF] = true.
Proof. vm_compute. reflexivity. Qed.

(** a complex number with a non-finite part is written with null and cannot be read at all *)
Theorem value_json_refuted_complex :
  exists v, of_json (to_json v) = None.
Proof. exists (VCplx [] [(F_NAN_BITS, 4607182418800017408)]). vm_compute. reflexivity. Qed.

(** a map with character keys and an empty box array of rank 2 reads back as a (malformed)
    character array: Char's Full(Shape, String, ArrayMeta) accepts [shape, "keys", {..}] *)
Theorem value_json_refuted_map :
  exists m j m', mto_json m = Some j /\ of_json j = Some m' /\ mval_same m' m = false.
Proof.
  exists (MV (VBox [1%nat; 0%nat] []) None (Some (VChar [1%nat] [97]))). eexists. eexists.
  split; [vm_compute; reflexivity|]. split; [vm_compute; reflexivity | reflexivity].
Qed.

(** sample of the round trip where it does hold (a test, not the general theorem) *)
Example value_json_roundtrip_samples :
  forallb (fun v => opt_eqb mval_same (of_json (to_json v)) (Some (MV v None None)))
    [VNum [] [4607182418800017408]; VNum [2%nat] [F_NAN_BITS; F_NEG_INF]; VByte [] [7]; VByte [3%nat] [1;2;3];
     VByte [2%nat;2%nat] [1;2;3;4]; VChar [] [97]; VChar [0%nat] []; VChar [2%nat;1%nat] [97;98];
     VCplx [] [(4607182418800017408, 0)]; VCplx [0%nat] []; VCplx [2%nat] [(0,0);(0,0)];
     VBox [] [VByte [] [1]]; VBox [0%nat] []; VBox [0%nat; 3%nat] [];
     VBox [2%nat] [VChar [2%nat] [104;105]; VBox [1%nat] [VByte [0%nat;2%nat] []]]] = true.
Proof. vm_compute. reflexivity. Qed.
