(** C17 proofs, part (ii): records of the defects of the value <-> JSON representation BEFORE
    /repo c00f690, 6da1960, 1df8995 (model with [cur = false]); each witness was confirmed on
    the implementation of that time, and each is read back by the current representation
    (model with [cur = true]; the general theorem is in UasmValueRt.v). *)
From Coq Require Import List NArith Bool.
From UV Require Import Base.Value Model.Uasm Model.UasmValue.
Import ListNotations.
Open Scope N_scope.

(** the string "NaN" was written as the JSON string "NaN", which Num's ArrayRep::Scalar(F64Rep)
    accepts before Char's List(String) is tried: it read back as the number NaN *)
Theorem value_json_refuted_string_pre :
  exists v m', of_json false (to_json false v) = Some m' /\ mval_same m' (MV v None None) = false /\
               m' = MV (VNum [] [F_NAN_BITS]) None None.
Proof. exists (VChar [3%nat] S_NAN). eexists. split; [vm_compute; reflexivity|]. split; reflexivity. Qed.

Theorem value_json_refuted_spellings_pre :
  forallb (fun s => match of_json false (to_json false (VChar [length s] s)) with
                    | Some (MV (VNum [] [_]) None None) => true | _ => false end)
          [S_NAN; S_W; S_EMPTY; S_TOMB; S_INF; S_NINF] = true.
Proof. vm_compute. reflexivity. Qed.

(** a complex number with a non-finite part was written with null and could not be read at all *)
Theorem value_json_refuted_complex_pre : exists v, of_json false (to_json false v) = None.
Proof. exists (VCplx [] [(F_NAN_BITS, 4607182418800017408)]). vm_compute. reflexivity. Qed.

(** a negative NaN (or any NaN with a payload) came back as f64::NAN *)
Theorem value_json_refuted_nan_pre :
  exists x, of_json false (to_json false (VNum [] [x])) = Some (MV (VNum [] [F_NAN_BITS]) None None) /\ x <> F_NAN_BITS.
Proof. exists 18444492273895866368. split; [vm_compute; reflexivity | discriminate]. Qed.

(** all of them come back now *)
Example value_json_current_reads_witnesses :
  forallb (fun v => opt_eqb mval_same (of_json true (to_json true v)) (Some (MV v None None)))
    [VChar [3%nat] S_NAN; VChar [1%nat] S_W; VChar [5%nat] S_EMPTY; VChar [4%nat] S_TOMB; VChar [1%nat] S_INF;
     VChar [2%nat] S_NINF; VCplx [] [(F_NAN_BITS, 4607182418800017408)]; VCplx [2%nat] [(F_INF_BITS, F_NEG_INF); (0, F_WILD_NAN)];
     VNum [] [18444492273895866368]; VNum [2%nat] [9221120237041090564; F_NAN_BITS];
     VBox [2%nat] [VChar [3%nat] S_NAN; VCplx [] [(F_NEG_INF, 18444492273895866368)]]] = true.
Proof. vm_compute. reflexivity. Qed.

(** a map with character keys over an empty box array of rank 2 read back as a (malformed)
    character array: Char's Full(Shape, String, ArrayMeta) accepted [shape, "keys", {"empty_boxes":[]}]
    because unknown fields of the metadata object were ignored (repaired by /repo 71ff4d9) *)
Theorem value_json_refuted_map_pre :
  exists m j m', mto_json false m = Some j /\ of_json false j = Some m' /\ mval_same m' m = false.
Proof.
  exists (MV (VBox [1%nat; 0%nat] []) None (Some (VChar [1%nat] [97]))). eexists. eexists.
  split; [vm_compute; reflexivity|]. split; [vm_compute; reflexivity | reflexivity].
Qed.

(** now the metadata object may only have known fields, and maps (top-level keys) come back *)
Example value_json_current_reads_maps :
  forallb (fun m => match mto_json true m with
                    | Some j => opt_eqb mval_same (of_json true j) (Some m)
                    | None => false end)
    [MV (VBox [1%nat; 0%nat] []) None (Some (VChar [1%nat] [97]));
     MV (VBox [0%nat] []) None (Some (VChar [0%nat] []));
     MV (VNum [2%nat] [4607182418800017408; F_NAN_BITS]) None (Some (VChar [2%nat] [97; 98]));
     MV (VChar [2%nat; 1%nat] [120; 121]) None (Some (VNum [2%nat] [4607182418800017408; 4611686018427387904]));
     MV (VByte [2%nat] [3; 4]) (Some [108]) None;
     MV (VChar [3%nat] S_NAN) (Some S_W) None] = true.
Proof. vm_compute. reflexivity. Qed.
