(** C17 proofs, part (ii): the value <-> JSON round trip of the CURRENT representation
    (model with [cur = true]): decode (encode v) = v up to the storage of empty number arrays. *)
From Coq Require Import List NArith Bool Lia.
From UV Require Import Base.Value Model.Uasm Model.UasmValue Model.UasmPlain.
Import ListNotations.
Open Scope N_scope.

Lemma opt_map_map {A B C} (f : B -> option C) (g : A -> B) (h : A -> C) l :
  (forall x, In x l -> f (g x) = Some (h x)) -> opt_map f (map g l) = Some (map h l).
Proof.
  induction l as [|x l IH]; intros H; [reflexivity|]. cbn [map opt_map].
  rewrite (H x (or_introl eq_refl)). cbn [map opt_map] in IH. rewrite IH; [reflexivity|].
  intros y Hy. apply H. right; auto.
Qed.

Lemma p_shape_json sh : p_shape (shape_json sh) = Some sh.
Proof.
  unfold p_shape, shape_json. rewrite (opt_map_map p_usize _ (fun n => n)).
  - rewrite map_id. reflexivity.
  - intros n _. cbn. rewrite Nnat.Nat2N.id. reflexivity.
Qed.

Lemma chk_ok v l k : Nat.eqb (data_len v) (shape_prod (shape_of v)) = true ->
  check_shape true (Some (MV v l k)) = Some (MV v l k).
Proof. intros H. cbn [check_shape andb]. rewrite H. reflexivity. Qed.

(** F64Rep *)
Notation fj := (f64rep_json true).
Notation pf := (p_f64rep true).

Lemma f64rep_cases x : (exists s, fj x = JStr s) \/ fj x = JFloat x \/ fj x = JObj [(K_NAN, JInt x)].
Proof.
  unfold f64rep_json. destruct (f_is_nan x).
  - destruct (x =? F_WILD_NAN); [eauto|]. destruct (x =? F_EMPTY_NAN); [eauto|].
    destruct (x =? F_TOMB_NAN); [eauto|]. cbn iota. destruct (x =? F_NAN_BITS); eauto.
  - destruct (x =? F_INF_BITS); [eauto|]. destruct (x =? F_NEG_INF); eauto.
Qed.

Ltac fcases x := destruct (f64rep_cases x) as [[? ->] | [-> | ->]].

Lemma f64rep_roundtrip x : f64_ok x = true -> pf (fj x) = Some x.
Proof.
  intros Hx. unfold f64rep_json. destruct (f_is_nan x) eqn:En.
  - destruct (x =? F_WILD_NAN) eqn:E1; [apply N.eqb_eq in E1; subst; reflexivity|].
    destruct (x =? F_EMPTY_NAN) eqn:E2; [apply N.eqb_eq in E2; subst; reflexivity|].
    destruct (x =? F_TOMB_NAN) eqn:E3; [apply N.eqb_eq in E3; subst; reflexivity|].
    cbn iota. destruct (x =? F_NAN_BITS) eqn:E4; [apply N.eqb_eq in E4; subst; reflexivity|].
    unfold p_f64rep. change (text_eqb K_NAN K_NAN) with true. unfold f64_ok in Hx. rewrite Hx. reflexivity.
  - destruct (x =? F_INF_BITS) eqn:E1; [apply N.eqb_eq in E1; subst; reflexivity|].
    destruct (x =? F_NEG_INF) eqn:E2; [apply N.eqb_eq in E2; subst; reflexivity|].
    reflexivity.
Qed.

Lemma f64rep_not_u8 x : p_u8 (fj x) = None.
Proof. fcases x; reflexivity. Qed.
Lemma f64rep_not_usize x : p_usize (fj x) = None.
Proof. fcases x; reflexivity. Qed.
Lemma f64rep_not_shape x : p_shape (fj x) = None.
Proof. fcases x; reflexivity. Qed.
Lemma f64rep_not_complex x : p_complex (fj x) = None.
Proof. fcases x; reflexivity. Qed.

Section Self.
  Variable self : json -> option mval.

  (** ArrayRep on a JSON that cannot be one of the tuple variants *)
  Definition no_tuple (j : json) : Prop :=
    match j with
    | JArr [s; _] => p_shape s = None
    | JArr [s; _; _] => p_shape s = None
    | _ => True end.

  Definition relen (v : value) : value :=
    match v with
    | VNum _ d => VNum [length d] d | VByte _ d => VByte [length d] d
    | VChar _ d => VChar [length d] d | VCplx _ d => VCplx [length d] d
    | VBox _ d => VBox [length d] d end.

  Lemma p_array_simple kind j : no_tuple j ->
    p_array true self kind j =
    match p_coll true self kind [] j with
    | Some v => Some (MV (relen v) None None)
    | None => match p_scalar true self kind j with Some v => Some (MV v None None) | None => None end
    end.
  Proof.
    intros H. unfold p_array. destruct (p_coll true self kind [] j) as [v|]; [destruct v; reflexivity|].
    destruct (p_scalar true self kind j); [reflexivity|].
    destruct j as [| | | | | |l|]; try reflexivity.
    destruct l as [|s [|c [|m [|? ?]]]]; try reflexivity; cbn in H; rewrite H; reflexivity.
  Qed.

  Lemma p_array_metaless kind sh c :
    p_coll true self kind [] (JArr [shape_json sh; c]) = None ->
    p_scalar true self kind (JArr [shape_json sh; c]) = None ->
    p_array true self kind (JArr [shape_json sh; c]) = check_shape true (option_map (fun v => MV v None None) (p_coll true self kind sh c)).
  Proof.
    intros H1 H2. unfold p_array. rewrite H1, H2. rewrite p_shape_json. reflexivity.
  Qed.
End Self.

Lemma opt_map_head_none {A B} (f : A -> option B) x l : f x = None -> opt_map f (x :: l) = None.
Proof. intros H. cbn [opt_map]. rewrite H. reflexivity. Qed.

Lemma rank1_shape {A} n (d : list A) : Nat.eqb (length d) (shape_prod [n]) = true -> [n] = [length d].
Proof. cbn. intros H. apply PeanoNat.Nat.eqb_eq in H. rewrite PeanoNat.Nat.mul_1_r in H. congruence. Qed.

Definition cN (d : list f64) : json := JArr (map fj d).
Definition cB (d : list N) : json := JArr (map JInt d).
Definition pairj (c : f64 * f64) : json := JArr [fj (fst c); fj (snd c)].
Definition cC (d : list (f64 * f64)) : json :=
  match d with [] => JObj [(K_EMPTY_COMPLEX, JArr [])] | _ => JArr (map pairj d) end.
Definition boxj (x : value) : json := JObj [(K_B, to_json true x)].
Definition cX (d : list value) : json :=
  match d with [] => JObj [(K_EMPTY_BOXES, JArr [])] | _ => JArr (map boxj d) end.

Lemma boxj_not_f64rep j : pf (JObj [(K_B, j)]) = None.
Proof. destruct j; reflexivity. Qed.
Lemma pairj_not_shape c : p_shape (pairj c) = None.
Proof. unfold pairj, p_shape. cbn [opt_map]. rewrite f64rep_not_usize. reflexivity. Qed.

Section Cases.
  Variable self : json -> option mval.

  Definition arr (k : nat) (sh : list nat) (c : json) : option mval :=
    check_shape true (option_map (fun v => MV v None None) (p_coll true self k sh c)).

  (** [shape, coll] *)
  Lemma meta_0 sh c : p_array true self 0 (JArr [shape_json sh; c]) = arr 0 sh c.
  Proof. apply p_array_metaless; reflexivity. Qed.
  Lemma meta_1 sh c : p_array true self 1 (JArr [shape_json sh; c]) = arr 1 sh c.
  Proof. apply p_array_metaless; reflexivity. Qed.
  Lemma meta_2 sh c : p_complex_el true c = None -> p_array true self 2 (JArr [shape_json sh; c]) = arr 2 sh c.
  Proof.
    intros H. apply p_array_metaless.
    - cbn [p_coll option_map opt_map]. destruct (p_complex_el true (shape_json sh)); [rewrite H|]; reflexivity.
    - reflexivity.
  Qed.
  Lemma meta_3 sh c : p_array true self 3 (JArr [shape_json sh; c]) = arr 3 sh c.
  Proof. apply p_array_metaless; reflexivity. Qed.
  Lemma meta_4 sh c : length sh <> 1%nat -> p_array true self 4 (JArr [shape_json sh; c]) = arr 4 sh c.
  Proof.
    intros H. apply p_array_metaless; [|reflexivity].
    destruct sh as [|a [|b sh']]; [reflexivity | cbn in H; congruence | reflexivity].
  Qed.

  (** the collections under each element kind *)
  Lemma cN_0 sh d : p_coll true self 0 sh (cN d) = match d with [] => Some (VByte sh []) | _ => None end.
  Proof. destruct d as [|x d]; [reflexivity|]. unfold cN. cbn [map p_coll]. rewrite opt_map_head_none by apply f64rep_not_u8. reflexivity. Qed.
  Lemma cN_1 sh d : forallb f64_ok d = true -> p_coll true self 1 sh (cN d) = Some (VNum sh d).
  Proof.
    intros H. unfold cN. cbn [p_coll]. rewrite (opt_map_map pf fj (fun x => x)).
    - rewrite map_id. reflexivity.
    - intros x Hx. rewrite forallb_forall in H. apply f64rep_roundtrip. auto.
  Qed.
  Lemma cB_0 sh d : forallb (fun x => x <=? 255) d = true -> p_coll true self 0 sh (cB d) = Some (VByte sh d).
  Proof.
    intros H. unfold cB. cbn [p_coll]. rewrite (opt_map_map p_u8 JInt (fun x => x)).
    - rewrite map_id. reflexivity.
    - intros x Hx. rewrite forallb_forall in H. cbn. rewrite (H x Hx). reflexivity.
  Qed.
  Lemma pair_ok c : f64_ok (fst c) && f64_ok (snd c) = true -> p_complex_el true (pairj c) = Some c.
  Proof.
    intros H. apply andb_prop in H. destruct H as [H1 H2]. unfold pairj, p_complex_el.
    rewrite (f64rep_roundtrip _ H1), (f64rep_roundtrip _ H2). destruct c; reflexivity.
  Qed.
  Lemma cC_2 sh d : forallb (fun c => f64_ok (fst c) && f64_ok (snd c)) d = true -> p_coll true self 2 sh (cC d) = Some (VCplx sh d).
  Proof.
    intros H. destruct d as [|x d]; [reflexivity|]. unfold cC. cbn [p_coll].
    rewrite (opt_map_map (p_complex_el true) pairj (fun c => c)).
    - rewrite map_id. reflexivity.
    - intros c Hc. rewrite forallb_forall in H. apply pair_ok. apply H. exact Hc.
  Qed.
  Lemma cC_other k sh d : (k = 0 \/ k = 1 \/ k = 3)%nat -> p_coll true self k sh (cC d) = None.
  Proof. intros [-> | [-> | ->]]; destruct d; reflexivity. Qed.
  Lemma cC_not_complex d : p_complex_el true (cC d) = None.
  Proof. destruct d as [|a [|b [|? ?]]]; reflexivity. Qed.
  Lemma cX_other k sh d : (k = 0 \/ k = 1 \/ k = 2 \/ k = 3)%nat -> p_coll true self k sh (cX d) = None.
  Proof.
    intros [-> | [-> | [-> | ->]]]; destruct d as [|x d]; try reflexivity.
    unfold cX. cbn [map p_coll]. rewrite opt_map_head_none by apply boxj_not_f64rep. reflexivity.
  Qed.
  Lemma cX_not_complex d : p_complex_el true (cX d) = None.
  Proof.
    destruct d as [|a [|b [|? ?]]]; try reflexivity.
    unfold cX, p_complex_el. cbn [map]. unfold boxj at 1. rewrite boxj_not_f64rep. reflexivity.
  Qed.
  Lemma cX_not_complex' d : p_complex (cX d) = None.
  Proof. destruct d as [|a [|b [|? ?]]]; reflexivity. Qed.
  Lemma boxed_ok x : self (to_json true x) = Some (MV (norm x) None None) -> p_boxed true self (boxj x) = Some (norm x).
  Proof. intros H. unfold boxj, p_boxed. cbn [assoc]. change (text_eqb K_B K_B) with true. cbn iota. rewrite H. reflexivity. Qed.
  Lemma cX_4 sh d : Forall (fun x => self (to_json true x) = Some (MV (norm x) None None)) d ->
    p_coll true self 4 sh (cX d) = Some (VBox sh (map norm d)).
  Proof.
    intros H. destruct d as [|x d]; [reflexivity|]. unfold cX. cbn [p_coll].
    rewrite (opt_map_map (p_boxed true self) boxj norm); [reflexivity|].
    intros y Hy. rewrite Forall_forall in H. apply boxed_ok. apply H. exact Hy.
  Qed.
End Cases.

Lemma not_spelling_f64rep d : is_spelling d = false -> pf (JStr d) = None.
Proof.
  unfold is_spelling. intros H.
  repeat (apply orb_false_elim in H; destruct H as [H ?]).
  cbn [p_f64rep]. unfold unit_variant. repeat match goal with E : text_eqb _ _ = false |- _ => rewrite E; clear E end. reflexivity.
Qed.

Section Main.
  Variable self : json -> option mval.

  Ltac chk H := cbn [option_map]; first [rewrite chk_ok by (cbn [data_len shape_of]; exact H) | cbn [check_shape]].

  Lemma rt_num sh d : wf_shape (VNum sh d) = true -> repr_ok (VNum sh d) = true ->
    p_value true self (to_json true (VNum sh d)) = Some (MV (norm (VNum sh d)) None None).
  Proof.
    intros Hwf Hp. cbn [wf_shape data_len shape_of] in Hwf. cbn [repr_ok] in Hp.
    destruct sh as [|n [|n2 sh']].
    - destruct d as [|x [|? ?]]; try discriminate. cbn [to_json norm map].
      cbn [forallb] in Hp. rewrite andb_true_r in Hp.
      unfold p_value.
      rewrite (p_array_simple self 0%nat) by (fcases x; exact I).
      assert (E0 : p_coll true self 0 [] (fj x) = None) by (fcases x; reflexivity).
      assert (E1 : p_coll true self 1 [] (fj x) = None) by (fcases x; reflexivity).
      rewrite E0. cbn [p_scalar]. rewrite f64rep_not_u8. cbn [option_map].
      rewrite (p_array_simple self 1%nat) by (fcases x; exact I).
      rewrite E1. cbn [p_scalar]. rewrite f64rep_roundtrip by auto. reflexivity.
    - rewrite (rank1_shape _ _ Hwf). change (to_json true (VNum [length d] d)) with (cN d).
      assert (Hnt : no_tuple (cN d)).
      { destruct d as [|a [|b [|c [|? ?]]]]; try exact I; cbn; apply f64rep_not_shape. }
      unfold p_value. rewrite (p_array_simple self 0%nat _ Hnt), cN_0.
      destruct d as [|x d]; [reflexivity|].
      change (p_scalar true self 0 (cN (x :: d))) with (@None value).
      rewrite (p_array_simple self 1%nat _ Hnt), cN_1 by auto. reflexivity.
    - change (to_json true (VNum (n :: n2 :: sh') d)) with (JArr [shape_json (n :: n2 :: sh'); cN d]).
      unfold p_value. rewrite meta_0. unfold arr. rewrite cN_0.
      destruct d as [|x d]; [chk Hwf; reflexivity|]. chk Hwf.
      rewrite meta_1. unfold arr. rewrite cN_1 by auto. chk Hwf. reflexivity.
  Qed.

  Lemma rt_byte sh d : wf_shape (VByte sh d) = true -> repr_ok (VByte sh d) = true ->
    p_value true self (to_json true (VByte sh d)) = Some (MV (VByte sh d) None None).
  Proof.
    intros Hwf Hp. cbn [wf_shape data_len shape_of] in Hwf. cbn [repr_ok] in Hp.
    destruct sh as [|n [|n2 sh']].
    - destruct d as [|x [|? ?]]; try discriminate. cbn [to_json]. cbn [forallb] in Hp.
      rewrite andb_true_r in Hp. unfold p_value. rewrite (p_array_simple self 0%nat) by exact I.
      cbn [p_coll p_scalar p_u8]. rewrite Hp. reflexivity.
    - rewrite (rank1_shape _ _ Hwf). change (to_json true (VByte [length d] d)) with (cB d).
      assert (Hnt : no_tuple (cB d)).
      { destruct d as [|a [|b [|c [|? ?]]]]; try exact I; reflexivity. }
      unfold p_value. rewrite (p_array_simple self 0%nat _ Hnt), cB_0 by auto. reflexivity.
    - change (to_json true (VByte (n :: n2 :: sh') d)) with (JArr [shape_json (n :: n2 :: sh'); cB d]).
      unfold p_value. rewrite meta_0. unfold arr. rewrite cB_0 by auto. chk Hwf. reflexivity.
  Qed.

  Lemma rt_char sh d : wf_shape (VChar sh d) = true ->
    p_value true self (to_json true (VChar sh d)) = Some (MV (VChar sh d) None None).
  Proof.
    intros Hwf. cbn [wf_shape data_len shape_of] in Hwf.
    assert (Hm : p_value true self (JArr [shape_json sh; JStr d]) = Some (MV (VChar sh d) None None)).
    { unfold p_value. rewrite meta_0, meta_1, meta_2, meta_3 by reflexivity. unfold arr. cbn [p_coll option_map].
      rewrite chk_ok by (cbn [data_len shape_of]; exact Hwf). reflexivity. }
    cbn [to_json]. destruct (is_spelling d) eqn:Es; cbn [andb]; [apply Hm|].
    destruct sh as [|n [|n2 sh']]; [apply Hm | | apply Hm].
    rewrite (rank1_shape _ _ Hwf). unfold p_value.
    rewrite !(p_array_simple self) by exact I.
    cbn [p_coll p_scalar option_map p_u8 p_complex]. rewrite (not_spelling_f64rep _ Es). reflexivity.
  Qed.

  Lemma rt_cplx sh d : wf_shape (VCplx sh d) = true -> repr_ok (VCplx sh d) = true ->
    p_value true self (to_json true (VCplx sh d)) = Some (MV (VCplx sh d) None None).
  Proof.
    intros Hwf Hp. cbn [wf_shape data_len shape_of] in Hwf. cbn [repr_ok] in Hp.
    assert (Hm : to_json true (VCplx sh d) = JArr [shape_json sh; cC d] ->
                 p_value true self (to_json true (VCplx sh d)) = Some (MV (VCplx sh d) None None)).
    { intros ->. unfold p_value. rewrite meta_0, meta_1, (meta_2 _ _ _ (cC_not_complex d)). unfold arr.
      rewrite !cC_other by tauto. rewrite cC_2 by auto. chk Hwf. reflexivity. }
    destruct sh as [|n [|n2 sh']].
    - apply Hm. destruct d; reflexivity.
    - rewrite (rank1_shape _ _ Hwf). change (to_json true (VCplx [length d] d)) with (cC d).
      assert (Hnt : no_tuple (cC d)).
      { destruct d as [|a [|b [|c [|? ?]]]]; try exact I; cbn; apply pairj_not_shape. }
      unfold p_value. rewrite !(p_array_simple self _ _ Hnt). rewrite !cC_other by tauto.
      replace (p_scalar true self 0 (cC d)) with (@None value) by (destruct d; reflexivity).
      replace (p_scalar true self 1 (cC d)) with (@None value) by (destruct d; reflexivity).
      rewrite cC_2 by auto. reflexivity.
    - apply Hm. destruct d; reflexivity.
  Qed.

  Lemma boxj_coll_none k j : (k < 4)%nat -> p_coll true self k [] (JObj [(K_B, j)]) = None.
  Proof.
    intros H. destruct k as [|[|[|[|k]]]]; try lia; try reflexivity.
    destruct j as [| | | | | |l|]; try reflexivity. destruct l; reflexivity.
  Qed.

  Lemma rt_box sh d : wf_shape (VBox sh d) = true ->
    Forall (fun x => self (to_json true x) = Some (MV (norm x) None None)) d ->
    p_value true self (to_json true (VBox sh d)) = Some (MV (norm (VBox sh d)) None None).
  Proof.
    intros Hwf IH. cbn [wf_shape] in Hwf. apply andb_prop in Hwf. destruct Hwf as [Hwf _].
    cbn [norm].
    destruct sh as [|n [|n2 sh']].
    - destruct d as [|x [|? ?]]; try discriminate. change (to_json true (VBox [] [x])) with (boxj x).
      inversion IH; subst. unfold p_value, boxj.
      rewrite !(p_array_simple self) by exact I. rewrite !boxj_coll_none by lia.
      cbn [p_scalar]. rewrite boxj_not_f64rep. cbn [option_map p_u8 p_complex].
      replace (p_coll true self 4 [] (JObj [(K_B, to_json true x)])) with (@None value)
        by (destruct (to_json true x) as [| | | | | |l|]; try reflexivity; destruct l; reflexivity).
      fold (boxj x). rewrite boxed_ok by auto. reflexivity.
    - assert (E : [n] = [length d]).
      { cbn in Hwf. apply PeanoNat.Nat.eqb_eq in Hwf. rewrite PeanoNat.Nat.mul_1_r in Hwf. congruence. }
      rewrite E. change (to_json true (VBox [length d] d)) with (cX d).
      assert (Hnt : no_tuple (cX d)).
      { destruct d as [|a [|b [|c [|? ?]]]]; try exact I; reflexivity. }
      unfold p_value. rewrite !(p_array_simple self _ _ Hnt). rewrite !cX_other by tauto.
      replace (p_scalar true self 0 (cX d)) with (@None value) by (destruct d; reflexivity).
      replace (p_scalar true self 1 (cX d)) with (@None value)
        by (destruct d; [reflexivity | cbn [p_scalar cX]; reflexivity]).
      replace (p_scalar true self 2 (cX d)) with (@None value)
        by (cbn [p_scalar]; rewrite cX_not_complex'; reflexivity).
      replace (p_scalar true self 3 (cX d)) with (@None value) by (destruct d; reflexivity).
      rewrite cX_4 by auto. cbn [relen]. rewrite map_length. reflexivity.
    - change (to_json true (VBox (n :: n2 :: sh') d)) with (JArr [shape_json (n :: n2 :: sh'); cX d]).
      unfold p_value. rewrite meta_0, meta_1, (meta_2 _ _ _ (cX_not_complex d)), meta_3, meta_4 by (cbn; congruence).
      unfold arr. rewrite !cX_other by tauto. rewrite cX_4 by auto. cbn [option_map].
      rewrite chk_ok by (cbn [data_len shape_of]; rewrite map_length; exact Hwf). reflexivity.
  Qed.
End Main.

Lemma fold_max_le (d : list value) f x : In x d ->
  (fold_right (fun x n => Nat.max (vdepth x) n) 0 d <= f)%nat -> (vdepth x <= f)%nat.
Proof.
  induction d as [|y d IH]; intros Hin H; [destruct Hin|]. cbn [fold_right] in H.
  destruct Hin as [-> | Hin]; [lia | apply IH; auto; lia].
Qed.

(** decode (encode v) = v (up to the storage of empty number arrays), for every value: numbers
    with any NaN sign and payload, infinities, -0; bytes; complex numbers with any parts;
    characters and strings including the reserved spellings; boxes to any depth *)
Theorem value_json_roundtrip_fuel : forall v, wf_shape v = true -> repr_ok v = true ->
  forall fuel, (vdepth v <= fuel)%nat -> of_json_fuel true fuel (to_json true v) = Some (MV (norm v) None None).
Proof.
  induction v using value_ind'; intros Hwf Hp fuel Hf;
    (destruct fuel as [|f]; [cbn [vdepth] in Hf; lia|]); cbn [of_json_fuel].
  - apply rt_num; auto.
  - apply (rt_byte _ s d); auto.
  - apply (rt_char _ s d); auto.
  - apply (rt_cplx _ s d); auto.
  - apply rt_box; auto.
    cbn [wf_shape] in Hwf. apply andb_prop in Hwf. destruct Hwf as [_ Hwf].
    cbn [repr_ok] in Hp. cbn [vdepth] in Hf.
    rewrite forallb_forall in Hwf, Hp. rewrite Forall_forall in H |- *.
    intros x Hx. apply H; auto. apply (fold_max_le d); auto. lia.
Qed.

(** the reader as run ([of_json] = 12 levels of nesting) *)
Theorem value_json_roundtrip : forall v, wf_shape v = true -> repr_ok v = true -> (vdepth v <= 12)%nat ->
  of_json true (to_json true v) = Some (MV (norm v) None None).
Proof. intros v Hwf Hp Hd. apply value_json_roundtrip_fuel; auto. Qed.

(** no empty number array inside: exactly itself *)
Fixpoint no_empty_num (v : value) : bool :=
  match v with VNum _ [] => false | VBox _ d => forallb no_empty_num d | _ => true end.
Lemma norm_id : forall v, no_empty_num v = true -> norm v = v.
Proof.
  induction v using value_ind'; intros Hn; try reflexivity.
  - destruct d; [discriminate | reflexivity].
  - cbn [norm]. f_equal. cbn [no_empty_num] in Hn. rewrite forallb_forall in Hn.
    rewrite Forall_forall in H. rewrite <- (map_id d) at 2. apply map_ext_in. intros x Hx. apply H; auto.
Qed.
Theorem value_json_roundtrip_exact : forall v, wf_shape v = true -> repr_ok v = true -> no_empty_num v = true ->
  (vdepth v <= 12)%nat -> of_json true (to_json true v) = Some (MV v None None).
Proof. intros v H1 H2 H3 H4. rewrite value_json_roundtrip by auto. rewrite norm_id by auto. reflexivity. Qed.

Definition elem_class (v : value) : nat :=
  match v with VNum _ _ | VByte _ _ => 0 | VCplx _ _ => 1 | VChar _ _ => 2 | VBox _ _ => 3 end%nat.
Lemma norm_shape v : shape_of (norm v) = shape_of v.
Proof. destruct v as [s [|? ?]| | | |]; reflexivity. Qed.
Lemma norm_class v : elem_class (norm v) = elem_class v.
Proof. destruct v as [s [|? ?]| | | |]; reflexivity. Qed.
Lemma norm_len v : data_len (norm v) = data_len v.
Proof. destruct v as [s [|? ?]| | | |]; cbn [norm data_len]; rewrite ?map_length; reflexivity. Qed.

(** ** top-level metadata: a label (ArrayRep::Full) and map keys (ArrayRep::Map) *)
Definition map_try (self : json -> option mval) (kd : nat) (sh : list nat) (A B : json) : option mval :=
  match self A with
  | Some (MV kv None None) =>
      match p_coll true self kd sh B with
      | Some v => Some (MV v None (if Nat.eqb (rows (shape_of kv)) (rows sh) then Some (to_num kv) else None))
      | None => None end
  | _ => None end.

Lemma p_array_tuple3 self kd sh A B :
  p_coll true self kd [] (JArr [shape_json sh; A; B]) = None ->
  p_scalar true self kd (JArr [shape_json sh; A; B]) = None ->
  p_array true self kd (JArr [shape_json sh; A; B]) =
    check_shape true
    (match map_try self kd sh A B with
     | Some m => Some m
     | None => match p_meta true B with
               | Some lbl => option_map (fun v => MV v lbl None) (p_coll true self kd sh A)
               | None => None end
     end).
Proof.
  intros H1 H2. unfold p_array, map_try. rewrite H1, H2, p_shape_json.
  destruct (self A) as [[kv [l|] [k|]]|]; try reflexivity.
Qed.

Lemma opt_map3_none {A B} (f : A -> option B) a b c : f c = None -> opt_map f [a; b; c] = None.
Proof. intros H. cbn [opt_map]. rewrite H. destruct (f a), (f b); reflexivity. Qed.

Lemma p_value_first self J R (K : nat) : (K <= 4)%nat ->
  (forall kd, (kd < K)%nat -> p_array true self kd J = None) -> p_array true self K J = Some R ->
  p_value true self J = Some R.
Proof.
  intros HK Hlt HR. unfold p_value.
  destruct K as [|[|[|[|[|K]]]]]; try lia;
    repeat match goal with
           | |- context [p_array true self ?k J] =>
               first [ rewrite HR | rewrite (Hlt k) by lia ]
           end; reflexivity.
Qed.

Definition kind_of (v : value) : nat :=
  match v with VByte _ _ => 0 | VNum _ [] => 0 | VNum _ _ => 1 | VCplx _ _ => 2 | VChar _ _ => 3 | VBox _ _ => 4 end%nat.

Lemma wf_len v : wf_shape v = true -> Nat.eqb (data_len v) (shape_prod (shape_of v)) = true.
Proof. destruct v; cbn [wf_shape data_len shape_of]; intros H; auto. apply andb_prop in H. tauto. Qed.

Lemma reshaped_ok v : wf_shape v = true ->
  let w := match norm v with
           | VNum _ d => VNum (shape_of v) d | VByte _ d => VByte (shape_of v) d | VChar _ d => VChar (shape_of v) d
           | VCplx _ d => VCplx (shape_of v) d | VBox _ d => VBox (shape_of v) d end in
  Nat.eqb (data_len w) (shape_prod (shape_of w)) = true /\ w = norm v.
Proof.
  intros H. pose proof (wf_len v H) as E.
  destruct v as [s [|? ?]|s d|s d|s d|s d]; cbn [norm data_len shape_of] in *; rewrite ?map_length; auto.
Qed.

Section Meta.
  Variable self : json -> option mval.

  (** the collection of a value under every element kind: only its own kind accepts it (an empty
      number collection is accepted as bytes) *)
  Lemma coll_table v sh : repr_ok v = true ->
    Forall (fun x => self (to_json true x) = Some (MV (norm x) None None)) (match v with VBox _ d => d | _ => [] end) ->
    (forall kd, (kd < kind_of v)%nat -> p_coll true self kd sh (coll_json true v) = None) /\
    p_coll true self (kind_of v) sh (coll_json true v) =
      Some (match norm v with
            | VNum _ d => VNum sh d | VByte _ d => VByte sh d | VChar _ d => VChar sh d
            | VCplx _ d => VCplx sh d | VBox _ d => VBox sh d end).
  Proof.
    intros Hr IH. destruct v as [s d|s d|s d|s d|s d]; cbn [repr_ok] in Hr.
    - change (coll_json true (VNum s d)) with (cN d). destruct d as [|x d].
      + split; [intros kd Hk; cbn in Hk; lia | reflexivity].
      + cbn [kind_of norm]. split.
        * intros kd Hk. assert (kd = 0%nat) by lia. subst. apply cN_0.
        * apply cN_1; auto.
    - change (coll_json true (VByte s d)) with (cB d). split; [intros kd Hk; cbn in Hk; lia|]. apply cB_0; auto.
    - cbn [coll_json kind_of norm]. split; [|reflexivity].
      intros kd Hk. destruct kd as [|[|[|kd]]]; try lia; reflexivity.
    - change (coll_json true (VCplx s d)) with (cC d). cbn [kind_of norm]. split.
      + intros kd Hk. apply cC_other. lia.
      + apply cC_2; auto.
    - change (coll_json true (VBox s d)) with (cX d). cbn [kind_of norm]. split.
      + intros kd Hk. apply cX_other. lia.
      + apply cX_4; auto.
  Qed.

  (** the metadata object of a label is no collection of any kind and no boxed value *)
  Definition metaJ (l : text) : json := JObj [(K_LABEL, JStr l)].
  Lemma metaJ_coll l kd sh : p_coll true self kd sh (metaJ l) = None.
  Proof. destruct kd as [|[|[|[|[|kd]]]]]; reflexivity. Qed.

  (** a collection is never a metadata object (unknown fields are refused) and never a complex element *)
  Lemma coll_not_meta v : p_meta true (coll_json true v) = None.
  Proof. destruct v as [s d|s d|s d|s [|? ?]|s [|? ?]]; reflexivity. Qed.
  Lemma coll_not_complex_el v : (2 <= kind_of v)%nat -> p_complex_el true (coll_json true v) = None.
  Proof.
    destruct v as [s d|s d|s d|s d|s d]; cbn [kind_of]; intros H.
    - destruct d; lia.
    - lia.
    - reflexivity.
    - apply (cC_not_complex d).
    - apply (cX_not_complex d).
  Qed.

  (** ---- a label: [shape, coll, {"label": l}] *)
  Theorem label_roundtrip_step v l : wf_shape v = true -> repr_ok v = true ->
    Forall (fun x => self (to_json true x) = Some (MV (norm x) None None)) (match v with VBox _ d => d | _ => [] end) ->
    p_value true self (JArr [shape_json (shape_of v); coll_json true v; metaJ l]) = Some (MV (norm v) (Some l) None).
  Proof.
    intros Hwf Hr IH. destruct (coll_table v (shape_of v) Hr IH) as [Hlt Heq].
    set (J := JArr [shape_json (shape_of v); coll_json true v; metaJ l]).
    assert (HL : forall kd, (kd <= 4)%nat -> p_coll true self kd [] J = None).
    { intros kd Hk. destruct kd as [|[|[|[|[|kd]]]]]; try lia; try reflexivity.
      - unfold J. cbn [p_coll]. rewrite opt_map3_none by reflexivity. reflexivity.
      - unfold J. cbn [p_coll]. rewrite opt_map3_none by reflexivity. reflexivity. }
    assert (HS : forall kd, p_scalar true self kd J = None).
    { intros kd. destruct kd as [|[|[|[|kd]]]]; reflexivity. }
    assert (HA : forall kd, (kd <= 4)%nat -> p_array true self kd J =
               check_shape true (option_map (fun x => MV x (Some l) None) (p_coll true self kd (shape_of v) (coll_json true v)))).
    { intros kd Hk. unfold J. rewrite p_array_tuple3 by (apply HL || apply HS; auto).
      unfold map_try. rewrite metaJ_coll.
      destruct (self (coll_json true v)) as [[kv [?|] [?|]]|]; reflexivity. }
    assert (HK : (kind_of v <= 4)%nat) by (destruct v as [? [|? ?]| | | |]; cbn; lia).
    apply (p_value_first self J _ (kind_of v) HK).
    - intros kd Hk. rewrite HA by lia. rewrite Hlt by auto. reflexivity.
    - rewrite HA by lia. rewrite Heq. cbn [option_map].
      destruct (reshaped_ok v Hwf) as [E1 E2]. rewrite chk_ok by exact E1. rewrite E2. reflexivity.
  Qed.
End Meta.

Lemma inner_IH v f : wf_shape v = true -> repr_ok v = true -> (vdepth v <= S f)%nat ->
  Forall (fun x => of_json_fuel true f (to_json true x) = Some (MV (norm x) None None)) (match v with VBox _ d => d | _ => [] end).
Proof.
  intros Hwf Hr Hd. destruct v as [s d|s d|s d|s d|s d]; try constructor.
  cbn [wf_shape] in Hwf. apply andb_prop in Hwf. destruct Hwf as [_ Hwf]. cbn [repr_ok] in Hr. cbn [vdepth] in Hd.
  rewrite forallb_forall in Hwf, Hr. apply Forall_forall. intros x Hx.
  apply value_json_roundtrip_fuel; auto. pose proof (fold_max_le d f x Hx). lia.
Qed.

Theorem label_json_roundtrip_fuel : forall v l f, wf_shape v = true -> repr_ok v = true -> (vdepth v <= S f)%nat ->
  exists j, mto_json true (MV v (Some l) None) = Some j /\ of_json_fuel true (S f) j = Some (MV (norm v) (Some l) None).
Proof.
  intros v l f Hwf Hr Hd. eexists. split; [reflexivity|].
  cbn [of_json_fuel]. apply label_roundtrip_step; auto. apply inner_IH; auto.
Qed.

Theorem label_json_roundtrip : forall v l, wf_shape v = true -> repr_ok v = true -> (vdepth v <= 12)%nat ->
  exists j, mto_json true (MV v (Some l) None) = Some j /\ of_json true j = Some (MV (norm v) (Some l) None).
Proof. intros v l Hwf Hr Hd. apply (label_json_roundtrip_fuel v l 11); auto. Qed.

(** ---- map keys: [shape, keys, coll] (ArrayRep::Map).  No exception any more: a boxed value reads
    only from the object form, so [[1], keys, [{"b":..}]] is not a list of three boxes
    (the old reader: [map1_refuted_pre]). *)
Section MapKeys.
  Variable self : json -> option mval.

  Lemma shape_not_boxed s : p_boxed true self (shape_json s) = None.
  Proof. unfold shape_json. destruct (map (fun n => JInt (N.of_nat n)) s) as [|a [|b l]]; reflexivity. Qed.

  Theorem map_roundtrip_step v k : wf_shape v = true -> repr_ok v = true ->
    Forall (fun x => self (to_json true x) = Some (MV (norm x) None None)) (match v with VBox _ d => d | _ => [] end) ->
    self (to_json true k) = Some (MV (norm k) None None) ->
    p_value true self (JArr [shape_json (shape_of v); to_json true k; coll_json true v]) =
      Some (MV (norm v) None (if Nat.eqb (rows (shape_of k)) (rows (shape_of v)) then Some (to_num (norm k)) else None)).
  Proof.
    intros Hwf Hr IH Hk. destruct (coll_table self v (shape_of v) Hr IH) as [Hlt Heq].
    set (J := JArr [shape_json (shape_of v); to_json true k; coll_json true v]).
    assert (HL : forall kd, (kd <= kind_of v)%nat -> p_coll true self kd [] J = None).
    { intros kd Hkd. destruct kd as [|[|[|[|[|kd]]]]]; try reflexivity.
      - unfold J. cbn [p_coll]. rewrite opt_map3_none by (apply coll_not_complex_el; lia). reflexivity.
      - destruct v as [s d|s d|s d|s d|s d]; try (destruct d; cbn in Hkd; lia); try (cbn in Hkd; lia).
        unfold J. cbn [p_coll shape_of]. change (coll_json true (VBox s d)) with (cX d).
        rewrite opt_map_head_none by apply shape_not_boxed. reflexivity. }
    assert (HS : forall kd, p_scalar true self kd J = None).
    { intros kd. destruct kd as [|[|[|[|kd]]]]; reflexivity. }
    assert (HK : (kind_of v <= 4)%nat) by (destruct v as [? [|? ?]| | | |]; cbn; lia).
    apply (p_value_first self J _ (kind_of v) HK).
    - intros kd Hkd. unfold J. rewrite p_array_tuple3 by (apply HL || apply HS; lia).
      unfold map_try. rewrite Hk, (Hlt kd Hkd), coll_not_meta. reflexivity.
    - unfold J. rewrite p_array_tuple3 by (apply HL || apply HS; lia).
      unfold map_try. rewrite Hk, Heq. rewrite norm_shape.
      destruct (reshaped_ok v Hwf) as [E1 E2]. rewrite chk_ok by exact E1. rewrite E2. reflexivity.
  Qed.
End MapKeys.

Theorem map_json_roundtrip_fuel : forall v k f, wf_shape v = true -> repr_ok v = true ->
  wf_shape k = true -> repr_ok k = true -> (vdepth v <= S f)%nat -> (vdepth k <= f)%nat ->
  exists j, mto_json true (MV v None (Some k)) = Some j /\
    of_json_fuel true (S f) j =
      Some (MV (norm v) None (if Nat.eqb (rows (shape_of k)) (rows (shape_of v)) then Some (to_num (norm k)) else None)).
Proof.
  intros v k f Hwf Hr Hwk Hrk Hd Hdk. eexists. split; [reflexivity|].
  cbn [of_json_fuel]. apply map_roundtrip_step; auto.
  - apply inner_IH; auto.
  - apply value_json_roundtrip_fuel; auto.
Qed.

Theorem map_json_roundtrip : forall v k, wf_shape v = true -> repr_ok v = true ->
  wf_shape k = true -> repr_ok k = true -> (vdepth v <= 12)%nat -> (vdepth k <= 11)%nat ->
  exists j, mto_json true (MV v None (Some k)) = Some j /\
    of_json true j =
      Some (MV (norm v) None (if Nat.eqb (rows (shape_of k)) (rows (shape_of v)) then Some (to_num (norm k)) else None)).
Proof. intros. apply (map_json_roundtrip_fuel v k 11); auto. Qed.

(** record of the defect repaired by /repo 55312e0 (model with [cur = false], where a boxed value
    also reads from a one-element sequence): the one-entry box map {5 -> box 1} was written
    [[1],[5.0],[{"b":1}]] and read back as a list of three boxes *)
Theorem map1_refuted_pre :
  exists m j m', mto_json false m = Some j /\ of_json false j = Some m' /\ mval_same m' m = false /\
    m' = MV (VBox [3%nat] [VByte [] [1]; VNum [] [4617315517961601024]; VBox [] [VByte [] [1]]]) None None.
Proof.
  exists (MV (VBox [1%nat] [VByte [] [1]]) None (Some (VNum [1%nat] [4617315517961601024]))). eexists. eexists.
  split; [vm_compute; reflexivity|]. split; [vm_compute; reflexivity|]. split; reflexivity.
Qed.
Example current_reads_one_row_box_map :
  let m := MV (VBox [1%nat] [VByte [] [1]]) None (Some (VNum [1%nat] [4617315517961601024])) in
  match mto_json true m with Some j => of_json true j = Some m | None => False end.
Proof. vm_compute. reflexivity. Qed.

(** the statements above in the form the tie evaluates ([meta_expect]) *)
Theorem meta_json_roundtrip : forall m e j, meta_expect m = Some e -> mto_json true m = Some j ->
  (match m with MV v _ k => wf_shape v = true /\ repr_ok v = true /\ (vdepth v <= 12)%nat /\
     match k with Some k => wf_shape k = true /\ repr_ok k = true /\ (vdepth k <= 11)%nat | None => True end end) ->
  of_json true j = Some e.
Proof.
  intros [v [l|] [k|]] e j He Hj Hp; cbn [meta_expect] in He; try discriminate.
  - destruct Hp as (H1 & H2 & H3 & _). inversion He; subst.
    destruct (label_json_roundtrip v l H1 H2 H3) as (j' & Ej & Er). congruence.
  - destruct Hp as (H1 & H2 & H3 & H4 & H5 & H6). inversion He; subst.
    destruct (map_json_roundtrip v k H1 H2 H4 H5 H3 H6) as (j' & Ej & Er). congruence.
  - destruct Hp as (H1 & H2 & H3 & _). inversion He; subst. cbn [mto_json] in Hj. inversion Hj; subst.
    apply value_json_roundtrip; auto.
Qed.
