(** C17 proofs, part (ii): the value <-> JSON round trip of the CURRENT representation
    (model with [cur = true]): decode (encode v) = v up to the storage of empty number arrays. *)
From Coq Require Import List NArith Bool Lia.
From UV Require Import Base.Value Model.Uasm Model.UasmValue Model.UasmPlain.
Import ListNotations.
Open Scope N_scope.

Lemma opt_map_map {A B C} (f : B -> option C) (g : A -> B) (h : A -> C) l :
  (forall x, In x l -> f (g x) = Some (h x)) -> opt_map f (map g l) = Some (map h l).
Proof.
  induction l as [|x l IH]; intros H; [reflexivity|]. cbn [map opt_map].
  rewrite (H x (or_introl eq_refl)). cbn [map opt_map] in IH. rewrite IH; [reflexivity|].
  intros y Hy. apply H. right; auto.
Qed.

Lemma p_shape_json sh : p_shape (shape_json sh) = Some sh.
Proof.
  unfold p_shape, shape_json. rewrite (opt_map_map p_usize _ (fun n => n)).
  - rewrite map_id. reflexivity.
  - intros n _. cbn. rewrite Nnat.Nat2N.id. reflexivity.
Qed.

(** F64Rep *)
Notation fj := (f64rep_json true).
Notation pf := (p_f64rep true).

Lemma f64rep_cases x : (exists s, fj x = JStr s) \/ fj x = JFloat x \/ fj x = JObj [(K_NAN, JInt x)].
Proof.
  unfold f64rep_json. destruct (f_is_nan x).
  - destruct (x =? F_WILD_NAN); [eauto|]. destruct (x =? F_EMPTY_NAN); [eauto|].
    destruct (x =? F_TOMB_NAN); [eauto|]. cbn iota. destruct (x =? F_NAN_BITS); eauto.
  - destruct (x =? F_INF_BITS); [eauto|]. destruct (x =? F_NEG_INF); eauto.
Qed.

Ltac fcases x := destruct (f64rep_cases x) as [[? ->] | [-> | ->]].

Lemma f64rep_roundtrip x : f64_ok x = true -> pf (fj x) = Some x.
Proof.
  intros Hx. unfold f64rep_json. destruct (f_is_nan x) eqn:En.
  - destruct (x =? F_WILD_NAN) eqn:E1; [apply N.eqb_eq in E1; subst; reflexivity|].
    destruct (x =? F_EMPTY_NAN) eqn:E2; [apply N.eqb_eq in E2; subst; reflexivity|].
    destruct (x =? F_TOMB_NAN) eqn:E3; [apply N.eqb_eq in E3; subst; reflexivity|].
    cbn iota. destruct (x =? F_NAN_BITS) eqn:E4; [apply N.eqb_eq in E4; subst; reflexivity|].
    unfold p_f64rep. change (text_eqb K_NAN K_NAN) with true. unfold f64_ok in Hx. rewrite Hx. reflexivity.
  - destruct (x =? F_INF_BITS) eqn:E1; [apply N.eqb_eq in E1; subst; reflexivity|].
    destruct (x =? F_NEG_INF) eqn:E2; [apply N.eqb_eq in E2; subst; reflexivity|].
    reflexivity.
Qed.

Lemma f64rep_not_u8 x : p_u8 (fj x) = None.
Proof. fcases x; reflexivity. Qed.
Lemma f64rep_not_usize x : p_usize (fj x) = None.
Proof. fcases x; reflexivity. Qed.
Lemma f64rep_not_shape x : p_shape (fj x) = None.
Proof. fcases x; reflexivity. Qed.
Lemma f64rep_not_complex x : p_complex (fj x) = None.
Proof. fcases x; reflexivity. Qed.

Section Self.
  Variable self : json -> option mval.

  (** ArrayRep on a JSON that cannot be one of the tuple variants *)
  Definition no_tuple (j : json) : Prop :=
    match j with
    | JArr [s; _] => p_shape s = None
    | JArr [s; _; _] => p_shape s = None
    | _ => True end.

  Definition relen (v : value) : value :=
    match v with
    | VNum _ d => VNum [length d] d | VByte _ d => VByte [length d] d
    | VChar _ d => VChar [length d] d | VCplx _ d => VCplx [length d] d
    | VBox _ d => VBox [length d] d end.

  Lemma p_array_simple kind j : no_tuple j ->
    p_array true self kind j =
    match p_coll true self kind [] j with
    | Some v => Some (MV (relen v) None None)
    | None => match p_scalar true self kind j with Some v => Some (MV v None None) | None => None end
    end.
  Proof.
    intros H. unfold p_array. destruct (p_coll true self kind [] j) as [v|]; [destruct v; reflexivity|].
    destruct (p_scalar true self kind j); [reflexivity|].
    destruct j as [| | | | | |l|]; try reflexivity.
    destruct l as [|s [|c [|m [|? ?]]]]; try reflexivity; cbn in H; rewrite H; reflexivity.
  Qed.

  Lemma p_array_metaless kind sh c :
    p_coll true self kind [] (JArr [shape_json sh; c]) = None ->
    p_scalar true self kind (JArr [shape_json sh; c]) = None ->
    p_array true self kind (JArr [shape_json sh; c]) = option_map (fun v => MV v None None) (p_coll true self kind sh c).
  Proof.
    intros H1 H2. unfold p_array. rewrite H1, H2. rewrite p_shape_json. reflexivity.
  Qed.
End Self.

Lemma opt_map_head_none {A B} (f : A -> option B) x l : f x = None -> opt_map f (x :: l) = None.
Proof. intros H. cbn [opt_map]. rewrite H. reflexivity. Qed.

Lemma rank1_shape {A} n (d : list A) : Nat.eqb (length d) (shape_prod [n]) = true -> [n] = [length d].
Proof. cbn. intros H. apply PeanoNat.Nat.eqb_eq in H. rewrite PeanoNat.Nat.mul_1_r in H. congruence. Qed.

Definition cN (d : list f64) : json := JArr (map fj d).
Definition cB (d : list N) : json := JArr (map JInt d).
Definition pairj (c : f64 * f64) : json := JArr [fj (fst c); fj (snd c)].
Definition cC (d : list (f64 * f64)) : json :=
  match d with [] => JObj [(K_EMPTY_COMPLEX, JArr [])] | _ => JArr (map pairj d) end.
Definition boxj (x : value) : json := JObj [(K_B, to_json true x)].
Definition cX (d : list value) : json :=
  match d with [] => JObj [(K_EMPTY_BOXES, JArr [])] | _ => JArr (map boxj d) end.

Lemma boxj_not_f64rep j : pf (JObj [(K_B, j)]) = None.
Proof. destruct j; reflexivity. Qed.
Lemma pairj_not_shape c : p_shape (pairj c) = None.
Proof. unfold pairj, p_shape. cbn [opt_map]. rewrite f64rep_not_usize. reflexivity. Qed.

Section Cases.
  Variable self : json -> option mval.

  Definition arr (k : nat) (sh : list nat) (c : json) : option mval :=
    option_map (fun v => MV v None None) (p_coll true self k sh c).

  (** [shape, coll] *)
  Lemma meta_0 sh c : p_array true self 0 (JArr [shape_json sh; c]) = arr 0 sh c.
  Proof. apply p_array_metaless; reflexivity. Qed.
  Lemma meta_1 sh c : p_array true self 1 (JArr [shape_json sh; c]) = arr 1 sh c.
  Proof. apply p_array_metaless; reflexivity. Qed.
  Lemma meta_2 sh c : p_complex_el true c = None -> p_array true self 2 (JArr [shape_json sh; c]) = arr 2 sh c.
  Proof.
    intros H. apply p_array_metaless.
    - cbn [p_coll option_map opt_map]. destruct (p_complex_el true (shape_json sh)); [rewrite H|]; reflexivity.
    - reflexivity.
  Qed.
  Lemma meta_3 sh c : p_array true self 3 (JArr [shape_json sh; c]) = arr 3 sh c.
  Proof. apply p_array_metaless; reflexivity. Qed.
  Lemma meta_4 sh c : length sh <> 1%nat -> p_array true self 4 (JArr [shape_json sh; c]) = arr 4 sh c.
  Proof.
    intros H. apply p_array_metaless; [|reflexivity].
    destruct sh as [|a [|b sh']]; [reflexivity | cbn in H; congruence | reflexivity].
  Qed.

  (** the collections under each element kind *)
  Lemma cN_0 sh d : p_coll true self 0 sh (cN d) = match d with [] => Some (VByte sh []) | _ => None end.
  Proof. destruct d as [|x d]; [reflexivity|]. unfold cN. cbn [map p_coll]. rewrite opt_map_head_none by apply f64rep_not_u8. reflexivity. Qed.
  Lemma cN_1 sh d : forallb f64_ok d = true -> p_coll true self 1 sh (cN d) = Some (VNum sh d).
  Proof.
    intros H. unfold cN. cbn [p_coll]. rewrite (opt_map_map pf fj (fun x => x)).
    - rewrite map_id. reflexivity.
    - intros x Hx. rewrite forallb_forall in H. apply f64rep_roundtrip. auto.
  Qed.
  Lemma cB_0 sh d : forallb (fun x => x <=? 255) d = true -> p_coll true self 0 sh (cB d) = Some (VByte sh d).
  Proof.
    intros H. unfold cB. cbn [p_coll]. rewrite (opt_map_map p_u8 JInt (fun x => x)).
    - rewrite map_id. reflexivity.
    - intros x Hx. rewrite forallb_forall in H. cbn. rewrite (H x Hx). reflexivity.
  Qed.
  Lemma pair_ok c : f64_ok (fst c) && f64_ok (snd c) = true -> p_complex_el true (pairj c) = Some c.
  Proof.
    intros H. apply andb_prop in H. destruct H as [H1 H2]. unfold pairj, p_complex_el.
    rewrite (f64rep_roundtrip _ H1), (f64rep_roundtrip _ H2). destruct c; reflexivity.
  Qed.
  Lemma cC_2 sh d : forallb (fun c => f64_ok (fst c) && f64_ok (snd c)) d = true -> p_coll true self 2 sh (cC d) = Some (VCplx sh d).
  Proof.
    intros H. destruct d as [|x d]; [reflexivity|]. unfold cC. cbn [p_coll].
    rewrite (opt_map_map (p_complex_el true) pairj (fun c => c)).
    - rewrite map_id. reflexivity.
    - intros c Hc. rewrite forallb_forall in H. apply pair_ok. apply H. exact Hc.
  Qed.
  Lemma cC_other k sh d : (k = 0 \/ k = 1 \/ k = 3)%nat -> p_coll true self k sh (cC d) = None.
  Proof. intros [-> | [-> | ->]]; destruct d; reflexivity. Qed.
  Lemma cC_not_complex d : p_complex_el true (cC d) = None.
  Proof. destruct d as [|a [|b [|? ?]]]; reflexivity. Qed.
  Lemma cX_other k sh d : (k = 0 \/ k = 1 \/ k = 2 \/ k = 3)%nat -> p_coll true self k sh (cX d) = None.
  Proof.
    intros [-> | [-> | [-> | ->]]]; destruct d as [|x d]; try reflexivity.
    unfold cX. cbn [map p_coll]. rewrite opt_map_head_none by apply boxj_not_f64rep. reflexivity.
  Qed.
  Lemma cX_not_complex d : p_complex_el true (cX d) = None.
  Proof.
    destruct d as [|a [|b [|? ?]]]; try reflexivity.
    unfold cX, p_complex_el. cbn [map]. unfold boxj at 1. rewrite boxj_not_f64rep. reflexivity.
  Qed.
  Lemma cX_not_complex' d : p_complex (cX d) = None.
  Proof. destruct d as [|a [|b [|? ?]]]; reflexivity. Qed.
  Lemma boxed_ok x : self (to_json true x) = Some (MV (norm x) None None) -> p_boxed self (boxj x) = Some (norm x).
  Proof. intros H. unfold boxj, p_boxed. cbn [assoc]. change (text_eqb K_B K_B) with true. cbn iota. rewrite H. reflexivity. Qed.
  Lemma cX_4 sh d : Forall (fun x => self (to_json true x) = Some (MV (norm x) None None)) d ->
    p_coll true self 4 sh (cX d) = Some (VBox sh (map norm d)).
  Proof.
    intros H. destruct d as [|x d]; [reflexivity|]. unfold cX. cbn [p_coll].
    rewrite (opt_map_map (p_boxed self) boxj norm); [reflexivity|].
    intros y Hy. rewrite Forall_forall in H. apply boxed_ok. apply H. exact Hy.
  Qed.
End Cases.

Lemma not_spelling_f64rep d : is_spelling d = false -> pf (JStr d) = None.
Proof.
  unfold is_spelling. intros H.
  repeat (apply orb_false_elim in H; destruct H as [H ?]).
  cbn [p_f64rep]. unfold unit_variant. repeat match goal with E : text_eqb _ _ = false |- _ => rewrite E; clear E end. reflexivity.
Qed.

Section Main.
  Variable self : json -> option mval.

  Lemma rt_num sh d : wf_shape (VNum sh d) = true -> repr_ok (VNum sh d) = true ->
    p_value true self (to_json true (VNum sh d)) = Some (MV (norm (VNum sh d)) None None).
  Proof.
    intros Hwf Hp. cbn [wf_shape data_len shape_of] in Hwf. cbn [repr_ok] in Hp.
    destruct sh as [|n [|n2 sh']].
    - destruct d as [|x [|? ?]]; try discriminate. cbn [to_json norm map].
      cbn [forallb] in Hp. rewrite andb_true_r in Hp.
      unfold p_value.
      rewrite (p_array_simple self 0%nat) by (fcases x; exact I).
      assert (E0 : p_coll true self 0 [] (fj x) = None) by (fcases x; reflexivity).
      assert (E1 : p_coll true self 1 [] (fj x) = None) by (fcases x; reflexivity).
      rewrite E0. cbn [p_scalar]. rewrite f64rep_not_u8. cbn [option_map].
      rewrite (p_array_simple self 1%nat) by (fcases x; exact I).
      rewrite E1. cbn [p_scalar]. rewrite f64rep_roundtrip by auto. reflexivity.
    - rewrite (rank1_shape _ _ Hwf). change (to_json true (VNum [length d] d)) with (cN d).
      assert (Hnt : no_tuple (cN d)).
      { destruct d as [|a [|b [|c [|? ?]]]]; try exact I; cbn; apply f64rep_not_shape. }
      unfold p_value. rewrite (p_array_simple self 0%nat _ Hnt), cN_0.
      destruct d as [|x d]; [reflexivity|].
      change (p_scalar true self 0 (cN (x :: d))) with (@None value).
      rewrite (p_array_simple self 1%nat _ Hnt), cN_1 by auto. reflexivity.
    - change (to_json true (VNum (n :: n2 :: sh') d)) with (JArr [shape_json (n :: n2 :: sh'); cN d]).
      unfold p_value. rewrite meta_0. unfold arr. rewrite cN_0.
      destruct d as [|x d]; [reflexivity|]. cbn [option_map].
      rewrite meta_1. unfold arr. rewrite cN_1 by auto. reflexivity.
  Qed.

  Lemma rt_byte sh d : wf_shape (VByte sh d) = true -> repr_ok (VByte sh d) = true ->
    p_value true self (to_json true (VByte sh d)) = Some (MV (VByte sh d) None None).
  Proof.
    intros Hwf Hp. cbn [wf_shape data_len shape_of] in Hwf. cbn [repr_ok] in Hp.
    destruct sh as [|n [|n2 sh']].
    - destruct d as [|x [|? ?]]; try discriminate. cbn [to_json]. cbn [forallb] in Hp.
      rewrite andb_true_r in Hp. unfold p_value. rewrite (p_array_simple self 0%nat) by exact I.
      cbn [p_coll p_scalar p_u8]. rewrite Hp. reflexivity.
    - rewrite (rank1_shape _ _ Hwf). change (to_json true (VByte [length d] d)) with (cB d).
      assert (Hnt : no_tuple (cB d)).
      { destruct d as [|a [|b [|c [|? ?]]]]; try exact I; reflexivity. }
      unfold p_value. rewrite (p_array_simple self 0%nat _ Hnt), cB_0 by auto. reflexivity.
    - change (to_json true (VByte (n :: n2 :: sh') d)) with (JArr [shape_json (n :: n2 :: sh'); cB d]).
      unfold p_value. rewrite meta_0. unfold arr. rewrite cB_0 by auto. reflexivity.
  Qed.

  Lemma rt_char sh d : wf_shape (VChar sh d) = true ->
    p_value true self (to_json true (VChar sh d)) = Some (MV (VChar sh d) None None).
  Proof.
    intros Hwf. cbn [wf_shape data_len shape_of] in Hwf.
    assert (Hm : forall sh', p_value true self (JArr [shape_json sh'; JStr d]) = Some (MV (VChar sh' d) None None)).
    { intros sh'. unfold p_value. rewrite meta_0, meta_1, meta_2, meta_3 by reflexivity. reflexivity. }
    cbn [to_json]. destruct (is_spelling d) eqn:Es; cbn [andb]; [apply Hm|].
    destruct sh as [|n [|n2 sh']]; [apply Hm | | apply Hm].
    rewrite (rank1_shape _ _ Hwf). unfold p_value.
    rewrite !(p_array_simple self) by exact I.
    cbn [p_coll p_scalar option_map p_u8 p_complex]. rewrite (not_spelling_f64rep _ Es). reflexivity.
  Qed.

  Lemma rt_cplx sh d : wf_shape (VCplx sh d) = true -> repr_ok (VCplx sh d) = true ->
    p_value true self (to_json true (VCplx sh d)) = Some (MV (VCplx sh d) None None).
  Proof.
    intros Hwf Hp. cbn [wf_shape data_len shape_of] in Hwf. cbn [repr_ok] in Hp.
    assert (Hm : forall sh', to_json true (VCplx sh' d) = JArr [shape_json sh'; cC d] ->
                 p_value true self (to_json true (VCplx sh' d)) = Some (MV (VCplx sh' d) None None)).
    { intros sh' ->. unfold p_value. rewrite meta_0, meta_1, (meta_2 _ _ _ (cC_not_complex d)). unfold arr.
      rewrite !cC_other by tauto. rewrite cC_2 by auto. reflexivity. }
    destruct sh as [|n [|n2 sh']].
    - apply Hm. destruct d; reflexivity.
    - rewrite (rank1_shape _ _ Hwf). change (to_json true (VCplx [length d] d)) with (cC d).
      assert (Hnt : no_tuple (cC d)).
      { destruct d as [|a [|b [|c [|? ?]]]]; try exact I; cbn; apply pairj_not_shape. }
      unfold p_value. rewrite !(p_array_simple self _ _ Hnt). rewrite !cC_other by tauto.
      replace (p_scalar true self 0 (cC d)) with (@None value) by (destruct d; reflexivity).
      replace (p_scalar true self 1 (cC d)) with (@None value) by (destruct d; reflexivity).
      rewrite cC_2 by auto. reflexivity.
    - apply Hm. destruct d; reflexivity.
  Qed.

  Lemma boxj_coll_none k j : (k < 4)%nat -> p_coll true self k [] (JObj [(K_B, j)]) = None.
  Proof.
    intros H. destruct k as [|[|[|[|k]]]]; try lia; try reflexivity.
    destruct j as [| | | | | |l|]; try reflexivity. destruct l; reflexivity.
  Qed.

  Lemma rt_box sh d : wf_shape (VBox sh d) = true ->
    Forall (fun x => self (to_json true x) = Some (MV (norm x) None None)) d ->
    p_value true self (to_json true (VBox sh d)) = Some (MV (norm (VBox sh d)) None None).
  Proof.
    intros Hwf IH. cbn [wf_shape] in Hwf. apply andb_prop in Hwf. destruct Hwf as [Hwf _].
    cbn [norm].
    destruct sh as [|n [|n2 sh']].
    - destruct d as [|x [|? ?]]; try discriminate. change (to_json true (VBox [] [x])) with (boxj x).
      inversion IH; subst. unfold p_value, boxj.
      rewrite !(p_array_simple self) by exact I. rewrite !boxj_coll_none by lia.
      cbn [p_scalar]. rewrite boxj_not_f64rep. cbn [option_map p_u8 p_complex].
      replace (p_coll true self 4 [] (JObj [(K_B, to_json true x)])) with (@None value)
        by (destruct (to_json true x) as [| | | | | |l|]; try reflexivity; destruct l; reflexivity).
      fold (boxj x). rewrite boxed_ok by auto. reflexivity.
    - assert (E : [n] = [length d]).
      { cbn in Hwf. apply PeanoNat.Nat.eqb_eq in Hwf. rewrite PeanoNat.Nat.mul_1_r in Hwf. congruence. }
      rewrite E. change (to_json true (VBox [length d] d)) with (cX d).
      assert (Hnt : no_tuple (cX d)).
      { destruct d as [|a [|b [|c [|? ?]]]]; try exact I; reflexivity. }
      unfold p_value. rewrite !(p_array_simple self _ _ Hnt). rewrite !cX_other by tauto.
      replace (p_scalar true self 0 (cX d)) with (@None value) by (destruct d; reflexivity).
      replace (p_scalar true self 1 (cX d)) with (@None value)
        by (destruct d; [reflexivity | cbn [p_scalar cX]; reflexivity]).
      replace (p_scalar true self 2 (cX d)) with (@None value)
        by (cbn [p_scalar]; rewrite cX_not_complex'; reflexivity).
      replace (p_scalar true self 3 (cX d)) with (@None value) by (destruct d; reflexivity).
      rewrite cX_4 by auto. cbn [relen]. rewrite map_length. reflexivity.
    - change (to_json true (VBox (n :: n2 :: sh') d)) with (JArr [shape_json (n :: n2 :: sh'); cX d]).
      unfold p_value. rewrite meta_0, meta_1, (meta_2 _ _ _ (cX_not_complex d)), meta_3, meta_4 by (cbn; congruence).
      unfold arr. rewrite !cX_other by tauto. rewrite cX_4 by auto. reflexivity.
  Qed.
End Main.

Lemma fold_max_le (d : list value) f x : In x d ->
  (fold_right (fun x n => Nat.max (vdepth x) n) 0 d <= f)%nat -> (vdepth x <= f)%nat.
Proof.
  induction d as [|y d IH]; intros Hin H; [destruct Hin|]. cbn [fold_right] in H.
  destruct Hin as [-> | Hin]; [lia | apply IH; auto; lia].
Qed.

(** decode (encode v) = v (up to the storage of empty number arrays), for every value: numbers
    with any NaN sign and payload, infinities, -0; bytes; complex numbers with any parts;
    characters and strings including the reserved spellings; boxes to any depth *)
Theorem value_json_roundtrip_fuel : forall v, wf_shape v = true -> repr_ok v = true ->
  forall fuel, (vdepth v <= fuel)%nat -> of_json_fuel true fuel (to_json true v) = Some (MV (norm v) None None).
Proof.
  induction v using value_ind'; intros Hwf Hp fuel Hf;
    (destruct fuel as [|f]; [cbn [vdepth] in Hf; lia|]); cbn [of_json_fuel].
  - apply rt_num; auto.
  - apply (rt_byte _ s d); auto.
  - apply (rt_char _ s d); auto.
  - apply (rt_cplx _ s d); auto.
  - apply rt_box; auto.
    cbn [wf_shape] in Hwf. apply andb_prop in Hwf. destruct Hwf as [_ Hwf].
    cbn [repr_ok] in Hp. cbn [vdepth] in Hf.
    rewrite forallb_forall in Hwf, Hp. rewrite Forall_forall in H |- *.
    intros x Hx. apply H; auto. apply (fold_max_le d); auto. lia.
Qed.

(** the reader as run ([of_json] = 12 levels of nesting) *)
Theorem value_json_roundtrip : forall v, wf_shape v = true -> repr_ok v = true -> (vdepth v <= 12)%nat ->
  of_json true (to_json true v) = Some (MV (norm v) None None).
Proof. intros v Hwf Hp Hd. apply value_json_roundtrip_fuel; auto. Qed.

(** no empty number array inside: exactly itself *)
Fixpoint no_empty_num (v : value) : bool :=
  match v with VNum _ [] => false | VBox _ d => forallb no_empty_num d | _ => true end.
Lemma norm_id : forall v, no_empty_num v = true -> norm v = v.
Proof.
  induction v using value_ind'; intros Hn; try reflexivity.
  - destruct d; [discriminate | reflexivity].
  - cbn [norm]. f_equal. cbn [no_empty_num] in Hn. rewrite forallb_forall in Hn.
    rewrite Forall_forall in H. rewrite <- (map_id d) at 2. apply map_ext_in. intros x Hx. apply H; auto.
Qed.
Theorem value_json_roundtrip_exact : forall v, wf_shape v = true -> repr_ok v = true -> no_empty_num v = true ->
  (vdepth v <= 12)%nat -> of_json true (to_json true v) = Some (MV v None None).
Proof. intros v H1 H2 H3 H4. rewrite value_json_roundtrip by auto. rewrite norm_id by auto. reflexivity. Qed.

Definition elem_class (v : value) : nat :=
  match v with VNum _ _ | VByte _ _ => 0 | VCplx _ _ => 1 | VChar _ _ => 2 | VBox _ _ => 3 end%nat.
Lemma norm_shape v : shape_of (norm v) = shape_of v.
Proof. destruct v as [s [|? ?]| | | |]; reflexivity. Qed.
Lemma norm_class v : elem_class (norm v) = elem_class v.
Proof. destruct v as [s [|? ?]| | | |]; reflexivity. Qed.
Lemma norm_len v : data_len (norm v) = data_len v.
Proof. destruct v as [s [|? ?]| | | |]; cbn [norm data_len]; rewrite ?map_length; reflexivity. Qed.
