(** C19 proofs: the Loc computed by the lexer is the functional specification of its byte
    offset; emitted spans are ordered; make_span's asserts hold; merging is sound;
    refutations for the u16 limits and the escape/split-identifier arithmetic. *)
From Coq Require Import List NArith Bool Lia PeanoNat.
From UV Require Import Model.Lex.
Import ListNotations.
Open Scope N_scope.

(** * Character level: line_of / col_of after one more character *)
Lemma nlen_app {A} (a b : list A) : nlen (a ++ b) = nlen a + nlen b.
Proof. unfold nlen. rewrite app_length. lia. Qed.

Lemma line_of_snoc cs c : line_of (cs ++ [c]) = if is_nl c then line_of cs + 1 else line_of cs.
Proof.
  unfold line_of. rewrite filter_app, nlen_app. cbn [filter].
  destruct (is_nl c); cbn [nlen length]; unfold nlen; cbn [length]; lia.
Qed.

Lemma lrev_rev {A} (l : list A) : lrev l = rev l.
Proof. unfold lrev. symmetry. apply rev_alt. Qed.
Lemma last_line_eq cs : last_line cs = rev (take_while (fun c => negb (is_nl c)) (rev cs)).
Proof. unfold last_line. rewrite !lrev_rev. reflexivity. Qed.

Lemma last_line_snoc cs c : last_line (cs ++ [c]) = if is_nl c then [] else last_line cs ++ [c].
Proof.
  rewrite !last_line_eq. rewrite rev_app_distr. cbn [rev app take_while].
  destruct (is_nl c); cbn [negb]; [reflexivity|]. cbn [rev]. reflexivity.
Qed.

Lemma col_of_snoc cs c :
  col_of (cs ++ [c]) = if is_nl c then 1 else if is_cr c then col_of cs else col_of cs + 1.
Proof.
  unfold col_of. rewrite last_line_snoc. destruct (is_nl c) eqn:E; [reflexivity|].
  rewrite filter_app, nlen_app. cbn [filter]. destruct (is_cr c); cbn [negb]; unfold nlen; cbn [length]; lia.
Qed.

Definition st_ok (cs : list chr) (l : Loc) : Prop :=
  line l = N.min (line_of cs) U16MAX /\ col l = N.min (col_of cs) U16MAX.

Lemma line_of_pos cs : 1 <= line_of cs. Proof. unfold line_of. lia. Qed.
Lemma col_of_pos cs : 1 <= col_of cs. Proof. unfold col_of. lia. Qed.

Lemma upd_char_ok cs l c : st_ok cs l -> st_ok (cs ++ [c]) (upd_char l c) /\
  byte_pos (upd_char l c) = byte_pos l /\ char_pos (upd_char l c) = char_pos l.
Proof.
  intros [Hl Hc]. unfold st_ok, upd_char. rewrite line_of_snoc, col_of_snoc.
  destruct c as [n k]. unfold is_nl, is_cr. cbn [snd].
  destruct k; cbn [line col byte_pos char_pos]; unfold sat16, U16MAX in *; repeat split; try lia.
Qed.

Lemma fold_upd_ok seg : forall cs l, st_ok cs l ->
  st_ok (cs ++ seg) (fold_left upd_char seg l) /\
  byte_pos (fold_left upd_char seg l) = byte_pos l /\ char_pos (fold_left upd_char seg l) = char_pos l.
Proof.
  induction seg as [|c seg IH]; intros cs l H.
  - rewrite app_nil_r. cbn. auto.
  - cbn [fold_left]. destruct (upd_char_ok cs l c H) as (H1 & Hb & Hc).
    destruct (IH (cs ++ [c]) _ H1) as (H2 & Hb2 & Hc2).
    rewrite <- app_assoc in H2. cbn [app] in H2. repeat split; try apply H2; congruence.
Qed.

(** * Segment level *)
Lemma bytes_of_cons s r : bytes_of (s :: r) = seg_len s + bytes_of r.
Proof. reflexivity. Qed.
Lemma bytes_of_app a b : bytes_of (a ++ b) = bytes_of a + bytes_of b.
Proof. induction a as [|s a IH]; [reflexivity|]. cbn [app]. rewrite !bytes_of_cons, IH. lia. Qed.

Lemma update_loc_ok cs l seg : st_ok cs l ->
  byte_pos l + seg_len seg <= U32MAX -> char_pos l + 1 <= U32MAX ->
  st_ok (cs ++ seg) (update_loc l seg) /\
  byte_pos (update_loc l seg) = byte_pos l + seg_len seg /\
  char_pos (update_loc l seg) = char_pos l + 1.
Proof.
  intros H Hb Hc. destruct (fold_upd_ok seg cs l H) as ((H1 & H2) & _).
  unfold update_loc, st_ok. cbn [line col byte_pos char_pos]. unfold sat32, wrap32.
  rewrite N.mod_small by (unfold U32MAX in *; lia).
  repeat split; auto; unfold U32MAX in *; lia.
Qed.

Lemma fold_update_ok segs : forall cs l, st_ok cs l ->
  byte_pos l + bytes_of segs <= U32MAX -> char_pos l + nlen segs <= U32MAX ->
  let r := fold_left update_loc segs l in
  st_ok (cs ++ concat segs) r /\ byte_pos r = byte_pos l + bytes_of segs /\ char_pos r = char_pos l + nlen segs.
Proof.
  induction segs as [|s segs IH]; intros cs l H Hb Hc; cbn zeta.
  - cbn [concat fold_left bytes_of fold_right]. rewrite app_nil_r. unfold nlen. cbn [length]. repeat split; try apply H; lia.
  - rewrite bytes_of_cons in Hb. unfold nlen in Hc. cbn [length] in Hc.
    destruct (update_loc_ok cs l s H) as (H1 & Hb1 & Hc1); [lia|lia|].
    cbn [fold_left]. specialize (IH (cs ++ s) (update_loc l s) H1).
    cbn zeta in IH. destruct IH as (H2 & Hb2 & Hc2); [rewrite Hb1; lia | rewrite Hc1; unfold nlen; lia |].
    cbn [concat]. rewrite app_assoc. repeat split; try apply H2.
    + rewrite Hb2, Hb1, bytes_of_cons. lia.
    + rewrite Hc2, Hc1. unfold nlen. cbn [length]. lia.
Qed.

Lemma bytes_of_firstn_le i : forall k, bytes_of (firstn k i) <= bytes_of i.
Proof.
  induction i as [|s r IH]; intros [|k]; cbn [firstn]; try (cbn; lia).
  rewrite !bytes_of_cons. specialize (IH k). lia.
Qed.
Lemma nlen_firstn_le {A} (i : list A) k : nlen (firstn k i) <= nlen i.
Proof. unfold nlen. rewrite firstn_length. lia. Qed.

Definition fits32 (i : input) : Prop := bytes_of i <= U32MAX /\ nlen i <= U32MAX.

(** the lexer's Loc after k segments is the specification, with line/col saturated at 65535 *)
Theorem loc_at_sat_spec i k : fits32 i -> loc_at i k = sat_loc (spec_loc i k).
Proof.
  intros [Hb Hn]. unfold loc_at.
  assert (S0 : st_ok [] loc0) by (unfold st_ok; cbn; split; reflexivity).
  pose proof (fold_update_ok (firstn k i) [] loc0 S0) as H. cbn zeta in H.
  pose proof (bytes_of_firstn_le i k). pose proof (nlen_firstn_le i k).
  destruct H as ((Hl & Hc) & Hbp & Hcp); [cbn [byte_pos loc0]; lia | cbn [char_pos loc0]; lia |].
  cbn [app] in *. cbn [byte_pos char_pos loc0] in *.
  destruct (fold_left update_loc (firstn k i) loc0) as [l c b p]. cbn [line col byte_pos char_pos] in *.
  unfold sat_loc, spec_loc, chars_before. cbn [line col byte_pos char_pos]. subst. f_equal; lia.
Qed.

(** no line / column of any prefix exceeds u16::MAX *)
Definition fits16 (i : input) : Prop :=
  forall k, line_of (chars_before i k) <= U16MAX /\ col_of (chars_before i k) <= U16MAX.

Theorem loc_at_spec i k : fits32 i -> fits16 i -> loc_at i k = spec_loc i k.
Proof.
  intros H32 H16. rewrite loc_at_sat_spec by assumption. destruct (H16 k) as [Hl Hc].
  unfold sat_loc, spec_loc. cbn [line col byte_pos char_pos]. f_equal; lia.
Qed.

(** * Byte offsets determine the segment index *)
Definition segs_pos (i : input) : Prop := Forall (fun s => 0 < seg_len s) i.

Lemma find_prefix_ok i : segs_pos i -> forall k j, (k <= length i)%nat ->
  find_prefix i (bytes_of (firstn k i)) j = Some (j + k)%nat.
Proof.
  induction 1 as [|s r Hs Hr IH]; intros k j Hk.
  - destruct k; cbn in *; [f_equal; lia | lia].
  - destruct k as [|k].
    + cbn. f_equal. lia.
    + cbn [firstn length] in *. rewrite bytes_of_cons. cbn [find_prefix].
      destruct (seg_len s + bytes_of (firstn k r) =? 0) eqn:E0; [apply N.eqb_eq in E0; lia|].
      destruct (seg_len s <=? seg_len s + bytes_of (firstn k r)) eqn:E1; [|apply N.leb_gt in E1; lia].
      replace (seg_len s + bytes_of (firstn k r) - seg_len s) with (bytes_of (firstn k r)) by lia.
      rewrite IH by lia. f_equal. lia.
Qed.

Lemma loc_of_prefix_spec i k : segs_pos i -> (k <= length i)%nat ->
  loc_of_prefix i (byte_pos (spec_loc i k)) = Some (spec_loc i k).
Proof.
  intros Hp Hk. unfold loc_of_prefix. cbn [byte_pos spec_loc]. rewrite find_prefix_ok by assumption. reflexivity.
Qed.

(** * Reachable locations and the action semantics *)
Definition reach (i : input) (l : Loc) : Prop := exists k, (k <= length i)%nat /\ l = loc_at i k.

Lemma firstn_succ_nth {A} (i : list A) : forall k x, nth_error i k = Some x -> firstn (S k) i = firstn k i ++ [x].
Proof.
  induction i as [|y r IH]; intros [|k] x H; cbn in H; try discriminate.
  - inversion H. reflexivity.
  - change (firstn (S (S k)) (y :: r)) with (y :: firstn (S k) r). rewrite (IH k x H). reflexivity.
Qed.

Lemma loc_at_succ i k seg : nth_error i k = Some seg -> loc_at i (S k) = update_loc (loc_at i k) seg.
Proof. intros H. unfold loc_at. rewrite (firstn_succ_nth i k seg H), fold_left_app. reflexivity. Qed.

Lemma nlen_firstn {A} (i : list A) k : (k <= length i)%nat -> nlen (firstn k i) = N.of_nat k.
Proof. intros. unfold nlen. rewrite firstn_length_le by assumption. reflexivity. Qed.

Lemma char_pos_loc_at i k : fits32 i -> (k <= length i)%nat -> char_pos (loc_at i k) = N.of_nat k.
Proof. intros H Hk. rewrite loc_at_sat_spec by assumption. cbn. apply nlen_firstn. assumption. Qed.

Definition span_reach (i : input) (se : span) : Prop := reach i (fst se) /\ reach i (snd se).

Record inv (i : input) (st : lexer) : Prop := {
  inv_cur : reach i (cur st);
  inv_hist : Forall (reach i) (hist st);
  inv_floor : reach i (floor st);
  inv_toks : Forall (span_reach i) (toks st);
  inv_errs : Forall (span_reach i) (errs st)
}.

Lemma nth_error_Forall {A} (P : A -> Prop) l n x : Forall P l -> nth_error l n = Some x -> P x.
Proof. intros H E. rewrite Forall_forall in H. apply H. eapply nth_error_In; eauto. Qed.

Lemma step_inv i st a : fits32 i -> is_split a = false -> inv i st -> inv i (step i st a).
Proof.
  intros H32 Hs [Hc Hh Hf Ht He]. destruct a; cbn [step]; try discriminate.
  - destruct (nth_error i (N.to_nat (char_pos (cur st)))) eqn:E; [|constructor; assumption].
    destruct Hc as (k & Hk & Hck). rewrite Hck, char_pos_loc_at, Nnat.Nat2N.id in E by assumption.
    assert (R : reach i (update_loc (cur st) s)).
    assert (Hlt : (k < length i)%nat) by (apply nth_error_Some; congruence).
    { exists (S k). split; [lia|]. rewrite Hck. symmetry. apply loc_at_succ. assumption. }
    constructor; cbn; auto.
  - destruct (nth_error (hist st) i0) eqn:E; [|constructor; assumption].
    pose proof (nth_error_Forall _ _ _ _ Hh E). constructor; cbn; auto.
  - destruct (nth_error (hist st) i0) eqn:E; [|constructor; assumption].
    pose proof (nth_error_Forall _ _ _ _ Hh E). constructor; cbn; auto.
    constructor; auto. split; auto.
  - destruct (nth_error (hist st) i0) eqn:E; [|constructor; assumption].
    pose proof (nth_error_Forall _ _ _ _ Hh E). constructor; cbn; auto.
    constructor; auto. split; auto.
Qed.

Lemma inv0 i : inv i lexer0.
Proof.
  assert (reach i loc0) by (exists 0%nat; split; [lia | reflexivity]).
  constructor; cbn; auto.
Qed.

Lemma run_inv_from i acts : fits32 i -> split_free acts = true -> forall st, inv i st -> inv i (fold_left (step i) acts st).
Proof.
  intros H32. induction acts as [|a acts IH]; intros Hs st Hi; cbn [fold_left]; [assumption|].
  cbn [split_free forallb] in Hs. apply andb_prop in Hs. destruct Hs as [Ha Hs].
  apply IH; [exact Hs|]. apply step_inv; auto. destruct (is_split a); [discriminate | reflexivity].
Qed.

Lemma run_inv i acts : fits32 i -> split_free acts = true -> inv i (run i acts).
Proof. intros. apply run_inv_from; auto. apply inv0. Qed.

(** every Loc the lexer produces (current position, token and error span ends) is the
    specified Loc of its own byte offset, and that offset is a segment boundary *)
Definition produced (st : lexer) (l : Loc) : Prop :=
  l = cur st \/ In l (hist st) \/ (exists se, In se (toks st ++ errs st) /\ (l = fst se \/ l = snd se)).

Lemma reach_spec i l : fits32 i -> fits16 i -> segs_pos i -> reach i l ->
  loc_of_prefix i (byte_pos l) = Some l /\ exists k, (k <= length i)%nat /\ byte_pos l = bytes_of (firstn k i).
Proof.
  intros H32 H16 Hp (k & Hk & ->). rewrite loc_at_spec by assumption. split.
  - apply loc_of_prefix_spec; assumption.
  - exists k. split; [assumption | reflexivity].
Qed.

Theorem loc_spec i acts l : fits32 i -> fits16 i -> segs_pos i -> split_free acts = true ->
  produced (run i acts) l ->
  loc_of_prefix i (byte_pos l) = Some l /\ exists k, (k <= length i)%nat /\ byte_pos l = bytes_of (firstn k i).
Proof.
  intros H32 H16 Hp Hs Hl. apply reach_spec; auto.
  destruct (run_inv i acts H32 Hs) as [Hc Hh Hf Ht He].
  destruct Hl as [-> | [Hin | (se & Hin & Hse)]]; auto.
  - rewrite Forall_forall in Hh. auto.
  - apply in_app_or in Hin. rewrite Forall_forall in Ht, He.
    destruct Hin as [Hin | Hin]; [apply Ht in Hin | apply He in Hin]; destruct Hin, Hse; subst; auto.
Qed.

(** * Monotonicity of specified locations; make_span's asserts; ordering of tokens *)
Lemma firstn_le_app {A} (i : list A) : forall k1 k2, (k1 <= k2)%nat -> exists ext, firstn k2 i = firstn k1 i ++ ext.
Proof.
  induction i as [|x r IH]; intros k1 k2 H.
  - exists []. rewrite !firstn_nil. reflexivity.
  - destruct k1 as [|k1]; [exists (firstn k2 (x :: r)); reflexivity|].
    destruct k2 as [|k2]; [lia|]. destruct (IH k1 k2) as (ext & E); [lia|].
    exists ext. cbn [firstn app]. rewrite E. reflexivity.
Qed.

Lemma line_of_app a b : line_of (a ++ b) = line_of a + nlen (filter is_nl b).
Proof. unfold line_of. rewrite filter_app, nlen_app. lia. Qed.

Lemma last_line_app_nonl a b : filter is_nl b = [] -> last_line (a ++ b) = last_line a ++ b.
Proof.
  induction b as [|c b IH] using rev_ind; intros H.
  - rewrite !app_nil_r. reflexivity.
  - rewrite filter_app in H. apply app_eq_nil in H. destruct H as [Hb Hc].
    cbn [filter] in Hc. destruct (is_nl c) eqn:E; [discriminate|].
    rewrite app_assoc, last_line_snoc, E, IH by assumption. rewrite app_assoc. reflexivity.
Qed.

Lemma nlen_zero {A} (l : list A) : nlen l = 0 -> l = [].
Proof. destruct l; [reflexivity|]. unfold nlen. cbn [length]. lia. Qed.

Lemma spec_mono i k1 k2 : (k1 <= k2)%nat -> (k2 <= length i)%nat ->
  make_span_ok (spec_loc i k1) (spec_loc i k2) = true /\ byte_pos (spec_loc i k1) <= byte_pos (spec_loc i k2) /\
  line (spec_loc i k1) <= line (spec_loc i k2).
Proof.
  intros H12 H2. destruct (firstn_le_app i k1 k2 H12) as (ext & E).
  assert (Hb : bytes_of (firstn k1 i) <= bytes_of (firstn k2 i)) by (rewrite E, bytes_of_app; lia).
  split; [|split; [exact Hb | cbn [line spec_loc]; unfold chars_before; rewrite E, concat_app, line_of_app; lia]]. unfold make_span_ok, spec_loc. cbn [line col byte_pos char_pos].
  rewrite !nlen_firstn by lia. unfold chars_before. rewrite E, concat_app.
  set (a := concat (firstn k1 i)). set (b := concat ext).
  rewrite !andb_true_iff, orb_true_iff. repeat split; try (apply N.leb_le; rewrite ?bytes_of_app; lia).
  rewrite line_of_app. destruct (N.eq_dec (nlen (filter is_nl b)) 0) as [Z|NZ].
  - left. apply N.leb_le. unfold col_of. rewrite (last_line_app_nonl a b (nlen_zero _ Z)), filter_app, nlen_app. lia.
  - right. apply N.ltb_lt. lia.
Qed.

Lemma reach_mono i s e : fits32 i -> fits16 i -> reach i s -> reach i e -> char_pos s <= char_pos e ->
  make_span_ok s e = true /\ byte_pos s <= byte_pos e /\ line s <= line e.
Proof.
  intros H32 H16 (ks & Hks & ->) (ke & Hke & ->) Hc.
  rewrite !char_pos_loc_at in Hc by assumption. rewrite !loc_at_spec by assumption.
  apply spec_mono; lia.
Qed.

Lemma ordered_snoc l : forall lo hi s e, ordered lo l = true ->
  (forall se, In se l -> byte_pos (snd se) <= hi) -> lo <= hi -> hi <= byte_pos s -> byte_pos s <= byte_pos e ->
  ordered lo (l ++ [(s, e)]) = true.
Proof.
  induction l as [|[s0 e0] r IH]; intros lo hi s e Ho Hin Hlo Hs He.
  - cbn. rewrite !andb_true_iff. repeat split; apply N.leb_le; lia.
  - cbn [app ordered] in *. rewrite !andb_true_iff in *. destruct Ho as [[H1 H2] H3].
    repeat split; auto. apply (IH (byte_pos e0) hi); auto.
    + intros se Hse. apply Hin. right. assumption.
    + apply (Hin (s0, e0)). left. reflexivity.
Qed.

Record inv2 (st : lexer) : Prop := {
  inv_asserts : asserts st = true;
  inv_ordered : ordered 0 (rev (toks st)) = true;
  inv_ends : forall se, In se (toks st) -> byte_pos (snd se) <= byte_pos (floor st);
  inv_chars : forall se, In se (toks st) -> char_pos (fst se) <= char_pos (snd se)
}.

Lemma step_inv2 i st a : fits32 i -> fits16 i -> is_split a = false -> inv i st ->
  (disc st = true -> inv2 st) -> disc (step i st a) = true -> inv2 (step i st a).
Proof.
  intros H32 H16 Hs [Hc Hh Hf Ht He] H2 Hd. destruct a; cbn [step] in *; try discriminate.
  - destruct (nth_error i (N.to_nat (char_pos (cur st)))); [|auto].
    cbn [disc] in Hd. destruct (H2 Hd) as [A O E CH]. constructor; cbn; auto.
  - destruct (nth_error (hist st) i0); [|auto]. cbn [disc] in Hd. apply andb_prop in Hd. destruct Hd as [Hd _].
    destruct (H2 Hd) as [A O E CH]. constructor; cbn; auto.
  - destruct (nth_error (hist st) i0) eqn:En; [|auto].
    pose proof (nth_error_Forall _ _ _ _ Hh En) as Rs.
    cbn [disc] in Hd. rewrite !andb_true_iff, !N.leb_le in Hd. destruct Hd as [[Hd Hfl] Hsc].
    destruct (H2 Hd) as [A O E CH].
    destruct (reach_mono i l (cur st) H32 H16 Rs Hc Hsc) as (M1 & M2 & _).
    destruct (reach_mono i (floor st) l H32 H16 Hf Rs Hfl) as (_ & M3 & _).
    constructor; cbn [asserts toks floor].
    + rewrite A, M1. reflexivity.
    + cbn [rev]. apply (ordered_snoc _ 0 (byte_pos (floor st))); auto; try lia.
      intros se Hse. apply E. apply in_rev. assumption.
    + intros se [<- | Hse]; cbn [snd]; [lia|]. specialize (E se Hse). lia.
    + intros se [<- | Hse]; cbn [fst snd]; auto.
  - destruct (nth_error (hist st) i0) eqn:En; [|auto].
    pose proof (nth_error_Forall _ _ _ _ Hh En) as Rs.
    cbn [disc] in Hd. rewrite !andb_true_iff, !N.leb_le in Hd. destruct Hd as [Hd Hsc].
    destruct (H2 Hd) as [A O E CH].
    destruct (reach_mono i l (cur st) H32 H16 Rs Hc Hsc) as (M1 & M2 & _).
    constructor; cbn [asserts toks floor]; auto. rewrite A, M1. reflexivity.
Qed.

Lemma run_inv2_from i acts : fits32 i -> fits16 i -> split_free acts = true -> forall st, inv i st ->
  (disc st = true -> inv2 st) -> disc (fold_left (step i) acts st) = true -> inv2 (fold_left (step i) acts st).
Proof.
  intros H32 H16. induction acts as [|a acts IH]; intros Hs st Hi H2 Hd; cbn [fold_left] in *; [auto|].
  cbn [split_free forallb] in Hs. apply andb_prop in Hs. destruct Hs as [Ha Hs].
  assert (Ha' : is_split a = false) by (destruct (is_split a); [discriminate | reflexivity]).
  apply IH; auto.
  - apply step_inv; auto.
  - intros Hd'. apply step_inv2; auto.
Qed.

(** for every control path that respects the index discipline: no assert! of make_span fails *)
Theorem lexer_asserts_hold i acts : fits32 i -> fits16 i -> split_free acts = true ->
  disc (run i acts) = true -> asserts (run i acts) = true.
Proof.
  intros H32 H16 Hs Hd. apply (run_inv2_from i acts H32 H16 Hs lexer0 (inv0 i)); auto.
  intros _. constructor; cbn; auto; intros se [].
Qed.

(** ... and the tokens, in emission order, have start <= end and are ordered and non-overlapping *)
Theorem spans_ordered i acts : fits32 i -> fits16 i -> split_free acts = true ->
  disc (run i acts) = true -> ordered 0 (rev (toks (run i acts))) = true.
Proof.
  intros H32 H16 Hs Hd. apply (run_inv2_from i acts H32 H16 Hs lexer0 (inv0 i)); auto.
  intros _. constructor; cbn; auto; intros se [].
Qed.

(** * Span merging *)
Lemma make_span_ok_prop s e : make_span_ok s e = true ->
  char_pos s <= char_pos e /\ byte_pos s <= byte_pos e /\ (col s <= col e \/ line s < line e).
Proof.
  unfold make_span_ok. rewrite !andb_true_iff, orb_true_iff, !N.leb_le, N.ltb_lt. tauto.
Qed.

Lemma cmp_reach_le i x y : fits32 i -> fits16 i -> reach i x -> reach i y ->
  char_pos x <= char_pos y -> loc_cmp x y <> Gt.
Proof.
  intros H32 H16 Rx Ry Hc. destruct (reach_mono i x y H32 H16 Rx Ry Hc) as (M & Hb & Hl).
  apply make_span_ok_prop in M. destruct M as (_ & _ & Hcl). unfold loc_cmp.
  destruct (N.compare_spec (line x) (line y)); try discriminate; [|lia].
  destruct (N.compare_spec (col x) (col y)); try discriminate; [|lia].
  destruct (N.compare_spec (byte_pos x) (byte_pos y)); try discriminate; [|lia].
  destruct (N.compare_spec (char_pos x) (char_pos y)); try discriminate. lia.
Qed.

Lemma cmp_reach_gt i x y : fits32 i -> fits16 i -> reach i x -> reach i y ->
  char_pos y < char_pos x -> loc_cmp x y = Gt.
Proof.
  intros H32 H16 Rx Ry Hc. destruct (reach_mono i y x H32 H16 Ry Rx) as (M & Hb & Hl); [lia|].
  apply make_span_ok_prop in M. destruct M as (_ & _ & Hcl). unfold loc_cmp.
  destruct (N.compare_spec (line x) (line y)); try reflexivity; [|lia].
  destruct (N.compare_spec (col x) (col y)); try reflexivity; [|lia].
  destruct (N.compare_spec (byte_pos x) (byte_pos y)); try reflexivity; [|lia].
  destruct (N.compare_spec (char_pos x) (char_pos y)); try reflexivity; lia.
Qed.

Lemma loc_min_reach i x y : fits32 i -> fits16 i -> reach i x -> reach i y ->
  reach i (loc_min x y) /\ char_pos (loc_min x y) = N.min (char_pos x) (char_pos y).
Proof.
  intros H32 H16 Rx Ry. unfold loc_min. destruct (N.le_gt_cases (char_pos x) (char_pos y)) as [H|H].
  - pose proof (cmp_reach_le i x y H32 H16 Rx Ry H). destruct (loc_cmp x y); try congruence; split; auto; lia.
  - rewrite (cmp_reach_gt i x y H32 H16 Rx Ry H). split; auto; lia.
Qed.

Lemma loc_max_reach i x y : fits32 i -> fits16 i -> reach i x -> reach i y ->
  reach i (loc_max x y) /\ char_pos (loc_max x y) = N.max (char_pos x) (char_pos y).
Proof.
  intros H32 H16 Rx Ry. unfold loc_max. destruct (N.le_gt_cases (char_pos x) (char_pos y)) as [H|H].
  - pose proof (cmp_reach_le i x y H32 H16 Rx Ry H). destruct (loc_cmp x y); try congruence; split; auto; lia.
  - rewrite (cmp_reach_gt i x y H32 H16 Rx Ry H). split; auto; lia.
Qed.

(** a span of the source: both ends are specified locations and start is not after end *)
Definition valid_span (i : input) (a : span) : Prop :=
  reach i (fst a) /\ reach i (snd a) /\ char_pos (fst a) <= char_pos (snd a).

Lemma valid_span_props i a : fits32 i -> fits16 i -> segs_pos i -> valid_span i a ->
  loc_of_prefix i (byte_pos (fst a)) = Some (fst a) /\ loc_of_prefix i (byte_pos (snd a)) = Some (snd a) /\
  byte_pos (fst a) <= byte_pos (snd a) /\ byte_pos (snd a) <= bytes_of i.
Proof.
  intros H32 H16 Hp (Rs & Re & Hc).
  destruct (reach_spec i _ H32 H16 Hp Rs) as [S1 _]. destruct (reach_spec i _ H32 H16 Hp Re) as (S2 & k & Hk & Hb).
  destruct (reach_mono i _ _ H32 H16 Rs Re Hc) as (_ & M & _).
  repeat split; auto. rewrite Hb. apply bytes_of_firstn_le.
Qed.

Theorem merge_sound i a b : fits32 i -> fits16 i -> valid_span i a -> valid_span i b -> valid_span i (merge a b).
Proof.
  intros H32 H16 (As & Ae & Ac) (Bs & Be & Bc). unfold merge, valid_span. cbn [fst snd].
  destruct (loc_min_reach i (fst a) (fst b) H32 H16 As Bs) as [R1 C1].
  destruct (loc_max_reach i (snd a) (snd b) H32 H16 Ae Be) as [R2 C2].
  repeat split; auto. rewrite C1, C2. lia.
Qed.

Theorem end_to_sound i a b : valid_span i a -> valid_span i b -> char_pos (snd a) <= char_pos (fst b) ->
  valid_span i (end_to a b).
Proof. intros (_ & Ae & _) (Bs & _ & _) H. unfold end_to, valid_span. cbn [fst snd]. auto. Qed.

(** token spans produced by the lexer are valid spans *)
Theorem lexer_spans_valid i acts se : fits32 i -> fits16 i -> split_free acts = true ->
  disc (run i acts) = true -> In se (toks (run i acts)) -> valid_span i se.
Proof.
  intros H32 H16 Hs Hd Hin.
  destruct (run_inv i acts H32 Hs) as [_ _ _ Ht _]. rewrite Forall_forall in Ht. destruct (Ht se Hin) as [R1 R2].
  repeat split; auto.
  assert (I2 : inv2 (run i acts)).
  { apply (run_inv2_from i acts H32 H16 Hs lexer0 (inv0 i)); auto. intros _. constructor; cbn; auto; intros x []. }
  destruct I2 as [_ _ _ CH]. auto.
Qed.

(** * The size guard of `lex` excludes saturation *)
Definition notcr (c : chr) : bool := negb (is_cr c).

Lemma take_while_stop {A} (f : A -> bool) a c b : f c = false -> take_while f (a ++ c :: b) = take_while f a.
Proof.
  intros H. induction a as [|x a IH]; cbn [app take_while]; [rewrite H; reflexivity|].
  destruct (f x); [rewrite IH|]; reflexivity.
Qed.

Lemma last_line_after_nl x c y : is_nl c = true -> last_line (x ++ c :: y) = last_line y.
Proof.
  intros H. rewrite !last_line_eq. rewrite rev_app_distr. cbn [rev]. rewrite <- app_assoc. cbn [app].
  rewrite take_while_stop by (rewrite H; reflexivity). reflexivity.
Qed.

Lemma filter_len_le {A} (g : A -> bool) l : (length (filter g l) <= length l)%nat.
Proof. induction l as [|a l IH]; cbn [filter length]; [lia|]. destruct (g a); cbn [length]; lia. Qed.
Lemma filter_rev_len {A} (g : A -> bool) (l : list A) : length (filter g (rev l)) = length (filter g l).
Proof.
  induction l as [|a l IH]; cbn [rev filter]; [reflexivity|].
  rewrite filter_app, app_length, IH. cbn [filter]. destruct (g a); cbn [length]; lia.
Qed.
Lemma filter_take_while_len {A} (g f : A -> bool) (l : list A) :
  (length (filter g (take_while f l)) <= length (filter g l))%nat.
Proof.
  induction l as [|a l IH]; cbn [take_while filter]; [lia|].
  destruct (f a); cbn [filter]; destruct (g a); cbn [length]; lia.
Qed.
Lemma last_line_filter_le g x : nlen (filter g (last_line x)) <= nlen (filter g x).
Proof.
  rewrite last_line_eq. unfold nlen. rewrite filter_rev_len.
  pose proof (filter_take_while_len g (fun c => negb (is_nl c)) (rev x)) as H. rewrite filter_rev_len in H. lia.
Qed.

Lemma strip_cr_len cur : (length (filter notcr cur) <= length (strip_cr cur))%nat.
Proof.
  destruct cur as [|x cur']; [cbn; lia|]. unfold strip_cr. cbn [filter]. unfold notcr at 1.
  destruct (is_cr x); cbn [negb].
  - apply filter_len_le.
  - pose proof (filter_len_le notcr cur'). cbn [length]. lia.
Qed.

Lemma guard_cur_bound M cs : forall cur, forallb (fun l => nlen l <=? M) (guard_lines cs cur) = true ->
  nlen (filter notcr cur) <= M.
Proof.
  induction cs as [|c r IH]; intros cur H; cbn [guard_lines] in H.
  - destruct cur as [|x cur']; [cbn; lia|]. cbn [forallb] in H. rewrite andb_true_r in H. apply N.leb_le in H.
    unfold nlen in *. rewrite lrev_rev, rev_length in H. pose proof (strip_cr_len (x :: cur')). lia.
  - destruct (is_nl c).
    + cbn [forallb] in H. apply andb_prop in H. destruct H as [H _]. apply N.leb_le in H.
      unfold nlen in *. rewrite lrev_rev, rev_length in H. pose proof (strip_cr_len cur). lia.
    + specialize (IH (c :: cur) H). cbn [filter] in IH. destruct (notcr c); unfold nlen in *; cbn [length] in IH; lia.
Qed.

Lemma guard_col_bound M cs : forall cur p q, cs = p ++ q ->
  forallb (fun l => nlen l <=? M) (guard_lines cs cur) = true ->
  nlen (filter notcr (last_line (rev cur ++ p))) <= M.
Proof.
  induction cs as [|c r IH]; intros cur p q E H.
  - destruct p; [|discriminate]. rewrite app_nil_r.
    pose proof (last_line_filter_le notcr (rev cur)) as L. pose proof (guard_cur_bound M [] cur H) as B.
    unfold nlen in *. rewrite filter_rev_len in L. lia.
  - destruct p as [|c' p'].
    + rewrite app_nil_r.
      pose proof (last_line_filter_le notcr (rev cur)) as L. pose proof (guard_cur_bound M (c :: r) cur H) as B.
      unfold nlen in *. rewrite filter_rev_len in L. lia.
    + cbn [app] in E. injection E as <- ->. cbn [guard_lines] in H. destruct (is_nl c) eqn:En.
      * rewrite last_line_after_nl by assumption. cbn [forallb] in H. apply andb_prop in H. destruct H as [_ H].
        apply (IH [] p' q eq_refl H).
      * replace (rev cur ++ c :: p') with (rev (c :: cur) ++ p') by (cbn [rev]; rewrite <- app_assoc; reflexivity).
        apply (IH (c :: cur) p' q eq_refl H).
Qed.

Lemma guard_lines_count cs : forall cur, nlen (filter is_nl cs) <= nlen (guard_lines cs cur).
Proof.
  induction cs as [|c r IH]; intros cur; cbn [filter guard_lines]; [unfold nlen; cbn [length]; lia|].
  destruct (is_nl c).
  - specialize (IH []). unfold nlen in *. cbn [length]. lia.
  - apply IH.
Qed.

(** every input accepted by the guard has all line numbers and columns representable *)
Theorem guard_excludes_saturation i : accepted i = true -> fits16 i.
Proof.
  unfold accepted, guard_ok. intros H. apply andb_prop in H. destruct H as [Hn Hl]. apply N.leb_le in Hn.
  intros k. unfold chars_before.
  assert (E : concat i = concat (firstn k i) ++ concat (skipn k i)) by (rewrite <- concat_app, firstn_skipn; reflexivity).
  split.
  - unfold line_of. pose proof (guard_lines_count (concat i) []) as C. rewrite E in C at 1.
    rewrite filter_app, nlen_app in C. unfold GUARD_MAX, U16MAX in *. lia.
  - unfold col_of. pose proof (guard_col_bound GUARD_MAX (concat i) [] _ _ E Hl) as C. cbn [rev app] in C.
    unfold notcr in C. unfold GUARD_MAX, U16MAX in *. lia.
Qed.

(** so the specification theorem holds for every accepted input without the fits16 premise *)
Corollary loc_spec_guarded i acts l : fits32 i -> accepted i = true -> segs_pos i -> split_free acts = true ->
  produced (run i acts) l ->
  loc_of_prefix i (byte_pos l) = Some l /\ exists k, (k <= length i)%nat /\ byte_pos l = bytes_of (firstn k i).
Proof. intros H32 Ha. apply loc_spec; auto. apply guard_excludes_saturation. assumption. Qed.

Corollary lexer_asserts_hold_guarded i acts : fits32 i -> accepted i = true -> split_free acts = true ->
  disc (run i acts) = true -> asserts (run i acts) = true.
Proof. intros H32 Ha. apply lexer_asserts_hold; auto. apply guard_excludes_saturation. assumption. Qed.

(** * Refutations (witnesses confirmed on the implementation by harness/src/bin/c19.rs) *)
Definition seg_a : segment := [(1, COther)].
Definition seg_nl : segment := [(1, CNl)].

(** The two records below are about the UNGUARDED bookkeeping (update_loc / make_span alone); since the
    repair of the guard (e843625) both witnesses are rejected by `lex` before the tokeniser runs:
    see [pre_witnesses_rejected].
    u16 saturation: one line of 65536 one-byte characters; the column after it is 65537 but
    the lexer reports 65535.  (Design limit of the Loc format; known finding loc-u16-saturation.) *)
Definition long_line : input := N.iter 65536 (cons seg_a) [].
Theorem saturation_refuted_pre :
  exists i, fits32 i /\ col (loc_at i (length i)) <> col (spec_loc i (length i)).
Proof.
  exists long_line. split; [split|].
  - vm_compute. discriminate.
  - vm_compute. discriminate.
  - vm_compute. discriminate.
Qed.

(** the third assert! of make_span fails inside the limits accepted by the guard of `lex`
    (lex.rs:53-83 accepts 65536 lines): 65534 line breaks, "a", line break.  The Newline token
    starts at 65535:2 and ends at 65536:1, which saturates to 65535:1. *)
Definition many_lines : input := N.iter 65534 (cons seg_nl) [seg_a; seg_nl].
Theorem line_saturation_assert_refuted_pre :
  exists i k1 k2, fits32 i /\ Nat.leb k1 k2 = true /\ Nat.leb k2 (length i) = true /\
    make_span_ok (loc_at i k1) (loc_at i k2) = false.
Proof.
  exists many_lines, (N.to_nat 65535), (N.to_nat 65536). split; [split|split; [|split]].
  - vm_compute. discriminate.
  - vm_compute. discriminate.
  - vm_compute. reflexivity.
  - vm_compute. reflexivity.
  - vm_compute. reflexivity.
Qed.

Lemma pre_witnesses_rejected : accepted long_line = false /\ accepted many_lines = false.
Proof. split; vm_compute; reflexivity. Qed.

(** BEFORE d7485e2: the arithmetic of the split-identifier path (lex.rs:1437-1453 at 54c7366) is applied to the text AFTER
    escape replacement: `\\pi` is four one-byte segments, the identifier text is "π"
    (1 char, 2 bytes), so the Pi token ends at (byte 2, char 1, col 2) although byte 2 is
    char 2, col 3 — and the two bytes "pi" are in no token. *)
Definition esc_pi : input := [seg_a; seg_a; seg_a; seg_a].
Definition esc_pi_acts : list action := [AConsume; AConsume; AConsume; AConsume; ASplit 4 [] (1, 2) false].
Theorem escape_split_refuted_pre :
  exists i acts, fits32 i /\ disc (run i acts) = true /\ asserts (run i acts) = true /\
    exists t, In t (toks (run i acts)) /\ loc_of_prefix i (byte_pos (snd t)) <> Some (snd t).
Proof.
  exists esc_pi, esc_pi_acts. split; [split|split; [|split]].
  - vm_compute. discriminate.
  - vm_compute. discriminate.
  - vm_compute. reflexivity.
  - vm_compute. reflexivity.
  - exists (loc0, mkLoc 1 2 2 1). split; [vm_compute; auto | vm_compute; discriminate].
Qed.

(** * The formatter's end_loc (output side of the glyph map) *)
(** current code: the column is the true column clamped at u16::MAX — exact whenever the line
    of the formatted text has at most 65535 characters, and never beyond the true place *)
Theorem end_loc_col_clamped cs :
  col (end_loc true cs) = N.min (out_true_col cs) U16MAX /\
  col (end_loc true cs) <= out_true_col cs /\
  (out_true_col cs <= U16MAX -> col (end_loc true cs) = out_true_col cs).
Proof. unfold end_loc. cbn [col]. repeat split; lia. Qed.

Theorem end_loc_others_exact fixed cs :
  nlen (filter is_nl cs) <= U16MAX -> nlen cs <= U32MAX -> seg_len cs <= U32MAX ->
  line (end_loc fixed cs) = nlen (filter is_nl cs) /\ char_pos (end_loc fixed cs) = nlen cs /\
  byte_pos (end_loc fixed cs) = seg_len cs.
Proof.
  intros Hl Hc Hb. unfold end_loc, wrap16, wrap32, seg_len in *. cbn [line char_pos byte_pos].
  unfold U16MAX, U32MAX in *. rewrite !N.mod_small by lia. repeat split.
Qed.

Definition out_long_line : list chr := N.iter 65536 (cons (1, COther)) [].

(** before 54c7366: a formatted line of 65536 characters ends at column 0 *)
Theorem end_loc_wrap_refuted_pre :
  exists cs, out_true_col cs = 65536 /\ col (end_loc false cs) = 0.
Proof. exists out_long_line. split; vm_compute; reflexivity. Qed.

(** current code on the same text: the column no longer wraps, but it is clamped to 65535 and
    so still differs from the true column (remaining 16-bit limit of the output side) *)
Theorem end_loc_saturation_refuted :
  exists cs, col (end_loc true cs) = 65535 /\ col (end_loc true cs) <> out_true_col cs.
Proof. exists out_long_line. split; vm_compute; [reflexivity | discriminate]. Qed.

(** BEFORE d7485e2, combining mark: "r" + U+0301 is ONE segment of 2 chars / 3 bytes; `lowercase`
    was "r" (1 char, 1 byte), so a token ended at (byte 1, char 1), inside the segment. *)
Definition comb_r : input := [[(1, COther); (2, COther)]].
Theorem combining_split_refuted_pre :
  exists i acts, fits32 i /\ disc (run i acts) = true /\
    exists t, In t (toks (run i acts)) /\ loc_of_prefix i (byte_pos (snd t)) = None.
Proof.
  exists comb_r, [AConsume; ASplit 1 [] (1, 1) true]. split; [split; vm_compute; discriminate|].
  split; [vm_compute; reflexivity|].
  exists (loc0, mkLoc 1 2 1 1). split; vm_compute; auto.
Qed.

(** * The split-identifier path of the current code (d7485e2): tokens are pairs of earlier
      values of self.loc, i.e. the primitive action sequence [split_actions] *)
Lemma split_emits_free ends : forall prev, split_free (fst (split_emits prev ends)) = true.
Proof.
  induction ends as [|j r IH]; intros prev; cbn [split_emits]; [reflexivity|].
  specialize (IH j). destruct (split_emits j r) as [a last]. cbn [fst] in *. cbn. exact IH.
Qed.

Lemma split_free_app a b : split_free (a ++ b) = split_free a && split_free b.
Proof. unfold split_free. apply forallb_app. Qed.

Lemma split_actions_free i0 ends c rest : split_free (split_actions i0 ends c rest) = true.
Proof.
  unfold split_actions. pose proof (split_emits_free ends i0) as H.
  destruct (split_emits i0 ends) as [a last]. cbn [fst] in H. rewrite split_free_app, H.
  destruct rest; reflexivity.
Qed.

(** every token of a split identifier (and everything before it) is a valid span of the
    original text: both ends are the specified Loc of a segment boundary, start <= end *)
Theorem split_tokens_valid i pre i0 ends c rest se : fits32 i -> fits16 i -> split_free pre = true ->
  disc (run i (pre ++ split_actions i0 ends c rest)) = true ->
  In se (toks (run i (pre ++ split_actions i0 ends c rest))) -> valid_span i se.
Proof.
  intros H32 H16 Hp Hd Hin. apply (lexer_spans_valid i (pre ++ split_actions i0 ends c rest)); auto.
  rewrite split_free_app, Hp, split_actions_free. reflexivity.
Qed.

Corollary split_tokens_valid_guarded i pre i0 ends c rest se : fits32 i -> accepted i = true -> split_free pre = true ->
  disc (run i (pre ++ split_actions i0 ends c rest)) = true ->
  In se (toks (run i (pre ++ split_actions i0 ends c rest))) -> valid_span i se.
Proof. intros H32 Ha. apply split_tokens_valid; auto. apply guard_excludes_saturation. assumption. Qed.

(** the former failing inputs under the current code: `\\pi` is one Pi token over all four
    bytes; "r" + U+0301 is one identifier token over the whole segment *)
Theorem escape_split_current :
  let acts := [AConsume; AConsume; AConsume; AConsume] ++ split_actions 4 [0%nat] 0 false in
  disc (run esc_pi acts) = true /\ asserts (run esc_pi acts) = true /\
  toks (run esc_pi acts) = [(loc0, mkLoc 1 5 4 4)] /\ forallb (span_ok esc_pi) (toks (run esc_pi acts)) = true.
Proof. vm_compute. repeat split. Qed.
Theorem combining_split_current :
  let acts := [AConsume] ++ split_actions 1 [] 0 true in
  disc (run comb_r acts) = true /\ toks (run comb_r acts) = [(loc0, mkLoc 1 3 3 1)] /\
  forallb (span_ok comb_r) (toks (run comb_r acts)) = true.
Proof. vm_compute. repeat split. Qed.


(** * end_loc is compositional: the law behind Formatter::push *)
Lemma last_line_app_nl s t : filter is_nl t <> [] -> last_line (s ++ t) = last_line t.
Proof.
  induction t as [|c t IH] using rev_ind; intros H; [exfalso; apply H; reflexivity|].
  rewrite app_assoc, !last_line_snoc. destruct (is_nl c) eqn:E; [reflexivity|].
  rewrite IH; [reflexivity|]. intros Z. apply H. rewrite filter_app, Z. cbn [filter]. rewrite E. reflexivity.
Qed.

(** the column after [s ++ t] RESTARTS after the last line break of [t]; only when [t] has no
    line break do the columns add up *)
Theorem out_true_col_app s t :
  out_true_col (s ++ t) = if existsb is_nl t then out_true_col t else out_true_col s + out_true_col t.
Proof.
  unfold out_true_col. destruct (existsb is_nl t) eqn:E.
  - rewrite last_line_app_nl; [reflexivity|]. intros Z. apply existsb_exists in E. destruct E as (x & Hx & Hn).
    assert (In x (filter is_nl t)) by (apply filter_In; auto). rewrite Z in H. destruct H.
  - assert (Z : filter is_nl t = []).
    { induction t as [|c t IH]; [reflexivity|]. cbn [existsb] in E. apply orb_false_iff in E. destruct E as [Ec Et].
      cbn [filter]. rewrite Ec. auto. }
    rewrite (last_line_app_nonl s t Z), nlen_app. f_equal.
    assert (L0 : last_line (@nil chr) = []) by reflexivity.
    pose proof (last_line_app_nonl [] t Z) as L. rewrite L0 in L. cbn [app] in L. rewrite L. reflexivity.
Qed.

Lemma seg_len_app (s t : list chr) : seg_len (s ++ t) = seg_len s + seg_len t.
Proof. unfold seg_len. induction s as [|c s IH]; cbn [app fold_right]; [lia|]. rewrite IH. lia. Qed.

Theorem end_loc_app s t :
  nlen (filter is_nl (s ++ t)) <= U16MAX -> nlen (s ++ t) <= U32MAX -> seg_len (s ++ t) <= U32MAX ->
  line (end_loc true (s ++ t)) = line (end_loc true s) + line (end_loc true t) /\
  char_pos (end_loc true (s ++ t)) = char_pos (end_loc true s) + char_pos (end_loc true t) /\
  byte_pos (end_loc true (s ++ t)) = byte_pos (end_loc true s) + byte_pos (end_loc true t) /\
  col (end_loc true (s ++ t)) =
    N.min (if existsb is_nl t then out_true_col t else out_true_col s + out_true_col t) U16MAX.
Proof.
  intros Hl Hc Hb. rewrite filter_app, nlen_app in Hl. rewrite nlen_app in Hc.
  pose proof (seg_len_app s t) as Hs.
  rewrite Hs in Hb.
  destruct (end_loc_others_exact true (s ++ t)) as (A1 & A2 & A3); [rewrite filter_app, nlen_app; lia | rewrite nlen_app; lia | lia|].
  destruct (end_loc_others_exact true s) as (B1 & B2 & B3); [lia | lia | lia|].
  destruct (end_loc_others_exact true t) as (C1 & C2 & C3); [lia | lia | lia|].
  rewrite A1, A2, A3, B1, B2, B3, C1, C2, C3, filter_app, !nlen_app, Hs.
  repeat split. unfold end_loc. cbn [col]. rewrite out_true_col_app. reflexivity.
Qed.

(** adding the columns field by field (as one could be tempted to do in Formatter::push) is not
    this law: "aa" followed by "a", line break, "a" ends at column 1, not 3 *)
Theorem push_additive_col_refuted :
  exists s t, col (end_loc true (s ++ t)) <> N.min (col (end_loc true s) + col (end_loc true t)) U16MAX.
Proof. exists [(1, COther); (1, COther)], [(1, COther); (1, CNl); (1, COther)]. vm_compute. discriminate. Qed.

(** * The formatter's running end location equals end_loc of its output (6889e96) *)
Record out_inv (o : output) : Prop := {
  oi_line : o_line o = wrap16 (nlen (filter is_nl (rev (o_rev o))));
  oi_col : o_col o = out_true_col (rev (o_rev o));
  oi_chars : o_chars o = nlen (rev (o_rev o))
}.

Lemma wrap16_add_l a b : wrap16 (wrap16 a + b) = wrap16 (a + b).
Proof. unfold wrap16. apply N.add_mod_idemp_l. discriminate. Qed.
Lemma wrap16_succ_pred n : wrap16 (wrap16 (n + 1) + 65535) = wrap16 n.
Proof.
  rewrite wrap16_add_l. unfold wrap16. replace (n + 1 + 65535) with (n + 1 * 65536) by lia.
  apply N.mod_add. discriminate.
Qed.

Lemma out_true_col_snoc t c : out_true_col (t ++ [c]) = if is_nl c then 0 else out_true_col t + 1.
Proof.
  unfold out_true_col. rewrite last_line_snoc. destruct (is_nl c); [reflexivity|].
  rewrite nlen_app. reflexivity.
Qed.

Lemma ostep_inv o a : out_inv o -> out_inv (ostep o a).
Proof.
  intros [Hl Hc Hn]. destruct a as [c|]; cbn [ostep].
  - constructor; cbn [o_rev o_line o_col o_chars rev].
    + rewrite filter_app, nlen_app. cbn [filter]. destruct (is_nl c).
      * rewrite Hl, wrap16_add_l. reflexivity.
      * rewrite Hl. cbn [nlen length]. unfold nlen at 2. cbn [length]. rewrite N.add_0_r. reflexivity.
    + rewrite out_true_col_snoc, Hc. reflexivity.
    + rewrite nlen_app, Hn. reflexivity.
  - destruct (o_rev o) as [|c r] eqn:E; [constructor; rewrite ?E; assumption|].
    cbn [rev] in *. rewrite filter_app, nlen_app in Hl. cbn [filter] in Hl.
    rewrite out_true_col_snoc in Hc. rewrite nlen_app in Hn.
    constructor; cbn [o_rev o_line o_col o_chars].
    + destruct (is_nl c).
      * rewrite Hl. unfold nlen at 2. cbn [length]. apply wrap16_succ_pred.
      * rewrite Hl. unfold nlen at 2. cbn [length]. rewrite N.add_0_r. reflexivity.
    + destruct (is_nl c); [rewrite lrev_rev; reflexivity | rewrite Hc; lia].
    + rewrite Hn. unfold nlen at 2. cbn [length]. lia.
Qed.

Lemma out_inv0 : out_inv out0.
Proof. constructor; reflexivity. Qed.

(** for every sequence of pushed and popped characters the location read from the running
    counters is end_loc of the text written so far *)
Theorem running_end_loc ops :
  let o := fold_left ostep ops out0 in out_end_loc o = end_loc true (out_text o).
Proof.
  cbn zeta. assert (I : out_inv (fold_left ostep ops out0)).
  { generalize out_inv0. generalize out0. induction ops as [|a ops IH]; intros o Ho; cbn [fold_left]; [assumption|].
    apply IH. apply ostep_inv. assumption. }
  destruct I as [Hl Hc Hn]. unfold out_end_loc, end_loc, out_text. rewrite lrev_rev, Hl, Hc, Hn. reflexivity.
Qed.
