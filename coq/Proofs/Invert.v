(** C03: the inverses the engine emits on the catalogue are inverses (for the reference semantics
    of Model/Prims.v), the validator is sound, signatures are dual. *)
From Coq Require Import List ZArith NArith Bool Arith Lia.
From UV Require Import Model.Node Model.Prims Proofs.Prims Model.Invert.
Import ListNotations.

(* ------------------------------------------------------------------ signature duality *)

Lemma sig_inverse_involutive s : sua s = 0 -> suo s = 0 -> sig_inverse (sig_inverse s) = s.
Proof. destruct s; cbn; intros; subst; reflexivity. Qed.

(** Signature::compose / inverse: the inverse of `g after f` is `inverse f after inverse g` *)
Lemma sig_inverse_compose f g : sua f = 0 -> suo f = 0 -> sua g = 0 -> suo g = 0 ->
  sig_inverse (sig_compose g f) = sig_compose (sig_inverse f) (sig_inverse g).
Proof. destruct f, g; cbn; intros; subst; unfold sig_inverse, sig_compose, sig2; cbn. f_equal; lia. Qed.

Lemma sig_inverse_under_free s : sua (sig_inverse s) = 0 /\ suo (sig_inverse s) = 0.
Proof. split; reflexivity. Qed.

(* ------------------------------------------------------------------ the relation *)

Inductive Inv1 : list tn -> list tn -> Prop :=
| I_nil : Inv1 [] []
| I_prim p i : prim_inv p = Some i -> Inv1 [TP p] i
| I_lit c p i : lit_inv c p = Some i -> Inv1 [TPush c; TP p] i
| I_rsub c : Inv1 [TPush c; TP P_Flip; TP P_Sub] [TPush c; TP P_Flip; TP P_Sub]
| I_dipn k f g : Inv1 f g -> Inv1 [TDipN k f] [TDipN k g]
| I_seq f g f' g' : Inv1 f g -> Inv1 f' g' -> Inv1 (f ++ f') (g' ++ g)
| I_dip f g : Inv1 f g -> Inv1 [TDip f] [TDip g]
| I_both a o f g : Inv1 f g -> Inv1 [TBoth a o f] [TUnBoth o a g]
| I_unboth a o f g : Inv1 f g -> Inv1 [TUnBoth a o f] [TBoth o a g]
| I_bracket a o f g a' o' f' g' : Inv1 f g -> Inv1 f' g' ->
    Inv1 [TBracket a o f a' o' f'] [TUnBracket o a g o' a' g']
| I_unbracket a o f g a' o' f' g' : Inv1 f g -> Inv1 f' g' ->
    Inv1 [TUnBracket a o f a' o' f'] [TBracket o a g o' a' g'].
Definition Inv (f g : list tn) : Prop := Inv1 f g /\ Inv1 g f.

Lemma rsub_tail_some l r : rsub_tail l = Some r -> l = TP P_Flip :: TP P_Sub :: r.
Proof.
  destruct l as [|x l]; [discriminate|]. destruct x; try discriminate. destruct p; try discriminate.
  destruct l as [|y l]; [discriminate|]. destruct y; try discriminate. destruct p; try discriminate.
  cbn. intros H; inversion H; reflexivity.
Qed.

Lemma cinv_sound : forall fuel f g, cinv true fuel f = Some g -> Inv1 f g.
Proof.
  induction fuel as [|fuel IH]; intros f g H; [discriminate|].
  destruct f as [|x rest]; cbn [cinv] in H.
  - inversion H; constructor.
  - destruct x; try discriminate.
    + (* TPush *) destruct (rsub_tail rest) as [rest'|] eqn:Ers.
      * apply rsub_tail_some in Ers. subst rest.
        destruct (cinv true fuel rest') as [r|] eqn:Er; [|discriminate]. cbn [obind] in H. inversion H; subst.
        change (TPush z :: TP P_Flip :: TP P_Sub :: rest') with ([TPush z; TP P_Flip; TP P_Sub] ++ rest').
        apply I_seq; auto using I_rsub.
      * destruct rest as [|y rest]; [discriminate|]. destruct y; try discriminate.
        destruct (lit_inv z p) as [i|] eqn:Ei; [|discriminate]. cbn [obind] in H.
        destruct (cinv true fuel rest) as [r|] eqn:Er; [|discriminate]. cbn [obind] in H. inversion H; subst.
        change (TPush z :: TP p :: rest) with ([TPush z; TP p] ++ rest). apply I_seq; auto using I_lit.
    + (* TP *) destruct (prim_inv p) as [i|] eqn:Ei; [|discriminate]. cbn [obind] in H.
      destruct (cinv true fuel rest) as [r|] eqn:Er; [|discriminate]. cbn [obind] in H. inversion H; subst.
      change (TP p :: rest) with ([TP p] ++ rest). apply I_seq; auto using I_prim.
    + (* TDip: with or without a join behind it, the current engine keeps the dip *)
      assert (G : obind (cinv true fuel f) (fun gi => obind (cinv true fuel rest) (fun r => Some (r ++ [TDip gi]))) = Some g).
      { destruct rest as [|y rest']; auto. destruct (is_joinb y); auto. }
      clear H. rename G into H.
      destruct (cinv true fuel f) as [gi|] eqn:Eg; [|discriminate]. cbn [obind] in H.
      destruct (cinv true fuel rest) as [r|] eqn:Er; [|discriminate]. cbn [obind] in H. inversion H; subst.
      change (TDip f :: rest) with ([TDip f] ++ rest). apply I_seq; auto using I_dip.
    + (* TDipN *) destruct (cinv true fuel f) as [gi|] eqn:Eg; [|discriminate]. cbn [obind] in H.
      destruct (cinv true fuel rest) as [r|] eqn:Er; [|discriminate]. cbn [obind] in H. inversion H; subst.
      change (TDipN k f :: rest) with ([TDipN k f] ++ rest). apply I_seq; auto using I_dipn.
    + (* TBoth *) destruct (cinv true fuel f) as [gi|] eqn:Eg; [|discriminate]. cbn [obind] in H.
      destruct (cinv true fuel rest) as [r|] eqn:Er; [|discriminate]. cbn [obind] in H. inversion H; subst.
      change (TBoth a o f :: rest) with ([TBoth a o f] ++ rest). apply I_seq; auto using I_both.
    + (* TUnBoth *) destruct (cinv true fuel f) as [gi|] eqn:Eg; [|discriminate]. cbn [obind] in H.
      destruct (cinv true fuel rest) as [r|] eqn:Er; [|discriminate]. cbn [obind] in H. inversion H; subst.
      change (TUnBoth a o f :: rest) with ([TUnBoth a o f] ++ rest). apply I_seq; auto using I_unboth.
    + (* TBracket *) destruct (cinv true fuel f) as [gi|] eqn:Eg; [|discriminate]. cbn [obind] in H.
      destruct (cinv true fuel g0) as [hi|] eqn:Eh; [|discriminate]. cbn [obind] in H.
      destruct (cinv true fuel rest) as [r|] eqn:Er; [|discriminate]. cbn [obind] in H. inversion H; subst.
      change (TBracket a o f a' o' g0 :: rest) with ([TBracket a o f a' o' g0] ++ rest).
      apply I_seq; auto using I_bracket.
    + (* TUnBracket *) destruct (cinv true fuel f) as [gi|] eqn:Eg; [|discriminate]. cbn [obind] in H.
      destruct (cinv true fuel g0) as [hi|] eqn:Eh; [|discriminate]. cbn [obind] in H.
      destruct (cinv true fuel rest) as [r|] eqn:Er; [|discriminate]. cbn [obind] in H. inversion H; subst.
      change (TUnBracket a o f a' o' g0 :: rest) with ([TUnBracket a o f a' o' g0] ++ rest).
      apply I_seq; auto using I_unbracket.
Qed.

Theorem check_un_sound f g : check_un f g = true -> Inv1 f g.
Proof.
  unfold check_un, check_un_code. destruct (cinv true (S (lsize f)) f) as [g'|] eqn:E; [|discriminate].
  unfold tnl_eqb. destruct (list_eq_dec tn_eq_dec g' g); [|discriminate]. subst. intros _.
  eapply cinv_sound; eauto.
Qed.

(* ------------------------------------------------------------------ semantics: equations *)

Lemma go_trun : forall l s,
  (fix go (l : list tn) (s : st) {struct l} : res st :=
     match l with [] => Ok s | x :: t => bind (tstep x s) (go t) end) l s = trun l s.
Proof. induction l; intros; cbn [trun]; auto. Qed.

Lemma trun_app : forall f g s, trun (f ++ g) s = bind (trun f s) (trun g).
Proof.
  induction f; intros; cbn [app trun bind]; auto.
  destruct (tstep a s); cbn [bind]; auto.
Qed.
Lemma trun_one x s : trun [x] s = tstep x s.
Proof. cbn [trun]. destruct (tstep x s); reflexivity. Qed.

Lemma bind_ok {A B} (r : res A) (k : A -> res B) v : bind r k = Ok v -> exists a, r = Ok a /\ k a = Ok v.
Proof. destruct r; cbn; intros; try discriminate. eauto. Qed.

Definition law (f g : list tn) : Prop :=
  forall s s', st_okb s = true -> trun f s = Ok s' -> trun g s' = Ok s /\ st_okb s' = true.

Lemma st_okb_cons x r u : st_okb (x :: r, u) = true <-> arr_okb x = true /\ st_okb (r, u) = true.
Proof. unfold st_okb; cbn. rewrite !andb_true_iff. tauto. Qed.
Lemma st_okb_app l r u : st_okb (l ++ r, u) = true <-> forallb arr_okb l = true /\ st_okb (r, u) = true.
Proof. unfold st_okb; cbn. rewrite forallb_app, !andb_true_iff. tauto. Qed.
Lemma st_okb_u l u : st_okb (l, u) = true <-> forallb arr_okb l = true /\ forallb arr_okb u = true.
Proof. unfold st_okb; cbn. rewrite andb_true_iff. tauto. Qed.

Lemma ck_ok v r l : ck v r = Ok l -> l = v :: r /\ arr_okb v = true.
Proof. unfold ck. destruct (arr_okb v); intros H; inversion H; auto. Qed.
Lemma ck_of v r : arr_okb v = true -> ck v r = Ok (v :: r).
Proof. unfold ck. intros ->; reflexivity. Qed.
Lemma ck2_ok v w r l : ck2 v w r = Ok l -> l = v :: w :: r /\ arr_okb v = true /\ arr_okb w = true.
Proof. unfold ck2. destruct (arr_okb v), (arr_okb w); intros H; inversion H; auto. Qed.
Lemma arr_okb_wf a : arr_okb a = true -> wf a.
Proof. unfold arr_okb, wfb, wf. intros H. apply andb_prop in H as [H _]. apply Nat.eqb_eq; auto. Qed.

(* ------------------------------------------------------------------ per-primitive lemmas *)

Lemma mapM_ok_inv {A B} (f : A -> res B) (g : B -> res A) :
  (forall x y, f x = Ok y -> g y = Ok x) -> forall l l', mapM f l = Ok l' -> mapM g l' = Ok l.
Proof.
  intros Hfg. induction l as [|x l IH]; intros l' H; cbn in H.
  - inversion H; reflexivity.
  - apply bind_ok in H as (y & Hy & H). apply bind_ok in H as (r & Hr & H). inversion H; subst.
    cbn. rewrite (Hfg _ _ Hy). cbn. rewrite (IH _ Hr). reflexivity.
Qed.
(** the same when the inverse is only known on the elements that satisfy a predicate *)
Lemma mapM_ok_inv_on {A B} (P : A -> bool) (f : A -> res B) (g : B -> res A) :
  (forall x y, P x = true -> f x = Ok y -> g y = Ok x) ->
  forall l l', forallb P l = true -> mapM f l = Ok l' -> mapM g l' = Ok l.
Proof.
  intros Hfg. induction l as [|x l IH]; intros l' HP H; cbn in H.
  - inversion H; reflexivity.
  - cbn in HP. apply andb_prop in HP as [Px Pl].
    apply bind_ok in H as (y & Hy & H). apply bind_ok in H as (r & Hr & H). inversion H; subst.
    cbn. rewrite (Hfg _ _ Px Hy). cbn. rewrite (IH _ Pl Hr). reflexivity.
Qed.

Local Opaque Z.sub Z.opp Z.add.
Lemma perv1_involutive o : (o = PNeg \/ o = PNot) -> forall x v, p_perv1 o x = Ok v -> p_perv1 o v = Ok x.
Proof.
  intros Ho [t sh d] v H. unfold p_perv1 in *. cbn [aty adata ash] in *. destruct t; try discriminate.
  apply bind_ok in H as (d' & Hd & H). inversion H; subst. cbn [aty adata ash].
  erewrite mapM_ok_inv; [reflexivity| |exact Hd].
  intros e e' He. destruct e; try discriminate.
  destruct Ho; subst o; injection He as <-; f_equal; f_equal; lia.
Qed.
Local Transparent Z.sub Z.opp Z.add.

Lemma unbox_box x v : is_box_scalar x = true -> p_unbox x = Ok v -> p_box v = x.
Proof.
  destruct x as [t sh d]. unfold is_box_scalar, p_unbox; cbn.
  destruct t; try discriminate. destruct sh; try discriminate. destruct d as [|e d]; try discriminate.
  destruct e; try discriminate. destruct d; try discriminate. intros _ H; inversion H; reflexivity.
Qed.
Lemma box_is_scalar x : is_box_scalar (p_box x) = true.
Proof. destruct x; reflexivity. Qed.

Lemma unfix_fix x : unfix (p_fix x) = Ok x.
Proof. destruct x; reflexivity. Qed.
Lemma fix_unfix x v : unfix x = Ok v -> p_fix v = x.
Proof.
  destruct x as [t sh d]. unfold unfix; cbn. destruct sh as [|n s]; try discriminate.
  destruct n as [|[|n]]; try discriminate. intros H; inversion H; reflexivity.
Qed.

Lemma uncouple_couple a b v : wf a -> couple_eq a b = Ok v -> uncouple v = Ok (a, b).
Proof.
  destruct a as [t s d], b as [t' s' d']. unfold wf, couple_eq, uncouple; cbn. intros Hw.
  destruct (ety_eqb t t') eqn:Et; [|discriminate]. destruct (list_eqb Nat.eqb s s') eqn:Es; [|discriminate].
  apply ety_eqb_eq in Et. apply list_eqb_nat_eq in Es. subst. cbn. intros H; inversion H; subst; cbn.
  change (fold_right Nat.mul 1 s') with (prodn s') in Hw.
  rewrite <- Hw, firstn_app, Nat.sub_diag, firstn_all, skipn_app, Nat.sub_diag, skipn_all. cbn.
  rewrite app_nil_r. reflexivity.
Qed.
Lemma couple_uncouple x a b : uncouple x = Ok (a, b) -> couple_eq a b = Ok x.
Proof.
  destruct x as [t sh d]. unfold uncouple, couple_eq; cbn. destruct sh as [|n s]; try discriminate.
  destruct n as [|[|[|n]]]; try discriminate. intros H; inversion H; subst; cbn.
  rewrite ety_eqb_refl, list_eqb_refl_nat. cbn. rewrite firstn_skipn. reflexivity.
Qed.

(** un-join splits off exactly what join put in front *)
Lemma unjoin_join_scalar a b v : join_scalar a b = Ok v -> unjoin1 v = Ok (a, b).
Proof.
  destruct a as [ta sa da], b as [tb sb db]. unfold join_scalar, unjoin1; cbn [aty ash adata].
  destruct sa; try discriminate. destruct sb as [|n [|? ?]]; try discriminate.
  destruct da as [|e [|? ?]]; try discriminate. destruct (ety_eqb ta tb) eqn:Et; [|discriminate].
  apply ety_eqb_eq in Et. subst. intros H; inversion H; subst. reflexivity.
Qed.
Lemma join_unjoin1 x a b : unjoin1 x = Ok (a, b) -> join_scalar a b = Ok x.
Proof.
  destruct x as [t sh d]. unfold unjoin1, join_scalar; cbn [aty ash adata].
  destruct sh as [|[|n] [|? ?]]; try discriminate. destruct d as [|e d]; try discriminate.
  intros H; inversion H; subst; cbn [aty ash adata]. rewrite ety_eqb_refl. reflexivity.
Qed.

(** x + c - c = x and x - c + c = x, on numbers and on characters *)
Lemma perv2_scalar o c x : p_perv2 o None (num c) x =
  (t <- pty2 o TNum (aty x) ;; d <- mapM (pel2 o (ENum c)) (adata x) ;; Ok (Arr t (ash x) d)).
Proof.
  unfold p_perv2, num; cbn [aty ash adata]. destruct (pty2 o TNum (aty x)); cbn [bind]; auto.
Qed.
Lemma elem_add_sub o o' c e e' : (o = PAdd /\ o' = PSub) \/ (o = PSub /\ o' = PAdd) ->
  elem_okb e = true -> pel2 o (ENum c) e = Ok e' -> pel2 o' (ENum c) e' = Ok e.
Proof.
  intros Ho He H. destruct e as [z|ch|]; try (destruct Ho as [[-> ->]|[-> ->]]; discriminate).
  - cbn in He. destruct Ho as [[-> ->]|[-> ->]]; cbn in *; unfold znum in *.
    + destruct (Z.abs (z + c) <? big)%Z; inversion H; subst. replace (z + c - c)%Z with z by lia. rewrite He; auto.
    + destruct (Z.abs (z - c) <? big)%Z; inversion H; subst. replace (z - c + c)%Z with z by lia. rewrite He; auto.
  - cbn in He. destruct Ho as [[-> ->]|[-> ->]]; cbn in *; unfold zchar in *.
    + destruct (valid_char (Z.of_N ch + c)) eqn:V; inversion H; subst.
      unfold valid_char in V. apply andb_prop in V as [V1 V2]. rewrite Z2N.id by lia.
      replace (Z.of_N ch + c - c)%Z with (Z.of_N ch) by lia. rewrite He. rewrite N2Z.id. reflexivity.
    + destruct (valid_char (Z.of_N ch - c)) eqn:V; inversion H; subst.
      unfold valid_char in V. apply andb_prop in V as [V1 V2]. rewrite Z2N.id by lia.
      replace (Z.of_N ch - c + c)%Z with (Z.of_N ch) by lia. rewrite He. rewrite N2Z.id. reflexivity.
Qed.
Lemma pty2_add_sub o o' t t' : (o = PAdd /\ o' = PSub) \/ (o = PSub /\ o' = PAdd) ->
  pty2 o TNum t = Ok t' -> t' = t /\ pty2 o' TNum t = Ok t.
Proof. intros [[-> ->]|[-> ->]]; destruct t; cbn; intros H; inversion H; auto. Qed.
Lemma add_sub_scalar o o' c x v : (o = PAdd /\ o' = PSub) \/ (o = PSub /\ o' = PAdd) ->
  arr_okb x = true -> p_perv2 o None (num c) x = Ok v -> p_perv2 o' None (num c) v = Ok x.
Proof.
  intros Ho Hx H. destruct x as [tx sx dx]. rewrite perv2_scalar in *. cbn [aty ash adata] in *.
  apply bind_ok in H as (t & Ht & H).
  apply bind_ok in H as (d & Hd & H). inversion H; subst. cbn [aty ash adata].
  destruct (pty2_add_sub _ _ _ _ Ho Ht) as [-> Ht']. rewrite Ht'. cbn [bind].
  unfold arr_okb in Hx. apply andb_prop in Hx as [_ Hx]. cbn [adata] in Hx.
  assert (M : mapM (pel2 o' (ENum c)) d = Ok dx).
  { eapply (mapM_ok_inv_on elem_okb); [|exact Hx|exact Hd].
    intros e e' He Hee. eapply elem_add_sub; eauto. }
  rewrite M. reflexivity.
Qed.

(** rotation by k and by -k cancel *)
Lemma rotl_rotl {A} (l : list A) i j : i <= length l -> j = length l - i -> rotl j (rotl i l) = l.
Proof.
  intros Hi ->. unfold rotl.
  assert (L : length (skipn i l) = length l - i) by apply skipn_length.
  rewrite skipn_app, firstn_app, L, Nat.sub_diag.
  rewrite (skipn_all2 (skipn i l)) by lia. rewrite (firstn_all2 (skipn i l)) by lia.
  cbn. rewrite app_nil_r. apply firstn_skipn.
Qed.
Lemma rotl_0 {A} (l : list A) : rotl 0 l = l.
Proof. unfold rotl; cbn. apply app_nil_r. Qed.
Lemma rotl_len {A} (l : list A) : rotl (length l) l = l.
Proof. unfold rotl. rewrite skipn_all, firstn_all. reflexivity. Qed.
Lemma rotl_length {A} k (l : list A) : length (rotl k l) = length l.
Proof. unfold rotl. rewrite app_length, skipn_length, firstn_length. lia. Qed.
Lemma Forall_rotl {A} (P : A -> Prop) k l : Forall P l -> Forall P (rotl k l).
Proof.
  intros H. unfold rotl. apply Forall_app. split.
  - rewrite <- (firstn_skipn k l) in H. apply Forall_app in H. tauto.
  - rewrite <- (firstn_skipn k l) in H. apply Forall_app in H. tauto.
Qed.
Lemma rot_by_inv k x v : wf x -> rot_by k x = Ok v -> rot_by (- k) v = Ok x.
Proof.
  destruct x as [t sh d]. unfold wf, rot_by; cbn [aty ash adata]. intros Hw.
  destruct sh as [|n s]; [discriminate|]. destruct (Nat.eqb n 0) eqn:En.
  - intros H; inversion H; subst. cbn [ash]. rewrite En. reflexivity.
  - apply Nat.eqb_neq in En. intros H; inversion H; subst; clear H. cbn [aty ash adata]. 
    destruct (Nat.eqb n 0) eqn:En'; [apply Nat.eqb_eq in En'; lia|]. f_equal. f_equal.
    cbn [prodn fold_right] in Hw. fold (prodn s) in Hw.
    set (rs := chunk (prodn s) n d).
    assert (Lrs : length rs = n) by apply chunk_length.
    assert (Frs : Forall (fun r => length r = prodn s) rs) by (apply chunk_rows_len; lia).
    set (i := Z.to_nat (k mod Z.of_nat n)).
    assert (Hi : i < n) by (unfold i; pose proof (Z.mod_pos_bound k (Z.of_nat n)); lia).
    pose proof (chunk_concat (prodn s) (rotl i rs) (Forall_rotl _ i rs Frs)) as C.
    rewrite rotl_length, Lrs in C. rewrite C.
    set (j := Z.to_nat (- k mod Z.of_nat n)).
    assert (R : rotl j (rotl i rs) = rs).
    { destruct (Nat.eq_dec i 0) as [E0|E0].
      - assert (j = 0).
        { unfold i, j in *. assert (k mod Z.of_nat n = 0)%Z by (pose proof (Z.mod_pos_bound k (Z.of_nat n)); lia).
          rewrite Z.mod_opp_l_z by lia. reflexivity. }
        rewrite E0, H, !rotl_0. reflexivity.
      - apply rotl_rotl; [lia|]. unfold i, j in *.
        rewrite Z.mod_opp_l_nz; [|lia|pose proof (Z.mod_pos_bound k (Z.of_nat n)); lia].
        pose proof (Z.mod_pos_bound k (Z.of_nat n)). lia. }
    rewrite R. unfold rs. apply concat_chunk. lia.
Qed.

(* ------------------------------------------------------------------ base laws *)

Ltac stp H := rewrite trun_one in H; cbn [tstep fst snd] in H.

Lemma tp_ok p s s' : trun [TP p] s = Ok s' -> exists stk, prim_sem p (fst s) = Ok stk /\ s' = (stk, snd s).
Proof. intros H. stp H. apply bind_ok in H as (stk & E & H). inversion H; eauto. Qed.
Lemma tp_of p s stk : prim_sem p (fst s) = Ok stk -> trun [TP p] s = Ok (stk, snd s).
Proof. intros H. rewrite trun_one. cbn [tstep]. rewrite H. reflexivity. Qed.

Lemma law_prim p i : prim_inv p = Some i -> law [TP p] i.
Proof.
  intros Hp [stk u] s' Hs H. apply tp_ok in H as (stk' & E & ->). cbn [fst snd] in *.
  destruct p; cbn [prim_inv] in Hp; inversion Hp; subst; clear Hp; cbn [prim_sem] in E.
  - (* Identity *) destruct stk as [|x r]; [discriminate|]. inversion E; subst. split; [apply tp_of; reflexivity|auto].
  - (* Flip *) destruct stk as [|a [|b r]]; try discriminate. inversion E; subst. split.
    + apply tp_of; reflexivity.
    + apply st_okb_cons in Hs as [A Hs]. apply st_okb_cons in Hs as [B Hs]. apply st_okb_cons; split; auto. apply st_okb_cons; auto.
  - (* Neg *) destruct stk as [|x r]; [discriminate|]. apply bind_ok in E as (v & Ev & E). apply ck_ok in E as [-> Kv].
    apply st_okb_cons in Hs as [A Hs]. split; [|apply st_okb_cons; auto].
    apply tp_of. cbn [prim_sem fst]. rewrite (perv1_involutive PNeg (or_introl eq_refl) _ _ Ev). cbn [bind]. apply ck_of; auto.
  - (* Not *) destruct stk as [|x r]; [discriminate|]. apply bind_ok in E as (v & Ev & E). apply ck_ok in E as [-> Kv].
    apply st_okb_cons in Hs as [A Hs]. split; [|apply st_okb_cons; auto].
    apply tp_of. cbn [prim_sem fst]. rewrite (perv1_involutive PNot (or_intror eq_refl) _ _ Ev). cbn [bind]. apply ck_of; auto.
  - (* Reverse *) destruct stk as [|x r]; [discriminate|]. apply ck_ok in E as [-> Kv].
    apply st_okb_cons in Hs as [A Hs]. split; [|apply st_okb_cons; auto].
    apply tp_of. cbn [prim_sem fst]. rewrite reverse_involutive by (apply arr_okb_wf; auto). apply ck_of; auto.
  - (* Couple *) destruct stk as [|a [|b r]]; try discriminate. apply bind_ok in E as (v & Ev & E). apply ck_ok in E as [-> Kv].
    apply st_okb_cons in Hs as [A Hs]. apply st_okb_cons in Hs as [B Hs]. split; [|apply st_okb_cons; auto].
    apply tp_of. cbn [prim_sem fst]. rewrite (uncouple_couple a b v) by (auto using arr_okb_wf). cbn [bind fst snd].
    unfold ck2. rewrite A, B. reflexivity.
  - (* UnCouple *) destruct stk as [|x r]; [discriminate|]. apply bind_ok in E as ([a b] & Ev & E). cbn [fst snd] in E.
    apply ck2_ok in E as (-> & Ka & Kb). apply st_okb_cons in Hs as [A Hs].
    split; [|apply st_okb_cons; split; auto; apply st_okb_cons; auto].
    apply tp_of. cbn [prim_sem fst]. rewrite (couple_uncouple _ _ _ Ev). cbn [bind]. apply ck_of; auto.
  - (* Box *) destruct stk as [|x r]; [discriminate|]. apply ck_ok in E as [-> Kv].
    apply st_okb_cons in Hs as [A Hs]. split; [|apply st_okb_cons; auto].
    apply tp_of. cbn [prim_sem fst]. rewrite box_is_scalar, box_unbox. cbn [bind]. apply ck_of; auto.
  - (* UnBox *) destruct stk as [|x r]; [discriminate|]. destruct (is_box_scalar x) eqn:Eb; [|discriminate].
    apply bind_ok in E as (v & Ev & E). apply ck_ok in E as [-> Kv].
    apply st_okb_cons in Hs as [A Hs]. split; [|apply st_okb_cons; auto].
    apply tp_of. cbn [prim_sem fst]. rewrite (unbox_box _ _ Eb Ev). apply ck_of; auto.
  - (* Fix *) destruct stk as [|x r]; [discriminate|]. apply ck_ok in E as [-> Kv].
    apply st_okb_cons in Hs as [A Hs]. split; [|apply st_okb_cons; auto].
    apply tp_of. cbn [prim_sem fst]. rewrite unfix_fix. cbn [bind]. apply ck_of; auto.
  - (* UnFix *) destruct stk as [|x r]; [discriminate|]. apply bind_ok in E as (v & Ev & E). apply ck_ok in E as [-> Kv].
    apply st_okb_cons in Hs as [A Hs]. split; [|apply st_okb_cons; auto].
    apply tp_of. cbn [prim_sem fst]. rewrite (fix_unfix _ _ Ev). apply ck_of; auto.
  - (* Join *) destruct stk as [|a [|b r]]; try discriminate. apply bind_ok in E as (v & Ev & E). apply ck_ok in E as [-> Kv].
    apply st_okb_cons in Hs as [A Hs]. apply st_okb_cons in Hs as [B Hs]. split; [|apply st_okb_cons; auto].
    apply tp_of. cbn [prim_sem fst]. rewrite (unjoin_join_scalar a b v Ev). cbn [bind fst snd].
    unfold ck2. rewrite A, B. reflexivity.
  - (* UnJoin *) destruct stk as [|x r]; [discriminate|]. apply bind_ok in E as ([a b] & Ev & E). cbn [fst snd] in E.
    apply ck2_ok in E as (-> & Ka & Kb). apply st_okb_cons in Hs as [A Hs].
    split; [|apply st_okb_cons; split; auto; apply st_okb_cons; auto].
    apply tp_of. cbn [prim_sem fst]. rewrite (join_unjoin1 _ _ _ Ev). cbn [bind]. apply ck_of; auto.
Qed.

Lemma num_okb c : arr_okb (num c) = true -> True. Proof. auto. Qed.

Lemma push_tp c p s s' : trun [TPush c; TP p] s = Ok s' ->
  exists stk, prim_sem p (num c :: fst s) = Ok stk /\ s' = (stk, snd s).
Proof.
  intros H. change [TPush c; TP p] with ([TPush c] ++ [TP p]) in H. rewrite trun_app, trun_one in H.
  cbn [tstep bind] in H. apply tp_ok in H. exact H.
Qed.
Lemma push_tp_of c p s stk : prim_sem p (num c :: fst s) = Ok stk -> trun [TPush c; TP p] s = Ok (stk, snd s).
Proof.
  intros H. change [TPush c; TP p] with ([TPush c] ++ [TP p]). rewrite trun_app, trun_one.
  cbn [tstep bind]. apply (tp_of p (num c :: fst s, snd s)). exact H.
Qed.

(** x × c ÷ c = x and x ÷ c × c = x on whole numbers *)
Lemma mul_div_scalar c x v : c <> 0%Z -> arr_okb x = true -> scalar_mul c x = Ok v -> scalar_div c v = Ok x.
Proof.
  intros Hc Hx H. destruct x as [t sh d]. unfold scalar_mul, scalar_div in *. cbn [aty ash adata] in *.
  destruct t; try discriminate. apply bind_ok in H as (d' & Hd & H). inversion H; subst; clear H. cbn [aty ash adata].
  destruct (Z.eqb_spec c 0); [contradiction|].
  unfold arr_okb in Hx. apply andb_prop in Hx as [_ Hx]. cbn [adata] in Hx.
  assert (M : mapM (fun e => match e with ENum z => if Z.eqb (z mod c) 0 then Ok (ENum (z / c)) else Unspec | _ => Unspec end) d' = Ok d).
  { eapply (mapM_ok_inv_on elem_okb); [|exact Hx|exact Hd].
    intros e e' He Hee. destruct e as [z| |]; try discriminate. unfold znum in Hee.
    destruct (Z.abs (z * c) <? big)%Z; inversion Hee; subst.
    rewrite Z_mod_mult. cbn. rewrite Z.div_mul by auto. reflexivity. }
  rewrite M. reflexivity.
Qed.
Lemma div_mul_scalar c x v : arr_okb x = true -> scalar_div c x = Ok v -> scalar_mul c v = Ok x.
Proof.
  intros Hx H. destruct x as [t sh d]. unfold scalar_mul, scalar_div in *. cbn [aty ash adata] in *.
  destruct (Z.eqb_spec c 0); [discriminate|].
  destruct t; try discriminate. apply bind_ok in H as (d' & Hd & H). inversion H; subst; clear H. cbn [aty ash adata].
  unfold arr_okb in Hx. apply andb_prop in Hx as [_ Hx]. cbn [adata] in Hx.
  assert (M : mapM (fun e => match e with ENum z => znum (z * c) | _ => Unspec end) d' = Ok d).
  { eapply (mapM_ok_inv_on elem_okb); [|exact Hx|exact Hd].
    intros e e' He Hee. destruct e as [z| |]; try discriminate.
    destruct (Z.eqb_spec (z mod c) 0); inversion Hee; subst.
    replace (z / c * c)%Z with z by (rewrite Z.mul_comm; apply Z_div_exact_full_2; auto).
    unfold znum. cbn in He. rewrite He. reflexivity. }
  rewrite M. reflexivity.
Qed.
Lemma scalar_div_nz c x v : scalar_div c x = Ok v -> c <> 0%Z.
Proof. unfold scalar_div. destruct (Z.eqb_spec c 0); [discriminate|auto]. Qed.

(** c - (c - x) = x: the flipped subtraction is its own inverse *)
Lemma perv2_scalar_r o c x : wf x -> p_perv2 o None x (num c) =
  (t <- pty2 o (aty x) TNum ;; d <- mapM (fun e => pel2 o e (ENum c)) (adata x) ;; Ok (Arr t (ash x) d)).
Proof.
  destruct x as [t sh d]. unfold wf, p_perv2, num; cbn [aty ash adata]. intros Hw.
  destruct (pty2 o t TNum); cbn [bind]; auto. destruct sh as [|n s]; cbn.
  - destruct d as [|e [|? ?]]; try discriminate. cbn. destruct (pel2 o e (ENum c)); reflexivity.
  - reflexivity.
Qed.
Lemma rsub_involutive c x v : arr_okb x = true -> p_perv2 PSub None x (num c) = Ok v -> p_perv2 PSub None v (num c) = Ok x /\ wf v.
Proof.
  intros Hx H. pose proof (arr_okb_wf _ Hx) as Hw. rewrite perv2_scalar_r in H by auto.
  destruct x as [t sh d]. cbn [aty ash adata] in *.
  apply bind_ok in H as (t' & Ht & H). apply bind_ok in H as (d' & Hd & H). inversion H; subst; clear H.
  assert (Tn : t = TNum /\ t' = TNum) by (destruct t; cbn in Ht; inversion Ht; auto). destruct Tn; subst.
  unfold arr_okb in Hx. apply andb_prop in Hx as [_ Hx]. cbn [adata] in Hx.
  assert (M : mapM (fun e => pel2 PSub e (ENum c)) d' = Ok d).
  { eapply (mapM_ok_inv_on elem_okb); [|exact Hx|exact Hd].
    intros e e' He Hee. destruct e as [z| |]; try discriminate. cbn in Hee. unfold znum in Hee.
    destruct (Z.abs (c - z) <? big)%Z; inversion Hee; subst. cbn. unfold znum.
    replace (c - (c - z))%Z with z by lia. cbn in He. rewrite He. reflexivity. }
  assert (Wv : wf (Arr TNum sh d')).
  { unfold wf in *; cbn [ash adata] in *. rewrite <- Hw. clear - Hd. revert d' Hd.
    induction d as [|e d IH]; intros d' Hd; cbn in Hd.
    - inversion Hd; reflexivity.
    - apply bind_ok in Hd as (y & _ & Hd). apply bind_ok in Hd as (r & Hr & Hd). inversion Hd; subst. cbn. f_equal. auto. }
  split; auto. rewrite perv2_scalar_r by auto. cbn [aty ash adata bind pty2]. rewrite M. reflexivity.
Qed.

Lemma law_lit c p i : lit_inv c p = Some i -> law [TPush c; TP p] i.
Proof.
  intros Hp [stk u] s' Hs H. apply push_tp in H as (stk' & E & ->). cbn [fst snd] in *.
  destruct p; cbn [lit_inv] in Hp; try discriminate; cbn [prim_sem] in E;
    destruct stk as [|x r]; try discriminate; apply st_okb_cons in Hs as [A Hs].
  - (* Add *) inversion Hp; subst; clear Hp.
    apply bind_ok in E as (v & Ev & E). apply ck_ok in E as [-> Kv]. split; [|apply st_okb_cons; auto].
    apply push_tp_of. cbn [prim_sem fst].
    rewrite (add_sub_scalar PAdd PSub c x v) by auto. cbn [bind]. apply ck_of; auto.
  - (* Sub *) inversion Hp; subst; clear Hp.
    apply bind_ok in E as (v & Ev & E). apply ck_ok in E as [-> Kv]. split; [|apply st_okb_cons; auto].
    apply push_tp_of. cbn [prim_sem fst].
    rewrite (add_sub_scalar PSub PAdd c x v) by auto. cbn [bind]. apply ck_of; auto.
  - (* Mul *) destruct (Z.eqb_spec c 0); [discriminate|]. inversion Hp; subst; clear Hp.
    cbn [num ash adata] in E. apply bind_ok in E as (v & Ev & E). apply ck_ok in E as [-> Kv]. split; [|apply st_okb_cons; auto].
    apply push_tp_of. cbn [prim_sem fst num ash adata].
    rewrite (mul_div_scalar c x v) by auto. cbn [bind]. apply ck_of; auto.
  - (* Div *) destruct (Z.eqb_spec c 0); [discriminate|]. inversion Hp; subst; clear Hp.
    cbn [num ash adata] in E. apply bind_ok in E as (v & Ev & E). apply ck_ok in E as [-> Kv]. split; [|apply st_okb_cons; auto].
    apply push_tp_of. cbn [prim_sem fst num ash adata].
    rewrite (div_mul_scalar c x v) by auto. cbn [bind]. apply ck_of; auto.
  - (* Rotate *) inversion Hp; subst; clear Hp.
    cbn [num ash adata] in E. apply bind_ok in E as (v & Ev & E). apply ck_ok in E as [-> Kv]. split; [|apply st_okb_cons; auto].
    apply push_tp_of. cbn [prim_sem fst num ash adata].
    rewrite (rot_by_inv c x v) by (auto using arr_okb_wf). cbn [bind]. apply ck_of; auto.
  - (* AntiRotate *) inversion Hp; subst; clear Hp.
    cbn [num ash adata] in E. apply bind_ok in E as (v & Ev & E). apply ck_ok in E as [-> Kv]. split; [|apply st_okb_cons; auto].
    apply push_tp_of. cbn [prim_sem fst num ash adata].
    pose proof (rot_by_inv (- c) x v (arr_okb_wf _ A) Ev) as R. rewrite Z.opp_involutive in R. rewrite R.
    cbn [bind]. apply ck_of; auto.
Qed.

Lemma law_rsub c : law [TPush c; TP P_Flip; TP P_Sub] [TPush c; TP P_Flip; TP P_Sub].
Proof.
  assert (R : forall x r u v, arr_okb x = true -> p_perv2 PSub None x (num c) = Ok v -> arr_okb v = true ->
              trun [TPush c; TP P_Flip; TP P_Sub] (x :: r, u) = Ok (v :: r, u)).
  { intros x r u v Kx Ev Kv. cbn [trun tstep bind fst snd prim_sem]. rewrite Ev. cbn [bind]. rewrite (ck_of v r Kv). reflexivity. }
  intros [stk u] s' Hs H. destruct stk as [|x r]; [cbn in H; discriminate|].
  apply st_okb_cons in Hs as [A Hs].
  cbn [trun tstep bind fst snd prim_sem] in H.
  apply bind_ok in H as (s1 & H1 & H). apply bind_ok in H1 as (stk1 & E & H1). inversion H1; subst; clear H1.
  apply bind_ok in E as (v & Ev & E). apply ck_ok in E as [-> Kv]. cbn in H. inversion H; subst; clear H.
  destruct (rsub_involutive c x v A Ev) as [Ev' _].
  split; [apply R; auto | apply st_okb_cons; auto].
Qed.



(* ------------------------------------------------------------------ closure *)

Lemma law_nil : law [] [].
Proof. intros s s' Hs H. cbn in H. inversion H; subst. split; auto. Qed.

Lemma law_seq f g f' g' : law f g -> law f' g' -> law (f ++ f') (g' ++ g).
Proof.
  intros L1 L2 s s' Hs H. rewrite trun_app in H. apply bind_ok in H as (s1 & H1 & H2).
  destruct (L1 _ _ Hs H1) as [G1 K1]. destruct (L2 _ _ K1 H2) as [G2 K2].
  split; auto. rewrite trun_app, G2. cbn [bind]. exact G1.
Qed.

Lemma law_dip f g : law f g -> law [TDip f] [TDip g].
Proof.
  intros L [stk u] s' Hs H. stp H. rewrite ?go_trun in H. destruct stk as [|x r]; [discriminate|].
  apply bind_ok in H as (s1 & H1 & H). inversion H; subst; clear H.
  apply st_okb_cons in Hs as [A Hs]. destruct (L _ _ Hs H1) as [G1 K1].
  split.
  - rewrite trun_one. cbn [tstep fst snd]. rewrite ?go_trun. destruct s1 as [st1 u1]. cbn [fst snd] in *.
    rewrite G1. reflexivity.
  - destruct s1. apply st_okb_cons; auto.
Qed.

Lemma split_at_ok k l p : split_at k l = Ok p -> l = fst p ++ snd p /\ length (fst p) = k.
Proof.
  unfold split_at. destruct (Nat.leb k (length l)) eqn:E; [|discriminate]. intros H; inversion H; subst; cbn.
  apply Nat.leb_le in E. rewrite firstn_skipn, firstn_length. split; auto. lia.
Qed.
Lemma split_at_app l r : split_at (length l) (l ++ r) = Ok (l, r).
Proof.
  unfold split_at. rewrite app_length. replace (Nat.leb (length l) (length l + length r)) with true
    by (symmetry; apply Nat.leb_le; lia).
  rewrite firstn_app, Nat.sub_diag, firstn_all, skipn_app, Nat.sub_diag, skipn_all. cbn. rewrite app_nil_r. reflexivity.
Qed.
Lemma iso_ok run o args u s' : iso run o args u = Ok s' -> run (args, u) = Ok s' /\ length (fst s') = o.
Proof.
  unfold iso. intros H. apply bind_ok in H as (s1 & H1 & H). destruct (Nat.eqb (length (fst s1)) o) eqn:E; [|discriminate].
  inversion H; subst. apply Nat.eqb_eq in E. auto.
Qed.
Lemma iso_of (run : st -> res st) o args u s' : run (args, u) = Ok s' -> length (fst s') = o -> iso run o args u = Ok s'.
Proof. unfold iso. intros -> <-. cbn [bind]. rewrite Nat.eqb_refl. reflexivity. Qed.

(** two operands run one after the other on their own arguments, outputs stacked (second on top):
    the common shape of both / un-both / bracket / un-bracket *)
Definition two_iso (r1 r2 : st -> res st) (o1 o2 : nat) (x1 x2 rest u : list arr) : res st :=
  s1 <- iso r1 o1 x1 u ;; s2 <- iso r2 o2 x2 (snd s1) ;; Ok (fst s2 ++ fst s1 ++ rest, snd s2).

(** general cancellation: running (r1 on x1, then r2 on x2) and then the inverses in the opposite
    order (g2 on r2's outputs, then g1 on r1's outputs) restores everything *)
Lemma two_iso_cancel f1 g1 f2 g2 o1 o2 x1 x2 rest u s' :
  law f1 g1 -> law f2 g2 -> st_okb (x2 ++ x1 ++ rest, u) = true ->
  two_iso (trun f1) (trun f2) o1 o2 x1 x2 rest u = Ok s' ->
  exists y1 y2 u1 u', s' = (y2 ++ y1 ++ rest, u') /\ length y1 = o1 /\ length y2 = o2 /\
    iso (trun g2) (length x2) y2 u' = Ok (x2, u1) /\ iso (trun g1) (length x1) y1 u1 = Ok (x1, u) /\
    st_okb s' = true.
Proof.
  intros L1 L2 Hs H. unfold two_iso in H. apply bind_ok in H as (s1 & H1 & H). apply bind_ok in H as (s2 & H2 & H).
  inversion H; subst; clear H. apply iso_ok in H1 as [R1 O1]. apply iso_ok in H2 as [R2 O2].
  apply st_okb_app in Hs as [K2 Hs]. apply st_okb_app in Hs as [K1 Hs]. apply st_okb_u in Hs as [Kr Ku].
  assert (S1 : st_okb (x1, u) = true) by (apply st_okb_u; auto).
  destruct (L1 _ _ S1 R1) as [G1 Q1]. destruct s1 as [y1 u1]. cbn [fst snd] in *.
  apply st_okb_u in Q1 as [Qy1 Qu1].
  assert (S2 : st_okb (x2, u1) = true) by (apply st_okb_u; auto).
  destruct (L2 _ _ S2 R2) as [G2 Q2]. destruct s2 as [y2 u2]. cbn [fst snd] in *.
  apply st_okb_u in Q2 as [Qy2 Qu2].
  exists y1, y2, u1, u2. repeat split; auto.
  - apply iso_of; auto.
  - apply iso_of; auto.
  - apply st_okb_app; split; auto. apply st_okb_app; split; auto. apply st_okb_u; auto.
Qed.

Lemma split2 a a' stk p q : split_at a stk = Ok p -> split_at a' (snd p) = Ok q ->
  stk = fst p ++ fst q ++ snd q /\ length (fst p) = a /\ length (fst q) = a'.
Proof.
  intros H1 H2. apply split_at_ok in H1 as [E1 L1]. apply split_at_ok in H2 as [E2 L2].
  rewrite E1 at 1. rewrite E2 at 1. auto.
Qed.
Lemma split2_of (x y rest : list arr) :
  split_at (length x) (x ++ y ++ rest) = Ok (x, y ++ rest) /\ split_at (length y) (y ++ rest) = Ok (y, rest).
Proof. split; apply split_at_app. Qed.

Lemma law_dipn k f g : law f g -> law [TDipN k f] [TDipN k g].
Proof.
  intros L [stk u] s' Hs H. stp H. rewrite ?go_trun in H.
  apply bind_ok in H as (p & Hp & H). apply bind_ok in H as (s1 & H1 & H). inversion H; subst; clear H.
  apply split_at_ok in Hp as [E Lk]. destruct p as [top rest]. cbn [fst snd] in *. subst stk.
  apply st_okb_app in Hs as [Kt Hs]. destruct (L _ _ Hs H1) as [G1 K1]. destruct s1 as [st1 u1]. cbn [fst snd] in *.
  split.
  - rewrite trun_one. cbn [tstep fst snd]. rewrite ?go_trun. rewrite <- Lk, split_at_app. cbn [bind fst snd].
    change (s' <- trun g (st1, u1) ;; Ok (top ++ fst s', snd s') = Ok (top ++ rest, u)).
    rewrite G1. reflexivity.
  - apply st_okb_app; auto.
Qed.

Lemma law_both a o f g : law f g -> law [TBoth a o f] [TUnBoth o a g].
Proof.
  intros L [stk u] s' Hs H. stp H. rewrite ?go_trun in H.
  apply bind_ok in H as (p & Hp & H). apply bind_ok in H as (q & Hq & H).
  destruct (split2 _ _ _ _ _ Hp Hq) as (E & La & La'). destruct p as [x2 r0], q as [x1 rest]. cbn [fst snd] in *. subst stk.
  change (two_iso (trun f) (trun f) o o x1 x2 rest u = Ok s') in H.
  destruct (two_iso_cancel f g f g o o x1 x2 rest u s' L L Hs H) as (y1 & y2 & u1 & u' & -> & O1 & O2 & C2 & C1 & K).
  split; auto. rewrite trun_one. cbn [tstep fst snd].
  destruct (split2_of y2 y1 rest) as [S1 S2]. rewrite O2 in S1. rewrite O1 in S2. rewrite S1. cbn [bind snd fst]. rewrite S2. cbn [bind snd fst].
  rewrite La in C2. rewrite La' in C1.
  change (s1 <- iso (trun g) a y2 u' ;; s2 <- iso (trun g) a y1 (snd s1) ;; Ok (fst s1 ++ fst s2 ++ rest, snd s2) = Ok (x2 ++ x1 ++ rest, u)).
  rewrite C2. cbn [bind snd fst]. rewrite C1. reflexivity.
Qed.

Lemma law_unboth a o f g : law f g -> law [TUnBoth a o f] [TBoth o a g].
Proof.
  intros L [stk u] s' Hs H. stp H. rewrite ?go_trun in H.
  apply bind_ok in H as (p & Hp & H). apply bind_ok in H as (q & Hq & H).
  destruct (split2 _ _ _ _ _ Hp Hq) as (E & La & La'). destruct p as [x1 r0], q as [x2 rest]. cbn [fst snd] in *. subst stk.
  (* un-both runs the TOP group first: outputs y1 (of x1) end up on top *)
  apply bind_ok in H as (s1 & H1 & H). apply bind_ok in H as (s2 & H2 & H). inversion H; subst; clear H.
  apply iso_ok in H1 as [R1 O1]. apply iso_ok in H2 as [R2 O2].
  apply st_okb_app in Hs as [K1 Hs]. apply st_okb_app in Hs as [K2 Hs]. apply st_okb_u in Hs as [Kr Ku].
  assert (S1 : st_okb (x1, u) = true) by (apply st_okb_u; auto).
  destruct (L _ _ S1 R1) as [G1 Q1]. destruct s1 as [y1 u1]. cbn [fst snd] in *. apply st_okb_u in Q1 as [Qy1 Qu1].
  assert (S2 : st_okb (x2, u1) = true) by (apply st_okb_u; auto).
  destruct (L _ _ S2 R2) as [G2 Q2]. destruct s2 as [y2 u2]. cbn [fst snd] in *. apply st_okb_u in Q2 as [Qy2 Qu2].
  split.
  - rewrite trun_one. cbn [tstep fst snd]. rewrite ?go_trun.
    destruct (split2_of y1 y2 rest) as [T1 T2]. rewrite O1 in T1. rewrite O2 in T2. rewrite T1. cbn [bind snd fst]. rewrite T2. cbn [bind snd fst].
    (* both runs the LOWER group first *)
    rewrite (iso_of (trun g) _ y2 u2 (x2, u1)) by auto. cbn [bind snd fst].
    rewrite (iso_of (trun g) _ y1 u1 (x1, u)) by auto. cbn [bind snd fst]. reflexivity.
  - apply st_okb_app; split; auto. apply st_okb_app; split; auto. apply st_okb_u; auto.
Qed.

Lemma law_bracket a o f g a' o' f' g' : law f g -> law f' g' ->
  law [TBracket a o f a' o' f'] [TUnBracket o a g o' a' g'].
Proof.
  intros L L' [stk u] s' Hs H. stp H. rewrite ?go_trun in H.
  apply bind_ok in H as (p & Hp & H). apply bind_ok in H as (q & Hq & H).
  destruct (split2 _ _ _ _ _ Hp Hq) as (E & La & La'). destruct p as [x2 r0], q as [x1 rest]. cbn [fst snd] in *. subst stk.
  change (two_iso (trun f') (trun f) o' o x1 x2 rest u = Ok s') in H.
  destruct (two_iso_cancel f' g' f g o' o x1 x2 rest u s' L' L Hs H) as (y1 & y2 & u1 & u' & -> & O1 & O2 & C2 & C1 & K).
  split; auto. rewrite trun_one. cbn [tstep fst snd].
  destruct (split2_of y2 y1 rest) as [S1 S2]. rewrite O2 in S1. rewrite O1 in S2. rewrite S1. cbn [bind snd fst]. rewrite S2. cbn [bind snd fst].
  rewrite La in C2. rewrite La' in C1.
  change (s1 <- iso (trun g) a y2 u' ;; s2 <- iso (trun g') a' y1 (snd s1) ;; Ok (fst s1 ++ fst s2 ++ rest, snd s2) = Ok (x2 ++ x1 ++ rest, u)).
  rewrite C2. cbn [bind snd fst]. rewrite C1. reflexivity.
Qed.

Lemma law_unbracket a o f g a' o' f' g' : law f g -> law f' g' ->
  law [TUnBracket a o f a' o' f'] [TBracket o a g o' a' g'].
Proof.
  intros L L' [stk u] s' Hs H. stp H. rewrite ?go_trun in H.
  apply bind_ok in H as (p & Hp & H). apply bind_ok in H as (q & Hq & H).
  destruct (split2 _ _ _ _ _ Hp Hq) as (E & La & La'). destruct p as [x1 r0], q as [x2 rest]. cbn [fst snd] in *. subst stk.
  apply bind_ok in H as (s1 & H1 & H). apply bind_ok in H as (s2 & H2 & H). inversion H; subst; clear H.
  apply iso_ok in H1 as [R1 O1]. apply iso_ok in H2 as [R2 O2].
  apply st_okb_app in Hs as [K1 Hs]. apply st_okb_app in Hs as [K2 Hs]. apply st_okb_u in Hs as [Kr Ku].
  assert (S1 : st_okb (x1, u) = true) by (apply st_okb_u; auto).
  destruct (L _ _ S1 R1) as [G1 Q1]. destruct s1 as [y1 u1]. cbn [fst snd] in *. apply st_okb_u in Q1 as [Qy1 Qu1].
  assert (S2 : st_okb (x2, u1) = true) by (apply st_okb_u; auto).
  destruct (L' _ _ S2 R2) as [G2 Q2]. destruct s2 as [y2 u2]. cbn [fst snd] in *. apply st_okb_u in Q2 as [Qy2 Qu2].
  split.
  - rewrite trun_one. cbn [tstep fst snd]. rewrite ?go_trun.
    destruct (split2_of y1 y2 rest) as [T1 T2]. rewrite O1 in T1. rewrite O2 in T2. rewrite T1. cbn [bind snd fst]. rewrite T2. cbn [bind snd fst].
    rewrite (iso_of (trun g') _ y2 u2 (x2, u1)) by auto. cbn [bind snd fst].
    rewrite (iso_of (trun g) _ y1 u1 (x1, u)) by auto. cbn [bind snd fst]. reflexivity.
  - apply st_okb_app; split; auto. apply st_okb_app; split; auto. apply st_okb_u; auto.
Qed.

(* ------------------------------------------------------------------ the theorems *)

(** `°F F x = x`: whenever F maps an admissible state s (integers exactly representable, arrays
    well-formed) to s', the emitted inverse maps s' back to s - on the stack AND on the context stack *)
Theorem inv_left f g : Inv1 f g -> law f g.
Proof.
  induction 1; auto using law_nil, law_prim, law_lit, law_rsub, law_dipn, law_seq, law_dip, law_both, law_unboth,
    law_bracket, law_unbracket.
Qed.

Theorem inv_involutive f g : Inv f g -> Inv g f.
Proof. intros [A B]; split; auto. Qed.

(** `F °F y = y` for every y in the range of F, i.e. every y the inverse accepts *)
Theorem inv_right f g : Inv f g -> law g f.
Proof. intros [_ B]. apply inv_left; auto. Qed.

(** the inverse of the inverse behaves exactly like F on F's domain:
    if °F is validated against F and °°F against °F, then °°F agrees with F wherever F succeeds *)
Theorem inv_inv_same f g h : Inv1 f g -> Inv1 g h -> forall s s', st_okb s = true ->
  trun f s = Ok s' -> trun h s = Ok s'.
Proof.
  intros A B s s' Hs H. destruct (inv_left _ _ A s s' Hs H) as [G K].
  destruct (inv_left _ _ B s' s K G) as [G' _]. exact G'.
Qed.

(* ------------------------------------------------------------------ un of a join after a dip *)

(** The engine BEFORE commit 8f54207 ([cinv false]): for `⊂⊙¯` it emitted `UnJoin ¯` - the inverse of
    the dipped function without its dip - which is no inverse: on 3 [¯4] (F gives [3 4]) it returns
    ¯3 [4].  A statement about the model of the OLD code; the input is replayed on the implementation
    on every run (harness/src/bin/c03.rs DIRECTED, regression:join-dip). *)
Definition dipjoin_f : list tn := [TDip [TP P_Neg]; TP P_Join].
Definition dipjoin_s : st := ([num 3; Arr TNum [1%nat] [ENum (-4)]], []).
Theorem un_join_dip_refuted_pre : exists g s',
  cinv false (S (lsize dipjoin_f)) dipjoin_f = Some g /\ st_okb dipjoin_s = true /\
  trun dipjoin_f dipjoin_s = Ok s' /\ trun g s' <> Ok dipjoin_s.
Proof.
  exists [TP P_UnJoin; TP P_Neg], ([Arr TNum [2%nat] [ENum 3; ENum 4]], []).
  split; [vm_compute; reflexivity|]. split; [vm_compute; reflexivity|]. split; [vm_compute; reflexivity|].
  vm_compute. discriminate.
Qed.

(** The CURRENT engine keeps the dip, and that is an inverse: for every join-free monadic straight
    line g of the catalogue whose inverse the engine derives as gi, `UnJoin ⊙gi` undoes `⊙g ⊂` on every
    admissible state on which it succeeds *)
Theorem un_join_dip_current : forall fuel g gi, cinv true fuel g = Some gi ->
  law [TDip g; TP P_Join] [TP P_UnJoin; TDip gi].
Proof.
  intros fuel g gi H. apply inv_left.
  change [TDip g; TP P_Join] with ([TDip g] ++ [TP P_Join]).
  change [TP P_UnJoin; TDip gi] with ([TP P_UnJoin] ++ [TDip gi]).
  apply I_seq; [apply I_dip; eapply cinv_sound; eauto | apply I_prim; reflexivity].
Qed.
(** ... this is what the current model derives for the former counterexample, and it restores it *)
Theorem un_join_dip_witness_current :
  cinv true (S (lsize dipjoin_f)) dipjoin_f = Some [TP P_UnJoin; TDip [TP P_Neg]] /\
  exists s', trun dipjoin_f dipjoin_s = Ok s' /\ trun [TP P_UnJoin; TDip [TP P_Neg]] s' = Ok dipjoin_s.
Proof.
  split; [vm_compute; reflexivity|].
  exists ([Arr TNum [2%nat] [ENum 3; ENum 4]], []). split; vm_compute; reflexivity.
Qed.

(* ------------------------------------------------------------------ un of a join: the engine at 8f54207 *)

(** Records about the model of the engine AT commit 8f54207 ([inv_8f5]); both inputs are replayed on the
    implementation on every run (harness/src/bin/c03.rs DIRECTED regression:nonchain / segment-order)
    and the model reproduces what that engine returned for them. *)
Definition nonchain_before : list tn := [TDip [TP P_Join; TP P_Neg]].              (* ⊙(¯⊂), then ⊂ *)
Definition nonchain_s : st := ([num 1; num 2; Arr TNum [2%nat] [ENum 3; ENum 4]], []).
Definition segorder_before : list tn := [TP P_Neg; TDip [TP P_Neg]; TPush 1; TP P_Add].   (* ¯ ⊙¯ +1, then ⊂ *)
Definition segorder_s : st := ([num 3; Arr TNum [1%nat] [ENum 4]], []).

(** a dipped function that contains a join was flattened: `°(⊂⊙(¯⊂))` was `2 UnJoinShape ¯ UnJoin`,
    which turns [1 ¯2 ¯3 ¯4] into ¯1 [2] [¯3 ¯4] instead of 1 2 [3 4] *)
Theorem un_join_nonchain_refuted_pre : exists g s',
  inv_8f5 nonchain_before = Some g /\ st_okb nonchain_s = true /\
  trun (nonchain_before ++ [TP P_Join]) nonchain_s = Ok s' /\
  trun g s' = Ok ([num (-1); Arr TNum [1%nat] [ENum 2]; Arr TNum [2%nat] [ENum (-3); ENum (-4)]], []) /\
  trun g s' <> Ok nonchain_s.
Proof.
  exists [TPush 2; TP P_UnJoinShape; TP P_Neg; TP P_UnJoin],
         ([Arr TNum [4%nat] [ENum 1; ENum (-2); ENum (-3); ENum (-4)]], []).
  split; [vm_compute; reflexivity|]. split; [vm_compute; reflexivity|]. split; [vm_compute; reflexivity|].
  split; [vm_compute; reflexivity|]. vm_compute. discriminate.
Qed.

(** the inverses of the pieces were applied in forward order: `°(⊂+1⊙¯¯)` was `UnJoin ¯ ⊙¯ -1`,
    which turns [¯2 ¯4] into 1 [4] instead of 3 [4] *)
Theorem un_join_segment_order_refuted_pre : exists g s',
  inv_8f5 segorder_before = Some g /\ st_okb segorder_s = true /\
  trun (segorder_before ++ [TP P_Join]) segorder_s = Ok s' /\
  trun g s' = Ok ([num 1; Arr TNum [1%nat] [ENum 4]], []) /\ trun g s' <> Ok segorder_s.
Proof.
  exists [TP P_UnJoin; TP P_Neg; TDip [TP P_Neg]; TPush 1; TP P_Sub],
         ([Arr TNum [2%nat] [ENum (-2); ENum (-4)]], []).
  split; [vm_compute; reflexivity|]. split; [vm_compute; reflexivity|]. split; [vm_compute; reflexivity|].
  split; [vm_compute; reflexivity|]. vm_compute. discriminate.
Qed.

(** The CURRENT rule (2e21ff6 + 6d27c00: every dipped piece inverted as a dip, the pieces' inverses in
    reverse order) is the general rule of sequences, and it is an inverse: whatever modelled function
    [before] runs in front of the join - dipped pieces that contain joins, pieces on both sides of a
    dip, nested dips, both, bracket - `UnJoin` followed by the engine's inverse of [before] undoes
    `before ⊂` on every admissible state on which it succeeds *)
Theorem un_join_current : forall fuel before bi, cinv true fuel before = Some bi ->
  law (before ++ [TP P_Join]) (TP P_UnJoin :: bi).
Proof.
  intros fuel before bi H. apply inv_left.
  change (TP P_UnJoin :: bi) with ([TP P_UnJoin] ++ bi).
  apply I_seq; [eapply cinv_sound; eauto | apply I_prim; reflexivity].
Qed.

(** ... it is what the current model derives for the two former counterexamples (and what the real
    compiler emits: validated by the V tie on every run), and it restores them *)
Theorem un_join_witnesses_current :
  cinv true 30 (nonchain_before ++ [TP P_Join]) = Some [TP P_UnJoin; TDip [TP P_Neg; TP P_UnJoin]] /\
  cinv true 30 (segorder_before ++ [TP P_Join]) = Some [TP P_UnJoin; TPush 1; TP P_Sub; TDip [TP P_Neg]; TP P_Neg] /\
  (exists s', trun (nonchain_before ++ [TP P_Join]) nonchain_s = Ok s' /\
              trun [TP P_UnJoin; TDip [TP P_Neg; TP P_UnJoin]] s' = Ok nonchain_s) /\
  (exists s', trun (segorder_before ++ [TP P_Join]) segorder_s = Ok s' /\
              trun [TP P_UnJoin; TPush 1; TP P_Sub; TDip [TP P_Neg]; TP P_Neg] s' = Ok segorder_s).
Proof.
  split; [vm_compute; reflexivity|]. split; [vm_compute; reflexivity|]. split.
  - exists ([Arr TNum [4%nat] [ENum 1; ENum (-2); ENum (-3); ENum (-4)]], []). split; vm_compute; reflexivity.
  - exists ([Arr TNum [2%nat] [ENum (-2); ENum (-4)]], []). split; vm_compute; reflexivity.
Qed.

(* ------------------------------------------------------------------ the extended catalogue, stated per template *)

Theorem catalogue_ext_laws :
  (forall c, c <> 0%Z -> law [TPush c; TP P_Mul] [TPush c; TP P_Div]) /\
  (forall c, c <> 0%Z -> law [TPush c; TP P_Div] [TPush c; TP P_Mul]) /\
  (forall c, law [TPush c; TP P_Flip; TP P_Sub] [TPush c; TP P_Flip; TP P_Sub]) /\
  (forall k f g, Inv1 f g -> law [TDipN k f] [TDipN k g]).
Proof.
  split; [|split; [|split]].
  - intros c Hc. apply law_lit. cbn. destruct (Z.eqb_spec c 0); [contradiction|reflexivity].
  - intros c Hc. apply law_lit. cbn. destruct (Z.eqb_spec c 0); [contradiction|reflexivity].
  - apply law_rsub.
  - intros k f g H. apply law_dipn. apply inv_left; auto.
Qed.
