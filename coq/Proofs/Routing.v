(** C07 — the argument-routing modifiers of the interpreter spine (Model/Exec.v, transcribed from
    run_prim.rs run_prim_mod and run.rs prepare_fork / dup_values / rotate_up): the final stack is
    the documented rearrangement (parser/src/defs.rs:160-340).  The operands' frame behaviour
    ("consumes its arguments, leaves its outputs, touches nothing beneath") is a premise; for
    checked operands Frame.sig_sound provides it. *)
From Coq Require Import List ZArith NArith Bool Lia PeanoNat.
From UV Require Import Model.Node Model.Sig Model.Exec.
Import ListNotations.

Lemma firstn_exact {A} (a r : list A) n : length a = n -> firstn n (a ++ r) = a.
Proof. intros <-. rewrite firstn_app, Nat.sub_diag, firstn_all. cbn. apply app_nil_r. Qed.
Lemma skipn_exact {A} (a r : list A) n : length a = n -> skipn n (a ++ r) = r.
Proof. intros <-. rewrite skipn_app, Nat.sub_diag, skipn_all. reflexivity. Qed.
Lemma set_stk_self (s : rt) st : stk s = st -> set_stk s st = s.
Proof. intros <-. destruct s; reflexivity. Qed.
Lemma need_app (s : rt) n : n <= length (stk s) -> need n s = true.
Proof. intros. unfold need. apply Nat.leb_le; auto. Qed.

Section Routing.
  Variable pknown : N -> list sval -> bool.
  Variable psem : N -> option (list sval) -> list sval -> option (list sval).
  Variable arrsem : bool -> list sval -> option sval.
  Variable unpacksem : nat -> bool -> sval -> option (list sval).
  Variable fmtsem : list sval -> sval.
  Variable asm : list node.
  Notation exec := (Exec.exec pknown psem arrsem unpacksem fmtsem asm).

  (** [F] run from state [s] with the stack replaced by [st] ends in [s'] with stack [st'] *)
  Definition runs (fuel : nat) (f : node) (s : rt) (st : list sval) (s' : rt) (st' : list sval) : Prop :=
    exec fuel f (set_stk s st) = Ok s' /\ stk s' = st'.
  Definition ends (r : res) (st : list sval) : Prop := exists s', r = Ok s' /\ stk s' = st.

  (* dip: "Temporarily pop the first argument, call the function, push it back" *)
  Theorem dip_spec fuel sg f s x rest s2 outs rest' :
    stk s = x :: rest -> runs fuel f s rest s2 (outs ++ rest') ->
    ends (exec (S fuel) (Mod MDip [(sg, f)]) s) (x :: outs ++ rest').
  Proof. intros E [R S2]. cbn [Exec.exec]. rewrite E, R. cbn [bind]. eexists; split; eauto. cbn. rewrite S2; auto. Qed.

  (* gap: "Discard the first argument then call a function" *)
  Theorem gap_spec fuel sg f s x rest s2 st2 :
    stk s = x :: rest -> runs fuel f s rest s2 st2 ->
    ends (exec (S fuel) (Mod MGap [(sg, f)]) s) st2.
  Proof. intros E [R S2]. cbn [Exec.exec]. rewrite E, R. eexists; split; eauto. Qed.

  (* on: "keep its first argument before its outputs" *)
  Theorem on_spec fuel sg f s x rest s2 outs rest' :
    stk s = x :: rest -> runs fuel f s (x :: rest) s2 (outs ++ rest') ->
    ends (exec (S fuel) (Mod MOn [(sg, f)]) s) (x :: outs ++ rest').
  Proof.
    intros E [R S2]. rewrite set_stk_self in R by auto. cbn [Exec.exec]. rewrite E, R. cbn [bind].
    eexists; split; eauto. cbn. rewrite S2; auto.
  Qed.

  (* by: "keep its last argument after its outputs" *)
  Theorem by_spec fuel sg f s args last rest s2 outs :
    stk s = args ++ last :: rest -> S (length args) = Nat.max (sa sg) 1 ->
    runs fuel f s (args ++ last :: last :: rest) s2 (outs ++ last :: rest) ->
    ends (exec (S fuel) (Mod MBy [(sg, f)]) s) (outs ++ last :: rest).
  Proof.
    intros E L [R S2]. cbn [Exec.exec]. rewrite <- L.
    rewrite need_app by (rewrite E, app_length; cbn; lia). cbn [negb].
    replace (S (length args) - 1) with (length args) by lia.
    rewrite E. rewrite nth_error_app2, Nat.sub_diag by lia. cbn [nth_error].
    replace (args ++ last :: rest) with ((args ++ [last]) ++ rest) by (rewrite <- app_assoc; reflexivity).
    rewrite firstn_exact, skipn_exact by (rewrite app_length; cbn; lia).
    rewrite <- app_assoc. cbn [app]. rewrite R. eexists; split; eauto.
  Qed.

  (* with: "keep its last argument before its outputs" *)
  Theorem with_spec fuel sg f s args last rest s2 outs rest' :
    stk s = args ++ last :: rest -> S (length args) = sa sg ->
    runs fuel f s (args ++ last :: rest) s2 (outs ++ rest') ->
    ends (exec (S fuel) (Mod MWith [(sg, f)]) s) (last :: outs ++ rest').
  Proof.
    intros E L [R S2]. cbn [Exec.exec]. rewrite <- L. cbn [Nat.eqb].
    replace (S (length args) - 1) with (length args) by lia.
    rewrite set_stk_self in R by auto.
    rewrite E. rewrite nth_error_app2, Nat.sub_diag by lia. cbn [nth_error]. rewrite R. cbn [bind].
    eexists; split; eauto. cbn. rewrite S2; auto.
  Qed.

  (* off: "keep its first argument after its outputs" *)
  Theorem off_spec fuel sg f s x rest s2 outs rest' :
    stk s = x :: rest -> length outs = so sg -> runs fuel f s (x :: rest) s2 (outs ++ rest') ->
    ends (exec (S fuel) (Mod MOff [(sg, f)]) s) (outs ++ x :: rest').
  Proof.
    intros E L [R S2]. rewrite set_stk_self in R by auto. cbn [Exec.exec]. rewrite E, R. cbn [bind].
    rewrite need_app by (rewrite S2, app_length; lia). cbn [negb].
    eexists; split; eauto. cbn. rewrite S2, firstn_exact, skipn_exact; auto.
  Qed.

  (* above: "Keep all arguments to a function before the outputs" *)
  Theorem above_spec fuel sg f s args rest s2 outs rest' :
    stk s = args ++ rest -> length args = sa sg -> runs fuel f s (args ++ rest) s2 (outs ++ rest') ->
    ends (exec (S fuel) (Mod MAbove [(sg, f)]) s) (args ++ outs ++ rest').
  Proof.
    intros E L [R S2]. cbn [Exec.exec]. rewrite <- L.
    rewrite need_app by (rewrite E, app_length; lia). cbn [negb].
    rewrite set_stk_self in R by auto. rewrite R. cbn [bind].
    eexists; split; eauto. cbn. rewrite E, firstn_exact, S2; auto.
  Qed.

  (* below: "Keep all arguments to a function after the outputs" *)
  Theorem below_spec fuel sg f s args rest s2 outs :
    stk s = args ++ rest -> length args = sa sg -> runs fuel f s (args ++ args ++ rest) s2 (outs ++ args ++ rest) ->
    ends (exec (S fuel) (Mod MBelow [(sg, f)]) s) (outs ++ args ++ rest).
  Proof.
    intros E L [R S2]. cbn [Exec.exec]. rewrite <- L.
    rewrite need_app by (rewrite E, app_length; lia). cbn [negb].
    rewrite E, firstn_exact by auto. rewrite R. eexists; split; eauto.
  Qed.

  (* both: "calls the function on the 2 sets of n arguments" *)
  Theorem both_spec fuel sg f s a1 a2 rest s2 o2 s3 o1 :
    stk s = a1 ++ a2 ++ rest -> length a1 = sa sg ->
    runs fuel f s (a2 ++ rest) s2 (o2 ++ rest) ->
    runs fuel f s2 (a1 ++ o2 ++ rest) s3 (o1 ++ o2 ++ rest) ->
    ends (exec (S fuel) (Mod MBoth [(sg, f)]) s) (o1 ++ o2 ++ rest).
  Proof.
    intros E L [R S2] [R3 S3]. cbn [Exec.exec]. rewrite <- L.
    rewrite need_app by (rewrite E, app_length; lia). cbn [negb].
    rewrite E, firstn_exact, skipn_exact by auto. rewrite R. cbn [bind]. rewrite S2, R3.
    eexists; split; eauto.
  Qed.

  (* bracket: "Call two functions on two distinct sets of values" *)
  Theorem bracket_spec fuel sf f sg g s a1 a2 rest s2 o2 s3 o1 :
    stk s = a1 ++ a2 ++ rest -> length a1 = sa sf ->
    runs fuel g s (a2 ++ rest) s2 (o2 ++ rest) ->
    runs fuel f s2 (a1 ++ o2 ++ rest) s3 (o1 ++ o2 ++ rest) ->
    ends (exec (S fuel) (Mod MBracket [(sf, f); (sg, g)]) s) (o1 ++ o2 ++ rest).
  Proof.
    intros E L [R S2] [R3 S3]. cbn [Exec.exec]. rewrite <- L.
    rewrite need_app by (rewrite E, app_length; lia). cbn [negb].
    rewrite E, firstn_exact, skipn_exact by auto. rewrite R. cbn [bind]. rewrite S2, R3.
    eexists; split; eauto.
  Qed.

  (* fork: "Call two functions on the same values"; "the number of arguments is the maximum.
     Functions that take fewer than the maximum will work on the top values." *)
  Theorem fork_spec fuel sf f sg g s args rest s2 og s3 of_ :
    stk s = args ++ rest -> length args = Nat.max (sa sf) (sa sg) ->
    runs fuel g s (firstn (sa sg) args ++ rest) s2 (og ++ rest) ->
    runs fuel f s2 (firstn (sa sf) args ++ og ++ rest) s3 (of_ ++ og ++ rest) ->
    ends (exec (S fuel) (Mod MFork [(sf, f); (sg, g)]) s) (of_ ++ og ++ rest).
  Proof.
    intros E L [R S2] [R3 S3]. cbn [Exec.exec].
    rewrite need_app by (rewrite E, app_length; lia). cbn [negb].
    assert (F1 : firstn (sa sf) (stk s) = firstn (sa sf) args).
    { rewrite E, firstn_app. replace (sa sf - length args) with 0 by lia. cbn. apply app_nil_r. }
    rewrite F1.
    assert (G1 : (if sa sg <? sa sf then firstn (sa sg) (stk s) ++ skipn (sa sf) (stk s) else stk s)
                 = firstn (sa sg) args ++ rest).
    { destruct (Nat.ltb_spec (sa sg) (sa sf)).
      - rewrite E, firstn_app. replace (sa sg - length args) with 0 by lia. cbn [firstn]. rewrite app_nil_r.
        rewrite skipn_exact by lia. reflexivity.
      - rewrite E. f_equal. symmetry. apply firstn_all2. lia. }
    rewrite G1, R. cbn [bind]. rewrite S2, R3. eexists; split; eauto.
  Qed.
End Routing.

(** * fork and bracket with a pack of n functions (Model/RoutePack.v) *)
From UV Require Import Model.RoutePack.

Section PackLaws.
  Variable V : Type.
  Notation fn := (RoutePack.fn V).

  Lemma max_args_ge (ops : list fn) f : In f ops -> fst f <= max_args V ops.
  Proof. unfold max_args. induction ops; cbn [In fold_right]; [tauto|]. intros [<-|H]; [lia|]. specialize (IHops H). lia. Qed.

  Lemma F2_length {A B} (R : A -> B -> Prop) l l' : Forall2 R l l' -> length l = length l'.
  Proof. induction 1; cbn; auto. Qed.

  Lemma comb_app {A B} (l1 l2 : list A) (m1 m2 : list B) : length l1 = length m1 ->
    combine (l1 ++ l2) (m1 ++ m2) = combine l1 m1 ++ combine l2 m2.
  Proof. revert m1; induction l1; destruct m1; cbn; intros; try discriminate; auto. f_equal; auto. Qed.

  Lemma run_fn_routed (f : fn) (a t o : list V) : length a = fst f -> snd f a = Some o ->
    run_fn V f (a ++ t) = Some (o ++ t).
  Proof.
    intros L H. unfold run_fn. rewrite app_length.
    replace (length a + length t <? fst f) with false by (symmetry; apply Nat.ltb_ge; lia).
    rewrite firstn_exact, skipn_exact by auto. rewrite H. reflexivity.
  Qed.

  (** the n-ary fork routing law: every function of the pack receives the top [sa f] of the
      [max sa] arguments; the results lie in pack order on what was beneath *)
  Theorem fork_pack_spec (ops : list fn) (args rest : list V) (outs : list (list V)) :
    ops <> [] -> length args = max_args V ops ->
    Forall2 (fun op o => snd op (firstn (fst op) args) = Some o) ops outs ->
    fork_pack V false ops (args ++ rest) = Some (concat outs ++ rest).
  Proof.
    intros Hne L F. unfold fork_pack. rewrite app_length.
    replace (length args + length rest <? max_args V ops) with false by (symmetry; apply Nat.ltb_ge; lia).
    rewrite firstn_exact, skipn_exact by auto.
    destruct ops as [|first others]; [congruence|]. inversion F as [|? o1 ? lo H1 Ft]; subst.
    assert (Hfold : forall (l : list fn) lo', Forall2 (fun op o => snd op (firstn (fst op) args) = Some o) l lo' ->
              (forall f, In f l -> fst f <= length args) ->
              fold_left (step V (fun op => firstn (fst op) args)) (rev l) (Some rest) = Some (concat lo' ++ rest)).
    { induction 1 as [|a o l lo' Ha _ IH]; intros Hle; cbn [rev fold_left concat app]; auto.
      rewrite fold_left_app, IH by (intros; apply Hle; right; auto). cbn [fold_left step].
      rewrite (run_fn_routed a (firstn (fst a) args) _ o); auto.
      - rewrite app_assoc. reflexivity.
      - apply firstn_length_le. apply Hle; left; auto. }
    rewrite (Hfold others lo Ft).
    - rewrite (run_fn_routed first (firstn (fst first) args) _ o1); auto.
      + cbn [concat]. rewrite app_assoc. reflexivity.
      + apply firstn_length_le. rewrite L. apply max_args_ge. left; auto.
    - intros f Hf. rewrite L. apply max_args_ge. right; auto.
  Qed.

  (** the n-ary bracket routing law: consecutive argument groups, results in pack order *)
  Theorem bracket_pack_spec : forall (ops : list fn) (groups outs : list (list V)) (rest : list V),
    Forall2 (fun op g => length g = fst op) ops groups ->
    Forall2 (fun op_g o => snd (fst op_g) (snd op_g) = Some o) (combine ops groups) outs ->
    bracket_pack V ops (concat groups ++ rest) = Some (concat outs ++ rest).
  Proof.
    intros ops groups outs rest FG FO. unfold bracket_pack.
    destruct (rev ops) as [|last init_rev] eqn:ER.
    - apply (f_equal (@rev _)) in ER. rewrite rev_involutive in ER. subst ops. inversion FG; subst. inversion FO; subst. reflexivity.
    - apply (f_equal (@rev _)) in ER. rewrite rev_involutive in ER. cbn [rev] in ER. subst ops.
      set (init := rev init_rev) in *.
      apply Forall2_app_inv_l in FG. destruct FG as (gi & gl & FGi & FGl & ->).
      inversion FGl as [|? glast ? ? Hl Hnil]; subst. inversion Hnil; subst.
      assert (Lc : length init = length gi) by (eapply F2_length; eauto).
      rewrite comb_app in FO by auto. apply Forall2_app_inv_l in FO. destruct FO as (oi & ol & FOi & FOl & ->).
      cbn [combine] in FOl. inversion FOl as [|? olast ? ? Ho Hn2]; subst. inversion Hn2; subst. cbn [fst snd] in Ho.
      rewrite !concat_app. cbn [concat]. rewrite !app_nil_r, <- !app_assoc.
      assert (Hpop : forall (l : list fn) (gs : list (list V)) t, Forall2 (fun op g => length g = fst op) l gs ->
                pop_groups V l (concat gs ++ t) = Some (combine l gs, t)).
      { induction 1 as [|f g l gs Hg _ IH]; cbn [pop_groups concat combine app]; auto.
        rewrite <- app_assoc, app_length.
        replace (length g + length (concat gs ++ t) <? fst f) with false by (symmetry; apply Nat.ltb_ge; lia).
        rewrite skipn_exact, firstn_exact by auto. rewrite IH. reflexivity. }
      rewrite (Hpop init gi (glast ++ rest) FGi).
      rewrite (run_fn_routed last glast rest olast) by auto.
      assert (Hfold : forall (l : list (fn * list V)) lo s,
                Forall2 (fun op_g o => snd (fst op_g) (snd op_g) = Some o) l lo ->
                Forall (fun g => length (snd g) = fst (fst g)) l ->
                fold_left (fun acc g => match acc with Some s => run_fn V (fst g) (snd g ++ s) | None => None end)
                          (rev l) (Some s) = Some (concat lo ++ s)).
      { induction 1 as [|a o l lo Ha _ IH]; intros Hlen; cbn [rev fold_left concat app]; auto.
        inversion Hlen; subst. rewrite fold_left_app, IH by auto. cbn [fold_left].
        rewrite (run_fn_routed (fst a) (snd a) _ o); auto. rewrite app_assoc. reflexivity. }
      rewrite (Hfold (combine init gi) oi (olast ++ rest) FOi); auto.
      clear -FGi. induction FGi; cbn [combine]; constructor; auto.
  Qed.
End PackLaws.

(** the seeded defect (`.rev().take(k)` for the first function) breaks the law as soon as the first
    function takes fewer arguments than the maximum: `⊃(¯|+|×) 3 5` *)
Example fork_pack_mutant_refuted :
  let ops := [(1, fun a => match a with [x] => Some [Z.opp x] | _ => None end);
              (2, fun a => match a with [x; y] => Some [(y + x)%Z] | _ => None end);
              (2, fun a => match a with [x; y] => Some [(y * x)%Z] | _ => None end)] in
  fork_pack Z false ops [3; 5; 99]%Z = Some [-3; 8; 15; 99]%Z /\
  fork_pack Z true ops [3; 5; 99]%Z = Some [-5; 8; 15; 99]%Z.
Proof. split; reflexivity. Qed.
