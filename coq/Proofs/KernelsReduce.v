(** C07 — the typed reduce kernel at a depth (reduce.rs fast_reduce, the path that `≡/+`, `≡≡/↥` ...
    are fused into: ImplPrimitive::ReduceDepth / the Reduce arm of f_mon_fast_fn) is a blockwise
    kernel, hence reducing at depth d = d nested rows of the reduction. *)
From Coq Require Import List ZArith NArith Bool Arith Lia.
From UV Require Import Model.Prims Model.Kernels Proofs.Prims Proofs.KernelsBase Proofs.KernelsAtoms Proofs.Kernels.
Import ListNotations.

Lemma mapM_unspec_head {A B} (f : A -> res B) l : 0 < length l -> (forall a, In a l -> f a = Unspec) -> mapM f l = Unspec.
Proof. destruct l; cbn; [lia|]. intros _ H. rewrite H by (left; auto). reflexivity. Qed.

Lemma concat_const {A B} (r : list B) (l : list A) c e : r = repeat e c ->
  concat (map (fun _ => r) l) = repeat e (length l * c).
Proof.
  intros ->. induction l; cbn [map concat length Nat.mul]; auto. rewrite IHl, repeat_app. reflexivity.
Qed.

(** one block of shape [rs] reduced along its first axis *)
Definition red_block (o : pop2) (t : ety) (rs : list nat) (blk : list elem) : res (list elem) :=
  match t with
  | TNum =>
    match rs with
    | [] => Ok blk
    | n :: rest =>
        if Nat.eqb (prodn (n :: rest)) 0
        then match red_ident o with Some e => Ok (repeat e (prodn rest)) | None => Unspec end
        else match chunk (prodn rest) n blk with
             | [] => Ok []
             | a :: t => fold_rows (pel_acc o) a t end end
  | _ => Unspec end.
Definition bk_red (o : pop2) : bk := BK (@tl nat) (fun t => t) (red_block o).

Lemma k_reduce_num_bk o d x : wf x -> lead_pos d (ash x) ->
  k_reduce_num o d x = run_bk (bk_red o) d x.
Proof.
  intros W L. apply lead_pos_dmin in L. apply lead_pos_prod in L.
  unfold k_reduce_num, run_bk, bk_red; cbn [bk_data bk_ty bk_shape]. unfold red_block.
  destruct (aty x) eqn:Et.
  - (* numbers *)
    destruct (skipn (dmin d x) (ash x)) as [|n rest] eqn:E.
    + (* nothing left to reduce: rank = depth *)
      rewrite (mapM_ok_map (fun b => b)), map_id. cbn [bind tl]. rewrite blocks_concat, app_nil_r, skipn_nil_firstn by auto.
      destruct (Nat.eqb (length (ash x)) (dmin d x)); destruct x; cbn in *; subst; reflexivity.
    + assert (Hne : Nat.eqb (length (ash x)) (dmin d x) = false).
      { apply Nat.eqb_neq. intros Hq. pose proof (skipn_all (ash x)) as Ha. rewrite Hq in Ha at 1. rewrite Ha in E. discriminate. }
      rewrite Hne. cbn [tl].
      destruct (Nat.eqb (prodn (n :: rest)) 0) eqn:Z.
      * destruct (red_ident o) as [e|].
        -- rewrite (mapM_ok_map (fun _ => repeat e (prodn rest))). cbn [bind].
           rewrite (concat_const _ _ (prodn rest) e eq_refl), blocks_count. reflexivity.
        -- rewrite mapM_unspec_head; auto. rewrite blocks_count; auto.
      * reflexivity.
  - rewrite mapM_unspec_head; auto. rewrite blocks_count; auto.
  - rewrite mapM_unspec_head; auto. rewrite blocks_count; auto.
Qed.

Lemma lead_pos_0 sh : lead_pos 0 sh.
Proof. unfold lead_pos. cbn. constructor. Qed.

(** reduce_depth: the typed reduction at depth d is d nested rows of the same reduction, for
    every well-formed array (any element type, any rank) whose mapped axes are non-empty *)
Theorem reduce_depth_eq_rows : forall o d x, wf x -> lead_pos d (ash x) ->
  k_reduce_num o d x = rows_iter d (k_reduce_num o 0) x.
Proof.
  intros o d x W L. rewrite k_reduce_num_bk, run_bk_rows_iter by auto.
  apply rows_iter_ext; auto. intros y Wy. symmetry. apply k_reduce_num_bk; auto. apply lead_pos_0.
Qed.

(** end to end: what the interpreter runs for rows^(k+1) of `/o` on a number array (the fused
    reduction at a depth, limited to the rank) is k+1 nested rows of the reduction kernel *)
Theorem exec_rows_reduce_num : forall o k x, aty x = TNum -> wf x -> lead_pos (S k) (ash x) ->
  exec_mfn (rowsk (S k) (FReduce o)) x = rows_iter (S k) (k_reduce_num o 0) x.
Proof.
  intros o k x Et W L.
  rewrite (exec_rows_cap (FReduce o) [KReduce o] 0 k x eq_refl). rewrite Nat.add_0_r.
  cbn [run_kernels run_katom]. rewrite Et.
  change (Nat.min (S k) (length (ash x))) with (dmin (S k) x).
  rewrite (reduce_depth_eq_rows o _ x W (lead_pos_dmin (S k) x L)).
  rewrite (rows_iter_cap (k_reduce_num o 0) (S k) x W). unfold dmin.
  destruct (rows_iter (Nat.min (S k) (length (ash x))) (k_reduce_num o 0) x); reflexivity.
Qed.
