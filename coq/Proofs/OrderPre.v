(** C15: the code before the two "fix:" commits (model parameter fixed = false) violated
    transitivity and hash consistency.  Kept as machine-checked records of the defects. *)
From Coq Require Import List ZArith NArith Bool.
From UV Require Import Base.Value Model.Order.
Import ListNotations.

Definition wA := VNum [1;4]%nat [4607182418800017408; 4611686018427387904; 4613937818241073152; 4616189618054758400]%N.
Definition wB := VNum [2;1]%nat [4607182418800017408; 4611686018427387904]%N.
Definition wC := VNum [2;2]%nat [4607182418800017408; 4611686018427387904; 0; 0]%N.

Lemma cmp_transitive_refuted_pre :
  exists a b c, wf_shape a = true /\ wf_shape b = true /\ wf_shape c = true /\
    value_cmp false a b = Lt /\ value_cmp false b c = Lt /\ value_cmp false c a = Lt.
Proof. exists wA, wB, wC. repeat split; vm_compute; reflexivity. Qed.

(** complex numbers with NaN real part: equal but hashed differently *)
Definition wX := VCplx []%nat [(F_NAN_BITS, 4607182418800017408)]%N.
Definition wY := VCplx []%nat [(F_NAN_BITS, 4611686018427387904)]%N.
Lemma eq_hash_refuted_pre :
  exists a b, wf_shape a = true /\ wf_shape b = true /\ plain a = true /\ plain b = true /\
    value_eq false a b = true /\ value_hash false a <> value_hash false b.
Proof. exists wX, wY. repeat split; try (vm_compute; reflexivity). vm_compute. discriminate. Qed.

(** the same witnesses are ordered consistently by the repaired comparison *)
Lemma witnesses_repaired :
  value_cmp true wA wB = Gt /\ value_cmp true wB wC = Lt /\ value_cmp true wC wA = Lt /\
  value_eq true wX wY = false.
Proof. repeat split; vm_compute; reflexivity. Qed.
