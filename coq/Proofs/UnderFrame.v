(** C04, second half: `under` leaves no residue in the hidden context stack.
    Corollaries of the frame theorem [sig_sound] (Proofs/Frame.v) for the shape
    [before ; G ; after] that the compiler builds for `⍜F G` (compile/modifier.rs Under:
    `before.node, g.node, after.node`), for EVERY G. *)
From Coq Require Import List ZArith NArith Bool Lia PeanoNat.
From UV Require Import Model.Node Model.Sig Model.Exec Model.TreeOk
  Proofs.SimBase Proofs.SigMono Proofs.SigSound Proofs.Frame Proofs.TreeOk.
Import ListNotations.

(** what the V tie evaluates on every exported (before, after) pair: both halves are inside the
    frame theorem's fragment, `before` only pushes k values on the context stack and `after`
    pops exactly those *)
Definition under_balancedb (asm : list node) (b a : node) : bool :=
  match node_sig b, node_sig a with
  | Some sb, Some sa_ =>
      Nat.eqb (sua sb) 0 && Nat.eqb (suo sa_) 0 && Nat.eqb (suo sb) (sua sa_) &&
      tree_okb asm b && tree_okb asm a
  | _, _ => false end.

Section UnderFrame.
  Variable pknown : N -> list sval -> bool.
  Variable psem : N -> option (list sval) -> list sval -> option (list sval).
  Variable arrsem : bool -> list sval -> option sval.
  Variable unpacksem : nat -> bool -> sval -> option (list sval).
  Variable fmtsem : list sval -> sval.
  Variable asm : list node.
  Notation exec := (Exec.exec pknown psem arrsem unpacksem fmtsem asm).
  Notation tree_ok := (tree_ok asm).
  Notation asm_ok := (asm_ok asm).

  Lemma exec_run3 fuel b g a s :
    exec (S fuel) (Run [b; g; a]) s =
    match exec fuel b s with
    | Ok s1 => match exec fuel g s1 with Ok s2 => exec fuel a s2 | r => r end
    | r => r end.
  Proof.
    cbn [Exec.exec run_list fold_left bind].
    destruct (exec fuel b s); cbn [bind]; auto.
    destruct (exec fuel g s0); cbn [bind]; auto.
  Qed.

  (** the premises shared by the two theorems *)
  Record under_shape (b g a : node) (sb sg sa_ : sig) : Prop := {
    us_tb : tree_ok b; us_tg : tree_ok g; us_ta : tree_ok a;
    us_sb : node_sig b = Some sb; us_sg : node_sig g = Some sg; us_sa : node_sig a = Some sa_;
    us_b0 : sua sb = 0; us_a0 : suo sa_ = 0; us_k : suo sb = sua sa_;
    us_g0 : sua sg = 0; us_g1 : suo sg = 0 }.

  (** enough values on the stack for the three stages *)
  Definition under_depth (sb sg sa_ : sig) (n : nat) : Prop :=
    sa sb <= n /\ sa sg <= so sb + (n - sa sb) /\ sa sa_ <= so sg + (so sb + (n - sa sb) - sa sg).

  Theorem under_no_residue : asm_ok -> forall b g a sb sg sa_, under_shape b g a sb sg sa_ ->
    forall fuel s, under_depth sb sg sa_ (length (stk s)) ->
    match exec fuel (Run [b; g; a]) s with
    | Ok s' => und s' = und s /\ hid s' = hid s
    | Err _ s' => (exists uj, und s' = uj ++ und s) /\ hid s' = hid s
    | OOF | Unk => True end.
  Proof.
    intros HA b g a sb sg sa_ [Tb Tg Ta Sb Sg Sa B0 A0 K G0 G1] fuel s (D1 & D2 & D3).
    destruct fuel as [|fuel]; [exact I|]. rewrite exec_run3.
    pose proof (sig_sound pknown psem arrsem unpacksem fmtsem asm HA b sb Tb Sb fuel s D1 ltac:(lia)) as Hb.
    destruct (exec fuel b s) as [s1|c s1| |]; auto.
    2:{ destruct Hb as (j & uj & _ & E & Hh). rewrite B0 in E. cbn [skipn] in E. split; eauto. }
    destruct Hb as (o1 & u1 & E1 & L1 & U1 & LU1 & H1). rewrite B0 in U1. cbn [skipn] in U1.
    assert (Ls1 : length (stk s1) = so sb + (length (stk s) - sa sb)).
    { rewrite E1, app_length, skipn_length. lia. }
    pose proof (sig_sound pknown psem arrsem unpacksem fmtsem asm HA g sg Tg Sg fuel s1 ltac:(lia) ltac:(lia)) as Hg.
    destruct (exec fuel g s1) as [s2|c s2| |]; auto.
    2:{ destruct Hg as (j & uj & _ & E & Hh). rewrite G0 in E. cbn [skipn] in E.
        split; [exists (uj ++ u1); rewrite E, U1, app_assoc; reflexivity | congruence]. }
    destruct Hg as (o2 & u2 & E2 & L2 & U2 & LU2 & H2). rewrite G0 in U2. cbn [skipn] in U2.
    rewrite G1 in LU2. destruct u2; [|discriminate]. cbn [app] in U2.
    assert (Ls2 : length (stk s2) = so sg + (length (stk s1) - sa sg)).
    { rewrite E2, app_length, skipn_length. lia. }
    assert (Lu2 : sua sa_ <= length (und s2)).
    { rewrite U2, U1, app_length. lia. }
    pose proof (sig_sound pknown psem arrsem unpacksem fmtsem asm HA a sa_ Ta Sa fuel s2 ltac:(lia) Lu2) as Ha.
    assert (Sk : skipn (sua sa_) (und s2) = und s).
    { rewrite U2, U1, <- K, <- LU1, skipn_app, Nat.sub_diag, skipn_all. reflexivity. }
    destruct (exec fuel a s2) as [s3|c s3| |]; auto.
    - destruct Ha as (o3 & u3 & E3 & L3 & U3 & LU3 & H3). rewrite A0 in LU3. destruct u3; [|discriminate].
      cbn [app] in U3. split; congruence.
    - destruct Ha as (j & uj & _ & E & Hh). rewrite Sk in E. split; [eauto | congruence].
  Qed.

  (** success: the context stack after `⍜F G` is the one before it *)
  Corollary under_no_residue_ok : asm_ok -> forall b g a sb sg sa_, under_shape b g a sb sg sa_ ->
    forall fuel s s', under_depth sb sg sa_ (length (stk s)) ->
    exec fuel (Run [b; g; a]) s = Ok s' -> und s' = und s.
  Proof.
    intros HA b g a sb sg sa_ Hs fuel s s' D Hx.
    pose proof (under_no_residue HA b g a sb sg sa_ Hs fuel s D) as H. rewrite Hx in H. tauto.
  Qed.

  (** failure anywhere inside F's do-part, inside G, or inside the undo-part: what is left on the
      context stack lies strictly above the original content, and the truncation that
      exec_clean_stack performs for a handler (`⍣`) restores it exactly; fill stack, fill
      boundaries and call depth are the original ones *)
  Corollary under_no_residue_err : asm_ok -> forall b g a sb sg sa_, under_shape b g a sb sg sa_ ->
    forall fuel s c s', under_depth sb sg sa_ (length (stk s)) ->
    exec fuel (Run [b; g; a]) s = Err c s' ->
    Exec.keep_bottom (length (und s)) (und s') = und s /\ hid s' = hid s.
  Proof.
    intros HA b g a sb sg sa_ Hs fuel s c s' D Hx.
    pose proof (under_no_residue HA b g a sb sg sa_ Hs fuel s D) as H. rewrite Hx in H.
    destruct H as [[uj E] Hh]. split; auto.
    rewrite E. pose proof (keep_bottom_frame uj (und s) 0 ltac:(lia)) as K.
    cbn [skipn] in K. rewrite Nat.sub_0_r in K. exact K.
  Qed.
End UnderFrame.

Lemma under_balancedb_sound asm b a : under_balancedb asm b a = true ->
  exists sb sa_, node_sig b = Some sb /\ node_sig a = Some sa_ /\ sua sb = 0 /\ suo sa_ = 0 /\
                 suo sb = sua sa_ /\ tree_ok asm b /\ tree_ok asm a.
Proof.
  unfold under_balancedb. destruct (node_sig b) as [sb|]; [|discriminate].
  destruct (node_sig a) as [sa_|]; [|discriminate]. intros H.
  repeat (apply andb_prop in H; destruct H as [H ?]).
  repeat match goal with H : Nat.eqb _ _ = true |- _ => apply Nat.eqb_eq in H end.
  exists sb, sa_. repeat split; auto using tree_okb_sound.
Qed.
