(** C07 — the transpose kernel at a depth (monadic/mod.rs transpose_depth(depth, 1), what `≡⍉`,
    `≡≡⍉` run) is a blockwise kernel, hence d nested rows of transpose. *)
From Coq Require Import List ZArith NArith Bool Arith Lia.
From UV Require Import Model.Prims Model.Kernels Proofs.Prims Proofs.KernelsBase Proofs.KernelsAtoms Proofs.Kernels.
Import ListNotations.

Lemma chunk_nil_repeat {A} c n : chunk c n (@nil A) = repeat [] n.
Proof. induction n; cbn [chunk repeat]; auto. rewrite firstn_nil, skipn_nil, IHn. reflexivity. Qed.
Lemma concat_repeat_nil {A} n : concat (repeat (@nil A) n) = [].
Proof. induction n; cbn; auto. Qed.
Lemma map_repeat_nil {A} (h : list A -> list A) n : h [] = [] -> map h (repeat [] n) = repeat [] n.
Proof. intros H. induction n; cbn; auto. rewrite H, IHn. reflexivity. Qed.
Lemma cols_nil {A} m n : concat (cols m (repeat (@nil A) n)) = [].
Proof.
  induction m; cbn [cols concat]; auto.
  rewrite (map_repeat_nil (firstn 1)), (map_repeat_nil (skipn 1)), concat_repeat_nil by reflexivity. cbn [app]. exact IHm.
Qed.
Lemma trans_block_nil n rl : trans_block n rl [] = [].
Proof. unfold trans_block. rewrite chunk_nil_repeat. apply cols_nil. Qed.

Definition trans_shape (rs : list nat) : list nat :=
  match rs with n :: (r0 :: rest) => (r0 :: rest) ++ [n] | _ => rs end.
Definition bk_trans : bk := BK trans_shape (fun t => t)
  (fun _ rs blk => match rs with n :: (r0 :: rest) => Ok (trans_block n (prodn (r0 :: rest)) blk) | _ => Ok blk end).

Lemma trans_bk0 x : wf x -> run_bk bk_trans 0 x = sem FTrans x.
Proof.
  intros W. destruct x as [t sh dat]. unfold run_bk, dmin, blocks, bk_trans, wf in *; cbn [aty ash adata bk_data bk_ty bk_shape Nat.min firstn skipn app prodn fold_right chunk] in *.
  rewrite <- W, firstn_all. cbn [sem p_transpose ash aty adata].
  destruct sh as [|n [|r0 rest]]; cbn [mapM bind concat trans_shape]; rewrite app_nil_r; reflexivity.
Qed.

Lemma nth_zero_prod : forall (l : list nat) i, i < length l -> nth i l 1 = 0 -> prodn (firstn (S i) l) = 0.
Proof.
  induction l as [|a l IH]; intros i Hi Hn; [cbn in Hi; lia|].
  destruct i; cbn [nth firstn] in *; rewrite prodn_cons.
  - subst a. reflexivity.
  - rewrite (IH i) by (cbn in Hi; auto; lia). lia.
Qed.

Lemma k_transpose_bk d x : wf x -> Ok (k_transpose d x) = run_bk bk_trans d x.
Proof.
  intros W. unfold run_bk, bk_trans; cbn [bk_data bk_ty bk_shape].
  pose proof (skipn_length (dmin d x) (ash x)) as Lr.
  pose proof (dmin_le d x) as Hle.
  destruct (skipn (dmin d x) (ash x)) as [|n [|r0 rest]] eqn:E.
  - (* nothing below the depth *)
    rewrite (mapM_ok_map (fun b => b)), map_id. cbn [bind trans_shape]. rewrite blocks_concat by auto.
    rewrite <- E, firstn_skipn. unfold k_transpose. destruct (ash x) eqn:Es; [destruct x; cbn in *; subst; reflexivity|].
    rewrite <- Es in *. cbn [length] in Lr.
    replace (length (ash x) - dmin d x <? 2) with true by (symmetry; apply Nat.ltb_lt; lia).
    cbn [orb]. destruct x; reflexivity.
  - (* one axis below the depth *)
    rewrite (mapM_ok_map (fun b => b)), map_id. cbn [bind trans_shape]. rewrite blocks_concat by auto.
    rewrite <- E, firstn_skipn. unfold k_transpose. destruct (ash x) eqn:Es; [destruct x; cbn in *; subst; reflexivity|].
    rewrite <- Es in *. cbn [length] in Lr.
    replace (length (ash x) - dmin d x <? 2) with true by (symmetry; apply Nat.ltb_lt; lia).
    cbn [orb]. destruct x; reflexivity.
  - (* at least two axes below the depth: the blocks are transposed *)
    cbn [length] in Lr.
    rewrite (mapM_ok_map (trans_block n (prodn (r0 :: rest)))). cbn [bind trans_shape].
    unfold k_transpose. destruct (ash x) as [|a0 s0] eqn:Es.
    { rewrite skipn_nil in E. discriminate. }
    rewrite <- Es in *.
    assert (Hrk : 2 <= length (ash x)) by lia.
    replace (length (ash x) - dmin d x <? 2) with false by (symmetry; apply Nat.ltb_ge; lia).
    rewrite (Nat.mod_small 1 (length (ash x))) by lia.
    replace (dmin d x + 1 =? length (ash x)) with false by (symmetry; apply Nat.eqb_neq; lia).
    change (1 =? 0) with false. cbn [orb]. rewrite E.
    destruct (existsb (Nat.eqb 0) (n :: r0 :: rest) || (0 <? dmin d x) && (nth (dmin d x - 1) (ash x) 1 =? 0)) eqn:Z; [|reflexivity].
    (* some axis is empty: there is no data, only the shape turns *)
    assert (D0 : adata x = []).
    { pose proof (wf_blocks_len (dmin d x) x W) as Ln. rewrite E in Ln.
      apply orb_true_iff in Z. destruct Z as [Z|Z].
      - apply existsb_zero_prod in Z. rewrite Z, Nat.mul_0_r in Ln. destruct (adata x); [reflexivity|discriminate].
      - apply andb_true_iff in Z. destruct Z as [Z1 Z2]. apply Nat.ltb_lt in Z1. apply Nat.eqb_eq in Z2.
        assert (P0 : prodn (firstn (dmin d x) (ash x)) = 0).
        { replace (dmin d x) with (S (dmin d x - 1)) at 1 by lia. apply nth_zero_prod; auto. lia. }
        rewrite P0 in Ln. destruct (adata x); [reflexivity|discriminate]. }
    f_equal. f_equal. rewrite D0. symmetry.
    rewrite map_id_in.
    + rewrite blocks_concat; auto.
    + intros b Hb. unfold blocks in Hb. rewrite D0, chunk_nil_repeat in Hb. apply repeat_spec in Hb. subst b. apply trans_block_nil.
Qed.

(** transpose at depth d = d nested rows of transpose, on every well-formed array of any rank whose
    mapped axes are non-empty *)
Theorem transpose_depth_eq_rows : forall d x, wf x -> lead_pos d (ash x) ->
  run_katom KTrans d x = rows_iter d (sem FTrans) x.
Proof.
  intros d x W L. cbn [run_katom]. rewrite k_transpose_bk, run_bk_rows_iter by auto.
  apply rows_iter_ext; auto. apply trans_bk0.
Qed.

(** over an empty mapped axis it still succeeds and keeps the mapped lengths *)
Theorem transpose_depth_empty_lead : forall d x i, wf x -> d <= length (ash x) ->
  first_zero (firstn d (ash x)) = Some i ->
  exists y, run_katom KTrans d x = Ok y /\ firstn (S i) (ash y) = firstn (S i) (ash x).
Proof. intros d x i W Hd Hz. cbn [run_katom]. rewrite k_transpose_bk by auto. apply run_bk_empty; auto. Qed.

(** end to end: the interpreter's rows^(k+1) of transpose = the definition, for arrays of any rank *)
Theorem exec_rows_transpose_eq : forall k x, wf x -> lead_pos (S k) (ash x) ->
  exec_mfn (rowsk (S k) FTrans) x = sem (rowsk (S k) FTrans) x.
Proof.
  intros k x W L.
  rewrite (exec_rows_cap FTrans [KTrans] 0 k x eq_refl). rewrite Nat.add_0_r. cbn [run_kernels].
  change (Nat.min (S k) (length (ash x))) with (dmin (S k) x).
  rewrite (transpose_depth_eq_rows _ x W (lead_pos_dmin (S k) x L)).
  rewrite sem_rowsk, (rows_iter_cap (sem FTrans) (S k) x W). unfold dmin.
  destruct (rows_iter (Nat.min (S k) (length (ash x))) (sem FTrans) x); reflexivity.
Qed.
